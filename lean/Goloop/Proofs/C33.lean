import Goloop.Model.C33
namespace Goloop.C33.Proofs
open Goloop Goloop.C33

theorem getD_set {α : Type} (l : List α) (i j : Nat) (a d : α) :
    (l.set i a).getD j d = if i = j ∧ i < l.length then a else l.getD j d := by
  simp only [List.getD_eq_getElem?_getD, List.getElem?_set]
  by_cases h : i = j
  · subst h
    by_cases hl : i < l.length
    · simp [hl]
    · simp [hl]
  · simp [h]

theorem getD_replicate {α : Type} (n i : Nat) (a : α) : (List.replicate n a).getD i a = a := by
  simp only [List.getD_eq_getElem?_getD, List.getElem?_replicate]
  split <;> rfl

/-- well-formedness of a pool state; holds for every reachable state. -/
structure WF (p : Pool) : Prop where
  nb1 : 1 ≤ p.nb
  bl1 : 1 ≤ p.bl
  blen : p.buckets.length = p.nb
  llen : p.lens.length = p.nb
  cur_lt : p.cur < p.nb
  low : ∀ i, i ≤ p.cur → p.B i ≠ none
  high : (∀ i, p.cur < i → p.B i = none) ∨ (∀ i, i < p.nb → p.B i ≠ none)

/-- `h` is stored in some bucket. -/
def Mem (p : Pool) (h : UInt64) : Prop := ∃ i m, p.B i = some m ∧ h ∈ m

theorem B_some_lt (p : Pool) (i : Nat) (m : List UInt64) (h : p.B i = some m) :
    i < p.buckets.length := by
  unfold Pool.B at h
  rw [List.getD_eq_getElem?_getD] at h
  by_cases hl : i < p.buckets.length
  · exact hl
  · rw [List.getElem?_eq_none (by omega)] at h
    simp at h

theorem loop_none (p : Pool) (h : UInt64) (f c : Nat) (hb : p.B c = none) :
    containsLoop p h (f + 1) c = false := by
  rw [containsLoop, hb]

theorem loop_hit (p : Pool) (h : UInt64) (f c : Nat) (m : List UInt64) (hb : p.B c = some m)
    (hm : m.contains h = true) : containsLoop p h (f + 1) c = true := by
  rw [containsLoop, hb]; simp only [hm, if_true]

theorem loop_miss (p : Pool) (h : UInt64) (f c : Nat) (m : List UInt64) (hb : p.B c = some m)
    (hm : ¬ m.contains h = true) :
    containsLoop p h (f + 1) c = containsLoop p h f (if c < 1 then p.nb - 1 else c - 1) := by
  rw [containsLoop, hb]; simp only [hm]; rfl

theorem loop_sound (p : Pool) (h : UInt64) :
    ∀ f c, containsLoop p h f c = true → Mem p h := by
  intro f
  induction f with
  | zero => intro c hc; simp [containsLoop] at hc
  | succ f ih =>
    intro c hc
    cases hb : p.B c with
    | none => rw [loop_none p h f c hb] at hc; cases hc
    | some m =>
      by_cases hm : m.contains h = true
      · exact ⟨c, m, hb, by simpa using hm⟩
      · rw [loop_miss p h f c m hb hm] at hc
        exact ih _ hc

theorem loop_down (p : Pool) (h : UInt64) (i : Nat) (m : List UInt64)
    (hi : p.B i = some m) (hm : h ∈ m) :
    ∀ f c, i ≤ c → c - i < f → (∀ j, i ≤ j → j ≤ c → p.B j ≠ none) →
      containsLoop p h f c = true := by
  intro f
  induction f with
  | zero => intro c _ h2; omega
  | succ f ih =>
    intro c h1 h2 h3
    cases hb : p.B c with
    | none => exact absurd hb (h3 c h1 (Nat.le_refl _))
    | some m' =>
      by_cases hc : m'.contains h = true
      · exact loop_hit p h f c m' hb hc
      · have hne : c ≠ i := by
          intro e; subst e
          rw [hi] at hb; cases hb
          exact hc (by simpa using hm)
        have hc1 : ¬ c < 1 := by omega
        rw [loop_miss p h f c m' hb hc]
        simp only [hc1, if_false]
        apply ih (c - 1) (by omega) (by omega)
        intro j hj1 hj2
        exact h3 j hj1 (by omega)

theorem loop_wrap (p : Pool) (h : UInt64) :
    ∀ c f, c < f → (∀ j, j ≤ c → p.B j ≠ none) →
      containsLoop p h f c = true ∨
      containsLoop p h f c = containsLoop p h (f - (c + 1)) (p.nb - 1) := by
  intro c
  induction c with
  | zero =>
    intro f hf h3
    obtain ⟨f', rfl⟩ : ∃ f', f = f' + 1 := ⟨f - 1, by omega⟩
    cases hb : p.B 0 with
    | none => exact absurd hb (h3 0 (Nat.le_refl _))
    | some m' =>
      by_cases hc : m'.contains h = true
      · left; exact loop_hit p h f' 0 m' hb hc
      · right; rw [loop_miss p h f' 0 m' hb hc]; simp
  | succ c ih =>
    intro f hf h3
    obtain ⟨f', rfl⟩ : ∃ f', f = f' + 1 := ⟨f - 1, by omega⟩
    cases hb : p.B (c + 1) with
    | none => exact absurd hb (h3 (c + 1) (Nat.le_refl _))
    | some m' =>
      by_cases hc : m'.contains h = true
      · left; exact loop_hit p h f' (c + 1) m' hb hc
      · have hc1 : ¬ c + 1 < 1 := by omega
        rw [loop_miss p h f' (c + 1) m' hb hc]
        simp only [hc1, if_false, Nat.add_sub_cancel]
        have := ih f' (by omega) (fun j hj => h3 j (by omega))
        have e : f' + 1 - (c + 1 + 1) = f' - (c + 1) := by omega
        rw [e]
        exact this

theorem contains_iff (p : Pool) (wf : WF p) (h : UInt64) : contains p h = true ↔ Mem p h := by
  constructor
  · exact loop_sound p h _ _
  · rintro ⟨i, m, hi, hm⟩
    have hlt : i < p.nb := by have := B_some_lt p i m hi; rw [wf.blen] at this; exact this
    unfold contains
    by_cases hle : i ≤ p.cur
    · exact loop_down p h i m hi hm p.nb p.cur hle (by have := wf.cur_lt; omega)
        (fun j _ hj => wf.low j hj)
    · have hall : ∀ j, j < p.nb → p.B j ≠ none := by
        rcases wf.high with hh | hh
        · have := hh i (by omega); rw [hi] at this; cases this
        · exact hh
      rcases loop_wrap p h p.cur p.nb wf.cur_lt (fun j hj => wf.low j hj) with hw | hw
      · exact hw
      · rw [hw]
        exact loop_down p h i m hi hm _ _ (by omega) (by omega)
          (fun j _ hj => hall j (by have := wf.nb1; omega))

theorem contains_false_iff (p : Pool) (wf : WF p) (h : UInt64) :
    contains p h = false ↔ ¬ Mem p h := by
  rw [← contains_iff p wf h]; simp

/-! ### what an accepted `Put` does -/

def curLen (p : Pool) : Nat := p.lens.getD p.cur 0
def nextCur (p : Pool) : Nat := if p.cur + 1 ≥ p.nb then 0 else p.cur + 1
theorem nextCur_eq (p : Pool) : nextCur p = (if p.cur + 1 ≥ p.nb then 0 else p.cur + 1) := rfl

theorem put_rejected (p : Pool) (h : UInt64) (hc : contains p h = true) : put p h = (p, false) := by
  simp [put, hc]

def putNoRot (p : Pool) (h : UInt64) : Pool :=
  { p with buckets := p.buckets.set p.cur (some (h :: (p.B p.cur).getD [])),
           lens := p.lens.set p.cur (p.lens.getD p.cur 0 + 1) }

def putRot (p : Pool) (h : UInt64) : Pool :=
  { p with buckets := (p.buckets.set p.cur (some (h :: (p.B p.cur).getD []))).set (nextCur p) (some []),
           lens := (p.lens.set p.cur (p.lens.getD p.cur 0 + 1)).set (nextCur p) 0,
           cur := nextCur p }

theorem put_eq_norot (p : Pool) (h : UInt64) (hc : contains p h = false)
    (hl : curLen p + 1 < p.bl) : put p h = (putNoRot p h, true) := by
  have hl' : ¬ (p.lens.getD p.cur 0 + 1 ≥ p.bl) := by unfold curLen at hl; omega
  unfold put
  rw [if_neg (by simp [hc])]
  simp only []
  rw [if_neg hl']
  rfl

theorem put_eq_rot (p : Pool) (h : UInt64) (hc : contains p h = false)
    (hl : curLen p + 1 ≥ p.bl) : put p h = (putRot p h, true) := by
  have hl' : (p.lens.getD p.cur 0 + 1 ≥ p.bl) := by unfold curLen at hl; omega
  unfold put
  rw [if_neg (by simp [hc])]
  simp only []
  rw [if_pos hl']
  rfl

theorem put_accepted_flag (p : Pool) (h : UInt64) (hc : contains p h = false) :
    (put p h).2 = true := by
  by_cases hl : curLen p + 1 < p.bl
  · rw [put_eq_norot p h hc hl]
  · rw [put_eq_rot p h hc (by omega)]

theorem put_flag_iff (p : Pool) (h : UInt64) : (put p h).2 = true ↔ contains p h = false := by
  cases hc : contains p h with
  | true => simp [put_rejected p h hc]
  | false => simp [put_accepted_flag p h hc]

/-- effect of an accepted `Put` on a well-formed pool, no rotation. -/
theorem norot_spec (p : Pool) (wf : WF p) (h : UInt64) :
    (putNoRot p h).nb = p.nb ∧ (putNoRot p h).bl = p.bl ∧
    (putNoRot p h).buckets.length = p.nb ∧ (putNoRot p h).lens.length = p.nb ∧
    (putNoRot p h).cur = p.cur ∧ curLen (putNoRot p h) = curLen p + 1 ∧
    (∀ j, (putNoRot p h).B j = if j = p.cur then some (h :: (p.B p.cur).getD []) else p.B j) := by
  have h1 := wf.cur_lt; have h2 := wf.blen; have h3 := wf.llen
  refine ⟨rfl, rfl, by simp [putNoRot, wf.blen], by simp [putNoRot, wf.llen], rfl, ?_, ?_⟩
  · simp only [curLen, putNoRot]
    rw [getD_set]
    rw [if_pos ⟨rfl, by omega⟩]
  · intro j
    simp only [Pool.B, putNoRot]
    rw [getD_set]
    by_cases e : j = p.cur
    · rw [e, if_pos ⟨rfl, by omega⟩, if_pos rfl]
    · have : ¬ (p.cur = j ∧ p.cur < p.buckets.length) := by intro ⟨a, _⟩; exact e a.symm
      rw [if_neg this, if_neg e]

/-- effect of an accepted `Put` that fills the current bucket: rotation. -/
theorem rot_spec (p : Pool) (wf : WF p) (h : UInt64) :
    (putRot p h).nb = p.nb ∧ (putRot p h).bl = p.bl ∧
    (putRot p h).buckets.length = p.nb ∧ (putRot p h).lens.length = p.nb ∧
    (putRot p h).cur = nextCur p ∧ curLen (putRot p h) = 0 ∧
    (∀ j, (putRot p h).B j = if j = nextCur p then some []
                   else if j = p.cur then some (h :: (p.B p.cur).getD []) else p.B j) := by
  have h1 := wf.cur_lt; have h2 := wf.blen; have h3 := wf.llen
  have hn : nextCur p < p.nb := by unfold nextCur; split <;> omega
  refine ⟨rfl, rfl, by simp [putRot, wf.blen], by simp [putRot, wf.llen], rfl, ?_, ?_⟩
  · simp only [curLen, putRot]
    rw [getD_set]
    rw [if_pos ⟨rfl, by simp; omega⟩]
  · intro j
    simp only [Pool.B, putRot]
    rw [getD_set, getD_set]
    by_cases e1 : j = nextCur p
    · rw [e1, if_pos ⟨rfl, by simp; omega⟩, if_pos rfl]
    · have n1 : ¬ (nextCur p = j ∧ nextCur p < (p.buckets.set p.cur
          (some (h :: (p.buckets.getD p.cur none).getD []))).length) := by
        intro ⟨a, _⟩; exact e1 a.symm
      rw [if_neg n1, if_neg e1]
      by_cases e2 : j = p.cur
      · rw [e2, if_pos ⟨rfl, by omega⟩, if_pos rfl]
      · have : ¬ (p.cur = j ∧ p.cur < p.buckets.length) := by intro ⟨a, _⟩; exact e2 a.symm
        rw [if_neg this, if_neg e2]

def distN (cur nb i : Nat) : Nat := if i > cur then i - cur else i + nb - cur
def nextN (cur nb : Nat) : Nat := if cur + 1 ≥ nb then 0 else cur + 1

theorem nextN_cases (cur nb : Nat) :
    (cur + 1 ≥ nb ∧ nextN cur nb = 0) ∨ (cur + 1 < nb ∧ nextN cur nb = cur + 1) := by
  unfold nextN; split
  · left; exact ⟨by assumption, rfl⟩
  · right; exact ⟨by omega, rfl⟩

theorem distN_next (cur nb i : Nat) (hi : i = nextN cur nb) (hc : cur < nb) : distN cur nb i = 1 := by
  rcases nextN_cases cur nb with ⟨a, b⟩ | ⟨a, b⟩ <;> rw [b] at hi <;> subst hi <;> unfold distN <;>
    split <;> omega

theorem distN_step (cur nb i : Nat) (hi : i ≠ nextN cur nb) (hl : i < nb) (hc : cur < nb) :
    distN (nextN cur nb) nb i + 1 = distN cur nb i ∧ 1 ≤ distN (nextN cur nb) nb i := by
  rcases nextN_cases cur nb with ⟨a, b⟩ | ⟨a, b⟩ <;> rw [b] at hi ⊢ <;> unfold distN <;>
    split <;> split <;> omega

theorem distN_self (cur nb : Nat) : distN cur nb cur = nb := by
  unfold distN; split <;> omega

theorem distN_prev (cur nb : Nat) (h2 : 2 ≤ nb) (hc : cur < nb) :
    distN (nextN cur nb) nb cur = nb - 1 ∧ cur ≠ nextN cur nb := by
  rcases nextN_cases cur nb with ⟨a, b⟩ | ⟨a, b⟩ <;> rw [b] <;> unfold distN <;>
    split <;> omega


/-! ### invariants -/

theorem wf_norot (p : Pool) (wf : WF p) (h : UInt64) : WF (putNoRot p h) := by
  obtain ⟨e1, e2, e3, e4, e5, _, eB⟩ := norot_spec p wf h
  refine ⟨by rw [e1]; exact wf.nb1, by rw [e2]; exact wf.bl1, by rw [e3, e1], by rw [e4, e1],
    by rw [e5, e1]; exact wf.cur_lt, ?_, ?_⟩
  · intro i hi
    rw [eB i]
    split
    · simp
    · exact wf.low i (by rw [e5] at hi; exact hi)
  · rcases wf.high with hh | hh
    · left; intro i hi
      rw [e5] at hi
      rw [eB i, if_neg (by omega)]
      exact hh i hi
    · right; intro i hi
      rw [eB i]
      split
      · simp
      · exact hh i (by rw [e1] at hi; exact hi)

theorem wf_rot (p : Pool) (wf : WF p) (h : UInt64) : WF (putRot p h) := by
  obtain ⟨e1, e2, e3, e4, e5, _, eB⟩ := rot_spec p wf h
  have hc := wf.cur_lt
  have hn : nextCur p < p.nb := by unfold nextCur; split <;> omega
  refine ⟨by rw [e1]; exact wf.nb1, by rw [e2]; exact wf.bl1, by rw [e3, e1], by rw [e4, e1],
    by rw [e5, e1]; exact hn, ?_, ?_⟩
  · intro i hi
    rw [e5] at hi
    rw [eB i]
    by_cases a : i = nextCur p
    · rw [if_pos a]; simp
    · rw [if_neg a]
      by_cases b : i = p.cur
      · rw [if_pos b]; simp
      · rw [if_neg b]
        apply wf.low i
        have hnn : nextCur p = nextN p.cur p.nb := rfl
        rw [hnn] at hi a
        rcases nextN_cases p.cur p.nb with ⟨_, b'⟩ | ⟨_, b'⟩ <;> rw [b'] at hi a <;> omega
  · by_cases hw : p.cur + 1 ≥ p.nb
    · right; intro i hi
      rw [e1] at hi
      rw [eB i]
      by_cases a : i = nextCur p
      · rw [if_pos a]; simp
      · rw [if_neg a]
        by_cases b : i = p.cur
        · rw [if_pos b]; simp
        · rw [if_neg b]; exact wf.low i (by omega)
    · have hnc : nextCur p = p.cur + 1 := by unfold nextCur; rw [if_neg hw]
      rcases wf.high with hh | hh
      · left; intro i hi
        rw [e5, hnc] at hi
        rw [eB i, if_neg (by omega), if_neg (by omega)]
        exact hh i (by omega)
      · right; intro i hi
        rw [e1] at hi
        rw [eB i]
        by_cases a : i = nextCur p
        · rw [if_pos a]; simp
        · rw [if_neg a]
          by_cases b : i = p.cur
          · rw [if_pos b]; simp
          · rw [if_neg b]; exact hh i hi

theorem wf_put (p : Pool) (wf : WF p) (h : UInt64) : WF (put p h).1 := by
  cases hc : contains p h with
  | true => rw [put_rejected p h hc]; exact wf
  | false =>
    by_cases hl : curLen p + 1 < p.bl
    · rw [put_eq_norot p h hc hl]; exact wf_norot p wf h
    · rw [put_eq_rot p h hc (by omega)]; exact wf_rot p wf h

theorem wf_new (nb bl : Nat) (h1 : 1 ≤ nb) (h2 : 1 ≤ bl) : WF (newPool nb bl) := by
  have hB : ∀ i, (newPool nb bl).B i = if i = 0 then some [] else none := by
    intro i
    simp only [Pool.B, newPool]
    rw [getD_set]
    by_cases e : i = 0
    · rw [e, if_pos ⟨rfl, by simp; omega⟩, if_pos rfl]
    · rw [if_neg (by intro ⟨a, _⟩; exact e a.symm), if_neg e]
      exact getD_replicate nb i none
  refine ⟨h1, h2, by simp [newPool], by simp [newPool], by simp [newPool]; omega, ?_, ?_⟩
  · intro i hi
    have : i = 0 := by simp [newPool] at hi; exact hi
    rw [hB, if_pos this]; simp
  · left; intro i hi
    have : i ≠ 0 := by simp [newPool] at hi; omega
    rw [hB, if_neg this]

theorem wf_clear (p : Pool) (wf : WF p) : WF (clear p) := by
  have h1 := wf.nb1
  have hB : ∀ i, (clear p).B i = if i = 0 then some [] else none := by
    intro i
    simp only [Pool.B, clear]
    rw [getD_set]
    by_cases e : i = 0
    · rw [e, if_pos ⟨rfl, by simp; omega⟩, if_pos rfl]
    · rw [if_neg (by intro ⟨a, _⟩; exact e a.symm), if_neg e]
      exact getD_replicate p.nb i none
  refine ⟨wf.nb1, wf.bl1, by simp [clear], wf.llen, by simp [clear]; omega, ?_, ?_⟩
  · intro i hi
    have : i = 0 := by simp [clear] at hi; exact hi
    rw [hB, if_pos this]; simp
  · left; intro i hi
    have : i ≠ 0 := by simp [clear] at hi; omega
    rw [hB, if_neg this]

/-! ### retention -/

/-- accepted puts until the next rotation -/
def gap (p : Pool) : Nat := max 1 (p.bl - curLen p)
/-- rotations until bucket `i` is overwritten -/
def dist (p : Pool) (i : Nat) : Nat := if i > p.cur then i - p.cur else i + p.nb - p.cur

/-- `h` is guaranteed to stay in the pool for the next `t` accepted puts. -/
def Safe (p : Pool) (h : UInt64) (t : Nat) : Prop :=
  t = 0 ∨ ∃ i m, p.B i = some m ∧ h ∈ m ∧ t ≤ gap p + (dist p i - 1) * p.bl

theorem safe_contains (p : Pool) (wf : WF p) (h : UInt64) (t : Nat) (hs : Safe p h (t + 1)) :
    contains p h = true := by
  rcases hs with h0 | ⟨i, m, hb, hm, _⟩
  · omega
  · exact (contains_iff p wf h).mpr ⟨i, m, hb, hm⟩

theorem safe_mono (p : Pool) (h : UInt64) (t t' : Nat) (hle : t' ≤ t) (hs : Safe p h t) :
    Safe p h t' := by
  rcases hs with h0 | ⟨i, m, hb, hm, ht⟩
  · left; omega
  · right; exact ⟨i, m, hb, hm, by omega⟩

theorem arith_rot (t bl d d' : Nat) (hd : d' + 1 = d) (hd1 : 1 ≤ d')
    (h : t + 1 ≤ 1 + (d - 1) * bl) : t ≤ bl + (d' - 1) * bl := by
  obtain ⟨e, rfl⟩ : ∃ e, d' = e + 1 := ⟨d' - 1, by omega⟩
  subst hd
  simp only [Nat.add_sub_cancel] at h ⊢
  rw [Nat.succ_mul] at h
  omega

theorem B_cur_getD (p : Pool) (m : List UInt64) (hb : p.B p.cur = some m) :
    (p.B p.cur).getD [] = m := by rw [hb]; rfl

theorem dist_eq (p : Pool) (i : Nat) : dist p i = distN p.cur p.nb i := rfl
theorem nextCur_eqN (p : Pool) : nextCur p = nextN p.cur p.nb := rfl

theorem safe_step (p : Pool) (wf : WF p) (x h : UInt64) (t : Nat)
    (hc : contains p x = false) (hs : Safe p h (t + 1)) : Safe (put p x).1 h t := by
  rcases hs with h0 | ⟨i, m, hb, hm, ht⟩
  · omega
  have hi : i < p.nb := by have := B_some_lt p i m hb; rw [wf.blen] at this; exact this
  have hcur := wf.cur_lt
  by_cases hl : curLen p + 1 < p.bl
  · rw [put_eq_norot p x hc hl]
    change Safe (putNoRot p x) h t
    obtain ⟨e1, e2, _, _, e5, e6, eB⟩ := norot_spec p wf x
    right
    refine ⟨i, if i = p.cur then x :: m else m, ?_, ?_, ?_⟩
    · rw [eB i]
      by_cases a : i = p.cur
      · rw [if_pos a, if_pos a]; rw [a] at hb; rw [B_cur_getD p m hb]
      · rw [if_neg a, if_neg a]; exact hb
    · split
      · exact List.mem_cons_of_mem _ hm
      · exact hm
    · have hd : dist (putNoRot p x) i = dist p i := by rw [dist_eq, dist_eq, e5, e1]
      have hg : gap (putNoRot p x) + 1 = gap p := by unfold gap; rw [e6, e2]; omega
      rw [hd, e2]
      omega
  · have hl' : curLen p + 1 ≥ p.bl := by omega
    rw [put_eq_rot p x hc hl']
    change Safe (putRot p x) h t
    obtain ⟨e1, e2, _, _, e5, e6, eB⟩ := rot_spec p wf x
    have hg : gap p = 1 := by unfold gap; omega
    have hg' : gap (putRot p x) = p.bl := by unfold gap; rw [e6, e2]; have := wf.bl1; omega
    by_cases a : i = nextCur p
    · have hd : dist p i = 1 := by rw [dist_eq]; exact distN_next _ _ _ a hcur
      rw [hg, hd] at ht
      left; simp at ht; omega
    · right
      refine ⟨i, if i = p.cur then x :: m else m, ?_, ?_, ?_⟩
      · rw [eB i, if_neg a]
        by_cases b : i = p.cur
        · rw [if_pos b, if_pos b]; rw [b] at hb; rw [B_cur_getD p m hb]
        · rw [if_neg b, if_neg b]; exact hb
      · split
        · exact List.mem_cons_of_mem _ hm
        · exact hm
      · rw [hg', e2]
        have hstep := distN_step p.cur p.nb i a hi hcur
        have hd' : dist (putRot p x) i = distN (nextN p.cur p.nb) p.nb i := by
          rw [dist_eq, e5, e1, nextCur_eqN]
        rw [hd']
        exact arith_rot t p.bl (dist p i) _ hstep.1 hstep.2 (by rw [hg] at ht; exact ht)

theorem safe_new (p : Pool) (wf : WF p) (h : UInt64) (hc : contains p h = false) :
    Safe (put p h).1 h ((p.nb - 1) * p.bl) := by
  have hcur := wf.cur_lt
  have hbc : ∃ m, p.B p.cur = some m := by
    cases hb : p.B p.cur with
    | none => exact absurd hb (wf.low p.cur (Nat.le_refl _))
    | some m => exact ⟨m, rfl⟩
  obtain ⟨m, hb⟩ := hbc
  by_cases hl : curLen p + 1 < p.bl
  · rw [put_eq_norot p h hc hl]
    change Safe (putNoRot p h) h _
    obtain ⟨e1, e2, _, _, e5, e6, eB⟩ := norot_spec p wf h
    right
    refine ⟨p.cur, h :: m, ?_, List.mem_cons_self, ?_⟩
    · rw [eB, if_pos rfl, B_cur_getD p m hb]
    · have hd : dist (putNoRot p h) p.cur = p.nb := by rw [dist_eq, e5, e1]; exact distN_self _ _
      rw [hd, e2]; omega
  · have hl' : curLen p + 1 ≥ p.bl := by omega
    rw [put_eq_rot p h hc hl']
    change Safe (putRot p h) h _
    obtain ⟨e1, e2, _, _, e5, e6, eB⟩ := rot_spec p wf h
    have hg' : gap (putRot p h) = p.bl := by unfold gap; rw [e6, e2]; have := wf.bl1; omega
    by_cases hn1 : p.nb = 1
    · left; rw [hn1]; simp
    · right
      have hpv := distN_prev p.cur p.nb (by have := wf.nb1; omega) hcur
      have hne : p.cur ≠ nextCur p := hpv.2
      refine ⟨p.cur, h :: m, ?_, List.mem_cons_self, ?_⟩
      · rw [eB, if_neg hne, if_pos rfl, B_cur_getD p m hb]
      · have hd : dist (putRot p h) p.cur = p.nb - 1 := by
          rw [dist_eq, e5, e1, nextCur_eqN]; exact hpv.1
        rw [hd, e2, hg']
        obtain ⟨e, he⟩ : ∃ e, p.nb = e + 2 := ⟨p.nb - 2, by have := wf.nb1; omega⟩
        rw [he]
        have h1 : (e + 2 - 1) = e + 1 := by omega
        have h2 : e + 1 - 1 = e := by omega
        rw [h1, h2, Nat.succ_mul]; omega

/-! ### histories -/

/-- states reachable from `NewPacketPool(nb, bl)` by any sequence of `Put` / `Clear`. -/
inductive Reach (nb bl : Nat) : Pool → Prop where
  | new : Reach nb bl (newPool nb bl)
  | put (p : Pool) (h : UInt64) : Reach nb bl p → Reach nb bl (put p h).1
  | clear (p : Pool) : Reach nb bl p → Reach nb bl (clear p)

theorem reach_wf (nb bl : Nat) (h1 : 1 ≤ nb) (h2 : 1 ≤ bl) (p : Pool) (r : Reach nb bl p) :
    WF p ∧ p.nb = nb ∧ p.bl = bl := by
  induction r with
  | new => exact ⟨wf_new nb bl h1 h2, rfl, rfl⟩
  | put p h _ ih =>
    refine ⟨wf_put p ih.1 h, ?_, ?_⟩
    · cases hc : contains p h with
      | true => rw [put_rejected p h hc]; exact ih.2.1
      | false =>
        by_cases hl : curLen p + 1 < p.bl
        · rw [put_eq_norot p h hc hl]; exact ih.2.1
        · rw [put_eq_rot p h hc (by omega)]; exact ih.2.1
    · cases hc : contains p h with
      | true => rw [put_rejected p h hc]; exact ih.2.2
      | false =>
        by_cases hl : curLen p + 1 < p.bl
        · rw [put_eq_norot p h hc hl]; exact ih.2.2
        · rw [put_eq_rot p h hc (by omega)]; exact ih.2.2
  | clear p _ ih => exact ⟨wf_clear p ih.1, ih.2.1, ih.2.2⟩

/-- run `Put` over `xs`; `some n`: the first *accepted* `Put` of `h` in `xs` is preceded by
    exactly `n` accepted `Put`s (of other hashes); `none`: `h` is not accepted in `xs`. -/
def reaccept (p : Pool) (h : UInt64) : List UInt64 → Option Nat
  | [] => none
  | x :: xs =>
    if (put p x).2 then
      if x = h then some 0 else (reaccept (put p x).1 h xs).map (· + 1)
    else reaccept (put p x).1 h xs

theorem reaccept_ge (h : UInt64) : ∀ (xs : List UInt64) (p : Pool) (t n : Nat),
    WF p → Safe p h t → reaccept p h xs = some n → t ≤ n
  | [], _, _, _, _, _, hr => by simp [reaccept] at hr
  | x :: xs, p, t, n, wf, hs, hr => by
    unfold reaccept at hr
    cases hc : contains p x with
    | true =>
      rw [put_rejected p x hc] at hr
      simp only [Bool.false_eq_true, if_false] at hr
      exact reaccept_ge h xs p t n wf hs hr
    | false =>
      rw [put_accepted_flag p x hc] at hr
      simp only [if_true] at hr
      by_cases hx : x = h
      · subst hx
        cases t with
        | zero => omega
        | succ t =>
          have := safe_contains p wf x t hs
          rw [hc] at this; cases this
      · rw [if_neg hx] at hr
        cases hq : reaccept (put p x).1 h xs with
        | none => rw [hq] at hr; simp at hr
        | some n' =>
          rw [hq] at hr
          simp at hr
          cases t with
          | zero => omega
          | succ t =>
            have := reaccept_ge h xs (put p x).1 t n' (wf_put p wf x) (safe_step p wf x h t hc hs) hq
            omega

/-! ### onPacket -/

/-- the pool is touched only by a flooded (not one-hop) packet that passed every guard, and then
    by exactly one `Put` whose result decides between `deliver` and `dropDuplicate`. -/
theorem onPacket_cases (p : Pool) (e : Ev) :
    ((onPacket p e).1 = p ∧ ((onPacket p e).2 = .deliver → e.isOneHop = true)) ∨
    (e.isOneHop = false ∧ (onPacket p e).1 = (put p e.hash).1 ∧
      ((onPacket p e).2 = .deliver ↔ (put p e.hash).2 = true)) := by
  unfold onPacket
  by_cases h1 : (!e.peerHasProto) = true
  · left; simp [h1]
  rw [if_neg h1]
  by_cases h2 : e.connNone = true
  · left; simp [h2]
  rw [if_neg h2]
  by_cases h3 : (e.self == e.src) = true
  · left; simp [h3]
  rw [if_neg h3]
  by_cases h4 : (e.isOneHop && !e.isSourcePeer) = true
  · left; simp [h4]
  rw [if_neg h4]
  by_cases h5 : (e.isBroadcast && e.isSourcePeer && !e.hasRoot) = true
  · left; simp [h5]
  rw [if_neg h5]
  by_cases h6 : e.hasCb = true
  · rw [if_pos h6]
    by_cases h7 : e.isOneHop = true
    · left; simp [h7]
    · right
      rw [if_neg h7]
      refine ⟨by simpa using h7, ?_, ?_⟩
      · cases hq : (put p e.hash).2 <;> simp [hq]
      · cases hq : (put p e.hash).2 <;> simp [hq]
  · left; rw [if_neg h6]; simp

/-- run `onPacket` over a sequence of received packets (any peers, any order);
    `some n`: the first flooded packet with hash `h` that is delivered is preceded by exactly
    `n` other delivered flooded packets. -/
def redeliver (p : Pool) (h : UInt64) : List Ev → Option Nat
  | [] => none
  | e :: es =>
    if (onPacket p e).2 = .deliver ∧ e.isOneHop = false then
      if e.hash = h then some 0 else (redeliver (onPacket p e).1 h es).map (· + 1)
    else redeliver (onPacket p e).1 h es

theorem redeliver_ge (h : UInt64) : ∀ (es : List Ev) (p : Pool) (t n : Nat),
    WF p → Safe p h t → redeliver p h es = some n → t ≤ n
  | [], _, _, _, _, _, hr => by simp [redeliver] at hr
  | e :: es, p, t, n, wf, hs, hr => by
    unfold redeliver at hr
    rcases onPacket_cases p e with ⟨hp, hd⟩ | ⟨hoh, hp, hd⟩
    · have hno : ¬ ((onPacket p e).2 = .deliver ∧ e.isOneHop = false) := by
        intro ⟨a, b⟩; rw [hd a] at b; cases b
      rw [if_neg hno, hp] at hr
      exact redeliver_ge h es p t n wf hs hr
    · rw [hp] at hr
      cases hc : contains p e.hash with
      | true =>
        have hf : (put p e.hash).2 = false := by rw [put_rejected p e.hash hc]
        have hno : ¬ ((onPacket p e).2 = .deliver ∧ e.isOneHop = false) := by
          intro ⟨a, _⟩; rw [hd, hf] at a; cases a
        rw [if_neg hno, put_rejected p e.hash hc] at hr
        exact redeliver_ge h es p t n wf hs hr
      | false =>
        have hf : (put p e.hash).2 = true := put_accepted_flag p e.hash hc
        rw [if_pos ⟨hd.mpr hf, hoh⟩] at hr
        by_cases hx : e.hash = h
        · cases t with
          | zero => omega
          | succ t =>
            have := safe_contains p wf h t hs
            rw [← hx, hc] at this; cases this
        · rw [if_neg hx] at hr
          cases hq : redeliver (put p e.hash).1 h es with
          | none => rw [hq] at hr; simp at hr
          | some n' =>
            rw [hq] at hr
            simp at hr
            cases t with
            | zero => omega
            | succ t =>
              have := redeliver_ge h es (put p e.hash).1 t n' (wf_put p wf e.hash)
                (safe_step p wf e.hash h t hc hs) hq
              omega

/-! ### full onPacket -/

theorem onPacketFull_cases (p : Pool) (e : Ev) :
    ((onPacketFull p e).1 = p ∧ ((onPacketFull p e).2 = .deliver → e.isOneHop = true)) ∨
    (e.isOneHop = false ∧ (onPacketFull p e).1 = (put p e.hash).1 ∧
      ((onPacketFull p e).2 = .deliver ↔ (put p e.hash).2 = true)) := by
  unfold onPacketFull
  by_cases h1 : (!e.peerHasProto) = true
  · left; simp [h1]
  rw [if_neg h1]
  by_cases h2 : (e.protoId == 0) = true
  · left
    rw [if_pos h2]
    by_cases h3 : (e.protoVer == 0) = true
    · rw [if_pos h3]
      cases ctlOf e.sub <;> simp
    · rw [if_neg h3]; simp
  · rw [if_neg h2]; exact onPacket_cases p e

/-- generic node-level counting for any receive function with the `cases` property -/
def redeliverG (f : Pool → Ev → Pool × Outcome) (p : Pool) (h : UInt64) : List Ev → Option Nat
  | [] => none
  | e :: es =>
    if (f p e).2 = .deliver ∧ e.isOneHop = false then
      if e.hash = h then some 0 else (redeliverG f (f p e).1 h es).map (· + 1)
    else redeliverG f (f p e).1 h es

theorem redeliverG_ge (f : Pool → Ev → Pool × Outcome)
    (hf : ∀ p e, ((f p e).1 = p ∧ ((f p e).2 = .deliver → e.isOneHop = true)) ∨
      (e.isOneHop = false ∧ (f p e).1 = (put p e.hash).1 ∧
        ((f p e).2 = .deliver ↔ (put p e.hash).2 = true)))
    (h : UInt64) : ∀ (es : List Ev) (p : Pool) (t n : Nat),
    WF p → Safe p h t → redeliverG f p h es = some n → t ≤ n
  | [], _, _, _, _, _, hr => by simp [redeliverG] at hr
  | e :: es, p, t, n, wf, hs, hr => by
    unfold redeliverG at hr
    rcases hf p e with ⟨hp, hd⟩ | ⟨hoh, hp, hd⟩
    · have hno : ¬ ((f p e).2 = .deliver ∧ e.isOneHop = false) := by
        intro ⟨a, b⟩; rw [hd a] at b; cases b
      rw [if_neg hno, hp] at hr
      exact redeliverG_ge f hf h es p t n wf hs hr
    · rw [hp] at hr
      cases hc : contains p e.hash with
      | true =>
        have hfl : (put p e.hash).2 = false := by rw [put_rejected p e.hash hc]
        have hno : ¬ ((f p e).2 = .deliver ∧ e.isOneHop = false) := by
          intro ⟨a, _⟩; rw [hd, hfl] at a; cases a
        rw [if_neg hno, put_rejected p e.hash hc] at hr
        exact redeliverG_ge f hf h es p t n wf hs hr
      | false =>
        have hfl : (put p e.hash).2 = true := put_accepted_flag p e.hash hc
        rw [if_pos ⟨hd.mpr hfl, hoh⟩] at hr
        by_cases hx : e.hash = h
        · cases t with
          | zero => omega
          | succ t =>
            have := safe_contains p wf h t hs
            rw [← hx, hc] at this; cases this
        · rw [if_neg hx] at hr
          cases hq : redeliverG f (put p e.hash).1 h es with
          | none => rw [hq] at hr; simp at hr
          | some n' =>
            rw [hq] at hr
            simp at hr
            cases t with
            | zero => omega
            | succ t =>
              have := redeliverG_ge f hf h es (put p e.hash).1 t n' (wf_put p wf e.hash)
                (safe_step p wf e.hash h t hc hs) hq
              omega

end Goloop.C33.Proofs
