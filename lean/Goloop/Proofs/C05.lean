/-
  Proofs/C05 — helper lemmas for the commit vote list model.
-/
import Goloop.Model.C05
namespace Goloop.C05.Proofs
open Goloop.C05

theorem enoughVote_iff (voted voters : Nat) :
    enoughVote voted voters = true ↔ (voters = 0 ∨ 3 * voted > 2 * voters) := by
  unfold enoughVote
  split <;> simp_all <;> omega

theorem set_true_get_false (vset : List Bool) (idx i : Nat) :
    (vset.set idx true)[i]? = some false ↔ (vset[i]? = some false ∧ i ≠ idx) := by
  by_cases h : idx = i
  · subst h
    by_cases hl : idx < vset.length
    · simp [List.getElem?_set_self hl]
    · have : vset[idx]? = none := List.getElem?_eq_none (by omega)
      simp [List.getElem?_set, this]
  · rw [List.getElem?_set_ne h]
    constructor
    · intro h'; exact ⟨h', fun e => h e.symm⟩
    · intro h'; exact h'.1

/-- the loop succeeds exactly when every item recovers to a not yet marked slot and no index repeats -/
theorem loop_ok_iff {Item : Type} (signerOf : Item → Option Nat) (items : List Item) :
    ∀ vset : List Bool,
    (∃ out, loop signerOf items vset = some (some out)) ↔
      ((∀ it ∈ items, ∃ i, signerOf it = some i ∧ vset[i]? = some false) ∧ (items.map signerOf).Nodup) := by
  induction items with
  | nil => intro vset; simp [loop]
  | cons it rest ih =>
    intro vset
    simp only [loop]
    cases hs : signerOf it with
    | none => simp [hs]
    | some idx =>
      simp only
      cases hv : vset[idx]? with
      | none => simp [hs, hv]
      | some b =>
        cases b with
        | true => simp [hs, hv]
        | false =>
          simp only
          rw [ih (vset.set idx true)]
          simp only [List.mem_cons, forall_eq_or_imp, hs, List.map_cons, List.nodup_cons]
          constructor
          · rintro ⟨hall, hnd⟩
            refine ⟨⟨⟨idx, rfl, hv⟩, ?_⟩, ?_, hnd⟩
            · intro it' hit'
              obtain ⟨i, h1, h2⟩ := hall it' hit'
              exact ⟨i, h1, ((set_true_get_false _ _ _).1 h2).1⟩
            · intro hmem
              obtain ⟨it', hit', he⟩ := List.mem_map.1 hmem
              obtain ⟨i, h1, h2⟩ := hall it' hit'
              rw [h1] at he
              have := ((set_true_get_false _ _ _).1 h2).2
              exact this (by simpa using he)
          · rintro ⟨⟨_, hall⟩, hnm, hnd⟩
            refine ⟨?_, hnd⟩
            intro it' hit'
            obtain ⟨i, h1, h2⟩ := hall it' hit'
            refine ⟨i, h1, (set_true_get_false _ _ _).2 ⟨h2, ?_⟩⟩
            intro e
            apply hnm
            exact List.mem_map.2 ⟨it', hit', by rw [h1, e]⟩

/-- no Go panic when `IndexOf` honours its contract (indices below the length of the bitmap) -/
theorem loop_no_panic {Item : Type} (signerOf : Item → Option Nat) (items : List Item) :
    ∀ vset : List Bool, (∀ it ∈ items, ∀ i, signerOf it = some i → i < vset.length) →
      loop signerOf items vset ≠ none := by
  induction items with
  | nil => intro vset _; simp [loop]
  | cons it rest ih =>
    intro vset h
    simp only [loop]
    cases hs : signerOf it with
    | none => simp
    | some idx =>
      have hlt := h it List.mem_cons_self idx hs
      simp only
      rw [List.getElem?_eq_getElem hlt]
      cases vset[idx] with
      | true => simp
      | false =>
        simp only
        apply ih
        intro it' hit' i hi
        rw [List.length_set]
        exact h it' (List.mem_cons_of_mem _ hit') i hi

/-- what the returned bitmap says -/
theorem loop_out {Item : Type} (signerOf : Item → Option Nat) (items : List Item) :
    ∀ (vset out : List Bool), loop signerOf items vset = some (some out) →
      out.length = vset.length ∧
      out.count true = vset.count true + items.length ∧
      (∀ i, out[i]? = some true ↔ (vset[i]? = some true ∨ ∃ it ∈ items, signerOf it = some i)) := by
  induction items with
  | nil =>
    intro vset out h
    simp [loop] at h
    subst h
    simp
  | cons it rest ih =>
    intro vset out h
    simp only [loop] at h
    cases hs : signerOf it with
    | none => simp [hs] at h
    | some idx =>
      rw [hs] at h
      simp only at h
      cases hv : vset[idx]? with
      | none => simp [hv] at h
      | some b =>
        rw [hv] at h
        cases b with
        | true => simp at h
        | false =>
          simp only at h
          obtain ⟨h1, h2, h3⟩ := ih _ _ h
          have hlt : idx < vset.length := by
            rcases Nat.lt_or_ge idx vset.length with h' | h'
            · exact h'
            · have : vset[idx]? = none := List.getElem?_eq_none h'
              rw [this] at hv; cases hv
          have hcount : (vset.set idx true).count true = vset.count true + 1 := by
            have hget : vset[idx] = false := by
              have := List.getElem?_eq_getElem hlt
              rw [this] at hv; simpa using hv
            rw [List.count_set hlt, hget]
            simp
          refine ⟨by rw [h1, List.length_set], by rw [h2, hcount, List.length_cons]; omega, ?_⟩
          intro i
          rw [h3 i]
          by_cases hi : idx = i
          · subst hi
            simp [List.getElem?_set_self hlt, hs]
          · rw [List.getElem?_set_ne hi]
            constructor
            · rintro (h | ⟨it', hit', he⟩)
              · exact Or.inl h
              · exact Or.inr ⟨it', List.mem_cons_of_mem _ hit', he⟩
            · rintro (h | ⟨it', hit', he⟩)
              · exact Or.inl h
              · rcases List.mem_cons.1 hit' with e | e
                · subst e; rw [hs] at he; exact absurd (by simpa using he) hi
                · exact Or.inr ⟨it', e, he⟩

theorem replicate_false_get (n i : Nat) : (List.replicate n false)[i]? = some false ↔ i < n := by
  by_cases h : i < n
  · simp [h]
  · simp [h]


/-! ### recovery against a validator list -/

theorem findKey_some {vals : List Nat} {k i : Nat} (h : vals.findIdx? (· == k) = some i) :
    ∃ hi : i < vals.length, vals[i] = k := by
  obtain ⟨hi, hp, _⟩ := List.findIdx?_eq_some_iff_getElem.1 h
  exact ⟨hi, by simpa using hp⟩

theorem findKey_mem {vals : List Nat} {k : Nat} (h : k ∈ vals) : ∃ i, vals.findIdx? (· == k) = some i := by
  cases hf : vals.findIdx? (· == k) with
  | some i => exact ⟨i, rfl⟩
  | none =>
    have := List.findIdx?_eq_none_iff.1 hf k h
    simp at this

theorem signerIn_some_iff (vals : List Nat) (th tb tr : Nat) (s : Sig) :
    (∃ i, signerIn vals th tb tr s = some i ∧ i < vals.length) ↔
      (s.key ∈ vals ∧ s.height = th ∧ s.blockId = tb ∧ s.round = tr) := by
  unfold signerIn
  by_cases ht : s.height = th ∧ s.blockId = tb ∧ s.round = tr
  · simp only [ht, and_self, if_true, and_true]
    constructor
    · rintro ⟨i, hi, _⟩
      obtain ⟨hlt, e⟩ := findKey_some hi
      exact e ▸ List.getElem_mem hlt
    · intro hm
      obtain ⟨i, hi⟩ := findKey_mem hm
      exact ⟨i, hi, (findKey_some hi).1⟩
  · constructor
    · rintro ⟨i, hi, _⟩
      rw [if_neg ht] at hi
      cases hi
    · intro h
      exact absurd h.2 ht

theorem nodup_map_congr {α β γ : Type} (f : α → β) (g : α → γ) (l : List α)
    (h : ∀ x ∈ l, ∀ y ∈ l, f x = f y ↔ g x = g y) : (l.map f).Nodup ↔ (l.map g).Nodup := by
  induction l with
  | nil => simp
  | cons a l ih =>
    simp only [List.map_cons, List.nodup_cons]
    have ih' := ih (fun x hx y hy => h x (List.mem_cons_of_mem _ hx) y (List.mem_cons_of_mem _ hy))
    rw [ih']
    have : f a ∈ l.map f ↔ g a ∈ l.map g := by
      constructor
      · intro hm
        obtain ⟨y, hy, e⟩ := List.mem_map.1 hm
        exact List.mem_map.2 ⟨y, hy, ((h y (List.mem_cons_of_mem _ hy) a List.mem_cons_self).1 e)⟩
      · intro hm
        obtain ⟨y, hy, e⟩ := List.mem_map.1 hm
        exact List.mem_map.2 ⟨y, hy, ((h y (List.mem_cons_of_mem _ hy) a List.mem_cons_self).2 e)⟩
    rw [this]

/-- two signatures over the target recover to the same index iff they are by the same key -/
theorem signerIn_inj (vals : List Nat) (th tb tr : Nat) (s s' : Sig)
    (hs : s.key ∈ vals ∧ s.height = th ∧ s.blockId = tb ∧ s.round = tr)
    (hs' : s'.key ∈ vals ∧ s'.height = th ∧ s'.blockId = tb ∧ s'.round = tr) :
    signerIn vals th tb tr s = signerIn vals th tb tr s' ↔ s.key = s'.key := by
  unfold signerIn
  simp only [hs.2, hs'.2, and_self, if_true]
  constructor
  · intro e
    obtain ⟨i, hi⟩ := findKey_mem hs.1
    rw [hi] at e
    obtain ⟨h1, e1⟩ := findKey_some hi
    obtain ⟨h2, e2⟩ := findKey_some e.symm
    rw [← e1, ← e2]
  · intro e; rw [e]

end Goloop.C05.Proofs
