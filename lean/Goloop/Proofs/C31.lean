/-
  Proofs/C31: helper lemmas for the encrypted channel theorems (Props/C31.lean).
-/
import Goloop.Model.C31
import Goloop.Proofs.C30
namespace Goloop.C31.Proofs
open Goloop Goloop.C31

/-- the AEAD laws assumed by the faithfulness theorem -/
structure Aead.Lawful (A : Aead) : Prop where
  len : ∀ k n p, (A.sealF k n p).length = p.length + A.overhead
  opens : ∀ k n p, A.openF k n (A.sealF k n p) = some p

theorem beNat_be16 (v : Nat) (h : v < 65536) : beNat (be16 v) = v := by
  simp [beNat, be16]
  omega

/-- the frames `Write(b)` cuts `b` into -/
def splitFrames : Nat → Bytes → List Bytes
  | 0, _ => []
  | fuel + 1, b => if b.isEmpty then [] else b.take frameSize :: splitFrames fuel (b.drop frameSize)

def encFrames (A : Aead) (key : Bytes) : Bytes → List Bytes → Bytes
  | _, [] => []
  | n, f :: fs => encodeFrame A key n f ++ encFrames A key (incNonce n) fs

def advance : Nat → Bytes → Bytes
  | 0, n => n
  | k + 1, n => advance k (incNonce n)

theorem advance_add : ∀ (a b : Nat) (n : Bytes), advance (a + b) n = advance b (advance a n)
  | 0, b, n => by simp [advance]
  | a + 1, b, n => by
    rw [show a + 1 + b = (a + b) + 1 by omega]
    simp only [advance]
    exact advance_add a b (incNonce n)

theorem encFrames_append (A : Aead) (key : Bytes) : ∀ (fs gs : List Bytes) (n : Bytes),
    encFrames A key n (fs ++ gs) = encFrames A key n fs ++ encFrames A key (advance fs.length n) gs
  | [], gs, n => by simp [encFrames, advance]
  | f :: fs, gs, n => by
    simp [encFrames, advance, encFrames_append A key fs gs (incNonce n), List.append_assoc]

theorem splitFrames_flatten : ∀ (fuel : Nat) (b : Bytes), b.length ≤ fuel → (splitFrames fuel b).flatten = b
  | 0, b, h => by
    have : b = [] := List.length_eq_zero_iff.mp (by omega)
    simp [splitFrames, this]
  | fuel + 1, b, h => by
    unfold splitFrames
    by_cases hb : b.isEmpty
    · simp at hb; simp [hb]
    · simp only [hb]
      have hne : b ≠ [] := by simpa using hb
      have hl : 0 < b.length := List.length_pos_iff.mpr hne
      have : (b.drop frameSize).length ≤ fuel := by simp [frameSize]; omega
      simp [splitFrames_flatten fuel _ this]

theorem splitFrames_good : ∀ (fuel : Nat) (b : Bytes), ∀ f ∈ splitFrames fuel b, f ≠ [] ∧ f.length ≤ frameSize
  | 0, b, f, hf => by simp [splitFrames] at hf
  | fuel + 1, b, f, hf => by
    unfold splitFrames at hf
    by_cases hb : b.isEmpty
    · simp [hb] at hf
    · simp only [hb] at hf
      have hne : b ≠ [] := by simpa using hb
      rcases List.mem_cons.mp hf with h | h
      · subst h
        refine ⟨?_, by simp; omega⟩
        intro e
        simp [frameSize] at e
        exact hne e
      · exact splitFrames_good fuel _ f h

theorem writeLoop_spec (A : Aead) : ∀ (fuel : Nat) (st : St) (b : Bytes) (acc : List Bytes),
    (writeLoop A fuel st b acc).1 = { st with nonce := advance (splitFrames fuel b).length st.nonce } ∧
    (writeLoop A fuel st b acc).2.flatten = acc.flatten ++ encFrames A st.key st.nonce (splitFrames fuel b)
  | 0, st, b, acc => by simp [writeLoop, splitFrames, advance, encFrames]
  | fuel + 1, st, b, acc => by
    unfold writeLoop splitFrames
    by_cases hb : b.isEmpty
    · simp [hb, advance, encFrames]
    · simp only [hb, Bool.false_eq_true, ↓reduceIte]
      obtain ⟨h1, h2⟩ := writeLoop_spec A fuel { st with nonce := incNonce st.nonce } (b.drop frameSize)
        (acc ++ [encodeFrame A st.key st.nonce (b.take frameSize)])
      constructor
      · rw [h1]; simp [advance]
      · rw [h2]; simp [encFrames, List.append_assoc]

/-- all frames of a sequence of writes -/
def framesOf (writes : List Bytes) : List Bytes := (writes.map (fun b => splitFrames b.length b)).flatten

theorem framesOf_flatten (writes : List Bytes) : (framesOf writes).flatten = writes.flatten := by
  induction writes with
  | nil => simp [framesOf]
  | cons b bs ih =>
    simp only [framesOf, List.map_cons, List.flatten_cons, List.flatten_append] at ih ⊢
    rw [splitFrames_flatten _ _ (Nat.le_refl _), ih]

theorem framesOf_good (writes : List Bytes) : ∀ f ∈ framesOf writes, f ≠ [] ∧ f.length ≤ frameSize := by
  intro f hf
  simp only [framesOf, List.mem_flatten, List.mem_map] at hf
  obtain ⟨l, ⟨b, _, rfl⟩, hfl⟩ := hf
  exact splitFrames_good _ _ f hfl

theorem writeMany_spec (A : Aead) : ∀ (writes : List Bytes) (st : St),
    (writeMany A st writes).2 = encFrames A st.key st.nonce (framesOf writes) ∧
    (writeMany A st writes).1 = { st with nonce := advance (framesOf writes).length st.nonce }
  | [], st => by simp [writeMany, framesOf, encFrames, advance]
  | b :: bs, st => by
    obtain ⟨h1, h2⟩ := writeLoop_spec A b.length st b []
    obtain ⟨i1, i2⟩ := writeMany_spec A bs (write A st b).1
    have hk : (write A st b).1.key = st.key := by unfold write; rw [h1]
    have hn : (write A st b).1.nonce = advance (splitFrames b.length b).length st.nonce := by unfold write; rw [h1]
    unfold writeMany
    simp only []
    constructor
    · rw [i1, hk, hn]
      unfold write; rw [h2]
      have : framesOf (b :: bs) = splitFrames b.length b ++ framesOf bs := by simp [framesOf]
      rw [this, encFrames_append]; simp
    · rw [i2]
      have : framesOf (b :: bs) = splitFrames b.length b ++ framesOf bs := by simp [framesOf]
      rw [this, List.length_append]
      unfold write; rw [h1]
      simp
      exact (advance_add _ _ _).symm
/-! ### reading an honest stream -/

theorem takeL (a b : Bytes) (n : Nat) (h : a.length = n) : (a ++ b).take n = a := by
  subst h; simp
theorem dropL (a b : Bytes) (n : Nat) (h : a.length = n) : (a ++ b).drop n = b := by
  subst h; simp

theorem encodeFrame_eq (A : Aead) (key n f rest : Bytes) :
    encodeFrame A key n f ++ rest = be16 f.length ++ ([0, 0] ++ (A.sealF key n f ++ rest)) := by
  simp [encodeFrame, List.append_assoc]

theorem be16_length (v : Nat) : (be16 v).length = 2 := rfl

theorem wire_header (hdr pad body : Bytes) (h1 : hdr.length = 2) (h2 : pad.length = 2) :
    (hdr ++ (pad ++ body)).take 2 = hdr ∧ (hdr ++ (pad ++ body)).drop headerSize = body ∧
    ¬ (hdr ++ (pad ++ body)).length < headerSize := by
  refine ⟨takeL _ _ _ h1, ?_, by simp [headerSize]; omega⟩
  rw [show headerSize = 2 + 2 from rfl, ← List.drop_drop, dropL _ _ _ h1, dropL _ _ _ h2]

/-- reading one honest frame -/
theorem read_frame (A : Aead) (hA : Aead.Lawful A) (key n f rest : Bytes) (hf : f.length ≤ frameSize) (buflen : Nat) :
    read A ⟨key, n, []⟩ (encodeFrame A key n f ++ rest) buflen =
      .ok (f.take buflen, ⟨key, incNonce n, f.drop buflen⟩, rest) := by
  obtain ⟨w1, w2, w3⟩ := wire_header (be16 f.length) [0, 0] (A.sealF key n f ++ rest) rfl rfl
  rw [encodeFrame_eq]
  unfold read
  simp only [ne_eq, not_true_eq_false, if_false, w1, w2, w3]
  rw [beNat_be16 _ (by simp [frameSize] at hf; omega)]
  have hl := hA.len key n f
  have h4 : ¬ (A.sealF key n f ++ rest).length < f.length + A.overhead := by simp [hl]
  simp only [h4, if_false]
  rw [takeL _ _ _ hl, dropL _ _ _ hl, hA.opens]

theorem read_empty (A : Aead) (key n : Bytes) (buflen : Nat) : read A ⟨key, n, []⟩ [] buflen = .error .eof := by
  simp [read, headerSize]

theorem read_remain (A : Aead) (key n rem wire : Bytes) (h : rem ≠ []) (buflen : Nat) :
    read A ⟨key, n, rem⟩ wire buflen = .ok (rem.take buflen, ⟨key, n, rem.drop buflen⟩, wire) := by
  simp [read, h]

theorem take_pos (l : Bytes) (n : Nat) (hl : l ≠ []) (hn : 0 < n) : 1 ≤ (l.take n).length := by
  have : 0 < l.length := List.length_pos_iff.mpr hl
  simp; omega

theorem readMany_honest (A : Aead) (hA : Aead.Lawful A) (key : Bytes) : ∀ (bufs : List Nat) (fs : List Bytes) (n rem : Bytes),
    (∀ f ∈ fs, f ≠ [] ∧ f.length ≤ frameSize) →
    ∃ pend, (readMany A ⟨key, n, rem⟩ (encFrames A key n fs) bufs).outs.flatten ++ pend = rem ++ fs.flatten ∧
      ((readMany A ⟨key, n, rem⟩ (encFrames A key n fs) bufs).err = none ∨
        ((readMany A ⟨key, n, rem⟩ (encFrames A key n fs) bufs).err = some .eof ∧ pend = [])) ∧
      ((∀ b ∈ bufs, 0 < b) → (readMany A ⟨key, n, rem⟩ (encFrames A key n fs) bufs).err = none →
        min bufs.length (rem ++ fs.flatten).length ≤
          (readMany A ⟨key, n, rem⟩ (encFrames A key n fs) bufs).outs.flatten.length)
  | [], fs, n, rem, _ => ⟨rem ++ fs.flatten, by simp [readMany]⟩
  | buf :: bufs, fs, n, rem, hfs => by
    by_cases hr : rem = []
    · subst hr
      cases fs with
      | nil =>
        refine ⟨[], ?_⟩
        simp [readMany, encFrames, read_empty]
      | cons f fs' =>
        have hf := hfs f (by simp)
        obtain ⟨pend, e1, e2, e3⟩ := readMany_honest A hA key bufs fs' (incNonce n) (f.drop buf)
          (fun g hg => hfs g (by simp [hg]))
        refine ⟨pend, ?_, ?_, ?_⟩
        · simp only [readMany, encFrames, read_frame A hA key n f _ hf.2, List.flatten_cons, List.append_assoc, e1]
          rw [← List.append_assoc, List.take_append_drop]; simp
        · simpa only [readMany, encFrames, read_frame A hA key n f _ hf.2] using e2
        · intro hb he
          simp only [readMany, encFrames, read_frame A hA key n f _ hf.2] at he ⊢
          have := e3 (fun b hb' => hb b (by simp [hb'])) he
          have t := take_pos f buf hf.1 (hb buf (by simp))
          simp only [List.flatten_cons, List.length_append, List.length_cons, List.nil_append, List.length_drop,
            List.length_take] at this t ⊢
          omega
    · obtain ⟨pend, e1, e2, e3⟩ := readMany_honest A hA key bufs fs n (rem.drop buf) hfs
      refine ⟨pend, ?_, ?_, ?_⟩
      · simp only [readMany, read_remain A key n rem _ hr, List.flatten_cons, List.append_assoc, e1]
        rw [← List.append_assoc, List.take_append_drop]
      · simpa only [readMany, read_remain A key n rem _ hr] using e2
      · intro hb he
        simp only [readMany, read_remain A key n rem _ hr] at he ⊢
        have := e3 (fun b hb' => hb b (by simp [hb'])) he
        have t := take_pos rem buf hr (hb buf (by simp))
        simp only [List.flatten_cons, List.length_append, List.length_cons, List.length_drop,
          List.length_take] at this t ⊢
        omega

/-! ### reading an arbitrary (tampered) stream under ciphertext integrity -/

/-- idealised ciphertext integrity for one direction: under the j-th nonce (j up to the number of frames
    sent; the nonce counter is periodic, so this presupposes fewer than 256^nonceSize frames) the only byte
    string that opens is the j-th frame the sender sealed, and it opens to that frame's plaintext; under
    the nonce after the last frame nothing opens. -/
def Auth (A : Aead) (key n0 : Bytes) (frames : List Bytes) : Prop :=
  ∀ (j : Nat), j ≤ frames.length → ∀ (c p : Bytes), A.openF key (advance j n0) c = some p →
    ∃ h : j < frames.length, c = A.sealF key (advance j n0) frames[j] ∧ p = frames[j]

theorem inc_advance : ∀ (j : Nat) (n : Bytes), incNonce (advance j n) = advance (j + 1) n
  | 0, n => rfl
  | j + 1, n => by
    simp only [advance]
    exact inc_advance j (incNonce n)

theorem read_cases (A : Aead) (key n wire : Bytes) (buf : Nat) :
    (∃ e, read A ⟨key, n, []⟩ wire buf = .error e) ∨
    ∃ c plain wire', A.openF key n c = some plain ∧
      read A ⟨key, n, []⟩ wire buf = .ok (plain.take buf, ⟨key, incNonce n, plain.drop buf⟩, wire') := by
  unfold read
  simp only [ne_eq, not_true_eq_false, if_false]
  split
  · exact Or.inl ⟨_, rfl⟩
  · split
    · exact Or.inl ⟨_, rfl⟩
    · split
      · exact Or.inl ⟨_, rfl⟩
      · rename_i plain h
        exact Or.inr ⟨_, plain, _, h, rfl⟩

theorem readMany_prefix (A : Aead) (key n0 : Bytes) (frames : List Bytes) (hauth : Auth A key n0 frames) :
    ∀ (bufs : List Nat) (j : Nat) (rem wire : Bytes), j ≤ frames.length →
      (readMany A ⟨key, advance j n0, rem⟩ wire bufs).outs.flatten <+: rem ++ (frames.drop j).flatten
  | [], j, rem, wire, _ => by simp [readMany]
  | buf :: bufs, j, rem, wire, hjl => by
    by_cases hr : rem = []
    · subst hr
      rcases read_cases A key (advance j n0) wire buf with ⟨e, he⟩ | ⟨c, plain, wire', ho, hk⟩
      · simp [readMany, he]
      · obtain ⟨hj, _, hp⟩ := hauth j hjl c plain ho
        have ih := readMany_prefix A key n0 frames hauth bufs (j + 1) (plain.drop buf) wire' hj
        simp only [readMany, hk, inc_advance, List.flatten_cons, List.nil_append]
        rw [List.drop_eq_getElem_cons hj, List.flatten_cons, ← hp]
        have : plain = plain.take buf ++ plain.drop buf := (List.take_append_drop buf plain).symm
        conv => rhs; rw [this]
        rw [List.append_assoc]
        exact (List.prefix_append_right_inj _).mpr ih
    · have ih := readMany_prefix A key n0 frames hauth bufs j (rem.drop buf) wire hjl
      simp only [readMany, read_remain A key _ rem _ hr, List.flatten_cons]
      have : rem = rem.take buf ++ rem.drop buf := (List.take_append_drop buf rem).symm
      conv => rhs; rw [this]
      rw [List.append_assoc]
      exact (List.prefix_append_right_inj _).mpr ih


theorem read_ok_inv (A : Aead) (key n wire : Bytes) (buf : Nat) (r : Bytes × St × Bytes)
    (h : read A ⟨key, n, []⟩ wire buf = .ok r) :
    ¬ wire.length < headerSize ∧
    ¬ (wire.drop headerSize).length < beNat (wire.take 2) + A.overhead ∧
    ∃ plain, A.openF key n ((wire.drop headerSize).take (beNat (wire.take 2) + A.overhead)) = some plain := by
  unfold read at h
  simp only [ne_eq, not_true_eq_false, if_false] at h
  split at h
  · cases h
  · rename_i h1
    split at h
    · cases h
    · rename_i h2
      split at h
      · cases h
      · rename_i plain ho
        exact ⟨h1, h2, plain, ho⟩

/-- under ciphertext integrity the only continuation the reader accepts at frame index j is the genuine
    frame j: its two length bytes, any two pad bytes, its sealed bytes. -/
theorem read_accepts_only_genuine (A : Aead) (hlen : ∀ k n p, (A.sealF k n p).length = p.length + A.overhead)
    (key n0 : Bytes) (frames : List Bytes) (hauth : Auth A key n0 frames)
    (hsz : ∀ f ∈ frames, f.length ≤ frameSize) (j : Nat) (hjl : j ≤ frames.length) (wire : Bytes) (buf : Nat) (r : Bytes × St × Bytes)
    (h : read A ⟨key, advance j n0, []⟩ wire buf = .ok r) :
    ∃ (hj : j < frames.length) (pad rest : Bytes), pad.length = 2 ∧
      wire = be16 frames[j].length ++ (pad ++ (A.sealF key (advance j n0) frames[j] ++ rest)) := by
  obtain ⟨h1, h2, plain, ho⟩ := read_ok_inv A key _ wire buf r h
  obtain ⟨hj, hc, _⟩ := hauth j hjl _ plain ho
  refine ⟨hj, (wire.drop 2).take 2, (wire.drop headerSize).drop (beNat (wire.take 2) + A.overhead), ?_, ?_⟩
  · simp [headerSize] at h1 ⊢; omega
  · have hl := congrArg List.length hc
    rw [hlen, List.length_take, Nat.min_eq_left (by omega)] at hl
    have hn : beNat (wire.take 2) = frames[j].length := by omega
    have hfl : frames[j].length < 65536 := by
      have := hsz frames[j] (List.getElem_mem hj); simp [frameSize] at this; omega
    have hhdr : wire.take 2 = be16 frames[j].length := by
      apply Goloop.C30.Proofs.beNat_inj
      · simp [headerSize] at h1; simp [be16]; omega
      · rw [hn, beNat_be16 _ hfl]
    rw [← hc, ← hhdr]
    have e1 : wire = wire.take 2 ++ wire.drop 2 := (List.take_append_drop 2 wire).symm
    have e2 : wire.drop 2 = (wire.drop 2).take 2 ++ (wire.drop 2).drop 2 := (List.take_append_drop 2 _).symm
    have e3 : (wire.drop 2).drop 2 = wire.drop headerSize := by rw [List.drop_drop]; rfl
    have e4 : wire.drop headerSize = (wire.drop headerSize).take (beNat (wire.take 2) + A.overhead) ++
        (wire.drop headerSize).drop (beNat (wire.take 2) + A.overhead) := (List.take_append_drop _ _).symm
    conv => lhs; rw [e1, e2, e3, e4]

/-- header bytes 2 and 3 of a frame are never looked at -/
theorem read_pad_ignored (A : Aead) (st : St) (hdr pad pad' body : Bytes) (h1 : hdr.length = 2)
    (h2 : pad.length = 2) (h2' : pad'.length = 2) (buf : Nat) :
    read A st (hdr ++ (pad ++ body)) buf = read A st (hdr ++ (pad' ++ body)) buf
      ∨ st.remain ≠ [] := by
  by_cases hr : st.remain = []
  · left
    obtain ⟨a1, a2, a3⟩ := wire_header hdr pad body h1 h2
    obtain ⟨b1, b2, b3⟩ := wire_header hdr pad' body h1 h2'
    unfold read
    simp only [hr, ne_eq, not_true_eq_false, if_false, a1, a2, a3, b1, b2, b3]
  · exact Or.inr hr

end Goloop.C31.Proofs
