/-
  Proofs/C01G3Step — the invariant `H3` (Proofs/C01G3) is kept by all 13 mutually recursive
  enterX / handleX functions of the transcribed machine, by every crash-free event and by the first
  `start`.  Same structure as Proofs/C01G1 (Core) and Proofs/C01G2 (H2), which are used here for the
  intermediate states.
-/
import Goloop.Proofs.C01G3
namespace Goloop.C01
section
variable {L : List VoteRec} {base : List Eff}

/-- H3 with the round bound of the lock invariant = the current round -/
abbrev G3 (L : List VoteRec) (base : List Eff) (s : S) : Prop := H3 L base s.round s

/-- the three invariants of the running machine together -/
structure A3 (L : List VoteRec) (base : List Eff) (s : S) : Prop where
  core : Core s
  h2 : H2 L s
  h3 : G3 L base s

theorem g3_same {s s' : S} (hh : G3 L base s)
    (ht : tproj s' = tproj s) (hk : kproj s' = kproj s) (hi : iproj s' = iproj s) (hc : cproj s' = cproj s)
    (hst : s'.stuck = false → s.stuck = false ∧ (s'.step ≤ stPrevoteWait → s.step ≤ stPrevoteWait) ∧
      (s'.step = stCommit → s.step = stCommit)) : G3 L base s' := by
  have hr : s'.round = s.round := by
    have := congrArg (fun p => p.2.1) hi; exact this
  unfold G3
  rw [hr]
  exact h3_same hh (Nat.le_refl _) ht hk hi hc hst

theorem g3_nc {s s' : S} (hh : G3 L base s)
    (ht : tproj s' = tproj s) (hk : kproj s' = kproj s) (hi : iproj s' = iproj s)
    (hst : s'.stuck = false → s.stuck = false ∧ (s'.step ≤ stPrevoteWait → s.step ≤ stPrevoteWait))
    (hnc : NC s') : G3 L base s' := by
  have hr : s'.round = s.round := by
    have := congrArg (fun p => p.2.1) hi; exact this
  unfold G3
  rw [hr]
  exact h3_nc hh ht hk hi hst hnc

/-- a stuck state satisfies the state-level parts vacuously -/
theorem h3_of_stuck {s s' : S} {R R' : Nat} (hh : H3 L base R s) (ht : tproj s' = tproj s)
    (hs : s'.stuck = true) : H3 L base R' s' :=
  h3_build hh ht (by intro h; rw [hs] at h; cases h) (by intro h; rw [hs] at h; cases h)
    (by intro h; rw [hs] at h; cases h)

theorem rfs_round (s : S) (tgt : Nat) : (s.resetForNewStep tgt).round = s.round := by
  unfold S.resetForNewStep S.beginStep S.endStep; simp only []; split <;> rfl

theorem g3_rfs (s : S) (tgt : Nat) (h0 : tgt ≠ 0) (h2 : tgt ≠ 2) (h8 : tgt ≠ stCommit) (hh : G3 L base s) :
    G3 L base (s.resetForNewStep tgt) := by
  unfold G3; rw [rfs_round]; exact h3_rfs s tgt h0 h2 h8 hh

theorem a3_rfs (s : S) (tgt : Nat) (h0 : tgt ≠ 0) (h2 : tgt ≠ 2) (h8 : tgt ≠ stCommit) (ha : A3 L base s) :
    A3 L base (s.resetForNewStep tgt) :=
  ⟨core_rfs s tgt h0 h2 ha.core, h2_rfs s tgt ha.h2, g3_rfs s tgt h0 h2 h8 ha.h3⟩

theorem a3_rfr (s : S) (r : Nat) (hr : s.round < r) {R : Nat} (hR : R ≤ r) (hc : Core s) (h2 : H2 L s)
    (hh : H3 L base R s) : A3 L base (s.resetForNewRound r) := by
  refine ⟨core_rfr s r hr hc, h2_rfr s r h2, ?_⟩
  unfold G3
  rw [(rfr_spec s r).2.2.2.1]
  exact h3_rfr s r hc hr hR hh

theorem a3_stuck (s : S) (ha : A3 L base s) : A3 L base { s with stuck := true } :=
  ⟨core_stuck s ha.core, h2_stuck s ha.h2, h3_stuck ha.h3⟩

theorem a3_emit (s : S) (e : Eff) (he : ∀ m, e ≠ .send m) (hf : ∀ h b, e ≠ .finalize h b)
    (hw : ∀ w vs, e = .write w (.voteList vs) → VLOk L (sentOf s.eff) vs) (ha : A3 L base s) :
    A3 L base (s.emit e) :=
  ⟨core_emit_nonsend s e he ha.core, h2_emit s e he ha.h2, h3_emit s e he hf hw ha.h3⟩

/-- the vote lists the machine writes to its WALs hold known votes of the current height -/
theorem vlok_voteListOf (s : S) (r : Nat) (t : VType) (h2 : H2 L s) :
    VLOk L (sentOf s.eff) (voteListOf s r t) := by
  unfold voteListOf
  refine ⟨?_, ?_⟩
  · intro v hv
    rw [List.mem_map] at hv
    obtain ⟨e, he, rfl⟩ := hv
    exact (h2.hv r t).2 e he
  · intro v hv v' hv'
    rw [List.mem_map] at hv hv'
    obtain ⟨e, _, rfl⟩ := hv
    obtain ⟨e', _, rfl⟩ := hv'
    rfl

/-- like `h3_build`, for a trace that grew by effects other than sends -/
theorem h3_build2 {s s' : S} {R R' : Nat} (hh : H3 L base R s) (hn : s'.n = s.n)
    (hs : sentOf s'.eff = sentOf s.eff) (hp : s.eff <+: s'.eff) (htr : T3 L s'.n s'.eff)
    (hlock : LockInv L R' s') (himp : ImpInv s') (hcom : ComInv L s') : H3 L base R' s' :=
  ⟨List.IsPrefix.trans hh.pre hp, hlock, himp, hcom, by rw [hn, hs]; exact hh.g3,
    by rw [hn, hs]; exact hh.g2, htr⟩

/-- fields outside all three invariants change (timer, polRound, commitRound, bpm, dbHeight) -/
theorem a3_of_eq {s s' : S} (ha : A3 L base s) (h1 : ctrl s' = ctrl s) (h2 : gproj s' = gproj s)
    (ht : tproj s' = tproj s) (hk : kproj s' = kproj s) (hi : iproj s' = iproj s) (hc : cproj s' = cproj s) :
    A3 L base s' :=
  ⟨core_of_ctrl_eq h1 ha.core, h2_of_gproj_eq h2 ha.h2,
    g3_same ha.h3 ht hk hi hc (fun h => by
      have e1 : s'.stuck = s.stuck := congrArg Ctrl.stuck h1
      have e2 : s'.step = s.step := congrArg Ctrl.step h1
      rw [e1] at h; rw [e2]; exact ⟨h, id, id⟩)⟩

/-- `cur` changes outside step commit -/
theorem a3_nc {s s' : S} (ha : A3 L base s) (h1 : ctrl s' = ctrl s) (h2 : gproj s' = gproj s)
    (ht : tproj s' = tproj s) (hk : kproj s' = kproj s) (hi : iproj s' = iproj s) (hnc : NC s) :
    A3 L base s' := by
  have e1 : s'.stuck = s.stuck := congrArg Ctrl.stuck h1
  have e2 : s'.step = s.step := congrArg Ctrl.step h1
  refine ⟨core_of_ctrl_eq h1 ha.core, h2_of_gproj_eq h2 ha.h2, g3_nc ha.h3 ht hk hi ?_ ?_⟩
  · intro h; rw [e1] at h; rw [e2]; exact ⟨h, id⟩
  · unfold NC at *; rw [e1, e2]; exact hnc

theorem h2_send_vote (s : S) (t : VType) (v : Option Blk) (hh : H2 L s) (hpc : PC s t v) :
    H2 L (((s.emit (.write .round (.msg (.vote ⟨s.me, s.height, t, s.round, v⟩)))).emit (.sync .round)).emit
      (.send (.vote ⟨s.me, s.height, t, s.round, v⟩))) := by
  have h1 := h2_emit s (.write .round (.msg (.vote ⟨s.me, s.height, t, s.round, v⟩))) (by intro m; simp) hh
  have h2 := h2_emit _ (.sync .round) (by intro m; simp) h1
  apply h2_send _ _ h2
  intro v' b hm ht hval
  cases hm
  simp only [] at ht hval
  have hd := hpc ht b hval
  have hcnt := decision_count _ _ _ hd
  show polkaKnown L s.n _ s.height s.round b
  unfold polkaKnown
  refine Nat.lt_of_lt_of_le hcnt (countFor_le s.n _ (some b) _ (hh.hv _ _).1 ?_)
  intro e he heq
  simp only [decide_eq_true_eq]
  have := (hh.hv s.round .prevote).2 e he
  rw [heq] at this
  apply known_mono
  simpa using this

/-! ### the mutual induction -/

structure IH3 (L : List VoteRec) (base : List Eff) (f : Nat) : Prop where
  recvVote : ∀ s m, A3 L base s → Known L (sentOf s.eff) m → G3 L base (recvVote f s m)
  sendVote : ∀ s t v, A3 L base s → Fresh s (mstepOf t) → PC s t v → PV s t v → G3 L base (sendVote f s t v)
  handlePrevote : ∀ s mr, A3 L base s → G3 L base (handlePrevote f s mr)
  handlePrecommit : ∀ s mr, A3 L base s → G3 L base (handlePrecommit f s mr)
  enterPropose : ∀ s, A3 L base s → G3 L base (enterPropose f s)
  enterPrevote : ∀ s, A3 L base s → G3 L base (enterPrevote f s)
  enterPrevoteWait : ∀ s, A3 L base s → G3 L base (enterPrevoteWait f s)
  enterPrecommit : ∀ s, A3 L base s → G3 L base (enterPrecommit f s)
  enterPrecommitWait : ∀ s, A3 L base s → G3 L base (enterPrecommitWait f s)
  enterCommit : ∀ s b r, A3 L base s → (votesFor s.hvs r .precommit).decision s.n = some (some b) →
    G3 L base (enterCommit f s b r)
  commitAndEnterNewHeight : ∀ s, A3 L base s → ComQ L s →
    G3 L base (commitAndEnterNewHeight f s)
  enterNewHeight : ∀ s, A3 L base s → G3 L base (enterNewHeight f s)
  enterNewRound : ∀ s, A3 L base s → G3 L base (enterNewRound f s)

theorem ih3_zero : IH3 L base 0 := by
  constructor
  · intro s m h _; unfold Goloop.C01.recvVote; exact h3_stuck h.h3
  · intro s t v h _ _ _; unfold Goloop.C01.sendVote; exact h3_stuck h.h3
  · intro s m h; unfold Goloop.C01.handlePrevote; exact h3_stuck h.h3
  · intro s m h; unfold Goloop.C01.handlePrecommit; exact h3_stuck h.h3
  · intro s h; unfold Goloop.C01.enterPropose; exact h3_stuck h.h3
  · intro s h; unfold Goloop.C01.enterPrevote; exact h3_stuck h.h3
  · intro s h; unfold Goloop.C01.enterPrevoteWait; exact h3_stuck h.h3
  · intro s h; unfold Goloop.C01.enterPrecommit; exact h3_stuck h.h3
  · intro s h; unfold Goloop.C01.enterPrecommitWait; exact h3_stuck h.h3
  · intro s b r h _; unfold Goloop.C01.enterCommit; exact h3_stuck h.h3
  · intro s h _; unfold Goloop.C01.commitAndEnterNewHeight; exact h3_stuck h.h3
  · intro s h; unfold Goloop.C01.enterNewHeight; exact h3_stuck h.h3
  · intro s h; unfold Goloop.C01.enterNewRound; exact h3_stuck h.h3

theorem a3_hvsAdd (s : S) (m : VoteRec) (ha : A3 L base s) (hlt : m.signer < s.n) (hht : m.height = s.height)
    (hk : Known L (sentOf s.eff) m) : A3 L base (s.hvsAdd m).2 := by
  refine ⟨core_of_ctrl_eq (ctrl_hvsAdd s m) ha.core, h2_hvsAdd s m ha.h2 hlt hht hk, ?_⟩
  unfold S.hvsAdd
  simp only []
  split
  · exact g3_same (s := s) ha.h3 rfl rfl rfl rfl (fun h => ⟨h, id, id⟩)
  · exact ha.h3

theorem s3_recvVote (f : Nat) (ih : IH3 L base f) (s : S) (m : VoteRec) (ha : A3 L base s)
    (hk : Known L (sentOf s.eff) m) : G3 L base (recvVote (f+1) s m) := by
  unfold Goloop.C01.recvVote
  split
  · exact ha.h3
  split
  · exact ha.h3
  rename_i hht
  split
  · exact ha.h3
  rename_i hlt
  have ha' : A3 L base (s.hvsAdd m).2 := a3_hvsAdd s m ha (by omega) (by simpa using hht) hk
  generalize s.hvsAdd m = pr at ha' ⊢
  obtain ⟨added, s'⟩ := pr
  simp only [] at ha' ⊢
  split
  · exact ha'.h3
  split
  · exact ha'.h3
  split
  · exact ih.handlePrevote _ _ ha'
  · exact ih.handlePrecommit _ _ ha'

theorem s3_sendVote (f : Nat) (ih : IH3 L base f) (s : S) (t : VType) (v : Option Blk) (ha : A3 L base s)
    (hf : Fresh s (mstepOf t)) (hpc : PC s t v) (hpv : PV s t v) : G3 L base (sendVote (f+1) s t v) := by
  unfold Goloop.C01.sendVote
  split
  · exact ha.h3
  rename_i hst
  split
  · exact ha.h3
  simp only []
  have hst' : s.stuck = false := by simpa using hst
  have c1 := core_emit_nonsend s (.write .round (.msg (.vote ⟨s.me, s.height, t, s.round, v⟩))) (by intro m; simp) ha.core
  have f1 := fresh_emit_nonsend s (.write .round (.msg (.vote ⟨s.me, s.height, t, s.round, v⟩))) (by intro m; simp) _ hf
  have c2 := core_emit_nonsend _ (.sync .round) (by intro m; simp) c1
  have f2 := fresh_emit_nonsend _ (.sync .round) (by intro m; simp) _ f1
  have c3 := core_emit_send_vote _ t v c2 (by simpa [stuck_emit] using hst) f2
  have b3 := h2_send_vote s t v ha.h2 hpc
  have g1 := h3_emit s (.write .round (.msg (.vote ⟨s.me, s.height, t, s.round, v⟩))) (by intro m; simp)
    (by intro h b; simp) (by intro w vs h'; cases h') ha.h3
  have g2 := h3_emit _ (.sync .round) (by intro m; simp) (by intro h b; simp) (by intro w vs h'; cases h') g1
  have b2 : H2 L ((s.emit (.write .round (.msg (.vote ⟨s.me, s.height, t, s.round, v⟩)))).emit (.sync .round)) :=
    h2_emit _ (.sync .round) (by intro m; simp)
      (h2_emit s (.write .round (.msg (.vote ⟨s.me, s.height, t, s.round, v⟩))) (by intro m; simp) ha.h2)
  have g3 := h3_send_vote ((s.emit (.write .round (.msg (.vote ⟨s.me, s.height, t, s.round, v⟩)))).emit (.sync .round))
    t v hst' g2 (fun ht b hb => quorum_of_decision _ b2 s.round .prevote (some b) (hpc ht b hb)) hpv
  have a3 : A3 L base (((s.emit (.write .round (.msg (.vote ⟨s.me, s.height, t, s.round, v⟩)))).emit (.sync .round)).emit
      (.send (.vote ⟨s.me, s.height, t, s.round, v⟩))) := ⟨c3, b3, g3⟩
  apply ih.recvVote _ _ a3
  right
  simp


theorem s3_handlePrevote (f : Nat) (ih : IH3 L base f) (s : S) (mr : Nat) (ha : A3 L base s) :
    G3 L base (handlePrevote (f+1) s mr) := by
  unfold Goloop.C01.handlePrevote
  split
  · exact ha.h3
  split
  · exact ha.h3
  rename_i hstep
  simp only []
  have hk := ctrl_prevoteDecision s mr ((votesFor s.hvs mr .prevote).decision s.n)
  have c1 : Core (s.prevoteDecision mr ((votesFor s.hvs mr .prevote).decision s.n)) := core_of_ctrl_eq hk ha.core
  have b1 : H2 L (s.prevoteDecision mr ((votesFor s.hvs mr .prevote).decision s.n)) :=
    h2_of_gproj_eq (gproj_prevoteDecision _ _ _) ha.h2
  have g1 := h3_prevoteDecision (base := base) s mr ha.h2 ha.h3 (Nat.lt_of_not_ge hstep)
  have hr : (s.prevoteDecision mr ((votesFor s.hvs mr .prevote).decision s.n)).round = s.round :=
    congrArg Ctrl.round hk
  have hs : (s.prevoteDecision mr ((votesFor s.hvs mr .prevote).decision s.n)).step = s.step :=
    congrArg Ctrl.step hk
  rw [← hr] at g1
  have hstep1 : (s.prevoteDecision mr ((votesFor s.hvs mr .prevote).decision s.n)).step < stCommit := by
    rw [hs]; exact Nat.lt_of_not_ge hstep
  generalize s.prevoteDecision mr ((votesFor s.hvs mr .prevote).decision s.n) = s1 at c1 b1 g1 hstep1 ⊢
  have hge : mr ≤ s1.round → A3 L base s1 := by
    intro h
    refine ⟨c1, b1, ?_⟩
    rw [Nat.max_eq_left h] at g1
    exact g1
  split
  · rename_i hc
    simp only [Bool.and_eq_true, decide_eq_true_eq] at hc
    exact ih.enterPrevote _ (hge (by omega))
  split
  · rename_i hc
    simp only [Bool.and_eq_true, decide_eq_true_eq, beq_iff_eq] at hc
    exact ih.enterPrevote _ (hge (by omega))
  split
  · rename_i hc
    simp only [Bool.and_eq_true, beq_iff_eq] at hc
    exact ih.enterPrevoteWait _ (hge (by omega))
  split
  · rename_i hc
    simp only [Bool.and_eq_true, beq_iff_eq] at hc
    split
    · exact ih.enterPrecommit _ (hge (by omega))
    · exact (hge (by omega)).h3
  split
  · rename_i hc
    simp only [Bool.and_eq_true, decide_eq_true_eq] at hc
    exact ih.enterPrevote _ (a3_rfr s1 mr hc.1 (by omega) c1 b1 g1)
  · rename_i hc
    simp only [Bool.and_eq_true, decide_eq_true_eq, not_and] at hc
    exact (hge (by omega)).h3

theorem s3_handlePrecommit (f : Nat) (ih : IH3 L base f) (s : S) (mr : Nat) (ha : A3 L base s) :
    G3 L base (handlePrecommit (f+1) s mr) := by
  unfold Goloop.C01.handlePrecommit
  split
  · exact ha.h3
  simp only []
  split
  · split
    · rename_i b hd
      exact ih.enterCommit _ _ _ ha hd
    · exact ha.h3
  split
  · exact ih.enterPrecommit _ ha
  split
  · exact ih.enterPrecommitWait _ ha
  split
  · split
    · rename_i b hd
      exact ih.enterCommit _ _ _ ha hd
    · exact ih.enterNewRound _ ha
    · exact ha.h3
  split
  · rename_i h
    simp only [Bool.and_eq_true, decide_eq_true_eq] at h
    exact ih.enterPrecommit _ (a3_rfr s mr h.1 (Nat.le_of_lt h.1) ha.core ha.h2 ha.h3)
  · exact ha.h3

theorem s3_enterNewRound (f : Nat) (ih : IH3 L base f) (s : S) (ha : A3 L base s) :
    G3 L base (enterNewRound (f+1) s) := by
  unfold Goloop.C01.enterNewRound
  split
  · exact ha.h3
  exact ih.enterPropose _ (a3_rfr s (s.round + 1) (Nat.lt_succ_self _) (Nat.le_succ _) ha.core ha.h2 ha.h3)

theorem a3_rfh (s : S) (ha : A3 L base s) : A3 L base (s.resetForNewHeight (s.height + 1)) := by
  refine ⟨core_rfh s ha.core, h2_rfh s _ ha.h2, ?_⟩
  unfold G3
  rw [(rfh_spec s (s.height + 1)).2.2.1]
  exact h3_rfh s ha.core ha.h3

theorem s3_enterNewHeight (f : Nat) (ih : IH3 L base f) (s : S) (ha : A3 L base s) :
    G3 L base (enterNewHeight (f+1) s) := by
  unfold Goloop.C01.enterNewHeight
  split
  · exact ha.h3
  exact ih.enterPropose _ (a3_rfs _ _ (by decide) (by decide) (by decide) (a3_rfh s ha))

theorem a3_finalize (s : S) (b : Blk) (hst : s.stuck = false) (h8 : ComQ L s)
    (hcur : s.cur.id = some b) (ha : A3 L base s) :
    A3 L base { s.emit (.finalize s.height b) with dbHeight := s.height } :=
  ⟨core_finalize s b ha.core,
   h2_of_gproj_eq (s := s.emit (.finalize s.height b)) rfl (h2_emit _ _ (by intro m; simp) ha.h2),
   h3_finalize s b hst h8 hcur ha.h3⟩

theorem s3_commitAndEnterNewHeight (f : Nat) (ih : IH3 L base f) (s : S) (ha : A3 L base s)
    (h8' : ComQ L s) : G3 L base (commitAndEnterNewHeight (f+1) s) := by
  unfold Goloop.C01.commitAndEnterNewHeight
  split
  · exact ha.h3
  rename_i hst
  have hst' : s.stuck = false := by simpa using hst
  split
  · rename_i b validated hcur
    split
    · exact h3_pend s _ (by intro _ b' hb; cases hb) ha.h3
    · exact ih.enterNewHeight _ (a3_finalize s b hst' h8' (by rw [hcur]; rfl) ha)
  · exact h3_stuck ha.h3


theorem setByID_id (c : Cur) (b : Blk) : (c.setByID b).id = some b := by
  unfold Cur.setByID
  split
  · rename_i h; simpa using h
  · rfl

/-- the state enterCommit builds after `resetForNewStep stCommit` -/
def commitState (s1 : S) (b : Blk) (r : Nat) : S :=
  let s := { s1 with commitRound := (r : Int) }
  let s := (s.emit (.write .commit (.voteList (voteListOf s r .precommit)))).emit (.sync .commit)
  let s := { s with cur := s.cur.setByID b }
  if !s.cur.isComplete && s.bpm.contains b then { s with cur := .full b false } else s

theorem enterCommit_eq (f : Nat) (s : S) (b : Blk) (r : Nat) :
    enterCommit (f+1) s b r =
      if s.stuck then s else
        if (commitState (s.resetForNewStep stCommit) b r).cur.isComplete
        then commitAndEnterNewHeight f (commitState (s.resetForNewStep stCommit) b r)
        else commitState (s.resetForNewStep stCommit) b r := by
  unfold Goloop.C01.enterCommit commitState
  rfl

theorem emit_projs (x : S) (e : Eff) (he : ∀ m, e ≠ .send m) :
    ctrl (x.emit e) = ctrl x ∧ gproj (x.emit e) = gproj x ∧ sentOf (x.emit e).eff = sentOf x.eff ∧
    kproj (x.emit e) = kproj x := by
  have hs : sentOf (x.emit e).eff = sentOf x.eff := by
    unfold S.emit; simp only [sentOf_append]; cases e <;> simp [sentOf] at he ⊢
  refine ⟨?_, ?_, hs, ?_⟩
  · unfold ctrl; rw [hs]; rfl
  · unfold gproj; rw [hs]; rfl
  · unfold kproj; rw [hs]; rfl

theorem commitState_spec (s1 : S) (b : Blk) (r : Nat) :
    ctrl (commitState s1 b r) = ctrl s1 ∧ gproj (commitState s1 b r) = gproj s1 ∧
    ((commitState s1 b r).n = s1.n ∧ sentOf (commitState s1 b r).eff = sentOf s1.eff ∧
      s1.eff <+: (commitState s1 b r).eff ∧
      ∀ L : List VoteRec, T3 L s1.n s1.eff →
        VLOk L (sentOf s1.eff) (voteListOf { s1 with commitRound := (r : Int) } r .precommit) →
        T3 L (commitState s1 b r).n (commitState s1 b r).eff) ∧
    kproj (commitState s1 b r) = kproj s1 ∧
    iproj (commitState s1 b r) = iproj s1 ∧ (commitState s1 b r).cur.id = some b := by
  unfold commitState
  simp only []
  obtain ⟨p1, p2, p3, p4⟩ := emit_projs { s1 with commitRound := (r : Int) }
    (.write .commit (.voteList (voteListOf { s1 with commitRound := (r : Int) } r .precommit)))
    (by intro m; simp)
  obtain ⟨q1, q2, q3, q4⟩ := emit_projs (({ s1 with commitRound := (r : Int) } : S).emit
    (.write .commit (.voteList (voteListOf { s1 with commitRound := (r : Int) } r .precommit))))
    (.sync .commit) (by intro m; simp)
  have r1 := q1.trans p1
  have r2 := q2.trans p2
  have r3 := q3.trans p3
  have r4 := q4.trans p4
  have rt : ∀ L : List VoteRec, T3 L s1.n s1.eff →
      VLOk L (sentOf s1.eff) (voteListOf { s1 with commitRound := (r : Int) } r .precommit) →
      T3 L s1.n ((s1.eff ++ [.write .commit (.voteList (voteListOf { s1 with commitRound := (r : Int) } r .precommit))])
        ++ [.sync .commit]) := by
    intro L ht hv
    apply t3_append _ _ (by intro h b h'; cases h') (by intro w vs h'; cases h')
    apply t3_append _ ht (by intro h b h'; cases h')
    intro w vs h'
    cases h'
    exact hv
  have rp : s1.eff <+: ((s1.eff ++ [.write .commit (.voteList (voteListOf { s1 with commitRound := (r : Int) } r .precommit))])
        ++ [.sync .commit]) :=
    List.IsPrefix.trans (List.prefix_append _ _) (List.prefix_append _ _)
  split
  · exact ⟨r1, r2, ⟨rfl, r3, rp, rt⟩, r4, rfl, rfl⟩
  · exact ⟨r1, r2, ⟨rfl, r3, rp, rt⟩, r4, rfl, setByID_id _ _⟩

theorem s3_enterCommit (f : Nat) (ih : IH3 L base f) (s : S) (b r : Nat) (ha : A3 L base s)
    (hd : (votesFor s.hvs r .precommit).decision s.n = some (some b)) :
    G3 L base (enterCommit (f+1) s b r) := by
  rw [enterCommit_eq]
  split
  · exact ha.h3
  rename_i hst
  have hst' : s.stuck = false := by simpa using hst
  have hq := quorum_of_decision s ha.h2 r .precommit (some b) hd
  have c1 := core_rfs s stCommit (by decide) (by decide) ha.core
  have b1 := h2_rfs s stCommit ha.h2
  obtain ⟨e1, e2, e3, e4, e5⟩ := rfs_spec s stCommit (by decide) (by decide)
  generalize s.resetForNewStep stCommit = s1 at c1 b1 e1 e2 e3 e4 e5 ⊢
  obtain ⟨d1, d2, d3, d4, d5, d6⟩ := commitState_spec s1 b r
  have c4 : Core (commitState s1 b r) := core_of_ctrl_eq d1 c1
  have b4 : H2 L (commitState s1 b r) := h2_of_gproj_eq d2 b1
  have es : (commitState s1 b r).stuck = s1.stuck := congrArg Ctrl.stuck d1
  have ep : (commitState s1 b r).step = s1.step := congrArg Ctrl.step d1
  have er : (commitState s1 b r).round = s.round := by
    have h1 : (commitState s1 b r).round = s1.round := congrArg Ctrl.round d1
    have h2 : s1.round = s.round := by have := congrArg (fun p => p.2.1) e3; exact this
    rw [h1, h2]
  have e1n : s1.n = s.n := congrArg (fun p => p.1) e1
  have e1e : s1.eff = s.eff := congrArg (fun p => p.2) e1
  obtain ⟨dn, ds, dp, dt⟩ := d3
  have hp4 : s.eff <+: (commitState s1 b r).eff := by rw [← e1e]; exact dp
  have hn4 : (commitState s1 b r).n = s.n := by rw [dn, e1n]
  have hs4 : sentOf (commitState s1 b r).eff = sentOf s.eff := by rw [ds, e1e]
  have ht4 : T3 L (commitState s1 b r).n (commitState s1 b r).eff := by
    apply dt L
    · rw [e1n, e1e]; exact ha.h3.tr
    · exact vlok_voteListOf { s1 with commitRound := (r : Int) } r .precommit (h2_of_gproj_eq (s := s1) rfl b1)
  have g4 : G3 L base (commitState s1 b r) := by
    unfold G3
    rw [er]
    rcases e5 with e5 | ⟨a1, a2, a3⟩
    · have hstk : (commitState s1 b r).stuck = true := by rw [es]; exact e5
      exact h3_build2 ha.h3 hn4 hs4 hp4 ht4 (by intro h; rw [hstk] at h; cases h)
        (by intro h; rw [hstk] at h; cases h) (by intro h; rw [hstk] at h; cases h)
    · have hk4 : kproj (commitState s1 b r) = kproj s := d4.trans e2
      refine h3_build2 ha.h3 hn4 hs4 hp4 ht4
        (lockInv_of_kproj hk4 (Nat.le_refl _) (by rw [es, a1]; exact id) ha.h3.lock) ?_ ?_
      · intro _ _ _ h5
        rw [ep, a3] at h5
        exact absurd h5 (by decide)
      · intro _ _
        refine ⟨r, b, d6, ?_⟩
        have h3 : (commitState s1 b r).height = s.height := by
          have := congrArg (fun p => p.1) (d5.trans e3); exact this
        rw [hn4, hs4, h3]
        exact hq
  have h8 : ComQ L (commitState s1 b r) := by
    intro hs
    rcases e5 with e5 | ⟨_, _, a3⟩
    · rw [es, e5] at hs; cases hs
    · exact g4.com hs (by rw [ep]; exact a3)
  split
  · exact ih.commitAndEnterNewHeight _ ⟨c4, b4, g4⟩ h8
  · exact g4

theorem s3_enterPrecommitWait (f : Nat) (ih : IH3 L base f) (s : S) (ha : A3 L base s) :
    G3 L base (enterPrecommitWait (f+1) s) := by
  unfold Goloop.C01.enterPrecommitWait
  split
  · exact ha.h3
  simp only []
  have a1 := a3_rfs s stPrecommitWait (by decide) (by decide) (by decide) ha
  generalize s.resetForNewStep stPrecommitWait = s1 at a1 ⊢
  have a2 := a3_emit s1 (.write .round (.voteList (voteListOf s1 s1.round .precommit))) (by intro m; simp)
    (by intro h b; simp) (by intro w vs h'; cases h'; exact vlok_voteListOf s1 _ _ a1.h2) a1
  generalize (s1.emit (.write .round (.voteList (voteListOf s1 s1.round .precommit)))) = s2 at a2 ⊢
  split
  · rename_i b hd
    exact ih.enterCommit _ _ _ a2 hd
  · exact ih.enterNewRound _ a2
  · exact g3_same (s := s2) a2.h3 rfl rfl rfl rfl (fun h => ⟨h, id, id⟩)

theorem s3_enterPrevoteWait (f : Nat) (ih : IH3 L base f) (s : S) (ha : A3 L base s) :
    G3 L base (enterPrevoteWait (f+1) s) := by
  unfold Goloop.C01.enterPrevoteWait
  split
  · exact ha.h3
  simp only []
  have a1 := a3_rfs s stPrevoteWait (by decide) (by decide) (by decide) ha
  generalize s.resetForNewStep stPrevoteWait = s1 at a1 ⊢
  have a2 := a3_emit s1 (.write .round (.voteList (voteListOf s1 s1.round .prevote))) (by intro m; simp)
    (by intro h b; simp) (by intro w vs h'; cases h'; exact vlok_voteListOf s1 _ _ a1.h2) a1
  generalize (s1.emit (.write .round (.voteList (voteListOf s1 s1.round .prevote)))) = s2 at a2 ⊢
  split
  · exact ih.enterPrecommit _ a2
  · exact g3_same (s := s2) a2.h3 rfl rfl rfl rfl (fun h => ⟨h, id, id⟩)


theorem sendProposal_spec (s : S) (b : Blk) (pol : Int) :
    (s.sendProposal b pol).round = s.round ∧ (s.sendProposal b pol).step = s.step ∧
    (s.sendProposal b pol).stuck = s.stuck := by
  unfold S.sendProposal
  split <;> exact ⟨rfl, rfl, rfl⟩

theorem g3_sendProposal (s : S) (b : Blk) (pol : Int) (hh : G3 L base s) : G3 L base (s.sendProposal b pol) := by
  unfold G3
  rw [(sendProposal_spec s b pol).1]
  exact h3_sendProposal s b pol hh

theorem nc_sendProposal (s : S) (b : Blk) (pol : Int) (h : NC s) : NC (s.sendProposal b pol) := by
  obtain ⟨_, e2, e3⟩ := sendProposal_spec s b pol
  unfold NC at *
  rw [e2, e3]; exact h

theorem s3_enterPropose (f : Nat) (ih : IH3 L base f) (s : S) (ha : A3 L base s) :
    G3 L base (enterPropose (f+1) s) := by
  unfold Goloop.C01.enterPropose
  split
  · exact ha.h3
  simp only []
  have a1 := a3_rfs s stPropose (by decide) (by decide) (by decide) ha
  have n1 := nc_rfs s stPropose (by decide) (by decide) (by decide)
  generalize s.resetForNewStep stPropose = s1 at a1 n1 ⊢
  have a2 : A3 L base { s1 with timer := true } := a3_of_eq (s := s1) a1 rfl rfl rfl rfl rfl rfl
  have n2 : NC { s1 with timer := true } := n1
  split
  · split
    · rename_i b v _
      have g := g3_sendProposal { s1 with timer := true } b s1.lockedRound a2.h3
      have n := nc_sendProposal { s1 with timer := true } b s1.lockedRound n2
      exact g3_nc (s := S.sendProposal { s1 with timer := true } b s1.lockedRound) g rfl rfl rfl
        (fun h => ⟨h, id⟩) n
    · exact h3_pend (s := { s1 with timer := true }) _ (by intro _ b hb; cases hb) a2.h3
  · split
    · exact ih.enterPrevote _ a2
    · exact a2.h3

/-- the common tail of enterPrevote -/
theorem t3_prevote (f : Nat) (ih : IH3 L base f) (x : S) (hx : A3 L base x) :
    G3 L base (if x.step == stPrevote then
            if (votesFor x.hvs x.round .prevote).hasOverTwoThirds x.n then enterPrevoteWait f x else x
          else x) := by
  split
  · split
    · exact ih.enterPrevoteWait _ hx
    · exact hx.h3
  · exact hx.h3

theorem t3_precommit (f : Nat) (ih : IH3 L base f) (x : S) (hx : A3 L base x) :
    G3 L base (if x.step == stPrecommit then
            if (votesFor x.hvs x.round .precommit).hasOverTwoThirds x.n then enterPrecommitWait f x else x
          else x) := by
  split
  · split
    · exact ih.enterPrecommitWait _ hx
    · exact hx.h3
  · exact hx.h3

/-- all three invariants for the result of sendVote -/
theorem a3_sendVote (f : Nat) (ih : IH3 L base f) (s : S) (t : VType) (v : Option Blk) (ha : A3 L base s)
    (hf : Fresh s (mstepOf t)) (hpc : PC s t v) (hpv : PV s t v) : A3 L base (sendVote f s t v) :=
  ⟨(ih_all f).sendVote s t v ha.core hf, (ih2_all L f).sendVote s t v ha.h2 hpc, ih.sendVote s t v ha hf hpc hpv⟩

theorem pv_prevote (s : S) (v : Option Blk) (h : ∀ b, s.locked.map (·.1) = some b → v = some b) :
    PV s .prevote v := by
  unfold PV
  exact ⟨fun _ => h, fun h => by cases h⟩

theorem pv_precommit (s : S) (v : Option Blk)
    (h : ∀ b, v = some b → s.locked.map (·.1) = some b ∧ s.lockedRound = (s.round : Int)) :
    PV s .precommit v := by
  unfold PV
  exact ⟨fun h' => (by cases h'), fun _ => h⟩

theorem pv_nil_precommit (s : S) : PV s .precommit none :=
  pv_precommit s none (fun b h => by cases h)

theorem pv_unlocked (s : S) (v : Option Blk) (h : s.locked = none) : PV s .prevote v :=
  pv_prevote s v (fun b hb => by rw [h] at hb; cases hb)

theorem s3_enterPrevote (f : Nat) (ih : IH3 L base f) (s : S) (ha : A3 L base s) :
    G3 L base (enterPrevote (f+1) s) := by
  unfold Goloop.C01.enterPrevote
  split
  · exact ha.h3
  rename_i hst
  simp only []
  have a1 := a3_rfs s stPrevote (by decide) (by decide) (by decide) ha
  have f1 : Fresh (s.resetForNewStep stPrevote) (mstepOf .prevote) :=
    fresh_rfs s stPrevote (Or.inr (Or.inl rfl)) ha.core (by simpa using hst)
  generalize s.resetForNewStep stPrevote = s1 at a1 f1 ⊢
  apply t3_prevote f ih
  split
  · rename_i b vld hl
    apply a3_sendVote f ih _ _ _ a1 f1 (pc_prevote _ _)
    apply pv_prevote
    intro b' hb'
    rw [hl] at hb'
    simp only [Option.map_some, Option.some.injEq] at hb'
    rw [hb']
  · rename_i hl
    split
    · split
      · exact a3_sendVote f ih _ _ _ a1 f1 (pc_prevote _ _) (pv_unlocked _ _ hl)
      · split
        · exact a3_sendVote f ih _ _ _ a1 f1 (pc_prevote _ _) (pv_unlocked _ _ hl)
        · exact ⟨core_set_pendwin _ _ 4 5 rfl a1.core f1, h2_of_gproj_eq (s := s1) rfl a1.h2,
            h3_pend s1 _ (fun _ _ _ => hl) a1.h3⟩
    · exact a3_sendVote f ih _ _ _ a1 f1 (pc_prevote _ _) (pv_unlocked _ _ hl)

theorem s3_enterPrecommit (f : Nat) (ih : IH3 L base f) (s : S) (ha : A3 L base s) :
    G3 L base (enterPrecommit (f+1) s) := by
  unfold Goloop.C01.enterPrecommit
  split
  · exact ha.h3
  rename_i hst
  simp only []
  have a1 := a3_rfs s stPrecommit (by decide) (by decide) (by decide) ha
  have n1 := nc_rfs s stPrecommit (by decide) (by decide) (by decide)
  have f1 : Fresh (s.resetForNewStep stPrecommit) (mstepOf .precommit) :=
    fresh_rfs s stPrecommit (Or.inr (Or.inr rfl)) ha.core (by simpa using hst)
  generalize s.resetForNewStep stPrecommit = s1 at a1 n1 f1 ⊢
  apply t3_precommit f ih
  split
  · exact a3_sendVote f ih _ _ _ a1 f1 (pc_nil _ _) (pv_nil_precommit _)
  · rename_i hd
    have g : G3 L base s1.unlock :=
      h3_setlock s1 none (-1) none a1.h3 f1 n1 (fun _ => quorum_of_decision s1 a1.h2 _ _ _ hd)
        (by intro b h; cases h)
    exact a3_sendVote f ih _ _ _ ⟨core_of_ctrl_eq (s := s1) rfl a1.core, h2_of_gproj_eq (s := s1) rfl a1.h2, g⟩
      (fresh_of_ctrl (s := s1) rfl _ f1) (pc_nil _ _) (pv_nil_precommit _)
  · rename_i b hd
    have hq := fun (_ : s1.stuck = false) => quorum_of_decision s1 a1.h2 _ _ _ hd
    have hpc : ∀ s' : S, s'.hvs = s1.hvs → s'.round = s1.round → s'.n = s1.n → PC s' .precommit (some b) := by
      intro s' e1 e2 e3 _ b' hb'
      cases hb'
      rw [e1, e2, e3]; exact hd
    split
    · rename_i hlk
      have hlk' : s1.locked.map (·.1) = some b := by simpa using hlk
      have g : G3 L base { s1 with lockedRound := s1.round } :=
        h3_setlock s1 s1.locked s1.round (some b) a1.h3 f1 n1 hq
          (by intro b' hb' h; exact ⟨h, rfl⟩)
      exact a3_sendVote f ih _ _ _
        ⟨core_of_ctrl_eq (s := s1) rfl a1.core, h2_of_gproj_eq (s := s1) rfl a1.h2, g⟩
        (fresh_of_ctrl (s := s1) rfl _ f1) (hpc _ rfl rfl rfl)
        (pv_precommit _ _ (fun b' hb' => by cases hb'; exact ⟨hlk', rfl⟩))
    · rename_i hlk
      have hlk' : ¬ s1.locked.map (·.1) = some b := by simpa using hlk
      split
      · have g : G3 L base { s1 with lockedRound := s1.round, locked := some (b, s1.cur.hasValidated) } :=
          h3_setlock s1 (some (b, s1.cur.hasValidated)) s1.round (some b) a1.h3 f1 n1 hq
            (by intro b' hb' _; cases hb'; exact ⟨rfl, rfl⟩)
        have a2 : A3 L base { s1 with lockedRound := s1.round, locked := some (b, s1.cur.hasValidated) } :=
          ⟨core_of_ctrl_eq (s := s1) rfl a1.core, h2_of_gproj_eq (s := s1) rfl a1.h2, g⟩
        have f2 : Fresh { s1 with lockedRound := s1.round, locked := some (b, s1.cur.hasValidated) } (mstepOf .precommit) :=
          fresh_of_ctrl (s := s1) rfl _ f1
        apply a3_sendVote f ih
        · apply a3_emit _ _ (by intro m; simp) (by intro h b; simp) (by intro w vs h'; cases h')
          apply a3_emit _ _ (by intro m; simp) (by intro h b; simp) (by intro w vs h'; cases h')
          apply a3_emit _ _ (by intro m; simp) (by intro h b; simp)
            (by intro w vs h'; cases h'; exact vlok_voteListOf _ _ _ a2.h2)
          exact a2
        · apply fresh_emit_nonsend _ _ (by intro m; simp)
          apply fresh_emit_nonsend _ _ (by intro m; simp)
          apply fresh_emit_nonsend _ _ (by intro m; simp)
          exact f2
        · exact hpc _ rfl rfl rfl
        · exact pv_precommit _ _ (fun b' hb' => by cases hb'; exact ⟨rfl, rfl⟩)
      · have a2 : A3 L base { s1 with cur := s1.cur.setByID b } :=
          a3_nc (s := s1) a1 rfl rfl rfl rfl rfl n1
        have g : G3 L base ({ s1 with cur := s1.cur.setByID b } : S).unlock :=
          h3_setlock { s1 with cur := s1.cur.setByID b } none (-1) (some b) a2.h3
            (fresh_of_ctrl (s := s1) rfl _ f1) n1 hq
            (by intro b' hb' h; cases hb'; exact absurd h hlk')
        exact a3_sendVote f ih _ _ _
          ⟨core_of_ctrl_eq (s := s1) rfl a1.core, h2_of_gproj_eq (s := s1) rfl a1.h2, g⟩
          (fresh_of_ctrl (s := s1) rfl _ f1) (pc_nil _ _) (pv_nil_precommit _)

theorem ih3_all (L : List VoteRec) (base : List Eff) : ∀ f, IH3 L base f := by
  intro f
  induction f with
  | zero => exact ih3_zero
  | succ f ih =>
    exact ⟨s3_recvVote f ih, s3_sendVote f ih, s3_handlePrevote f ih, s3_handlePrecommit f ih,
      s3_enterPropose f ih, s3_enterPrevote f ih, s3_enterPrevoteWait f ih, s3_enterPrecommit f ih,
      s3_enterPrecommitWait f ih, s3_enterCommit f ih, s3_commitAndEnterNewHeight f ih,
      s3_enterNewHeight f ih, s3_enterNewRound f ih⟩


/-! ### events -/

theorem e3_recvProposal (s : S) (sg h r : Nat) (b : Blk) (pol : Int) (ha : A3 L base s) :
    G3 L base (recvProposal s sg h r b pol) := by
  unfold recvProposal
  split
  · exact ha.h3
  split
  · exact ha.h3
  split
  · exact ha.h3
  rename_i hcond
  simp only [Bool.or_eq_true, decide_eq_true_eq, not_or] at hcond
  have hnc : NC s := Or.inr (fun h8 => hcond.2 (by rw [h8]; exact Nat.le_refl _))
  split
  · exact ha.h3
  split
  · exact ha.h3
  split
  · exact ha.h3
  simp only []
  split
  · split
    · exact (ih3_all L base _).enterPrevote _ (a3_nc (s := s) ha rfl rfl rfl rfl rfl hnc)
    · exact g3_nc (s := s) ha.h3 rfl rfl rfl (fun h => ⟨h, id⟩) hnc
  · split
    · exact (ih3_all L base _).enterPrevote _ (a3_nc (s := s) ha rfl rfl rfl rfl rfl hnc)
    · exact g3_nc (s := s) ha.h3 rfl rfl rfl (fun h => ⟨h, id⟩) hnc

theorem e3_recvBlockPart (s : S) (h : Nat) (b : Blk) (ha : A3 L base s) : G3 L base (recvBlockPart s h b) := by
  unfold recvBlockPart
  split
  · exact ha.h3
  simp only []
  have a1 : A3 L base (if (decide (s.height ≤ h) && decide (h < s.height + 3) && !s.bpm.contains b) = true
      then { s with bpm := s.bpm ++ [b] } else s) := by
    split
    · exact a3_of_eq (s := s) ha rfl rfl rfl rfl rfl rfl
    · exact ha
  generalize (if (decide (s.height ≤ h) && decide (h < s.height + 3) && !s.bpm.contains b) = true
      then { s with bpm := s.bpm ++ [b] } else s) = s1 at a1 ⊢
  split
  · exact a1.h3
  split
  · exact a1.h3
  split
  · exact a1.h3
  rename_i hid
  have hid' : s1.cur.id = some b := by simpa using hid
  have a2 : A3 L base { s1 with cur := .full b false } :=
    a3_of_eq (s := s1) a1 rfl rfl rfl rfl rfl (by unfold cproj; simp only []; rw [hid']; rfl)
  split
  · exact (ih3_all L base _).enterPrevote _ a2
  split
  · rename_i _ h8
    simp only [Bool.and_eq_true, beq_iff_eq] at h8
    exact (ih3_all L base _).commitAndEnterNewHeight _ a2 (fun hs => a2.h3.com hs h8.1)
  · exact a2.h3

theorem e3_recvVote (s : S) (m : VoteRec) (ha : A3 L base s) (hm : m ∈ L) : G3 L base (recvVoteEv s m) := by
  unfold recvVoteEv
  split
  · exact ha.h3
  · exact (ih3_all L base _).recvVote _ _ ha (Or.inl hm)

theorem e3_timeout (s : S) (st : Nat) (ha : A3 L base s) : G3 L base (timeout s st) := by
  unfold timeout
  split
  · exact ha.h3
  split
  · exact (ih3_all L base _).enterPrevote _ ha
  split
  · exact (ih3_all L base _).enterPrecommit _ ha
  split
  · exact (ih3_all L base _).enterNewRound _ ha
  · exact ha.h3

theorem projs_markValidated (s : S) (ib : Blk) :
    tproj (s.markValidated ib) = tproj s ∧ kproj (s.markValidated ib) = kproj s ∧
    iproj (s.markValidated ib) = iproj s ∧ cproj (s.markValidated ib) = cproj s := by
  unfold S.markValidated
  split
  · rename_i b v hc
    split
    · exact ⟨rfl, rfl, rfl, by unfold cproj; simp only []; rw [hc]; rfl⟩
    · exact ⟨rfl, rfl, rfl, rfl⟩
  · exact ⟨rfl, rfl, rfl, rfl⟩

theorem e3_asyncPropose (s : S) (h r : Nat) (ha : A3 L base s)
    (hf : s.height = h → s.round = r → s.step = stPropose → Fresh s stPropose) :
    G3 L base (asyncPropose s h r) := by
  unfold asyncPropose
  split
  · exact ha.h3
  rename_i hcond
  simp only [Bool.or_eq_true, bne_iff_ne, ne_eq, not_or, Decidable.not_not] at hcond
  have hnc : NC s := Or.inr (by rw [hcond.2]; decide)
  have c1 : Core (s.sendProposal (ownBlk s h r) (-1)) :=
    core_sendProposal _ _ _ ha.core (hf hcond.1.1 hcond.1.2 hcond.2)
  have b1 : H2 L (s.sendProposal (ownBlk s h r) (-1)) := h2_sendProposal _ _ _ ha.h2
  have g1 : G3 L base (s.sendProposal (ownBlk s h r) (-1)) := g3_sendProposal _ _ _ ha.h3
  have n1 : NC (s.sendProposal (ownBlk s h r) (-1)) := nc_sendProposal _ _ _ hnc
  exact (ih3_all L base _).enterPrevote _
    (a3_nc (s := S.sendProposal s (ownBlk s h r) (-1)) ⟨c1, b1, g1⟩ rfl rfl rfl rfl rfl n1)

theorem e3_asyncImport (s : S) (h r : Nat) (ib : Blk) (ha : A3 L base s)
    (hf : s.height = h → s.round = r → s.step ≤ stPrevoteWait → Fresh s (mstepOf .prevote))
    (hlk : s.height = h → s.round = r → s.step ≤ stPrevoteWait → s.locked = none) :
    G3 L base (asyncImport s h r ib) := by
  unfold asyncImport
  split
  · exact ha.h3
  rename_i hcond
  simp only [Bool.or_eq_true, bne_iff_ne, ne_eq, decide_eq_true_eq, not_or, Decidable.not_not] at hcond
  have hk := ctrl_markValidated s ib
  obtain ⟨p1, p2, p3, p4⟩ := projs_markValidated s ib
  have a1 : A3 L base (s.markValidated ib) := a3_of_eq ha hk (gproj_markValidated s ib) p1 p2 p3 p4
  have hstep : (s.markValidated ib).step = s.step := congrArg Ctrl.step hk
  have hlocked : (s.markValidated ib).locked = s.locked := by
    have := congrArg (fun p => p.2.2.2) p3; exact this
  simp only []
  split
  · rename_i h5
    rw [hstep] at h5
    have h5' : s.step ≤ stPrevoteWait := by simpa using h5
    have f1 : Fresh (s.markValidated ib) (mstepOf .prevote) :=
      fresh_of_ctrl hk _ (hf hcond.1.1 hcond.1.2 h5')
    have hl : (s.markValidated ib).locked = none := by
      rw [hlocked]; exact hlk hcond.1.1 hcond.1.2 h5'
    split
    · exact (ih3_all L base _).sendVote _ _ _ a1 f1 (pc_prevote _ _) (pv_unlocked _ _ hl)
    · exact h3_stuck a1.h3
  · exact a1.h3

theorem e3_asyncCommit (s : S) (h r : Nat) (ha : A3 L base s) (hst : s.stuck = false) :
    G3 L base (asyncCommit s h r) := by
  unfold asyncCommit
  split
  · exact ha.h3
  rename_i hcond
  simp only [Bool.or_eq_true, bne_iff_ne, ne_eq, not_or, Decidable.not_not] at hcond
  split
  · rename_i b v hc
    have a1 : A3 L base { s with cur := .full b true } :=
      a3_of_eq (s := s) ha rfl rfl rfl rfl rfl (by unfold cproj; simp only []; rw [hc]; rfl)
    exact (ih3_all L base _).enterNewHeight _
      (a3_finalize { s with cur := .full b true } b hst (fun hs => a1.h3.com hs hcond.2) rfl a1)
  · exact h3_stuck ha.h3

theorem e3_async (s : S) (ha : A3 L base s) : G3 L base (async s) := by
  unfold async
  split
  · exact ha.h3
  rename_i hcond
  simp only [Bool.or_eq_true, Bool.not_eq_true', not_or, Bool.not_eq_false, Bool.not_eq_true] at hcond
  have hst : s.stuck = false := hcond.2
  have an : A3 L base { s with pend := .none } :=
    ⟨core_set_pend s .none rfl ha.core, h2_of_gproj_eq (s := s) rfl ha.h2,
      h3_pend s .none (by intro _ b hb; cases hb) ha.h3⟩
  split
  · exact ha.h3
  · rename_i h r hp
    apply e3_asyncPropose _ _ _ an
    intro hh hr h3
    simp only [] at hh hr h3
    exact fresh_of_pend s 3 3 ha.core (by rw [hp, hh, hr]; rfl) (by rw [h3]; decide)
  · rename_i h r ib hp
    apply e3_asyncImport _ _ _ _ an
    · intro hh hr h5
      simp only [] at hh hr h5
      exact fresh_of_pend s 4 5 ha.core (by rw [hp, hh, hr]; rfl) h5
    · intro hh hr h5
      simp only [] at hh hr h5 ⊢
      exact ha.h3.imp hst ib (by rw [hp, hh, hr]) h5
  · exact e3_asyncCommit _ _ _ an hst

/-! ### first start and runs -/

theorem h3_init {R : Nat} (s : S) (hs : s.eff = []) (hp : s.pend = .none)
    (hnc : NC s) : H3 L [] R s := by
  have hs' : sentOf s.eff = [] := by rw [hs]; rfl
  refine ⟨List.nil_prefix, ?_, ?_, comInv_of_nc hnc, ?_, ?_, ?_⟩
  · intro _ v b hv; rw [hs'] at hv; cases hv
  · intro _ b hb; rw [hp] at hb; cases hb
  · intro pre w post hd; rw [hs'] at hd; simp at hd
  · intro pre v post b hd; rw [hs'] at hd; simp at hd
  · rw [hs]; exact t3_nil _ _

theorem e3_start_fresh (s : S) (he : s.eff = []) (hns : s.started = false) : G3 L [] (start s) := by
  unfold start
  rw [if_neg (by simp [hns])]
  simp only [he]
  have hk := rfh_keep ({ n := s.n, me := s.me, dbHeight := s.dbHeight, eff := [], bpm := [], stuck := s.stuck } : S)
    (s.dbHeight + 1)
  have hhv : (({ n := s.n, me := s.me, dbHeight := s.dbHeight, eff := [], bpm := [], stuck := s.stuck } : S).resetForNewHeight
    (s.dbHeight + 1)).hvs = [] := by
    unfold S.resetForNewHeight S.beginStep S.resetRound_ S.endStep removeLowerRoundExcept
    simp only []; split <;> rfl
  have hnc := (rfh_spec ({ n := s.n, me := s.me, dbHeight := s.dbHeight, eff := [], bpm := [], stuck := s.stuck } : S)
    (s.dbHeight + 1)).2.2.2.2.2
  generalize (({ n := s.n, me := s.me, dbHeight := s.dbHeight, eff := [], bpm := [], stuck := s.stuck } : S).resetForNewHeight
    (s.dbHeight + 1)) = s1 at hk hhv hnc ⊢
  have he1 : s1.eff = [] := hk.1
  simp only [he1, walDurable_nil, applyRoundWAL_nil, applyLockWAL_nil, applyCommitWAL_nil]
  have hp1 : s1.pend = .none := hk.2
  have hc : ∀ x : S, x.eff = [] → x.hvs = [] → x.pend = .none → NC x →
      A3 L [] x := by
    intro x h1 h2 h3 h4
    have h1' : sentOf x.eff = [] := by rw [h1]; rfl
    exact ⟨core_of_nosent x h1' h3, h2_of_nosent x h1' h2, h3_init x h1 h3 h4⟩
  split
  · exact (ih3_all L [] _).enterPropose _ (a3_rfs _ _ (by decide) (by decide) (by decide)
      (hc _ rfl hhv hp1 hnc))
  split
  · exact (ih3_all L [] _).enterPropose _ (hc _ rfl hhv hp1 hnc)
  split
  · exact (ih3_all L [] _).enterPrevote _ (hc _ rfl hhv hp1 hnc)
  split
  · split
    · exact (ih3_all L [] _).enterPrevoteWait _ (hc _ rfl hhv hp1 hnc)
    · exact A3.h3 (hc _ rfl hhv hp1 hnc)
  split
  · split
    · exact (ih3_all L [] _).enterPrecommitWait _ (hc _ rfl hhv hp1 hnc)
    · exact A3.h3 (hc _ rfl hhv hp1 hnc)
  · exact A3.h3 (hc _ rfl hhv hp1 hnc)

theorem vstep_a3 (s : S) (e : Event) (hn : e.noCrash) (hl : ∀ m, e = .vote m → m ∈ L) (ha : A3 L base s) :
    A3 L base (vstep s e) := by
  cases e with
  | start => exact absurd hn (by simp [Event.noCrash])
  | crash c k => exact absurd hn (by simp [Event.noCrash])
  | proposal sg h r b pol =>
    exact ⟨ev_recvProposal s sg h r b pol ha.core, e2_recvProposal s sg h r b pol ha.h2, e3_recvProposal s sg h r b pol ha⟩
  | blockPart h b => exact ⟨ev_recvBlockPart s h b ha.core, e2_recvBlockPart s h b ha.h2, e3_recvBlockPart s h b ha⟩
  | vote m => exact ⟨ev_recvVote s m ha.core, e2_recvVote s m ha.h2 (hl m rfl), e3_recvVote s m ha (hl m rfl)⟩
  | timeout st => exact ⟨ev_timeout s st ha.core, e2_timeout s st ha.h2, e3_timeout s st ha⟩
  | async => exact ⟨ev_async s ha.core, e2_async s ha.h2, e3_async s ha⟩

theorem a3_start_fresh (n me : Nat) : A3 L [] (start { n := n, me := me }) :=
  ⟨ev_start_fresh _ rfl rfl, e2_start_fresh _ rfl rfl, e3_start_fresh _ rfl rfl⟩

theorem run_a3 (s : S) (evs : List Event) (hn : ∀ e ∈ evs, e.noCrash)
    (hl : ∀ m, Event.vote m ∈ evs → m ∈ L) (ha : A3 L base s) : A3 L base (run s evs) := by
  induction evs generalizing s with
  | nil => exact ha
  | cons e t ih =>
    unfold run
    apply ih _ (fun e' he' => hn e' (List.mem_cons_of_mem _ he')) (fun m hm => hl m (List.mem_cons_of_mem _ hm))
    exact vstep_a3 s e (hn e List.mem_cons_self) (fun m hm => hl m (by rw [hm]; exact List.mem_cons_self)) ha

/-- re-basing / enlarging the set of delivered votes -/
theorem a3_rebase {s : S} (base' : List Eff) (hp : base' <+: s.eff) (ha : A3 L base s) : A3 L base' s :=
  ⟨ha.core, ha.h2, h3_rebase base' hp ha.h3⟩

end
end Goloop.C01
