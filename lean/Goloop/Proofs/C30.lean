/-
  Proofs/C30: helper lemmas for the packet framing theorems (Props/C30.lean).
-/
import Goloop.Model.C30
namespace Goloop.C30.Proofs
open Goloop Goloop.C30

/-! ### FNV-1a: one step is injective in the state and in the byte -/

theorem fnvPrime_inv : fnvPrime * 0xce965057aff6957b = 1 := by decide

theorem mul_prime_inj {x y : UInt64} (h : x * fnvPrime = y * fnvPrime) : x = y := by
  have h2 := congrArg (· * (0xce965057aff6957b : UInt64)) h
  simp only [UInt64.mul_assoc, fnvPrime_inv, UInt64.mul_one] at h2
  exact h2

theorem xor_left_cancel {h a b : UInt64} (e : h ^^^ a = h ^^^ b) : a = b := by
  have h2 := congrArg (h ^^^ ·) e
  simp only [← UInt64.xor_assoc, UInt64.xor_self, UInt64.zero_xor] at h2
  exact h2

theorem xor_right_cancel {h1 h2 a : UInt64} (e : h1 ^^^ a = h2 ^^^ a) : h1 = h2 := by
  have h3 := congrArg (· ^^^ a) e
  simp only [UInt64.xor_assoc, UInt64.xor_self, UInt64.xor_zero] at h3
  exact h3

theorem toUInt64_inj {a b : UInt8} (e : a.toUInt64 = b.toUInt64) : a = b := by
  have := congrArg UInt64.toNat e
  simp at this
  exact UInt8.toNat_inj.mp this

/-! ### big-endian -/

theorem beBytes_length (k v : Nat) : (beBytes k v).length = k := by
  induction k generalizing v with
  | zero => rfl
  | succ k ih => simp [beBytes, ih]

theorem beNat_beBytes (k v : Nat) : beNat (beBytes k v) = v % 256 ^ k := by
  induction k generalizing v with
  | zero => simp [beBytes, beNat, Nat.mod_one]
  | succ k ih =>
    simp only [beBytes]
    rw [beNat_append_singleton, ih]
    have : (UInt8.ofNat (v % 256)).toNat = v % 256 := by simp
    rw [this, Nat.pow_succ]
    have h1 := Nat.mod_mul_left_div_self v 256 (256 ^ k)
    have h2 : v % (256 ^ k * 256) = 256 * (v / 256 % 256 ^ k) + v % 256 := by
      rw [Nat.mul_comm (256 ^ k) 256, Nat.mod_mul]; omega
    omega

theorem beNat_inj : ∀ (a b : Bytes), a.length = b.length → beNat a = beNat b → a = b
  | [], [], _, _ => rfl
  | [], _ :: _, h, _ => by simp at h
  | _ :: _, [], h, _ => by simp at h
  | x :: xs, y :: ys, h, e => by
    simp only [List.length_cons, Nat.add_right_cancel_iff] at h
    rw [beNat_cons, beNat_cons, h] at e
    have hx := beNat_lt xs
    have hy := beNat_lt ys
    rw [h] at hx
    have hp : 0 < 256 ^ ys.length := Nat.pow_pos (by decide)
    have hxy : x.toNat = y.toNat := by
      rcases Nat.lt_trichotomy x.toNat y.toNat with hlt | heq | hgt
      · have : (x.toNat + 1) * 256 ^ ys.length ≤ y.toNat * 256 ^ ys.length := Nat.mul_le_mul_right _ hlt
        rw [Nat.add_mul] at this; omega
      · exact heq
      · have : (y.toNat + 1) * 256 ^ ys.length ≤ x.toNat * 256 ^ ys.length := Nat.mul_le_mul_right _ hgt
        rw [Nat.add_mul] at this; omega
    rw [hxy] at e
    have := beNat_inj xs ys h (by omega)
    rw [this, UInt8.toNat_inj.mp hxy]

/-! ### FNV-1a detects a one byte substitution -/

theorem fnvStep_inj_state {h1 h2 : UInt64} {b : UInt8} (e : fnvStep h1 b = fnvStep h2 b) : h1 = h2 :=
  xor_right_cancel (mul_prime_inj e)

theorem fnvStep_inj_byte {h : UInt64} {a b : UInt8} (e : fnvStep h a = fnvStep h b) : a = b :=
  toUInt64_inj (xor_left_cancel (mul_prime_inj e))

theorem fnvFrom_inj_state (bs : Bytes) {h1 h2 : UInt64} (e : fnvFrom h1 bs = fnvFrom h2 bs) : h1 = h2 := by
  induction bs generalizing h1 h2 with
  | nil => exact e
  | cons b bs ih => exact fnvStep_inj_state (ih (by simpa [fnvFrom] using e))

theorem fnvFrom_append (h : UInt64) (a b : Bytes) : fnvFrom h (a ++ b) = fnvFrom (fnvFrom h a) b := by
  simp [fnvFrom, List.foldl_append]

theorem fnv_subst (pre suf : Bytes) (a b : UInt8) (hab : a ≠ b) :
    fnv1a (pre ++ a :: suf) ≠ fnv1a (pre ++ b :: suf) := by
  intro e
  simp only [fnv1a, fnvFrom_append] at e
  have : fnvFrom (fnvStep (fnvFrom fnvOffset pre) a) suf = fnvFrom (fnvStep (fnvFrom fnvOffset pre) b) suf := by
    simpa [fnvFrom] using e
  exact hab (fnvStep_inj_byte (fnvFrom_inj_state suf this))

/-- `set` form -/
theorem fnv_set (bs : Bytes) (i : Nat) (hi : i < bs.length) (b : UInt8) (hb : b ≠ bs[i]) :
    fnv1a (bs.set i b) ≠ fnv1a bs := by
  have h1 : bs.take i ++ bs[i] :: bs.drop (i + 1) = bs := by simp
  have h2 : bs.set i b = bs.take i ++ b :: bs.drop (i + 1) := by
    rw [List.set_eq_take_append_cons_drop]; simp [hi]
  have := fnv_subst (bs.take i) (bs.drop (i + 1)) b bs[i] hb
  rw [h1] at this
  rw [h2]; exact this

/-! ### chunking independence: `_read` loops, so a chunked reader parses like a flat byte string -/

/-- a result over a chunked source and a result over a flat byte string describe the same run -/
def Rel {α : Type} (r1 : Except RErr (α × Source)) (r2 : Except RErr (α × Bytes)) : Prop :=
  match r1, r2 with
  | .error e1, .error e2 => e1 = e2
  | .ok (a1, s1), .ok (a2, b2) => a1 = a2 ∧ s1.flatten = b2
  | _, _ => False

theorem readLoop_rel : ∀ (s : Source) (need : Nat) (acc : Bytes), 0 < need →
    Rel (readLoop need acc s) (match splitN need s.flatten with
      | .ok (a, r) => .ok (acc ++ a, r)
      | .error e => .error e)
  | [], need, acc, h => by
    have : ¬ need = 0 := by omega
    simp [readLoop, splitN, Rel, h]
  | c :: rest, need, acc, h => by
    unfold readLoop
    by_cases hc : c.length < need
    · simp only [hc, if_true]
      have ih := readLoop_rel rest (need - c.length) (acc ++ c) (by omega)
      simp only [List.flatten_cons, splitN, List.length_append]
      simp only [splitN] at ih
      by_cases hl : rest.flatten.length < need - c.length
      · have : c.length + rest.flatten.length < need := by omega
        simp only [hl, this, if_true] at ih ⊢
        exact ih
      · have : ¬ c.length + rest.flatten.length < need := by omega
        simp only [hl, this, if_false] at ih ⊢
        have e1 : List.take need (c ++ rest.flatten) = c ++ List.take (need - c.length) rest.flatten := by
          rw [List.take_append]; rw [List.take_of_length_le (by omega)]
        have e2 : List.drop need (c ++ rest.flatten) = List.drop (need - c.length) rest.flatten := by
          rw [List.drop_append]; rw [List.drop_of_length_le (by omega)]; simp
        rw [e1, e2]
        simpa [List.append_assoc] using ih
    · simp only [hc, if_false]
      have : ¬ (c ++ rest.flatten).length < need := by rw [List.length_append]; omega
      simp only [List.flatten_cons, splitN, this, if_false]
      have e1 : List.take need (c ++ rest.flatten) = List.take need c := by
        rw [List.take_append]; simp; omega
      have e2 : List.drop need (c ++ rest.flatten) = List.drop need c ++ rest.flatten := by
        rw [List.drop_append]
        have : need - c.length = 0 := by omega
        rw [this]; simp
      simp [Rel, e1, e2]

theorem readN_rel (n : Nat) (s : Source) : Rel (readN n s) (splitN n s.flatten) := by
  unfold readN
  by_cases h : n = 0
  · subst h; simp [splitN, Rel]
  · simp only [h, if_false]
    have := readLoop_rel s n [] (by omega)
    cases hs : splitN n s.flatten with
    | error e => simpa [hs] using this
    | ok v => obtain ⟨a, r⟩ := v; simpa [hs] using this

theorem Rel_bind {α β : Type} {x : Except RErr (α × Source)} {y : Except RErr (α × Bytes)}
    {f : α × Source → Except RErr (β × Source)} {g : α × Bytes → Except RErr (β × Bytes)}
    (h : Rel x y) (hfg : ∀ a s, Rel (f (a, s)) (g (a, s.flatten))) : Rel (x >>= f) (y >>= g) := by
  cases x with
  | error e1 => cases y with
    | error e2 => simpa [Rel, bind, Except.bind] using h
    | ok v => simp [Rel] at h
  | ok u => cases y with
    | error e2 => simp [Rel] at h
    | ok v =>
      obtain ⟨a1, s1⟩ := u; obtain ⟨a2, b2⟩ := v
      simp only [Rel] at h
      obtain ⟨rfl, rfl⟩ := h
      exact hfg a1 s1

theorem Rel_bind_same {γ β : Type} (x : Except RErr γ)
    {f : γ → Except RErr (β × Source)} {g : γ → Except RErr (β × Bytes)}
    (hfg : ∀ c, Rel (f c) (g c)) : Rel (x >>= f) (x >>= g) := by
  cases x with
  | error e => simp [Rel, bind, Except.bind]
  | ok c => exact hfg c

/-- the chunked reader and the flat parser agree, whatever the chunking -/
theorem readFrom_rel (s : Source) : Rel (readFrom s) (parseFlat s.flatten) := by
  unfold readFrom parseFlat readFromWith
  refine Rel_bind (readN_rel _ s) (fun b s1 => ?_)
  refine Rel_bind_same _ (fun p1 => ?_)
  refine Rel_bind (readN_rel _ s1) (fun pl s2 => ?_)
  refine Rel_bind (readN_rel _ s2) (fun fb s3 => ?_)
  refine Rel_bind ?_ (fun p4 s4 => ?_)
  · split
    · refine Rel_bind (readN_rel _ s3) (fun e s4 => ?_)
      simp [Rel, pure, Except.pure]
    · simp [Rel, pure, Except.pure]
  · dsimp only
    split <;> simp [Rel]

/-! ### the flat parser on a well-shaped input -/

def parseAll : Nat → Bytes → List Packet × RErr
  | 0, _ => ([], .eof)
  | fuel + 1, bs =>
    match parseFlat bs with
    | .error e => ([], e)
    | .ok (p, r) => let (ps, e) := parseAll fuel r; (p :: ps, e)

theorem readAll_flat : ∀ (fuel : Nat) (s : Source), readAll fuel s = parseAll fuel s.flatten
  | 0, _ => rfl
  | fuel + 1, s => by
    have h := readFrom_rel s
    unfold readAll parseAll
    cases h1 : readFrom s with
    | error e1 => cases h2 : parseFlat s.flatten with
      | error e2 => rw [h1, h2] at h; simp only [Rel] at h; simp [h]
      | ok v => rw [h1, h2] at h; simp [Rel] at h
    | ok u => cases h2 : parseFlat s.flatten with
      | error e2 => rw [h1, h2] at h; simp [Rel] at h
      | ok v =>
        obtain ⟨p1, s1⟩ := u; obtain ⟨p2, b2⟩ := v
        rw [h1, h2] at h; simp only [Rel] at h
        obtain ⟨rfl, rfl⟩ := h
        simp only [readAll_flat fuel s1]

theorem splitN_append (a b : Bytes) (n : Nat) (h : a.length = n) : splitN n (a ++ b) = .ok (a, b) := by
  subst h
  simp [splitN]

def decoded (H P F E : Bytes) : Packet :=
  { protocol := beNat (H.take 2), subProtocol := beNat ((H.drop 2).take 2), src := (H.drop 4).take peerIDSize,
    dest := (H.drop 24).headD 0, ttl := (H.drop 25).headD 0, lengthOfPayload := beNat ((H.drop 26).take 4),
    hashOfPacket := beNat (F.take 8), extendInfo := beNat ((F.drop 8).take 2),
    header := some H, payload := P, footer := some F, ext := E }

theorem parseFlat_shape (H P F E rest : Bytes) (hH : H.length = 30)
    (hL : beNat ((H.drop 26).take 4) = P.length) (hmax : P.length ≤ payloadMax) (hF : F.length = 10)
    (hE : E.length = extLen (beNat ((F.drop 8).take 2))) :
    parseFlat (H ++ (P ++ (F ++ (E ++ rest)))) =
      if (fnv1a (H ++ P)).toNat ≠ beNat (F.take 8) then .error .badHash else .ok (decoded H P F E, rest) := by
  unfold parseFlat readFromWith
  rw [splitN_append H _ headerSize hH]
  have hnb : ¬ (beNat ((H.drop 26).take 4) > payloadMax) := by omega
  simp only [bind, Except.bind, setHeader, hnb, if_false]
  rw [hL, splitN_append P _ _ rfl]
  simp only []
  rw [splitN_append F _ footerSize hF]
  simp only [setFooter]
  by_cases he : extLen (beNat ((F.drop 8).take 2)) > 0
  · simp only [he, if_true]
    rw [splitN_append E _ _ hE]
    simp only [pure, Except.pure, hashOf, headerToBytes, List.take_length]
    have h30 : List.take headerSize H = H := List.take_of_length_le (by simp [headerSize, hH])
    have h10 : List.take footerSize F = F := List.take_of_length_le (by simp [footerSize, hF])
    simp [decoded, h30, h10, hL]
  · simp only [he, if_false]
    have : E = [] := by
      have : E.length = 0 := by omega
      exact List.length_eq_zero_iff.mp this
    subst this
    simp only [pure, Except.pure, hashOf, headerToBytes, List.take_length]
    have h30 : List.take headerSize H = H := List.take_of_length_le (by simp [headerSize, hH])
    have h10 : List.take footerSize F = F := List.take_of_length_le (by simp [footerSize, hF])
    simp [decoded, Packet.empty, h30, h10, hL]

/-! ### header layout -/

theorem takeL (a b : Bytes) (n : Nat) (h : a.length = n) : (a ++ b).take n = a := by
  subst h; simp
theorem dropL (a b : Bytes) (n : Nat) (h : a.length = n) : (a ++ b).drop n = b := by
  subst h; simp
theorem dropL2 (a b : Bytes) (n k : Nat) (h : a.length = n) : (a ++ b).drop (n + k) = b.drop k := by
  subst h; simp

theorem split5 (A B S DT Lb : Bytes) (hA : A.length = 2) (hB : B.length = 2) (hS : S.length = 20)
    (hDT : DT.length = 2) (hL : Lb.length = 4) :
    (A ++ (B ++ (S ++ (DT ++ Lb)))).take 2 = A ∧
    ((A ++ (B ++ (S ++ (DT ++ Lb)))).drop 2).take 2 = B ∧
    ((A ++ (B ++ (S ++ (DT ++ Lb)))).drop 4).take 20 = S ∧
    (A ++ (B ++ (S ++ (DT ++ Lb)))).drop 24 = DT ++ Lb ∧
    ((A ++ (B ++ (S ++ (DT ++ Lb)))).drop 26).take 4 = Lb := by
  refine ⟨takeL _ _ _ hA, ?_, ?_, ?_, ?_⟩
  · rw [dropL _ _ _ hA, takeL _ _ _ hB]
  · rw [show (4 : Nat) = 2 + 2 from rfl, dropL2 _ _ _ _ hA, dropL _ _ _ hB, takeL _ _ _ hS]
  · rw [show (24 : Nat) = 2 + 22 from rfl, dropL2 _ _ _ _ hA, show (22 : Nat) = 2 + 20 from rfl,
      dropL2 _ _ _ _ hB, dropL _ _ _ hS]
  · rw [show (26 : Nat) = 2 + 24 from rfl, dropL2 _ _ _ _ hA, show (24 : Nat) = 2 + 22 from rfl,
      dropL2 _ _ _ _ hB, show (22 : Nat) = 20 + 2 from rfl, dropL2 _ _ _ _ hS, dropL _ _ _ hDT]
    exact List.take_of_length_le (by omega)

theorem copyPad_exact (src : Bytes) (h : src.length = peerIDSize) : copyPad peerIDSize src = src := by
  unfold copyPad
  rw [List.take_of_length_le (by omega), h]; simp

theorem buildHeader_eq (p : Packet) (h : p.src.length = peerIDSize) :
    buildHeader p = beBytes 2 p.protocol ++ (beBytes 2 p.subProtocol ++ (p.src ++ ([p.dest, p.ttl] ++ beBytes 4 p.lengthOfPayload))) := by
  simp [buildHeader, copyPad_exact _ h]

theorem buildHeader_length (p : Packet) (h : p.src.length = peerIDSize) : (buildHeader p).length = 30 := by
  rw [buildHeader_eq p h]; simp [beBytes_length, h, peerIDSize]

theorem mod_small {v n : Nat} (h : v < n) : v % n = v := Nat.mod_eq_of_lt h

/-- decoding the header built from a well-formed packet gives its fields back -/
theorem header_fields (p : Packet) (hs : p.src.length = peerIDSize) (h1 : p.protocol < 65536)
    (h2 : p.subProtocol < 65536) (h3 : p.lengthOfPayload < 2 ^ 32) :
    let H := buildHeader p
    beNat (H.take 2) = p.protocol ∧ beNat ((H.drop 2).take 2) = p.subProtocol ∧
    (H.drop 4).take peerIDSize = p.src ∧ (H.drop 24).headD 0 = p.dest ∧ (H.drop 25).headD 0 = p.ttl ∧
    beNat ((H.drop 26).take 4) = p.lengthOfPayload := by
  intro H
  have hs' : p.src.length = 20 := hs
  obtain ⟨e1, e2, e3, e4, e5⟩ := split5 (beBytes 2 p.protocol) (beBytes 2 p.subProtocol) p.src [p.dest, p.ttl]
    (beBytes 4 p.lengthOfPayload) (beBytes_length _ _) (beBytes_length _ _) hs' rfl (beBytes_length _ _)
  have hH : H = _ := buildHeader_eq p hs
  rw [hH]
  refine ⟨?_, ?_, ?_, ?_, ?_, ?_⟩
  · rw [e1, beNat_beBytes]; exact mod_small h1
  · rw [e2, beNat_beBytes]; exact mod_small h2
  · exact e3
  · rw [e4]; rfl
  · rw [show (25 : Nat) = 24 + 1 from rfl, ← List.drop_drop, e4]; rfl
  · rw [e5, beNat_beBytes]; exact mod_small h3

/-! ### what `WriteTo` emits for a fresh well-formed packet -/

/-- the sender's packet after `WriteTo` (hash and caches filled in) -/
def sent (p : Packet) : Packet :=
  { p with hashOfPacket := (fnv1a (buildHeader p ++ p.payload)).toNat,
           header := some (buildHeader p),
           footer := some (beBytes 8 (fnv1a (buildHeader p ++ p.payload)).toNat ++ beBytes 2 p.extendInfo) }

def wireOf (p : Packet) : Bytes :=
  buildHeader p ++ (p.payload ++ ((beBytes 8 (fnv1a (buildHeader p ++ p.payload)).toNat ++ beBytes 2 p.extendInfo) ++ p.ext))

theorem writeTo_wf (p : Packet) (hwf : p.WF) :
    (writeTo p).1 = sent p ∧ (writeTo p).2.flatten = wireOf p := by
  have h0 := hwf.hash
  have h1 := hwf.header
  have h2 := hwf.footer
  have h3 : List.take p.lengthOfPayload p.payload = p.payload := by rw [hwf.len]; simp
  have h4 : List.take (extLen p.extendInfo) p.ext = p.ext := by rw [← hwf.ext]; simp
  constructor
  · simp [writeTo, updateHash, hashOf, headerToBytes, footerToBytes, buildFooter, sent, h0, h1, h2, h3, buildHeader]
  · by_cases he : extLen p.extendInfo > 0
    · simp [writeTo, updateHash, hashOf, headerToBytes, footerToBytes, buildFooter, wireOf, h0, h1, h2, h3, h4, he, buildHeader]
    · have : p.ext = [] := List.length_eq_zero_iff.mp (by have := hwf.ext; omega)
      simp [writeTo, updateHash, hashOf, headerToBytes, footerToBytes, buildFooter, wireOf, h0, h1, h2, h3, he, buildHeader, this]

/-! ### one packet round trip -/

def footOf (p : Packet) : Bytes :=
  beBytes 8 (fnv1a (buildHeader p ++ p.payload)).toNat ++ beBytes 2 p.extendInfo

theorem footOf_facts (p : Packet) (hi : p.extendInfo < 65536) :
    (footOf p).length = 10 ∧ beNat ((footOf p).take 8) = (fnv1a (buildHeader p ++ p.payload)).toNat ∧
    beNat (((footOf p).drop 8).take 2) = p.extendInfo ∧ (footOf p).take 8 = beBytes 8 (fnv1a (buildHeader p ++ p.payload)).toNat := by
  unfold footOf
  refine ⟨by simp [beBytes_length], ?_, ?_, takeL _ _ _ (beBytes_length _ _)⟩
  · rw [takeL _ _ _ (beBytes_length _ _), beNat_beBytes]
    exact mod_small (by have := (fnv1a (buildHeader p ++ p.payload)).toNat_lt; omega)
  · rw [dropL _ _ _ (beBytes_length _ _), List.take_of_length_le (by simp [beBytes_length]), beNat_beBytes]
    exact mod_small hi

theorem wireOf_eq (p : Packet) (rest : Bytes) :
    wireOf p ++ rest = buildHeader p ++ (p.payload ++ (footOf p ++ (p.ext ++ rest))) := by
  simp [wireOf, footOf, List.append_assoc]

theorem decoded_sent (p : Packet) (hwf : p.WF) : decoded (buildHeader p) p.payload (footOf p) p.ext = sent p := by
  have hlen : p.lengthOfPayload < 2 ^ 32 := by
    have := hwf.len; have := hwf.max; simp [payloadMax] at *; omega
  obtain ⟨f1, f2, f3, f4, f5, f6⟩ := header_fields p hwf.src hwf.protocol hwf.subProtocol hlen
  obtain ⟨g1, g2, g3, g4⟩ := footOf_facts p hwf.info
  unfold decoded sent
  rw [f1, f2, f3, f4, f5, f6, g2, g3]
  rfl

theorem roundtrip_one (p : Packet) (hwf : p.WF) (rest : Bytes) :
    parseFlat (wireOf p ++ rest) = .ok (sent p, rest) := by
  have hlen : p.lengthOfPayload < 2 ^ 32 := by
    have := hwf.len; have := hwf.max; simp [payloadMax] at *; omega
  obtain ⟨f1, f2, f3, f4, f5, f6⟩ := header_fields p hwf.src hwf.protocol hwf.subProtocol hlen
  obtain ⟨g1, g2, g3, g4⟩ := footOf_facts p hwf.info
  rw [wireOf_eq, parseFlat_shape _ _ _ _ _ (buildHeader_length p hwf.src) (by rw [f6, hwf.len]) hwf.max g1
    (by rw [g3]; exact hwf.ext)]
  rw [g2, decoded_sent p hwf]
  simp

/-! ### single byte corruption -/

theorem fnv_set' (bs : Bytes) (i : Nat) (b : UInt8) (hi : i < bs.length) (hb : bs[i]? ≠ some b) :
    (fnv1a (bs.set i b)).toNat ≠ (fnv1a bs).toNat := by
  intro e
  refine fnv_set bs i hi b ?_ (UInt64.toNat_inj.mp e)
  intro hc
  apply hb
  rw [List.getElem?_eq_getElem hi, hc]

theorem set_ne (bs : Bytes) (i : Nat) (b : UInt8) (hi : i < bs.length) (hb : bs[i]? ≠ some b) : bs.set i b ≠ bs := by
  intro e
  have := congrArg (·[i]?) e
  simp only [List.getElem?_set, hi, if_true] at this
  exact hb this.symm

theorem parseFlat_nil : parseFlat [] = .error .eof := by
  simp [parseFlat, readFromWith, splitN, headerSize, bind, Except.bind]

/-- a single altered byte in the header outside the length field, in the payload, or in the stored hash -/
theorem corrupt_one (p : Packet) (hwf : p.WF) (rest : Bytes) (i : Nat) (b : UInt8)
    (hreg : i < 26 ∨ (30 ≤ i ∧ i < 38 + p.payload.length))
    (hb : (wireOf p ++ rest)[i]? ≠ some b) :
    parseFlat ((wireOf p ++ rest).set i b) = .error .badHash := by
  have hlen : p.lengthOfPayload < 2 ^ 32 := by
    have := hwf.len; have := hwf.max; simp [payloadMax] at *; omega
  obtain ⟨f1, f2, f3, f4, f5, f6⟩ := header_fields p hwf.src hwf.protocol hwf.subProtocol hlen
  obtain ⟨g1, g2, g3, g4⟩ := footOf_facts p hwf.info
  have hH := buildHeader_length p hwf.src
  rw [wireOf_eq] at hb ⊢
  by_cases c1 : i < 26
  · -- header, outside the length field
    rw [List.set_append_left i b (by omega)]
    rw [List.getElem?_append_left (by omega)] at hb
    have hL : beNat (((buildHeader p).set i b).drop 26 |>.take 4) = p.payload.length := by
      rw [List.drop_set_of_lt c1, f6, hwf.len]
    rw [parseFlat_shape _ _ _ _ _ (by simp [hH]) hL hwf.max g1 (by rw [g3]; exact hwf.ext)]
    have hne : (fnv1a ((buildHeader p).set i b ++ p.payload)).toNat ≠ beNat ((footOf p).take 8) := by
      rw [g2, ← List.set_append_left i b (by omega)]
      exact fnv_set' _ i b (by simp; omega) (by rw [List.getElem?_append_left (by omega)]; exact hb)
    simp [hne]
  · by_cases c2 : i < 30 + p.payload.length
    · -- payload
      have hi : 30 ≤ i := by omega
      rw [List.set_append_right i b (by omega), List.set_append_left _ b (by omega)]
      rw [List.getElem?_append_right (by omega), List.getElem?_append_left (by omega)] at hb
      rw [parseFlat_shape _ _ _ _ _ hH (by rw [f6, hwf.len]; simp) (by simp; exact hwf.max) g1 (by rw [g3]; exact hwf.ext)]
      have hne : (fnv1a (buildHeader p ++ p.payload.set (i - (buildHeader p).length) b)).toNat ≠ beNat ((footOf p).take 8) := by
        rw [g2, ← List.set_append_right i b (by omega)]
        exact fnv_set' _ i b (by simp; omega) (by rw [List.getElem?_append_right (by omega)]; exact hb)
      simp [hne]
    · -- stored hash
      have hi : i < 38 + p.payload.length := by omega
      rw [List.set_append_right i b (by omega), List.set_append_right _ b (by omega), List.set_append_left _ b (by omega)]
      rw [List.getElem?_append_right (by omega), List.getElem?_append_right (by omega), List.getElem?_append_left (by omega)] at hb
      have hj : i - (buildHeader p).length - p.payload.length < 8 := by omega
      generalize i - (buildHeader p).length - p.payload.length = j at hj hb ⊢
      have hE : p.ext.length = extLen (beNat ((((footOf p).set j b).drop 8).take 2)) := by
        rw [List.drop_set_of_lt hj, g3]; exact hwf.ext
      rw [parseFlat_shape _ _ _ _ _ hH (by rw [f6, hwf.len]) hwf.max (by simp [g1]) hE]
      have hne : (fnv1a (buildHeader p ++ p.payload)).toNat ≠ beNat (((footOf p).set j b).take 8) := by
        rw [← g2, List.take_set]
        intro e
        have hlen8 : ((footOf p).take 8).length = 8 := by simp [g1]
        have := beNat_inj _ _ (by simp) e
        exact set_ne _ j b (by omega) (by rw [List.getElem?_take_of_lt hj]; exact hb) this.symm
      simp [hne]

/-! ### packet sequences -/

theorem ext_corrupt_accepted (p : Packet) (hwf : p.WF) (rest : Bytes) (i : Nat) (b : UInt8)
    (h1 : 40 + p.payload.length ≤ i) (h2 : i < 40 + p.payload.length + p.ext.length) :
    parseFlat ((wireOf p ++ rest).set i b) =
      .ok ({ sent p with ext := p.ext.set (i - 40 - p.payload.length) b }, rest) := by
  have hlen : p.lengthOfPayload < 2 ^ 32 := by
    have := hwf.len; have := hwf.max; simp [payloadMax] at *; omega
  obtain ⟨f1, f2, f3, f4, f5, f6⟩ := header_fields p hwf.src hwf.protocol hwf.subProtocol hlen
  obtain ⟨g1, g2, g3, g4⟩ := footOf_facts p hwf.info
  have hH := buildHeader_length p hwf.src
  rw [wireOf_eq]
  rw [List.set_append_right i b (by omega), List.set_append_right _ b (by omega),
    List.set_append_right _ b (by omega), List.set_append_left _ b (by omega)]
  have hidx : i - (buildHeader p).length - p.payload.length - (footOf p).length = i - 40 - p.payload.length := by omega
  rw [hidx]
  rw [parseFlat_shape _ _ _ _ _ hH (by rw [f6, hwf.len]) hwf.max g1 (by rw [g3]; simp; exact hwf.ext)]
  rw [g2]
  have : decoded (buildHeader p) p.payload (footOf p) (p.ext.set (i - 40 - p.payload.length) b) =
      { decoded (buildHeader p) p.payload (footOf p) p.ext with ext := p.ext.set (i - 40 - p.payload.length) b } := rfl
  rw [this, decoded_sent p hwf]
  simp

theorem writeAll_wf : ∀ (ps : List Packet), (∀ p ∈ ps, p.WF) →
    (writeAll ps).1 = ps.map sent ∧ (writeAll ps).2 = (ps.map wireOf).flatten
  | [], _ => by simp [writeAll]
  | p :: ps, h => by
    obtain ⟨h1, h2⟩ := writeTo_wf p (h p (by simp))
    obtain ⟨i1, i2⟩ := writeAll_wf ps (fun q hq => h q (by simp [hq]))
    simp only [writeAll, List.map_cons, List.flatten_cons]
    exact ⟨by rw [h1, i1], by rw [h2, i2]⟩

theorem parseAll_ok (fuel : Nat) (bs : Bytes) (p : Packet) (r : Bytes) (h : parseFlat bs = .ok (p, r)) :
    parseAll (fuel + 1) bs = (p :: (parseAll fuel r).1, (parseAll fuel r).2) := by
  simp only [parseAll, h]

theorem parseAll_prefix : ∀ (pre : List Packet), (∀ p ∈ pre, p.WF) → ∀ (tail : Bytes) (fuel : Nat),
    parseAll (pre.length + fuel) ((pre.map wireOf).flatten ++ tail) =
      (pre.map sent ++ (parseAll fuel tail).1, (parseAll fuel tail).2)
  | [], _, tail, fuel => by simp
  | p :: pre, h, tail, fuel => by
    have ih := parseAll_prefix pre (fun q hq => h q (by simp [hq])) tail fuel
    have e : (p :: pre).length + fuel = (pre.length + fuel) + 1 := by simp; omega
    rw [e]
    simp only [List.map_cons, List.flatten_cons, List.append_assoc]
    rw [parseAll_ok _ _ _ _ (roundtrip_one p (h p (by simp)) _), ih]
    simp

theorem parseAll_err (fuel : Nat) (bs : Bytes) (e : RErr) (h : parseFlat bs = .error e) :
    parseAll (fuel + 1) bs = ([], e) := by
  simp only [parseAll, h]

theorem writeAll_split (post : List Packet) (p : Packet) (hp : p.WF) : ∀ (pre : List Packet), (∀ q ∈ pre, q.WF) →
    (writeAll (pre ++ p :: post)).2 = (pre.map wireOf).flatten ++ (wireOf p ++ (writeAll post).2)
  | [], _ => by simp [writeAll, (writeTo_wf p hp).2]
  | q :: qs, h => by
    have hq := (writeTo_wf q (h q (by simp))).2
    have ih := writeAll_split post p hp qs (fun x hx => h x (by simp [hx]))
    simp only [List.cons_append, writeAll, List.map_cons, List.flatten_cons, List.append_assoc, hq]
    rw [ih]

end Goloop.C30.Proofs
