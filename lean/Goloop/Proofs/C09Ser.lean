/-
  Proofs/C09Ser: every enabled event of `Sim` preserves the invariant; the least uncommitted
  transaction is always enabled; the initial state satisfies the invariant; `runSeq` in terms of
  `seqState`/`P`.
-/
import Goloop.Proofs.C09Inv
namespace Goloop.C09.Proofs
open Goloop.C09

theorem allBefore_iff (s : Sim) (i : Nat) :
    s.allBefore i = true ↔ ∀ j, j < i → (stOf s j).committed = true := by
  unfold Sim.allBefore
  rw [List.all_eq_true]
  constructor
  · intro h j hj; exact h j (List.mem_range.mpr hj)
  · intro h j hj; exact h j (List.mem_range.mp hj)

theorem access_worldW_world {lk : Locks} {a : Nat} (h : access lk a = .worldW) : lk.world = 2 := by
  unfold access at h
  by_cases hw : lk.world = 2
  · exact hw
  · simp only [hw, if_false] at h
    split at h
    · split at h <;> cases h
    · split at h <;> cases h

theorem access_roBase_world {lk : Locks} {a : Nat} (h : access lk a = .roBase) : lk.world = 1 := by
  unfold access at h
  by_cases hw : lk.world = 2
  · simp [hw] at h
  · simp only [hw, if_false] at h
    split at h
    · split at h <;> cases h
    · split at h
      · assumption
      · cases h

theorem las_dep {txs : List Tx} {i : Nat} (h : i < txs.length) {l : Las} (hl : l ∈ (lkAt txs i).las) :
    l.depend = dep txs i l.acct := by
  rw [lkAt_eq h] at hl
  rw [las_depend _ _ _ l hl, getLocker_prefix]

theorem access_entry {txs : List Tx} {i : Nat} (h : i < txs.length) {a : Nat} {d : Option Nat}
    (hacc : access (lkAt txs i) a = .rw d ∨ access (lkAt txs i) a = .ro d) : d = dep txs i a := by
  unfold access at hacc
  by_cases hw : (lkAt txs i).world = 2
  · simp [hw] at hacc
  · simp only [hw, if_false] at hacc
    cases hf : (lkAt txs i).las.find? (fun l => decide (l.acct = a)) with
    | none =>
      rw [hf] at hacc
      simp only at hacc
      rcases hacc with h1 | h1 <;> (split at h1 <;> cases h1)
    | some l =>
      rw [hf] at hacc
      simp only at hacc
      have hmem := List.mem_of_find?_eq_some hf
      have hacct : l.acct = a := by simpa using List.find?_some hf
      have hd := las_dep h hmem
      rw [hacct] at hd
      rcases hacc with h1 | h1
      · split at h1
        · injection h1 with h1; rw [← h1, hd]
        · cases h1
      · split at h1
        · cases h1
        · injection h1 with h1; rw [← h1, hd]

/-- if the recorded dependency of account `a` is committed, all earlier writers of `a` are -/
theorem smaller_writers {txs : List Tx} {init : List Nat} {s : Sim} (h : Inv txs init s) {i : Nat}
    (hi : i < txs.length) (a : Nat) (hd : depOK s (dep txs i a) = true) :
    ∀ j, j < i → writer txs j a = true → (stOf s j).committed = true := by
  intro j hj hja
  have hspec := dep_spec (txs := txs) (i := i) (by omega) a
  cases hdep : dep txs i a with
  | none =>
    have := hspec.2 hdep j hj
    rw [hja] at this; cases this
  | some k =>
    obtain ⟨hk, hka, hbetween⟩ := hspec.1 k hdep
    rw [hdep] at hd
    have hkc : (stOf s k).committed = true := hd
    rcases Nat.lt_trichotomy j k with h1 | h1 | h1
    · exact h.closed a k j (by omega) hka hkc h1 hja
    · subst h1; exact hkc
    · have := hbetween j h1 hj
      rw [hja] at this; cases this

theorem enabledTx_eq (txs : List Tx) (s : Sim) (i : Nat) :
    enabledTx txs (build txs) s i =
      (if (stOf s i).committed then false
       else match (txAt txs i).prog[(stOf s i).pc]? with
        | some step =>
          (match access (lkAt txs i) step.acct with
           | .worldW => s.allBefore i
           | .roBase => s.allBefore i
           | .rw d => depOK s d
           | .ro d => depOK s d
           | .nil => true)
        | none => (lkAt txs i).las.all (fun l => l.lock ≠ .write || depOK s l.depend)) := rfl

/-- new table entry after a program step -/
def stepped (st : TxSt) (l : Local) : TxSt := { st with pc := st.pc + 1, loc := l }
def committedSt (st : TxSt) : TxSt := { st with committed := true }
def roSrc (s : Sim) (d : Option Nat) : List Nat :=
  match d with
  | some j => (s.snaps.getD j none).getD s.init
  | none => s.init

theorem fire_eq (txs : List Tx) (s : Sim) (i : Nat) :
    fire txs (build txs) s i =
      (match (txAt txs i).prog[(stOf s i).pc]? with
       | none => { s with snaps := s.snaps.set i (some s.real), sts := s.sts.set i (committedSt (stOf s i)) }
       | some step =>
         match access (lkAt txs i) step.acct with
         | .nil =>
           { s with sts := s.sts.set i (stepped (stOf s i) { (stOf s i).loc with obs := (stOf s i).loc.obs ++ [none] }) }
         | .ro d =>
           { s with sts := s.sts.set i (stepped (stOf s i) (stepOn i (fun _ => true) step (roSrc s d) (stOf s i).loc).2) }
         | .roBase => fire txs (build txs) s i
         | .worldW =>
           { s with real := (stepOn i (fun _ => true) step s.real (stOf s i).loc).1,
                    sts := s.sts.set i (stepped (stOf s i) (stepOn i (fun _ => true) step s.real (stOf s i).loc).2) }
         | .rw _ =>
           { s with real := (stepOn i (fun _ => true) step s.real (stOf s i).loc).1,
                    sts := s.sts.set i (stepped (stOf s i) (stepOn i (fun _ => true) step s.real (stOf s i).loc).2) }) := by
  unfold fire
  simp only [stOf, txAt, lkAt, stepped, committedSt, roSrc]
  cases (txs.getD i ⟨[], []⟩).prog[(s.sts.getD i {}).pc]? with
  | none => rfl
  | some step =>
    simp only
    cases hacc : access ((build txs).getD i ⟨0, []⟩) step.acct <;> simp only [hacc] <;> rfl

theorem writer_of_access {txs : List Tx} (hs : Supported txs) {i : Nat} (hi : i < txs.length) {a : Nat} :
    (∀ d, access (lkAt txs i) a = .rw d → writer txs i a = true) ∧
    (∀ d, access (lkAt txs i) a = .ro d → writer txs i a = false) := by
  constructor
  · intro d hacc
    cases hw : writer txs i a
    · rcases access_nonwriter hs hi hw with h1 | h1 <;> (rw [hacc] at h1; cases h1)
    · rfl
  · intro d hacc
    cases hw : writer txs i a
    · rfl
    · rcases access_writer hs hi hw with ⟨h1, _⟩ | ⟨h1, _⟩ <;> (rw [hacc] at h1; cases h1)

/-- what a reader gets from the read-only copy is the sequential value -/
theorem roSrc_value {txs : List Tx} (hs : Supported txs) {init : List Nat} {s : Sim} (h : Inv txs init s) {i : Nat}
    (hi : i < txs.length) (b : Nat) (hd : depOK s (dep txs i b) = true) :
    (roSrc s (dep txs i b)).getD b 0 = (seqState txs init i).getD b 0 := by
  have hspec := dep_spec (txs := txs) (i := i) (by omega) b
  cases hdep : dep txs i b with
  | none =>
    simp only [roSrc]
    rw [h.initEq]
    symm
    exact seqState_const hs init b 0 i (Nat.zero_le _) (by omega) (fun j _ hj => hspec.2 hdep j hj)
  | some k =>
    obtain ⟨hk, hka, hbetween⟩ := hspec.1 k hdep
    rw [hdep] at hd
    have hkc : (stOf s k).committed = true := hd
    simp only [roSrc]
    rw [h.snap k (by omega) hkc b hka]
    symm
    exact seqState_const hs init b (k + 1) i (by omega) (by omega) (fun j h1 h2 => hbetween j (by omega) h2)

/-- every enabled event preserves the invariant -/
theorem inv_fire {txs : List Tx} (hs : Supported txs) {init : List Nat} {s : Sim} (h : Inv txs init s) {i : Nat}
    (hi : i < txs.length) (hen : enabledTx txs (build txs) s i = true) :
    Inv txs init (fire txs (build txs) s i) := by
  rw [enabledTx_eq] at hen
  rw [fire_eq]
  cases hc : (stOf s i).committed with
  | true => simp [hc] at hen
  | false =>
    simp only [hc, Bool.false_eq_true, if_false] at hen
    cases hst : (txAt txs i).prog[(stOf s i).pc]? with
    | none =>
      simp only [hst] at hen ⊢
      have hpc : (txAt txs i).prog.length ≤ (stOf s i).pc := by simpa using hst
      apply inv_commit hs h hi hc hpc
      intro a hwa j hj hja
      rcases access_writer hs hi hwa with ⟨_, h2⟩ | ⟨_, h0⟩
      · have hne := hs.worldTouches i hi h2
        have hpos : 0 < (stOf s i).pc := by
          have : 0 < (txAt txs i).prog.length := List.length_pos_iff.mpr hne
          omega
        exact h.worldStarted i hi h2 hpos j hj
      · obtain ⟨l, hl, hla, hlw, hld⟩ := ((access_noWorld hi h0 a).1 hwa).2
        rw [List.all_eq_true] at hen
        have hthis := hen l hl
        simp only [hlw, ne_eq, not_true_eq_false, decide_false, Bool.false_or] at hthis
        rw [hld] at hthis
        exact smaller_writers h hi a hthis j hj hja
    | some step =>
      simp only [hst] at hen ⊢
      have hmem : step ∈ (txAt txs i).prog := List.mem_of_getElem? hst
      have hlt : (stOf s i).pc < (txAt txs i).prog.length := (List.getElem?_eq_some_iff.mp hst).1
      have eP : P txs init i ((stOf s i).pc + 1) =
          stepOn i (declaredBy (lkAt txs i)) step (P txs init i (stOf s i).pc).1 (P txs init i (stOf s i).pc).2 := by
        unfold P; exact partialRun_succ _ _ _ _ _ _ hst
      have eloc := h.loc i hi
      cases hacc : access (lkAt txs i) step.acct with
      | nil =>
        simp only [hacc] at hen ⊢
        have hd : declaredBy (lkAt txs i) step.acct = false := by simp [declaredBy, hacc]
        rw [stepOn_undeclared _ _ _ _ _ hd] at eP
        refine inv_local h hi _ hlt hc ?_ ?_ ?_
        · rw [eP, eloc]
        · rw [eP]
        · intro h2; rw [access_world h2] at hacc; cases hacc
      | ro d =>
        simp only [hacc] at hen ⊢
        have hnw := (writer_of_access hs hi).2 d hacc
        have hdd := access_entry hi (Or.inr hacc)
        subst hdd
        have hdecl : declaredBy (lkAt txs i) step.acct = true := by simp [declaredBy, hacc]
        cases step with
        | w b =>
          have hv := hs.valid i hi
          unfold validTx at hv
          rw [List.all_eq_true] at hv
          have := hv _ hmem
          simp only [Step.acct] at hacc
          simp [hacc] at this
        | r b =>
          simp only [Step.acct] at hacc hnw hen hdecl
          have hval : (roSrc s (dep txs i b)).getD b 0 = (P txs init i (stOf s i).pc).1.getD b 0 := by
            rw [roSrc_value hs h hi b hen, P_nonwriter hs init hi hnw]
          refine inv_local h hi _ hlt hc ?_ ?_ ?_
          · rw [eP, ← eloc]
            exact stepOn_local i _ _ (.r b) _ _ _ rfl hdecl hval
          · rw [eP, stepOn_getD_read]
          · intro h2; rw [access_world h2] at hacc; cases hacc
      | roBase =>
        have := access_roBase_world hacc
        rcases world_cases hs hi with h0 | h2 <;> omega
      | worldW =>
        simp only [hacc] at hen ⊢
        have h2 := access_worldW_world hacc
        have hall := (allBefore_iff s i).mp hen
        refine inv_store h hi step hst hc (writer_of_world hi h2 _) (by simp [declaredBy, hacc])
          (fun j hj _ => hall j hj) (fun _ => hall)
      | rw d =>
        simp only [hacc] at hen ⊢
        have hw := (writer_of_access hs hi).1 d hacc
        have hdd := access_entry hi (Or.inl hacc)
        subst hdd
        refine inv_store h hi step hst hc hw (by simp [declaredBy, hacc])
          (smaller_writers h hi _ hen) ?_
        intro h2; rw [access_world h2] at hacc; cases hacc

/-! ### deadlock freedom -/

theorem depOK_of_allBefore {txs : List Tx} {s : Sim} {i : Nat} (hi : i < txs.length) (a : Nat)
    (hall : ∀ j, j < i → (stOf s j).committed = true) : depOK s (dep txs i a) = true := by
  have hspec := dep_spec (txs := txs) (i := i) (by omega) a
  cases hdep : dep txs i a with
  | none => rfl
  | some k => exact hall k (hspec.1 k hdep).1

/-- the least uncommitted transaction can always make its next step (in ANY state) -/
theorem least_enabled {txs : List Tx} {s : Sim} {i : Nat} (hi : i < txs.length)
    (hc : (stOf s i).committed = false) (hall : ∀ j, j < i → (stOf s j).committed = true) :
    enabledTx txs (build txs) s i = true := by
  rw [enabledTx_eq]
  simp only [hc, Bool.false_eq_true, if_false]
  cases hst : (txAt txs i).prog[(stOf s i).pc]? with
  | none =>
    simp only
    rw [List.all_eq_true]
    intro l hl
    rw [las_dep hi hl, depOK_of_allBefore hi _ hall]
    simp
  | some step =>
    simp only
    cases hacc : access (lkAt txs i) step.acct with
    | nil => rfl
    | worldW => exact (allBefore_iff s i).mpr hall
    | roBase => exact (allBefore_iff s i).mpr hall
    | rw d =>
      simp only
      rw [access_entry hi (Or.inl hacc)]; exact depOK_of_allBefore hi _ hall
    | ro d =>
      simp only
      rw [access_entry hi (Or.inr hacc)]; exact depOK_of_allBefore hi _ hall

theorem exists_least (p : Nat → Bool) : ∀ n, (∃ i, i < n ∧ p i = true) →
    ∃ i, i < n ∧ p i = true ∧ ∀ j, j < i → p j = false := by
  intro n
  induction n with
  | zero => rintro ⟨i, hi, _⟩; omega
  | succ n ih =>
    rintro ⟨i, hi, hp⟩
    by_cases hex : ∃ i, i < n ∧ p i = true
    · obtain ⟨k, hk, hpk, hl⟩ := ih hex
      exact ⟨k, by omega, hpk, hl⟩
    · have hin : i = n := by
        by_cases hlt : i < n
        · exact absurd ⟨i, hlt, hp⟩ hex
        · omega
      subst hin
      refine ⟨i, by omega, hp, ?_⟩
      intro j hj
      cases hpj : p j
      · rfl
      · exact absurd ⟨j, hj, hpj⟩ hex

theorem exists_enabled {txs : List Tx} {s : Sim}
    (hunc : ∃ i, i < txs.length ∧ (stOf s i).committed = false) :
    ∃ i, i < txs.length ∧ enabledTx txs (build txs) s i = true := by
  obtain ⟨i, hi, hc⟩ := hunc
  obtain ⟨k, hk, hpk, hl⟩ := exists_least (fun j => !(stOf s j).committed) txs.length ⟨i, hi, by simp [hc]⟩
  refine ⟨k, hk, least_enabled hk (by simpa using hpk) ?_⟩
  intro j hj
  have := hl j hj
  simpa using this

/-! ### initial state, schedules -/

theorem stOf_simInit (nacc : Nat) (txs : List Tx) (i : Nat) : stOf (simInit nacc txs) i = {} := by
  unfold stOf simInit
  simp only [List.getD_eq_getElem?_getD, List.getElem?_map]
  cases txs[i]? <;> rfl

theorem inv_init {txs : List Tx} (hs : Supported txs) (nacc : Nat) :
    Inv txs (initBal nacc) (simInit nacc txs) := by
  have hst := stOf_simInit nacc txs
  have hnone : ∀ (a w : Nat), w ≤ txs.length →
      (∀ j, j < w → writer txs j a = true → (stOf (simInit nacc txs) j).committed = true) →
      (seqState txs (initBal nacc) w).getD a 0 = (initBal nacc).getD a 0 := by
    intro a w hw hall
    apply seqState_const hs (initBal nacc) a 0 w (Nat.zero_le _) hw
    intro j _ hj
    cases hja : writer txs j a
    · rfl
    · have := hall j hj hja
      rw [hst] at this; cases this
  refine ⟨by simp [simInit], by simp [simInit], rfl, rfl, ?_, ?_, ?_, ?_, ?_, ?_, ?_, ?_, ?_⟩
  · intro i _; rw [hst]; exact Nat.zero_le _
  · intro i _; rw [hst]; simp [P, partialRun_zero]
  · intro i _ hc; rw [hst] at hc; cases hc
  · intro a w hw _ _ hall
    rw [hst]
    show (initBal nacc).getD a 0 = _
    simp only [P, partialRun_zero]
    exact (hnone a w (by omega) hall).symm
  · intro a hall
    show (initBal nacc).getD a 0 = _
    exact (hnone a txs.length (Nat.le_refl _) hall).symm
  · intro i _ hc; rw [hst] at hc; cases hc
  · intro a j j' _ _ hc; rw [hst] at hc; cases hc
  · intro i _ _ hpos; rw [hst] at hpos; cases hpos
  · intro a w j _ _ _ _ _
    rw [hst]; simp [P, partialRun_zero]

theorem inv_runSched {txs : List Tx} (hs : Supported txs) {init : List Nat} :
    ∀ (sched : List Nat) (s s' : Sim), Inv txs init s → runSched txs (build txs) sched s = some s' → Inv txs init s' := by
  intro sched
  induction sched with
  | nil => intro s s' h hr; simp [runSched] at hr; subst hr; exact h
  | cons i rest ih =>
    intro s s' h hr
    simp only [runSched] at hr
    split at hr
    · rename_i hcond
      exact ih _ _ (inv_fire hs h hcond.1 hcond.2) hr
    · cases hr

/-! ### `runSeq` in terms of `seqState` and `P` -/

theorem lkAt_lt {txs : List Tx} {i : Nat} (h : i < txs.length) :
    lkAt txs i = (build txs)[i]'(by rw [build_length]; exact h) := by
  simp [lkAt, List.getD_eq_getElem?_getD, build_length, h]

theorem runSeqFrom_spec (txs : List Tx) (init : List Nat) : ∀ k i, i + k = txs.length →
    runSeqFrom i ((txs.zip (build txs)).drop i) (seqState txs init i) =
      (seqState txs init txs.length,
       (List.range' i k).map (fun j => (P txs init j (txAt txs j).prog.length).2.obs)) := by
  intro k
  induction k with
  | zero =>
    intro i hi
    have : i = txs.length := by omega
    subst this
    rw [List.drop_eq_nil_of_le (by simp [build_length])]
    simp [runSeqFrom]
  | succ k ih =>
    intro i hi
    have hlt : i < txs.length := by omega
    have hlz : i < (txs.zip (build txs)).length := by simp [build_length]; omega
    rw [List.drop_eq_getElem_cons hlz]
    simp only [List.getElem_zip, runSeqFrom]
    rw [← txAt_lt hlt, ← lkAt_lt hlt]
    have e1 : (runTxSeq i (lkAt txs i) (txAt txs i).prog (seqState txs init i)).1 = seqState txs init (i + 1) := rfl
    rw [e1, ih (i + 1) (by omega)]
    simp only [List.range'_succ, List.map_cons]
    congr 2
    unfold P
    rw [partialRun_full _ _ _ _ _ (Nat.le_refl _)]

theorem runSeq_eq (nacc : Nat) (txs : List Tx) :
    runSeq nacc txs = (seqState txs (initBal nacc) txs.length,
      (List.range txs.length).map (fun j => (P txs (initBal nacc) j (txAt txs j).prog.length).2.obs)) := by
  unfold runSeq
  have := runSeqFrom_spec txs (initBal nacc) txs.length 0 (by omega)
  simp only [List.drop_zero, seqState] at this
  rw [this, List.range_eq_range']

/-! ### observations only grow -/

theorem stepOn_obs (i : Nat) (decl : Nat → Bool) (st : Step) (store : List Nat) (l : Local) :
    l.obs <+: (stepOn i decl st store l).2.obs := by
  unfold stepOn
  split
  · exact List.prefix_append _ _
  · cases st with
    | r a => exact List.prefix_append _ _
    | w a => exact List.prefix_refl _

theorem partialRun_obs_prefix (i : Nat) (lk : Locks) (prog : List Step) (store : List Nat) (k : Nat) :
    ∀ k', k ≤ k' → (partialRun i lk prog store k).2.obs <+: (partialRun i lk prog store k').2.obs := by
  intro k'
  induction k' with
  | zero => intro h; have : k = 0 := by omega
            subst this; exact List.prefix_refl _
  | succ k' ih =>
    intro h
    by_cases heq : k = k' + 1
    · subst heq; exact List.prefix_refl _
    · have h1 := ih (by omega)
      cases hst : prog[k']? with
      | none =>
        have hk : prog.length ≤ k' := by simpa using hst
        have e : partialRun i lk prog store (k' + 1) = partialRun i lk prog store k' := by
          rw [partialRun_full _ _ _ _ (k' + 1) (by omega), partialRun_full _ _ _ _ k' hk]
        rw [e]; exact h1
      | some st =>
        rw [partialRun_succ _ _ _ _ _ _ hst]
        exact List.IsPrefix.trans h1 (stepOn_obs _ _ _ _ _)

/-! ### the driver's `simulate` only produces schedules of enabled events -/

def SchedOK (n : Nat) : Sched → Prop
  | .toks _ => True
  | .prio l => ∀ i ∈ l, i < n

theorem mem_enabledList {txs : List Tx} {lks : List Locks} {s : Sim} {i : Nat}
    (h : i ∈ enabledList txs lks s) : i < txs.length ∧ enabledTx txs lks s i = true := by
  unfold enabledList at h
  rw [List.mem_filter] at h
  exact ⟨List.mem_range.mp h.1, h.2⟩

theorem pick_enabled {txs : List Tx} {lks : List Locks} {s : Sim} {sc sc' : Sched} {i : Nat}
    (hok : SchedOK txs.length sc) (h : pick txs lks s (enabledList txs lks s) sc = some (i, sc')) :
    i < txs.length ∧ enabledTx txs lks s i = true ∧ SchedOK txs.length sc' := by
  cases sc with
  | toks l =>
    cases l with
    | nil =>
      simp only [pick, Option.map_eq_some_iff] at h
      obtain ⟨j, hj, heq⟩ := h
      injection heq with h1 h2
      subst h1; subst h2
      have := mem_enabledList (List.mem_of_head? hj)
      exact ⟨this.1, this.2, trivial⟩
    | cons t r =>
      simp only [pick, Option.map_eq_some_iff] at h
      obtain ⟨j, hj, heq⟩ := h
      injection heq with h1 h2
      subst h1; subst h2
      have := mem_enabledList (List.mem_of_getElem? hj)
      exact ⟨this.1, this.2, trivial⟩
  | prio l =>
    simp only [pick] at h
    cases hf : l.find? (fun i => enabledTx txs lks s i) with
    | some j =>
      rw [hf] at h
      injection h with h
      injection h with h1 h2
      subst h1; subst h2
      refine ⟨hok j (List.mem_of_find?_eq_some hf), ?_, hok⟩
      simpa using List.find?_some hf
    | none =>
      rw [hf] at h
      simp only [Option.map_eq_some_iff] at h
      obtain ⟨j, hj, heq⟩ := h
      injection heq with h1 h2
      subst h1; subst h2
      have := mem_enabledList (List.mem_of_head? hj)
      exact ⟨this.1, this.2, hok⟩

theorem simulate_is_schedule (txs : List Tx) (lks : List Locks) : ∀ (f : Nat) (s : Sim) (sc : Sched) (s' : Sim),
    SchedOK txs.length sc → simulate txs lks f s sc = some s' →
    ∃ sched, runSched txs lks sched s = some s' := by
  intro f
  induction f with
  | zero =>
    intro s sc s' _ h
    simp only [simulate] at h
    injection h with h; subst h
    exact ⟨[], rfl⟩
  | succ f ih =>
    intro s sc s' hok h
    simp only [simulate] at h
    split at h
    · injection h with h; subst h
      exact ⟨[], rfl⟩
    · cases hp : pick txs lks s (enabledList txs lks s) sc with
      | none => rw [hp] at h; cases h
      | some p =>
        obtain ⟨i, sc'⟩ := p
        rw [hp] at h
        simp only at h
        obtain ⟨hi, hen, hok'⟩ := pick_enabled hok hp
        obtain ⟨sched, hs⟩ := ih _ _ _ hok' h
        exact ⟨i :: sched, by simp [runSched, hi, hen, hs]⟩

end Goloop.C09.Proofs
