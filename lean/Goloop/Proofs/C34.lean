import Goloop.Model.C34
namespace Goloop.C34.Proofs
open Goloop.C34

theorem sumInt_cons (a : Int) (l : List Int) : sumInt (a :: l) = a + sumInt l := rfl

theorem sumInt_filter_split {α} (l : List α) (c : α → Bool) (f : α → Int) :
    sumInt (l.map f) = sumInt ((l.filter c).map f) + sumInt ((l.filter (fun x => !c x)).map f) := by
  induction l with
  | nil => rfl
  | cons a l ih =>
    by_cases h : c a <;> simp [h, sumInt_cons, ih] <;> omega

/-- the timers move expiring unstakes into the balance: holdings are unchanged -/
theorem fire_holdings (h : Int) (a : Account) : (fire h a).holdings = a.holdings := by
  unfold fire
  simp only []
  split
  · simp only [Account.holdings, Account.unstaking]
    have := sumInt_filter_split a.unstakes (fun u => u.2 == h) (·.1)
    have e : (a.unstakes.filter (fun u => !(u.2 == h))) = a.unstakes.filter (fun u => u.2 != h) := by
      apply List.filter_congr; intro x _; rfl
    rw [e] at this
    omega
  · rfl

theorem fire_stake (h : Int) (a : Account) : (fire h a).stake = a.stake := by
  unfold fire; simp only []; split <;> rfl
theorem fire_delegs (h : Int) (a : Account) : (fire h a).delegs = a.delegs := by
  unfold fire; simp only []; split <;> rfl
theorem fire_bonds (h : Int) (a : Account) : (fire h a).bonds = a.bonds := by
  unfold fire; simp only []; split <;> rfl
theorem fire_unbonds (h : Int) (a : Account) : (fire h a).unbonds = a.unbonds.filter (fun u => u.2.2 != h) := by
  unfold fire; simp only []; split <;> rfl

def sumF (f : Account → Int) (l : List Account) : Int := sumInt (l.map f)

theorem sumF_set (f : Account → Int) : ∀ (l : List Account) (i : Nat) (a : Account), i < l.length →
    sumF f (l.set i a) = sumF f l - f (l.getD i {}) + f a := by
  intro l
  induction l with
  | nil => intro i a h; simp at h
  | cons x xs ih =>
    intro i a h
    cases i with
    | zero => simp [sumF, sumInt_cons]; omega
    | succ n =>
      have hn : n < xs.length := by simpa using h
      have := ih n a hn
      simp only [sumF] at this
      simp only [List.set_cons_succ, sumF, List.map_cons, sumInt_cons, List.getD_cons_succ]
      rw [this]; omega

theorem sumF_map (f : Account → Int) (g : Account → Account) (h : ∀ a, f (g a) = f a) (l : List Account) :
    sumF f (l.map g) = sumF f l := by
  induction l with
  | nil => rfl
  | cons x xs ih => simp only [sumF, List.map_cons, sumInt_cons] at *; rw [ih, h]

theorem getD_set_ne (l : List Account) (i j : Nat) (a : Account) (h : i ≠ j) :
    (l.set i a).getD j {} = l.getD j {} := by
  simp [List.getD, List.getElem?_set, h]

theorem getD_set_eq (l : List Account) (i : Nat) (a : Account) (h : i < l.length) :
    (l.set i a).getD i {} = a := by
  simp [List.getD, List.getElem?_set, h]

theorem sumF_set2 (f : Account → Int) (l : List Account) (i j : Nat) (a b : Account)
    (hi : i < l.length) (hj : j < l.length) (hij : i ≠ j) :
    sumF f ((l.set i a).set j b) = sumF f l - f (l.getD i {}) + f a - f (l.getD j {}) + f b := by
  rw [sumF_set f (l.set i a) j b (by simpa using hj), sumF_set f l i a hi, getD_set_ne l i j a hij]

/-- the two accounting equations of the world -/
structure Inv (w : World) : Prop where
  supply : w.totalSupply = w.rest + sumF Account.holdings w.accts
  stake : w.totalStake = sumF Account.stake w.accts

theorem inv_setStake (w w' : World) (i : Nat) (v : Int) (hi : i < w.accts.length) (inv : Inv w)
    (h : setStake w i v = some w') : Inv w' ∧ w'.accts.length = w.accts.length := by
  unfold setStake at h
  simp only [] at h
  split at h; · cases h
  split at h
  · cases h; exact ⟨inv, rfl⟩
  split at h; · cases h
  split at h; · cases h
  split at h; · cases h
  split at h; · cases h
  cases h
  refine ⟨⟨?_, ?_⟩, by simp [setAcct]⟩
  · simp only [setAcct, sumF_set _ _ _ _ hi, getAcct] at *
    rw [inv.supply]
    simp only [Account.holdings, Account.totalStake, Account.unstaking]
    omega
  · simp only [setAcct, sumF_set _ _ _ _ hi, getAcct] at *
    rw [inv.stake]
    omega

theorem inv_setDelegation (w w' : World) (i : Nat) (ds : Votes) (hi : i < w.accts.length) (inv : Inv w)
    (h : setDelegation w i ds = some w') : Inv w' ∧ w'.accts.length = w.accts.length := by
  unfold setDelegation at h
  simp only [] at h
  split at h; · cases h
  cases h
  refine ⟨⟨?_, ?_⟩, by simp [setAcct]⟩
  · simp only [setAcct, sumF_set _ _ _ _ hi, getAcct]
    rw [inv.supply]; simp only [Account.holdings, Account.unstaking]; omega
  · simp only [setAcct, sumF_set _ _ _ _ hi, getAcct]
    rw [inv.stake]; omega

theorem inv_setBond (w w' : World) (i : Nat) (bs : Votes) (al : Bool) (hi : i < w.accts.length) (inv : Inv w)
    (h : setBond w i bs al = some w') : Inv w' ∧ w'.accts.length = w.accts.length := by
  unfold setBond at h
  simp only [] at h
  split at h; · cases h
  split at h; · cases h
  split at h; · cases h
  split at h; · cases h
  split at h; · cases h
  cases h
  refine ⟨⟨?_, ?_⟩, by simp [setAcct]⟩
  · simp only [setAcct, sumF_set _ _ _ _ hi, getAcct]
    rw [inv.supply]; simp only [Account.holdings, Account.unstaking]; omega
  · simp only [setAcct, sumF_set _ _ _ _ hi, getAcct]
    rw [inv.stake]; omega

theorem inv_transfer (w w' : World) (i j : Nat) (v : Int) (hi : i < w.accts.length) (hj : j < w.accts.length)
    (inv : Inv w) (h : transfer w i j v = some w') : Inv w' ∧ w'.accts.length = w.accts.length := by
  unfold transfer at h
  split at h; · cases h
  split at h
  · cases h; exact ⟨inv, rfl⟩
  rename_i hne
  simp only [] at h
  split at h; · cases h
  cases h
  have hij : i ≠ j := fun e => hne (Or.inr e)
  refine ⟨⟨?_, ?_⟩, by simp [setAcct]⟩
  · simp only [setAcct, getAcct]
    rw [sumF_set2 _ _ i j _ _ hi hj hij, getD_set_ne _ _ _ _ hij, inv.supply]
    simp only [Account.holdings, Account.unstaking]; omega
  · simp only [setAcct, getAcct]
    rw [sumF_set2 _ _ i j _ _ hi hj hij, getD_set_ne _ _ _ _ hij, inv.stake]
    simp only []; omega

theorem inv_claim (w w' : World) (i : Nat) (icx : Int) (ok : Bool) (hi : i < w.accts.length) (inv : Inv w)
    (h : claim w i icx ok = some w') : Inv w' ∧ w'.accts.length = w.accts.length := by
  unfold claim at h
  split at h; · cases h
  cases h
  refine ⟨⟨?_, ?_⟩, by simp [setAcct]⟩
  · simp only [setAcct, sumF_set _ _ _ _ hi, getAcct]
    rw [inv.supply]; simp only [Account.holdings, Account.unstaking]; omega
  · simp only [setAcct, sumF_set _ _ _ _ hi, getAcct]
    rw [inv.stake]; omega

theorem inv_applyTx0 (w w' : World) (tx : Tx) (inv : Inv w) (h : applyTx0 w tx = some w') :
    Inv w' ∧ w'.accts.length = w.accts.length := by
  unfold applyTx0 at h
  split at h; · cases h
  rename_i hr
  cases tx with
  | none => cases h; exact ⟨inv, rfl⟩
  | burn i fee =>
    have hi : i < w.accts.length := by simpa [Tx.inRange] using hr
    simp only [burnFee] at h
    split at h; · cases h
    split at h; · cases h
    cases h
    refine ⟨⟨?_, ?_⟩, by simp [setAcct]⟩
    · simp only [setAcct, sumF_set _ _ _ _ hi, getAcct]
      rw [inv.supply]; simp only [Account.holdings, Account.unstaking]; omega
    · simp only [setAcct, sumF_set _ _ _ _ hi, getAcct]
      rw [inv.stake]; omega
  | regPRep i k fee => cases h
  | register k =>
    simp only [registerPRep] at h
    split at h; · cases h
    cases h; exact ⟨⟨inv.supply, inv.stake⟩, rfl⟩
  | unregister k =>
    simp only [unregisterPRep] at h
    split at h; · cases h
    split at h; · cases h
    cases h; exact ⟨⟨inv.supply, inv.stake⟩, rfl⟩
  | stake i v => exact inv_setStake w w' i v (by simpa [Tx.inRange] using hr) inv h
  | deleg i ds => exact inv_setDelegation w w' i ds (by simpa [Tx.inRange] using hr) inv h
  | bond i bs al => exact inv_setBond w w' i bs al (by simpa [Tx.inRange] using hr) inv h
  | xfer i j v =>
    have : i < w.accts.length ∧ j < w.accts.length := by simpa [Tx.inRange] using hr
    exact inv_transfer w w' i j v this.1 this.2 inv h
  | claim i icx ok => exact inv_claim w w' i icx ok (by simpa [Tx.inRange] using hr) inv h

theorem applyTx_cases (w w' : World) (tx : Tx) (h : applyTx w tx = some w') :
    applyTx0 w tx = some w' ∨ ∃ i k fee w1, tx = Tx.regPRep i k fee ∧
      applyTx0 w (Tx.burn i fee) = some w1 ∧ applyTx0 w1 (Tx.register k) = some w' := by
  cases tx with
  | regPRep i k fee =>
    right
    simp only [applyTx] at h
    cases h1 : applyTx0 w (Tx.burn i fee) with
    | none => rw [h1] at h; cases h
    | some w1 => rw [h1] at h; exact ⟨i, k, fee, w1, rfl, h1, by simpa using h⟩
  | _ => left; exact h

/-- a property kept by the single steps (burn and register included) is kept by every transaction -/
theorem applyTx_lift (P : World → Prop) (Q : Tx → Prop)
    (h0 : ∀ w w' tx, Q tx → P w → applyTx0 w tx = some w' → P w')
    (hb : ∀ i fee, Q (Tx.burn i fee)) (hr : ∀ k, Q (Tx.register k))
    (w w' : World) (tx : Tx) (hq : Q tx) (hw : P w) (h : applyTx w tx = some w') : P w' := by
  rcases applyTx_cases w w' tx h with h1 | ⟨i, k, fee, w1, _, hb1, hr1⟩
  · exact h0 w w' tx hq hw h1
  · exact h0 w1 w' _ (hr k) (h0 w w1 _ (hb i fee) hw hb1) hr1

theorem inv_applyTx (w w' : World) (tx : Tx) (inv : Inv w) (h : applyTx w tx = some w') : Inv w' :=
  applyTx_lift Inv (fun _ => True) (fun w w' tx _ hw h => (inv_applyTx0 w w' tx hw h).1)
    (fun _ _ => trivial) (fun _ => trivial) w w' tx trivial inv h

theorem inv_fire (w : World) (inv : Inv w) : Inv { w with accts := w.accts.map (fire w.height) } := by
  constructor
  · simp only [sumF_map Account.holdings (fire w.height) (fire_holdings w.height)]
    exact inv.supply
  · simp only [sumF_map Account.stake (fire w.height) (fire_stake w.height)]
    exact inv.stake

/-- a property kept by every successful transaction is kept by the transaction list of a block -/
theorem applyTxs_preserves (P : World → Prop) (Q : Tx → Prop)
    (h : ∀ w w' tx, Q tx → P w → applyTx w tx = some w' → P w') :
    ∀ (txs : List Tx) (w : World), (∀ tx ∈ txs, Q tx) → P w → P (applyTxs w txs).1 := by
  intro txs
  induction txs with
  | nil => intro w _ hw; exact hw
  | cons tx rest ih =>
    intro w hq hw
    simp only [applyTxs]
    split
    · rename_i w' heq
      exact ih w' (fun t ht => hq t (by simp [ht])) (h w w' tx (hq tx (by simp)) hw heq)
    · exact ih w (fun t ht => hq t (by simp [ht])) hw

theorem inv_block (w : World) (txs : List Tx) (issue : Int) (inv : Inv w) : Inv (block w txs issue).1 := by
  have inv0 : Inv { w with height := w.height + 1, rest := w.rest + issue, totalSupply := w.totalSupply + issue } := by
    constructor
    · simp only []; rw [inv.supply]; omega
    · exact inv.stake
  unfold block
  simp only []
  exact inv_fire _ (applyTxs_preserves Inv (fun _ => True)
    (fun w w' tx _ hw h => inv_applyTx w w' tx hw h) txs _ (fun _ _ => trivial) inv0)

/-! ### delegated + bonded + unbonding ≤ stake -/

def UnbondsNonneg (a : Account) : Prop := ∀ u ∈ a.unbonds, 0 ≤ u.2.1

/-- per-account invariant -/
def AcctOk (a : Account) : Prop := a.usingStake ≤ a.stake ∧ UnbondsNonneg a

theorem updateUnbond_nonneg (ubs : List (Nat × Int × Int)) (k : Nat) (delta expire : Int)
    (h : ∀ u ∈ ubs, 0 ≤ u.2.1) : ∀ u ∈ updateUnbond ubs k delta expire, 0 ≤ u.2.1 := by
  unfold updateUnbond
  split
  · exact h
  · split
    · rename_i hneg
      split
      · intro u hu
        obtain ⟨x, hx, rfl⟩ := List.mem_map.mp hu
        have := h x hx
        split
        · simp only []; omega
        · exact this
      · intro u hu
        rcases List.mem_append.mp hu with hu | hu
        · exact h u hu
        · simp at hu; subst hu; simp only []; omega
    · intro u hu
      have ⟨hm, hf⟩ := List.mem_filter.mp hu
      obtain ⟨x, hx, rfl⟩ := List.mem_map.mp hm
      have := h x hx
      by_cases hk : (x.1 == k) = true
      · simp only [hk, if_true] at hf ⊢
        simp at hf
        omega
      · simp only [hk]
        exact this

theorem foldl_updateUnbond_nonneg (keys : List Nat) (d : Nat → Int) (expire : Int) :
    ∀ (ubs : List (Nat × Int × Int)), (∀ u ∈ ubs, 0 ≤ u.2.1) →
    ∀ u ∈ keys.foldl (fun ubs k => updateUnbond ubs k (d k) expire) ubs, 0 ≤ u.2.1 := by
  induction keys with
  | nil => intro ubs h; exact h
  | cons k ks ih =>
    intro ubs h
    simp only [List.foldl_cons]
    exact ih _ (updateUnbond_nonneg ubs k (d k) expire h)

theorem sumInt_filter_le {α} (l : List α) (c : α → Bool) (f : α → Int) (h : ∀ x ∈ l, 0 ≤ f x) :
    sumInt ((l.filter c).map f) ≤ sumInt (l.map f) := by
  induction l with
  | nil => exact Int.le_refl _
  | cons a l ih =>
    have ha := h a (by simp)
    have := ih (fun x hx => h x (by simp [hx]))
    by_cases hc : c a <;> simp [hc, sumInt_cons] <;> omega

theorem fire_ok (h : Int) (a : Account) (ok : AcctOk a) : AcctOk (fire h a) := by
  obtain ⟨hu, hn⟩ := ok
  constructor
  · have := sumInt_filter_le a.unbonds (fun u => u.2.2 != h) (·.2.1) hn
    simp only [Account.usingStake, Account.unbonding, Account.delegating, Account.bonded,
      fire_stake, fire_delegs, fire_bonds, fire_unbonds] at *
    omega
  · intro u hu'
    simp only [fire_unbonds] at hu'
    exact hn u (List.mem_filter.mp hu').1

def AllOk (w : World) : Prop := ∀ a ∈ w.accts, AcctOk a

theorem allOk_set (w : World) (i : Nat) (a : Account) (h : AllOk w) (ha : AcctOk a) : AllOk (setAcct w i a) := by
  intro x hx
  rcases List.mem_or_eq_of_mem_set hx with hm | rfl
  · exact h x hm
  · exact ha

theorem getAcct_ok (w : World) (i : Nat) (hi : i < w.accts.length) (h : AllOk w) : AcctOk (getAcct w i) := by
  apply h
  simp only [getAcct, List.getD, List.getElem?_eq_getElem hi, Option.getD_some]
  exact List.getElem_mem hi

theorem allOk_applyTx0 (w w' : World) (tx : Tx) (ok : AllOk w) (h : applyTx0 w tx = some w') : AllOk w' := by
  unfold applyTx0 at h
  split at h; · cases h
  rename_i hr
  cases tx with
  | none => cases h; exact ok
  | burn i fee =>
    have hi : i < w.accts.length := by simpa [Tx.inRange] using hr
    simp only [burnFee] at h
    split at h; · cases h
    split at h; · cases h
    cases h
    exact allOk_set w i _ ok (getAcct_ok w i hi ok)
  | regPRep i k fee => cases h
  | register k =>
    simp only [registerPRep] at h
    split at h; · cases h
    cases h; exact ok
  | unregister k =>
    simp only [unregisterPRep] at h
    split at h; · cases h
    split at h; · cases h
    cases h; exact ok
  | stake i v =>
    have hi : i < w.accts.length := by simpa [Tx.inRange] using hr
    have ⟨_, hn⟩ := getAcct_ok w i hi ok
    simp only [setStake] at h
    split at h; · cases h
    split at h
    · cases h; exact ok
    split at h; · cases h
    split at h; · cases h
    split at h; · cases h
    split at h; · cases h
    cases h
    rename_i hv _ _ _ _ _
    intro x hx
    rcases List.mem_or_eq_of_mem_set hx with hm | rfl
    · exact ok x hm
    · constructor
      · simp only [Account.usingStake, Account.delegating, Account.bonded, Account.unbonding] at *
        omega
      · exact hn
  | deleg i ds =>
    have hi : i < w.accts.length := by simpa [Tx.inRange] using hr
    have ⟨_, hn⟩ := getAcct_ok w i hi ok
    simp only [setDelegation] at h
    split at h; · cases h
    cases h
    rename_i hv
    intro x hx
    rcases List.mem_or_eq_of_mem_set hx with hm | rfl
    · exact ok x hm
    · constructor
      · simp only [Account.usingStake, Account.delegating, Account.bonded, Account.unbonding] at *
        omega
      · exact hn
  | bond i bs al =>
    have hi : i < w.accts.length := by simpa [Tx.inRange] using hr
    have ⟨_, hn⟩ := getAcct_ok w i hi ok
    simp only [setBond] at h
    split at h; · cases h
    split at h; · cases h
    split at h; · cases h
    split at h; · cases h
    split at h; · cases h
    cases h
    rename_i _ _ _ _ hv
    intro x hx
    rcases List.mem_or_eq_of_mem_set hx with hm | rfl
    · exact ok x hm
    · constructor
      · show _ ≤ (getAcct w i).stake
        omega
      · exact foldl_updateUnbond_nonneg _ _ _ _ hn
  | xfer i j v =>
    have hij : i < w.accts.length ∧ j < w.accts.length := by simpa [Tx.inRange] using hr
    simp only [transfer] at h
    split at h; · cases h
    split at h
    · cases h; exact ok
    split at h; · cases h
    cases h
    have ok1 : AllOk (setAcct w i { getAcct w i with balance := (getAcct w i).balance - v }) :=
      allOk_set w i _ ok (getAcct_ok w i hij.1 ok)
    apply allOk_set _ j _ ok1
    have := getAcct_ok _ j (by simpa [setAcct] using hij.2) ok1
    exact this
  | claim i icx okc =>
    have hi : i < w.accts.length := by simpa [Tx.inRange] using hr
    simp only [claim] at h
    split at h; · cases h
    cases h
    exact allOk_set w i _ ok (getAcct_ok w i hi ok)

theorem allOk_applyTx (w w' : World) (tx : Tx) (ok : AllOk w) (h : applyTx w tx = some w') : AllOk w' :=
  applyTx_lift AllOk (fun _ => True) (fun w w' tx _ hw h => allOk_applyTx0 w w' tx hw h)
    (fun _ _ => trivial) (fun _ => trivial) w w' tx trivial ok h

theorem allOk_block (w : World) (txs : List Tx) (issue : Int) (ok : AllOk w) : AllOk (block w txs issue).1 := by
  have ok0 : AllOk { w with height := w.height + 1, rest := w.rest + issue, totalSupply := w.totalSupply + issue } := ok
  unfold block
  simp only []
  have := applyTxs_preserves AllOk (fun _ => True) (fun w w' tx _ hw h => allOk_applyTx w w' tx hw h) txs _
    (fun _ _ => trivial) ok0
  intro x hx
  obtain ⟨y, hy, rfl⟩ := List.mem_map.mp hx
  exact fire_ok _ y (this y hy)

/-! ### unstake slots: where expiry heights come from, no overdue slot, slot lifetime -/

theorem decreaseRev_expire : ∀ (l : List (Int × Int)) (r : Int), ∀ x ∈ decreaseRev l r, ∃ y ∈ l, x.2 = y.2 := by
  intro l
  induction l with
  | nil => intro r x hx; simp [decreaseRev] at hx
  | cons u rest ih =>
    intro r x hx
    simp only [decreaseRev] at hx
    split at hx
    · split at hx
      · exact ⟨x, by simp [hx], rfl⟩
      · obtain ⟨y, hy, e⟩ := ih _ x hx
        exact ⟨y, by simp [hy], e⟩
    · rcases List.mem_cons.mp hx with rfl | hm
      · exact ⟨u, by simp, rfl⟩
      · exact ⟨x, by simp [hm], rfl⟩

theorem insertRev_mem : ∀ (l : List (Int × Int)) (u x : Int × Int),
    x ∈ insertUnstake.decreaseRevInsert l u → x = u ∨ x ∈ l := by
  intro l
  induction l with
  | nil => intro u x hx; simp [insertUnstake.decreaseRevInsert] at hx; exact Or.inl hx
  | cons y rest ih =>
    intro u x hx
    simp only [insertUnstake.decreaseRevInsert] at hx
    split at hx
    · rcases List.mem_cons.mp hx with rfl | hm
      · exact Or.inl rfl
      · exact Or.inr hm
    · rcases List.mem_cons.mp hx with rfl | hm
      · exact Or.inr (by simp)
      · rcases ih u x hm with h | h
        · exact Or.inl h
        · exact Or.inr (by simp [h])

/-- every slot after the `switch stakeInc.Sign()` of SetStake expires at the new expiry height or
    where an old slot expired -/
theorem newUnstakes_expire (us : List (Int × Int)) (inc eh : Int) (sm : Nat) :
    ∀ x ∈ newUnstakes us inc eh sm, x.2 = eh ∨ ∃ y ∈ us, x.2 = y.2 := by
  intro x hx
  unfold newUnstakes at hx
  split at hx
  · simp only [decreaseUnstake, List.mem_reverse] at hx
    obtain ⟨y, hy, e⟩ := decreaseRev_expire _ _ x hx
    exact Or.inr ⟨y, List.mem_reverse.mp hy, e⟩
  · unfold increaseUnstake at hx
    split at hx
    · split at hx
      · exact Or.inr ⟨x, hx, rfl⟩
      · rename_i last rest heq
        have hlast : last ∈ us := by
          have : last ∈ us.reverse := by rw [heq]; simp
          exact List.mem_reverse.mp this
        have hrest : ∀ z ∈ rest, z ∈ us := by
          intro z hz
          have : z ∈ us.reverse := by rw [heq]; simp [hz]
          exact List.mem_reverse.mp this
        rcases List.mem_cons.mp (List.mem_reverse.mp hx) with rfl | hm
        · simp only []
          split
          · exact Or.inl rfl
          · exact Or.inr ⟨last, hlast, rfl⟩
        · exact Or.inr ⟨x, hrest x hm, rfl⟩
    · simp only [insertUnstake, List.mem_reverse] at hx
      rcases insertRev_mem _ _ x hx with rfl | h
      · exact Or.inl rfl
      · exact Or.inr ⟨x, List.mem_reverse.mp h, rfl⟩

theorem getAcct_setAcct (w : World) (i j : Nat) (a : Account) (hi : i < w.accts.length) :
    getAcct (setAcct w i a) j = if i = j then a else getAcct w j := by
  by_cases h : i = j
  · subst h; simp only [getAcct, setAcct, if_true]; exact getD_set_eq _ _ _ hi
  · simp only [getAcct, setAcct, h, if_false]; exact getD_set_ne _ _ _ _ h

def stakesFrom (j : Nat) : Tx → Bool
  | .stake i _ => i == j
  | _ => false

/-- what a successful transaction does to the unstake slots of account `j`, and that it leaves
    height and lock period alone -/
theorem applyTx_unstakes0 (w w' : World) (tx : Tx) (j : Nat) (h : applyTx0 w tx = some w') :
    w'.height = w.height ∧ w'.lock = w.lock ∧
    (stakesFrom j tx = false → (getAcct w' j).unstakes = (getAcct w j).unstakes) ∧
    (∀ x ∈ (getAcct w' j).unstakes, x.2 = w.height + w.lock ∨ ∃ y ∈ (getAcct w j).unstakes, x.2 = y.2) := by
  have keep : ∀ (w' : World), w'.height = w.height → w'.lock = w.lock →
      (getAcct w' j).unstakes = (getAcct w j).unstakes →
      w'.height = w.height ∧ w'.lock = w.lock ∧
      (stakesFrom j tx = false → (getAcct w' j).unstakes = (getAcct w j).unstakes) ∧
      (∀ x ∈ (getAcct w' j).unstakes, x.2 = w.height + w.lock ∨ ∃ y ∈ (getAcct w j).unstakes, x.2 = y.2) := by
    intro w' h1 h2 h3
    exact ⟨h1, h2, fun _ => h3, fun x hx => Or.inr ⟨x, by rw [← h3]; exact hx, rfl⟩⟩
  unfold applyTx0 at h
  split at h; · cases h
  rename_i hr
  cases tx with
  | none => cases h; exact keep w rfl rfl rfl
  | burn i fee =>
    have hi : i < w.accts.length := by simpa [Tx.inRange] using hr
    simp only [burnFee] at h
    split at h; · cases h
    split at h; · cases h
    cases h
    refine keep _ rfl rfl ?_
    show (getAcct (setAcct w i _) j).unstakes = _
    rw [getAcct_setAcct w i j _ hi]
    by_cases hij : i = j
    · subst hij; simp
    · simp [hij]
  | regPRep i k fee => cases h
  | register k =>
    simp only [registerPRep] at h
    split at h; · cases h
    cases h; exact keep _ rfl rfl rfl
  | unregister k =>
    simp only [unregisterPRep] at h
    split at h; · cases h
    split at h; · cases h
    cases h; exact keep _ rfl rfl rfl
  | stake i v =>
    have hi : i < w.accts.length := by simpa [Tx.inRange] using hr
    simp only [setStake] at h
    split at h; · cases h
    split at h
    · cases h; exact keep w rfl rfl rfl
    split at h; · cases h
    split at h; · cases h
    split at h; · cases h
    split at h; · cases h
    cases h
    refine ⟨rfl, rfl, ?_, ?_⟩
    · intro hs
      have hij : i ≠ j := by simpa [stakesFrom] using hs
      show (getAcct (setAcct w i _) j).unstakes = _
      rw [getAcct_setAcct w i j _ hi, if_neg hij]
    · intro x hx
      change x ∈ (getAcct (setAcct w i _) j).unstakes at hx
      rw [getAcct_setAcct w i j _ hi] at hx
      by_cases hij : i = j
      · subst hij
        rw [if_pos rfl] at hx
        exact newUnstakes_expire _ _ _ _ x hx
      · rw [if_neg hij] at hx
        exact Or.inr ⟨x, hx, rfl⟩
  | deleg i ds =>
    have hi : i < w.accts.length := by simpa [Tx.inRange] using hr
    simp only [setDelegation] at h
    split at h; · cases h
    cases h
    refine keep _ rfl rfl ?_
    show (getAcct (setAcct w i _) j).unstakes = _
    rw [getAcct_setAcct w i j _ hi]
    by_cases hij : i = j
    · subst hij; simp
    · simp [hij]
  | bond i bs al =>
    have hi : i < w.accts.length := by simpa [Tx.inRange] using hr
    simp only [setBond] at h
    split at h; · cases h
    split at h; · cases h
    split at h; · cases h
    split at h; · cases h
    split at h; · cases h
    cases h
    refine keep _ rfl rfl ?_
    show (getAcct (setAcct w i _) j).unstakes = _
    rw [getAcct_setAcct w i j _ hi]
    by_cases hij : i = j
    · subst hij; simp
    · simp [hij]
  | xfer i k v =>
    have hik : i < w.accts.length ∧ k < w.accts.length := by simpa [Tx.inRange] using hr
    simp only [transfer] at h
    split at h; · cases h
    split at h
    · cases h; exact keep w rfl rfl rfl
    split at h; · cases h
    cases h
    refine keep _ rfl rfl ?_
    have hk' : k < (setAcct w i { getAcct w i with balance := (getAcct w i).balance - v }).accts.length := by
      simpa [setAcct] using hik.2
    rw [getAcct_setAcct _ k j _ hk']
    by_cases hkj : k = j
    · subst hkj
      simp only [if_true]
      rw [getAcct_setAcct w i k _ hik.1]
      by_cases hi2 : i = k
      · subst hi2; simp
      · simp [hi2]
    · simp only [hkj, if_false]
      rw [getAcct_setAcct w i j _ hik.1]
      by_cases hi2 : i = j
      · subst hi2; simp
      · simp [hi2]
  | claim i icx okc =>
    have hi : i < w.accts.length := by simpa [Tx.inRange] using hr
    simp only [claim] at h
    split at h; · cases h
    cases h
    refine keep _ rfl rfl ?_
    show (getAcct (setAcct w i _) j).unstakes = _
    rw [getAcct_setAcct w i j _ hi]
    by_cases hij : i = j
    · subst hij; simp
    · simp [hij]

theorem applyTx_unstakes (w w' : World) (tx : Tx) (j : Nat) (h : applyTx w tx = some w') :
    w'.height = w.height ∧ w'.lock = w.lock ∧
    (stakesFrom j tx = false → (getAcct w' j).unstakes = (getAcct w j).unstakes) ∧
    (∀ x ∈ (getAcct w' j).unstakes, x.2 = w.height + w.lock ∨ ∃ y ∈ (getAcct w j).unstakes, x.2 = y.2) := by
  rcases applyTx_cases w w' tx h with h1 | ⟨i, k, fee, w1, _, hb1, hr1⟩
  · exact applyTx_unstakes0 w w' tx j h1
  · obtain ⟨a1, a2, a3, _⟩ := applyTx_unstakes0 w w1 _ j hb1
    obtain ⟨b1, b2, b3, _⟩ := applyTx_unstakes0 w1 w' _ j hr1
    have e : (getAcct w' j).unstakes = (getAcct w j).unstakes := by rw [b3 rfl, a3 rfl]
    exact ⟨by rw [b1, a1], by rw [b2, a2], fun _ => e, fun x hx => Or.inr ⟨x, by rw [← e]; exact hx, rfl⟩⟩

/-- inside a block: nothing expires before the current height -/
def MidOk (w : World) : Prop := 0 ≤ w.lock ∧ ∀ j, ∀ u ∈ (getAcct w j).unstakes, w.height ≤ u.2

/-- between blocks: every slot expires strictly later than the current height -/
def NoOverdue (w : World) : Prop := 0 ≤ w.lock ∧ ∀ j, ∀ u ∈ (getAcct w j).unstakes, w.height < u.2

theorem midOk_applyTx (w w' : World) (tx : Tx) (hw : MidOk w) (h : applyTx w tx = some w') : MidOk w' := by
  constructor
  · have := (applyTx_unstakes w w' tx 0 h).2.1
    rw [this]; exact hw.1
  · intro j u hu
    obtain ⟨hh, _, _, hm⟩ := applyTx_unstakes w w' tx j h
    rw [hh]
    rcases hm u hu with e | ⟨y, hy, e⟩
    · have := hw.1; omega
    · have := hw.2 j y hy; omega

/-- every slot's expiry height has the account in its unstaking timer -/
def TimersOkW (w : World) : Prop :=
  ∀ a ∈ w.accts, ∀ u ∈ a.unstakes, a.utimers.contains u.2 = true

theorem fire_unstakes_ok (h : Int) (a : Account) (hok : ∀ u ∈ a.unstakes, a.utimers.contains u.2 = true) :
    (fire h a).unstakes = a.unstakes.filter (fun u => u.2 != h) := by
  unfold fire
  simp only []
  split
  · rfl
  · rename_i hc
    symm
    apply List.filter_eq_self.mpr
    intro u hu
    have := hok u hu
    simp only [bne_iff_ne, ne_eq]
    intro e
    rw [e] at this
    exact hc this

theorem getAcct_fire (w : World) (h : Int) (j : Nat) (hok : TimersOkW w) :
    (getAcct { w with accts := w.accts.map (fire h) } j).unstakes =
      (getAcct w j).unstakes.filter (fun u => u.2 != h) := by
  simp only [getAcct, List.getD, List.getElem?_map]
  cases hj : w.accts[j]? with
  | none => simp
  | some a =>
    simp only [Option.map_some, Option.getD_some]
    exact fire_unstakes_ok h a (hok a (List.mem_of_getElem? hj))

theorem applyTxs_height (txs : List Tx) : ∀ (w : World), (applyTxs w txs).1.height = w.height := by
  induction txs with
  | nil => intro w; rfl
  | cons tx rest ih =>
    intro w
    simp only [applyTxs]
    split
    · rename_i w' heq
      rw [ih w', (applyTx_unstakes w w' tx 0 heq).1]
    · exact ih w

theorem block_height (w : World) (txs : List Tx) (issue : Int) : (block w txs issue).1.height = w.height + 1 := by
  simp only [block]
  rw [applyTxs_height]

theorem noOverdue_block (w : World) (txs : List Tx) (issue : Int) (hw : NoOverdue w)
    (hok : TimersOkW (preFire w txs issue)) : NoOverdue (block w txs issue).1 := by
  have m0 : MidOk { w with height := w.height + 1, rest := w.rest + issue, totalSupply := w.totalSupply + issue } :=
    ⟨hw.1, fun j u hu => by have := hw.2 j u hu; show w.height + 1 ≤ u.2; omega⟩
  have m1 := applyTxs_preserves MidOk (fun _ => True) (fun w w' tx _ hw h => midOk_applyTx w w' tx hw h) txs _
    (fun _ _ => trivial) m0
  unfold block
  simp only []
  constructor
  · exact m1.1
  · intro j u hu
    unfold preFire at hok
    rw [getAcct_fire _ _ _ hok] at hu
    have ⟨hm, hf⟩ := List.mem_filter.mp hu
    have := m1.2 j u hm
    simp only [bne_iff_ne, ne_eq] at hf
    show (applyTxs _ txs).1.height < u.2
    omega

/-- transactions that are not `stake j …` leave the slots of `j` alone -/
theorem applyTxs_unstakes (j : Nat) (txs : List Tx) : ∀ (w : World), (∀ tx ∈ txs, stakesFrom j tx = false) →
    (getAcct (applyTxs w txs).1 j).unstakes = (getAcct w j).unstakes := by
  induction txs with
  | nil => intro w _; rfl
  | cons tx rest ih =>
    intro w hq
    simp only [applyTxs]
    split
    · rename_i w' heq
      rw [ih w' (fun t ht => hq t (by simp [ht])), (applyTx_unstakes w w' tx j heq).2.2.1 (hq tx (by simp))]
    · exact ih w (fun t ht => hq t (by simp [ht]))

/-- one block in which `j` does not call setStake: exactly the slots expiring at the new height leave -/
theorem block_unstakes (w : World) (txs : List Tx) (issue : Int) (j : Nat)
    (hq : ∀ tx ∈ txs, stakesFrom j tx = false) (hok : TimersOkW (preFire w txs issue)) :
    (getAcct (block w txs issue).1 j).unstakes =
      (getAcct w j).unstakes.filter (fun u => u.2 != w.height + 1) := by
  unfold block
  simp only []
  unfold preFire at hok
  rw [getAcct_fire _ _ _ hok, applyTxs_unstakes j txs _ hq, applyTxs_height]
  rfl

/-- the timers are consistent with the slots before the timer phase of every block of the history -/
def GoodTimers : World → List (List Tx × Int) → Prop
  | _, [] => True
  | w, op :: rest => TimersOkW (preFire w op.1 op.2) ∧ GoodTimers (block w op.1 op.2).1 rest

theorem run_height (ops : List (List Tx × Int)) : ∀ (w : World), (run w ops).height = w.height + ops.length := by
  induction ops with
  | nil => intro w; simp [run]
  | cons op rest ih =>
    intro w
    simp only [run, List.length_cons]
    rw [ih, block_height]
    omega

/-- slot lifetime: over any history in which `j` does not call setStake, the slots of `j` that are
    still there are exactly the original ones whose expiry lies in the future -/
theorem slots_lifetime (j : Nat) (ops : List (List Tx × Int)) : ∀ (w : World),
    (∀ u ∈ (getAcct w j).unstakes, w.height < u.2) →
    (∀ op ∈ ops, ∀ tx ∈ op.1, stakesFrom j tx = false) → GoodTimers w ops →
    (getAcct (run w ops) j).unstakes =
      (getAcct w j).unstakes.filter (fun u => decide ((run w ops).height < u.2)) := by
  induction ops with
  | nil =>
    intro w hno _ _
    simp only [run]
    symm
    apply List.filter_eq_self.mpr
    intro u hu
    exact decide_eq_true (hno u hu)
  | cons op rest ih =>
    intro w hno hq hg
    simp only [run]
    have hb := block_unstakes w op.1 op.2 j (hq op (by simp)) hg.1
    have hh := block_height w op.1 op.2
    have hno' : ∀ u ∈ (getAcct (block w op.1 op.2).1 j).unstakes, (block w op.1 op.2).1.height < u.2 := by
      intro u hu
      rw [hb] at hu
      have ⟨hm, hf⟩ := List.mem_filter.mp hu
      have := hno u hm
      have hne : u.2 ≠ w.height + 1 := by simpa using hf
      omega
    rw [ih _ hno' (fun o ho => hq o (by simp [ho])) hg.2, hb, List.filter_filter]
    apply List.filter_congr
    intro u hu
    have hfin := run_height rest (block w op.1 op.2).1
    have := hno u hu
    by_cases hlt : (run (block w op.1 op.2).1 rest).height < u.2
    · have hne : u.2 ≠ w.height + 1 := by omega
      simp [hlt, hne]
    · simp [hlt]

/-! ### network totals of delegation and bond to active P-Reps -/

/-- what the chain SCORE (`NewDelegations` / `NewBonds`) guarantees for a submitted vote list -/
def VotesWF (vs : Votes) : Prop := (vs.map (·.1)).Nodup ∧ ∀ v ∈ vs, 0 ≤ v.2

def TxWF : Tx → Prop
  | .deleg _ ds => VotesWF ds
  | .bond _ bs _ => VotesWF bs
  | _ => True

theorem votesTo_cons (k : Nat) (v : Nat × Int) (vs : Votes) :
    votesTo k (v :: vs) = (if v.1 == k then v.2 else 0) + votesTo k vs := by
  by_cases h : (v.1 == k) = true <;> simp [votesTo, List.filter_cons, h, sumInt_cons]

theorem votesTo_zero (k : Nat) (vs : Votes) (h : ∀ v ∈ vs, v.1 ≠ k) : votesTo k vs = 0 := by
  induction vs with
  | nil => rfl
  | cons v vs ih =>
    rw [votesTo_cons, ih (fun x hx => h x (by simp [hx]))]
    have : (v.1 == k) = false := beq_eq_false_iff_ne.mpr (h v (by simp))
    simp [this]

theorem votesTo_nonneg (k : Nat) (vs : Votes) (h : ∀ v ∈ vs, 0 ≤ v.2) : 0 ≤ votesTo k vs := by
  induction vs with
  | nil => exact Int.le_refl 0
  | cons v vs ih =>
    rw [votesTo_cons]
    have := ih (fun x hx => h x (by simp [hx]))
    have := h v (by simp)
    split <;> omega

theorem lookupLast_eq_votesTo (vs : Votes) (k : Nat) (hnd : (vs.map (·.1)).Nodup) :
    lookupLast vs k = votesTo k vs := by
  induction vs with
  | nil => rfl
  | cons v vs ih =>
    have hnd' : (vs.map (·.1)).Nodup := by
      simp only [List.map_cons, List.nodup_cons] at hnd; exact hnd.2
    have hv : ∀ x ∈ vs, x.1 ≠ v.1 := by
      simp only [List.map_cons, List.nodup_cons, List.mem_map, not_exists, not_and] at hnd
      intro x hx; exact hnd.1 x hx
    have ih' := ih hnd'
    rw [votesTo_cons]
    unfold lookupLast at *
    rw [List.reverse_cons, List.find?_append]
    cases hf : vs.reverse.find? (fun x => x.1 == k) with
    | some x =>
      rw [hf] at ih'
      have hxk : (x.1 == k) = true := @List.find?_some _ (fun x => x.1 == k) x _ hf
      have hxm : x ∈ vs := List.mem_reverse.mp (List.mem_of_find?_eq_some hf)
      have hvk : (v.1 == k) = false := by
        apply beq_eq_false_iff_ne.mpr
        intro e
        exact hv x hxm (by rw [eq_of_beq hxk, e])
      simp only [Option.some_or, hvk]
      simp only [] at ih'
      rw [← ih']; simp
    | none =>
      rw [hf] at ih'
      simp only [] at ih'
      rw [← ih']
      by_cases hvk : (v.1 == k) = true <;> simp [hvk]

theorem activeSum_cons (act : Nat → Bool) (v : Nat × Int) (vs : Votes) :
    activeSum act (v :: vs) = (if act v.1 then v.2 else 0) + activeSum act vs := by
  by_cases h : act v.1 = true <;> simp [activeSum, List.filter_cons, h, sumInt_cons]

theorem activeSum_activate (act : Nat → Bool) (k : Nat) (vs : Votes) (hk : act k = false) :
    activeSum (fun x => if x = k then true else act x) vs = activeSum act vs + votesTo k vs := by
  induction vs with
  | nil => rfl
  | cons v vs ih =>
    rw [activeSum_cons, activeSum_cons, votesTo_cons, ih]
    by_cases e : v.1 = k
    · simp [e, hk]; omega
    · have : (v.1 == k) = false := beq_eq_false_iff_ne.mpr e
      simp [e, this]; omega

theorem activeSum_deactivate (act : Nat → Bool) (k : Nat) (vs : Votes) (hk : act k = true) :
    activeSum (fun x => if x = k then false else act x) vs = activeSum act vs - votesTo k vs := by
  induction vs with
  | nil => rfl
  | cons v vs ih =>
    rw [activeSum_cons, activeSum_cons, votesTo_cons, ih]
    by_cases e : v.1 = k
    · simp [e, hk]; omega
    · have : (v.1 == k) = false := beq_eq_false_iff_ne.mpr e
      simp [e, this]; omega

theorem sumF_add (f g : Account → Int) (l : List Account) :
    sumF (fun a => f a + g a) l = sumF f l + sumF g l := by
  induction l with
  | nil => rfl
  | cons x xs ih => simp only [sumF, List.map_cons, sumInt_cons] at *; rw [ih]; omega

theorem sumF_sub (f g : Account → Int) (l : List Account) :
    sumF (fun a => f a - g a) l = sumF f l - sumF g l := by
  induction l with
  | nil => rfl
  | cons x xs ih => simp only [sumF, List.map_cons, sumInt_cons] at *; rw [ih]; omega

theorem sumF_congr (f g : Account → Int) (l : List Account) (h : ∀ a ∈ l, f a = g a) : sumF f l = sumF g l := by
  induction l with
  | nil => rfl
  | cons x xs ih =>
    simp only [sumF, List.map_cons, sumInt_cons] at *
    rw [ih (fun a ha => h a (by simp [ha])), h x (by simp)]

theorem sumF_nonneg (f : Account → Int) (l : List Account) (h : ∀ a ∈ l, 0 ≤ f a) : 0 ≤ sumF f l := by
  induction l with
  | nil => exact Int.le_refl 0
  | cons x xs ih =>
    simp only [sumF, List.map_cons, sumInt_cons] at *
    have := ih (fun a ha => h a (by simp [ha]))
    have := h x (by simp)
    omega

structure Totals (w : World) : Prop where
  dP : ∀ k, w.pDelegated k = sumF (fun a => votesTo k a.delegs) w.accts
  bP : ∀ k, w.pBonded k = sumF (fun a => votesTo k a.bonds) w.accts
  tD : w.totalDeleg = sumF (fun a => activeSum w.active a.delegs) w.accts
  tB : w.totalBond = sumF (fun a => activeSum w.active a.bonds) w.accts
  wf : ∀ a ∈ w.accts, VotesWF a.delegs ∧ VotesWF a.bonds
  reg : ∀ k, w.active k = true → w.registered k = true
  btgt : ∀ a ∈ w.accts, ∀ b ∈ a.bonds, w.registered b.1 = true

theorem getAcct_mem (w : World) (i : Nat) (hi : i < w.accts.length) : getAcct w i ∈ w.accts := by
  simp only [getAcct, List.getD, List.getElem?_eq_getElem hi, Option.getD_some]
  exact List.getElem_mem hi

/-- replacing account `i` by one with the same vote lists keeps `Totals` -/
theorem totals_same (w w' : World) (i : Nat) (a' : Account) (hi : i < w.accts.length) (T : Totals w)
    (hacc : w'.accts = w.accts.set i a')
    (hd : a'.delegs = (getAcct w i).delegs) (hb : a'.bonds = (getAcct w i).bonds) (h1 : w'.pDelegated = w.pDelegated) (h2 : w'.pBonded = w.pBonded)
    (h3 : w'.totalDeleg = w.totalDeleg) (h4 : w'.totalBond = w.totalBond) (h5 : w'.active = w.active)
    (h6 : w'.registered = w.registered) : Totals w' := by
  have hm := getAcct_mem w i hi
  have same : ∀ (f : Account → Int), f a' = f (getAcct w i) → sumF f w'.accts = sumF f w.accts := by
    intro f hf
    rw [hacc, sumF_set f _ _ _ hi]
    simp only [getAcct] at hf
    omega
  constructor
  · intro k; rw [h1, T.dP k, same]; simp only [hd]
  · intro k; rw [h2, T.bP k, same]; simp only [hb]
  · rw [h3, h5, T.tD, same]; simp only [hd]
  · rw [h4, h5, T.tB, same]; simp only [hb]
  · intro a ha
    rw [hacc] at ha
    rcases List.mem_or_eq_of_mem_set ha with hm' | rfl
    · exact T.wf a hm'
    · rw [hd, hb]; exact T.wf _ hm
  · intro k hk; rw [h5] at hk; rw [h6]; exact T.reg k hk
  · intro a ha b hb'
    rw [hacc] at ha
    rw [h6]
    rcases List.mem_or_eq_of_mem_set ha with hm' | rfl
    · exact T.btgt a hm' b hb'
    · rw [hb] at hb'; exact T.btgt _ hm b hb'

theorem totals_applyTx0 (w w' : World) (tx : Tx) (hq : TxWF tx) (T : Totals w) (h : applyTx0 w tx = some w') :
    Totals w' := by
  unfold applyTx0 at h
  split at h; · cases h
  rename_i hr
  cases tx with
  | none => cases h; exact T
  | burn i fee =>
    have hi : i < w.accts.length := by simpa [Tx.inRange] using hr
    simp only [burnFee] at h
    split at h; · cases h
    split at h; · cases h
    cases h
    exact totals_same w _ i _ hi T rfl rfl rfl rfl rfl rfl rfl rfl rfl
  | regPRep i k fee => cases h
  | register k =>
    simp only [registerPRep] at h
    split at h; · cases h
    rename_i hreg
    have hreg' : w.registered k = false := by simpa using hreg
    have hact : w.active k = false := by
      cases hk : w.active k with
      | false => rfl
      | true => have := T.reg k hk; rw [hreg'] at this; cases this
    cases h
    have hnn : 0 ≤ w.pDelegated k := by
      rw [T.dP k]
      exact sumF_nonneg _ _ (fun a ha => votesTo_nonneg k _ (T.wf a ha).1.2)
    have hb0 : sumF (fun a => votesTo k a.bonds) w.accts = 0 := by
      rw [sumF_congr _ (fun _ => 0) _ (fun a ha => votesTo_zero k _ (fun b hb e => by
        have := T.btgt a ha b hb; rw [e, hreg'] at this; cases this))]
      exact (by induction w.accts with
        | nil => rfl
        | cons x xs ih => simp only [sumF, List.map_cons, sumInt_cons] at *; omega)
    constructor
    · exact T.dP
    · exact T.bP
    · show (if w.pDelegated k > 0 then w.totalDeleg + w.pDelegated k else w.totalDeleg) = _
      rw [sumF_congr _ (fun a => activeSum w.active a.delegs + votesTo k a.delegs) _
        (fun a _ => activeSum_activate w.active k a.delegs hact), sumF_add, ← T.tD, ← T.dP k]
      split <;> omega
    · show w.totalBond = _
      rw [sumF_congr _ (fun a => activeSum w.active a.bonds + votesTo k a.bonds) _
        (fun a _ => activeSum_activate w.active k a.bonds hact), sumF_add, ← T.tB, hb0]
      omega
    · exact T.wf
    · intro x hx
      show (if x = k then true else w.registered x) = true
      by_cases e : x = k
      · simp [e]
      · have : w.active x = true := by simpa [e] using hx
        simp [e, T.reg x this]
    · intro a ha b hb
      show (if b.1 = k then true else w.registered b.1) = true
      by_cases e : b.1 = k
      · simp [e]
      · simp [e, T.btgt a ha b hb]
  | unregister k =>
    simp only [unregisterPRep] at h
    split at h; · cases h
    rename_i hact
    have hact' : w.active k = true := by simpa using hact
    split at h; · cases h
    rename_i hbond
    cases h
    have hb0 : w.pBonded k = 0 := by
      have : 0 ≤ w.pBonded k := by
        rw [T.bP k]
        exact sumF_nonneg _ _ (fun a ha => votesTo_nonneg k _ (T.wf a ha).2.2)
      omega
    constructor
    · exact T.dP
    · exact T.bP
    · show w.totalDeleg - w.pDelegated k = _
      rw [sumF_congr _ (fun a => activeSum w.active a.delegs - votesTo k a.delegs) _
        (fun a _ => activeSum_deactivate w.active k a.delegs hact'), sumF_sub, ← T.tD, ← T.dP k]
    · show w.totalBond = _
      rw [sumF_congr _ (fun a => activeSum w.active a.bonds - votesTo k a.bonds) _
        (fun a _ => activeSum_deactivate w.active k a.bonds hact'), sumF_sub, ← T.tB, ← T.bP k, hb0]
      omega
    · exact T.wf
    · intro x hx
      have : x ≠ k ∧ w.active x = true := by
        by_cases e : x = k
        · simp [e] at hx
        · simpa [e] using hx
      exact T.reg x this.2
    · exact T.btgt
  | stake i v =>
    have hi : i < w.accts.length := by simpa [Tx.inRange] using hr
    simp only [setStake] at h
    split at h; · cases h
    split at h
    · cases h; exact T
    split at h; · cases h
    split at h; · cases h
    split at h; · cases h
    split at h; · cases h
    cases h
    exact totals_same w _ i _ hi T rfl rfl rfl rfl rfl rfl rfl rfl rfl
  | claim i icx okc =>
    have hi : i < w.accts.length := by simpa [Tx.inRange] using hr
    simp only [claim] at h
    split at h; · cases h
    cases h
    exact totals_same w _ i _ hi T rfl rfl rfl rfl rfl rfl rfl rfl rfl
  | xfer i j v =>
    have hij : i < w.accts.length ∧ j < w.accts.length := by simpa [Tx.inRange] using hr
    simp only [transfer] at h
    split at h; · cases h
    split at h
    · cases h; exact T
    split at h; · cases h
    cases h
    have T1 : Totals (setAcct w i { getAcct w i with balance := (getAcct w i).balance - v }) :=
      totals_same w _ i _ hij.1 T rfl rfl rfl rfl rfl rfl rfl rfl rfl
    exact totals_same _ _ j _ (by simpa [setAcct] using hij.2) T1 rfl rfl rfl rfl rfl rfl rfl rfl rfl
  | deleg i ds =>
    have hi : i < w.accts.length := by simpa [Tx.inRange] using hr
    have hm := getAcct_mem w i hi
    simp only [setDelegation] at h
    split at h; · cases h
    cases h
    have hold := (T.wf _ hm).1
    constructor
    · intro k
      show w.pDelegated k + deltaVote (getAcct w i).delegs ds k = sumF (fun a => votesTo k a.delegs) (w.accts.set i _)
      rw [sumF_set _ _ _ _ hi, T.dP k, deltaVote, lookupLast_eq_votesTo _ k hold.1]
      simp only [getAcct]; omega
    · intro k
      show w.pBonded k = sumF (fun a => votesTo k a.bonds) (w.accts.set i _)
      rw [sumF_set _ _ _ _ hi, T.bP k]; simp only [getAcct]; omega
    · show w.totalDeleg + activeSum w.active ds - activeSum w.active (getAcct w i).delegs = sumF (fun a => activeSum w.active a.delegs) (w.accts.set i _)
      rw [sumF_set _ _ _ _ hi, T.tD]; simp only [getAcct]; omega
    · show w.totalBond = sumF (fun a => activeSum w.active a.bonds) (w.accts.set i _)
      rw [sumF_set _ _ _ _ hi, T.tB]; simp only [getAcct]; omega
    · intro a ha
      rcases List.mem_or_eq_of_mem_set ha with hm' | rfl
      · exact T.wf a hm'
      · exact ⟨hq, (T.wf _ hm).2⟩
    · exact T.reg
    · intro a ha b hb
      rcases List.mem_or_eq_of_mem_set ha with hm' | rfl
      · exact T.btgt a hm' b hb
      · exact T.btgt _ hm b hb
  | bond i bs al =>
    have hi : i < w.accts.length := by simpa [Tx.inRange] using hr
    have hm := getAcct_mem w i hi
    simp only [setBond] at h
    split at h; · cases h
    split at h; · cases h
    rename_i hregd
    split at h; · cases h
    split at h; · cases h
    split at h; · cases h
    cases h
    have hold := (T.wf _ hm).2
    constructor
    · intro k
      show w.pDelegated k = sumF (fun a => votesTo k a.delegs) (w.accts.set i _)
      rw [sumF_set _ _ _ _ hi, T.dP k]; simp only [getAcct]; omega
    · intro k
      show w.pBonded k + deltaVote (getAcct w i).bonds bs k = sumF (fun a => votesTo k a.bonds) (w.accts.set i _)
      rw [sumF_set _ _ _ _ hi, T.bP k, deltaVote, lookupLast_eq_votesTo _ k hold.1]
      simp only [getAcct]; omega
    · show w.totalDeleg = sumF (fun a => activeSum w.active a.delegs) (w.accts.set i _)
      rw [sumF_set _ _ _ _ hi, T.tD]; simp only [getAcct]; omega
    · show w.totalBond + activeSum w.active bs - activeSum w.active (getAcct w i).bonds = sumF (fun a => activeSum w.active a.bonds) (w.accts.set i _)
      rw [sumF_set _ _ _ _ hi, T.tB]; simp only [getAcct]; omega
    · intro a ha
      rcases List.mem_or_eq_of_mem_set ha with hm' | rfl
      · exact T.wf a hm'
      · exact ⟨(T.wf _ hm).1, hq⟩
    · exact T.reg
    · intro a ha b hb
      rcases List.mem_or_eq_of_mem_set ha with hm' | rfl
      · exact T.btgt a hm' b hb
      · have hall : bs.all (fun b => w.registered b.1) = true := by simpa using hregd
        exact List.all_eq_true.mp hall b hb

theorem totals_applyTx (w w' : World) (tx : Tx) (hq : TxWF tx) (T : Totals w) (h : applyTx w tx = some w') :
    Totals w' :=
  applyTx_lift Totals TxWF (fun w w' tx q hw h => totals_applyTx0 w w' tx q hw h)
    (fun _ _ => trivial) (fun _ => trivial) w w' tx hq T h

theorem totals_fire (w : World) (h : Int) (T : Totals w) : Totals { w with accts := w.accts.map (fire h) } := by
  constructor
  · intro k; show w.pDelegated k = _
    rw [sumF_map _ (fire h) (fun a => by simp only [fire_delegs])]; exact T.dP k
  · intro k; show w.pBonded k = _
    rw [sumF_map _ (fire h) (fun a => by simp only [fire_bonds])]; exact T.bP k
  · show w.totalDeleg = _
    rw [sumF_map _ (fire h) (fun a => by simp only [fire_delegs])]; exact T.tD
  · show w.totalBond = _
    rw [sumF_map _ (fire h) (fun a => by simp only [fire_bonds])]; exact T.tB
  · intro a ha
    obtain ⟨y, hy, rfl⟩ := List.mem_map.mp ha
    rw [fire_delegs, fire_bonds]
    exact T.wf y hy
  · exact T.reg
  · intro a ha b hb
    obtain ⟨y, hy, rfl⟩ := List.mem_map.mp ha
    rw [fire_bonds] at hb
    exact T.btgt y hy b hb

theorem totals_block (w : World) (txs : List Tx) (issue : Int) (hq : ∀ tx ∈ txs, TxWF tx) (T : Totals w) :
    Totals (block w txs issue).1 := by
  have T0 : Totals { w with height := w.height + 1, rest := w.rest + issue, totalSupply := w.totalSupply + issue } :=
    ⟨T.dP, T.bP, T.tD, T.tB, T.wf, T.reg, T.btgt⟩
  unfold block
  simp only []
  exact totals_fire _ _ (applyTxs_preserves Totals TxWF (fun w w' tx q hw h => totals_applyTx w w' tx q hw h) txs _ hq T0)

end Goloop.C34.Proofs
