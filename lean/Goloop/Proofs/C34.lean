import Goloop.Model.C34
namespace Goloop.C34.Proofs
open Goloop.C34

theorem sumInt_cons (a : Int) (l : List Int) : sumInt (a :: l) = a + sumInt l := rfl

theorem sumInt_filter_split {α} (l : List α) (c : α → Bool) (f : α → Int) :
    sumInt (l.map f) = sumInt ((l.filter c).map f) + sumInt ((l.filter (fun x => !c x)).map f) := by
  induction l with
  | nil => rfl
  | cons a l ih =>
    by_cases h : c a <;> simp [h, sumInt_cons, ih] <;> omega

/-- the timers move expiring unstakes into the balance: holdings are unchanged -/
theorem fire_holdings (h : Int) (a : Account) : (fire h a).holdings = a.holdings := by
  simp only [fire, Account.holdings, Account.unstaking]
  have := sumInt_filter_split a.unstakes (fun u => u.2 == h) (·.1)
  have e : (a.unstakes.filter (fun u => !(u.2 == h))) = a.unstakes.filter (fun u => u.2 != h) := by
    apply List.filter_congr; intro x _; rfl
  rw [e] at this
  omega

def sumF (f : Account → Int) (l : List Account) : Int := sumInt (l.map f)

theorem sumF_set (f : Account → Int) : ∀ (l : List Account) (i : Nat) (a : Account), i < l.length →
    sumF f (l.set i a) = sumF f l - f (l.getD i {}) + f a := by
  intro l
  induction l with
  | nil => intro i a h; simp at h
  | cons x xs ih =>
    intro i a h
    cases i with
    | zero => simp [sumF, sumInt_cons]; omega
    | succ n =>
      have hn : n < xs.length := by simpa using h
      have := ih n a hn
      simp only [sumF] at this
      simp only [List.set_cons_succ, sumF, List.map_cons, sumInt_cons, List.getD_cons_succ]
      rw [this]; omega

theorem sumF_map (f : Account → Int) (g : Account → Account) (h : ∀ a, f (g a) = f a) (l : List Account) :
    sumF f (l.map g) = sumF f l := by
  induction l with
  | nil => rfl
  | cons x xs ih => simp only [sumF, List.map_cons, sumInt_cons] at *; rw [ih, h]

theorem getD_set_ne (l : List Account) (i j : Nat) (a : Account) (h : i ≠ j) :
    (l.set i a).getD j {} = l.getD j {} := by
  simp [List.getD, List.getElem?_set, h]

theorem getD_set_eq (l : List Account) (i : Nat) (a : Account) (h : i < l.length) :
    (l.set i a).getD i {} = a := by
  simp [List.getD, List.getElem?_set, h]

theorem sumF_set2 (f : Account → Int) (l : List Account) (i j : Nat) (a b : Account)
    (hi : i < l.length) (hj : j < l.length) (hij : i ≠ j) :
    sumF f ((l.set i a).set j b) = sumF f l - f (l.getD i {}) + f a - f (l.getD j {}) + f b := by
  rw [sumF_set f (l.set i a) j b (by simpa using hj), sumF_set f l i a hi, getD_set_ne l i j a hij]

/-- the two accounting equations of the world -/
structure Inv (w : World) : Prop where
  supply : w.totalSupply = w.rest + sumF Account.holdings w.accts
  stake : w.totalStake = sumF Account.stake w.accts

theorem inv_setStake (w w' : World) (i : Nat) (v : Int) (hi : i < w.accts.length) (inv : Inv w)
    (h : setStake w i v = some w') : Inv w' ∧ w'.accts.length = w.accts.length := by
  unfold setStake at h
  simp only [] at h
  split at h; · cases h
  split at h
  · cases h; exact ⟨inv, rfl⟩
  split at h; · cases h
  split at h; · cases h
  split at h; · cases h
  split at h; · cases h
  cases h
  refine ⟨⟨?_, ?_⟩, by simp [setAcct]⟩
  · simp only [setAcct, sumF_set _ _ _ _ hi, getAcct] at *
    rw [inv.supply]
    simp only [Account.holdings, Account.totalStake, Account.unstaking]
    omega
  · simp only [setAcct, sumF_set _ _ _ _ hi, getAcct] at *
    rw [inv.stake]
    omega

theorem inv_setDelegation (w w' : World) (i : Nat) (ds : Votes) (hi : i < w.accts.length) (inv : Inv w)
    (h : setDelegation w i ds = some w') : Inv w' ∧ w'.accts.length = w.accts.length := by
  unfold setDelegation at h
  simp only [] at h
  split at h; · cases h
  cases h
  refine ⟨⟨?_, ?_⟩, by simp [setAcct]⟩
  · simp only [setAcct, sumF_set _ _ _ _ hi, getAcct]
    rw [inv.supply]; simp only [Account.holdings, Account.unstaking]; omega
  · simp only [setAcct, sumF_set _ _ _ _ hi, getAcct]
    rw [inv.stake]; omega

theorem inv_setBond (w w' : World) (i : Nat) (bs : Votes) (al : Bool) (hi : i < w.accts.length) (inv : Inv w)
    (h : setBond w i bs al = some w') : Inv w' ∧ w'.accts.length = w.accts.length := by
  unfold setBond at h
  simp only [] at h
  split at h; · cases h
  split at h; · cases h
  split at h; · cases h
  split at h; · cases h
  cases h
  refine ⟨⟨?_, ?_⟩, by simp [setAcct]⟩
  · simp only [setAcct, sumF_set _ _ _ _ hi, getAcct]
    rw [inv.supply]; simp only [Account.holdings, Account.unstaking]; omega
  · simp only [setAcct, sumF_set _ _ _ _ hi, getAcct]
    rw [inv.stake]; omega

theorem inv_transfer (w w' : World) (i j : Nat) (v : Int) (hi : i < w.accts.length) (hj : j < w.accts.length)
    (inv : Inv w) (h : transfer w i j v = some w') : Inv w' ∧ w'.accts.length = w.accts.length := by
  unfold transfer at h
  split at h; · cases h
  split at h
  · cases h; exact ⟨inv, rfl⟩
  rename_i hne
  simp only [] at h
  split at h; · cases h
  cases h
  have hij : i ≠ j := fun e => hne (Or.inr e)
  refine ⟨⟨?_, ?_⟩, by simp [setAcct]⟩
  · simp only [setAcct, getAcct]
    rw [sumF_set2 _ _ i j _ _ hi hj hij, getD_set_ne _ _ _ _ hij, inv.supply]
    simp only [Account.holdings, Account.unstaking]; omega
  · simp only [setAcct, getAcct]
    rw [sumF_set2 _ _ i j _ _ hi hj hij, getD_set_ne _ _ _ _ hij, inv.stake]
    simp only []; omega

theorem inv_claim (w w' : World) (i : Nat) (icx : Int) (ok : Bool) (hi : i < w.accts.length) (inv : Inv w)
    (h : claim w i icx ok = some w') : Inv w' ∧ w'.accts.length = w.accts.length := by
  unfold claim at h
  split at h; · cases h
  cases h
  refine ⟨⟨?_, ?_⟩, by simp [setAcct]⟩
  · simp only [setAcct, sumF_set _ _ _ _ hi, getAcct]
    rw [inv.supply]; simp only [Account.holdings, Account.unstaking]; omega
  · simp only [setAcct, sumF_set _ _ _ _ hi, getAcct]
    rw [inv.stake]; omega

theorem inv_applyTx (w w' : World) (tx : Tx) (inv : Inv w) (h : applyTx w tx = some w') :
    Inv w' ∧ w'.accts.length = w.accts.length := by
  unfold applyTx at h
  split at h; · cases h
  rename_i hr
  cases tx with
  | none => cases h; exact ⟨inv, rfl⟩
  | stake i v => exact inv_setStake w w' i v (by simpa [Tx.inRange] using hr) inv h
  | deleg i ds => exact inv_setDelegation w w' i ds (by simpa [Tx.inRange] using hr) inv h
  | bond i bs al => exact inv_setBond w w' i bs al (by simpa [Tx.inRange] using hr) inv h
  | xfer i j v =>
    have : i < w.accts.length ∧ j < w.accts.length := by simpa [Tx.inRange] using hr
    exact inv_transfer w w' i j v this.1 this.2 inv h
  | claim i icx ok => exact inv_claim w w' i icx ok (by simpa [Tx.inRange] using hr) inv h

theorem inv_fire (w : World) (inv : Inv w) : Inv { w with accts := w.accts.map (fire w.height) } := by
  constructor
  · simp only [sumF_map Account.holdings (fire w.height) (fire_holdings w.height)]
    exact inv.supply
  · simp only [sumF_map Account.stake (fire w.height) (fun _ => rfl)]
    exact inv.stake

theorem inv_block (w : World) (tx : Tx) (issue : Int) (inv : Inv w) : Inv (block w tx issue).1 := by
  have inv0 : Inv { w with height := w.height + 1, rest := w.rest + issue, totalSupply := w.totalSupply + issue } := by
    constructor
    · simp only []; rw [inv.supply]; omega
    · exact inv.stake
  unfold block
  simp only []
  split
  · rename_i w' heq
    exact inv_fire w' (inv_applyTx _ w' tx inv0 heq).1
  · exact inv_fire _ inv0

/-! ### delegated + bonded + unbonding ≤ stake -/

def UnbondsNonneg (a : Account) : Prop := ∀ u ∈ a.unbonds, 0 ≤ u.2.1

/-- per-account invariant -/
def AcctOk (a : Account) : Prop := a.usingStake ≤ a.stake ∧ UnbondsNonneg a

theorem updateUnbond_nonneg (ubs : List (Nat × Int × Int)) (k : Nat) (delta expire : Int)
    (h : ∀ u ∈ ubs, 0 ≤ u.2.1) : ∀ u ∈ updateUnbond ubs k delta expire, 0 ≤ u.2.1 := by
  unfold updateUnbond
  split
  · exact h
  · split
    · rename_i hneg
      split
      · intro u hu
        obtain ⟨x, hx, rfl⟩ := List.mem_map.mp hu
        have := h x hx
        split
        · simp only []; omega
        · exact this
      · intro u hu
        rcases List.mem_append.mp hu with hu | hu
        · exact h u hu
        · simp at hu; subst hu; simp only []; omega
    · intro u hu
      have ⟨hm, hf⟩ := List.mem_filter.mp hu
      obtain ⟨x, hx, rfl⟩ := List.mem_map.mp hm
      have := h x hx
      by_cases hk : (x.1 == k) = true
      · simp only [hk, if_true] at hf ⊢
        simp at hf
        omega
      · simp only [hk]
        exact this

theorem foldl_updateUnbond_nonneg (keys : List Nat) (d : Nat → Int) (expire : Int) :
    ∀ (ubs : List (Nat × Int × Int)), (∀ u ∈ ubs, 0 ≤ u.2.1) →
    ∀ u ∈ keys.foldl (fun ubs k => updateUnbond ubs k (d k) expire) ubs, 0 ≤ u.2.1 := by
  induction keys with
  | nil => intro ubs h; exact h
  | cons k ks ih =>
    intro ubs h
    simp only [List.foldl_cons]
    exact ih _ (updateUnbond_nonneg ubs k (d k) expire h)

theorem sumInt_filter_le {α} (l : List α) (c : α → Bool) (f : α → Int) (h : ∀ x ∈ l, 0 ≤ f x) :
    sumInt ((l.filter c).map f) ≤ sumInt (l.map f) := by
  induction l with
  | nil => exact Int.le_refl _
  | cons a l ih =>
    have ha := h a (by simp)
    have := ih (fun x hx => h x (by simp [hx]))
    by_cases hc : c a <;> simp [hc, sumInt_cons] <;> omega

theorem fire_ok (h : Int) (a : Account) (ok : AcctOk a) : AcctOk (fire h a) := by
  obtain ⟨hu, hn⟩ := ok
  constructor
  · have := sumInt_filter_le a.unbonds (fun u => u.2.2 != h) (·.2.1) hn
    simp only [fire, Account.usingStake, Account.unbonding, Account.delegating, Account.bonded] at *
    omega
  · intro u hu'
    exact hn u (List.mem_filter.mp hu').1

def AllOk (w : World) : Prop := ∀ a ∈ w.accts, AcctOk a

theorem allOk_set (w : World) (i : Nat) (a : Account) (h : AllOk w) (ha : AcctOk a) : AllOk (setAcct w i a) := by
  intro x hx
  rcases List.mem_or_eq_of_mem_set hx with hm | rfl
  · exact h x hm
  · exact ha

theorem getAcct_ok (w : World) (i : Nat) (hi : i < w.accts.length) (h : AllOk w) : AcctOk (getAcct w i) := by
  apply h
  simp only [getAcct, List.getD, List.getElem?_eq_getElem hi, Option.getD_some]
  exact List.getElem_mem hi

theorem allOk_applyTx (w w' : World) (tx : Tx) (ok : AllOk w) (h : applyTx w tx = some w') : AllOk w' := by
  unfold applyTx at h
  split at h; · cases h
  rename_i hr
  cases tx with
  | none => cases h; exact ok
  | stake i v =>
    have hi : i < w.accts.length := by simpa [Tx.inRange] using hr
    have ⟨_, hn⟩ := getAcct_ok w i hi ok
    simp only [setStake] at h
    split at h; · cases h
    split at h
    · cases h; exact ok
    split at h; · cases h
    split at h; · cases h
    split at h; · cases h
    split at h; · cases h
    cases h
    rename_i hv _ _ _ _ _
    intro x hx
    rcases List.mem_or_eq_of_mem_set hx with hm | rfl
    · exact ok x hm
    · constructor
      · simp only [Account.usingStake, Account.delegating, Account.bonded, Account.unbonding] at *
        omega
      · exact hn
  | deleg i ds =>
    have hi : i < w.accts.length := by simpa [Tx.inRange] using hr
    have ⟨_, hn⟩ := getAcct_ok w i hi ok
    simp only [setDelegation] at h
    split at h; · cases h
    cases h
    rename_i hv
    intro x hx
    rcases List.mem_or_eq_of_mem_set hx with hm | rfl
    · exact ok x hm
    · constructor
      · simp only [Account.usingStake, Account.delegating, Account.bonded, Account.unbonding] at *
        omega
      · exact hn
  | bond i bs al =>
    have hi : i < w.accts.length := by simpa [Tx.inRange] using hr
    have ⟨_, hn⟩ := getAcct_ok w i hi ok
    simp only [setBond] at h
    split at h; · cases h
    split at h; · cases h
    split at h; · cases h
    split at h; · cases h
    cases h
    rename_i _ _ _ hv
    intro x hx
    rcases List.mem_or_eq_of_mem_set hx with hm | rfl
    · exact ok x hm
    · constructor
      · show _ ≤ (getAcct w i).stake
        omega
      · exact foldl_updateUnbond_nonneg _ _ _ _ hn
  | xfer i j v =>
    have hij : i < w.accts.length ∧ j < w.accts.length := by simpa [Tx.inRange] using hr
    simp only [transfer] at h
    split at h; · cases h
    split at h
    · cases h; exact ok
    split at h; · cases h
    cases h
    have ok1 : AllOk (setAcct w i { getAcct w i with balance := (getAcct w i).balance - v }) :=
      allOk_set w i _ ok (getAcct_ok w i hij.1 ok)
    apply allOk_set _ j _ ok1
    have := getAcct_ok _ j (by simpa [setAcct] using hij.2) ok1
    exact this
  | claim i icx okc =>
    have hi : i < w.accts.length := by simpa [Tx.inRange] using hr
    simp only [claim] at h
    split at h; · cases h
    cases h
    exact allOk_set w i _ ok (getAcct_ok w i hi ok)

theorem allOk_block (w : World) (tx : Tx) (issue : Int) (ok : AllOk w) : AllOk (block w tx issue).1 := by
  have ok0 : AllOk { w with height := w.height + 1, rest := w.rest + issue, totalSupply := w.totalSupply + issue } := ok
  unfold block
  simp only []
  split
  · rename_i w' heq
    have := allOk_applyTx _ w' tx ok0 heq
    intro x hx
    obtain ⟨y, hy, rfl⟩ := List.mem_map.mp hx
    exact fire_ok _ y (this y hy)
  · intro x hx
    obtain ⟨y, hy, rfl⟩ := List.mem_map.mp hx
    exact fire_ok _ y (ok0 y hy)

end Goloop.C34.Proofs
