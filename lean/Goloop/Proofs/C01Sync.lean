/-
  Proofs/C01Sync — the block-sync entry point (`syncBlock`: ReceiveBlockResult → processBlock) keeps
  every invariant of the validator machine.  `EventS` = `Event` + `sync`; `runS` = histories that may
  contain sync steps.  Sync signs nothing (G0/G1 trivially); the content is: the commit votes are put
  into the vote set as known votes, and a block is committed / finalized through sync only with a
  +2/3 precommit quorum of one round FOR THAT BLOCK (this is what the seeded change C01-5 breaks).
-/
import Goloop.Proofs.C01Restart
namespace Goloop.C01

def syncVotes (h r : Nat) (b : Blk) (signers : List Nat) : List VoteRec :=
  signers.map (fun sg => ⟨sg, h, .precommit, r, some b⟩)

section
variable {L : List VoteRec} {base : List Eff}

theorem a3_syncAddVotes (s : S) (vs : List VoteRec) (ha : A3 L base s) (hk : ∀ v, v ∈ vs → v ∈ L)
    (hh : ∀ v, v ∈ vs → v.height = s.height) : A3 L base (syncAddVotes s vs).1 := by
  induction vs generalizing s with
  | nil => exact ha
  | cons v t ih =>
    unfold syncAddVotes
    split
    · exact ha
    · rename_i hlt
      apply ih
      · exact a3_hvsAdd s v ha (by omega) (hh v List.mem_cons_self) (Or.inl (hk v List.mem_cons_self))
      · exact fun x hx => hk x (List.mem_cons_of_mem _ hx)
      · intro x hx
        rw [(hvsAdd_keep s v).1.1]
        exact hh x (List.mem_cons_of_mem _ hx)

/-- **sync keeps the three running invariants**, given that the commit votes are known (signed) votes -/
theorem a3_syncBlock (s : S) (h r : Nat) (b : Blk) (signers : List Nat) (ha : A3 L base s)
    (hk : ∀ v, v ∈ syncVotes h r b signers → v ∈ L) : A3 L base (syncBlock s h r b signers) := by
  unfold syncBlock
  split
  · exact ha
  rename_i h1
  split
  · exact ha
  rename_i h2
  simp only [Bool.or_eq_true, decide_eq_true_eq, not_or] at h2
  have hh : h = s.height := by omega
  have a1 : A3 L base (syncAddVotes s (syncVotes h r b signers)).1 :=
    a3_syncAddVotes s _ ha hk (by
      intro v hv
      unfold syncVotes at hv
      rw [List.mem_map] at hv
      obtain ⟨sg, _, rfl⟩ := hv
      exact hh)
  unfold syncVotes at a1
  generalize syncAddVotes s (signers.map (fun sg => ⟨sg, h, .precommit, r, some b⟩)) = pr at a1 ⊢
  obtain ⟨s', ok⟩ := pr
  simp only [] at a1 ⊢
  split
  · exact a1
  split
  · rename_i b' hd
    split
    · exact a1
    rename_i hb
    have hb' : b' = b := by simpa using hb
    subst hb'
    have hq := quorum_of_decision s' a1.h2 r .precommit (some b') hd
    have a2 : A3 L base { s' with cur := .full b' (s'.cur.id == some b' && s'.cur.hasValidated) } := by
      refine ⟨core_of_ctrl_eq (s := s') rfl a1.core, h2_of_gproj_eq (s := s') rfl a1.h2, ?_⟩
      exact h3_frame (s := s') a1.h3 (Nat.le_refl _) rfl rfl id
        (impInv_of_iproj (s := s') rfl (fun h => ⟨h, id⟩) a1.h3.imp)
        (fun _ _ => ⟨r, b', rfl, hq⟩)
    split
    · exact ⟨(ih_all _).enterCommit _ _ _ a2.core, (ih2_all L _).enterCommit _ _ _ a2.h2,
        (ih3_all L base _).enterCommit _ _ _ a2 hd⟩
    · exact ⟨(ih_all _).commitAndEnterNewHeight _ a2.core, (ih2_all L _).commitAndEnterNewHeight _ a2.h2,
        (ih3_all L base _).commitAndEnterNewHeight _ a2 (fun _ => ⟨r, b', rfl, hq⟩)⟩
  · exact a1

end

/-! ### C02's invariants (Core, Aux) through sync -/

theorem core_syncAddVotes (s : S) (vs : List VoteRec) (hc : Core s) : Core (syncAddVotes s vs).1 := by
  induction vs generalizing s with
  | nil => exact hc
  | cons v t ih =>
    unfold syncAddVotes
    split
    · exact hc
    · exact ih _ (core_of_ctrl_eq (ctrl_hvsAdd s v) hc)

theorem aux_syncAddVotes {me n : Nat} (s : S) (vs : List VoteRec) (ha : Aux me n s) :
    Aux me n (syncAddVotes s vs).1 := by
  induction vs generalizing s with
  | nil => exact ha
  | cons v t ih =>
    unfold syncAddVotes
    split
    · exact ha
    · exact ih _ (aux_of_aproj_eq (aproj_hvsAdd s v) ha)

theorem core_aux_syncBlock {me n : Nat} (s : S) (h r : Nat) (b : Blk) (signers : List Nat) (hc : Core s)
    (ha : Aux me n s) : Core (syncBlock s h r b signers) ∧ Aux me n (syncBlock s h r b signers) := by
  unfold syncBlock
  split
  · exact ⟨hc, ha⟩
  split
  · exact ⟨hc, ha⟩
  have c1 := core_syncAddVotes s (signers.map (fun sg => ⟨sg, h, .precommit, r, some b⟩)) hc
  have a1 := aux_syncAddVotes s (signers.map (fun sg => ⟨sg, h, .precommit, r, some b⟩)) ha
  generalize syncAddVotes s (signers.map (fun sg => ⟨sg, h, .precommit, r, some b⟩)) = pr at c1 a1 ⊢
  obtain ⟨s', ok⟩ := pr
  simp only [] at c1 a1 ⊢
  split
  · exact ⟨c1, a1⟩
  split
  · split
    · exact ⟨c1, a1⟩
    have c2 : ∀ k, Core { s' with cur := .full b k } := fun k => core_of_ctrl_eq (s := s') rfl c1
    have a2 : ∀ k, Aux me n { s' with cur := .full b k } := fun k => aux_of_aproj_eq (s := s') rfl a1
    split
    · exact ⟨(ih_all _).enterCommit _ _ _ (c2 _), (iha_all me n _).enterCommit _ _ _ (a2 _)⟩
    · exact ⟨(ih_all _).commitAndEnterNewHeight _ (c2 _), (iha_all me n _).commitAndEnterNewHeight _ (a2 _)⟩
  · exact ⟨c1, a1⟩

/-! ### sync as an event -/

/-- the sync callback on the engine: a stopped engine receives none -/
def syncEv (s : S) (h r : Nat) (b : Blk) (signers : List Nat) : S :=
  if !s.started then s else syncBlock s h r b signers

/-- the events of the validator machine, block sync included -/
inductive EventS where
  | ev (e : Event)
  | sync (h r : Nat) (b : Blk) (signers : List Nat)

def vstepS (s : S) : EventS → S
  | .ev e => vstep s e
  | .sync h r b signers => syncEv s h r b signers

def runS (s : S) : List EventS → S
  | [] => s
  | e :: es => runS (vstepS s e) es

def EventS.noCrash : EventS → Prop
  | .ev e => e.noCrash
  | .sync _ _ _ _ => True

/-- the votes handed to the machine: by `vote` events and inside sync commit vote lists -/
def EventS.votes : EventS → List VoteRec
  | .ev (.vote m) => [m]
  | .sync h r b signers => syncVotes h r b signers
  | _ => []

def deliveredS (evs : List EventS) : List VoteRec := evs.flatMap EventS.votes

theorem inv_syncEv {me n : Nat} (s : S) (h r : Nat) (b : Blk) (signers : List Nat) (hi : Inv me n s) :
    Inv me n (syncEv s h r b signers) := by
  unfold syncEv
  split
  · exact hi
  · rename_i hst
    rcases hi.run with hns | ⟨hc, ha⟩
    · rw [hns] at hst; simp at hst
    · obtain ⟨c, a⟩ := core_aux_syncBlock s h r b signers hc ha
      exact inv_of_running c a

theorem a3_syncEv {L : List VoteRec} {base : List Eff} (s : S) (h r : Nat) (b : Blk) (signers : List Nat)
    (ha : A3 L base s) (hk : ∀ v, v ∈ syncVotes h r b signers → v ∈ L) : A3 L base (syncEv s h r b signers) := by
  unfold syncEv
  split
  · exact ha
  · exact a3_syncBlock s h r b signers ha hk

theorem vstepS_a3 {L : List VoteRec} {base : List Eff} (s : S) (e : EventS) (hn : e.noCrash)
    (hl : ∀ m, m ∈ e.votes → m ∈ L) (ha : A3 L base s) : A3 L base (vstepS s e) := by
  cases e with
  | ev e =>
    refine vstep_a3 s e hn ?_ ha
    intro m hm
    subst hm
    exact hl m (by simp [EventS.votes])
  | sync h r b signers => exact a3_syncEv s h r b signers ha hl

theorem runS_a3 {L : List VoteRec} {base : List Eff} (s : S) (evs : List EventS)
    (hn : ∀ e, e ∈ evs → e.noCrash) (hl : ∀ e, e ∈ evs → ∀ m, m ∈ e.votes → m ∈ L) (ha : A3 L base s) :
    A3 L base (runS s evs) := by
  induction evs generalizing s with
  | nil => exact ha
  | cons e t ih =>
    unfold runS
    exact ih _ (fun e' he' => hn e' (List.mem_cons_of_mem _ he')) (fun e' he' => hl e' (List.mem_cons_of_mem _ he'))
      (vstepS_a3 s e (hn e List.mem_cons_self) (hl e List.mem_cons_self) ha)

theorem vstepS_inv {me n : Nat} (s : S) (e : EventS) (hi : Inv me n s) : Inv me n (vstepS s e) := by
  cases e with
  | ev e => exact vstep_inv s e hi
  | sync h r b signers => exact inv_syncEv s h r b signers hi

theorem runS_inv {me n : Nat} (s : S) (evs : List EventS) (hi : Inv me n s) : Inv me n (runS s evs) := by
  induction evs generalizing s with
  | nil => exact hi
  | cons e t ih => unfold runS; exact ih _ (vstepS_inv s e hi)

theorem mem_deliveredS {evs : List EventS} {e : EventS} {m : VoteRec} (he : e ∈ evs) (hm : m ∈ e.votes) :
    m ∈ deliveredS evs := by
  unfold deliveredS
  rw [List.mem_flatMap]
  exact ⟨e, he, hm⟩

/-- the per-machine invariant of L-sys through a sync step -/
theorem m3_syncEv {L : List VoteRec} {me n : Nat} (s : S) (h r : Nat) (b : Blk) (signers : List Nat)
    (hk : ∀ v, v ∈ syncVotes h r b signers → v ∈ L) (hm : M3 L me n s) :
    M3 L me n (syncEv s h r b signers) ∧ s.eff <+: (syncEv s h r b signers).eff := by
  rcases hm.run with hs | ha
  · have : syncEv s h r b signers = s := by unfold syncEv; rw [if_pos (by simp [hs])]
    rw [this]
    exact ⟨hm, List.prefix_refl _⟩
  · have a1 := a3_rebase s.eff (List.prefix_refl _) ha
    have a2 := a3_syncEv s h r b signers a1 hk
    exact ⟨m3_of_a3 (inv_syncEv s h r b signers hm.inv) a2, a2.h3.pre⟩

end Goloop.C01
