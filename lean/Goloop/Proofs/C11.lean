/-
  Proofs/C11 — helper lemmas for the replay-protection theorems.
  Part 1: window.  Part 2: manager invariant (locator cache, eviction, blanking, flush queue).
  Part 3: tracker chain.
-/
import Goloop.Model.C11
namespace Goloop.C11.Proofs
open Goloop Goloop.C11

/-! ## Part 1: window -/

theorem window_iff (bts th ts : Int) :
    windowCheck bts th ts = .ok ↔ (bts - th < ts ∧ ts ≤ bts + th) := by
  unfold windowCheck checkTxTimestamp
  by_cases h1 : ts ≤ bts - th
  · simp [h1]; try omega
  · by_cases h2 : ts > bts + th
    · simp [h1, h2]; try omega
    · simp [h1, h2]; try omega

/-! ## Part 2: manager -/

/-- lists of group `g` that were committed and are not yet evicted: cached, then queued -/
def seqQ (m : Manager) (q : Bool → List TxList) (g : Bool) : List TxList := (m.cache g).lists ++ q g

def Rel (a b : TxList) : Prop := ∀ k ∈ a.live, k ∉ b.ids

structure WT (gOf : Id → Bool) (g : Bool) (x : TxList) : Prop where
  grp : x.normal = g
  live_sub : ∀ k ∈ x.live, k ∈ x.ids
  typed : ∀ k ∈ x.ids, gOf k = g
  ts0 : x.ts = 0 → x.ids = []

structure InvQ (gOf : Id → Bool) (m : Manager) (q : Bool → List TxList) : Prop where
  wt : ∀ g, ∀ x ∈ seqQ m q g, WT gOf g x
  pw : ∀ g, (seqQ m q g).Pairwise Rel
  indb : ∀ g, ∀ C ∈ (m.cache g).lists, ∀ k ∈ C.live, k ∈ m.db
  inloc : ∀ g, ∀ x ∈ seqQ m q g, ∀ k ∈ x.ids, k ∈ m.locators
  logd : ∀ g, ∀ L ∈ m.log, L.normal = g →
    (∃ x ∈ seqQ m q g, x.ts = L.ts ∧ x.th = L.th ∧ x.ids = L.ids) ∨
    (∀ k ∈ L.ids, (k ∈ m.locators ∨ k ∈ m.db) ∧ L.ts + L.th ≤ (m.cache g).maxTS)
  logt : ∀ L ∈ m.log, ∀ k ∈ L.ids, gOf k = L.normal
  maxnn : ∀ g, 0 ≤ (m.cache g).maxTS

theorem has_of_inv {gOf : Id → Bool} {m : Manager} {q : Bool → List TxList} (c : Cfg)
    (hc : c.f5c = true) (h : InvQ gOf m q) {L : TxList} (hL : L ∈ m.log) {k : Id} (hk : k ∈ L.ids)
    {ts : Int} (hts : ts ≤ L.ts + L.th) : m.has c L.normal k ts = true := by
  unfold Manager.has
  by_cases hloc : k ∈ m.locators
  · simp [hloc]
  · simp only [hloc, if_false, hc, if_true]
    rcases h.logd L.normal L hL rfl with ⟨x, hx, _, _, hids⟩ | hev
    · exact absurd (h.inloc _ x hx k (hids ▸ hk)) hloc
    · obtain ⟨hor, hb⟩ := hev k hk
      have hdb : k ∈ m.db := by
        rcases hor with h1 | h1
        · exact absurd h1 hloc
        · exact h1
      have : ¬ ((m.cache L.normal).maxTS ≠ 0 ∧ (m.cache L.normal).maxTS < ts) := by
        intro ⟨_, h2⟩; omega
      simp [this, hdb]

theorem evictLoop_spec (listMin : Int) : ∀ (cl : List TxList) (locs : List Id) (mx : Int),
    ∃ ev, cl = ev ++ (evictLoop listMin cl locs mx).1 ∧
      (∀ k, k ∈ (evictLoop listMin cl locs mx).2.1 ↔ (k ∈ locs ∧ ∀ p ∈ ev, k ∉ p.live)) ∧
      mx ≤ (evictLoop listMin cl locs mx).2.2 ∧
      (∀ p ∈ ev, p.ts ≠ 0 → p.ts + p.th ≤ (evictLoop listMin cl locs mx).2.2)
  | [], locs, mx => ⟨[], by simp [evictLoop]⟩
  | p :: rest, locs, mx => by
    unfold evictLoop
    by_cases hgt : p.ts + p.th > listMin
    · simp only [hgt, if_true]
      exact ⟨[], by simp⟩
    · simp only [hgt, if_false]
      obtain ⟨ev, h1, h2, h3, h4⟩ := evictLoop_spec listMin rest
        (locs.filter (fun k => !(p.live.contains k)))
        (if p.ts ≠ 0 ∧ mx < p.ts + p.th then p.ts + p.th else mx)
      refine ⟨p :: ev, ?_, ?_, ?_, ?_⟩
      · simp only [List.cons_append]; rw [← h1]
      · intro k
        rw [h2 k]
        simp only [List.mem_filter, List.mem_cons, forall_eq_or_imp, Bool.not_eq_true',
          List.contains_eq_mem, decide_eq_false_iff_not]
        constructor
        · rintro ⟨⟨a, b⟩, c⟩; exact ⟨a, b, c⟩
        · rintro ⟨a, b, c⟩; exact ⟨⟨a, b⟩, c⟩
      · refine Int.le_trans ?_ h3
        split <;> omega
      · intro p' hp' hne
        rcases List.mem_cons.mp hp' with rfl | hin
        · refine Int.le_trans ?_ h3
          split
          · omega
          · rename_i hcond
            have : ¬ mx < p'.ts + p'.th := fun hlt => hcond ⟨hne, hlt⟩
            omega
        · exact h4 p' hin hne

theorem cache_setCache (m : Manager) (g g' : Bool) (c : Cache) :
    (m.setCache g c).cache g' = if g' = g then c else m.cache g' := by
  cases g <;> cases g' <;> simp [Manager.setCache, Manager.cache]

/-- queue after taking the head of group `g` -/
def popQ (q : Bool → List TxList) (g : Bool) (rest : List TxList) : Bool → List TxList :=
  fun g' => if g' = g then rest else q g'

theorem flushAndCache_fields (m : Manager) (l : TxList) :
    let r := evictLoop (l.ts - l.th) (m.cache l.normal).lists m.locators (m.cache l.normal).maxTS
    (m.flushAndCache l).locators = r.2.1 ∧ (m.flushAndCache l).db = m.db ++ l.live ∧
    (m.flushAndCache l).log = m.log ∧
    (∀ g', (m.flushAndCache l).cache g' =
      if g' = l.normal then ⟨r.1 ++ [l], r.2.2⟩ else m.cache g') := by
  intro r
  refine ⟨?_, ?_, ?_, ?_⟩
  · simp only [Manager.flushAndCache, Manager.addListAndClearOld]
    cases hl : l.normal <;> simp [Manager.setCache, Manager.cache, r, hl]
  · simp only [Manager.flushAndCache, Manager.addListAndClearOld]
    cases hl : l.normal <;> simp [Manager.setCache]
  · simp only [Manager.flushAndCache, Manager.addListAndClearOld]
    cases hl : l.normal <;> simp [Manager.setCache]
  · intro g'
    simp only [Manager.flushAndCache, Manager.addListAndClearOld]
    cases hl : l.normal <;> cases g' <;> simp [Manager.setCache, Manager.cache, r, hl]

theorem flushAndCache_inv {gOf : Id → Bool} {m : Manager} {q : Bool → List TxList}
    (h : InvQ gOf m q) {g : Bool} {l : TxList} {rest : List TxList} (hq : q g = l :: rest) :
    InvQ gOf (m.flushAndCache l) (popQ q g rest) := by
  have hlwt : WT gOf g l := h.wt g l (by simp [seqQ, hq])
  have hlg : l.normal = g := hlwt.grp
  obtain ⟨hloc, hdb, hlog, hcache⟩ := flushAndCache_fields m l
  obtain ⟨ev, hev1, hev2, hev3, hev4⟩ :=
    evictLoop_spec (l.ts - l.th) (m.cache l.normal).lists m.locators (m.cache l.normal).maxTS
  rw [hlg] at hcache hev1 hev2 hev3 hev4 hloc
  generalize hr : evictLoop (l.ts - l.th) (m.cache g).lists m.locators (m.cache g).maxTS = r
    at hcache hev1 hev2 hev3 hev4 hloc
  -- the old sequence of group g
  have hold : seqQ m q g = ev ++ (r.1 ++ l :: rest) := by
    simp only [seqQ, hq]; rw [hev1]; simp
  -- the new sequences
  have hnew_g : seqQ (m.flushAndCache l) (popQ q g rest) g = r.1 ++ l :: rest := by
    simp [seqQ, popQ, hcache]
  have hnew_o : ∀ g', g' ≠ g → seqQ (m.flushAndCache l) (popQ q g rest) g' = seqQ m q g' := by
    intro g' hne; simp [seqQ, popQ, hcache, hne]
  have hsub : ∀ x, x ∈ r.1 ++ l :: rest → x ∈ seqQ m q g := by
    intro x hx; rw [hold]; exact List.mem_append_right _ hx
  have hpw_old := h.pw g
  rw [hold, List.pairwise_append] at hpw_old
  obtain ⟨_, hpw_new, hcross⟩ := hpw_old
  -- ids of evicted lists are of group g, hence foreign to other groups
  have hev_mem : ∀ p ∈ ev, p ∈ seqQ m q g := by
    intro p hp; rw [hold]; exact List.mem_append_left _ hp
  have hev_cache : ∀ p ∈ ev, p ∈ (m.cache g).lists := by
    intro p hp; rw [hev1]; exact List.mem_append_left _ hp
  -- a key that survives in a not-evicted list stays in the locators
  have hkeep : ∀ g', ∀ x ∈ seqQ (m.flushAndCache l) (popQ q g rest) g', ∀ k ∈ x.ids,
      k ∈ (m.flushAndCache l).locators := by
    intro g' x hx k hk
    rw [hloc, hev2]
    by_cases hg : g' = g
    · subst hg
      rw [hnew_g] at hx
      refine ⟨h.inloc _ x (hsub x hx) k hk, ?_⟩
      intro p hp hkp
      exact hcross p hp x hx k hkp hk
    · rw [hnew_o g' hg] at hx
      refine ⟨h.inloc g' x hx k hk, ?_⟩
      intro p hp hkp
      have h1 := (h.wt g p (hev_mem p hp)).typed k ((h.wt g p (hev_mem p hp)).live_sub k hkp)
      have h2 := (h.wt g' x hx).typed k hk
      exact hg (h2.symm.trans h1)
  -- a key dropped from the locators is in the database
  have hdrop : ∀ k, k ∈ m.locators → k ∈ (m.flushAndCache l).locators ∨ k ∈ (m.flushAndCache l).db := by
    intro k hk
    by_cases hin : ∃ p, p ∈ ev ∧ k ∈ p.live
    · right
      obtain ⟨p, hp, hkp⟩ := hin
      rw [hdb]; exact List.mem_append_left _ (h.indb g p (hev_cache p hp) k hkp)
    · left; rw [hloc, hev2]; exact ⟨hk, fun p hp hkp => hin ⟨p, hp, hkp⟩⟩
  refine ⟨?_, ?_, ?_, hkeep, ?_, ?_, ?_⟩
  · -- wt
    intro g' x hx
    by_cases hg : g' = g
    · subst hg; rw [hnew_g] at hx; exact h.wt _ x (hsub x hx)
    · rw [hnew_o g' hg] at hx; exact h.wt g' x hx
  · -- pw
    intro g'
    by_cases hg : g' = g
    · subst hg; rw [hnew_g]; exact hpw_new
    · rw [hnew_o g' hg]; exact h.pw g'
  · -- indb
    intro g' C hC k hk
    rw [hdb]
    rw [hcache g'] at hC
    by_cases hg : g' = g
    · simp only [hg, if_true] at hC
      rcases List.mem_append.mp hC with hC | hC
      · exact List.mem_append_left _ (h.indb g C (by rw [hev1]; exact List.mem_append_right _ hC) k hk)
      · simp only [List.mem_singleton] at hC; subst hC
        exact List.mem_append_right _ hk
    · simp only [hg, if_false] at hC
      exact List.mem_append_left _ (h.indb g' C hC k hk)
  · -- logd
    intro g' L hL hLg
    rw [hlog] at hL
    have hmax : (m.cache g').maxTS ≤ ((m.flushAndCache l).cache g').maxTS := by
      rw [hcache g']; by_cases hg : g' = g
      · simp only [hg, if_true]; exact hev3
      · simp [hg]
    rcases h.logd g' L hL hLg with ⟨x, hx, h1, h2, h3⟩ | hevd
    · by_cases hg : g' = g
      · subst hg
        rw [hold] at hx
        rcases List.mem_append.mp hx with hxe | hxr
        · -- x is evicted now
          right
          intro k hk
          have hkx : k ∈ x.ids := h3 ▸ hk
          refine ⟨hdrop k (h.inloc _ x (hev_mem x hxe) k hkx), ?_⟩
          have hne : x.ts ≠ 0 := by
            intro h0
            have := (h.wt _ x (hev_mem x hxe)).ts0 h0
            rw [this] at hkx; simp at hkx
          have := hev4 x hxe hne
          rw [hcache g']; simp only [if_true]
          rw [← h1, ← h2]; exact this
        · left; exact ⟨x, by rw [hnew_g]; exact hxr, h1, h2, h3⟩
      · left; exact ⟨x, by rw [hnew_o g' hg]; exact hx, h1, h2, h3⟩
    · right
      intro k hk
      obtain ⟨hor, hb⟩ := hevd k hk
      refine ⟨?_, Int.le_trans hb hmax⟩
      rcases hor with h1 | h1
      · exact hdrop k h1
      · right; rw [hdb]; exact List.mem_append_left _ h1
  · -- logt
    intro L hL; rw [hlog] at hL; exact h.logt L hL
  · -- maxnn
    intro g'
    rw [hcache g']; by_cases hg : g' = g
    · simp only [hg, if_true]; exact Int.le_trans (h.maxnn g) hev3
    · simp only [hg, if_false]; exact h.maxnn g'

/-! ### commitTracker = publish, then queue or flush -/

def publish (m : Manager) (l : TxList) : Manager :=
  { m with
    locators := m.locators ++ l.ids
    pending := m.pending.map (TxList.blank l.ids)
    cacheP := m.cacheP.blank l.ids
    cacheN := m.cacheN.blank l.ids
    log := m.log ++ [l] }

def pushQ (q : Bool → List TxList) (l : TxList) : Bool → List TxList :=
  fun g => (q g).map (TxList.blank l.ids) ++ (if g = l.normal then [l] else [])

theorem commitTracker_eq (m : Manager) (l : TxList) :
    m.commitTracker l =
      if l.normal then { publish m l with pending := (publish m l).pending ++ [l] }
      else (publish m l).flushAndCache l := rfl

theorem mem_blank_live (ks : List Id) (x : TxList) (k : Id) :
    k ∈ (TxList.blank ks x).live ↔ (k ∈ x.live ∧ k ∉ ks) := by
  simp [TxList.blank]

theorem publish_cache (m : Manager) (l : TxList) (g : Bool) :
    (publish m l).cache g = (m.cache g).blank l.ids := by
  cases g <;> simp [publish, Manager.cache]

theorem publish_seq (m : Manager) (q : Bool → List TxList) (l : TxList) (g : Bool) :
    seqQ (publish m l) (pushQ q l) g =
      (seqQ m q g).map (TxList.blank l.ids) ++ (if g = l.normal then [l] else []) := by
  simp [seqQ, pushQ, publish_cache, Cache.blank]

theorem publish_inv {gOf : Id → Bool} {m : Manager} {q : Bool → List TxList} (h : InvQ gOf m q)
    {l : TxList} (hl : WT gOf l.normal l) (hlive : l.live = l.ids) :
    InvQ gOf (publish m l) (pushQ q l) := by
  have hmem : ∀ g x', x' ∈ seqQ (publish m l) (pushQ q l) g →
      (∃ x ∈ seqQ m q g, x' = TxList.blank l.ids x) ∨ (g = l.normal ∧ x' = l) := by
    intro g x' hx'
    rw [publish_seq] at hx'
    rcases List.mem_append.mp hx' with hx' | hx'
    · left
      obtain ⟨x, hx, rfl⟩ := List.mem_map.mp hx'
      exact ⟨x, hx, rfl⟩
    · right
      by_cases hg : g = l.normal
      · simp only [hg, if_true, List.mem_singleton] at hx'; exact ⟨hg, hx'⟩
      · simp [hg] at hx'
  refine ⟨?_, ?_, ?_, ?_, ?_, ?_, ?_⟩
  · intro g x' hx'
    rcases hmem g x' hx' with ⟨x, hx, rfl⟩ | ⟨hg, rfl⟩
    · have hw := h.wt g x hx
      exact ⟨hw.grp, fun k hk => hw.live_sub k ((mem_blank_live _ _ _).mp hk).1, hw.typed, hw.ts0⟩
    · exact hg ▸ hl
  · intro g
    rw [publish_seq, List.pairwise_append]
    refine ⟨?_, ?_, ?_⟩
    · rw [List.pairwise_map]
      refine List.Pairwise.imp ?_ (h.pw g)
      intro a b hab k hk
      exact hab k ((mem_blank_live _ _ _).mp hk).1
    · by_cases hg : g = l.normal <;> simp [hg]
    · intro a ha b hb k hk
      by_cases hg : g = l.normal
      · simp only [hg, if_true, List.mem_singleton] at hb
        subst hb
        obtain ⟨x, _, rfl⟩ := List.mem_map.mp ha
        exact ((mem_blank_live _ _ _).mp hk).2
      · simp [hg] at hb
  · intro g C' hC' k hk
    rw [publish_cache] at hC'
    obtain ⟨C, hC, rfl⟩ := List.mem_map.mp hC'
    exact h.indb g C hC k ((mem_blank_live _ _ _).mp hk).1
  · intro g x' hx' k hk
    show k ∈ m.locators ++ l.ids
    rcases hmem g x' hx' with ⟨x, hx, rfl⟩ | ⟨_, rfl⟩
    · exact List.mem_append_left _ (h.inloc g x hx k hk)
    · exact List.mem_append_right _ hk
  · intro g L hL hLg
    have hL' : L ∈ m.log ++ [l] := hL
    rcases List.mem_append.mp hL' with hL' | hL'
    · rcases h.logd g L hL' hLg with ⟨x, hx, h1, h2, h3⟩ | hev
      · left
        refine ⟨TxList.blank l.ids x, ?_, h1, h2, h3⟩
        rw [publish_seq]
        exact List.mem_append_left _ (List.mem_map.mpr ⟨x, hx, rfl⟩)
      · right
        intro k hk
        obtain ⟨hor, hb⟩ := hev k hk
        refine ⟨?_, ?_⟩
        · rcases hor with h1 | h1
          · left; show k ∈ m.locators ++ l.ids; exact List.mem_append_left _ h1
          · right; exact h1
        · rw [publish_cache]; exact hb
    · simp only [List.mem_singleton] at hL'
      subst hL'
      left
      refine ⟨L, ?_, rfl, rfl, rfl⟩
      rw [publish_seq]
      apply List.mem_append_right
      simp [hLg]
  · intro L hL k hk
    have hL' : L ∈ m.log ++ [l] := hL
    rcases List.mem_append.mp hL' with hL' | hL'
    · exact h.logt L hL' k hk
    · simp only [List.mem_singleton] at hL'; subst hL'; exact hl.typed k hk
  · intro g; rw [publish_cache]; exact h.maxnn g

theorem InvQ_congr {gOf : Id → Bool} {m m' : Manager} {q : Bool → List TxList}
    (hl : m'.locators = m.locators) (hc : ∀ g, m'.cache g = m.cache g) (hdb : m'.db = m.db)
    (hlog : m'.log = m.log) (h : InvQ gOf m q) : InvQ gOf m' q := by
  have hs : ∀ g, seqQ m' q g = seqQ m q g := by intro g; simp [seqQ, hc]
  refine ⟨?_, ?_, ?_, ?_, ?_, ?_, ?_⟩
  · intro g x hx; rw [hs] at hx; exact h.wt g x hx
  · intro g; rw [hs]; exact h.pw g
  · intro g C hC k hk; rw [hc] at hC; rw [hdb]; exact h.indb g C hC k hk
  · intro g x hx k hk; rw [hs] at hx; rw [hl]; exact h.inloc g x hx k hk
  · intro g L hL hLg; rw [hlog] at hL; rw [hs, hl, hdb, hc]; exact h.logd g L hL hLg
  · intro L hL; rw [hlog] at hL; exact h.logt L hL
  · intro g; rw [hc]; exact h.maxnn g

/-- the manager invariant: queue of the normal group = `m.pending`, patch lists are never queued -/
def pendQ (m : Manager) : Bool → List TxList := fun g => if g then m.pending else []

def MInv (gOf : Id → Bool) (m : Manager) : Prop := InvQ gOf m (pendQ m)

theorem flushAndCache_pending (m : Manager) (l : TxList) : (m.flushAndCache l).pending = m.pending := by
  simp only [Manager.flushAndCache, Manager.addListAndClearOld]
  cases l.normal <;> simp [Manager.setCache]

theorem MInv_init (gOf : Id → Bool) : MInv gOf {} := by
  refine ⟨?_, ?_, ?_, ?_, ?_, ?_, ?_⟩ <;> intro g <;> cases g <;> simp [seqQ, pendQ, Manager.cache]

/-- a manager freshly constructed over any database content (node start / restart) -/
theorem MInv_fresh (gOf : Id → Bool) (d : List Id) : MInv gOf { db := d } := by
  refine ⟨?_, ?_, ?_, ?_, ?_, ?_, ?_⟩ <;> intro g <;> cases g <;> simp [seqQ, pendQ, Manager.cache]

theorem MInv_commitTracker {gOf : Id → Bool} {m : Manager} (h : MInv gOf m)
    (g : Bool) (ts th : Int) (ids : List Id) (htyped : ∀ k ∈ ids, gOf k = g) (hts0 : ts = 0 → ids = []) :
    MInv gOf (m.commitTracker ⟨g, ts, th, ids, ids⟩) := by
  have hl : WT gOf g (⟨g, ts, th, ids, ids⟩ : TxList) := ⟨rfl, fun k hk => hk, htyped, hts0⟩
  have hp := publish_inv h (l := ⟨g, ts, th, ids, ids⟩) hl rfl
  rw [commitTracker_eq]
  cases g with
  | true =>
    simp only [if_true]
    have hq : pushQ (pendQ m) ⟨true, ts, th, ids, ids⟩ =
        pendQ { publish m ⟨true, ts, th, ids, ids⟩ with
          pending := (publish m ⟨true, ts, th, ids, ids⟩).pending ++ [⟨true, ts, th, ids, ids⟩] } := by
      funext g'; cases g' <;> simp [pushQ, pendQ, publish]
    unfold MInv
    rw [← hq]
    exact InvQ_congr (m := publish m ⟨true, ts, th, ids, ids⟩) rfl (fun g' => by cases g' <;> rfl) rfl rfl hp
  | false =>
    simp only [Bool.false_eq_true, if_false]
    have hq : pushQ (pendQ m) ⟨false, ts, th, ids, ids⟩ false = ⟨false, ts, th, ids, ids⟩ :: [] := by
      simp [pushQ, pendQ]
    have := flushAndCache_inv hp hq
    unfold MInv
    have hq2 : popQ (pushQ (pendQ m) ⟨false, ts, th, ids, ids⟩) false [] =
        pendQ ((publish m ⟨false, ts, th, ids, ids⟩).flushAndCache ⟨false, ts, th, ids, ids⟩) := by
      funext g'; cases g' <;> simp [popQ, pushQ, pendQ, flushAndCache_pending, publish]
    rw [← hq2]; exact this

theorem MInv_flushStep {gOf : Id → Bool} {m : Manager} (h : MInv gOf m) : MInv gOf m.flushStep := by
  unfold Manager.flushStep
  cases hp : m.pending with
  | nil => simpa [hp] using h
  | cons l rest =>
    simp only
    have h1 : InvQ gOf { m with pending := rest } (pendQ m) :=
      InvQ_congr (m := m) rfl (fun g' => by cases g' <;> rfl) rfl rfl h
    have hq : pendQ m true = l :: rest := by simp [pendQ, hp]
    have := flushAndCache_inv h1 hq
    unfold MInv
    have hq2 : popQ (pendQ m) true rest = pendQ (({ m with pending := rest } : Manager).flushAndCache l) := by
      funext g'; cases g' <;> simp [popQ, pendQ, flushAndCache_pending]
    rw [← hq2]; exact this

/-! ## Part 3: tracker chain -/

/-- `Anc s i j`: tracker `j` is reached from tracker `i` along the parent pointers (reflexive) -/
inductive Anc (s : State) : Nat → Nat → Prop
  | refl (i : Nat) : Anc s i i
  | step {i p j : Nat} {t : Tracker} : s.trackers[i]? = some t → t.parent = some p → Anc s p j → Anc s i j

structure WF (s : State) : Prop where
  lt : ∀ (i : Nat) (t : Tracker) (p : Nat), s.trackers[i]? = some t → t.parent = some p → p < i
  grp : ∀ (i : Nat) (t : Tracker) (p : Nat) (tp : Tracker), s.trackers[i]? = some t →
    t.parent = some p → s.trackers[p]? = some tp → tp.normal = t.normal

theorem WF.ex {s : State} (h : WF s) {i p : Nat} {t : Tracker} (hi : s.trackers[i]? = some t)
    (hp : t.parent = some p) : ∃ tp, s.trackers[p]? = some tp := by
  have h1 := h.lt i t p hi hp
  have h2 : i < s.trackers.length := by
    rcases List.getElem?_eq_some_iff.mp hi with ⟨h2, _⟩; exact h2
  exact ⟨s.trackers[p], List.getElem?_eq_getElem (by omega)⟩

/-- the timestamp bound under which a tracker looks into its own block -/
def ownBound (c : Cfg) (t : Tracker) (ts : Int) : Prop :=
  if c.f5 then ts ≤ t.ts + t.th else ts < t.ts + t.th

theorem chain_has (c : Cfg) (hb : c.f5b = true) (s : State) (hwf : WF s) (k : Id) (ts : Int)
    (j : Nat) (tj : Tracker) (hj : s.trackers[j]? = some tj) (hnc : tj.committed = false)
    (hk : k ∈ tj.ids) (hbound : ownBound c tj ts) :
    ∀ fuel i, i + 1 ≤ fuel → Anc s i j → trackerHasF c s fuel i k ts = true := by
  intro fuel
  induction fuel with
  | zero => intro i h; omega
  | succ fuel ih =>
    intro i hfuel hanc
    unfold trackerHasF
    cases hanc with
    | refl =>
      simp only [hj, hb]
      unfold ownBound at hbound
      cases hf : c.f5
      · simp [hf] at hbound
        have : ¬ (ts ≥ tj.ts + tj.th) := by omega
        simp [this, hnc, hk]
      · simp [hf] at hbound
        have : ¬ (ts > tj.ts + tj.th) := by omega
        simp [this, hnc, hk]
    | step hi hp hrest =>
      rename_i p t
      simp only [hi, hb, hp]
      have hlt := hwf.lt i t p hi hp
      have := ih p (by omega) hrest
      simp only [this]
      simp

theorem chain_has_log (c : Cfg) (hb : c.f5b = true) (s : State) (hwf : WF s) (k : Id) (ts : Int)
    (g : Bool) (hm : s.mgr.has c g k ts = true) :
    ∀ fuel i t, i + 1 ≤ fuel → s.trackers[i]? = some t → t.normal = g →
      trackerHasF c s fuel i k ts = true := by
  intro fuel
  induction fuel with
  | zero => intro i t h; omega
  | succ fuel ih =>
    intro i t hfuel hi hg
    unfold trackerHasF
    simp only [hi, hb]
    cases hp : t.parent with
    | none => simp [hg, hm]
    | some p =>
      obtain ⟨tp, htp⟩ := hwf.ex hi hp
      have hlt := hwf.lt i t p hi hp
      have hgp := hwf.grp i t p tp hi hp htp
      have := ih p tp (by omega) htp (hgp.trans hg)
      simp [this]

/-- a successful unforced `Add` asked the parent about every id, got `false`, and saw no id twice -/
theorem addLoop_ok (c : Cfg) (s : State) (t : Tracker) :
    ∀ (txs : List (Id × Int)) (acc : List Id), (addLoop c s t false txs acc).2 = true →
      (∀ x ∈ txs, parentHas c s t x.1 x.2 = false) ∧ (∀ x ∈ txs, x.1 ∉ acc) ∧
      (txs.map (·.1)).Nodup ∧ (addLoop c s t false txs acc).1 = acc ++ txs.map (·.1)
  | [], acc, _ => by simp [addLoop]
  | (id, ts) :: rest, acc, h => by
    by_cases h1 : id ∈ acc
    · simp [addLoop, h1] at h
    · by_cases h2 : parentHas c s t id ts = true
      · simp [addLoop, h1, h2] at h
      · have h2' : parentHas c s t id ts = false := by simpa using h2
        have heq : addLoop c s t false ((id, ts) :: rest) acc = addLoop c s t false rest (acc ++ [id]) := by
          simp [addLoop, h1, h2']
        rw [heq] at h ⊢
        obtain ⟨a, b, c', d⟩ := addLoop_ok c s t rest (acc ++ [id]) h
        refine ⟨?_, ?_, ?_, ?_⟩
        · intro x hx
          rcases List.mem_cons.mp hx with rfl | hx
          · exact h2'
          · exact a x hx
        · intro x hx
          rcases List.mem_cons.mp hx with rfl | hx
          · exact h1
          · intro hin; exact b x hx (List.mem_append_left _ hin)
        · simp only [List.map_cons, List.nodup_cons]
          refine ⟨?_, c'⟩
          intro hin
          obtain ⟨x, hx, hxe⟩ := List.mem_map.mp hin
          exact b x hx (by rw [hxe]; simp)
        · rw [d]; simp

/-- the ids recorded by `Add` (also by a failing or forced one) are a prefix of the offered ids -/
theorem addLoop_ids (c : Cfg) (s : State) (t : Tracker) (force : Bool) :
    ∀ (txs : List (Id × Int)) (acc : List Id),
      ∀ k ∈ (addLoop c s t force txs acc).1, k ∈ acc ∨ k ∈ txs.map (·.1)
  | [], acc => by simp [addLoop]
  | (id, ts) :: rest, acc => by
    intro k hk
    unfold addLoop at hk
    split at hk
    · exact Or.inl hk
    · split at hk
      · exact Or.inl hk
      · rcases addLoop_ids c s t force rest (acc ++ [id]) k hk with h | h
        · rcases List.mem_append.mp h with h | h
          · exact Or.inl h
          · right; simp at h; simp [h]
        · right; simp only [List.map_cons, List.mem_cons]; exact Or.inr h

/-! ## Part 4: reachable states -/

structure TI (gOf : Id → Bool) (t : Tracker) : Prop where
  typed : ∀ k ∈ t.ids, gOf k = t.normal
  ts0 : t.ts = 0 → t.ids = []

structure SInv (gOf : Id → Bool) (s : State) : Prop where
  wf : WF s
  ti : ∀ (i : Nat) (t : Tracker), s.trackers[i]? = some t → TI gOf t
  mi : MInv gOf s.mgr

/-- every tracker of `s'` is a tracker of `s` with the same group whose parent pointer is kept or cleared -/
def Shrink (s s' : State) : Prop :=
  ∀ (j : Nat) (t' : Tracker), s'.trackers[j]? = some t' →
    ∃ t, s.trackers[j]? = some t ∧ t'.normal = t.normal ∧ (t'.parent = t.parent ∨ t'.parent = none)

theorem WF_of_shrink {s s' : State} (h : WF s) (hs : Shrink s s') : WF s' := by
  refine ⟨?_, ?_⟩
  · intro i t' p hi hp
    obtain ⟨t, ht, _, hpar⟩ := hs i t' hi
    rcases hpar with hpar | hpar
    · exact h.lt i t p ht (hpar ▸ hp)
    · rw [hpar] at hp; cases hp
  · intro i t' p tp' hi hp htp
    obtain ⟨t, ht, hn, hpar⟩ := hs i t' hi
    obtain ⟨tp, htp0, hnp, _⟩ := hs p tp' htp
    rcases hpar with hpar | hpar
    · rw [hnp, hn]; exact h.grp i t p tp ht (hpar ▸ hp) htp0
    · rw [hpar] at hp; cases hp

theorem shrink_set {s : State} {i : Nat} {t tn : Tracker} (hi : s.trackers[i]? = some t)
    (hn : tn.normal = t.normal) (hp : tn.parent = t.parent ∨ tn.parent = none) (m : Manager) :
    Shrink s { mgr := m, trackers := s.trackers.set i tn } := by
  intro j t' hj
  simp only [List.getElem?_set] at hj
  by_cases hij : i = j
  · subst hij
    simp only [if_true] at hj
    split at hj
    · cases hj; exact ⟨t, hi, hn, hp⟩
    · cases hj
  · simp only [hij, if_false] at hj
    exact ⟨t', hj, rfl, Or.inl rfl⟩

theorem getElem?_snoc {α : Type} (l : List α) (a : α) (i : Nat) (x : α)
    (h : (l ++ [a])[i]? = some x) : l[i]? = some x ∨ (i = l.length ∧ x = a) := by
  by_cases hi : i < l.length
  · left; rw [List.getElem?_append_left hi] at h; exact h
  · right
    rw [List.getElem?_append_right (by omega)] at h
    by_cases h0 : i - l.length = 0
    · rw [h0] at h; simp at h; exact ⟨by omega, h.symm⟩
    · have : ([a] : List α)[i - l.length]? = none := by
        apply List.getElem?_eq_none; simp; omega
      rw [this] at h; cases h

theorem getElem?_lt {α : Type} {l : List α} {i : Nat} {x : α} (h : l[i]? = some x) : i < l.length := by
  rcases List.getElem?_eq_some_iff.mp h with ⟨h2, _⟩; exact h2

theorem SInv_snoc {gOf : Id → Bool} {s : State} (h : SInv gOf s) (tn : Tracker)
    (hids : tn.ids = [])
    (hpar : ∀ p, tn.parent = some p → ∃ tp, s.trackers[p]? = some tp ∧ tp.normal = tn.normal) :
    SInv gOf { s with trackers := s.trackers ++ [tn] } := by
  refine ⟨⟨?_, ?_⟩, ?_, h.mi⟩
  · intro i t p hi hp
    rcases getElem?_snoc _ _ _ _ hi with hi | ⟨hi, rfl⟩
    · exact h.wf.lt i t p hi hp
    · obtain ⟨tp, htp, _⟩ := hpar p hp
      have := getElem?_lt htp
      omega
  · intro i t p tp hi hp htp
    rcases getElem?_snoc _ _ _ _ hi with hi | ⟨hi, rfl⟩
    · have hlt := h.wf.lt i t p hi hp
      have hil := getElem?_lt hi
      rcases getElem?_snoc _ _ _ _ htp with htp | ⟨htp, _⟩
      · exact h.wf.grp i t p tp hi hp htp
      · omega
    · obtain ⟨tp0, htp0, hn⟩ := hpar p hp
      rcases getElem?_snoc _ _ _ _ htp with htp | ⟨htp, _⟩
      · rw [htp0] at htp; cases htp; exact hn
      · have := getElem?_lt htp0; omega
  · intro i t hi
    rcases getElem?_snoc _ _ _ _ hi with hi | ⟨_, rfl⟩
    · exact h.ti i t hi
    · exact ⟨by simp [hids], fun _ => hids⟩

theorem SInv_newRoot {gOf : Id → Bool} {s : State} (h : SInv gOf s) (g : Bool) (ts th : Int) :
    SInv gOf (s.newRoot g ts th) :=
  SInv_snoc h ⟨g, ts, th, [], false, none⟩ rfl (by intro p hp; cases hp)

theorem SInv_newChild {gOf : Id → Bool} {s s' : State} (h : SInv gOf s) {p : Nat} {ts th : Int}
    (hc : s.newChild p ts th = some s') : SInv gOf s' := by
  unfold State.newChild at hc
  cases hp : s.trackers[p]? with
  | none => simp [hp] at hc
  | some t =>
    simp only [hp] at hc
    split at hc
    · cases hc; exact SInv_newRoot h _ _ _
    · cases hc
      exact SInv_snoc h ⟨t.normal, ts, th, [], false, some p⟩ rfl
        (by intro p' hp'; cases hp'; exact ⟨t, hp, rfl⟩)

theorem add_mgr (c : Cfg) (s : State) (i : Nat) (txs : List (Id × Int)) (force : Bool) :
    (s.add c i txs force).1.mgr = s.mgr := by
  unfold State.add
  split
  · rfl
  · split
    · rfl
    · split <;> rfl

theorem SInv_add {gOf : Id → Bool} (c : Cfg) {s : State} (h : SInv gOf s) (i : Nat)
    (txs : List (Id × Int)) (force : Bool)
    (htyped : ∀ t, s.trackers[i]? = some t → (∀ x ∈ txs, gOf x.1 = t.normal) ∧ (t.ts = 0 → txs = [])) :
    SInv gOf (s.add c i txs force).1 := by
  unfold State.add
  cases hi : s.trackers[i]? with
  | none => exact h
  | some t =>
    simp only
    split
    · exact h
    · split
      · exact h
      · obtain ⟨hty, hts0⟩ := htyped t hi
        have hsh : Shrink s (s.setTracker i { t with ids := (addLoop c s t force txs []).1 }) :=
          shrink_set (tn := { t with ids := (addLoop c s t force txs []).1 }) hi rfl (Or.inl rfl) s.mgr
        refine ⟨WF_of_shrink h.wf hsh, ?_, h.mi⟩
        intro j t' hj
        simp only [State.setTracker, List.getElem?_set] at hj
        by_cases hij : i = j
        · subst hij
          simp only [if_true] at hj
          split at hj
          · cases hj
            refine ⟨?_, ?_⟩
            · intro k hk
              rcases addLoop_ids c s t force txs [] k hk with h1 | h1
              · simp at h1
              · obtain ⟨x, hx, rfl⟩ := List.mem_map.mp h1
                exact hty x hx
            · intro h0
              have := hts0 h0
              subst this
              simp [addLoop]
          · cases hj
        · simp only [hij, if_false] at hj
          exact h.ti j t' hj

theorem SInv_commit_tail {gOf : Id → Bool} {s1 : State} (h1 : SInv gOf s1) (t0 : Tracker)
    (hti0 : TI gOf t0) (i : Nat) :
    SInv gOf
      (if ((s1.trackers[i]?).getD t0).committed then
        s1.setTracker i { (s1.trackers[i]?).getD t0 with parent := none }
      else
        { mgr := s1.mgr.commitTracker ⟨((s1.trackers[i]?).getD t0).normal, ((s1.trackers[i]?).getD t0).ts,
            ((s1.trackers[i]?).getD t0).th, ((s1.trackers[i]?).getD t0).ids, ((s1.trackers[i]?).getD t0).ids⟩
          trackers := s1.trackers.set i
            { (s1.trackers[i]?).getD t0 with parent := none, committed := true } }) := by
  cases hi1 : s1.trackers[i]? with
  | none =>
    -- cannot happen on reachable states; `set` is then the identity
    have hle : s1.trackers.length ≤ i := by
      apply Nat.le_of_not_lt
      intro hlt
      have : s1.trackers[i]? = some (s1.trackers[i]'hlt) := List.getElem?_eq_getElem hlt
      rw [hi1] at this; cases this
    have hset : ∀ tn, s1.trackers.set i tn = s1.trackers := fun tn => List.set_eq_of_length_le hle
    simp only [Option.getD_none]
    split
    · simp only [State.setTracker, hset]; exact h1
    · refine ⟨?_, ?_, ?_⟩
      · rw [hset]; exact ⟨h1.wf.lt, h1.wf.grp⟩
      · rw [hset]; exact h1.ti
      · exact MInv_commitTracker h1.mi t0.normal t0.ts t0.th t0.ids hti0.typed hti0.ts0
  | some t =>
    simp only [Option.getD_some]
    have hti := h1.ti i t hi1
    split
    · have hsh : Shrink s1 (s1.setTracker i { t with parent := none }) :=
        shrink_set (tn := { t with parent := none }) hi1 rfl (Or.inr rfl) s1.mgr
      refine ⟨WF_of_shrink h1.wf hsh, ?_, h1.mi⟩
      intro j t' hj
      simp only [State.setTracker, List.getElem?_set] at hj
      by_cases hij : i = j
      · subst hij
        simp only [if_true] at hj
        split at hj
        · cases hj; exact ⟨hti.typed, hti.ts0⟩
        · cases hj
      · simp only [hij, if_false] at hj
        exact h1.ti j t' hj
    · have hsh := shrink_set (tn := { t with parent := none, committed := true }) hi1 rfl (Or.inr rfl)
        (s1.mgr.commitTracker ⟨t.normal, t.ts, t.th, t.ids, t.ids⟩)
      refine ⟨WF_of_shrink h1.wf hsh, ?_, ?_⟩
      · intro j t' hj
        simp only [List.getElem?_set] at hj
        by_cases hij : i = j
        · subst hij
          simp only [if_true] at hj
          split at hj
          · cases hj; exact ⟨hti.typed, hti.ts0⟩
          · cases hj
        · simp only [hij, if_false] at hj
          exact h1.ti j t' hj
      · exact MInv_commitTracker h1.mi t.normal t.ts t.th t.ids hti.typed hti.ts0

theorem SInv_commitF {gOf : Id → Bool} : ∀ (fuel : Nat) (s : State) (i : Nat),
    SInv gOf s → SInv gOf (s.commitF fuel i)
  | 0, s, i, h => h
  | fuel + 1, s, i, h => by
    unfold State.commitF
    cases hi : s.trackers[i]? with
    | none => exact h
    | some t0 =>
      simp only
      have hti0 := h.ti i t0 hi
      cases hpar : t0.parent with
      | none => exact SInv_commit_tail h t0 hti0 i
      | some p => exact SInv_commit_tail (SInv_commitF fuel s p h) t0 hti0 i

theorem SInv_restart (gOf : Id → Bool) (s : State) : SInv gOf s.restart := by
  refine ⟨⟨?_, ?_⟩, ?_, MInv_fresh gOf s.mgr.db⟩ <;> intros <;> simp_all [State.restart]

theorem SInv_init (gOf : Id → Bool) : SInv gOf State.init := by
  refine ⟨⟨?_, ?_⟩, ?_, MInv_init gOf⟩ <;> intros <;> simp_all [State.init]

end Goloop.C11.Proofs
