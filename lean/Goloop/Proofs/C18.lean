/-
  Proofs/C18: proof soundness / completeness on the structural level, relative to a
  decoder hypothesis `DecOK` that Proofs/C18Rlp discharges for normal-form tries.
-/
import Goloop.Proofs.C17
import Goloop.Proofs.C18Rlp
namespace Goloop.C18
open Goloop.C17

theorem cpl_comm (a b : List Nibble) : cpl a b = cpl b a := by
  induction a generalizing b with
  | nil => cases b <;> simp [cpl]
  | cons x a ih =>
    cases b with
    | nil => simp [cpl]
    | cons y b =>
      by_cases h : x = y
      · subst h; simp [cpl, ih b]
      · have h' : ¬ y = x := fun e => h e.symm
        simp [cpl, h, h']

section
variable (H : Bytes → Bytes)

/-- the reference under which a child appears in its parent's decoded serialisation -/
def ref (n : Node) : PNode :=
  if (serialize H n).length > 32 then .hash (H (serialize H n)) else toP H n

theorem toP_ext (ks : List Nibble) (nx : Node) : toP H (.ext ks nx) = .ext ks (ref H nx) := rfl
theorem toP_branch (ch : Fin 16 → Node) (v : Option Bytes) :
    toP H (.branch ch v) = .branch (fun i => ref H (ch i)) (match v with | some [] => none | w => w) := rfl

theorem toP_isNil_eq (n : Node) : (toP H n).isNil = n.isEmpty := by
  cases n <;> rfl

theorem serialize_empty_len : (serialize H .empty).length = 1 := rfl

theorem ref_isNil (n : Node) : (ref H n).isNil = n.isEmpty := by
  unfold ref
  split
  · rename_i h
    cases n with
    | empty => simp [serialize] at h
    | _ => rfl
  · exact toP_isNil_eq H n

/-- a predicate on nodes that is inherited by the nodes below (instantiated with normal form +
    size bounds) -/
structure Hered (P : Node → Prop) : Prop where
  notEmpty : ¬ P .empty
  ext : ∀ ks nx, P (.ext ks nx) → P nx
  branch : ∀ ch v i, P (.branch ch v) → (ch i).isEmpty = false → P (ch i)

theorem walk_ref (n : Node) (k : List Nibble) :
    walk (ref H n) k =
      if (serialize H n).length > 32 then .jump (H (serialize H n)) k else walk (toP H n) k := by
  unfold ref
  split <;> rfl

/-- what walking the decoded form of `n` says about the structure -/
theorem walk_spec (P : Node → Prop) (hP : Hered P) (n : Node) (hn : P n) (k : List Nibble) :
    match walk (toP H n) k with
    | .value v => get n k = some v
    | .notFound => get n k = none ∨ get n k = some []
    | .jump h k' => ∃ m, P m ∧ (serialize H m).length > 32 ∧ h = H (serialize H m) ∧ get n k = get m k'
    | .nilPanic => False := by
  induction n generalizing k with
  | empty => exact absurd hn hP.notEmpty
  | leaf ks v =>
    simp only [toP, walk, get_leaf]
    by_cases h : ks = k
    · subst h; simp
    · have h' : ¬ k = ks := fun e => h e.symm
      simp [h, h']
  | ext ks nx ih =>
    have hnx := hP.ext ks nx hn
    by_cases hp : ks <+: k
    · obtain ⟨r, rfl⟩ := hp
      have hc : ¬ cpl ks (ks ++ r) < ks.length := by rw [cpl_append']; omega
      have hw : walk (toP H (.ext ks nx)) (ks ++ r) = walk (ref H nx) r := by
        rw [toP_ext]; simp [walk, cpl_append']
      have hg : get (.ext ks nx) (ks ++ r) = get nx r := by simp [get_ext]
      rw [hw, hg, walk_ref]
      by_cases hbig : (serialize H nx).length > 32
      · rw [if_pos hbig]
        exact ⟨nx, hnx, hbig, rfl, rfl⟩
      · rw [if_neg hbig]
        exact ih hnx r
    · have hc : cpl ks k < ks.length := by
        rw [cpl_comm]; exact (cpl_lt_iff_not_prefix k ks).2 hp
      have hw : walk (toP H (.ext ks nx)) k = .notFound := by
        rw [toP_ext]; simp only [walk, hc, if_true]
      have hg : get (.ext ks nx) k = none := by simp [get_ext, hp]
      rw [hw, hg]
      exact Or.inl rfl
  | branch ch v ih =>
    cases k with
    | nil =>
      rw [toP_branch]
      simp only [walk, get_branch_nil]
      cases v with
      | none => simp
      | some x =>
        cases x with
        | nil => simp
        | cons a r => simp
    | cons i r =>
      by_cases he : (ch i).isEmpty = true
      · have hw : walk (toP H (.branch ch v)) (i :: r) = .notFound := by
          rw [toP_branch]; simp only [walk, ref_isNil, he, if_true]
        have hg : get (.branch ch v) (i :: r) = none := by
          simp [(isEmpty_iff _).1 he]
        rw [hw, hg]
        exact Or.inl rfl
      · have he' : (ch i).isEmpty = false := by simpa using he
        have hw : walk (toP H (.branch ch v)) (i :: r) = walk (ref H (ch i)) r := by
          rw [toP_branch]; simp only [walk, ref_isNil, he', Bool.false_eq_true, if_false]
        rw [hw, get_branch_cons, walk_ref]
        by_cases hbig : (serialize H (ch i)).length > 32
        · rw [if_pos hbig]
          exact ⟨ch i, hP.branch ch v i hn he', hbig, rfl, rfl⟩
        · rw [if_neg hbig]
          exact ih i (hP.branch ch v i hn he') r

/-- decoder hypothesis: every `P`-node's serialisation decodes to its `toP` view -/
def DecOK (P : Node → Prop) : Prop :=
  ∀ n, P n → deserialize ((serialize H n).length + 1) (serialize H n) = .ok (toP H n)

def Collision : Prop := ∃ a b : Bytes, a ≠ b ∧ H a = H b

theorem proveHash_cons (P : Node → Prop) (hdec : DecOK H P) (m : Node) (hm : P m)
    (rest : List Bytes) (k : List Nibble) :
    proveHash H (serialize H m :: rest) (H (serialize H m)) k =
      if (toP H m).isLeaf && !rest.isEmpty then .reject
      else match walk (toP H m) k with
        | .value v => .ok v
        | .notFound => .notfound
        | .nilPanic => .panic
        | .jump h' k' => proveHash H rest h' k' := by
  rw [proveHash]
  simp only [ne_eq, not_true_eq_false, if_false, hdec m hm]
  rfl

/-- **soundness**: whatever `Prove` accepts under the root of `n` is what the trie stores,
    unless the proof exhibits a hash collision -/
theorem proveHash_sound (P : Node → Prop) (hP : Hered P) (hdec : DecOK H P)
    (p : List Bytes) (n : Node) (hn : P n) (k : List Nibble) (v : Bytes)
    (h : proveHash H p (H (serialize H n)) k = .ok v) :
    get n k = some v ∨ Collision H := by
  induction p generalizing n k with
  | nil => simp [proveHash] at h
  | cons b rest ih =>
    by_cases hb : b = serialize H n
    · subst hb
      rw [proveHash_cons H P hdec n hn] at h
      split at h
      · cases h
      · have hw := walk_spec H P hP n hn k
        split at h
        · rename_i v' hv'
          rw [hv'] at hw
          cases h
          exact Or.inl hw
        · cases h
        · cases h
        · rename_i h' k' hj
          rw [hj] at hw
          obtain ⟨m, hm, _, rfl, hg⟩ := hw
          rcases ih m hm k' h with h1 | h2
          · exact Or.inl (hg ▸ h1)
          · exact Or.inr h2
    · rw [proveHash] at h
      by_cases hh : H b = H (serialize H n)
      · exact Or.inr ⟨b, serialize H n, hb, hh⟩
      · simp [hh] at h

/-- the proof element a node contributes itself -/
def hdr (r : Bool) (n : Node) : List Bytes := if hasHash H r n then [serialize H n] else []

theorem hdr_false (n : Node) :
    hdr H false n = if (serialize H n).length > 32 then [serialize H n] else [] := by
  simp [hdr, hasHash]

/-- continuing a proof below a referenced child `c` (hashed or embedded) -/
theorem complete_step (P : Node → Prop) (hdec : DecOK H P) (c : Node) (hc : P c)
    (r' : List Nibble) (v : Bytes) (q' : List Bytes)
    (ihw : match walk (toP H c) r' with
      | .value v' => v' = v ∧ q' = []
      | .jump h k' => proveHash H q' h k' = .ok v
      | _ => False) :
    match walk (ref H c) r' with
    | .value v' => v' = v ∧ hdr H false c ++ q' = []
    | .jump h k' => proveHash H (hdr H false c ++ q') h k' = .ok v
    | _ => False := by
  rw [walk_ref, hdr_false]
  by_cases hbig : (serialize H c).length > 32
  · simp only [hbig, if_true]
    show proveHash H (serialize H c :: q') (H (serialize H c)) r' = .ok v
    rw [proveHash_cons H P hdec c hc]
    split at ihw
    · rename_i v' hw
      obtain ⟨rfl, rfl⟩ := ihw
      simp [hw]
    · rename_i h k' hw
      have hl : (toP H c).isLeaf = false := by
        cases c with
        | leaf ks x => simp [toP, walk] at hw; split at hw <;> cases hw
        | _ => rfl
      simp [hl, hw, ihw]
    · exact ihw.elim
  · simp only [hbig, if_false, List.nil_append]
    exact ihw

theorem getProof_complete (P : Node → Prop) (hP : Hered P) (hdec : DecOK H P)
    (n : Node) (hn : P n) (k : List Nibble) (v : Bytes) (hg : get n k = some v) (hv : v ≠ []) :
    ∃ q, (∀ r items, getProof H r n k items = some (items ++ hdr H r n ++ q)) ∧
      (match walk (toP H n) k with
       | .value v' => v' = v ∧ q = []
       | .jump h k' => proveHash H q h k' = .ok v
       | _ => False) := by
  induction n generalizing k with
  | empty => simp at hg
  | leaf ks x =>
    rw [get_leaf] at hg
    by_cases e : k = ks
    · subst e
      simp at hg; subst hg
      refine ⟨[], fun r items => ?_, ?_⟩
      · simp only [getProof, hdr, if_true, List.append_nil]
        split <;> simp
      · simp [toP, walk]
    · simp [e] at hg
  | ext ks nx ih =>
    have hnx := hP.ext ks nx hn
    rw [get_ext] at hg
    by_cases hp : ks <+: k
    · obtain ⟨r', rfl⟩ := hp
      simp at hg
      obtain ⟨q', hq1, hq2⟩ := ih hnx r' hg
      refine ⟨hdr H false nx ++ q', fun r items => ?_, ?_⟩
      · have hc : ¬ cpl ks (ks ++ r') < ks.length := by rw [cpl_append']; omega
        simp only [getProof, cpl_append', Nat.lt_irrefl, if_false, List.drop_left']
        rw [hq1]
        simp only [hdr]
        split <;> simp
      · have hw : walk (toP H (.ext ks nx)) (ks ++ r') = walk (ref H nx) r' := by
          rw [toP_ext]; simp [walk, cpl_append']
        rw [hw]
        exact complete_step H P hdec nx hnx r' v q' hq2
    · simp [hp] at hg
  | branch ch w ih =>
    cases k with
    | nil =>
      simp at hg; subst hg
      refine ⟨[], fun r items => ?_, ?_⟩
      · simp only [getProof, hdr, List.append_nil]
        split <;> simp
      · rw [toP_branch]
        cases v with
        | nil => exact absurd rfl hv
        | cons a t => simp [walk]
    | cons i r' =>
      rw [get_branch_cons] at hg
      have he' : (ch i).isEmpty = false := by
        cases hc : ch i with
        | empty => rw [hc] at hg; simp at hg
        | _ => rfl
      have hci := hP.branch ch w i hn he'
      obtain ⟨q', hq1, hq2⟩ := ih i hci r' hg
      refine ⟨hdr H false (ch i) ++ q', fun r items => ?_, ?_⟩
      · simp only [getProof, he', Bool.false_eq_true, if_false]
        rw [hq1]
        simp only [hdr]
        split <;> simp
      · have hw : walk (toP H (.branch ch w)) (i :: r') = walk (ref H (ch i)) r' := by
          rw [toP_branch]; simp only [walk, ref_isNil, he', Bool.false_eq_true, if_false]
        rw [hw]
        exact complete_step H P hdec (ch i) hci r' v q' hq2

/-- what the verifier has established when it stands at node `n` with remaining key `k` and
    remaining proof `π`, and finally answers `ok v` -/
def Acc (n : PNode) (k : List Nibble) (π : List Bytes) (v : Bytes) : Prop :=
  match walk n k with
  | .value v' => v' = v
  | .jump h k' => proveHash H π h k' = .ok v
  | _ => False

/-- `q` is the honest proof below `n` for key `k` (what GetProof appends after `n`'s own element) -/
def GP (n : Node) (k : List Nibble) (q : List Bytes) : Prop :=
  ∀ r items, getProof H r n k items = some (items ++ hdr H r n ++ q)

theorem prefix_step (P : Node → Prop) (hdec : DecOK H P) (c : Node) (hc : P c)
    (r' : List Nibble) (π : List Bytes) (v : Bytes)
    (ih : ∀ π, Acc H (toP H c) r' π v → Collision H ∨ ∃ q, GP H c r' q ∧ q <+: π)
    (h : Acc H (ref H c) r' π v) :
    Collision H ∨ ∃ q', GP H c r' q' ∧ (hdr H false c ++ q') <+: π := by
  unfold Acc at h
  rw [walk_ref] at h
  rw [hdr_false]
  by_cases hbig : (serialize H c).length > 32
  · simp only [hbig, if_true] at h ⊢
    cases π with
    | nil => simp [proveHash] at h
    | cons b rest =>
      by_cases hb : b = serialize H c
      · subst hb
        rw [proveHash_cons H P hdec c hc] at h
        split at h
        · cases h
        · have hacc : Acc H (toP H c) r' rest v := by
            unfold Acc
            split at h
            · rename_i v' hw; rw [hw]; cases h; rfl
            · cases h
            · cases h
            · rename_i h' k' hw; rw [hw]; exact h
          rcases ih rest hacc with hc' | ⟨q, hq, hpre⟩
          · exact Or.inl hc'
          · refine Or.inr ⟨q, hq, ?_⟩
            simpa [List.cons_prefix_cons] using hpre
      · rw [proveHash] at h
        by_cases hh : H b = H (serialize H c)
        · exact Or.inl ⟨b, _, hb, hh⟩
        · simp [hh] at h
  · simp only [hbig, if_false, List.nil_append] at h ⊢
    exact ih π h

theorem prefix_spec (P : Node → Prop) (hP : Hered P) (hdec : DecOK H P)
    (n : Node) (hn : P n) (k : List Nibble) (v : Bytes) (π : List Bytes)
    (h : Acc H (toP H n) k π v) : Collision H ∨ ∃ q, GP H n k q ∧ q <+: π := by
  induction n generalizing k π with
  | empty => exact absurd hn hP.notEmpty
  | leaf ks x =>
    unfold Acc at h
    simp only [toP, walk] at h
    by_cases e : ks = k
    · subst e
      refine Or.inr ⟨[], fun r items => ?_, List.nil_prefix⟩
      simp only [getProof, hdr, if_true, List.append_nil]
      split <;> simp
    · simp [e] at h
  | ext ks nx ih =>
    have hnx := hP.ext ks nx hn
    by_cases hp : ks <+: k
    · obtain ⟨r', rfl⟩ := hp
      have hw : walk (toP H (.ext ks nx)) (ks ++ r') = walk (ref H nx) r' := by
        rw [toP_ext]; simp [walk, cpl_append']
      have h' : Acc H (ref H nx) r' π v := by unfold Acc at h ⊢; rw [← hw]; exact h
      rcases prefix_step H P hdec nx hnx r' π v (fun π' => ih hnx r' π') h' with hc | ⟨q', hq, hpre⟩
      · exact Or.inl hc
      · refine Or.inr ⟨hdr H false nx ++ q', fun r items => ?_, hpre⟩
        simp only [getProof, cpl_append', Nat.lt_irrefl, if_false, List.drop_left']
        rw [hq]
        simp only [hdr]
        split <;> simp
    · have hc : cpl ks k < ks.length := by
        rw [cpl_comm]; exact (cpl_lt_iff_not_prefix k ks).2 hp
      unfold Acc at h
      rw [toP_ext] at h
      simp [walk, hc] at h
  | branch ch w ih =>
    cases k with
    | nil =>
      unfold Acc at h
      rw [toP_branch] at h
      refine Or.inr ⟨[], fun r items => ?_, List.nil_prefix⟩
      simp only [getProof, hdr, List.append_nil]
      split <;> simp
    | cons i r' =>
      by_cases he : (ch i).isEmpty = true
      · unfold Acc at h
        rw [toP_branch] at h
        simp [walk, ref_isNil, he] at h
      · have he' : (ch i).isEmpty = false := by simpa using he
        have hci := hP.branch ch w i hn he'
        have hw : walk (toP H (.branch ch w)) (i :: r') = walk (ref H (ch i)) r' := by
          rw [toP_branch]; simp only [walk, ref_isNil, he', Bool.false_eq_true, if_false]
        have h' : Acc H (ref H (ch i)) r' π v := by unfold Acc at h ⊢; rw [← hw]; exact h
        rcases prefix_step H P hdec (ch i) hci r' π v (fun π' => ih i hci r' π') h'
          with hc | ⟨q', hq, hpre⟩
        · exact Or.inl hc
        · refine Or.inr ⟨hdr H false (ch i) ++ q', fun r items => ?_, hpre⟩
          simp only [getProof, he', Bool.false_eq_true, if_false]
          rw [hq]
          simp only [hdr]
          split <;> simp

end
end Goloop.C18
