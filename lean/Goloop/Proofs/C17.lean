/-
  Proofs/C17: helper lemmas for the C17 property theorems.
-/
import Goloop.Proofs.C17Defs
namespace Goloop.C17

/-! ### common prefix length -/

theorem cpl_le_left (k ks : List Nibble) : cpl k ks ≤ k.length := by
  fun_induction cpl k ks <;> simp_all <;> omega

theorem cpl_le_right (k ks : List Nibble) : cpl k ks ≤ ks.length := by
  fun_induction cpl k ks <;> simp_all <;> omega

theorem cpl_take (k ks : List Nibble) : k.take (cpl k ks) = ks.take (cpl k ks) := by
  fun_induction cpl k ks <;> simp_all

theorem cpl_append (p r : List Nibble) : cpl (p ++ r) p = p.length := by
  induction p with
  | nil => cases r <;> simp [cpl]
  | cons a p ih => simp [cpl, ih]

theorem cpl_append' (p r : List Nibble) : cpl p (p ++ r) = p.length := by
  induction p with
  | nil => cases r <;> simp [cpl]
  | cons a p ih => simp [cpl, ih]

theorem cpl_self (p : List Nibble) : cpl p p = p.length := by
  simpa using cpl_append p []

/-- the common prefix is maximal: the next nibbles differ -/
theorem cpl_next_ne (k ks : List Nibble) (x y : Nibble) (r s : List Nibble)
    (hk : k.drop (cpl k ks) = x :: r) (hs : ks.drop (cpl k ks) = y :: s) : x ≠ y := by
  induction k generalizing ks with
  | nil => simp [cpl] at hk
  | cons a k ih =>
    cases ks with
    | nil => simp [cpl] at hs
    | cons b ks =>
      by_cases hab : a = b
      · subst hab
        simp [cpl] at hk hs
        exact ih ks hk hs
      · simp [cpl, hab] at hk hs
        rcases hk with ⟨rfl, _⟩
        rcases hs with ⟨rfl, _⟩
        exact hab

theorem cpl_eq_len_iff_prefix (k ks : List Nibble) : cpl k ks = ks.length ↔ ks <+: k := by
  constructor
  · intro h
    have := cpl_take k ks
    rw [h, List.take_length] at this
    refine ⟨k.drop ks.length, ?_⟩
    have h2 := List.take_append_drop ks.length k
    rw [this] at h2
    exact h2
  · rintro ⟨r, rfl⟩
    exact cpl_append ks r

theorem cpl_lt_iff_not_prefix (k ks : List Nibble) : cpl k ks < ks.length ↔ ¬ ks <+: k := by
  rw [← cpl_eq_len_iff_prefix]
  have := cpl_le_right k ks
  omega

/-! ### get / set -/

@[simp] theorem get_empty (k : List Nibble) : get .empty k = none := by
  cases k <;> rfl

theorem get_leaf (ks : List Nibble) (v : Bytes) (k : List Nibble) :
    get (.leaf ks v) k = if k = ks then some v else none := by
  cases k <;> rfl

@[simp] theorem get_branch_nil (ch : Fin 16 → Node) (v : Option Bytes) : get (.branch ch v) [] = v := rfl
@[simp] theorem get_branch_cons (ch : Fin 16 → Node) (v : Option Bytes) (i : Nibble) (r : List Nibble) :
    get (.branch ch v) (i :: r) = get (ch i) r := rfl

theorem get_ext (p : List Nibble) (n : Node) (k : List Nibble) :
    get (.ext p n) k = if p <+: k then get n (k.drop p.length) else none := by
  have h1 : get (.ext p n) k = if cpl k p < p.length then none else get n (k.drop (cpl k p)) := by
    cases k <;> rfl
  rw [h1]
  by_cases hp : p <+: k
  · have := (cpl_eq_len_iff_prefix k p).2 hp
    simp [hp, this]
  · have := (cpl_lt_iff_not_prefix k p).2 hp
    simp [hp, this]

@[simp] theorem upd_same (ch : Fin 16 → Node) (i : Fin 16) (c : Node) : upd ch i c i = c := by simp [upd]
theorem upd_ne (ch : Fin 16 → Node) (i j : Fin 16) (c : Node) (h : j ≠ i) : upd ch i c j = ch j := by
  simp [upd, h]
@[simp] theorem noCh_apply (i : Fin 16) : noCh i = .empty := rfl

theorem eq_append_iff (p k a : List Nibble) : k = p ++ a ↔ (p <+: k ∧ k.drop p.length = a) := by
  constructor
  · rintro rfl; simp
  · rintro ⟨⟨r, rfl⟩, h⟩
    simp at h; rw [h]

theorem cpl_decomp (k ks : List Nibble) : ∃ p a b, k = p ++ a ∧ ks = p ++ b ∧ cpl k ks = p.length ∧
    (∀ x y r s, a = x :: r → b = y :: s → x ≠ y) := by
  refine ⟨k.take (cpl k ks), k.drop (cpl k ks), ks.drop (cpl k ks), by simp, ?_, ?_, ?_⟩
  · rw [cpl_take]; simp
  · have := cpl_le_left k ks
    simp; omega
  · intro x y r s h1 h2
    exact cpl_next_ne k ks x y r s h1 h2


theorem get_br1 (y : Nibble) (s : List Nibble) (v o : Bytes) (k' : List Nibble) :
    get (.branch (upd noCh y (.leaf s v)) (some o)) k' =
      if k' = [] then some o else if k' = y :: s then some v else none := by
  cases k' with
  | nil => simp
  | cons i r =>
    by_cases h : i = y
    · subst h; simp [get_leaf]
    · simp [upd_ne _ _ _ _ h, h]

theorem get_br2 (x y : Nibble) (r s : List Nibble) (v o : Bytes) (hxy : x ≠ y) (k' : List Nibble) :
    get (.branch (upd (upd noCh x (.leaf r o)) y (.leaf s v)) none) k' =
      if k' = x :: r then some o else if k' = y :: s then some v else none := by
  cases k' with
  | nil => simp
  | cons i t =>
    by_cases h : i = y
    · subst h; simp [get_leaf, Ne.symm hxy]
    · rw [get_branch_cons, upd_ne _ _ _ _ h]
      by_cases h2 : i = x
      · subst h2; simp [get_leaf, h]
      · simp [upd_ne _ _ _ _ h2, h, h2]

theorem get_br3 (x : Nibble) (r : List Nibble) (v o : Bytes) (k' : List Nibble) :
    get (.branch (upd noCh x (.leaf r o)) (some v)) k' =
      if k' = x :: r then some o else if k' = [] then some v else none := by
  cases k' with
  | nil => simp
  | cons i t =>
    by_cases h : i = x
    · subst h; simp [get_leaf]
    · simp [upd_ne _ _ _ _ h, h]

theorem get_set_leaf (ks : List Nibble) (v : Bytes) (k : List Nibble) (o : Bytes) (k' : List Nibble) :
    get (set (.leaf ks v) k o) k' = if k' = k then some o else get (.leaf ks v) k' := by
  obtain ⟨p, a, b, rfl, rfl, hc, hne⟩ := cpl_decomp k ks
  simp only [set, hc, get_leaf]
  cases a with
  | nil =>
    cases b with
    | nil => by_cases h : k' = p <;> simp [h, get_leaf]
    | cons y s =>
      cases p with
      | nil => simp [putNew, get_br1]
      | cons q p =>
        simp [putNew, get_ext, get_br1]
        by_cases hp : (q :: p) <+: k'
        · obtain ⟨t, rfl⟩ := hp
          cases t with
          | nil => simp
          | cons a t => simp; intro h; omega
        · have h1 : k' ≠ q :: p := by rintro rfl; exact hp ⟨[], by simp⟩
          have h2 : k' ≠ q :: (p ++ y :: s) := by rintro rfl; exact hp ⟨y :: s, by simp⟩
          simp [hp, h1, h2]
  | cons x r =>
    cases b with
    | nil =>
      cases p with
      | nil => simp [putNew, get_br3]
      | cons q p =>
        simp [get_ext, get_br3]
        by_cases hp : (q :: p) <+: k'
        · obtain ⟨t, rfl⟩ := hp
          cases t with
          | nil => simp
          | cons a t =>
            have : ¬ (p.length + (t.length + 1) ≤ p.length) := by omega
            simp [this]
        · have h1 : k' ≠ q :: p := by rintro rfl; exact hp ⟨[], by simp⟩
          have h2 : k' ≠ q :: (p ++ x :: r) := by rintro rfl; exact hp ⟨x :: r, by simp⟩
          simp [hp, h1, h2]
    | cons y s =>
      have hxy := hne x y r s rfl rfl
      cases p with
      | nil => simp [putNew, hxy, get_br2 _ _ _ _ _ _ hxy]
      | cons q p =>
        simp [putNew, hxy, get_ext, get_br2 _ _ _ _ _ _ hxy]
        by_cases hp : (q :: p) <+: k'
        · obtain ⟨t, rfl⟩ := hp
          simp
        · have h1 : k' ≠ q :: (p ++ x :: r) := by rintro rfl; exact hp ⟨x :: r, by simp⟩
          have h2 : k' ≠ q :: (p ++ y :: s) := by rintro rfl; exact hp ⟨y :: s, by simp⟩
          simp [hp, h1, h2]


/-- lookup below child `y` -/
def getAt (y : Nibble) (c : Node) : List Nibble → Option Bytes
  | [] => none
  | i :: t => if i = y then get c t else none

theorem get_ext_nil (nx : Node) (k : List Nibble) : get (.ext [] nx) k = get nx k := by
  simp [get_ext]

theorem get_ext_cons (y : Nibble) (s : List Nibble) (nx : Node) (k : List Nibble) :
    get (.ext (y :: s) nx) k = getAt y (.ext s nx) k := by
  cases k with
  | nil => simp [get_ext, getAt]
  | cons i t =>
    by_cases h : i = y
    · subst h; simp [get_ext, getAt]
    · have h' : ¬ y = i := fun e => h e.symm
      simp [get_ext, getAt, h, h']

theorem get_ite_ext (s : List Nibble) (nx : Node) (t : List Nibble) :
    get (if s = [] then nx else .ext s nx) t = get (.ext s nx) t := by
  by_cases h : s = []
  · subst h; simp [get_ext_nil]
  · simp [h]

theorem get_brE1 (a : List Nibble) (y : Nibble) (c : Node) (o : Bytes) (k' : List Nibble)
    (ha : ∀ x r, a = x :: r → x ≠ y) :
    get (.branch (upd (putNew (noCh, none) a o).1 y c) (putNew (noCh, none) a o).2) k' =
      if k' = a then some o else getAt y c k' := by
  cases a with
  | nil =>
    cases k' with
    | nil => simp [putNew]
    | cons i t =>
      by_cases h : i = y
      · subst h; simp [putNew, getAt]
      · simp [putNew, getAt, h, upd_ne _ _ _ _ h]
  | cons x r =>
    have hxy := ha x r rfl
    cases k' with
    | nil => simp [putNew, getAt]
    | cons i t =>
      by_cases h : i = y
      · subst h; simp [putNew, getAt, Ne.symm hxy]
      · by_cases h2 : i = x
        · subst h2; simp [putNew, getAt, h, upd_ne _ _ _ _ h, get_leaf]
        · simp [putNew, getAt, h, h2, upd_ne _ _ _ _ h, upd_ne _ _ _ _ h2]

theorem get_brE2 (a : List Nibble) (y : Nibble) (c : Node) (o : Bytes) (k' : List Nibble)
    (ha : ∀ x r, a = x :: r → x ≠ y) :
    get (.branch (putNew (upd noCh y c, none) a o).1 (putNew (upd noCh y c, none) a o).2) k' =
      if k' = a then some o else getAt y c k' := by
  cases a with
  | nil =>
    cases k' with
    | nil => simp [putNew]
    | cons i t =>
      by_cases h : i = y
      · subst h; simp [putNew, getAt]
      · simp [putNew, getAt, h, upd_ne _ _ _ _ h]
  | cons x r =>
    have hxy := ha x r rfl
    cases k' with
    | nil => simp [putNew, getAt]
    | cons i t =>
      by_cases h2 : i = x
      · subst h2; simp [putNew, getAt, hxy, get_leaf]
      · by_cases h : i = y
        · subst h; simp [putNew, getAt, h2, upd_ne _ _ _ _ h2]
        · simp [putNew, getAt, h, h2, upd_ne _ _ _ _ h, upd_ne _ _ _ _ h2]

theorem getAt_ite (y : Nibble) (s : List Nibble) (nx : Node) (t : List Nibble) :
    getAt y (if s = [] then nx else .ext s nx) t = getAt y (.ext s nx) t := by
  cases t <;> simp [getAt, get_ite_ext]

theorem get_ext_app (p b : List Nibble) (nx : Node) (t : List Nibble) :
    get (.ext (p ++ b) nx) (p ++ t) = get (.ext b nx) t := by
  rw [get_ext, get_ext]
  simp [List.prefix_append_right_inj]

/-- extension keys are non-empty everywhere (`set` on an extension with empty keys would panic) -/
def ExtOK : Node → Prop
  | .empty => True
  | .leaf _ _ => True
  | .ext ks nx => ks ≠ [] ∧ ExtOK nx
  | .branch ch _ => ∀ i, ExtOK (ch i)

theorem get_set (t : Node) (h : ExtOK t) (k : List Nibble) (o : Bytes) (k' : List Nibble) :
    get (set t k o) k' = if k' = k then some o else get t k' := by
  induction t generalizing k k' with
  | empty => simp [set, get_leaf]
  | leaf ks v => exact get_set_leaf ks v k o k'
  | ext ks nx ih =>
    obtain ⟨hks, hnx⟩ := h
    obtain ⟨p, a, b, rfl, rfl, hc, hne⟩ := cpl_decomp k ks
    simp only [set, hc]
    cases b with
    | nil =>
      -- ks is a prefix of the key: descend
      have hp : p ≠ [] := by simpa using hks
      simp [hp, get_ext]
      by_cases hpk : p <+: k'
      · obtain ⟨t, rfl⟩ := hpk
        simp [ih hnx]
      · have : k' ≠ p ++ a := by rintro rfl; exact hpk ⟨a, rfl⟩
        simp [hpk, this]
    | cons y s =>
      have ha : ∀ x r, a = x :: r → x ≠ y := fun x r h => hne x y r s h rfl
      cases p with
      | nil =>
        simp only [List.length_nil, List.nil_append, if_true]
        cases s with
        | nil =>
          rw [get_brE1 a y nx o k' ha, get_ext_cons]
          cases k' with
          | nil => simp [getAt]
          | cons i t => simp [getAt, get_ext_nil]
        | cons z s =>
          rw [get_brE1 a y _ o k' ha, get_ext_cons]
      | cons q p =>
        simp only [List.length_cons, Nat.add_one_ne_zero, if_false]
        have e1 : List.drop (p.length + 1) (q :: p ++ y :: s) = y :: s := by simp
        have e2 : List.take (p.length + 1) (q :: p ++ y :: s) = q :: p := by simp
        have e3 : List.drop (p.length + 1) (q :: p ++ a) = a := by simp
        have e4 : p.length + 1 < (q :: p ++ y :: s).length := by simp
        rw [if_pos e4, e1, e3, e2]
        simp only []
        rw [get_ext (q :: p)]
        by_cases hpk : (q :: p) <+: k'
        · obtain ⟨t, rfl⟩ := hpk
          have hd : List.drop (q :: p).length (q :: p ++ t) = t := by simp
          rw [if_pos ⟨t, rfl⟩, hd, get_brE2 a y _ o t ha, getAt_ite, get_ext_app (q :: p) (y :: s) nx t,
            get_ext_cons]
          simp
        · have h1 : k' ≠ q :: p ++ a := by rintro rfl; exact hpk ⟨a, rfl⟩
          have h2 : ¬ (q :: p ++ y :: s) <+: k' := by
            rintro ⟨u, rfl⟩; exact hpk ⟨y :: s ++ u, by simp⟩
          rw [if_neg hpk, if_neg h1, get_ext, if_neg h2]
  | branch ch v ih =>
    cases k with
    | nil => 
      cases k' <;> simp [set]
    | cons i r =>
      cases k' with
      | nil => simp [set]
      | cons j r' =>
        by_cases hj : j = i
        · subst hj; simp [set, ih j (h j)]
        · simp [set, upd_ne _ _ _ _ hj, hj]

/-! ### delete -/

theorem isEmpty_iff (n : Node) : n.isEmpty = true ↔ n = .empty := by
  cases n <;> simp [Node.isEmpty]

theorem mem_live (ch : Fin 16 → Node) (i : Fin 16) : i ∈ live ch ↔ ch i ≠ .empty := by
  simp [live, List.mem_filter, List.mem_finRange, ← isEmpty_iff]

theorem live_nil (ch : Fin 16 → Node) (h : live ch = []) (i : Fin 16) : ch i = .empty := by
  apply Classical.byContradiction; intro hne
  have := (mem_live ch i).2 hne
  simp [h] at this

theorem live_single (ch : Fin 16 → Node) (i : Fin 16) (h : live ch = [i]) (j : Fin 16) (hj : j ≠ i) :
    ch j = .empty := by
  apply Classical.byContradiction; intro hne
  have := (mem_live ch j).2 hne
  simp [h] at this
  exact hj this

theorem get_collapse (ch : Fin 16 → Node) (v : Option Bytes) (k' : List Nibble) :
    get (collapse ch v) k' = get (.branch ch v) k' := by
  unfold collapse
  split
  · rename_i hl
    split
    · cases k' with
      | nil => simp [get_leaf]
      | cons j r => simp [get_leaf, live_nil ch hl j]
    · rfl
  · rename_i i hl
    split
    · rfl
    · have hj := live_single ch i hl
      split
      · rename_i ks n he
        cases k' with
        | nil => simp [get_ext_cons, getAt]
        | cons j r =>
          by_cases h : j = i
          · subst h; simp [get_ext_cons, getAt, he]
          · simp [get_ext_cons, getAt, h, hj j h]
      · rename_i c w he
        cases k' with
        | nil => simp [get_ext_cons, getAt]
        | cons j r =>
          by_cases h : j = i
          · subst h; simp [get_ext_cons, getAt, he, get_ext_nil]
          · simp [get_ext_cons, getAt, h, hj j h]
      · rename_i ks x he
        cases k' with
        | nil => simp [get_leaf]
        | cons j r =>
          by_cases h : j = i
          · subst h; simp [get_leaf, he]
          · simp [get_leaf, h, hj j h]
      · rfl
  · rfl


theorem get_upd_branch (ch : Fin 16 → Node) (i : Fin 16) (c : Node) (v : Option Bytes) (k' : List Nibble) :
    get (.branch (upd ch i c) v) k' =
      match k' with
      | [] => v
      | j :: r => if j = i then get c r else get (ch j) r := by
  cases k' with
  | nil => rfl
  | cons j r =>
    by_cases h : j = i
    · subst h; simp
    · simp [h, upd_ne _ _ _ _ h]

theorem get_del (t : Node) (k : List Nibble) :
    (del t k = none → get t k = none) ∧
    (∀ t', del t k = some t' → ∀ k', get t' k' = if k' = k then none else get t k') := by
  induction t generalizing k with
  | empty => simp [del]
  | leaf ks v =>
    simp only [del, get_leaf]
    by_cases h : k = ks
    · subst h; simp
    · simp [h]
  | ext ks nx ih =>
    have hd : del (.ext ks nx) k = if cpl k ks < ks.length then none else
        match del nx (k.drop (cpl k ks)) with
        | none => none
        | some .empty => some .empty
        | some (.ext ks2 n2) => some (.ext (ks ++ ks2) n2)
        | some (.leaf ks2 v2) => some (.leaf (ks ++ ks2) v2)
        | some (.branch c w) => some (.ext ks (.branch c w)) := by
      cases k <;> rfl
    rw [hd, get_ext]
    by_cases hp : ks <+: k
    · obtain ⟨r, rfl⟩ := hp
      have hc : ¬ cpl (ks ++ r) ks < ks.length := by rw [cpl_append]; omega
      rw [if_neg hc, cpl_append]
      simp only [List.drop_left', List.prefix_append, if_true]
      obtain ⟨ih1, ih2⟩ := ih r
      cases hdel : del nx r with
      | none => simp [ih1 hdel]
      | some c =>
        have ih2 := ih2 c hdel
        -- semantic value of the rebuilt node equals `ext ks c`
        have key : ∀ k', get (.ext ks c) k' = if k' = ks ++ r then none else get (.ext ks nx) k' := by
          intro k'
          rw [get_ext, get_ext]
          by_cases hp' : ks <+: k'
          · obtain ⟨r', rfl⟩ := hp'
            simp [ih2]
          · have : k' ≠ ks ++ r := by rintro rfl; exact hp' ⟨r, rfl⟩
            simp [hp', this]
        cases c with
        | empty =>
          refine ⟨fun h => (by cases h), fun t' ht' k' => ?_⟩
          cases ht'
          rw [← key k']; simp [get_ext]
        | leaf ks2 v2 =>
          refine ⟨fun h => (by cases h), fun t' ht' k' => ?_⟩
          cases ht'
          rw [← key k']
          rw [get_ext, get_leaf]
          by_cases hp' : ks <+: k'
          · obtain ⟨r', rfl⟩ := hp'
            simp [get_leaf]
          · have : k' ≠ ks ++ ks2 := by rintro rfl; exact hp' ⟨ks2, rfl⟩
            simp [hp', this]
        | ext ks2 n2 =>
          refine ⟨fun h => (by cases h), fun t' ht' k' => ?_⟩
          cases ht'
          rw [← key k']
          rw [get_ext ks, get_ext (ks ++ ks2)]
          by_cases hp' : ks <+: k'
          · obtain ⟨r', rfl⟩ := hp'
            simp [get_ext, List.prefix_append_right_inj]
          · have : ¬ (ks ++ ks2) <+: k' := by rintro ⟨u, rfl⟩; exact hp' ⟨ks2 ++ u, by simp⟩
            simp [hp', this]
        | branch c w =>
          refine ⟨fun h => (by cases h), fun t' ht' k' => ?_⟩
          cases ht'
          exact key k'
    · have hc : cpl k ks < ks.length := (cpl_lt_iff_not_prefix k ks).2 hp
      simp [hc, hp]
  | branch ch v ih =>
    cases k with
    | nil =>
      cases v with
      | none => simp [del]
      | some x =>
        simp [del]
        intro k'
        rw [get_collapse]
        cases k' <;> simp
    | cons i r =>
      simp only [del]
      by_cases he : (ch i).isEmpty = true
      · have := (isEmpty_iff _).1 he
        rw [if_pos he]
        exact ⟨fun _ => (by simp [this]), fun t' h => (by cases h)⟩
      · obtain ⟨ih1, ih2⟩ := ih i r
        simp only [he]
        cases hdel : del (ch i) r with
        | none => simp [ih1 hdel]
        | some c =>
          simp
          intro k'
          rw [get_collapse, get_upd_branch]
          cases k' with
          | nil => simp
          | cons j r' =>
            by_cases h : j = i
            · subst h; simp [ih2 c hdel]
            · simp [h]

theorem get_delete (t : Node) (k k' : List Nibble) :
    get (delete t k) k' = if k' = k then none else get t k' := by
  unfold delete
  obtain ⟨h1, h2⟩ := get_del t k
  cases hd : del t k with
  | none =>
    simp
    by_cases h : k' = k
    · subst h; simp [h1 hd]
    · simp [h]
  | some t' => simpa using h2 t' hd k'

/-! ### normal form is preserved by set -/

theorem two_le_length_of_mem {α : Type} (l : List α) (x y : α) (hx : x ∈ l) (hy : y ∈ l) (hxy : x ≠ y) :
    2 ≤ l.length := by
  match l, hx, hy with
  | [a], hx, hy => simp at hx hy; exact absurd (hx.trans hy.symm) hxy
  | _ :: _ :: _, _, _ => simp

theorem one_le_length_of_mem {α : Type} (l : List α) (x : α) (hx : x ∈ l) : 1 ≤ l.length := by
  cases l with
  | nil => simp at hx
  | cons a l => simp

theorem NFn_ne_empty (t : Node) (h : NFn t) : t ≠ .empty := by
  rintro rfl; exact h

theorem NFn_extOK (t : Node) (h : NFn t) : ExtOK t := by
  induction t with
  | empty => trivial
  | leaf => trivial
  | ext ks nx ih => exact ⟨h.1, ih h.2.2⟩
  | branch ch v ih =>
    intro i
    rcases h.1 i with he | hn
    · rw [he]; trivial
    · exact ih i hn

theorem NF_extOK (t : Node) (h : NF t) : ExtOK t := by
  rcases h with rfl | h
  · trivial
  · exact NFn_extOK t h

theorem set_ne_empty (t : Node) (k : List Nibble) (o : Bytes) : set t k o ≠ .empty := by
  cases t with
  | empty => simp [set]
  | leaf ks v =>
    simp only [set]
    split
    · split <;> simp
    · split
      · split <;> simp
      · split
        · split <;> simp
        · simp
  | ext ks nx =>
    simp only [set]
    split
    · split <;> simp
    · split
      · split <;> simp
      · simp
  | branch ch v => cases k <;> simp [set]

/-- a branch under construction with two distinct entries is in normal form -/
theorem NFn_branch_of (ch : Fin 16 → Node) (v : Option Bytes)
    (hch : ∀ i, ch i = .empty ∨ NFn (ch i)) (har : 2 ≤ branchArity ch v) : NFn (.branch ch v) :=
  ⟨hch, har⟩

theorem arity_two_children (ch : Fin 16 → Node) (v : Option Bytes) (x y : Fin 16) (hxy : x ≠ y)
    (hx : ch x ≠ .empty) (hy : ch y ≠ .empty) : 2 ≤ branchArity ch v := by
  have := two_le_length_of_mem (live ch) x y ((mem_live ch x).2 hx) ((mem_live ch y).2 hy) hxy
  unfold branchArity; omega

theorem arity_child_value (ch : Fin 16 → Node) (o : Bytes) (x : Fin 16)
    (hx : ch x ≠ .empty) : 2 ≤ branchArity ch (some o) := by
  have := one_le_length_of_mem (live ch) x ((mem_live ch x).2 hx)
  unfold branchArity; simp; omega

theorem nf_upd (ch : Fin 16 → Node) (i : Fin 16) (c : Node) (hch : ∀ j, ch j = .empty ∨ NFn (ch j))
    (hc : c = .empty ∨ NFn c) : ∀ j, upd ch i c j = .empty ∨ NFn (upd ch i c j) := by
  intro j
  by_cases h : j = i
  · subst h; simpa using hc
  · rw [upd_ne _ _ _ _ h]; exact hch j

theorem nf_noCh : ∀ j, noCh j = .empty ∨ NFn (noCh j) := fun _ => Or.inl rfl

theorem nfn_ext_branch (p : List Nibble) (ch : Fin 16 → Node) (v : Option Bytes) (hp : p ≠ [])
    (h : NFn (.branch ch v)) : NFn (.ext p (.branch ch v)) := ⟨hp, ⟨_, _, rfl⟩, h⟩

theorem nfn_br_cv (y : Fin 16) (c : Node) (o : Bytes) (hc : NFn c) :
    NFn (.branch (upd noCh y c) (some o)) :=
  ⟨nf_upd _ _ _ nf_noCh (Or.inr hc), arity_child_value _ _ y (by simpa using NFn_ne_empty c hc)⟩

theorem nfn_br_cc (x y : Fin 16) (a b : Node) (hxy : x ≠ y) (ha : NFn a) (hb : NFn b) :
    NFn (.branch (upd (upd noCh x a) y b) none) :=
  ⟨nf_upd _ _ _ (nf_upd _ _ _ nf_noCh (Or.inr ha)) (Or.inr hb),
    arity_two_children _ _ x y hxy (by simpa [upd_ne _ _ _ _ hxy] using NFn_ne_empty a ha)
      (by simpa using NFn_ne_empty b hb)⟩

theorem nfn_leaf (ks : List Nibble) (v : Bytes) : NFn (.leaf ks v) := trivial

theorem nfn_set_leaf (ks : List Nibble) (v : Bytes) (k : List Nibble) (o : Bytes) :
    NFn (set (.leaf ks v) k o) := by
  obtain ⟨p, a, b, rfl, rfl, hc, hne⟩ := cpl_decomp k ks
  simp only [set, hc]
  cases a with
  | nil =>
    cases b with
    | nil => simp [NFn]
    | cons y s =>
      cases p with
      | nil =>
        simp [putNew]
        exact nfn_br_cv y _ o (nfn_leaf _ _)
      | cons q p =>
        simp [putNew]
        exact nfn_ext_branch _ _ _ (by simp) (nfn_br_cv y _ o (nfn_leaf _ _))
  | cons x r =>
    cases b with
    | nil =>
      cases p with
      | nil =>
        simp [putNew]
        exact nfn_br_cv x _ v (nfn_leaf _ _)
      | cons q p =>
        simp
        exact nfn_ext_branch _ _ _ (by simp) (nfn_br_cv x _ v (nfn_leaf _ _))
    | cons y s =>
      have hxy := hne x y r s rfl rfl
      cases p with
      | nil =>
        simp [putNew, hxy]
        exact nfn_br_cc x y _ _ hxy (nfn_leaf _ _) (nfn_leaf _ _)
      | cons q p =>
        simp [putNew, hxy]
        exact nfn_ext_branch _ _ _ (by simp) (nfn_br_cc x y _ _ hxy (nfn_leaf _ _) (nfn_leaf _ _))


theorem nfn_brE1 (a : List Nibble) (y : Nibble) (c : Node) (o : Bytes)
    (ha : ∀ x r, a = x :: r → x ≠ y) (hc : NFn c) :
    NFn (.branch (upd (putNew (noCh, none) a o).1 y c) (putNew (noCh, none) a o).2) := by
  cases a with
  | nil => exact nfn_br_cv y c o hc
  | cons x r => exact nfn_br_cc x y _ _ (ha x r rfl) (nfn_leaf _ _) hc

theorem nfn_brE2 (a : List Nibble) (y : Nibble) (c : Node) (o : Bytes)
    (ha : ∀ x r, a = x :: r → x ≠ y) (hc : NFn c) :
    NFn (.branch (putNew (upd noCh y c, none) a o).1 (putNew (upd noCh y c, none) a o).2) := by
  cases a with
  | nil => exact nfn_br_cv y c o hc
  | cons x r => exact nfn_br_cc y x _ _ (Ne.symm (ha x r rfl)) hc (nfn_leaf _ _)

theorem nfn_ite_ext (s : List Nibble) (nx : Node) (hb : ∃ c w, nx = .branch c w) (hn : NFn nx) :
    NFn (if s = [] then nx else .ext s nx) := by
  by_cases h : s = []
  · simp [h, hn]
  · simp only [h, if_false]; exact ⟨h, hb, hn⟩

theorem set_branch_is_branch (ch : Fin 16 → Node) (v : Option Bytes) (k : List Nibble) (o : Bytes) :
    ∃ c w, set (.branch ch v) k o = .branch c w := by
  cases k <;> simp [set]

theorem length_filter_mono {α : Type} (l : List α) (p q : α → Bool)
    (h : ∀ a, p a = true → q a = true) : (l.filter p).length ≤ (l.filter q).length := by
  induction l with
  | nil => simp
  | cons a l ih =>
    simp only [List.filter_cons]
    by_cases hp : p a = true
    · simp [hp, h a hp]; exact ih
    · by_cases hq : q a = true <;> simp [hp, hq] <;> omega

theorem live_upd_ge (ch : Fin 16 → Node) (i : Fin 16) (c : Node) (hc : c ≠ .empty) :
    (live ch).length ≤ (live (upd ch i c)).length := by
  unfold live
  apply length_filter_mono
  intro j hj
  by_cases h : j = i
  · subst h; simpa [← isEmpty_iff] using hc
  · rw [upd_ne _ _ _ _ h]; exact hj

theorem nfn_set (t : Node) (h : NF t) (k : List Nibble) (o : Bytes) : NFn (set t k o) := by
  induction t generalizing k with
  | empty => simp [set, NFn]
  | leaf ks v => exact nfn_set_leaf ks v k o
  | ext ks nx ih =>
    rcases h with h | h
    · cases h
    obtain ⟨hks, hb, hnx⟩ := h
    obtain ⟨p, a, b, rfl, rfl, hc, hne⟩ := cpl_decomp k ks
    simp only [set, hc]
    cases b with
    | nil =>
      have hp : p ≠ [] := by simpa using hks
      simp [hp]
      obtain ⟨c, w, rfl⟩ := hb
      obtain ⟨c', w', he⟩ := set_branch_is_branch c w a o
      have := ih (Or.inr hnx) a
      rw [he] at this ⊢
      exact nfn_ext_branch _ _ _ hp this
    | cons y s =>
      have ha : ∀ x r, a = x :: r → x ≠ y := fun x r h => hne x y r s h rfl
      cases p with
      | nil =>
        simp only [List.length_nil, List.nil_append, if_true]
        cases s with
        | nil => exact nfn_brE1 a y nx o ha hnx
        | cons z s => exact nfn_brE1 a y _ o ha ⟨by simp, hb, hnx⟩
      | cons q p =>
        simp only [List.length_cons, Nat.add_one_ne_zero, if_false]
        have e1 : List.drop (p.length + 1) (q :: p ++ y :: s) = y :: s := by simp
        have e2 : List.take (p.length + 1) (q :: p ++ y :: s) = q :: p := by simp
        have e3 : List.drop (p.length + 1) (q :: p ++ a) = a := by simp
        have e4 : p.length + 1 < (q :: p ++ y :: s).length := by simp
        rw [if_pos e4, e1, e3, e2]
        exact nfn_ext_branch _ _ _ (by simp) (nfn_brE2 a y _ o ha (nfn_ite_ext s nx hb hnx))
  | branch ch v ih =>
    rcases h with h | h
    · cases h
    obtain ⟨hch, har⟩ := h
    cases k with
    | nil =>
      simp only [set]
      refine ⟨hch, ?_⟩
      unfold branchArity at har ⊢
      cases v <;> simp at har ⊢ <;> omega
    | cons i r =>
      simp only [set]
      have hc : NFn (set (ch i) r o) := ih i (by rcases hch i with e | e; exact Or.inl e; exact Or.inr e) r
      refine ⟨nf_upd _ _ _ hch (Or.inr hc), ?_⟩
      have := live_upd_ge ch i _ (set_ne_empty (ch i) r o)
      unfold branchArity at har ⊢
      omega

/-! ### normal form is preserved by delete -/

theorem length_filter_le_add {α : Type} (l : List α) (p q r : α → Bool)
    (h : ∀ a, p a = true → q a = true ∨ r a = true) :
    (l.filter p).length ≤ (l.filter q).length + (l.filter r).length := by
  induction l with
  | nil => simp
  | cons a l ih =>
    simp only [List.filter_cons]
    by_cases hp : p a = true
    · rcases h a hp with hq | hr
      · by_cases hr : r a = true <;> simp [hp, hq, hr] <;> omega
      · by_cases hq : q a = true <;> simp [hp, hq, hr] <;> omega
    · by_cases hq : q a = true <;> by_cases hr : r a = true <;> simp [hp, hq, hr] <;> omega

theorem filter_eq_finRange_le_one (i : Fin 16) :
    ((List.finRange 16).filter (fun j => decide (j = i))).length ≤ 1 := by
  revert i; decide

theorem live_upd_le (ch : Fin 16 → Node) (i : Fin 16) (c : Node) :
    (live ch).length ≤ (live (upd ch i c)).length + 1 := by
  have h1 := length_filter_le_add (List.finRange 16) (fun j => !(ch j).isEmpty)
    (fun j => !(upd ch i c j).isEmpty) (fun j => decide (j = i)) (by
      intro j hj
      by_cases h : j = i
      · right; simp [h]
      · left; rw [upd_ne _ _ _ _ h]; exact hj)
  have h2 := filter_eq_finRange_le_one i
  unfold live
  omega


theorem nfn_collapse (ch : Fin 16 → Node) (v : Option Bytes)
    (hch : ∀ j, ch j = .empty ∨ NFn (ch j)) (har : 1 ≤ branchArity ch v) : NFn (collapse ch v) := by
  unfold collapse
  split
  · rename_i hl
    split
    · trivial
    · simp [branchArity, hl] at har
  · rename_i i hl
    split
    · exact ⟨hch, by simp [branchArity, hl]⟩
    · have hi : ch i ≠ .empty := (mem_live ch i).1 (by simp [hl])
      have hn : NFn (ch i) := by
        rcases hch i with e | e
        · exact absurd e hi
        · exact e
      split
      · rename_i ks n he
        rw [he] at hn
        exact ⟨by simp, hn.2.1, hn.2.2⟩
      · rename_i c w he
        rw [he] at hn
        exact ⟨by simp, ⟨_, _, rfl⟩, hn⟩
      · trivial
      · rename_i he
        exact absurd he hi
  · rename_i h0 h1
    refine ⟨hch, ?_⟩
    unfold branchArity
    match hl : live ch with
    | [] => exact absurd hl h0
    | [i] => exact absurd hl (h1 i)
    | _ :: _ :: _ => simp; omega

theorem nf_del (t : Node) (h : NFn t) (k : List Nibble) (t' : Node) (hd : del t k = some t') :
    NF t' ∧ delPanics t k = false := by
  induction t generalizing k t' with
  | empty => exact absurd h (by simp [NFn])
  | leaf ks v =>
    simp only [del] at hd
    split at hd
    · cases hd; exact ⟨Or.inl rfl, by simp [delPanics]⟩
    · cases hd
  | ext ks nx ih =>
    obtain ⟨hks, hb, hnx⟩ := h
    have hd' : del (.ext ks nx) k = if cpl k ks < ks.length then none else
        match del nx (k.drop (cpl k ks)) with
        | none => none
        | some .empty => some .empty
        | some (.ext ks2 n2) => some (.ext (ks ++ ks2) n2)
        | some (.leaf ks2 v2) => some (.leaf (ks ++ ks2) v2)
        | some (.branch c w) => some (.ext ks (.branch c w)) := by
      cases k <;> rfl
    have hp' : delPanics (.ext ks nx) k = if cpl k ks < ks.length then false else
        delPanics nx (k.drop (cpl k ks)) := by
      cases k <;> rfl
    rw [hd'] at hd
    rw [hp']
    split at hd
    · cases hd
    · rename_i hc
      rw [if_neg hc]
      cases hdel : del nx (k.drop (cpl k ks)) with
      | none => rw [hdel] at hd; cases hd
      | some c =>
        obtain ⟨hnf, hpan⟩ := ih hnx _ c hdel
        refine ⟨?_, hpan⟩
        rw [hdel] at hd
        cases c with
        | empty => cases hd; exact Or.inl rfl
        | leaf ks2 v2 => cases hd; exact Or.inr trivial
        | ext ks2 n2 =>
          cases hd
          rcases hnf with e | e
          · cases e
          · exact Or.inr ⟨by simp [hks], e.2.1, e.2.2⟩
        | branch c w =>
          cases hd
          rcases hnf with e | e
          · cases e
          · exact Or.inr ⟨hks, ⟨_, _, rfl⟩, e⟩
  | branch ch v ih =>
    obtain ⟨hch, har⟩ := h
    cases k with
    | nil =>
      cases v with
      | none => simp [del] at hd
      | some x =>
        simp only [del] at hd
        cases hd
        have h1 : 1 ≤ (live ch).length := by
          unfold branchArity at har; simp at har; omega
        refine ⟨Or.inr (nfn_collapse ch none hch (by unfold branchArity; simp; omega)), ?_⟩
        simp only [delPanics]
        cases hl : live ch with
        | nil => simp [hl] at h1
        | cons a l => simp
    | cons i r =>
      simp only [del] at hd
      split at hd
      · cases hd
      · rename_i he
        cases hdel : del (ch i) r with
        | none => rw [hdel] at hd; cases hd
        | some c =>
          rw [hdel] at hd
          cases hd
          have hi : NFn (ch i) := by
            rcases hch i with e | e
            · rw [e] at he; simp [Node.isEmpty] at he
            · exact e
          obtain ⟨hnf, hpan⟩ := ih i hi r c hdel
          have hch' := nf_upd ch i c hch hnf
          have hle := live_upd_le ch i c
          have har' : 1 ≤ branchArity (upd ch i c) v := by
            unfold branchArity at har ⊢
            cases v <;> simp at har ⊢ <;> omega
          refine ⟨Or.inr (nfn_collapse _ v hch' har'), ?_⟩
          simp only [delPanics, he, hpan, hdel]
          unfold branchArity at har'
          cases v with
          | some x => simp
          | none =>
            simp at har'
            cases hl : live (upd ch i c) with
            | nil => simp [hl] at har'
            | cons a l => simp

theorem del_none_no_panic (t : Node) (k : List Nibble) (hd : del t k = none) : delPanics t k = false := by
  induction t generalizing k with
  | empty => simp [delPanics]
  | leaf ks v => simp [delPanics]
  | ext ks nx ih =>
    have hd' : del (.ext ks nx) k = if cpl k ks < ks.length then none else
        match del nx (k.drop (cpl k ks)) with
        | none => none
        | some .empty => some .empty
        | some (.ext ks2 n2) => some (.ext (ks ++ ks2) n2)
        | some (.leaf ks2 v2) => some (.leaf (ks ++ ks2) v2)
        | some (.branch c w) => some (.ext ks (.branch c w)) := by
      cases k <;> rfl
    have hp' : delPanics (.ext ks nx) k = if cpl k ks < ks.length then false else
        delPanics nx (k.drop (cpl k ks)) := by
      cases k <;> rfl
    rw [hd'] at hd
    rw [hp']
    split
    · rfl
    · rename_i hc
      rw [if_neg hc] at hd
      apply ih
      cases hdel : del nx (k.drop (cpl k ks)) with
      | none => rfl
      | some c => rw [hdel] at hd; cases c <;> cases hd
  | branch ch v ih =>
    cases k with
    | nil => cases v <;> simp [del, delPanics] at hd ⊢
    | cons i r =>
      simp only [del] at hd
      simp only [delPanics]
      split
      · rfl
      · rename_i he
        rw [if_neg he] at hd
        cases hdel : del (ch i) r with
        | none => simp [ih i r hdel]
        | some c => rw [hdel] at hd; cases hd

theorem nf_delete (t : Node) (h : NF t) (k : List Nibble) : NF (delete t k) ∧ delPanics t k = false := by
  unfold delete
  cases hd : del t k with
  | none => exact ⟨by simpa using h, del_none_no_panic t k hd⟩
  | some t' =>
    rcases h with rfl | h
    · simp [del] at hd
    · simpa using nf_del t h k t' hd


/-! ### canonicity -/

theorem live_nodup (ch : Fin 16 → Node) : (live ch).Nodup := by
  unfold live
  exact List.Pairwise.filter _ (List.nodup_finRange 16)

theorem nf_child (ch : Fin 16 → Node) (hch : ∀ j, ch j = .empty ∨ NFn (ch j)) (i : Fin 16)
    (hi : i ∈ live ch) : NFn (ch i) := by
  rcases hch i with e | e
  · exact absurd e ((mem_live ch i).1 hi)
  · exact e

theorem nfn_has_key (t : Node) (h : NFn t) : ∃ k v, get t k = some v := by
  induction t with
  | empty => exact absurd h (by simp [NFn])
  | leaf ks v => exact ⟨ks, v, by simp [get_leaf]⟩
  | ext ks nx ih =>
    obtain ⟨k, v, hk⟩ := ih h.2.2
    exact ⟨ks ++ k, v, by simp [get_ext, hk]⟩
  | branch ch v ih =>
    obtain ⟨hch, har⟩ := h
    cases hl : live ch with
    | nil =>
      unfold branchArity at har; rw [hl] at har
      cases v <;> simp at har
    | cons i l =>
      have hi : i ∈ live ch := by simp [hl]
      obtain ⟨k, w, hk⟩ := ih i (nf_child ch hch i hi)
      exact ⟨i :: k, w, by simpa using hk⟩

/-- a normal-form branch has no common first nibble: it holds a value itself (and a longer key),
    or keys below two different children -/
theorem nfn_branch_spread (ch : Fin 16 → Node) (v : Option Bytes) (h : NFn (.branch ch v)) :
    (∃ x i k w, v = some x ∧ get (ch i) k = some w) ∨
    (∃ i j k k' w w', i ≠ j ∧ get (ch i) k = some w ∧ get (ch j) k' = some w') := by
  obtain ⟨hch, har⟩ := h
  cases v with
  | some x =>
    left
    cases hl : live ch with
    | nil => unfold branchArity at har; rw [hl] at har; simp at har
    | cons i l =>
      have hi : i ∈ live ch := by simp [hl]
      obtain ⟨k, w, hk⟩ := nfn_has_key _ (nf_child ch hch i hi)
      exact ⟨x, i, k, w, rfl, hk⟩
  | none =>
    right
    have hnd := live_nodup ch
    match hl : live ch with
    | [] => unfold branchArity at har; rw [hl] at har; simp at har
    | [i] => unfold branchArity at har; rw [hl] at har; simp at har
    | i :: j :: l =>
      rw [hl] at hnd
      have hij : i ≠ j := by
        intro e; subst e; simp at hnd
      have hi : i ∈ live ch := by simp [hl]
      have hj : j ∈ live ch := by simp [hl]
      obtain ⟨k, w, hk⟩ := nfn_has_key _ (nf_child ch hch i hi)
      obtain ⟨k', w', hk'⟩ := nfn_has_key _ (nf_child ch hch j hj)
      exact ⟨i, j, k, k', w, w', hij, hk, hk'⟩

theorem prefix_of_both (ks ks' : List Nibble) (a b : Nibble) (r s : List Nibble) (hab : a ≠ b)
    (h1 : ks' <+: ks ++ a :: r) (h2 : ks' <+: ks ++ b :: s) : ks' <+: ks := by
  induction ks generalizing ks' with
  | nil =>
    cases ks' with
    | nil => exact List.prefix_refl _
    | cons d ks' =>
      simp [List.cons_prefix_cons] at h1 h2
      exact absurd (h1.1.symm.trans h2.1) hab
  | cons c ks ih =>
    cases ks' with
    | nil => exact List.nil_prefix
    | cons d ks' =>
      simp only [List.cons_append, List.cons_prefix_cons] at h1 h2 ⊢
      exact ⟨h1.1, ih ks' h1.2 h2.2⟩

/-- all keys below an extension start with its keys -/
theorem ext_key_prefix (ks : List Nibble) (nx : Node) (k : List Nibble) (v : Bytes)
    (h : get (.ext ks nx) k = some v) : ks <+: k := by
  rw [get_ext] at h
  by_cases hp : ks <+: k
  · exact hp
  · simp [hp] at h

/-- the keys of an extension in normal form have exactly `ks` as their longest common prefix -/
theorem ext_prefix_le (ks : List Nibble) (nx : Node) (h : NFn (.ext ks nx)) (ks' : List Nibble)
    (hall : ∀ k v, get (.ext ks nx) k = some v → ks' <+: k) : ks' <+: ks := by
  obtain ⟨_, ⟨c, w, rfl⟩, hn⟩ := h
  rcases nfn_branch_spread c w hn with ⟨x, i, k, w', rfl, hk⟩ | ⟨i, j, k, k', w1, w2, hij, hk, hk'⟩
  · have := hall ks x (by simp [get_ext])
    exact this
  · have h1 := hall (ks ++ i :: k) w1 (by simp [get_ext, hk])
    have h2 := hall (ks ++ j :: k') w2 (by simp [get_ext, hk'])
    exact prefix_of_both ks ks' i j k k' hij h1 h2

theorem prefix_antisymm (a b : List Nibble) (h1 : a <+: b) (h2 : b <+: a) : a = b := by
  obtain ⟨r, rfl⟩ := h1
  obtain ⟨s, hs⟩ := h2
  have : (a ++ r ++ s).length = a.length := by rw [hs]
  simp at this
  have hr : r = [] := by cases r <;> simp_all
  simp [hr]

/-- a leaf holds one key; extensions and branches in normal form hold at least two -/
theorem nfn_two_keys (t : Node) (h : NFn t) (hl : ∀ ks v, t ≠ .leaf ks v) :
    ∃ k1 k2 v1 v2, k1 ≠ k2 ∧ get t k1 = some v1 ∧ get t k2 = some v2 := by
  have hbr : ∀ c w, NFn (.branch c w) → ∃ k1 k2 v1 v2, k1 ≠ k2 ∧ get (.branch c w) k1 = some v1 ∧
      get (.branch c w) k2 = some v2 := by
    intro c w hn
    rcases nfn_branch_spread c w hn with ⟨x, i, k, w', rfl, hk⟩ | ⟨i, j, k, k', w1, w2, hij, hk, hk'⟩
    · exact ⟨[], i :: k, x, w', by simp, by simp, by simpa using hk⟩
    · exact ⟨i :: k, j :: k', w1, w2, by simp [hij], by simpa using hk, by simpa using hk'⟩
  cases t with
  | empty => exact absurd h (by simp [NFn])
  | leaf ks v => exact absurd rfl (hl ks v)
  | ext ks nx =>
    obtain ⟨_, ⟨c, w, rfl⟩, hn⟩ := h
    obtain ⟨k1, k2, v1, v2, hne, h1, h2⟩ := hbr c w hn
    exact ⟨ks ++ k1, ks ++ k2, v1, v2, by simpa using hne, by simp [get_ext, h1], by simp [get_ext, h2]⟩
  | branch c w => exact hbr c w h

theorem leaf_not_two_keys (ks : List Nibble) (v : Bytes) (k1 k2 : List Nibble) (v1 v2 : Bytes)
    (hne : k1 ≠ k2) (h1 : get (.leaf ks v) k1 = some v1) (h2 : get (.leaf ks v) k2 = some v2) : False := by
  rw [get_leaf] at h1 h2
  by_cases e1 : k1 = ks
  · by_cases e2 : k2 = ks
    · exact hne (e1.trans e2.symm)
    · simp [e2] at h2
  · simp [e1] at h1

theorem ext_branch_absurd (ks : List Nibble) (nx : Node) (ch : Fin 16 → Node) (v : Option Bytes)
    (hks : ks ≠ []) (hb : NFn (.branch ch v))
    (he : ∀ k, get (.ext ks nx) k = get (.branch ch v) k) : False := by
  have hall : ∀ k w, get (.branch ch v) k = some w → ks <+: k := by
    intro k w hk
    exact ext_key_prefix ks nx k w (by rw [he k]; exact hk)
  rcases nfn_branch_spread ch v hb with ⟨x, i, k, w', rfl, hk⟩ | ⟨i, j, k, k', w1, w2, hij, hk, hk'⟩
  · have := hall [] x (by simp)
    simp at this
    exact hks this
  · have h1 := hall (i :: k) w1 (by simpa using hk)
    have h2 := hall (j :: k') w2 (by simpa using hk')
    have := prefix_of_both [] ks i j k k' hij (by simpa using h1) (by simpa using h2)
    simp at this
    exact hks this

theorem nf_canonical_aux (t1 : Node) (h1 : NFn t1) (t2 : Node) (h2 : NFn t2)
    (he : ∀ k, get t1 k = get t2 k) : t1 = t2 := by
  induction t1 generalizing t2 with
  | empty => exact absurd h1 (by simp [NFn])
  | leaf ks v =>
    cases t2 with
    | empty => exact absurd h2 (by simp [NFn])
    | leaf ks' v' =>
      have := he ks
      simp [get_leaf] at this
      by_cases e : ks = ks'
      · subst e; simp at this; rw [this]
      · simp [e] at this
    | ext ks' nx' =>
      obtain ⟨k1, k2, v1, v2, hne, g1, g2⟩ := nfn_two_keys _ h2 (by simp)
      exact (leaf_not_two_keys ks v k1 k2 v1 v2 hne (by rw [he]; exact g1) (by rw [he]; exact g2)).elim
    | branch ch' v' =>
      obtain ⟨k1, k2, v1, v2, hne, g1, g2⟩ := nfn_two_keys _ h2 (by simp)
      exact (leaf_not_two_keys ks v k1 k2 v1 v2 hne (by rw [he]; exact g1) (by rw [he]; exact g2)).elim
  | ext ks nx ih =>
    cases t2 with
    | empty => exact absurd h2 (by simp [NFn])
    | leaf ks' v' =>
      obtain ⟨k1, k2, v1, v2, hne, g1, g2⟩ := nfn_two_keys _ h1 (by simp)
      exact (leaf_not_two_keys ks' v' k1 k2 v1 v2 hne (by rw [← he]; exact g1) (by rw [← he]; exact g2)).elim
    | ext ks' nx' =>
      have p1 : ks' <+: ks := ext_prefix_le ks nx h1 ks' (fun k w hk =>
        ext_key_prefix ks' nx' k w (by rw [← he]; exact hk))
      have p2 : ks <+: ks' := ext_prefix_le ks' nx' h2 ks (fun k w hk =>
        ext_key_prefix ks nx k w (by rw [he]; exact hk))
      have e := prefix_antisymm ks ks' p2 p1
      subst e
      have : nx = nx' := by
        apply ih h1.2.2 nx' h2.2.2
        intro r
        have := he (ks ++ r)
        simpa [get_ext] using this
      rw [this]
    | branch ch' v' => exact (ext_branch_absurd ks nx ch' v' h1.1 h2 he).elim
  | branch ch v ih =>
    cases t2 with
    | empty => exact absurd h2 (by simp [NFn])
    | leaf ks' v' =>
      obtain ⟨k1, k2, v1, v2, hne, g1, g2⟩ := nfn_two_keys _ h1 (by simp)
      exact (leaf_not_two_keys ks' v' k1 k2 v1 v2 hne (by rw [← he]; exact g1) (by rw [← he]; exact g2)).elim
    | ext ks' nx' => exact (ext_branch_absurd ks' nx' ch v h2.1 h1 (fun k => (he k).symm)).elim
    | branch ch' v' =>
      have hv : v = v' := by simpa using he []
      subst hv
      have hc : ch = ch' := by
        funext i
        have hi : ∀ r, get (ch i) r = get (ch' i) r := fun r => by simpa using he (i :: r)
        rcases h1.1 i with e1 | n1
        · rcases h2.1 i with e2 | n2
          · rw [e1, e2]
          · obtain ⟨k, w, hk⟩ := nfn_has_key _ n2
            have := hi k
            rw [e1, hk] at this
            simp at this
        · rcases h2.1 i with e2 | n2
          · obtain ⟨k, w, hk⟩ := nfn_has_key _ n1
            have := hi k
            rw [e2, hk] at this
            simp at this
          · exact ih i n1 (ch' i) n2 hi
      rw [hc]

theorem nf_canonical (t1 t2 : Node) (h1 : NF t1) (h2 : NF t2)
    (he : ∀ k, get t1 k = get t2 k) : t1 = t2 := by
  rcases h1 with rfl | h1
  · rcases h2 with rfl | h2
    · rfl
    · obtain ⟨k, w, hk⟩ := nfn_has_key _ h2
      have := he k
      rw [hk] at this
      simp at this
  · rcases h2 with rfl | h2
    · obtain ⟨k, w, hk⟩ := nfn_has_key _ h1
      have := he k
      rw [hk] at this
      simp at this
    · exact nf_canonical_aux t1 h1 t2 h2 he

end Goloop.C17
