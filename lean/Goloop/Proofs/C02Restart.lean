/-
  Proofs/C02Restart — WAL replay keeps everything but (hvs, round, step, lock, current block);
  the state `Start` builds from ANY durable trace re-establishes the running-machine invariants.
-/
import Goloop.Proofs.C02Aux
namespace Goloop.C01

/-- fields the WAL replay never touches -/
def rproj (s : S) : Nat × Nat × Nat × Nat × List Eff × Bool × Pend × Bool :=
  (s.n, s.me, s.height, s.dbHeight, s.eff, s.stuck, s.pend, s.started)

theorem rproj_hvsAdd (s : S) (m : VoteRec) : rproj (s.hvsAdd m).2 = rproj s := by
  unfold S.hvsAdd; simp only []; split <;> rfl

theorem rproj_addVotes (s : S) (vl : List VoteRec) : rproj (addVotes s vl) = rproj s := by
  induction vl generalizing s with
  | nil => rfl
  | cons v t ih =>
    unfold addVotes
    split
    · exact ih s
    · split
      · exact ih s
      · rw [ih, rproj_hvsAdd]

theorem rproj_addVotesC (s : S) (vl : List VoteRec) : rproj (applyCommitWAL.addVotesC s vl) = rproj s := by
  induction vl generalizing s with
  | nil => rfl
  | cons v t ih =>
    unfold applyCommitWAL.addVotesC
    split
    · exact ih s
    · rw [ih, rproj_hvsAdd]

theorem rproj_advanceByList (s : S) (v : VoteRec) : rproj (advanceByList s v) = rproj s := by
  unfold advanceByList; simp only []
  split
  · rfl
  · split
    · split <;> rfl
    · rfl

theorem rproj_applyRoundWAL (s : S) (W : List Rec) : rproj (applyRoundWAL s W) = rproj s := by
  induction W generalizing s with
  | nil => rfl
  | cons r t ih =>
    cases r with
    | msg m =>
      cases m with
      | proposal sg h r b pol =>
        unfold applyRoundWAL
        split
        · exact ih s
        · split
          · exact ih s
          · split
            · rw [ih]; rfl
            · exact ih s
      | vote m =>
        unfold applyRoundWAL
        split
        · exact ih s
        · split
          · exact ih s
          · split
            · exact ih s
            · simp only []
              split
              · rw [ih]; exact rproj_hvsAdd s m
              · rw [ih]; exact rproj_hvsAdd s m
    | voteList vl =>
      unfold applyRoundWAL
      simp only []
      split
      · rw [ih]; exact rproj_addVotes s _
      · rw [ih, rproj_advanceByList]; exact rproj_addVotes s _
    | blockPart h b => unfold applyRoundWAL; exact ih s

theorem applyLockWAL_keep (s : S) (bp last : Option (Blk × Nat)) (W : List Rec) :
    rproj (applyLockWAL s bp last W) = rproj s ∧
    le2 (s.round, s.step) ((applyLockWAL s bp last W).round, (applyLockWAL s bp last W).step) := by
  induction W generalizing s bp last with
  | nil =>
    unfold applyLockWAL
    split <;> exact ⟨rfl, by unfold le2; simp⟩
  | cons r t ih =>
    cases r with
    | msg m => unfold applyLockWAL; exact ih s bp last
    | voteList vl =>
      cases vl with
      | nil => unfold applyLockWAL; exact ih s bp last
      | cons v vs =>
        unfold applyLockWAL
        simp only []
        have hk := rproj_addVotes s (v :: vs)
        have hr := (addVotes_keep s (v :: vs)).2
        split
        · have := ih (addVotes s (v :: vs)) bp last
          refine ⟨by rw [this.1, hk], ?_⟩
          have h2 := this.2
          unfold le2 at *; simp only [] at *; omega
        · have ha := advanceByList_keep (addVotes s (v :: vs)) v
          have := ih (advanceByList (addVotes s (v :: vs)) v) (lockBp (addVotes s (v :: vs)) v bp) last
          refine ⟨by rw [this.1, rproj_advanceByList, hk], ?_⟩
          have h2 := this.2
          have h3 := ha.2
          unfold le2 at *; simp only [] at *; omega
    | blockPart h b =>
      unfold applyLockWAL
      split
      · exact ih s bp last
      · split
        · exact ih s _ last
        · split
          · exact ih s _ _
          · exact ih s _ last

theorem addVotesC_keep (s : S) (vl : List VoteRec) :
    (applyCommitWAL.addVotesC s vl).round = s.round ∧ (applyCommitWAL.addVotesC s vl).step = s.step := by
  induction vl generalizing s with
  | nil => exact ⟨rfl, rfl⟩
  | cons v t ih =>
    unfold applyCommitWAL.addVotesC
    split
    · exact ih s
    · have h1 := hvsAdd_keep s v
      have h2 := ih (s.hvsAdd v).2
      omega

theorem applyCommitWAL_keep (s : S) (W : List Rec) :
    rproj (applyCommitWAL s W) = rproj s ∧
    le2 (s.round, s.step) ((applyCommitWAL s W).round, (applyCommitWAL s W).step) := by
  induction W generalizing s with
  | nil => unfold applyCommitWAL; exact ⟨rfl, by unfold le2; simp⟩
  | cons r t ih =>
    cases r with
    | msg m => unfold applyCommitWAL; exact ih s
    | blockPart h b => unfold applyCommitWAL; exact ih s
    | voteList vl =>
      cases vl with
      | nil => unfold applyCommitWAL; exact ih s
      | cons v vs =>
        unfold applyCommitWAL
        split
        · simp only []
          have hk := rproj_addVotesC s (v :: vs)
          have hr := addVotesC_keep s (v :: vs)
          have ha := advanceByList_keep (applyCommitWAL.addVotesC s (v :: vs)) v
          have := ih (advanceByList (applyCommitWAL.addVotesC s (v :: vs)) v)
          refine ⟨by rw [this.1, rproj_advanceByList, hk], ?_⟩
          have h2 := this.2
          have h3 := ha.2
          unfold le2 at *; simp only [] at *; omega
        · exact ih s


/-! ### the global invariant, over runs WITH crash / restart -/

structure Inv (me n : Nat) (s : S) : Prop where
  hme : s.me = me
  hn : s.n = n
  tr : TraceInv me n s.eff
  db : s.dbHeight = lastFinalizedHeight s.eff
  inc : (sentOf s.eff).Pairwise msgLt
  run : s.started = false ∨ (Core s ∧ Aux me n s)

theorem inv_of_running {me n : Nat} {s : S} (hc : Core s) (ha : Aux me n s) : Inv me n s :=
  ⟨ha.hme, ha.hn, ha.tr, ha.db, hc.inc, Or.inr ⟨hc, ha⟩⟩

/-- the state `Start` builds before the dispatch -/
def replayed (s : S) : S :=
  let s0 : S := { n := s.n, me := s.me, dbHeight := s.dbHeight, eff := s.eff, bpm := [], stuck := s.stuck }
  let s1 := s0.resetForNewHeight (s0.dbHeight + 1)
  let s2 := applyRoundWAL s1 (walDurable .round s1.eff)
  let s3 := applyLockWAL s2 none none (walDurable .lock s2.eff)
  let s4 := applyCommitWAL s3 (walDurable .commit s3.eff)
  { s4 with started := true }

theorem start_eq (s : S) (h : s.started = false) :
    start s =
      (let s := replayed s
       if s.step == stNewHeight && s.round == 0 then
         enterPropose fuel0 (s.resetForNewStep stTransactionWait)
       else if s.step == stNewHeight && s.round > 0 then enterPropose fuel0 s
       else if s.step == stPropose then enterPrevote fuel0 s
       else if s.step == stPrevote then
         (if (votesFor s.hvs s.round .prevote).hasOverTwoThirds s.n then enterPrevoteWait fuel0 s else s)
       else if s.step == stPrecommit then
         (if (votesFor s.hvs s.round .precommit).hasOverTwoThirds s.n then enterPrecommitWait fuel0 s else s)
       else s) := by
  unfold start replayed
  rw [if_neg (by simp [h])]

theorem replayed_spec {me n : Nat} (s : S) (hi : Inv me n s) :
    Core (replayed s) ∧ Aux me n (replayed s) := by
  -- the fresh state after resetForNewHeight
  let s0 : S := { n := s.n, me := s.me, dbHeight := s.dbHeight, eff := s.eff, bpm := [], stuck := s.stuck }
  let s1 := s0.resetForNewHeight (s0.dbHeight + 1)
  have e1 : rproj s1 = (s.n, s.me, s.dbHeight + 1, s.dbHeight, s.eff, s.stuck, Pend.none, false) := rfl
  have r1 : s1.round = 0 ∧ s1.step = 0 := ⟨rfl, rfl⟩
  let s2 := applyRoundWAL s1 (walDurable .round s1.eff)
  have e2 : rproj s2 = rproj s1 := rproj_applyRoundWAL _ _
  let s3 := applyLockWAL s2 none none (walDurable .lock s2.eff)
  have k3 := applyLockWAL_keep s2 none none (walDurable .lock s2.eff)
  let s4 := applyCommitWAL s3 (walDurable .commit s3.eff)
  have k4 := applyCommitWAL_keep s3 (walDurable .commit s3.eff)
  have e4 : rproj s4 = (s.n, s.me, s.dbHeight + 1, s.dbHeight, s.eff, s.stuck, Pend.none, false) := by
    rw [k4.1, k3.1, e2, e1]
  have hrep : replayed s = { s4 with started := true } := rfl
  unfold rproj at e4
  simp only [Prod.mk.injEq] at e4
  obtain ⟨f1, f2, f3, f4, f5, f6, f7, _⟩ := e4
  have hfullD := hi.tr.dbs s.eff.length
  have hfullH := hi.tr.hb s.eff.length
  rw [List.take_length] at hfullD hfullH
  rw [hrep]
  constructor
  · -- Core
    refine ⟨?_, ?_, ?_, ?_⟩
    · intro m hm
      simp only [ctrl] at hm ⊢
      rw [f5] at hm
      have hh := hfullH m hm
      have hsg := hi.tr.sg m hm
      have hin := hfullD _ hm
      rw [f3, hi.db]
      cases m with
      | vote v =>
        simp only [msgHeight, msgSigner] at hh hsg
        by_cases hlt : v.height < lastFinalizedHeight s.eff + 1
        · unfold lexLe msgKey voteKey; simp only []; omega
        · have heq : v.height = lastFinalizedHeight s.eff + 1 := by omega
          have hdom := applyRoundWAL_dominates s1 (walDurable .round s1.eff) v hin
            (by show v.height = s.dbHeight + 1; rw [hi.db]; exact heq)
            (by show v.signer = s.me; rw [hi.hme]; exact hsg.1)
            (by show s.me < s.n; rw [hi.hme, hi.hn]; exact hsg.2 v rfl)
          have hdom : le2 (v.round, mstepOf v.typ) (s2.round, s2.step) := hdom
          have m3 : le2 (s2.round, s2.step) (s3.round, s3.step) := k3.2
          have m4 : le2 (s3.round, s3.step) (s4.round, s4.step) := k4.2
          unfold le2 at hdom m3 m4
          unfold lexLe msgKey voteKey
          simp only [] at hdom m3 m4 ⊢
          omega
      | proposal sg h r b pol =>
        simp only [msgHeight, msgSigner] at hh hsg
        by_cases hlt : h < lastFinalizedHeight s.eff + 1
        · unfold lexLe msgKey; simp only []; omega
        · have heq : h = lastFinalizedHeight s.eff + 1 := by omega
          have hdom := applyRoundWAL_dominates_prop s1 (walDurable .round s1.eff) sg h r b pol hin
            (by show h = s.dbHeight + 1; rw [hi.db]; exact heq)
            (by show sg = s.me; rw [hi.hme]; exact hsg.1)
          have hdom : le2 (r, stPropose) (s2.round, s2.step) := hdom
          have m3 : le2 (s2.round, s2.step) (s3.round, s3.step) := k3.2
          have m4 : le2 (s3.round, s3.step) (s4.round, s4.step) := k4.2
          unfold le2 at hdom m3 m4
          unfold lexLe msgKey
          simp only [] at hdom m3 m4 ⊢
          omega
    · simp only [ctrl]; rw [f5]; exact hi.inc
    · intro _ lo hi hb; unfold pendCurrent at hb; simp only [ctrl] at hb; rw [f7] at hb; cases hb
    · intro h r lo hi hb; simp only [ctrl] at hb; rw [f7] at hb; cases hb
  · exact ⟨by show s4.me = me; rw [f2, hi.hme], by show s4.n = n; rw [f1, hi.hn],
      by show TraceInv me n s4.eff; rw [f5]; exact hi.tr,
      Or.inr (by show s4.height = lastFinalizedHeight s4.eff + 1; rw [f3, f5, hi.db]),
      by show s4.dbHeight = lastFinalizedHeight s4.eff; rw [f4, f5]; exact hi.db⟩

theorem ev_start {me n : Nat} (s : S) (hi : Inv me n s) (hns : s.started = false) :
    Core (start s) ∧ Aux me n (start s) := by
  rw [start_eq s hns]
  obtain ⟨hc, ha⟩ := replayed_spec s hi
  generalize replayed s = s2 at hc ha ⊢
  simp only []
  split
  · exact ⟨(ih_all _).enterPropose _ (core_rfs _ _ (by decide) (by decide) hc),
           (iha_all me n _).enterPropose _ (aux_rfs _ _ ha)⟩
  split
  · exact ⟨(ih_all _).enterPropose _ hc, (iha_all me n _).enterPropose _ ha⟩
  split
  · exact ⟨(ih_all _).enterPrevote _ hc, (iha_all me n _).enterPrevote _ ha⟩
  split
  · split
    · exact ⟨(ih_all _).enterPrevoteWait _ hc, (iha_all me n _).enterPrevoteWait _ ha⟩
    · exact ⟨hc, ha⟩
  split
  · split
    · exact ⟨(ih_all _).enterPrecommitWait _ hc, (iha_all me n _).enterPrecommitWait _ ha⟩
    · exact ⟨hc, ha⟩
  · exact ⟨hc, ha⟩


/-! ### events keep `Aux` -/
section
variable {me n : Nat}

theorem aev_recvProposal (s : S) (sg h r : Nat) (b : Blk) (pol : Int) (ha : Aux me n s) :
    Aux me n (recvProposal s sg h r b pol) := by
  unfold recvProposal
  split
  · exact ha
  split
  · exact ha
  split
  · exact ha
  split
  · exact ha
  split
  · exact ha
  split
  · exact ha
  simp only []
  split
  · split
    · exact (iha_all me n _).enterPrevote _ (aux_of_aproj_eq (s := s) rfl ha)
    · exact aux_of_aproj_eq (s := s) rfl ha
  · split
    · exact (iha_all me n _).enterPrevote _ (aux_of_aproj_eq (s := s) rfl ha)
    · exact aux_of_aproj_eq (s := s) rfl ha

theorem aev_recvBlockPart (s : S) (h : Nat) (b : Blk) (ha : Aux me n s) : Aux me n (recvBlockPart s h b) := by
  unfold recvBlockPart
  split
  · exact ha
  simp only []
  have h1 : Aux me n (if (decide (s.height ≤ h) && decide (h < s.height + 3) && !s.bpm.contains b) = true
      then { s with bpm := s.bpm ++ [b] } else s) := by
    split
    · exact aux_of_aproj_eq (s := s) rfl ha
    · exact ha
  generalize (if (decide (s.height ≤ h) && decide (h < s.height + 3) && !s.bpm.contains b) = true
      then { s with bpm := s.bpm ++ [b] } else s) = s1 at h1 ⊢
  split
  · exact h1
  split
  · exact h1
  split
  · exact h1
  split
  · exact (iha_all me n _).enterPrevote _ (aux_of_aproj_eq (s := s1) rfl h1)
  split
  · exact (iha_all me n _).commitAndEnterNewHeight _ (aux_of_aproj_eq (s := s1) rfl h1)
  · exact aux_of_aproj_eq (s := s1) rfl h1

theorem aev_recvVote (s : S) (m : VoteRec) (ha : Aux me n s) : Aux me n (recvVoteEv s m) := by
  unfold recvVoteEv
  split
  · exact ha
  · exact (iha_all me n _).recvVote _ _ ha

theorem aev_timeout (s : S) (st : Nat) (ha : Aux me n s) : Aux me n (timeout s st) := by
  unfold timeout
  split
  · exact ha
  split
  · exact (iha_all me n _).enterPrevote _ ha
  split
  · exact (iha_all me n _).enterPrecommit _ ha
  split
  · exact (iha_all me n _).enterNewRound _ ha
  · exact ha

theorem aev_asyncPropose (s : S) (h r : Nat) (ha : Aux me n s) : Aux me n (asyncPropose s h r) := by
  unfold asyncPropose
  split
  · exact ha
  · exact (iha_all me n _).enterPrevote _
      (aux_of_aproj_eq (s := S.sendProposal s (ownBlk s h r) (-1)) rfl (aux_sendProposal _ _ _ ha))

theorem aev_asyncImport (s : S) (h r : Nat) (ib : Blk) (ha : Aux me n s) : Aux me n (asyncImport s h r ib) := by
  unfold asyncImport
  split
  · exact ha
  have h1 : Aux me n (s.markValidated ib) := aux_of_aproj_eq (aproj_markValidated s ib) ha
  simp only []
  split
  · split
    · exact (iha_all me n _).sendVote _ _ _ h1
    · exact aux_stuck _ h1
  · exact h1

theorem aev_asyncCommit (s : S) (h r : Nat) (ha : Aux me n s) (hst : s.stuck = false) :
    Aux me n (asyncCommit s h r) := by
  unfold asyncCommit
  split
  · exact ha
  split
  · rename_i b v hcur
    exact (iha_all me n _).enterNewHeight _
      (auxfin_finalize { s with cur := .full b true } b (aux_of_aproj_eq (s := s) rfl ha) hst)
  · exact aux_stuck _ ha

theorem aev_async (s : S) (ha : Aux me n s) : Aux me n (async s) := by
  unfold async
  split
  · exact ha
  rename_i hg
  have hst : s.stuck = false := by
    simp only [Bool.or_eq_true, Bool.not_eq_true', not_or] at hg
    simpa using hg.2
  have hn : Aux me n { s with pend := .none } := aux_of_aproj_eq (s := s) rfl ha
  split
  · exact ha
  · exact aev_asyncPropose _ _ _ hn
  · exact aev_asyncImport _ _ _ _ hn
  · exact aev_asyncCommit _ _ _ hn hst

end

/-! ### whole runs, crash and restart anywhere -/

theorem sentOf_take_prefix (es : List Eff) (c : Nat) :
    ∃ rest, sentOf es = sentOf (es.take c) ++ rest :=
  ⟨sentOf (es.drop c), by rw [← sentOf_append, List.take_append_drop]⟩

theorem inv_crash {me n : Nat} (s : S) (cut k : Nat) (hi : Inv me n s) : Inv me n (crash s cut k) := by
  unfold crash
  simp only []
  have htr := traceInv_append_nonsend me n _ (.crash k) (by intro m; simp) (traceInv_take me n s.eff cut hi.tr)
  refine ⟨hi.hme, hi.hn, htr, ?_, ?_, Or.inl rfl⟩
  · show lastFinalizedHeight (s.eff.take cut) = lastFinalizedHeight (s.eff.take cut ++ [.crash k])
    rw [lastFin_append_other _ _ (by intro h b; simp)]
  · show (sentOf (s.eff.take cut ++ [.crash k])).Pairwise msgLt
    rw [sentOf_nonsend _ _ (by intro m; simp)]
    obtain ⟨rest, hr⟩ := sentOf_take_prefix s.eff cut
    have := hi.inc
    rw [hr, List.pairwise_append] at this
    exact this.1

theorem vstep_inv {me n : Nat} (s : S) (e : Event) (hi : Inv me n s) : Inv me n (vstep s e) := by
  cases e with
  | crash c k => exact inv_crash s c k hi
  | start =>
    show Inv me n (start s)
    cases hst : s.started
    · obtain ⟨hc, ha⟩ := ev_start s hi hst
      exact inv_of_running hc ha
    · have : start s = s := by unfold start; rw [if_pos hst]
      rw [this]; exact hi
  | proposal sg h r b pol =>
    rcases hi.run with hns | ⟨hc, ha⟩
    · have : vstep s (.proposal sg h r b pol) = s := by
        show recvProposal s sg h r b pol = s
        unfold recvProposal; rw [if_pos (by simp [hns])]
      rw [this]; exact hi
    · exact inv_of_running (ev_recvProposal s sg h r b pol hc) (aev_recvProposal s sg h r b pol ha)
  | blockPart h b =>
    rcases hi.run with hns | ⟨hc, ha⟩
    · have : vstep s (.blockPart h b) = s := by
        show recvBlockPart s h b = s
        unfold recvBlockPart; rw [if_pos (by simp [hns])]
      rw [this]; exact hi
    · exact inv_of_running (ev_recvBlockPart s h b hc) (aev_recvBlockPart s h b ha)
  | vote m =>
    rcases hi.run with hns | ⟨hc, ha⟩
    · have : vstep s (.vote m) = s := by
        show recvVoteEv s m = s
        unfold recvVoteEv; rw [if_pos (by simp [hns])]
      rw [this]; exact hi
    · exact inv_of_running (ev_recvVote s m hc) (aev_recvVote s m ha)
  | timeout st =>
    rcases hi.run with hns | ⟨hc, ha⟩
    · have : vstep s (.timeout st) = s := by
        show timeout s st = s
        unfold timeout; rw [if_pos (by simp [hns])]
      rw [this]; exact hi
    · exact inv_of_running (ev_timeout s st hc) (aev_timeout s st ha)
  | async =>
    rcases hi.run with hns | ⟨hc, ha⟩
    · have : vstep s .async = s := by
        show async s = s
        unfold async; rw [if_pos (by simp [hns])]
      rw [this]; exact hi
    · exact inv_of_running (ev_async s hc) (aev_async s ha)

theorem inv_init (me n : Nat) : Inv me n { n := n, me := me } :=
  ⟨rfl, rfl, traceInv_nil me n, rfl, by simp [sentOf], Or.inl rfl⟩

theorem run_inv {me n : Nat} (s : S) (evs : List Event) (hi : Inv me n s) : Inv me n (run s evs) := by
  induction evs generalizing s with
  | nil => exact hi
  | cons e t ih => unfold run; exact ih _ (vstep_inv s e hi)

end Goloop.C01
