/-
  Proofs/C23: helper lemmas for the RLP codec model (byte level reads, typing, round trip).
-/
import Goloop.Model.C23
import Goloop.Props.C24
namespace Goloop.C23
open Goloop Goloop.Rlp

/-! ### readers that admit an encoding -/

/-- the reader `r` can deliver everything in front of `rest` and long strings up to `n` bytes -/
def Adm (r : Rd) (n : Nat) (rest : Bytes) : Prop :=
  r.lim.toNat ≤ rest.length ∧ r.hard ≤ rest.length ∧ n ≤ r.maxSB

theorem Adm.mono {r : Rd} {n m : Nat} {rest : Bytes} (h : Adm r n rest) (hm : m ≤ n) : Adm r m rest :=
  ⟨h.1, h.2.1, Nat.le_trans hm h.2.2⟩

theorem Adm.more {r : Rd} {n : Nat} {rest : Bytes} (h : Adm r n rest) (x : Bytes) : Adm r n (x ++ rest) := by
  obtain ⟨h1, h2, h3⟩ := h
  refine ⟨?_, ?_, h3⟩ <;> simp <;> omega

theorem avail_ge {r : Rd} {n : Nat} {rest : Bytes} (h : Adm r n rest) (x : Bytes) :
    x.length ≤ r.avail (x ++ rest) := by
  obtain ⟨h1, h2, _⟩ := h
  simp only [Rd.avail, List.length_append]
  omega

theorem readTag_cons {r : Rd} {n : Nat} {rest : Bytes} (h : Adm r n rest) (t : UInt8) (x : Bytes) :
    readTag r (t :: (x ++ rest)) = .ok t (x ++ rest) := by
  have ha := avail_ge h (t :: x)
  obtain ⟨h1, h2, _⟩ := h
  unfold readTag
  have hn : ¬ (((t :: (x ++ rest)).length : Int) ≤ r.lim) := by
    simp only [List.length_cons, List.length_append]; omega
  simp only [hn, if_false]
  have hz : ¬ (r.avail (t :: (x ++ rest)) = 0) := by
    simp only [List.cons_append, List.length_cons] at ha; omega
  simp only [hz, if_false]

theorem readAll_append {r : Rd} {n : Nat} {rest : Bytes} (h : Adm r n rest) (x : Bytes) :
    readAll r x.length (x ++ rest) = .ok x rest := by
  have ha := avail_ge h x
  simp [readAll, ha]

theorem readSize_sizeToBytes {r : Rd} {n : Nat} {rest : Bytes} (h : Adm r n rest) (l : Nat) (hl : l ≤ maxInt) :
    readSize r (sizeToBytes l).length (sizeToBytes l ++ rest) = .ok l rest := by
  simp only [readSize, readAll_append h, bytesToSize_sizeToBytes l hl]

private theorem ofNat_toNat_lt' (n : Nat) (h : n < 256) : (UInt8.ofNat n).toNat = n := by
  simp [Nat.mod_eq_of_lt h]

/-- string header followed by the payload: what `readBytes` does after the tag switch -/
theorem readBytes_encodeLen {r : Rd} {rest : Bytes} (b : Bytes) (hb : b.length ≤ maxInt)
    (h : Adm r b.length rest) :
    readBytes r (encodeLen 0x80 b.length ++ b ++ rest) = .ok b rest := by
  have h64 : b.length < 2 ^ 64 := Nat.lt_of_le_of_lt hb maxInt_lt
  unfold encodeLen
  by_cases hs : b.length ≤ 55
  · simp only [hs, if_true, List.cons_append, List.nil_append]
    unfold readBytes
    rw [readTag_cons h]
    have ht : (UInt8.ofNat (0x80 + b.length)).toNat = 0x80 + b.length := ofNat_toNat_lt' _ (by omega)
    simp only [ht]
    have h1 : ¬ (0x80 + b.length < 0x80) := by omega
    have h2 : 0x80 + b.length ≤ 0xB7 := by omega
    have h5 : 0x80 + b.length - 0x80 = b.length := by omega
    simp only [h1, h2, if_true, if_false, h5, readAll_append h]
  · simp only [hs, if_false, List.cons_append]
    have hl := sizeToBytes_length b.length h64
    unfold readBytes
    rw [List.append_assoc, readTag_cons (h.more b)]
    have ht : (UInt8.ofNat (0x80 + 55 + (sizeToBytes b.length).length)).toNat
        = 0x80 + 55 + (sizeToBytes b.length).length := ofNat_toNat_lt' _ (by omega)
    simp only [ht]
    have h1 : ¬ (0x80 + 55 + (sizeToBytes b.length).length < 0x80) := by omega
    have h2 : ¬ (0x80 + 55 + (sizeToBytes b.length).length ≤ 0xB7) := by omega
    have h3 : 0x80 + 55 + (sizeToBytes b.length).length < 0xC0 := by omega
    have h4 : 0x80 + 55 + (sizeToBytes b.length).length - 0xB7 = (sizeToBytes b.length).length := by omega
    simp only [h1, h2, h3, if_true, if_false, h4]
    rw [readSize_sizeToBytes (h.more b) _ hb]
    have h5 : ¬ (b.length > r.maxSB) := by have := h.2.2; omega
    simp only [h5, if_false, readAll_append h]

theorem readBytes_encodeBytes {r : Rd} {rest : Bytes} (b : Bytes) (hb : b.length ≤ maxInt)
    (h : Adm r b.length rest) :
    readBytes r (encodeBytes b ++ rest) = .ok b rest := by
  rcases encodeBytes_cases b with ⟨x, hx, hlt, he⟩ | he
  · rw [he, hx]
    simp only [List.cons_append, List.nil_append]
    unfold readBytes
    have := readTag_cons h x []
    simp only [List.nil_append] at this
    rw [this]
    simp only [hlt, if_true]
  · rw [he]; exact readBytes_encodeLen b hb h

theorem readBytes_encodeNil {r : Rd} {n : Nat} {rest : Bytes} (h : Adm r n rest) :
    readBytes r (encodeNil ++ rest) = .nil rest := by
  unfold encodeNil readBytes
  have := readTag_cons h 0xf8 [0]
  simp only [List.cons_append, List.nil_append] at this ⊢
  rw [this]
  have h0 : readSize r 1 ((0 : UInt8) :: rest) = .ok 0 rest := by
    have := readAll_append h [(0 : UInt8)]
    simp only [List.length_cons, List.length_nil, List.cons_append, List.nil_append] at this
    simp [readSize, this, bytesToSize, beNat, maxInt]
  simp [h0]

theorem readList_encodeNil {r : Rd} {n : Nat} {rest : Bytes} (h : Adm r n rest) :
    readList r (encodeNil ++ rest) = .nil rest := by
  unfold encodeNil readList
  have := readTag_cons h 0xf8 [0]
  simp only [List.cons_append, List.nil_append] at this ⊢
  rw [this]
  have h0 : readSize r 1 ((0 : UInt8) :: rest) = .ok 0 rest := by
    have := readAll_append h [(0 : UInt8)]
    simp only [List.length_cons, List.length_nil, List.cons_append, List.nil_append] at this
    simp [readSize, this, bytesToSize, beNat, maxInt]
  simp [h0]

theorem readList_encodeList {r : Rd} {n : Nat} {rest : Bytes} (p : Bytes) (hp : p.length ≤ maxInt)
    (h : Adm r n rest) :
    readList r (encodeList p ++ rest) = .ok (child r p.length (p ++ rest)) (p ++ rest) := by
  have h64 : p.length < 2 ^ 64 := Nat.lt_of_le_of_lt hp maxInt_lt
  unfold encodeList encodeLen
  by_cases hs : p.length ≤ 55
  · simp only [hs, if_true, List.cons_append, List.nil_append]
    unfold readList
    rw [readTag_cons h]
    have ht : (UInt8.ofNat (0xC0 + p.length)).toNat = 0xC0 + p.length := ofNat_toNat_lt' _ (by omega)
    simp only [ht]
    have h1 : ¬ (0xC0 + p.length < 0xC0) := by omega
    have h2 : 0xC0 + p.length ≤ 0xF7 := by omega
    have h5 : 0xC0 + p.length - 0xC0 = p.length := by omega
    simp only [h1, h2, if_true, if_false, h5]
  · simp only [hs, if_false, List.cons_append]
    have hl := sizeToBytes_length p.length h64
    unfold readList
    rw [List.append_assoc, readTag_cons (h.more p)]
    have ht : (UInt8.ofNat (0xC0 + 55 + (sizeToBytes p.length).length)).toNat
        = 0xC0 + 55 + (sizeToBytes p.length).length := ofNat_toNat_lt' _ (by omega)
    simp only [ht]
    have h1 : ¬ (0xC0 + 55 + (sizeToBytes p.length).length < 0xC0) := by omega
    have h2 : ¬ (0xC0 + 55 + (sizeToBytes p.length).length ≤ 0xF7) := by omega
    have h4 : 0xC0 + 55 + (sizeToBytes p.length).length - 0xF7 = (sizeToBytes p.length).length := by omega
    simp only [h1, h2, if_false, h4]
    rw [readSize_sizeToBytes (h.more p) _ hp]
    have h6 : ¬ (0xC0 + 55 + (sizeToBytes p.length).length = 0xF8 ∧ p.length = 0) := by omega
    simp only [h6, if_false]

/-- the child reader of a list admits everything inside the payload -/
theorem child_adm {r : Rd} {n : Nat} {rest : Bytes} (p : Bytes) (h : Adm r n rest) (hn : p.length ≤ n) :
    Adm (child r p.length (p ++ rest)) p.length rest := by
  obtain ⟨h1, h2, h3⟩ := h
  refine ⟨?_, ?_, ?_⟩
  · simp only [child, List.length_append]; omega
  · simp only [child]; omega
  · simp only [child]; omega

theorem readTag_at_limit (r : Rd) (p : Bytes) (rest : Bytes) :
    readTag (child r p.length (p ++ rest)) rest = .eof := by
  unfold readTag
  have : ((rest.length : Int) ≤ (child r p.length (p ++ rest)).lim) := by
    simp only [child, List.length_append]; omega
  simp only [this, if_true]

theorem close_at_limit (r : Rd) (p : Bytes) (rest : Bytes) :
    close (child r p.length (p ++ rest)) rest = some rest := by
  unfold close
  have : ((rest.length : Int) ≤ (child r p.length (p ++ rest)).lim) := by
    simp only [child, List.length_append]; omega
  simp only [this, if_true]


/-! ### typing -/

/-- types that have their own nil encoding -/
def nullable : Ty → Bool
  | .bytes => true
  | .slice _ => true
  | .ptr _ => true
  | .map _ _ => true
  | _ => false

def isKeyTy : Ty → Bool
  | .str => true
  | .int _ => true
  | .uint _ => true
  | _ => false

mutual
/-- well-formed Go type for the codec: integer widths ≤ 64, map keys string/int/uint, no pointer
    to a type with its own nil encoding (the format cannot tell `&nil` from `nil`) -/
def WfTy : Ty → Prop
  | .uint w => w ≤ 64
  | .int w => 1 ≤ w ∧ w ≤ 64
  | .slice e => WfTy e
  | .arr _ e => WfTy e
  | .ptr e => nullable e = false ∧ WfTy e
  | .struct fs => WfTys fs
  | .map k v => isKeyTy k = true ∧ WfTy k ∧ WfTy v
  | _ => True
def WfTys : List Ty → Prop
  | [] => True
  | f :: fs => WfTy f ∧ WfTys fs
end

mutual
/-- `HasTy ty v`: `v` is a Go value of type `ty` (maps in canonical form: strictly sorted keys) -/
def HasTy : Ty → Val → Prop
  | .bool, .bool _ => True
  | .uint w, .uint n => n < 2 ^ w
  | .int w, .int i => -(2 : Int) ^ (w - 1) ≤ i ∧ i < (2 : Int) ^ (w - 1)
  | .str, .str _ => True
  | .bytes, .bytes _ => True
  | .bytes, .nil => True
  | .barr n, .bytes b => b.length = n
  | .big, .big _ => True
  | .slice _, .nil => True
  | .slice e, .list xs => ∀ x ∈ xs, HasTy e x
  | .arr n e, .list xs => xs.length = n ∧ ∀ x ∈ xs, HasTy e x
  | .ptr _, .nil => True
  | .ptr e, .ptr v => HasTy e v
  | .struct fs, .list xs => HasTys fs xs
  | .map _ _, .nil => True
  | .map k v, .map kvs =>
      (∀ p ∈ kvs, HasTy k p.1 ∧ HasTy v p.2) ∧ kvs.Pairwise (fun a b => keyLt a.1 b.1 = true)
  | _, _ => False
def HasTys : List Ty → List Val → Prop
  | [], [] => True
  | f :: fs, x :: xs => HasTy f x ∧ HasTys fs xs
  | _, _ => False
end

/-! ### encoder facts -/

theorem enc_length_pos : ∀ v : Val, 0 < (enc v).length
  | .nil => by simp [enc, encodeNil]
  | .bool b => by
    simp only [enc]; have := encodeBytes_ne_nil [if b then 1 else 0]
    exact List.length_pos_iff.mpr this
  | .uint n => by simp only [enc]; exact List.length_pos_iff.mpr (encodeBytes_ne_nil _)
  | .int i => by simp only [enc]; exact List.length_pos_iff.mpr (encodeBytes_ne_nil _)
  | .str s => by simp only [enc]; exact List.length_pos_iff.mpr (encodeBytes_ne_nil _)
  | .bytes b => by simp only [enc]; exact List.length_pos_iff.mpr (encodeBytes_ne_nil _)
  | .big i => by simp only [enc]; exact List.length_pos_iff.mpr (encodeBytes_ne_nil _)
  | .ptr v => by simp only [enc]; exact enc_length_pos v
  | .list xs => by simp only [enc]; exact List.length_pos_iff.mpr (encodeList_ne_nil _)
  | .map kvs => by simp only [enc]; exact List.length_pos_iff.mpr (encodeList_ne_nil _)

theorem encs_cons (x : Val) (xs : List Val) : encs (x :: xs) = enc x ++ encs xs := by
  simp [encs]

theorem encs_length_ge : ∀ xs : List Val, xs.length ≤ (encs xs).length
  | [] => by simp [encs]
  | x :: xs => by
    have := enc_length_pos x
    have := encs_length_ge xs
    simp only [encs, List.length_cons, List.length_append]; omega

theorem enc_le_encs : ∀ (xs : List Val) (x : Val), x ∈ xs → (enc x).length ≤ (encs xs).length
  | [], x, h => by simp at h
  | y :: ys, x, h => by
    simp only [encs, List.length_append]
    rcases List.mem_cons.mp h with h | h
    · subst h; omega
    · have := enc_le_encs ys x h; omega

/-- concatenated `key value` encodings of a map's entries in the given order -/
def encPairs : List (Val × Val) → Bytes
  | [] => []
  | (k, v) :: rest => enc k ++ enc v ++ encPairs rest

theorem encKVs_flat : ∀ kvs : List (Val × Val), (encKVs kvs).flatMap (·.2) = encPairs kvs
  | [] => by simp [encKVs, encPairs]
  | (k, v) :: rest => by
    simp only [encKVs, encPairs, List.flatMap_cons, encKVs_flat rest]

theorem encKVs_keys : ∀ kvs : List (Val × Val), (encKVs kvs).map (·.1) = kvs.map (·.1)
  | [] => by simp [encKVs]
  | (k, v) :: rest => by simp [encKVs, encKVs_keys rest]

theorem encPairs_length_ge : ∀ kvs : List (Val × Val), kvs.length ≤ (encPairs kvs).length
  | [] => by simp [encPairs]
  | (k, v) :: rest => by
    have := enc_length_pos k
    have := encPairs_length_ge rest
    simp only [encPairs, List.length_cons, List.length_append]; omega

theorem enc_le_encPairs : ∀ (kvs : List (Val × Val)) (p : Val × Val), p ∈ kvs →
    (enc p.1).length + (enc p.2).length ≤ (encPairs kvs).length
  | [], p, h => by simp at h
  | (k, v) :: rest, p, h => by
    simp only [encPairs, List.length_append]
    rcases List.mem_cons.mp h with h | h
    · subst h; simp only; omega
    · have := enc_le_encPairs rest p h; omega

/-! ### key order -/

theorem bytesLt_asymm : ∀ a b : Bytes, bytesLt a b = true → bytesLt b a = false
  | [], [], h => by simp [bytesLt] at h
  | [], _ :: _, _ => by simp [bytesLt]
  | _ :: _, [], h => by simp [bytesLt] at h
  | a :: as, b :: bs, h => by
    simp only [bytesLt] at h ⊢
    by_cases h1 : a.toNat < b.toNat
    · have h2 : ¬ b.toNat < a.toNat := by omega
      simp [h1, h2]
    · by_cases h2 : b.toNat < a.toNat
      · simp [h1, h2] at h
      · simp only [h1, h2, if_false] at h ⊢
        exact bytesLt_asymm as bs h

theorem keyLt_asymm (a b : Val) (h : keyLt a b = true) : keyLt b a = false := by
  cases a <;> cases b <;> simp only [keyLt] at h ⊢ <;> try (simp at h)
  · simp; omega
  · simp; omega
  · exact bytesLt_asymm _ _ h

theorem insertKV_append {β : Type} (k : Val) (v : β) :
    ∀ acc : List (Val × β), (∀ a ∈ acc, keyLt a.1 k = true) → insertKV k v acc = acc ++ [(k, v)]
  | [], _ => by simp [insertKV]
  | (k', v') :: rest, h => by
    have h1 : keyLt k' k = true := h (k', v') (by simp)
    have h2 : keyLt k k' = false := keyLt_asymm _ _ h1
    simp only [insertKV, h1, h2, if_true, List.cons_append]
    rw [insertKV_append k v rest (fun a ha => h a (by simp [ha]))]
    simp

theorem foldl_insertKV_sorted {β : Type} : ∀ (l acc : List (Val × β)),
    (acc ++ l).Pairwise (fun a b => keyLt a.1 b.1 = true) →
    l.foldl (fun acc kv => insertKV kv.1 kv.2 acc) acc = acc ++ l
  | [], acc, _ => by simp
  | (k, v) :: rest, acc, h => by
    simp only [List.foldl_cons]
    have hall : ∀ a ∈ acc, keyLt a.1 k = true := by
      intro a ha
      have := List.pairwise_append.mp h
      exact this.2.2 a ha (k, v) (by simp)
    rw [insertKV_append k v acc hall]
    have h' : ((acc ++ [(k, v)]) ++ rest).Pairwise (fun a b => keyLt a.1 b.1 = true) := by
      simpa using h
    rw [foldl_insertKV_sorted rest (acc ++ [(k, v)]) h']
    simp

theorem sortKVs_sorted {β : Type} (l : List (Val × β))
    (h : l.Pairwise (fun a b => keyLt a.1 b.1 = true)) : sortKVs l = l := by
  unfold sortKVs
  have := foldl_insertKV_sorted l [] (by simpa using h)
  simpa using this

theorem encKVs_pairwise : ∀ kvs : List (Val × Val),
    kvs.Pairwise (fun a b => keyLt a.1 b.1 = true) →
    (encKVs kvs).Pairwise (fun a b => keyLt a.1 b.1 = true)
  | [], _ => by simp [encKVs]
  | (k, v) :: rest, h => by
    simp only [encKVs]
    rw [List.pairwise_cons] at h ⊢
    refine ⟨?_, encKVs_pairwise rest h.2⟩
    intro a ha
    have hk : a.1 ∈ (encKVs rest).map (·.1) := List.mem_map_of_mem ha
    rw [encKVs_keys] at hk
    obtain ⟨p, hp, hpe⟩ := List.mem_map.mp hk
    have := h.1 p hp
    simp only at this hpe ⊢
    rw [← hpe]; exact this

theorem enc_map_sorted (kvs : List (Val × Val))
    (h : kvs.Pairwise (fun a b => keyLt a.1 b.1 = true)) :
    enc (.map kvs) = encodeList (encPairs kvs) := by
  simp only [enc]
  rw [sortKVs_sorted _ (encKVs_pairwise kvs h), encKVs_flat]


/-! ### loops over encoded sequences -/

theorem decElems_encs (f : Bytes → Res Val) (z : Val) (rest : Bytes) (heof : f rest = .eof) :
    ∀ (xs : List Val) (fuel : Nat), xs.length < fuel →
    (∀ x ∈ xs, ∀ y : Bytes, f (enc x ++ (y ++ rest)) = .ok x (y ++ rest)) →
    decElems f z fuel (encs xs ++ rest) = some (xs, rest)
  | [], fuel, hf, _ => by
    cases fuel with
    | zero => omega
    | succ fuel => simp [encs, decElems, heof]
  | x :: xs, fuel, hf, h => by
    cases fuel with
    | zero => omega
    | succ fuel =>
      simp only [encs, List.append_assoc, decElems]
      rw [h x (by simp) (encs xs)]
      simp only
      rw [decElems_encs f z rest heof xs fuel (by simp at hf; omega)
        (fun x' hx' y => h x' (by simp [hx']) y)]
      simp

theorem decArr_encs (f : Bytes → Res Val) (z : Val) (rest : Bytes) :
    ∀ (xs : List Val),
    (∀ x ∈ xs, ∀ y : Bytes, f (enc x ++ (y ++ rest)) = .ok x (y ++ rest)) →
    decArr f z xs.length (encs xs ++ rest) = some (xs, rest)
  | [], _ => by simp [encs, decArr]
  | x :: xs, h => by
    simp only [encs, List.append_assoc, List.length_cons, decArr]
    rw [h x (by simp) (encs xs)]
    simp only
    rw [decArr_encs f z rest xs (fun x' hx' y => h x' (by simp [hx']) y)]
    simp

theorem decEntries_encPairs (fk fv : Bytes → Res Val) (zv : Val) (rest : Bytes) (heof : fk rest = .eof) :
    ∀ (kvs : List (Val × Val)) (fuel : Nat), kvs.length < fuel →
    (∀ p ∈ kvs, ∀ y : Bytes, fk (enc p.1 ++ (y ++ rest)) = .ok p.1 (y ++ rest)) →
    (∀ p ∈ kvs, ∀ y : Bytes, fv (enc p.2 ++ (y ++ rest)) = .ok p.2 (y ++ rest)) →
    decEntries fk fv zv fuel (encPairs kvs ++ rest) = some (kvs, rest)
  | [], fuel, hf, _, _ => by
    cases fuel with
    | zero => omega
    | succ fuel => simp [encPairs, decEntries, heof]
  | (k, v) :: kvs, fuel, hf, hk, hv => by
    cases fuel with
    | zero => omega
    | succ fuel =>
      simp only [encPairs, List.append_assoc, decEntries]
      have h1 := hk (k, v) (by simp) (enc v ++ encPairs kvs)
      simp only [List.append_assoc] at h1
      rw [h1]
      simp only
      have h2 := hv (k, v) (by simp) (encPairs kvs)
      simp only at h2
      rw [h2]
      simp only
      rw [decEntries_encPairs fk fv zv rest heof kvs fuel (by simp at hf; omega)
        (fun p hp y => hk p (by simp [hp]) y) (fun p hp y => hv p (by simp [hp]) y)]
      simp

/-! ### nil in front of a non-nullable type -/

theorem dec_nil_of_not_nullable {r : Rd} {n : Nat} {rest : Bytes} (h : Adm r n rest) :
    ∀ e : Ty, nullable e = false → dec e r (encodeNil ++ rest) = .nil rest
  | .bool, _ => by simp only [dec, readBytes_encodeNil h]
  | .uint _, _ => by simp only [dec, readBytes_encodeNil h]
  | .int _, _ => by simp only [dec, readBytes_encodeNil h]
  | .str, _ => by simp only [dec, readBytes_encodeNil h]
  | .barr _, _ => by simp only [dec, readBytes_encodeNil h]
  | .big, _ => by simp only [dec, readBytes_encodeNil h]
  | .arr _ _, _ => by simp only [dec, readList_encodeNil h]
  | .struct _, _ => by simp only [dec, readList_encodeNil h]
  | .bytes, hn => by simp [nullable] at hn
  | .slice _, hn => by simp [nullable] at hn
  | .ptr _, hn => by simp [nullable] at hn
  | .map _ _, hn => by simp [nullable] at hn

theorem fitBytes_self (b : Bytes) : fitBytes b.length b = b := by
  simp [fitBytes]


/-! ### end of a list: every type reports io.EOF -/

theorem readBytes_eof {r : Rd} {inp : Bytes} (h : readTag r inp = .eof) : readBytes r inp = .eof := by
  simp only [readBytes, h]

theorem readList_eof {r : Rd} {inp : Bytes} (h : readTag r inp = .eof) : readList r inp = .eof := by
  simp only [readList, h]

theorem dec_eof {r : Rd} {inp : Bytes} (h : readTag r inp = .eof) : ∀ ty : Ty, dec ty r inp = .eof
  | .bool => by simp only [dec, readBytes_eof h]
  | .uint _ => by simp only [dec, readBytes_eof h]
  | .int _ => by simp only [dec, readBytes_eof h]
  | .str => by simp only [dec, readBytes_eof h]
  | .bytes => by simp only [dec, readBytes_eof h]
  | .barr _ => by simp only [dec, readBytes_eof h]
  | .big => by simp only [dec, readBytes_eof h]
  | .ptr e => by simp only [dec, dec_eof h e]
  | .slice _ => by simp only [dec, readList_eof h]
  | .arr _ _ => by simp only [dec, readList_eof h]
  | .struct _ => by simp only [dec, readList_eof h]
  | .map _ _ => by simp only [dec, readList_eof h]

theorem readBytes_enc_bytes {r : Rd} {rest : Bytes} (b : Bytes) (hl : (encodeBytes b).length ≤ maxInt)
    (ha : Adm r (encodeBytes b).length rest) : readBytes r (encodeBytes b ++ rest) = .ok b rest :=
  readBytes_encodeBytes b (Nat.le_trans (encodeBytes_length_ge b) hl) (ha.mono (encodeBytes_length_ge b))

theorem pow_le_63 (w : Nat) (h : w ≤ 64) : (2 : Int) ^ (w - 1) ≤ (2 : Int) ^ 63 := by
  have : (2 : Nat) ^ (w - 1) ≤ 2 ^ 63 := Nat.pow_le_pow_right (by omega) (by omega)
  exact_mod_cast this

/-! ### the round trip -/

mutual
theorem dec_enc : ∀ (ty : Ty) (v : Val) (r : Rd) (rest : Bytes), WfTy ty → HasTy ty v →
    (enc v).length ≤ maxInt → Adm r (enc v).length rest → dec ty r (enc v ++ rest) = .ok v rest
  | .bool, v, r, rest, _, ht, hl, ha => by
    cases v <;> simp only [HasTy] at ht
    rename_i b
    simp only [enc] at hl ha ⊢
    simp only [dec, readBytes_enc_bytes _ hl ha]
    cases b <;> simp [C24.safeBytesToUint64, beNat]
  | .uint w, v, r, rest, hw, ht, hl, ha => by
    cases v <;> simp only [HasTy] at ht
    rename_i n
    simp only [WfTy] at hw
    simp only [enc] at hl ha ⊢
    have h64 : n < 2 ^ 64 := Nat.lt_of_lt_of_le ht (Nat.pow_le_pow_right (by omega) hw)
    simp only [dec, readBytes_enc_bytes _ hl ha, C24.uint64_roundtrip n h64, ht, if_true]
  | .int w, v, r, rest, hw, ht, hl, ha => by
    cases v <;> simp only [HasTy] at ht
    rename_i i
    simp only [WfTy] at hw
    simp only [enc] at hl ha ⊢
    have hp := pow_le_63 w hw.2
    have h64 : -(2 : Int) ^ 63 ≤ i ∧ i < (2 : Int) ^ 63 := ⟨by omega, by omega⟩
    have hr : inIntRange w i = true := by simp [inIntRange, ht.1, ht.2]
    simp only [dec, readBytes_enc_bytes _ hl ha, C24.int64_roundtrip i h64, hr, if_true]
  | .str, v, r, rest, _, ht, hl, ha => by
    cases v <;> simp only [HasTy] at ht
    simp only [enc] at hl ha ⊢
    simp only [dec, readBytes_enc_bytes _ hl ha]
  | .bytes, v, r, rest, _, ht, hl, ha => by
    cases v <;> simp only [HasTy] at ht
    · simp only [enc, dec, readBytes_encodeNil ha]
    · simp only [enc] at hl ha ⊢
      simp only [dec, readBytes_enc_bytes _ hl ha]
  | .barr n, v, r, rest, _, ht, hl, ha => by
    cases v <;> simp only [HasTy] at ht
    rename_i b
    simp only [enc] at hl ha ⊢
    subst ht
    simp only [dec, readBytes_enc_bytes _ hl ha, fitBytes_self]
  | .big, v, r, rest, _, ht, hl, ha => by
    cases v <;> simp only [HasTy] at ht
    rename_i i
    simp only [enc] at hl ha ⊢
    simp only [dec, readBytes_enc_bytes _ hl ha, C24.big_roundtrip]
  | .ptr e, v, r, rest, hw, ht, hl, ha => by
    simp only [WfTy] at hw
    cases v <;> simp only [HasTy] at ht
    · simp only [enc, dec, dec_nil_of_not_nullable ha e hw.1]
    · rename_i v'
      simp only [enc] at hl ha ⊢
      simp only [dec, dec_enc e v' r rest hw.2 ht hl ha]
  | .slice e, v, r, rest, hw, ht, hl, ha => by
    simp only [WfTy] at hw
    cases v <;> simp only [HasTy] at ht
    · simp only [enc, dec, readList_encodeNil ha]
    · rename_i xs
      simp only [enc] at hl ha ⊢
      have hge := encodeList_length_ge (encs xs)
      have hp : (encs xs).length ≤ maxInt := by omega
      have hc := child_adm (encs xs) ha (by omega)
      have hf : ∀ x ∈ xs, ∀ y : Bytes,
          (fun i => dec e (child r (encs xs).length (encs xs ++ rest)) i) (enc x ++ (y ++ rest)) = .ok x (y ++ rest) :=
        fun x hx y => dec_enc e x _ (y ++ rest) hw (ht x hx)
          (Nat.le_trans (enc_le_encs xs x hx) hp) ((hc.mono (enc_le_encs xs x hx)).more y)
      have heof : (fun i => dec e (child r (encs xs).length (encs xs ++ rest)) i) rest = .eof :=
        dec_eof (readTag_at_limit r (encs xs) rest) e
      have hfuel : xs.length < (encs xs ++ rest).length + 1 := by
        have := encs_length_ge xs; simp only [List.length_append]; omega
      simp only [dec, readList_encodeList _ hp ha]
      rw [decElems_encs _ (zero e) rest heof xs _ hfuel hf]
      simp only [close_at_limit]
  | .arr n e, v, r, rest, hw, ht, hl, ha => by
    simp only [WfTy] at hw
    cases v <;> simp only [HasTy] at ht
    rename_i xs
    obtain ⟨hn, ht⟩ := ht
    simp only [enc] at hl ha ⊢
    have hge := encodeList_length_ge (encs xs)
    have hp : (encs xs).length ≤ maxInt := by omega
    have hc := child_adm (encs xs) ha (by omega)
    have hf : ∀ x ∈ xs, ∀ y : Bytes,
        (fun i => dec e (child r (encs xs).length (encs xs ++ rest)) i) (enc x ++ (y ++ rest)) = .ok x (y ++ rest) :=
      fun x hx y => dec_enc e x _ (y ++ rest) hw (ht x hx)
        (Nat.le_trans (enc_le_encs xs x hx) hp) ((hc.mono (enc_le_encs xs x hx)).more y)
    simp only [dec, readList_encodeList _ hp ha]
    subst hn
    rw [decArr_encs _ (zero e) rest xs hf]
    simp only [close_at_limit]
  | .struct fs, v, r, rest, hw, ht, hl, ha => by
    simp only [WfTy] at hw
    cases v <;> simp only [HasTy] at ht
    rename_i xs
    simp only [enc] at hl ha ⊢
    have hge := encodeList_length_ge (encs xs)
    have hp : (encs xs).length ≤ maxInt := by omega
    have hc := child_adm (encs xs) ha (by omega)
    simp only [dec, readList_encodeList _ hp ha]
    rw [decFields_encs fs xs _ rest hw ht hp hc]
    simp only [close_at_limit]
  | .map k v', v, r, rest, hw, ht, hl, ha => by
    simp only [WfTy] at hw
    cases v <;> simp only [HasTy] at ht
    · simp only [enc, dec, readList_encodeNil ha]
    · rename_i kvs
      obtain ⟨hty, hsorted⟩ := ht
      rw [enc_map_sorted kvs hsorted] at hl ha ⊢
      have hge := encodeList_length_ge (encPairs kvs)
      have hp : (encPairs kvs).length ≤ maxInt := by omega
      have hc := child_adm (encPairs kvs) ha (by omega)
      have hfk : ∀ p ∈ kvs, ∀ y : Bytes,
          (fun i => dec k (child r (encPairs kvs).length (encPairs kvs ++ rest)) i) (enc p.1 ++ (y ++ rest)) = .ok p.1 (y ++ rest) :=
        fun p hpm y => by
          have hle := enc_le_encPairs kvs p hpm
          exact dec_enc k p.1 _ (y ++ rest) hw.2.1 (hty p hpm).1 (by omega) ((hc.mono (by omega)).more y)
      have hfv : ∀ p ∈ kvs, ∀ y : Bytes,
          (fun i => dec v' (child r (encPairs kvs).length (encPairs kvs ++ rest)) i) (enc p.2 ++ (y ++ rest)) = .ok p.2 (y ++ rest) :=
        fun p hpm y => by
          have hle := enc_le_encPairs kvs p hpm
          exact dec_enc v' p.2 _ (y ++ rest) hw.2.2 (hty p hpm).2 (by omega) ((hc.mono (by omega)).more y)
      have heof : (fun i => dec k (child r (encPairs kvs).length (encPairs kvs ++ rest)) i) rest = .eof :=
        dec_eof (readTag_at_limit r (encPairs kvs) rest) k
      have hfuel : kvs.length < (encPairs kvs ++ rest).length + 1 := by
        have := encPairs_length_ge kvs; simp only [List.length_append]; omega
      simp only [dec, readList_encodeList _ hp ha]
      rw [decEntries_encPairs _ _ (zero v') rest heof kvs _ hfuel hfk hfv]
      simp only [close_at_limit, sortKVs_sorted kvs hsorted]
theorem decFields_encs : ∀ (fs : List Ty) (xs : List Val) (c : Rd) (rest : Bytes), WfTys fs → HasTys fs xs →
    (encs xs).length ≤ maxInt → Adm c (encs xs).length rest → decFields fs c (encs xs ++ rest) = .ok xs rest
  | [], xs, c, rest, _, ht, _, _ => by
    cases xs <;> simp only [HasTys] at ht
    simp [decFields, encs]
  | f :: fs, xs, c, rest, hw, ht, hl, ha => by
    cases xs <;> simp only [HasTys] at ht
    rename_i x xs
    simp only [WfTys] at hw
    simp only [encs, List.length_append] at hl ha
    simp only [encs, List.append_assoc, decFields]
    rw [dec_enc f x c (encs xs ++ rest) hw.1 ht.1 (by omega) ((ha.mono (by omega)).more (encs xs))]
    simp only
    rw [decFields_encs fs xs c rest hw.2 ht.2 (by omega) (ha.mono (by omega))]
end


/-! ### headers declaring more than the input holds -/

/-- list header for `n` payload bytes in front of any input `q` -/
theorem readList_encodeLen {r : Rd} {m : Nat} {q : Bytes} (n : Nat) (hn : n ≤ maxInt) (h : Adm r m q) :
    readList r (encodeLen 0xC0 n ++ q) = .ok (child r n q) q := by
  have h64 : n < 2 ^ 64 := Nat.lt_of_le_of_lt hn maxInt_lt
  unfold encodeLen
  by_cases hs : n ≤ 55
  · simp only [hs, if_true, List.cons_append, List.nil_append]
    unfold readList
    have := readTag_cons h (UInt8.ofNat (0xC0 + n)) []
    simp only [List.nil_append] at this
    rw [this]
    have ht : (UInt8.ofNat (0xC0 + n)).toNat = 0xC0 + n := ofNat_toNat_lt' _ (by omega)
    simp only [ht]
    have h1 : ¬ (0xC0 + n < 0xC0) := by omega
    have h2 : 0xC0 + n ≤ 0xF7 := by omega
    have h5 : 0xC0 + n - 0xC0 = n := by omega
    simp only [h1, h2, if_true, if_false, h5]
  · simp only [hs, if_false, List.cons_append]
    have hl := sizeToBytes_length n h64
    unfold readList
    rw [readTag_cons h]
    have ht : (UInt8.ofNat (0xC0 + 55 + (sizeToBytes n).length)).toNat
        = 0xC0 + 55 + (sizeToBytes n).length := ofNat_toNat_lt' _ (by omega)
    simp only [ht]
    have h1 : ¬ (0xC0 + 55 + (sizeToBytes n).length < 0xC0) := by omega
    have h2 : ¬ (0xC0 + 55 + (sizeToBytes n).length ≤ 0xF7) := by omega
    have h4 : 0xC0 + 55 + (sizeToBytes n).length - 0xF7 = (sizeToBytes n).length := by omega
    simp only [h1, h2, if_false, h4]
    rw [readSize_sizeToBytes h _ hn]
    have h6 : ¬ (0xC0 + 55 + (sizeToBytes n).length = 0xF8 ∧ n = 0) := by omega
    simp only [h6, if_false]

/-- string header for `n` payload bytes in front of an input `q` that is shorter than `n` -/
theorem readBytes_short_input {r : Rd} {m : Nat} {q : Bytes} (n : Nat) (hn : n ≤ maxInt) (h : Adm r m q)
    (hq : r.avail q < n) : readBytes r (encodeLen 0x80 n ++ q) = .err := by
  have h64 : n < 2 ^ 64 := Nat.lt_of_le_of_lt hn maxInt_lt
  have hra : readAll r n q = .err := by
    have : ¬ (n ≤ r.avail q) := by omega
    simp [readAll, this]
  unfold encodeLen
  by_cases hs : n ≤ 55
  · simp only [hs, if_true, List.cons_append, List.nil_append]
    unfold readBytes
    have := readTag_cons h (UInt8.ofNat (0x80 + n)) []
    simp only [List.nil_append] at this
    rw [this]
    have ht : (UInt8.ofNat (0x80 + n)).toNat = 0x80 + n := ofNat_toNat_lt' _ (by omega)
    simp only [ht]
    have h1 : ¬ (0x80 + n < 0x80) := by omega
    have h2 : 0x80 + n ≤ 0xB7 := by omega
    have h5 : 0x80 + n - 0x80 = n := by omega
    simp only [h1, h2, if_true, if_false, h5, hra]
  · simp only [hs, if_false, List.cons_append]
    have hl := sizeToBytes_length n h64
    unfold readBytes
    rw [readTag_cons h]
    have ht : (UInt8.ofNat (0x80 + 55 + (sizeToBytes n).length)).toNat
        = 0x80 + 55 + (sizeToBytes n).length := ofNat_toNat_lt' _ (by omega)
    simp only [ht]
    have h1 : ¬ (0x80 + 55 + (sizeToBytes n).length < 0x80) := by omega
    have h2 : ¬ (0x80 + 55 + (sizeToBytes n).length ≤ 0xB7) := by omega
    have h3 : 0x80 + 55 + (sizeToBytes n).length < 0xC0 := by omega
    have h4 : 0x80 + 55 + (sizeToBytes n).length - 0xB7 = (sizeToBytes n).length := by omega
    simp only [h1, h2, h3, if_true, if_false, h4]
    rw [readSize_sizeToBytes h _ hn]
    simp only [hra]
    split <;> rfl

theorem close_none_of_neg (c : Rd) (inp : Bytes) (h : c.lim < 0) : close c inp = none := by
  unfold close
  have h1 : ¬ ((inp.length : Int) ≤ c.lim) := by omega
  have h2 : ¬ ((c.hard : Int) ≤ c.lim) := by omega
  simp only [h1, h2, if_false]

/-- a list type never yields a value through a reader whose declared size passes the buffer end -/
theorem dec_list_beyond_input {r : Rd} {m : Nat} {q : Bytes} (n : Nat) (hn : n ≤ maxInt) (h : Adm r m q)
    (hq : q.length < n) (ty : Ty) (hl : (∃ e, ty = .slice e) ∨ (∃ k e, ty = .arr k e) ∨
      (∃ fs, ty = .struct fs) ∨ (∃ k v, ty = .map k v)) :
    dec ty r (encodeLen 0xC0 n ++ q) = .err := by
  have hc : (child r n q).lim < 0 := by simp only [child]; omega
  rcases hl with ⟨e, rfl⟩ | ⟨k, e, rfl⟩ | ⟨fs, rfl⟩ | ⟨k, v, rfl⟩
  · simp only [dec, readList_encodeLen n hn h]
    split
    · rfl
    · simp only [close_none_of_neg _ _ hc]
  · simp only [dec, readList_encodeLen n hn h]
    split
    · rfl
    · simp only [close_none_of_neg _ _ hc]
  · simp only [dec, readList_encodeLen n hn h]
    split
    · simp only [close_none_of_neg _ _ hc]
    · simp only [close_none_of_neg _ _ hc]
    · rfl
    · rfl
  · simp only [dec, readList_encodeLen n hn h]
    split
    · rfl
    · simp only [close_none_of_neg _ _ hc]


/-! ### map order independence -/

inductive KeyClass where
  | s | i | u
  deriving DecidableEq

def classOf : Val → Option KeyClass
  | .str _ => some .s
  | .int _ => some .i
  | .uint _ => some .u
  | _ => none

theorem bytesLt_total : ∀ a b : Bytes, bytesLt a b = true ∨ a = b ∨ bytesLt b a = true
  | [], [] => by simp
  | [], _ :: _ => by simp [bytesLt]
  | _ :: _, [] => by simp [bytesLt]
  | a :: as, b :: bs => by
    simp only [bytesLt]
    by_cases h1 : a.toNat < b.toNat
    · simp [h1]
    · by_cases h2 : b.toNat < a.toNat
      · simp [h1, h2]
      · have hab : a = b := UInt8.toNat_inj.mp (by omega)
        subst hab
        simp only [h1, if_false]
        rcases bytesLt_total as bs with h | h | h
        · simp [h]
        · simp [h]
        · simp [h]

theorem bytesLt_trans : ∀ a b c : Bytes, bytesLt a b = true → bytesLt b c = true → bytesLt a c = true
  | [], [], _, h, _ => by simp [bytesLt] at h
  | [], _ :: _, [], _, h => by simp [bytesLt] at h
  | [], _ :: _, _ :: _, _, _ => by simp [bytesLt]
  | _ :: _, [], _, h, _ => by simp [bytesLt] at h
  | _ :: _, _ :: _, [], _, h => by simp [bytesLt] at h
  | a :: as, b :: bs, c :: cs, h1, h2 => by
    simp only [bytesLt] at h1 h2 ⊢
    by_cases hab : a.toNat < b.toNat
    · by_cases hbc : b.toNat < c.toNat
      · have : a.toNat < c.toNat := by omega
        simp [this]
      · by_cases hcb : c.toNat < b.toNat
        · simp [hbc, hcb] at h2
        · have : a.toNat < c.toNat := by omega
          simp [this]
    · by_cases hba : b.toNat < a.toNat
      · simp [hab, hba] at h1
      · simp only [hab, hba, if_false] at h1
        by_cases hbc : b.toNat < c.toNat
        · have : a.toNat < c.toNat := by omega
          simp [this]
        · by_cases hcb : c.toNat < b.toNat
          · simp [hbc, hcb] at h2
          · simp only [hbc, hcb, if_false] at h2
            have h3 : ¬ a.toNat < c.toNat := by omega
            have h4 : ¬ c.toNat < a.toNat := by omega
            simp only [h3, h4, if_false]
            exact bytesLt_trans as bs cs h1 h2

theorem keyLt_total (c : KeyClass) (a b : Val) (ha : classOf a = some c) (hb : classOf b = some c) :
    keyLt a b = true ∨ a = b ∨ keyLt b a = true := by
  cases c
  · cases a <;> simp [classOf] at ha
    cases b <;> simp [classOf] at hb
    rename_i x y
    simp only [keyLt, Val.str.injEq]; exact bytesLt_total x y
  · cases a <;> simp [classOf] at ha
    cases b <;> simp [classOf] at hb
    rename_i x y
    simp only [keyLt, decide_eq_true_eq, Val.int.injEq]; omega
  · cases a <;> simp [classOf] at ha
    cases b <;> simp [classOf] at hb
    rename_i x y
    simp only [keyLt, decide_eq_true_eq, Val.uint.injEq]; omega

theorem keyLt_trans (a b c : Val) (h1 : keyLt a b = true) (h2 : keyLt b c = true) : keyLt a c = true := by
  cases a <;> cases b <;> simp only [keyLt] at h1 <;> try (simp at h1; done)
  all_goals (cases c <;> simp only [keyLt] at h2 ⊢ <;> try (simp at h2; done))
  · simp only [decide_eq_true_eq] at h1 h2 ⊢; omega
  · simp only [decide_eq_true_eq] at h1 h2 ⊢; omega
  · exact bytesLt_trans _ _ _ h1 h2

theorem keyLt_irrefl (a : Val) : keyLt a a = false := by
  cases h : keyLt a a
  · rfl
  · have := keyLt_asymm a a h; rw [h] at this; exact absurd this (by simp)

theorem keyLt_class (a b : Val) (h : keyLt a b = true) : classOf a = classOf b := by
  cases a <;> cases b <;> simp only [keyLt] at h <;> first | rfl | (simp at h)

theorem insertKV_comm_lt {β : Type} (c : KeyClass) (a b : Val) (va vb : β)
    (ha : classOf a = some c) (hb : classOf b = some c) (hab : keyLt a b = true) :
    ∀ acc : List (Val × β), (∀ p ∈ acc, classOf p.1 = some c) →
      insertKV a va (insertKV b vb acc) = insertKV b vb (insertKV a va acc)
  | [], _ => by
    have hba := keyLt_asymm a b hab
    simp [insertKV, hab, hba]
  | (k, v) :: rest, hc => by
    have hba := keyLt_asymm a b hab
    have hk : classOf k = some c := hc (k, v) (by simp)
    have hrest : ∀ p ∈ rest, classOf p.1 = some c := fun p hp => hc p (by simp [hp])
    rcases keyLt_total c b k hb hk with hbk | hbk | hkb
    · -- b < k, hence a < k
      have hak := keyLt_trans a b k hab hbk
      have hkb := keyLt_asymm b k hbk
      simp [insertKV, hbk, hak, hab, hba, hkb]
    · -- b = k
      subst hbk
      have hbb := keyLt_irrefl b
      simp [insertKV, hbb, hab, hba]
    · -- k < b
      have hbk := keyLt_asymm k b hkb
      rcases keyLt_total c a k ha hk with hak | hak | hka
      · have hka := keyLt_asymm a k hak
        simp [insertKV, hbk, hkb, hak, hab, hba]
      · subst hak
        have haa := keyLt_irrefl a
        simp [insertKV, hbk, hkb, haa, hab, hba]
      · have hak := keyLt_asymm k a hka
        simp only [insertKV, hbk, hkb, hak, hka, if_true, if_false, Bool.false_eq_true]
        rw [insertKV_comm_lt c a b va vb ha hb hab rest hrest]

theorem insertKV_comm {β : Type} (c : KeyClass) (a b : Val) (va vb : β)
    (ha : classOf a = some c) (hb : classOf b = some c) (hne : a ≠ b)
    (acc : List (Val × β)) (hc : ∀ p ∈ acc, classOf p.1 = some c) :
    insertKV a va (insertKV b vb acc) = insertKV b vb (insertKV a va acc) := by
  rcases keyLt_total c a b ha hb with h | h | h
  · exact insertKV_comm_lt c a b va vb ha hb h acc hc
  · exact absurd h hne
  · exact (insertKV_comm_lt c b a vb va hb ha h acc hc).symm

theorem insertKV_class {β : Type} (c : KeyClass) (k : Val) (v : β) (hk : classOf k = some c) :
    ∀ acc : List (Val × β), (∀ p ∈ acc, classOf p.1 = some c) →
      ∀ p ∈ insertKV k v acc, classOf p.1 = some c
  | [], _, p, hp => by
    simp only [insertKV, List.mem_singleton] at hp; subst hp; exact hk
  | (k', v') :: rest, hc, p, hp => by
    simp only [insertKV] at hp
    split at hp
    · rcases List.mem_cons.mp hp with h | h
      · subst h; exact hk
      · exact hc p h
    · split at hp
      · rcases List.mem_cons.mp hp with h | h
        · subst h; exact hc _ (by simp)
        · exact insertKV_class c k v hk rest (fun q hq => hc q (by simp [hq])) p h
      · rcases List.mem_cons.mp hp with h | h
        · subst h; exact hk
        · exact hc p (by simp [h])

theorem foldl_insertKV_perm {β : Type} (c : KeyClass) {l1 l2 : List (Val × β)} (hp : l1.Perm l2) :
    l1.Pairwise (fun a b => a.1 ≠ b.1) → (∀ p ∈ l1, classOf p.1 = some c) →
    ∀ acc : List (Val × β), (∀ p ∈ acc, classOf p.1 = some c) →
      l1.foldl (fun acc kv => insertKV kv.1 kv.2 acc) acc = l2.foldl (fun acc kv => insertKV kv.1 kv.2 acc) acc := by
  induction hp with
  | nil => intros; rfl
  | cons x _ ih =>
    intro hnd hc acc hacc
    simp only [List.foldl_cons]
    rw [List.pairwise_cons] at hnd
    exact ih hnd.2 (fun p hp => hc p (by simp [hp])) _
      (insertKV_class c x.1 x.2 (hc x (by simp)) acc hacc)
  | swap x y l =>
    intro hnd hc acc hacc
    simp only [List.foldl_cons]
    rw [List.pairwise_cons] at hnd
    have hne : y.1 ≠ x.1 := hnd.1 x (by simp)
    rw [insertKV_comm c x.1 y.1 x.2 y.2 (hc x (by simp)) (hc y (by simp)) (fun h => hne h.symm) acc hacc]
  | trans h1 _ ih1 ih2 =>
    intro hnd hc acc hacc
    rw [ih1 hnd hc acc hacc]
    apply ih2
    · exact (h1.pairwise_iff (fun {a b} (h : a.1 ≠ b.1) => (fun h' => h h'.symm : b.1 ≠ a.1))).mp hnd
    · exact fun p hp => hc p (h1.mem_iff.mpr hp)
    · exact hacc

theorem encKVs_eq_map : ∀ kvs : List (Val × Val),
    encKVs kvs = kvs.map (fun p => (p.1, enc p.1 ++ enc p.2))
  | [] => by simp [encKVs]
  | (k, v) :: rest => by simp [encKVs, encKVs_eq_map rest]

theorem enc_map_perm (c : KeyClass) (kvs kvs' : List (Val × Val)) (hp : kvs.Perm kvs')
    (hnd : kvs.Pairwise (fun a b => a.1 ≠ b.1)) (hc : ∀ p ∈ kvs, classOf p.1 = some c) :
    enc (.map kvs) = enc (.map kvs') := by
  simp only [enc, sortKVs]
  have hp' : (encKVs kvs).Perm (encKVs kvs') := by
    rw [encKVs_eq_map, encKVs_eq_map]; exact hp.map _
  have hnd' : (encKVs kvs).Pairwise (fun a b => a.1 ≠ b.1) := by
    rw [encKVs_eq_map, List.pairwise_map]; exact hnd
  have hc' : ∀ p ∈ encKVs kvs, classOf p.1 = some c := by
    rw [encKVs_eq_map]
    intro p hp
    obtain ⟨q, hq, rfl⟩ := List.mem_map.mp hp
    exact hc q hq
  rw [foldl_insertKV_perm c hp' hnd' hc' [] (by simp)]


/-! ### progress and limits: a decoder step consumes a non-empty prefix and never reads past the
    floors of its reader (its own list limit and those of all enclosing lists) -/

/-- `inp'` is what is left of `inp` after a step through reader `r` -/
def Prog (r : Rd) (inp inp' : Bytes) : Prop :=
  inp'.length < inp.length ∧ (∃ pre, inp = pre ++ inp') ∧ max r.lim.toNat r.hard ≤ inp'.length

/-- every successful (`ok` or `nil`) result of `f` makes progress within `r` -/
def Good {α : Type} (r : Rd) (f : Bytes → Res α) : Prop :=
  ∀ inp, (∀ v inp', f inp = .ok v inp' → Prog r inp inp') ∧ (∀ inp', f inp = .nil inp' → Prog r inp inp')

theorem readTag_prog {r : Rd} {inp inp1 : Bytes} {t : UInt8} (h : readTag r inp = .ok t inp1) :
    inp = t :: inp1 ∧ max r.lim.toNat r.hard ≤ inp1.length := by
  unfold readTag at h
  split at h
  · simp at h
  · split at h
    · simp at h
    · rename_i t' rest
      split at h
      · simp at h
      · rename_i hz
        simp only [Res.ok.injEq] at h
        obtain ⟨h1, h2⟩ := h
        subst h1; subst h2
        refine ⟨rfl, ?_⟩
        simp only [Rd.avail, List.length_cons] at hz
        omega

theorem readAll_prog {r : Rd} {k : Nat} {inp inp' bs : Bytes} (h : readAll r k inp = .ok bs inp')
    (h0 : max r.lim.toNat r.hard ≤ inp.length) :
    inp = bs ++ inp' ∧ max r.lim.toNat r.hard ≤ inp'.length := by
  unfold readAll at h
  split at h
  · rename_i hk
    simp only [Res.ok.injEq] at h
    obtain ⟨h1, h2⟩ := h
    subst h1; subst h2
    refine ⟨by simp, ?_⟩
    simp only [Rd.avail] at hk
    simp only [List.length_drop]
    omega
  · simp at h

theorem readSize_prog {r : Rd} {k n : Nat} {inp inp' : Bytes} (h : readSize r k inp = .ok n inp')
    (h0 : max r.lim.toNat r.hard ≤ inp.length) :
    (∃ bs, inp = bs ++ inp') ∧ max r.lim.toNat r.hard ≤ inp'.length := by
  unfold readSize at h
  split at h
  · rename_i bs i' ha
    have := readAll_prog ha h0
    split at h
    · simp only [Res.ok.injEq] at h
      obtain ⟨_, h2⟩ := h
      subst h2
      exact ⟨⟨bs, this.1⟩, this.2⟩
    · simp at h
  · simp at h

theorem prog_of {r : Rd} {inp inp' : Bytes} (pre : Bytes) (hne : pre ≠ []) (h : inp = pre ++ inp')
    (hf : max r.lim.toNat r.hard ≤ inp'.length) : Prog r inp inp' := by
  refine ⟨?_, ⟨pre, h⟩, hf⟩
  subst h
  cases pre with
  | nil => exact absurd rfl hne
  | cons a as => simp only [List.cons_append, List.length_cons, List.length_append]; omega

theorem readBytes_good (r : Rd) : Good r (readBytes r) := by
  intro inp
  constructor
  · intro bs inp' h
    unfold readBytes at h
    split at h <;> try (simp at h; done)
    rename_i t inp1 ht
    obtain ⟨hi, hfl⟩ := readTag_prog ht
    simp only at h
    split at h
    · simp only [Res.ok.injEq] at h
      obtain ⟨_, h2⟩ := h; subst h2
      exact prog_of [t] (by simp) (by simpa using hi) hfl
    · split at h
      · have := readAll_prog h hfl
        exact prog_of (t :: bs) (by simp) (by rw [hi, this.1]; simp) this.2
      · split at h
        · split at h <;> try (simp at h; done)
          rename_i n inp2 hs
          obtain ⟨⟨szb, hsz⟩, hfl2⟩ := readSize_prog hs hfl
          split at h
          · simp at h
          · have := readAll_prog h hfl2
            exact prog_of (t :: szb ++ bs) (by simp) (by rw [hi, hsz, this.1]; simp) this.2
        · split at h
          · split at h <;> try (simp at h; done)
            split at h <;> simp at h
          · simp at h
  · intro inp' h
    unfold readBytes at h
    split at h <;> try (simp at h; done)
    rename_i t inp1 ht
    obtain ⟨hi, hfl⟩ := readTag_prog ht
    simp only at h
    split at h
    · simp at h
    · split at h
      · unfold readAll at h; split at h <;> simp at h
      · split at h
        · split at h <;> try (simp at h; done)
          split at h
          · simp at h
          · unfold readAll at h; split at h <;> simp at h
        · split at h
          · split at h <;> try (simp at h; done)
            rename_i n inp2 hs
            obtain ⟨⟨szb, hsz⟩, hfl2⟩ := readSize_prog hs hfl
            split at h
            · simp only [Res.nil.injEq] at h
              subst h
              exact prog_of (t :: szb) (by simp) (by rw [hi, hsz]; simp) hfl2
            · simp at h
          · simp at h

/-- `readList`: progress, and the child reader's hard floor is the parent's floors -/
theorem readList_spec {r : Rd} {inp : Bytes} :
    (∀ c inp1, readList r inp = .ok c inp1 → Prog r inp inp1 ∧ c.hard = max r.lim.toNat r.hard) ∧
    (∀ inp', readList r inp = .nil inp' → Prog r inp inp') := by
  constructor
  · intro c inp' h
    unfold readList at h
    split at h <;> try (simp at h; done)
    rename_i t inp1 ht
    obtain ⟨hi, hfl⟩ := readTag_prog ht
    simp only at h
    split at h
    · simp at h
    · split at h
      · simp only [Res.ok.injEq] at h
        obtain ⟨h1, h2⟩ := h; subst h2; subst h1
        exact ⟨prog_of [t] (by simp) (by simpa using hi) hfl, rfl⟩
      · split at h <;> try (simp at h; done)
        rename_i n inp2 hs
        obtain ⟨⟨szb, hsz⟩, hfl2⟩ := readSize_prog hs hfl
        split at h
        · simp at h
        · simp only [Res.ok.injEq] at h
          obtain ⟨h1, h2⟩ := h; subst h2; subst h1
          exact ⟨prog_of (t :: szb) (by simp) (by rw [hi, hsz]; simp) hfl2, rfl⟩
  · intro inp' h
    unfold readList at h
    split at h <;> try (simp at h; done)
    rename_i t inp1 ht
    obtain ⟨hi, hfl⟩ := readTag_prog ht
    simp only at h
    split at h
    · simp at h
    · split at h
      · simp at h
      · split at h <;> try (simp at h; done)
        rename_i n inp2 hs
        obtain ⟨⟨szb, hsz⟩, hfl2⟩ := readSize_prog hs hfl
        split at h
        · simp only [Res.nil.injEq] at h
          subst h
          exact prog_of (t :: szb) (by simp) (by rw [hi, hsz]; simp) hfl2
        · simp at h

theorem close_spec {c : Rd} {inp inp' : Bytes} (h : close c inp = some inp') (hh : c.hard ≤ inp.length) :
    (∃ pre, inp = pre ++ inp') ∧ c.hard ≤ inp'.length := by
  unfold close at h
  split at h
  · simp only [Option.some.injEq] at h; subst h
    exact ⟨⟨[], by simp⟩, hh⟩
  · split at h
    · rename_i h1 h2
      simp only [Option.some.injEq] at h; subst h
      refine ⟨⟨inp.take (inp.length - c.lim.toNat), by simp⟩, ?_⟩
      simp only [List.length_drop]; omega
    · simp at h

/-- loops: the remaining input is a suffix and stays above the list reader's hard floor -/
theorem decElems_spec {c : Rd} {f : Bytes → Res Val} (hf : Good c f) (z : Val) :
    ∀ (fuel : Nat) (inp inp' : Bytes) (xs : List Val), decElems f z fuel inp = some (xs, inp') →
      c.hard ≤ inp.length → (∃ pre, inp = pre ++ inp') ∧ c.hard ≤ inp'.length
  | 0, _, _, _, h, _ => by simp [decElems] at h
  | fuel + 1, inp, inp', xs, h, hh => by
    simp only [decElems] at h
    split at h
    · rename_i v i1 hv
      obtain ⟨_, ⟨pre, hpre⟩, hfl⟩ := (hf inp).1 v i1 hv
      cases hr : decElems f z fuel i1 with
      | none => simp [hr] at h
      | some p =>
        simp only [hr, Option.map_some, Option.some.injEq, Prod.mk.injEq] at h
        obtain ⟨⟨pre2, hp2⟩, hfl2⟩ := decElems_spec hf z fuel i1 p.2 p.1 (by rw [hr]) (by omega)
        rw [← h.2]
        exact ⟨⟨pre ++ pre2, by rw [hpre, hp2]; simp⟩, hfl2⟩
    · rename_i i1 hv
      obtain ⟨_, ⟨pre, hpre⟩, hfl⟩ := (hf inp).2 i1 hv
      cases hr : decElems f z fuel i1 with
      | none => simp [hr] at h
      | some p =>
        simp only [hr, Option.map_some, Option.some.injEq, Prod.mk.injEq] at h
        obtain ⟨⟨pre2, hp2⟩, hfl2⟩ := decElems_spec hf z fuel i1 p.2 p.1 (by rw [hr]) (by omega)
        rw [← h.2]
        exact ⟨⟨pre ++ pre2, by rw [hpre, hp2]; simp⟩, hfl2⟩
    · simp only [Option.some.injEq, Prod.mk.injEq] at h
      rw [← h.2]; exact ⟨⟨[], by simp⟩, hh⟩
    · simp at h

theorem decArr_spec {c : Rd} {f : Bytes → Res Val} (hf : Good c f) (z : Val) :
    ∀ (n : Nat) (inp inp' : Bytes) (xs : List Val), decArr f z n inp = some (xs, inp') →
      c.hard ≤ inp.length → (∃ pre, inp = pre ++ inp') ∧ c.hard ≤ inp'.length
  | 0, inp, inp', xs, h, hh => by
    simp only [decArr, Option.some.injEq, Prod.mk.injEq] at h
    rw [← h.2]; exact ⟨⟨[], by simp⟩, hh⟩
  | n + 1, inp, inp', xs, h, hh => by
    simp only [decArr] at h
    split at h
    · rename_i v i1 hv
      obtain ⟨_, ⟨pre, hpre⟩, hfl⟩ := (hf inp).1 v i1 hv
      cases hr : decArr f z n i1 with
      | none => simp [hr] at h
      | some p =>
        simp only [hr, Option.map_some, Option.some.injEq, Prod.mk.injEq] at h
        obtain ⟨⟨pre2, hp2⟩, hfl2⟩ := decArr_spec hf z n i1 p.2 p.1 (by rw [hr]) (by omega)
        rw [← h.2]
        exact ⟨⟨pre ++ pre2, by rw [hpre, hp2]; simp⟩, hfl2⟩
    · rename_i i1 hv
      obtain ⟨_, ⟨pre, hpre⟩, hfl⟩ := (hf inp).2 i1 hv
      cases hr : decArr f z n i1 with
      | none => simp [hr] at h
      | some p =>
        simp only [hr, Option.map_some, Option.some.injEq, Prod.mk.injEq] at h
        obtain ⟨⟨pre2, hp2⟩, hfl2⟩ := decArr_spec hf z n i1 p.2 p.1 (by rw [hr]) (by omega)
        rw [← h.2]
        exact ⟨⟨pre ++ pre2, by rw [hpre, hp2]; simp⟩, hfl2⟩
    · simp only [Option.some.injEq, Prod.mk.injEq] at h
      rw [← h.2]; exact ⟨⟨[], by simp⟩, hh⟩
    · simp at h

theorem decEntries_spec {c : Rd} {fk fv : Bytes → Res Val} (hk : Good c fk) (hv : Good c fv) (zv : Val) :
    ∀ (fuel : Nat) (inp inp' : Bytes) (kvs : List (Val × Val)), decEntries fk fv zv fuel inp = some (kvs, inp') →
      c.hard ≤ inp.length → (∃ pre, inp = pre ++ inp') ∧ c.hard ≤ inp'.length
  | 0, _, _, _, h, _ => by simp [decEntries] at h
  | fuel + 1, inp, inp', kvs, h, hh => by
    simp only [decEntries] at h
    split at h
    · simp only [Option.some.injEq, Prod.mk.injEq] at h
      rw [← h.2]; exact ⟨⟨[], by simp⟩, hh⟩
    · simp at h
    · simp at h
    · rename_i k i1 hkk
      obtain ⟨_, ⟨pre, hpre⟩, hfl⟩ := (hk inp).1 k i1 hkk
      split at h
      · simp at h
      · simp at h
      · rename_i v i2 hvv
        obtain ⟨_, ⟨pre1, hpre1⟩, hfl1⟩ := (hv i1).1 v i2 hvv
        cases hr : decEntries fk fv zv fuel i2 with
        | none => simp [hr] at h
        | some p =>
          simp only [hr, Option.map_some, Option.some.injEq, Prod.mk.injEq] at h
          obtain ⟨⟨pre2, hp2⟩, hfl2⟩ := decEntries_spec hk hv zv fuel i2 p.2 p.1 (by rw [hr]) (by omega)
          rw [← h.2]
          exact ⟨⟨pre ++ pre1 ++ pre2, by rw [hpre, hpre1, hp2]; simp⟩, hfl2⟩
      · rename_i i2 hvv
        obtain ⟨_, ⟨pre1, hpre1⟩, hfl1⟩ := (hv i1).2 i2 hvv
        cases hr : decEntries fk fv zv fuel i2 with
        | none => simp [hr] at h
        | some p =>
          simp only [hr, Option.map_some, Option.some.injEq, Prod.mk.injEq] at h
          obtain ⟨⟨pre2, hp2⟩, hfl2⟩ := decEntries_spec hk hv zv fuel i2 p.2 p.1 (by rw [hr]) (by omega)
          rw [← h.2]
          exact ⟨⟨pre ++ pre1 ++ pre2, by rw [hpre, hpre1, hp2]; simp⟩, hfl2⟩


/-- closes a leaf `h : <result> = .ok v inp'` / `= .nil inp'` by contradiction or by reading off the rest -/
macro "leaf " h:ident : tactic =>
  `(tactic| first
    | (simp at $h:ident; done)
    | (simp only [Res.ok.injEq] at $h:ident; exact ($h).2.symm)
    | (simp only [Res.nil.injEq] at $h:ident; exact ($h).symm))

/-- a type that is read with one `readBytes` makes progress -/
theorem good_of_readBytes {r : Rd} {f : Bytes → Res Val}
    (hok : ∀ inp v inp', f inp = .ok v inp' → (∃ bs, readBytes r inp = .ok bs inp') ∨ readBytes r inp = .nil inp')
    (hnil : ∀ inp inp', f inp = .nil inp' → readBytes r inp = .nil inp') : Good r f := by
  intro inp
  constructor
  · intro v inp' h
    rcases hok inp v inp' h with ⟨bs, hb⟩ | hb
    · exact (readBytes_good r inp).1 bs inp' hb
    · exact (readBytes_good r inp).2 inp' hb
  · intro inp' h
    exact (readBytes_good r inp).2 inp' (hnil inp inp' h)

macro "scalar_case" : tactic =>
  `(tactic| (
    apply good_of_readBytes
    · intro inp v inp' h
      cases hb : readBytes _ inp with
      | ok bs i =>
        left; refine ⟨bs, ?_⟩
        simp only [dec, hb] at h
        have hi : inp' = i := by
          first
          | leaf h
          | (split at h <;> first
              | leaf h
              | (split at h <;> first
                  | leaf h
                  | (split at h <;> leaf h)))
        rw [hi]
      | nil i =>
        right
        simp only [dec, hb] at h
        have hi : inp' = i := by leaf h
        rw [hi]
      | eof => simp [dec, hb] at h
      | err => simp [dec, hb] at h
    · intro inp inp' h
      cases hb : readBytes _ inp with
      | ok bs i =>
        simp only [dec, hb] at h
        exfalso
        first
        | (simp at h; done)
        | (split at h <;> first
            | (simp at h; done)
            | (split at h <;> first
                | (simp at h; done)
                | (split at h <;> (simp at h; done))))
      | nil i =>
        simp only [dec, hb] at h
        have hi : inp' = i := by leaf h
        rw [hi]
      | eof => simp [dec, hb] at h
      | err => simp [dec, hb] at h))

theorem prog_trans_suffix {r : Rd} {inp inp1 inp' : Bytes} (h1 : Prog r inp inp1)
    (h2 : ∃ pre, inp1 = pre ++ inp') (hfl : max r.lim.toNat r.hard ≤ inp'.length) : Prog r inp inp' := by
  obtain ⟨hlt, ⟨p1, hp1⟩, _⟩ := h1
  obtain ⟨p2, hp2⟩ := h2
  refine ⟨?_, ⟨p1 ++ p2, by rw [hp1, hp2]; simp⟩, hfl⟩
  rw [hp2] at hlt; simp only [List.length_append] at hlt; omega

mutual
theorem dec_good : ∀ (ty : Ty) (r : Rd), Good r (dec ty r)
  | .bool, r => by scalar_case
  | .uint _, r => by scalar_case
  | .int _, r => by scalar_case
  | .str, r => by scalar_case
  | .bytes, r => by scalar_case
  | .barr _, r => by scalar_case
  | .big, r => by scalar_case
  | .ptr e, r => by
    intro inp
    have ih := dec_good e r inp
    cases hd : dec e r inp with
    | ok v i =>
      constructor
      · intro v' inp' h
        simp only [dec, hd, Res.ok.injEq] at h
        rw [← h.2]; exact ih.1 v i hd
      · intro inp' h; simp [dec, hd] at h
    | nil i =>
      constructor
      · intro v' inp' h
        simp only [dec, hd, Res.ok.injEq] at h
        rw [← h.2]; exact ih.2 i hd
      · intro inp' h; simp [dec, hd] at h
    | eof => constructor <;> (intros; simp_all [dec])
    | err => constructor <;> (intros; simp_all [dec])
  | .slice e, r => by
    intro inp
    cases hl : readList r inp with
    | ok c inp1 =>
      obtain ⟨hp, hch⟩ := readList_spec.1 c inp1 hl
      have hh : c.hard ≤ inp1.length := by rw [hch]; exact hp.2.2
      constructor
      · intro v inp' h
        simp only [dec, hl] at h
        split at h
        · simp at h
        · rename_i xs inp2 he
          obtain ⟨hs2, hf2⟩ := decElems_spec (dec_good e c) (zero e) _ inp1 inp2 xs he hh
          split at h
          · simp at h
          · rename_i inp3 hc
            obtain ⟨hs3, hf3⟩ := close_spec hc hf2
            simp only [Res.ok.injEq] at h
            rw [← h.2]
            obtain ⟨p2, hp2⟩ := hs2
            obtain ⟨p3, hp3⟩ := hs3
            exact prog_trans_suffix hp ⟨p2 ++ p3, by rw [hp2, hp3]; simp⟩ (by rw [← hch]; exact hf3)
      · intro inp' h
        simp only [dec, hl] at h
        split at h
        · simp at h
        · split at h <;> simp at h
    | nil i =>
      have hp := readList_spec.2 i hl
      constructor
      · intro v inp' h
        simp only [dec, hl, Res.ok.injEq] at h
        rw [← h.2]; exact hp
      · intro inp' h; simp [dec, hl] at h
    | eof => constructor <;> (intros; simp_all [dec])
    | err => constructor <;> (intros; simp_all [dec])
  | .arr n e, r => by
    intro inp
    cases hl : readList r inp with
    | ok c inp1 =>
      obtain ⟨hp, hch⟩ := readList_spec.1 c inp1 hl
      have hh : c.hard ≤ inp1.length := by rw [hch]; exact hp.2.2
      constructor
      · intro v inp' h
        simp only [dec, hl] at h
        split at h
        · simp at h
        · rename_i xs inp2 he
          obtain ⟨hs2, hf2⟩ := decArr_spec (dec_good e c) (zero e) n inp1 inp2 xs he hh
          split at h
          · simp at h
          · rename_i inp3 hc
            obtain ⟨hs3, hf3⟩ := close_spec hc hf2
            simp only [Res.ok.injEq] at h
            rw [← h.2]
            obtain ⟨p2, hp2⟩ := hs2
            obtain ⟨p3, hp3⟩ := hs3
            exact prog_trans_suffix hp ⟨p2 ++ p3, by rw [hp2, hp3]; simp⟩ (by rw [← hch]; exact hf3)
      · intro inp' h
        simp only [dec, hl] at h
        split at h
        · simp at h
        · split at h <;> simp at h
    | nil i =>
      have hp := readList_spec.2 i hl
      constructor
      · intro v inp' h; simp [dec, hl] at h
      · intro inp' h
        simp only [dec, hl, Res.nil.injEq] at h
        rw [← h]; exact hp
    | eof => constructor <;> (intros; simp_all [dec])
    | err => constructor <;> (intros; simp_all [dec])
  | .struct fs, r => by
    intro inp
    cases hl : readList r inp with
    | ok c inp1 =>
      obtain ⟨hp, hch⟩ := readList_spec.1 c inp1 hl
      have hh : c.hard ≤ inp1.length := by rw [hch]; exact hp.2.2
      have hfs := decFields_spec fs c inp1 hh
      constructor
      · intro v inp' h
        simp only [dec, hl] at h
        split at h
        · rename_i xs inp2 he
          obtain ⟨hs2, hf2⟩ := hfs.1 xs inp2 he
          split at h
          · simp at h
          · rename_i inp3 hc
            obtain ⟨hs3, hf3⟩ := close_spec hc hf2
            simp only [Res.ok.injEq] at h
            rw [← h.2]
            obtain ⟨p2, hp2⟩ := hs2
            obtain ⟨p3, hp3⟩ := hs3
            exact prog_trans_suffix hp ⟨p2 ++ p3, by rw [hp2, hp3]; simp⟩ (by rw [← hch]; exact hf3)
        · split at h <;> simp at h
        · simp at h
        · simp at h
      · intro inp' h
        simp only [dec, hl] at h
        split at h
        · split at h <;> simp at h
        · rename_i inp2 he
          obtain ⟨hs2, hf2⟩ := hfs.2 inp2 he
          split at h
          · simp at h
          · rename_i inp3 hc
            obtain ⟨hs3, hf3⟩ := close_spec hc hf2
            simp only [Res.nil.injEq] at h
            rw [← h]
            obtain ⟨p2, hp2⟩ := hs2
            obtain ⟨p3, hp3⟩ := hs3
            exact prog_trans_suffix hp ⟨p2 ++ p3, by rw [hp2, hp3]; simp⟩ (by rw [← hch]; exact hf3)
        · simp at h
        · simp at h
    | nil i =>
      have hp := readList_spec.2 i hl
      constructor
      · intro v inp' h; simp [dec, hl] at h
      · intro inp' h
        simp only [dec, hl, Res.nil.injEq] at h
        rw [← h]; exact hp
    | eof => constructor <;> (intros; simp_all [dec])
    | err => constructor <;> (intros; simp_all [dec])
  | .map k v', r => by
    intro inp
    cases hl : readList r inp with
    | ok c inp1 =>
      obtain ⟨hp, hch⟩ := readList_spec.1 c inp1 hl
      have hh : c.hard ≤ inp1.length := by rw [hch]; exact hp.2.2
      constructor
      · intro v inp' h
        simp only [dec, hl] at h
        split at h
        · simp at h
        · rename_i kvs inp2 he
          obtain ⟨hs2, hf2⟩ := decEntries_spec (dec_good k c) (dec_good v' c) (zero v') _ inp1 inp2 kvs he hh
          split at h
          · simp at h
          · rename_i inp3 hc
            obtain ⟨hs3, hf3⟩ := close_spec hc hf2
            simp only [Res.ok.injEq] at h
            rw [← h.2]
            obtain ⟨p2, hp2⟩ := hs2
            obtain ⟨p3, hp3⟩ := hs3
            exact prog_trans_suffix hp ⟨p2 ++ p3, by rw [hp2, hp3]; simp⟩ (by rw [← hch]; exact hf3)
      · intro inp' h
        simp only [dec, hl] at h
        split at h
        · simp at h
        · split at h <;> simp at h
    | nil i =>
      have hp := readList_spec.2 i hl
      constructor
      · intro v inp' h
        simp only [dec, hl, Res.ok.injEq] at h
        rw [← h.2]; exact hp
      · intro inp' h; simp [dec, hl] at h
    | eof => constructor <;> (intros; simp_all [dec])
    | err => constructor <;> (intros; simp_all [dec])
theorem decFields_spec : ∀ (fs : List Ty) (c : Rd) (inp : Bytes), c.hard ≤ inp.length →
    (∀ xs inp', decFields fs c inp = .ok xs inp' → (∃ pre, inp = pre ++ inp') ∧ c.hard ≤ inp'.length) ∧
    (∀ inp', decFields fs c inp = .nil inp' → (∃ pre, inp = pre ++ inp') ∧ c.hard ≤ inp'.length)
  | [], c, inp, hh => by
    constructor
    · intro xs inp' h
      simp only [decFields, Res.ok.injEq] at h
      rw [← h.2]; exact ⟨⟨[], by simp⟩, hh⟩
    · intro inp' h; simp [decFields] at h
  | f :: fs, c, inp, hh => by
    have ihd := dec_good f c inp
    cases hd : dec f c inp with
    | ok v i1 =>
      obtain ⟨_, ⟨p1, hp1⟩, hfl⟩ := ihd.1 v i1 hd
      have hh1 : c.hard ≤ i1.length := by omega
      have ih := decFields_spec fs c i1 hh1
      constructor
      · intro xs inp' h
        simp only [decFields, hd] at h
        split at h <;> try (simp at h; done)
        rename_i vs i2 he
        obtain ⟨⟨p2, hp2⟩, hf2⟩ := ih.1 vs i2 he
        simp only [Res.ok.injEq] at h
        rw [← h.2]
        exact ⟨⟨p1 ++ p2, by rw [hp1, hp2]; simp⟩, hf2⟩
      · intro inp' h
        simp only [decFields, hd] at h
        split at h <;> try (simp at h; done)
        rename_i i2 he
        obtain ⟨⟨p2, hp2⟩, hf2⟩ := ih.2 i2 he
        simp only [Res.nil.injEq] at h
        rw [← h]
        exact ⟨⟨p1 ++ p2, by rw [hp1, hp2]; simp⟩, hf2⟩
    | eof =>
      have ih := decFields_spec fs c inp hh
      constructor
      · intro xs inp' h
        simp only [decFields, hd] at h
        split at h <;> try (simp at h; done)
        rename_i vs i2 he
        simp only [Res.ok.injEq] at h
        rw [← h.2]
        exact ih.1 vs i2 he
      · intro inp' h
        simp only [decFields, hd] at h
        split at h <;> try (simp at h; done)
        rename_i i2 he
        simp only [Res.nil.injEq] at h
        rw [← h]
        exact ih.2 i2 he
    | nil i =>
      obtain ⟨_, hs, hfl⟩ := ihd.2 i hd
      constructor
      · intro xs inp' h; simp [decFields, hd] at h
      · intro inp' h
        simp only [decFields, hd, Res.nil.injEq] at h
        rw [← h]; exact ⟨hs, by omega⟩
    | err =>
      constructor <;> (intros; simp_all [decFields])
end


/-! ### the loop bounds of the model never bind -/

theorem decElems_fuel {c : Rd} {f : Bytes → Res Val} (hf : Good c f) (z : Val) :
    ∀ (fuel1 fuel2 : Nat) (inp : Bytes), inp.length < fuel1 → inp.length < fuel2 →
      decElems f z fuel1 inp = decElems f z fuel2 inp
  | 0, _, _, h, _ => by omega
  | _ + 1, 0, _, _, h => by omega
  | f1 + 1, f2 + 1, inp, h1, h2 => by
    simp only [decElems]
    cases hv : f inp with
    | ok v i1 =>
      have := ((hf inp).1 v i1 hv).1
      simp only
      rw [decElems_fuel hf z f1 f2 i1 (by omega) (by omega)]
    | nil i1 =>
      have := ((hf inp).2 i1 hv).1
      simp only
      rw [decElems_fuel hf z f1 f2 i1 (by omega) (by omega)]
    | eof => rfl
    | err => rfl

theorem decEntries_fuel {c : Rd} {fk fv : Bytes → Res Val} (hk : Good c fk) (hv : Good c fv) (zv : Val) :
    ∀ (fuel1 fuel2 : Nat) (inp : Bytes), inp.length < fuel1 → inp.length < fuel2 →
      decEntries fk fv zv fuel1 inp = decEntries fk fv zv fuel2 inp
  | 0, _, _, h, _ => by omega
  | _ + 1, 0, _, _, h => by omega
  | f1 + 1, f2 + 1, inp, h1, h2 => by
    simp only [decEntries]
    cases hkk : fk inp with
    | ok k i1 =>
      have := ((hk inp).1 k i1 hkk).1
      simp only
      cases hvv : fv i1 with
      | ok v i2 =>
        have := ((hv i1).1 v i2 hvv).1
        simp only
        rw [decEntries_fuel hk hv zv f1 f2 i2 (by omega) (by omega)]
      | nil i2 =>
        have := ((hv i1).2 i2 hvv).1
        simp only
        rw [decEntries_fuel hk hv zv f1 f2 i2 (by omega) (by omega)]
      | eof => rfl
      | err => rfl
    | nil i1 => rfl
    | eof => rfl
    | err => rfl

end Goloop.C23
