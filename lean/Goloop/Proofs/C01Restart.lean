/-
  Proofs/C01Restart — crash and restart for the lock rule (G2 / G3 / Finalize rule).

  * the trace facts `TR` (G2, G3 with exact timing, Finalize rule, "WAL vote lists hold known votes")
    are closed under the crash cut;
  * the WAL replay (applyRoundWAL + applyLockWAL + applyCommitWAL) puts only KNOWN votes back into the
    height vote set — derived from the code: every record in a durable WAL was written by the machine
    (`walDurable_sub`), every vote list it wrote held known votes (`T3.wl`), every own vote it wrote to
    the round WAL was also signed-and-sent (`SignClosed`, a condition on the crash point);
  * the replay never restores step commit;
  * hence the replayed state satisfies all three running invariants PROVIDED `RLS` (RestoreLockSound):
    the restored lock is on the block of the machine's last non-nil precommit of the height, with
    lockedRound ≥ that precommit's round.  `RLS` is false for the unchanged code (F1).
-/
import Goloop.Proofs.C01G3Step
import Goloop.Proofs.C02Restart
namespace Goloop.C01

/-! ### what is in a durable WAL was written -/

theorem walGo_mem (w : Wal) (st : List Rec × List Rec) (es : List Eff) (r : Rec)
    (h : r ∈ (walGo w st es).1) : r ∈ st.1 ∨ r ∈ st.2 ∨ Eff.write w r ∈ es := by
  induction es generalizing st with
  | nil => exact Or.inl h
  | cons e t ih =>
    cases e with
    | write w' r' =>
      unfold walGo at h
      split at h
      · rename_i hw
        rcases ih _ h with h1 | h1 | h1
        · exact Or.inl h1
        · simp only [List.mem_append, List.mem_singleton] at h1
          rcases h1 with h1 | h1
          · exact Or.inr (Or.inl h1)
          · right; right; rw [h1, hw]; exact List.mem_cons_self
        · exact Or.inr (Or.inr (List.mem_cons_of_mem _ h1))
      · rcases ih _ h with h1 | h1 | h1
        · exact Or.inl h1
        · exact Or.inr (Or.inl h1)
        · exact Or.inr (Or.inr (List.mem_cons_of_mem _ h1))
    | sync w' =>
      unfold walGo at h
      split at h
      · rcases ih _ h with h1 | h1 | h1
        · simp only [List.mem_append] at h1
          rcases h1 with h1 | h1
          · exact Or.inl h1
          · exact Or.inr (Or.inl h1)
        · cases h1
        · exact Or.inr (Or.inr (List.mem_cons_of_mem _ h1))
      · rcases ih _ h with h1 | h1 | h1
        · exact Or.inl h1
        · exact Or.inr (Or.inl h1)
        · exact Or.inr (Or.inr (List.mem_cons_of_mem _ h1))
    | crash k =>
      unfold walGo at h
      rcases ih _ h with h1 | h1 | h1
      · simp only [List.mem_append] at h1
        rcases h1 with h1 | h1
        · exact Or.inl h1
        · exact Or.inr (Or.inl (List.mem_of_mem_take h1))
      · cases h1
      · exact Or.inr (Or.inr (List.mem_cons_of_mem _ h1))
    | send m =>
      unfold walGo at h
      rcases ih _ h with h1 | h1 | h1
      · exact Or.inl h1
      · exact Or.inr (Or.inl h1)
      · exact Or.inr (Or.inr (List.mem_cons_of_mem _ h1))
    | finalize hh b =>
      unfold walGo at h
      rcases ih _ h with h1 | h1 | h1
      · exact Or.inl h1
      · exact Or.inr (Or.inl h1)
      · exact Or.inr (Or.inr (List.mem_cons_of_mem _ h1))

/-- every record a (re)starting validator reads from a WAL was written to that WAL by the machine -/
theorem walDurable_sub (w : Wal) (es : List Eff) (r : Rec) (h : r ∈ walDurable w es) :
    Eff.write w r ∈ es := by
  rcases walGo_mem w ([], []) es r h with h1 | h1 | h1
  · cases h1
  · cases h1
  · exact h1

/-! ### the replay keeps H2 when every record holds known votes -/

/-- a WAL record is harmless: its votes are known -/
def RecOK (L : List VoteRec) (sent : List Msg) : Rec → Prop
  | .msg (.vote m) => Known L sent m
  | .voteList vs => VLOk L sent vs
  | _ => True

/-- the same, ignoring signed messages (the lock and commit WAL replays skip them) -/
def RecOKv (L : List VoteRec) (sent : List Msg) : Rec → Prop
  | .voteList vs => VLOk L sent vs
  | _ => True

section
variable {L : List VoteRec}

theorem sent_hvsAdd (s : S) (m : VoteRec) : sentOf (s.hvsAdd m).2.eff = sentOf s.eff :=
  congrArg Ctrl.sent (ctrl_hvsAdd s m)

theorem h2_addVotes (s : S) (vl : List VoteRec) (hk : ∀ v, v ∈ vl → Known L (sentOf s.eff) v)
    (hh : H2 L s) : H2 L (addVotes s vl) := by
  induction vl generalizing s with
  | nil => exact hh
  | cons v t ih =>
    unfold addVotes
    split
    · exact ih s (fun x hx => hk x (List.mem_cons_of_mem _ hx)) hh
    rename_i hht
    split
    · exact ih s (fun x hx => hk x (List.mem_cons_of_mem _ hx)) hh
    rename_i hlt
    apply ih
    · intro x hx; rw [sent_hvsAdd]; exact hk x (List.mem_cons_of_mem _ hx)
    · exact h2_hvsAdd s v hh (by omega) (by simpa using hht) (hk v List.mem_cons_self)

theorem h2_addVotesC (s : S) (vl : List VoteRec) (hk : ∀ v, v ∈ vl → Known L (sentOf s.eff) v)
    (hht : ∀ v, v ∈ vl → v.height = s.height) (hh : H2 L s) : H2 L (applyCommitWAL.addVotesC s vl) := by
  induction vl generalizing s with
  | nil => exact hh
  | cons v t ih =>
    unfold applyCommitWAL.addVotesC
    split
    · exact ih s (fun x hx => hk x (List.mem_cons_of_mem _ hx)) (fun x hx => hht x (List.mem_cons_of_mem _ hx)) hh
    rename_i hlt
    apply ih
    · intro x hx; rw [sent_hvsAdd]; exact hk x (List.mem_cons_of_mem _ hx)
    · intro x hx
      rw [(hvsAdd_keep s v).1.1]
      exact hht x (List.mem_cons_of_mem _ hx)
    · exact h2_hvsAdd s v hh (by omega) (hht v List.mem_cons_self) (hk v List.mem_cons_self)

theorem gproj_advanceByList (s : S) (v : VoteRec) : gproj (advanceByList s v) = gproj s := by
  unfold advanceByList; simp only []
  split
  · rfl
  · split
    · split <;> rfl
    · rfl

theorem eff_addVotes (s : S) (vl : List VoteRec) : (addVotes s vl).eff = s.eff := by
  have := congrArg (fun p => p.2.2.2.2.1) (rproj_addVotes s vl); exact this

theorem eff_addVotesC (s : S) (vl : List VoteRec) : (applyCommitWAL.addVotesC s vl).eff = s.eff := by
  have := congrArg (fun p => p.2.2.2.2.1) (rproj_addVotesC s vl); exact this

theorem h2_applyRoundWAL (s : S) (W : List Rec) (sent : List Msg) (he : sentOf s.eff = sent)
    (hW : ∀ r, r ∈ W → RecOK L sent r) (hh : H2 L s) : H2 L (applyRoundWAL s W) := by
  induction W generalizing s with
  | nil => unfold applyRoundWAL; exact hh
  | cons r t ih =>
    have hW' : ∀ r, r ∈ t → RecOK L sent r := fun x hx => hW x (List.mem_cons_of_mem _ hx)
    have hr := hW r List.mem_cons_self
    cases r with
    | msg m =>
      cases m with
      | proposal sg h r b pol =>
        unfold applyRoundWAL
        split
        · exact ih s he hW' hh
        · split
          · exact ih s he hW' hh
          · split
            · exact ih _ he hW' (h2_of_gproj_eq (s := s) rfl hh)
            · exact ih s he hW' hh
      | vote m =>
        unfold applyRoundWAL
        split
        · exact ih s he hW' hh
        rename_i hht
        split
        · exact ih s he hW' hh
        split
        · exact ih s he hW' hh
        rename_i hlt
        have hk : Known L (sentOf s.eff) m := by rw [he]; exact hr
        have h1 : H2 L (s.hvsAdd m).2 := h2_hvsAdd s m hh (by omega) (by simpa using hht) hk
        have e1 : sentOf (s.hvsAdd m).2.eff = sent := by rw [sent_hvsAdd, he]
        simp only []
        split
        · exact ih _ e1 hW' (h2_of_gproj_eq (s := (s.hvsAdd m).2) rfl h1)
        · exact ih _ e1 hW' h1
    | voteList vl =>
      unfold applyRoundWAL
      simp only []
      have hv : VLOk L sent vl := hr
      have h1 : H2 L (addVotes s vl) := h2_addVotes s vl (by intro v hv'; rw [he]; exact hv.1 v hv') hh
      have e1 : sentOf (addVotes s vl).eff = sent := by rw [eff_addVotes, he]
      split
      · exact ih _ e1 hW' h1
      · rename_i v vs
        refine ih _ ?_ hW' (h2_of_gproj_eq (gproj_advanceByList _ _) h1)
        have := congrArg (fun p => p.2.2.2) (gproj_advanceByList (addVotes s (v :: vs)) v)
        rw [show sentOf (advanceByList _ v).eff = _ from this]; exact e1
    | blockPart h b => unfold applyRoundWAL; exact ih s he hW' hh

theorem h2_applyLockWAL (s : S) (bp last : Option (Blk × Nat)) (W : List Rec) (sent : List Msg)
    (he : sentOf s.eff = sent) (hW : ∀ r, r ∈ W → RecOKv L sent r) (hh : H2 L s) :
    H2 L (applyLockWAL s bp last W) := by
  induction W generalizing s bp last with
  | nil =>
    unfold applyLockWAL
    split
    · exact h2_of_gproj_eq (s := s) rfl hh
    · exact hh
  | cons r t ih =>
    have hW' : ∀ r, r ∈ t → RecOKv L sent r := fun x hx => hW x (List.mem_cons_of_mem _ hx)
    have hr := hW r List.mem_cons_self
    cases r with
    | msg m => unfold applyLockWAL; exact ih s bp last he hW' hh
    | voteList vl =>
      cases vl with
      | nil => unfold applyLockWAL; exact ih s bp last he hW' hh
      | cons v vs =>
        unfold applyLockWAL
        simp only []
        have hv : VLOk L sent (v :: vs) := hr
        have h1 : H2 L (addVotes s (v :: vs)) :=
          h2_addVotes s (v :: vs) (by intro x hx; rw [he]; exact hv.1 x hx) hh
        have e1 : sentOf (addVotes s (v :: vs)).eff = sent := by rw [eff_addVotes, he]
        split
        · exact ih _ bp last e1 hW' h1
        · refine ih _ _ last ?_ hW' (h2_of_gproj_eq (gproj_advanceByList _ _) h1)
          have := congrArg (fun p => p.2.2.2) (gproj_advanceByList (addVotes s (v :: vs)) v)
          rw [show sentOf (advanceByList _ v).eff = _ from this]; exact e1
    | blockPart h b =>
      unfold applyLockWAL
      split
      · exact ih s bp last he hW' hh
      · split
        · exact ih s _ last he hW' hh
        · split
          · exact ih s _ _ he hW' hh
          · exact ih s _ last he hW' hh

theorem h2_applyCommitWAL (s : S) (W : List Rec) (sent : List Msg) (he : sentOf s.eff = sent)
    (hW : ∀ r, r ∈ W → RecOKv L sent r) (hh : H2 L s) : H2 L (applyCommitWAL s W) := by
  induction W generalizing s with
  | nil => unfold applyCommitWAL; exact hh
  | cons r t ih =>
    have hW' : ∀ r, r ∈ t → RecOKv L sent r := fun x hx => hW x (List.mem_cons_of_mem _ hx)
    have hr := hW r List.mem_cons_self
    cases r with
    | msg m => unfold applyCommitWAL; exact ih s he hW' hh
    | blockPart h b => unfold applyCommitWAL; exact ih s he hW' hh
    | voteList vl =>
      cases vl with
      | nil => unfold applyCommitWAL; exact ih s he hW' hh
      | cons v vs =>
        unfold applyCommitWAL
        have hv : VLOk L sent (v :: vs) := hr
        split
        · rename_i hvh
          have hvh' : v.height = s.height := by simpa using hvh
          simp only []
          have h1 : H2 L (applyCommitWAL.addVotesC s (v :: vs)) :=
            h2_addVotesC s (v :: vs) (by intro x hx; rw [he]; exact hv.1 x hx)
              (by intro x hx; rw [hv.2 x hx v List.mem_cons_self]; exact hvh') hh
          have e1 : sentOf (applyCommitWAL.addVotesC s (v :: vs)).eff = sent := by rw [eff_addVotesC, he]
          refine ih _ ?_ hW' (h2_of_gproj_eq (gproj_advanceByList _ _) h1)
          have := congrArg (fun p => p.2.2.2) (gproj_advanceByList (applyCommitWAL.addVotesC s (v :: vs)) v)
          rw [show sentOf (advanceByList _ v).eff = _ from this]; exact e1
        · exact ih s he hW' hh

/-! ### the replay never restores step commit -/

theorem mstepOf_le (t : VType) : mstepOf t ≤ stPrecommit := by cases t <;> decide

theorem sb_advanceByList (s : S) (v : VoteRec) (h : s.step ≤ stPrecommit) :
    (advanceByList s v).step ≤ stPrecommit := by
  unfold advanceByList; simp only []
  split
  · exact h
  · split
    · split
      · exact mstepOf_le _
      · exact h
    · exact h

theorem sb_applyRoundWAL (s : S) (W : List Rec) (h : s.step ≤ stPrecommit) :
    (applyRoundWAL s W).step ≤ stPrecommit := by
  induction W generalizing s with
  | nil => unfold applyRoundWAL; exact h
  | cons r t ih =>
    cases r with
    | msg m =>
      cases m with
      | proposal sg hh r b pol =>
        unfold applyRoundWAL
        split
        · exact ih s h
        · split
          · exact ih s h
          · split
            · exact ih _ (by show stPropose ≤ stPrecommit; decide)
            · exact ih s h
      | vote m =>
        unfold applyRoundWAL
        split
        · exact ih s h
        split
        · exact ih s h
        split
        · exact ih s h
        simp only []
        split
        · exact ih _ (mstepOf_le _)
        · exact ih _ (by rw [(hvsAdd_keep s m).2.2]; exact h)
    | voteList vl =>
      unfold applyRoundWAL
      simp only []
      have h1 : (addVotes s vl).step ≤ stPrecommit := by rw [(addVotes_keep s vl).2.2]; exact h
      split
      · exact ih _ h1
      · exact ih _ (sb_advanceByList _ _ h1)
    | blockPart hh b => unfold applyRoundWAL; exact ih s h

theorem sb_applyLockWAL (s : S) (bp last : Option (Blk × Nat)) (W : List Rec) (h : s.step ≤ stPrecommit) :
    (applyLockWAL s bp last W).step ≤ stPrecommit := by
  induction W generalizing s bp last with
  | nil => unfold applyLockWAL; split <;> exact h
  | cons r t ih =>
    cases r with
    | msg m => unfold applyLockWAL; exact ih s bp last h
    | voteList vl =>
      cases vl with
      | nil => unfold applyLockWAL; exact ih s bp last h
      | cons v vs =>
        unfold applyLockWAL
        simp only []
        have h1 : (addVotes s (v :: vs)).step ≤ stPrecommit := by rw [(addVotes_keep s (v :: vs)).2.2]; exact h
        split
        · exact ih _ bp last h1
        · exact ih _ _ last (sb_advanceByList _ _ h1)
    | blockPart hh b =>
      unfold applyLockWAL
      split
      · exact ih s bp last h
      · split
        · exact ih s _ last h
        · split
          · exact ih s _ _ h
          · exact ih s _ last h

theorem sb_applyCommitWAL (s : S) (W : List Rec) (h : s.step ≤ stPrecommit) :
    (applyCommitWAL s W).step ≤ stPrecommit := by
  induction W generalizing s with
  | nil => unfold applyCommitWAL; exact h
  | cons r t ih =>
    cases r with
    | msg m => unfold applyCommitWAL; exact ih s h
    | blockPart hh b => unfold applyCommitWAL; exact ih s h
    | voteList vl =>
      cases vl with
      | nil => unfold applyCommitWAL; exact ih s h
      | cons v vs =>
        unfold applyCommitWAL
        split
        · simp only []
          have h1 : (applyCommitWAL.addVotesC s (v :: vs)).step ≤ stPrecommit := by
            rw [(addVotesC_keep s (v :: vs)).2]; exact h
          exact ih _ (sb_advanceByList _ _ h1)
        · exact ih s h

end

def votesOf (ms : List Msg) : List VoteRec :=
  ms.filterMap (fun m => match m with | .vote v => some v | _ => none)

theorem mem_votesOf {ms : List Msg} {v : VoteRec} : v ∈ votesOf ms ↔ Msg.vote v ∈ ms := by
  unfold votesOf
  rw [List.mem_filterMap]
  constructor
  · rintro ⟨m, hm, he⟩
    cases m with
    | proposal => simp at he
    | vote w => simp at he; subst he; exact hm
  · intro h
    exact ⟨_, h, rfl⟩

/-! ### trace facts, closed under the crash cut -/

structure TR (L : List VoteRec) (n : Nat) (eff : List Eff) : Prop where
  g3 : ∀ pre w post, sentOf eff = pre ++ Msg.vote w :: post → w.typ = .prevote →
        ∀ v b, Msg.vote v ∈ pre → v.typ = .precommit → v.val = some b → v.height = w.height →
          v.round < w.round → w.val ≠ some b →
          ∃ r'' y, v.round < r'' ∧ r'' ≤ w.round ∧ y ≠ some b ∧
            quorumKnown L n pre w.height .prevote r'' y
  g2 : ∀ pre v post b, sentOf eff = pre ++ Msg.vote v :: post → v.typ = .precommit → v.val = some b →
        quorumKnown L n pre v.height .prevote v.round (some b)
  tr : T3 L n eff

theorem tr_of_h3 {L : List VoteRec} {base : List Eff} {R : Nat} {s : S} (hh : H3 L base R s) :
    TR L s.n s.eff := ⟨hh.g3, hh.g2, hh.tr⟩

theorem tr_mono_L {L L' : List VoteRec} {n : Nat} {eff : List Eff} (hL : ∀ x, x ∈ L → x ∈ L')
    (ht : TR L n eff) : TR L' n eff := by
  refine ⟨?_, ?_, t3_mono_L hL ht.tr⟩
  · intro pre w post hd hwt v b hv hvt hval hht hr hne
    obtain ⟨r'', y, a1, a2, a3, a4⟩ := ht.g3 pre w post hd hwt v b hv hvt hval hht hr hne
    exact ⟨r'', y, a1, a2, a3, quorumKnown_mono hL (fun _ h => h) a4⟩
  · intro pre v post b hd hvt hval
    exact quorumKnown_mono hL (fun _ h => h) (ht.g2 pre v post b hd hvt hval)

/-- the crash cut: any prefix of the trace plus the crash marker -/
theorem tr_crash {L : List VoteRec} {n : Nat} {eff : List Eff} (cut k : Nat) (ht : TR L n eff) :
    TR L n (eff.take cut ++ [.crash k]) := by
  have hs : sentOf (eff.take cut ++ [.crash k]) = sentOf (eff.take cut) :=
    sentOf_nonsend _ _ (by intro m; simp)
  obtain ⟨rest, hr⟩ := sentOf_take_prefix eff cut
  refine ⟨?_, ?_, ?_⟩
  · intro pre w post hd
    rw [hs] at hd
    exact ht.g3 pre w (post ++ rest) (by rw [hr, hd]; simp)
  · intro pre v post b hd
    rw [hs] at hd
    exact ht.g2 pre v (post ++ rest) b (by rw [hr, hd]; simp)
  · exact t3_append _ (t3_take cut ht.tr) (by intro h b h'; cases h') (by intro w vs h'; cases h')

/-! ### RestoreLockSound -/

/-- every own vote written to the round WAL within the trace was also handed to the network within it
    (the crash did not fall between the WAL write of a vote and its send) -/
def SignClosed (eff : List Eff) : Prop :=
  ∀ v, Eff.write .round (.msg (.vote v)) ∈ eff → Msg.vote v ∈ sentOf eff

/-- the own non-nil precommits of height `h`, in signing order -/
def nnPrecommitsAt (sent : List Msg) (h : Nat) : List VoteRec :=
  (votesOf sent).filter (fun v => v.typ == .precommit && v.val.isSome && v.height == h)

/-- **RestoreLockSound** for a stopped machine `s`: if the machine has signed a non-nil precommit for
    the height it restarts in, then the WAL replay restores a lock on the block of the LAST such
    precommit, with lockedRound at least that precommit's round.  Nothing is required when there is no
    such precommit, nothing about earlier precommits, nothing about the restored round / step / votes. -/
def RLS (s : S) : Prop :=
  ∀ v, v ∈ (nnPrecommitsAt (sentOf s.eff) (replayed s).height).getLast?.toList →
    (replayed s).locked.map (·.1) = v.val ∧ (v.round : Int) ≤ (replayed s).lockedRound

instance (s : S) : Decidable (RLS s) := by unfold RLS; infer_instance

theorem lock_of_rls (L : List VoteRec) (n : Nat) (sent : List Msg) (H R : Nat) (lk : Option Blk) (lr : Int)
    (hinc : sent.Pairwise msgLt)
    (hg2 : ∀ pre v post b, sent = pre ++ Msg.vote v :: post → v.typ = .precommit → v.val = some b →
      quorumKnown L n pre v.height .prevote v.round (some b))
    (hbnd : ∀ v, Msg.vote v ∈ sent → v.height = H → v.round ≤ R)
    (hrls : ∀ v, v ∈ (nnPrecommitsAt sent H).getLast?.toList → lk = v.val ∧ (v.round : Int) ≤ lr)
    (v : VoteRec) (b : Blk) (hv : Msg.vote v ∈ sent) (hvt : v.typ = .precommit) (hvb : v.val = some b)
    (hvh : v.height = H) :
    (lk = some b ∧ (v.round : Int) ≤ lr) ∨
    ∃ r'' y, v.round < r'' ∧ r'' ≤ R ∧ y ≠ some b ∧ quorumKnown L n sent H .prevote r'' y := by
  have hmemP : ∀ x, x ∈ nnPrecommitsAt sent H ↔
      (Msg.vote x ∈ sent ∧ x.typ = .precommit ∧ x.val.isSome = true ∧ x.height = H) := by
    intro x
    unfold nnPrecommitsAt
    rw [List.mem_filter, mem_votesOf]
    simp [and_assoc]
  have hvP : v ∈ nnPrecommitsAt sent H := (hmemP v).mpr ⟨hv, hvt, by rw [hvb]; rfl, hvh⟩
  have hPP : (nnPrecommitsAt sent H).Pairwise (fun a b => lexLt (voteKey a) (voteKey b)) := by
    unfold nnPrecommitsAt
    apply List.Pairwise.filter
    unfold votesOf
    refine List.Pairwise.filterMap _ ?_ hinc
    intro a a' hr x hx x' hx'
    cases a <;> cases a' <;> simp at hx hx'
    subst hx; subst hx'
    exact hr
  rcases List.eq_nil_or_concat (nnPrecommitsAt sent H) with hnil | ⟨P', vs, hP⟩
  · rw [hnil] at hvP; cases hvP
  rw [List.concat_eq_append] at hP
  have hlast := hrls vs (by rw [hP]; simp)
  have hvsP : vs ∈ nnPrecommitsAt sent H := by rw [hP]; simp
  obtain ⟨hvs1, hvs2, hvs3, hvs4⟩ := (hmemP vs).mp hvsP
  obtain ⟨bs, hbs⟩ := Option.isSome_iff_exists.mp hvs3
  rw [hP] at hvP hPP
  rcases List.mem_append.mp hvP with hin | hin
  · -- an earlier precommit
    rw [List.pairwise_append] at hPP
    have hlt := hPP.2.2 v hin vs (by simp)
    have hrlt : v.round < vs.round := by
      unfold lexLt voteKey at hlt
      simp only [hvt, hvs2, hvh, hvs4] at hlt
      omega
    by_cases hb : b = bs
    · left
      refine ⟨by rw [hlast.1, hbs, hb], ?_⟩
      have := hlast.2
      omega
    · right
      obtain ⟨pre, post, hd⟩ := List.append_of_mem hvs1
      have hq := hg2 pre vs post bs hd hvs2 hbs
      refine ⟨vs.round, some bs, hrlt, hbnd vs hvs1 hvs4, ?_, ?_⟩
      · intro h; exact hb (Option.some.inj h).symm
      · rw [hvs4] at hq
        exact quorumKnown_mono (fun _ h => h) (by intro m hm; rw [hd]; exact List.mem_append_left _ hm) hq
  · simp at hin
    subst hin
    left
    exact ⟨by rw [hlast.1, hvb], hlast.2⟩


/-! ### the replayed state -/

theorem replayed_fields (s : S) :
    (replayed s).n = s.n ∧ (replayed s).eff = s.eff ∧ (replayed s).pend = .none ∧
    (replayed s).step ≤ stPrecommit ∧ (replayed s).height = s.dbHeight + 1 := by
  let s0 : S := { n := s.n, me := s.me, dbHeight := s.dbHeight, eff := s.eff, bpm := [], stuck := s.stuck }
  let s1 := s0.resetForNewHeight (s0.dbHeight + 1)
  have e1 : rproj s1 = (s.n, s.me, s.dbHeight + 1, s.dbHeight, s.eff, s.stuck, Pend.none, false) := rfl
  have b1 : s1.step ≤ stPrecommit := by show (0 : Nat) ≤ stPrecommit; decide
  let s2 := applyRoundWAL s1 (walDurable .round s1.eff)
  have e2 : rproj s2 = rproj s1 := rproj_applyRoundWAL _ _
  have b2 : s2.step ≤ stPrecommit := sb_applyRoundWAL _ _ b1
  let s3 := applyLockWAL s2 none none (walDurable .lock s2.eff)
  have k3 := applyLockWAL_keep s2 none none (walDurable .lock s2.eff)
  have b3 : s3.step ≤ stPrecommit := sb_applyLockWAL _ _ _ _ b2
  let s4 := applyCommitWAL s3 (walDurable .commit s3.eff)
  have k4 := applyCommitWAL_keep s3 (walDurable .commit s3.eff)
  have b4 : s4.step ≤ stPrecommit := sb_applyCommitWAL _ _ b3
  have e4 : rproj s4 = (s.n, s.me, s.dbHeight + 1, s.dbHeight, s.eff, s.stuck, Pend.none, false) := by
    rw [k4.1, k3.1, e2, e1]
  have hrep : replayed s = { s4 with started := true } := rfl
  unfold rproj at e4
  simp only [Prod.mk.injEq] at e4
  obtain ⟨f1, f2, f3, f4, f5, f6, f7, _⟩ := e4
  rw [hrep]
  exact ⟨f1, f5, f7, b4, f3⟩

theorem recOK_durable {L : List VoteRec} {n : Nat} (eff : List Eff) (ht : T3 L n eff) (hsc : SignClosed eff)
    (r : Rec) (hr : r ∈ walDurable .round eff) : RecOK L (sentOf eff) r := by
  have hw := walDurable_sub _ _ _ hr
  cases r with
  | msg m =>
    cases m with
    | proposal => exact True.intro
    | vote v => exact Or.inr (hsc v hw)
  | voteList vs =>
    obtain ⟨pre, post, hd⟩ := List.append_of_mem hw
    obtain ⟨h1, h2⟩ := ht.wl pre _ vs post hd
    refine ⟨fun v hv => ?_, h2⟩
    rcases h1 v hv with h | h
    · exact Or.inl h
    · right; rw [hd, sentOf_append]; exact List.mem_append_left _ h
  | blockPart => exact True.intro

theorem recOKv_durable {L : List VoteRec} {n : Nat} (eff : List Eff) (ht : T3 L n eff) (w : Wal)
    (r : Rec) (hr : r ∈ walDurable w eff) : RecOKv L (sentOf eff) r := by
  have hw := walDurable_sub _ _ _ hr
  cases r with
  | msg m => exact True.intro
  | voteList vs =>
    obtain ⟨pre, post, hd⟩ := List.append_of_mem hw
    obtain ⟨h1, h2⟩ := ht.wl pre _ vs post hd
    refine ⟨fun v hv => ?_, h2⟩
    rcases h1 v hv with h | h
    · exact Or.inl h
    · right; rw [hd, sentOf_append]; exact List.mem_append_left _ h
  | blockPart => exact True.intro

/-- the vote-set half of a sound restart, derived from the code -/
theorem h2_replayed {me n : Nat} {L : List VoteRec} (s : S) (hi : Inv me n s) (htr : TR L n s.eff)
    (hsc : SignClosed s.eff) : H2 L (replayed s) := by
  let s0 : S := { n := s.n, me := s.me, dbHeight := s.dbHeight, eff := s.eff, bpm := [], stuck := s.stuck }
  let s1 := s0.resetForNewHeight (s0.dbHeight + 1)
  have e1 : rproj s1 = (s.n, s.me, s.dbHeight + 1, s.dbHeight, s.eff, s.stuck, Pend.none, false) := rfl
  have hv1 : s1.hvs = [] := rfl
  have he1 : s1.eff = s.eff := rfl
  have h1 : H2 L s1 := by
    refine ⟨?_, ?_⟩
    · intro r t; rw [hv1]; exact ⟨wf_empty _, by intro e he; simp [votesFor] at he⟩
    · intro v b hv ht hval
      rw [he1] at hv ⊢
      obtain ⟨pre, post, hd⟩ := List.append_of_mem hv
      have hq := htr.g2 pre v post b hd ht hval
      show quorumKnown L s.n _ _ _ _ _
      rw [hi.hn]
      exact quorumKnown_mono (fun _ h => h) (by intro m hm; rw [hd]; exact List.mem_append_left _ hm) hq
  let s2 := applyRoundWAL s1 (walDurable .round s1.eff)
  have e2 : rproj s2 = rproj s1 := rproj_applyRoundWAL _ _
  have he2 : s2.eff = s.eff := by
    have := congrArg (fun p => p.2.2.2.2.1) e2; exact this
  have h2 : H2 L s2 := h2_applyRoundWAL s1 _ (sentOf s.eff) rfl
    (fun r hr => recOK_durable s.eff htr.tr hsc r hr) h1
  let s3 := applyLockWAL s2 none none (walDurable .lock s2.eff)
  have k3 := applyLockWAL_keep s2 none none (walDurable .lock s2.eff)
  have he3 : s3.eff = s.eff := by
    have := congrArg (fun p => p.2.2.2.2.1) k3.1; rw [← he2]; exact this
  have h3 : H2 L s3 := h2_applyLockWAL s2 none none _ (sentOf s.eff) (by rw [he2])
    (fun r hr => by rw [he2] at hr; exact recOKv_durable s.eff htr.tr _ r hr) h2
  let s4 := applyCommitWAL s3 (walDurable .commit s3.eff)
  have h4 : H2 L s4 := h2_applyCommitWAL s3 _ (sentOf s.eff) (by rw [he3])
    (fun r hr => by rw [he3] at hr; exact recOKv_durable s.eff htr.tr _ r hr) h3
  have hrep : replayed s = { s4 with started := true } := rfl
  rw [hrep]
  exact h2_of_gproj_eq (s := s4) rfl h4

/-- **the replayed state satisfies the running invariants, given RestoreLockSound** -/
theorem a3_replayed {me n : Nat} {L : List VoteRec} (base : List Eff) (s : S) (hi : Inv me n s)
    (htr : TR L n s.eff) (hsc : SignClosed s.eff) (hr : RLS s) (hb : base <+: s.eff) :
    A3 L base (replayed s) := by
  obtain ⟨f1, f5, f7, b4, f3⟩ := replayed_fields s
  have hc := (replayed_spec s hi).1
  have hn : (replayed s).n = n := by rw [f1, hi.hn]
  refine ⟨hc, h2_replayed s hi htr hsc, ?_⟩
  refine ⟨by rw [f5]; exact hb, ?_, ?_, ?_, by rw [hn, f5]; exact htr.g3, by rw [hn, f5]; exact htr.g2,
    by rw [hn, f5]; exact htr.tr⟩
  · -- LockInv from RLS
    intro _ v b hv hvt hvb hvh
    rw [f5] at hv
    unfold Covered
    rw [hn, f5]
    refine lock_of_rls L n (sentOf s.eff) (replayed s).height (replayed s).round _ _ hi.inc htr.g2 ?_ hr
      v b hv hvt hvb hvh
    intro x hx hxh
    have := hc.bnd (.vote x) (by simp only [ctrl]; rw [f5]; exact hx)
    unfold lexLe at this
    simp only [ctrl, msgKey, voteKey] at this
    omega
  · intro _ b hp; rw [f7] at hp; cases hp
  · apply comInv_of_nc
    right
    intro h8
    rw [h8] at b4
    exact absurd b4 (by decide)


/-! ### monotonicity of the invariants in the set of delivered votes -/

theorem h2_mono_L {L L' : List VoteRec} {s : S} (hL : ∀ x, x ∈ L → x ∈ L') (hh : H2 L s) : H2 L' s := by
  refine ⟨?_, ?_⟩
  · intro r t
    refine ⟨(hh.hv r t).1, ?_⟩
    intro e he
    rcases (hh.hv r t).2 e he with h | h
    · exact Or.inl (hL _ h)
    · exact Or.inr h
  · intro v b hv ht hval
    exact quorumKnown_mono hL (fun _ h => h) (hh.g2 v b hv ht hval)

theorem h3_mono_L {L L' : List VoteRec} {base : List Eff} {R : Nat} {s : S} (hL : ∀ x, x ∈ L → x ∈ L')
    (hh : H3 L base R s) : H3 L' base R s := by
  refine ⟨hh.pre, ?_, hh.imp, ?_, ?_, ?_, ?_⟩
  · intro hs v b hv ht hval hht
    rcases hh.lock hs v b hv ht hval hht with h | ⟨r'', y, a1, a2, a3, a4⟩
    · exact Or.inl h
    · exact Or.inr ⟨r'', y, a1, a2, a3, quorumKnown_mono hL (fun _ h => h) a4⟩
  · intro hs h8
    obtain ⟨r, b, h1, h2⟩ := hh.com hs h8
    exact ⟨r, b, h1, quorumKnown_mono hL (fun _ h => h) h2⟩
  · intro pre w post hd ht v b hv hvt hval hht hr hne
    obtain ⟨r'', y, a1, a2, a3, a4⟩ := hh.g3 pre w post hd ht v b hv hvt hval hht hr hne
    exact ⟨r'', y, a1, a2, a3, quorumKnown_mono hL (fun _ h => h) a4⟩
  · intro pre v post b hd ht hval
    exact quorumKnown_mono hL (fun _ h => h) (hh.g2 pre v post b hd ht hval)
  · exact t3_mono_L hL hh.tr

theorem a3_mono_L {L L' : List VoteRec} {base : List Eff} {s : S} (hL : ∀ x, x ∈ L → x ∈ L')
    (ha : A3 L base s) : A3 L' base s :=
  ⟨ha.core, h2_mono_L hL ha.h2, h3_mono_L hL ha.h3⟩

/-! ### one machine, crash and restart anywhere -/

/-- the per-machine invariant of L-sys with crashes: C02's global invariant, the trace facts, and —
    while running — the three invariants of the running machine -/
structure M3 (L : List VoteRec) (me n : Nat) (s : S) : Prop where
  inv : Inv me n s
  trf : TR L n s.eff
  run : s.started = false ∨ A3 L [] s

theorem m3_mono_L {L L' : List VoteRec} {me n : Nat} {s : S} (hL : ∀ x, x ∈ L → x ∈ L')
    (hm : M3 L me n s) : M3 L' me n s := by
  refine ⟨hm.inv, tr_mono_L hL hm.trf, ?_⟩
  rcases hm.run with h | h
  · exact Or.inl h
  · exact Or.inr (a3_mono_L hL h)

/-- a stopped machine ignores every event but `start` -/
theorem vstep_stopped (s : S) (e : Event) (hn : e.noCrash) (hs : s.started = false) : vstep s e = s := by
  cases e with
  | start => exact absurd hn (by simp [Event.noCrash])
  | crash c k => exact absurd hn (by simp [Event.noCrash])
  | proposal sg h r b pol =>
    show recvProposal s sg h r b pol = s
    unfold recvProposal; rw [if_pos (by simp [hs])]
  | blockPart h b =>
    show recvBlockPart s h b = s
    unfold recvBlockPart; rw [if_pos (by simp [hs])]
  | vote m =>
    show recvVoteEv s m = s
    unfold recvVoteEv; rw [if_pos (by simp [hs])]
  | timeout st =>
    show timeout s st = s
    unfold timeout; rw [if_pos (by simp [hs])]
  | async =>
    show async s = s
    unfold async; rw [if_pos (by simp [hs])]

theorem m3_of_a3 {L : List VoteRec} {me n : Nat} {base : List Eff} {s : S} (hi : Inv me n s)
    (ha : A3 L base s) : M3 L me n s := by
  refine ⟨hi, ?_, Or.inr (a3_rebase [] List.nil_prefix ha)⟩
  have := tr_of_h3 ha.h3
  rw [hi.hn] at this
  exact this

theorem sentOf_prefix {a b : List Eff} (h : a <+: b) : sentOf a <+: sentOf b := by
  obtain ⟨t, rfl⟩ := h
  rw [sentOf_append]
  exact List.prefix_append _ _

theorem m3_event {L : List VoteRec} {me n : Nat} (s : S) (e : Event) (hn : e.noCrash)
    (hl : ∀ m, e = .vote m → m ∈ L) (hm : M3 L me n s) :
    M3 L me n (vstep s e) ∧ s.eff <+: (vstep s e).eff := by
  rcases hm.run with hs | ha
  · rw [vstep_stopped s e hn hs]
    exact ⟨hm, List.prefix_refl _⟩
  · have a1 := a3_rebase s.eff (List.prefix_refl _) ha
    have a2 := vstep_a3 s e hn hl a1
    exact ⟨m3_of_a3 (vstep_inv s e hm.inv) a2, a2.h3.pre⟩

theorem m3_crash {L : List VoteRec} {me n : Nat} (s : S) (cut k : Nat) (hm : M3 L me n s) :
    M3 L me n (crash s cut k) :=
  ⟨inv_crash s cut k hm.inv, tr_crash cut k hm.trf, Or.inl rfl⟩

/-- the Start dispatch on the replayed state -/
theorem a3_start {me n : Nat} {L : List VoteRec} (base : List Eff) (s : S) (hi : Inv me n s)
    (hns : s.started = false) (a : A3 L base (replayed s)) : A3 L base (start s) := by
  rw [start_eq s hns]
  generalize replayed s = s2 at a ⊢
  have hp : ∀ x, A3 L base x → A3 L base (enterPropose fuel0 x) := fun x ax =>
    ⟨(ih_all _).enterPropose x ax.core, (ih2_all L _).enterPropose x ax.h2, (ih3_all L base _).enterPropose x ax⟩
  simp only []
  split
  · exact hp _ (a3_rfs _ _ (by decide) (by decide) (by decide) a)
  split
  · exact hp _ a
  split
  · exact ⟨(ih_all _).enterPrevote _ a.core, (ih2_all L _).enterPrevote _ a.h2, (ih3_all L base _).enterPrevote _ a⟩
  split
  · split
    · exact ⟨(ih_all _).enterPrevoteWait _ a.core, (ih2_all L _).enterPrevoteWait _ a.h2,
        (ih3_all L base _).enterPrevoteWait _ a⟩
    · exact a
  split
  · split
    · exact ⟨(ih_all _).enterPrecommitWait _ a.core, (ih2_all L _).enterPrecommitWait _ a.h2,
        (ih3_all L base _).enterPrecommitWait _ a⟩
    · exact a
  · exact a

/-- restart of a stopped machine under RestoreLockSound -/
theorem m3_start {L : List VoteRec} {me n : Nat} (s : S) (hns : s.started = false)
    (hsc : SignClosed s.eff) (hr : RLS s) (hm : M3 L me n s) :
    M3 L me n (start s) ∧ s.eff <+: (start s).eff := by
  have a := a3_replayed s.eff s hm.inv hm.trf hsc hr (List.prefix_refl _)
  have a2 := a3_start s.eff s hm.inv hns a
  exact ⟨m3_of_a3 (vstep_inv s .start hm.inv) a2, a2.h3.pre⟩

end Goloop.C01
