/-
  Proofs/C28SetLen: the glue inside `Accumulator.SetLen` — `LevelFromLen l (+1 if powerOf16 l)` is
  the number of base-16 digits of `l`, the last `lvl` elements of `Prove(l-1, 0)` are the path
  nodes `truncRoots_path` needs — and what `Finalize` / `NewMerkleTree` / `Prove` return after
  plain `Add`s (shared by `proof_accepted` and `setLen_eq_prefix`).
-/
import Goloop.Proofs.C28Tree
namespace Goloop.C28

/-! ### number of base-16 digits -/

theorem hexDigits_zero : hexDigits 0 = 0 := by rw [hexDigits]

theorem hexDigits_pos (m : Nat) (h : 0 < m) : hexDigits m = 1 + hexDigits (m / 16) := by
  obtain ⟨k, rfl⟩ : ∃ k, m = k + 1 := ⟨m - 1, by omega⟩
  rw [hexDigits]

/-- `16^d ≤ m < 16^(d+1)` means `m` has `d+1` base-16 digits -/
theorem hexDigits_eq : ∀ (d m : Nat), 16 ^ d ≤ m → m < 16 ^ (d + 1) → hexDigits m = d + 1 := by
  intro d
  induction d with
  | zero =>
    intro m h1 h2
    simp only [Nat.pow_zero, Nat.zero_add, Nat.pow_one] at h1 h2
    have h0 : m / 16 = 0 := by omega
    rw [hexDigits_pos m (by omega), h0, hexDigits_zero]
  | succ d ih =>
    intro m h1 h2
    have hp : 0 < 16 ^ d := Nat.pow_pos (by omega)
    have e1 : 16 ^ (d + 1) = 16 ^ d * 16 := by rw [Nat.pow_succ]
    have e2 : 16 ^ (d + 1 + 1) = 16 ^ d * 16 * 16 := by rw [Nat.pow_succ, Nat.pow_succ]
    rw [e1] at h1
    rw [e2] at h2
    have := ih (m / 16) (by omega) (by rw [e1]; omega)
    rw [hexDigits_pos m (by omega), this]; omega

/-- `m < 16^d` has at most `d` base-16 digits -/
theorem hexDigits_le : ∀ (d m : Nat), m < 16 ^ d → hexDigits m ≤ d := by
  intro d
  induction d with
  | zero =>
    intro m h
    have : m = 0 := by simpa using h
    rw [this, hexDigits_zero]; omega
  | succ d ih =>
    intro m h
    rcases Nat.eq_zero_or_pos m with h0 | h0
    · rw [h0, hexDigits_zero]; omega
    · have e1 : 16 ^ (d + 1) = 16 ^ d * 16 := by rw [Nat.pow_succ]
      rw [e1] at h
      have := ih (m / 16) (by omega)
      rw [hexDigits_pos m h0]; omega

/-! ### `powerOf16` -/

theorem one_eq_pow16 (n : Nat) (hn : n ≤ 15) : (n == 1) = true ↔ ∃ e, n = 16 ^ e := by
  constructor
  · intro h; exact ⟨0, by simpa using h⟩
  · rintro ⟨e, he⟩
    cases e with
    | zero => simpa using he
    | succ e =>
      exfalso
      have hp : 0 < 16 ^ e := Nat.pow_pos (by omega)
      rw [Nat.pow_succ] at he; omega

/-- the loop of `powerOf16` with `f+1` nibbles of fuel decides "is a power of 16" below `16^(f+1)` -/
theorem powerOf16Loop_spec : ∀ (f n : Nat), n < 16 ^ (f + 1) →
    (powerOf16Loop f n = true ↔ ∃ e, n = 16 ^ e) := by
  intro f
  induction f with
  | zero =>
    intro n hn
    simp only [Nat.zero_add, Nat.pow_one] at hn
    simp only [powerOf16Loop]
    exact one_eq_pow16 n (by omega)
  | succ f ih =>
    intro n hn
    simp only [powerOf16Loop]
    by_cases hbig : n > 0xf
    · simp only [hbig, if_true]
      by_cases hmod : n % 16 ≠ 0
      · rw [if_pos hmod]
        constructor
        · intro h; cases h
        · rintro ⟨e, he⟩
          exfalso
          cases e with
          | zero => simp at he; omega
          | succ e => rw [Nat.pow_succ] at he; omega
      · rw [if_neg hmod]
        have e1 : 16 ^ (f + 1 + 1) = 16 ^ (f + 1) * 16 := by rw [Nat.pow_succ]
        rw [e1] at hn
        rw [ih (n / 16) (by omega)]
        constructor
        · rintro ⟨e, he⟩
          refine ⟨e + 1, ?_⟩
          rw [Nat.pow_succ, ← he]; omega
        · rintro ⟨e, he⟩
          cases e with
          | zero => simp at he; omega
          | succ e =>
            refine ⟨e, ?_⟩
            rw [Nat.pow_succ] at he
            have hp : 0 < 16 ^ e := Nat.pow_pos (by omega)
            omega
    · simp only [hbig, if_false]
      exact one_eq_pow16 n (by omega)

/-- for Go `int64` lengths `powerOf16` is exact -/
theorem powerOf16_spec (n : Nat) (hn : n < 2 ^ 63) : powerOf16 n = true ↔ ∃ e, n = 16 ^ e := by
  unfold powerOf16
  apply powerOf16Loop_spec
  have : (2 : Nat) ^ 63 < 16 ^ (16 + 1) := by decide
  omega

/-- **the level `SetLen` computes is the number of base-16 digits of `l`** -/
theorem lvl_eq_hexDigits (l : Nat) (hl0 : 0 < l) (hl : l < 2 ^ 63) :
    levelFromLen l + (if powerOf16 l then 1 else 0) = hexDigits l := by
  obtain ⟨hu, hlow⟩ := levelFromLen_spec l hl0
  by_cases hp : powerOf16 l = true
  · simp only [hp, if_true]
    obtain ⟨e, he⟩ := (powerOf16_spec l hl).mp hp
    have hd : hexDigits l = e + 1 := by
      apply hexDigits_eq e l (by omega)
      rw [he]; exact Nat.pow_lt_pow_right (by omega) (by omega)
    rw [hd]
    congr 1
    have h1 : e ≤ levelFromLen l := by
      have hu' : 16 ^ e ≤ 16 ^ levelFromLen l := by omega
      exact (Nat.pow_le_pow_iff_right (by omega)).mp hu'
    rcases Nat.lt_or_ge 1 l with h | h
    · have h2 : 16 ^ (levelFromLen l - 1) < 16 ^ e := by have := hlow h; omega
      have := (Nat.pow_lt_pow_iff_right (a := 16) (by omega)).mp h2
      omega
    · have : l = 1 := by omega
      subst this
      have : levelFromLen 1 = 0 := by decide
      omega
  · simp only [hp]
    have hne : ∀ e, l ≠ 16 ^ e := fun e he => hp ((powerOf16_spec l hl).mpr ⟨e, he⟩)
    have h1 : 1 < l := by
      rcases Nat.lt_or_ge 1 l with h | h
      · exact h
      · exact absurd (show l = 16 ^ 0 by simp; omega) (hne 0)
    have h2 := hlow h1
    have h3 : l < 16 ^ levelFromLen l := by
      have := hne (levelFromLen l); omega
    have hL : levelFromLen l ≠ 0 := by
      intro h0; rw [h0] at h3; simp at h3; omega
    have := hexDigits_eq (levelFromLen l - 1) l (by omega)
      (by rw [show levelFromLen l - 1 + 1 = levelFromLen l by omega]; exact h3)
    simp only [Bool.false_eq_true, if_false, Nat.add_zero]
    omega

/-- the group on the path to key `l-1` at level `i` is the group in which the prefix of length
    `l` has something pending, whenever digit `i` of `l` is not 0 -/
theorem path_group (l i : Nat) (hl0 : 0 < l) (hq : (l / 16 ^ i) % 16 ≠ 0) :
    (l - 1) / 16 ^ (i + 1) = l / 16 ^ i / 16 := by
  have hp : 0 < 16 ^ i := Nat.pow_pos (by omega)
  have h1 : (l - 1) / 16 ^ i ≤ l / 16 ^ i := Nat.div_le_div_right (by omega)
  have h2 : l / 16 ^ i - 1 ≤ (l - 1) / 16 ^ i := by
    rw [Nat.le_div_iff_mul_le hp, Nat.sub_mul]
    have := Nat.div_mul_le_self l (16 ^ i)
    omega
  rw [Nat.pow_succ, ← Nat.div_div_eq_div_mul]
  omega

/-! ### path nodes -/

/-- the last `lvl` elements of the proof for a taller tree are the proof for `lvl` levels -/
theorem pathNodes_drop (H : Bytes → Bytes) (t : List Bytes) (k lvl : Nat) :
    ∀ L, lvl ≤ L → (pathNodes H t k L).drop (L - lvl) = pathNodes H t k lvl := by
  intro L
  induction L with
  | zero => intro h; have : lvl = 0 := by omega
            subst this; rfl
  | succ L ih =>
    intro h
    rcases Nat.lt_or_ge lvl (L + 1) with h' | h'
    · rw [show L + 1 - lvl = (L - lvl) + 1 by omega, pathNodes, List.drop_succ_cons]
      exact ih (by omega)
    · have : lvl = L + 1 := by omega
      subst this; simp

/-- bottom level first, element `i` of the proof is the group of level `i` holding the key -/
theorem pathNodes_reverse (H : Bytes → Bytes) (t : List Bytes) (k : Nat) :
    ∀ m, (pathNodes H t k m).reverse = (List.range m).map (fun i => node (T H t i) (k / 16 ^ (i + 1))) := by
  intro m
  induction m with
  | zero => rfl
  | succ m ih => rw [pathNodes, List.reverse_cons, ih, List.range_succ, List.map_append]; rfl

/-! ### what `Finalize`, `NewMerkleTree` and `Prove` return after plain `Add`s -/

theorem U_nil (H : Bytes → Bytes) : ∀ i, U H ([] : List Bytes) i = [] := by
  intro i
  induction i with
  | zero => rfl
  | succ i ih =>
    simp only [U]
    have : up H ([] : List Bytes) = [] := by simp [up]
    rw [this]; exact ih

theorem FW.nil (H : Bytes → Bytes) (V : List Bytes) : FW H V [] := by
  intro i j hj
  rw [U_nil] at hj; simp at hj

/-- For the closed-form accumulator state of a sequence `xs` over a content-addressed bucket in
    which the complete groups of `xs` have been written (what `Add` leaves): `Finalize` returns
    `⟨batch xs, |xs|⟩`; if the bucket afterwards holds no collision, `NewMerkleTree` on any bucket
    gives the tree of height `LevelFromLen |xs|` whose root node is the single entry of the top
    level, and `Prove(key, 0)` on the finalised bucket returns the path nodes of `key`. -/
theorem finalize_prove (H : Bytes → Bytes) (hlen : ∀ x, (H x).length = 32)
    (xs : List Bytes) (hx : All32 xs) (db : DB) (hok : AllOk H db) (hfw : FW H (Vals db) xs) :
    ∃ db', Acc.finalize H { len := xs.length, roots := rootsOf H xs } db
        = some (⟨batch H xs, xs.length⟩, db') ∧ AllOk H db' ∧
      (NoCollVals H db' → 0 < xs.length →
        ∃ r, T H xs (levelFromLen xs.length) = [r] ∧ batch H xs = some r ∧
          (∀ d, newTree d ⟨batch H xs, xs.length⟩ =
            some { db := d, level := levelFromLen xs.length, root := r, cap := xs.length }) ∧
          ∀ key, key < xs.length →
            (⟨db', levelFromLen xs.length, r, xs.length⟩ : Tree).prove key 0 =
              .ok (pathNodes H xs key (levelFromLen xs.length))) := by
  obtain ⟨db', hfold, hok', _, haw⟩ := fold_written H hlen _ xs rfl hx none db (by simp) hok hfw
  simp only [Option.toList_none, List.append_nil] at hfold haw
  refine ⟨db', by simp only [Acc.finalize, hfold]; rfl, hok', ?_⟩
  intro hnc hpos
  have hst := storedT_of_written H hlen db' xs hx hok' hnc haw
  obtain ⟨hL1, hL2⟩ := level_facts H xs hpos
  -- the root
  obtain ⟨r, hr⟩ : ∃ r, T H xs (levelFromLen xs.length) = [r] := by
    cases hT : T H xs (levelFromLen xs.length) with
    | nil => rw [hT] at hL1; simp at hL1
    | cons a as =>
      rw [hT] at hL1; simp at hL1
      exact ⟨a, by rw [hL1]⟩
  have hr32 : r.length = 32 := T_all32 H hlen xs hx _ r (by rw [hr]; simp)
  have hbatch : batch H xs = some r := by rw [batch_eq_top H xs hpos, hr]; rfl
  have hvalid : validNode r = true := by simp [validNode, hr32, hashLen, maxNodeBytes, maxChildren]
  refine ⟨r, hr, hbatch, ?_, ?_⟩
  · intro d; simp [newTree, hbatch, hvalid]
  · intro key hkey
    -- what Prove reads
    have hk0 : key / 16 ^ (levelFromLen xs.length + 1) = 0 := by
      apply Nat.div_eq_of_lt
      have := (levelFromLen_spec xs.length hpos).1
      have : 16 ^ levelFromLen xs.length ≤ 16 ^ (levelFromLen xs.length + 1) :=
        Nat.pow_le_pow_right (by omega) (by omega)
      omega
    have hroot : node (T H xs (levelFromLen xs.length)) (key / 16 ^ (levelFromLen xs.length + 1)) = r := by
      rw [hk0, hr]; simp [node, chunk]
    have hloop := proveLoop_spec H hlen db' xs hx hst key hkey (levelFromLen xs.length) hL2
    rw [hroot] at hloop
    unfold Tree.prove
    simp only [hloop]
    have hnn : ¬ ((levelFromLen xs.length : Int) < 0) := by omega
    simp [hnn]

/-! ### `SetLen` -/

/-- the nodes `SetLen l` cuts (the last `hexDigits l` proof elements for key `l-1`, bottom level
    first), cut to the digits of `l`, are the roots of the prefix -/
theorem truncRoots_pathNodes (H : Bytes → Bytes) (hlen : ∀ x, (H x).length = 32)
    (xs : List Bytes) (hx : All32 xs) (l : Nat) (hl0 : 0 < l) (hl : l ≤ xs.length) :
    truncRoots (pathNodes H xs (l - 1) (hexDigits l)).reverse l = some (rootsOf H (xs.take l)) := by
  apply truncRoots_path H hlen _ xs l ((List.range (hexDigits l)).map (fun i => (l - 1) / 16 ^ (i + 1))) hx hl
  · simp [pathNodes_length]
  · simp [pathNodes_length]
  · intro i hi
    have hi' : i < hexDigits l := by simpa [pathNodes_length] using hi
    have hj : ((List.range (hexDigits l)).map (fun i => (l - 1) / 16 ^ (i + 1))).getD i 0
        = (l - 1) / 16 ^ (i + 1) := by
      simp [List.getD_eq_getElem?_getD, hi']
    rw [hj]
    refine ⟨?_, fun hq => path_group l i hl0 hq⟩
    simp [pathNodes_reverse]

/-- **the glue of `SetLen`**: on the closed-form state of `xs` (bucket as `Add` leaves it, no
    collision in the finalised bucket, `|xs| < 2^63`), `SetLen l` for `0 < l < |xs|` returns `.ok`,
    writes the accumulator data, and the new state is the closed-form state of `xs.take l`. -/
theorem setLen_state (H : Bytes → Bytes) (hlen : ∀ x, (H x).length = 32)
    (xs : List Bytes) (hx : All32 xs) (db : DB) (hok : AllOk H db) (hfw : FW H (Vals db) xs)
    (hbound : xs.length < 2 ^ 63) (l : Nat) (hl0 : 0 < l) (hl : l < xs.length) :
    ∃ db', Acc.finalize H { len := xs.length, roots := rootsOf H xs } db
        = some (⟨batch H xs, xs.length⟩, db') ∧
      (NoCollVals H db' →
        Acc.setLen H { len := xs.length, roots := rootsOf H xs } db l
          = ({ len := l, roots := rootsOf H (xs.take l) }, db', true, .ok)) := by
  obtain ⟨db', hfin, _, hrest⟩ := finalize_prove H hlen xs hx db hok hfw
  refine ⟨db', hfin, ?_⟩
  intro hnc
  obtain ⟨r, _, _, hnew, hprove⟩ := hrest hnc (by omega)
  have hlvl := lvl_eq_hexDigits l hl0 (by omega)
  have hle : hexDigits l ≤ levelFromLen xs.length := by
    apply hexDigits_le
    have := (levelFromLen_spec xs.length (by omega)).1
    omega
  have h1 : ¬ l > xs.length := by omega
  have h2 : ¬ l = 0 := by omega
  have h3 : ¬ l = xs.length := by omega
  have h4 : ¬ levelFromLen xs.length < hexDigits l := by omega
  have htake : ((pathNodes H xs (l - 1) (hexDigits l)).reverse).take (hexDigits l)
      = (pathNodes H xs (l - 1) (hexDigits l)).reverse := by
    apply List.take_of_length_le; simp [pathNodes_length]
  unfold Acc.setLen
  simp only [h1, h2, h3, if_false, hfin, hnew db', hprove (l - 1) (by omega), hlvl,
    pathNodes_length, h4, pathNodes_drop H xs (l - 1) (hexDigits l) _ hle, htake,
    truncRoots_pathNodes H hlen xs hx l hl0 (by omega)]

end Goloop.C28
