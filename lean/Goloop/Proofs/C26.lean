import Goloop.Model.C26
import Goloop.Proofs.C25
namespace Goloop.C26.Proofs
open Goloop Goloop.C26

/-- `q ⊆ a` on bit sets. -/
def Sub (q a : Nat) : Prop := ∀ i, q.testBit i = true → a.testBit i = true

/-- whole-number form of the subset test -/
def containN (a b : Nat) : Bool := (a &&& b) == b

theorem containN_iff (a b : Nat) : containN a b = true ↔ Sub b a := by
  unfold containN Sub
  rw [beq_iff_eq]
  constructor
  · intro h i hb
    have : (a &&& b).testBit i = b.testBit i := by rw [h]
    rw [Nat.testBit_and, hb] at this
    simpa using this
  · intro h
    apply Nat.eq_of_testBit_eq
    intro i
    rw [Nat.testBit_and]
    cases hb : b.testBit i
    · simp
    · simp [h i hb]

theorem sub_refl (a : Nat) : Sub a a := fun _ h => h

theorem sub_trans {a b c : Nat} (h1 : Sub a b) (h2 : Sub b c) : Sub a c := fun i h => h2 i (h1 i h)

theorem sub_or_left (q a b : Nat) (h : Sub q a) : Sub q (a ||| b) := by
  intro i hq; rw [Nat.testBit_or, h i hq]; rfl

theorem sub_or_right (q a b : Nat) (h : Sub q b) : Sub q (a ||| b) := by
  intro i hq; rw [Nat.testBit_or, h i hq]; simp

theorem or_sub {a b c : Nat} (h1 : Sub a c) (h2 : Sub b c) : Sub (a ||| b) c := by
  intro i h
  rw [Nat.testBit_or] at h
  cases ha : a.testBit i
  · rw [ha] at h; exact h2 i (by simpa using h)
  · exact h1 i ha

theorem zero_sub (a : Nat) : Sub 0 a := by
  intro i h; simp at h

theorem sub_split (a b : Nat) :
    Sub b a ↔ Sub (b % 2 ^ 64) (a % 2 ^ 64) ∧ Sub (b / 2 ^ 64) (a / 2 ^ 64) := by
  unfold Sub
  constructor
  · intro h
    constructor
    · intro i hi
      rw [Nat.testBit_mod_two_pow] at hi ⊢
      simp only [Bool.and_eq_true, decide_eq_true_eq] at hi ⊢
      exact ⟨hi.1, h i hi.2⟩
    · intro i hi
      rw [Nat.testBit_div_two_pow] at hi ⊢
      exact h _ hi
  · rintro ⟨h1, h2⟩ i hi
    by_cases hlt : i < 64
    · have := h1 i (by rw [Nat.testBit_mod_two_pow]; simp [hlt, hi])
      rw [Nat.testBit_mod_two_pow] at this
      simp only [Bool.and_eq_true, decide_eq_true_eq] at this
      exact this.2
    · have e : i = (i - 64) + 64 := by omega
      have := h2 (i - 64) (by rw [Nat.testBit_div_two_pow, ← e]; exact hi)
      rw [Nat.testBit_div_two_pow, ← e] at this
      exact this

theorem headcheck_iff (w1 w2 : Nat) : ((w2 == 0 || (w1 &&& w2) == w2) = true) ↔ Sub w2 w1 := by
  rw [← containN_iff]
  unfold containN
  constructor
  · intro h
    rw [Bool.or_eq_true] at h
    rcases h with h | h
    · have : w2 = 0 := by simpa using h
      subst this; simp
    · exact h
  · intro h; simp [h]

theorem words_zero : words 0 = [] := by rw [words]; simp

theorem words_ne_zero (n : Nat) (h : n ≠ 0) : words n = (n % 2 ^ 64) :: words (n / 2 ^ 64) := by
  rw [words]; simp [h]

/-- the word loop of `Contain` is the subset test. -/
theorem contain_iff (a b : Nat) : contain a b = true ↔ Sub b a := by
  induction b using Nat.strongRecOn generalizing a with
  | _ b ih =>
    by_cases hb : b = 0
    · subst hb
      simp [contain, words_zero, containWords, zero_sub]
    · by_cases ha : a = 0
      · subst ha
        have : contain 0 b = false := by
          simp [contain, words_zero, words_ne_zero b hb]
        rw [this]
        constructor
        · intro h; cases h
        · intro h
          obtain ⟨i, hi⟩ := Nat.exists_testBit_of_ne_zero hb
          have := h i hi
          simp at this
      · have hlt : b / 2 ^ 64 < b := Nat.div_lt_self (by omega) (by decide)
        have hrec := ih (b / 2 ^ 64) hlt (a / 2 ^ 64)
        rw [sub_split a b, ← hrec, ← headcheck_iff]
        unfold contain
        rw [words_ne_zero a ha, words_ne_zero b hb]
        simp only [List.length_cons, containWords, Nat.add_lt_add_iff_right, gt_iff_lt]
        by_cases hl : (words (a / 2 ^ 64)).length < (words (b / 2 ^ 64)).length
        · simp only [hl, if_true]; simp
        · simp only [hl, if_false, Bool.and_eq_true]


/-- the bloom of one item alone -/
def itemBloom (hash : Bytes → Bytes) (item : Bytes) : Nat := addItem hash 0 item

theorem addItem_eq (hash : Bytes → Bytes) (b : Nat) (item : Bytes) :
    addItem hash b item = b ||| itemBloom hash item := by
  simp only [addItem, itemBloom, addBit, Nat.zero_or, Nat.or_assoc]

/-- OR of a list of blooms -/
def orAll (l : List Nat) : Nat := l.foldl (· ||| ·) 0

theorem foldl_or (acc : Nat) (l : List Nat) : l.foldl (· ||| ·) acc = acc ||| orAll l := by
  induction l generalizing acc with
  | nil => simp [orAll]
  | cons x xs ih =>
    simp only [List.foldl_cons, orAll]
    rw [ih, ih (0 ||| x)]
    simp [Nat.or_assoc]

theorem orAll_cons (x : Nat) (xs : List Nat) : orAll (x :: xs) = x ||| orAll xs := by
  simp only [orAll, List.foldl_cons]
  rw [foldl_or]; simp [orAll]

theorem orAll_append (a b : List Nat) : orAll (a ++ b) = orAll a ||| orAll b := by
  induction a with
  | nil => simp [orAll]
  | cons x xs ih => simp [orAll_cons, ih, Nat.or_assoc]

theorem testBit_orAll (l : List Nat) (i : Nat) : (orAll l).testBit i = l.any (·.testBit i) := by
  induction l with
  | nil => simp [orAll]
  | cons x xs ih => simp [orAll_cons, Nat.testBit_or, ih]

theorem sub_orAll (l : List Nat) (q : Nat) (h : q ∈ l) : Sub q (orAll l) := by
  intro i hq
  rw [testBit_orAll, List.any_eq_true]
  exact ⟨q, h, hq⟩

theorem addIndexed_eq (hash : Bytes → Bytes) (b i : Nat) (log : List (Option Bytes)) :
    addIndexed hash b i log = b ||| orAll ((indexedItems i log).map (itemBloom hash)) := by
  induction log generalizing b i with
  | nil => simp [addIndexed, indexedItems, orAll]
  | cons v rest ih =>
    cases v with
    | none => simp [addIndexed, indexedItems, ih]
    | some v =>
      simp only [addIndexed, indexedItems, List.map_cons, orAll_cons]
      rw [ih, addItem_eq, Nat.or_assoc]

theorem addLog_eq (hash : Bytes → Bytes) (b : Nat) (addr : Bytes) (log : List (Option Bytes)) :
    addLog hash b addr log = b ||| orAll ((itemsOf addr log).map (itemBloom hash)) := by
  unfold addLog itemsOf
  cases h : log.isEmpty
  · simp only [Bool.false_eq_true, if_false, List.map_cons, orAll_cons]
    rw [addIndexed_eq, addItem_eq, Nat.or_assoc]
  · simp [orAll]

theorem beNat_natBytes (v : Nat) : beNat (natBytes v) = v := by
  induction v using Nat.strongRecOn with
  | _ v ih =>
    rw [natBytes]
    by_cases h : v = 0
    · simp [h, beNat]
    · simp only [h, dite_false]
      rw [beNat_append_singleton, ih (v / 256) (by omega)]
      simp only [UInt8.toNat_ofNat']
      omega

end Goloop.C26.Proofs
