/-
  Proofs/C02Aux — second invariant of the running machine: the effect trace satisfies `TraceInv`
  (durable-before-send + height bound at EVERY prefix), heights follow the finalize effects.
-/
import Goloop.Proofs.C02Trace
namespace Goloop.C01

/-- the fields `Aux` depends on -/
def aproj (s : S) : Nat × Nat × Nat × Nat × List Eff × Bool := (s.n, s.me, s.height, s.dbHeight, s.eff, s.stuck)

structure Aux (me n : Nat) (s : S) : Prop where
  hme : s.me = me
  hn : s.n = n
  tr : TraceInv me n s.eff
  ht : s.stuck = true ∨ s.height = lastFinalizedHeight s.eff + 1
  db : s.dbHeight = lastFinalizedHeight s.eff

/-- just after the finalize effect, before the height is advanced -/
structure AuxFin (me n : Nat) (s : S) : Prop where
  hme : s.me = me
  hn : s.n = n
  tr : TraceInv me n s.eff
  ht : s.height = lastFinalizedHeight s.eff
  db : s.dbHeight = lastFinalizedHeight s.eff

theorem aux_mono {me n : Nat} {s s' : S} (ha : Aux me n s) (h1 : s'.n = s.n) (h2 : s'.me = s.me)
    (h3 : s'.height = s.height) (h4 : s'.dbHeight = s.dbHeight) (h5 : s'.eff = s.eff)
    (h6 : s.stuck = true → s'.stuck = true) : Aux me n s' :=
  ⟨h2 ▸ ha.hme, h1 ▸ ha.hn, h5 ▸ ha.tr, by
    rcases ha.ht with h | h
    · exact Or.inl (h6 h)
    · right; rw [h3, h5]; exact h, by rw [h4, h5]; exact ha.db⟩

theorem aux_of_aproj_eq {me n : Nat} {s s' : S} (h : aproj s' = aproj s) (ha : Aux me n s) : Aux me n s' := by
  unfold aproj at h
  simp only [Prod.mk.injEq] at h
  obtain ⟨h1, h2, h3, h4, h5, h6⟩ := h
  exact aux_mono ha h1 h2 h3 h4 h5 (by rw [h6]; exact id)

theorem aproj_hvsAdd (s : S) (m : VoteRec) : aproj (s.hvsAdd m).2 = aproj s := by
  unfold S.hvsAdd; simp only []; split <;> rfl

theorem aproj_prevoteDecision (s : S) (mr : Nat) (d : Option (Option Blk)) :
    aproj (s.prevoteDecision mr d) = aproj s := by
  unfold S.prevoteDecision S.unlock
  cases d with
  | none => rfl
  | some psid =>
    cases psid with
    | none => simp only []; split <;> rfl
    | some b => simp only []; split <;> split <;> rfl

theorem aproj_markValidated (s : S) (ib : Blk) : aproj (s.markValidated ib) = aproj s := by
  unfold S.markValidated
  split
  · split <;> rfl
  · rfl

theorem aux_rfs {me n : Nat} (s : S) (to : Nat) (ha : Aux me n s) : Aux me n (s.resetForNewStep to) := by
  unfold S.resetForNewStep S.beginStep S.endStep; simp only []
  split
  · exact aux_mono ha rfl rfl rfl rfl rfl id
  · exact aux_mono ha rfl rfl rfl rfl rfl (fun _ => rfl)

theorem aux_rfr {me n : Nat} (s : S) (r : Nat) (ha : Aux me n s) : Aux me n (s.resetForNewRound r) := by
  unfold S.resetForNewRound S.beginStep S.resetRound_ S.endStep; simp only []
  split
  · exact aux_mono ha rfl rfl rfl rfl rfl id
  · exact aux_mono ha rfl rfl rfl rfl rfl (fun _ => rfl)

theorem aux_stuck {me n : Nat} (s : S) (ha : Aux me n s) : Aux me n { s with stuck := true } :=
  aux_mono ha rfl rfl rfl rfl rfl (fun _ => rfl)

theorem aux_emit {me n : Nat} (s : S) (e : Eff) (he : ∀ m, e ≠ .send m) (hf : ∀ h b, e ≠ .finalize h b)
    (ha : Aux me n s) : Aux me n (s.emit e) := by
  refine ⟨ha.hme, ha.hn, traceInv_append_nonsend _ _ _ _ he ha.tr, ?_, ?_⟩
  · rcases ha.ht with h | h
    · exact Or.inl h
    · right
      show s.height = lastFinalizedHeight (s.eff ++ [e]) + 1
      rw [lastFin_append_other _ _ hf]; exact h
  · show s.dbHeight = lastFinalizedHeight (s.eff ++ [e])
    rw [lastFin_append_other _ _ hf]; exact ha.db

theorem aux_send {me n : Nat} (s : S) (m : Msg) (ha : Aux me n s)
    (hv : s.stuck = false ∧ msgSigner m = s.me ∧ msgHeight m = s.height ∧ (∀ v, m = .vote v → s.me < s.n)) :
    Aux me n (((s.emit (.write .round (.msg m))).emit (.sync .round)).emit (.send m)) := by
  have h1 := aux_emit s (.write .round (.msg m)) (by intro m; simp) (by intro h b; simp) ha
  have h2 := aux_emit _ (.sync .round) (by intro m; simp) (by intro h b; simp) h1
  obtain ⟨z, a, c, b⟩ := hv
  refine ⟨ha.hme, ha.hn, ?_, ?_, ?_⟩
  · apply traceInv_append_send me n s.eff m h2.tr
    refine ⟨by rw [a, ha.hme], by intro v hm; rw [← ha.hme, ← ha.hn]; exact b v hm, ?_⟩
    rw [c]
    rcases h2.ht with h | h
    · simp only [S.emit] at h; rw [z] at h; cases h
    · simp only [S.emit] at h; omega
  · rcases h2.ht with h | h
    · exact Or.inl h
    · right
      show s.height = lastFinalizedHeight (_ ++ [Eff.send m]) + 1
      rw [lastFin_append_other _ _ (by intro h b; simp)]; exact h
  · show s.dbHeight = lastFinalizedHeight (_ ++ [Eff.send m])
    rw [lastFin_append_other _ _ (by intro h b; simp)]; exact h2.db

theorem aux_sendProposal {me n : Nat} (s : S) (b : Blk) (pol : Int) (ha : Aux me n s) :
    Aux me n (s.sendProposal b pol) := by
  unfold S.sendProposal
  split
  · exact ha
  rename_i hst
  exact aux_send s _ ha ⟨by simpa using hst, rfl, rfl, by intro v hv; cases hv⟩

/-- Finalize: needs a non-stuck state (the callers are guarded) -/
theorem auxfin_finalize {me n : Nat} (s : S) (b : Blk) (ha : Aux me n s) (hs : s.stuck = false) :
    AuxFin me n { s.emit (.finalize s.height b) with dbHeight := s.height } := by
  have hht : s.height = lastFinalizedHeight s.eff + 1 := by
    rcases ha.ht with h | h
    · rw [hs] at h; cases h
    · exact h
  have hl : lastFinalizedHeight (s.eff ++ [.finalize s.height b]) = s.height := by
    rw [lastFin_append_fin]; omega
  refine ⟨ha.hme, ha.hn, traceInv_append_nonsend _ _ _ _ (by intro m; simp) ha.tr, ?_, ?_⟩
  · show s.height = lastFinalizedHeight (s.eff ++ [_]); rw [hl]
  · show s.height = lastFinalizedHeight (s.eff ++ [_]); rw [hl]

theorem aux_of_fin_stuck {me n : Nat} (s : S) (ha : AuxFin me n s) : Aux me n { s with stuck := true } :=
  ⟨ha.hme, ha.hn, ha.tr, Or.inl rfl, ha.db⟩

theorem aux_rfh {me n : Nat} (s : S) (ha : AuxFin me n s) : Aux me n (s.resetForNewHeight (s.height + 1)) := by
  unfold S.resetForNewHeight S.beginStep S.resetRound_ S.endStep; simp only []
  split
  · exact ⟨ha.hme, ha.hn, ha.tr, Or.inr (by show s.height + 1 = _; rw [ha.ht]), ha.db⟩
  · exact ⟨ha.hme, ha.hn, ha.tr, Or.inl rfl, ha.db⟩

structure IHA (me n : Nat) (f : Nat) : Prop where
  recvVote : ∀ s m, Aux me n s → Aux me n (recvVote f s m)
  sendVote : ∀ s t v, Aux me n s → Aux me n (sendVote f s t v)
  handlePrevote : ∀ s mr, Aux me n s → Aux me n (handlePrevote f s mr)
  handlePrecommit : ∀ s mr, Aux me n s → Aux me n (handlePrecommit f s mr)
  enterPropose : ∀ s, Aux me n s → Aux me n (enterPropose f s)
  enterPrevote : ∀ s, Aux me n s → Aux me n (enterPrevote f s)
  enterPrevoteWait : ∀ s, Aux me n s → Aux me n (enterPrevoteWait f s)
  enterPrecommit : ∀ s, Aux me n s → Aux me n (enterPrecommit f s)
  enterPrecommitWait : ∀ s, Aux me n s → Aux me n (enterPrecommitWait f s)
  enterCommit : ∀ s b r, Aux me n s → Aux me n (enterCommit f s b r)
  commitAndEnterNewHeight : ∀ s, Aux me n s → Aux me n (commitAndEnterNewHeight f s)
  enterNewHeight : ∀ s, AuxFin me n s → Aux me n (enterNewHeight f s)
  enterNewRound : ∀ s, Aux me n s → Aux me n (enterNewRound f s)

theorem iha_zero (me n : Nat) : IHA me n 0 := by
  constructor
  · intro s m h; unfold Goloop.C01.recvVote; exact aux_stuck _ h
  · intro s t v h; unfold Goloop.C01.sendVote; exact aux_stuck _ h
  · intro s m h; unfold Goloop.C01.handlePrevote; exact aux_stuck _ h
  · intro s m h; unfold Goloop.C01.handlePrecommit; exact aux_stuck _ h
  · intro s h; unfold Goloop.C01.enterPropose; exact aux_stuck _ h
  · intro s h; unfold Goloop.C01.enterPrevote; exact aux_stuck _ h
  · intro s h; unfold Goloop.C01.enterPrevoteWait; exact aux_stuck _ h
  · intro s h; unfold Goloop.C01.enterPrecommit; exact aux_stuck _ h
  · intro s h; unfold Goloop.C01.enterPrecommitWait; exact aux_stuck _ h
  · intro s b r h; unfold Goloop.C01.enterCommit; exact aux_stuck _ h
  · intro s h; unfold Goloop.C01.commitAndEnterNewHeight; exact aux_stuck _ h
  · intro s h; unfold Goloop.C01.enterNewHeight
    exact aux_of_fin_stuck _ h
  · intro s h; unfold Goloop.C01.enterNewRound; exact aux_stuck _ h


variable {me n : Nat}

theorem astep_recvVote (f : Nat) (ih : IHA me n f) (s : S) (m : VoteRec) (ha : Aux me n s) :
    Aux me n (recvVote (f+1) s m) := by
  unfold Goloop.C01.recvVote
  split
  · exact ha
  split
  · exact ha
  split
  · exact ha
  have ha' : Aux me n (s.hvsAdd m).2 := aux_of_aproj_eq (aproj_hvsAdd s m) ha
  generalize s.hvsAdd m = pr at ha' ⊢
  obtain ⟨added, s'⟩ := pr
  simp only [] at ha' ⊢
  split
  · exact ha'
  split
  · exact ha'
  split
  · exact ih.handlePrevote _ _ ha'
  · exact ih.handlePrecommit _ _ ha'

theorem astep_sendVote (f : Nat) (ih : IHA me n f) (s : S) (t : VType) (v : Option Blk) (ha : Aux me n s) :
    Aux me n (sendVote (f+1) s t v) := by
  unfold Goloop.C01.sendVote
  split
  · exact ha
  rename_i hst
  split
  · exact ha
  rename_i hlt
  simp only []
  apply ih.recvVote
  exact aux_send s _ ha ⟨by simpa using hst, rfl, rfl, by intro _ _; omega⟩

theorem astep_handlePrevote (f : Nat) (ih : IHA me n f) (s : S) (mr : Nat) (ha : Aux me n s) :
    Aux me n (handlePrevote (f+1) s mr) := by
  unfold Goloop.C01.handlePrevote
  split
  · exact ha
  split
  · exact ha
  simp only []
  have ha' : Aux me n (s.prevoteDecision mr ((votesFor s.hvs mr .prevote).decision s.n)) :=
    aux_of_aproj_eq (aproj_prevoteDecision _ _ _) ha
  generalize s.prevoteDecision mr ((votesFor s.hvs mr .prevote).decision s.n) = s1 at ha' ⊢
  split
  · exact ih.enterPrevote _ ha'
  split
  · exact ih.enterPrevote _ ha'
  split
  · exact ih.enterPrevoteWait _ ha'
  split
  · split
    · exact ih.enterPrecommit _ ha'
    · exact ha'
  split
  · exact ih.enterPrevote _ (aux_rfr _ _ ha')
  · exact ha'

theorem astep_handlePrecommit (f : Nat) (ih : IHA me n f) (s : S) (mr : Nat) (ha : Aux me n s) :
    Aux me n (handlePrecommit (f+1) s mr) := by
  unfold Goloop.C01.handlePrecommit
  split
  · exact ha
  simp only []
  split
  · split
    · exact ih.enterCommit _ _ _ ha
    · exact ha
  split
  · exact ih.enterPrecommit _ ha
  split
  · exact ih.enterPrecommitWait _ ha
  split
  · split
    · exact ih.enterCommit _ _ _ ha
    · exact ih.enterNewRound _ ha
    · exact ha
  split
  · exact ih.enterPrecommit _ (aux_rfr _ _ ha)
  · exact ha

theorem astep_enterNewRound (f : Nat) (ih : IHA me n f) (s : S) (ha : Aux me n s) :
    Aux me n (enterNewRound (f+1) s) := by
  unfold Goloop.C01.enterNewRound
  split
  · exact ha
  exact ih.enterPropose _ (aux_rfr _ _ ha)

theorem astep_enterNewHeight (f : Nat) (ih : IHA me n f) (s : S) (ha : AuxFin me n s) :
    Aux me n (enterNewHeight (f+1) s) := by
  unfold Goloop.C01.enterNewHeight
  split
  · exact ⟨ha.hme, ha.hn, ha.tr, Or.inl (by assumption), ha.db⟩
  exact ih.enterPropose _ (aux_rfs _ _ (aux_rfh _ ha))

theorem astep_commitAndEnterNewHeight (f : Nat) (ih : IHA me n f) (s : S) (ha : Aux me n s) :
    Aux me n (commitAndEnterNewHeight (f+1) s) := by
  unfold Goloop.C01.commitAndEnterNewHeight
  split
  · exact ha
  rename_i hst
  split
  · split
    · exact aux_of_aproj_eq (s := s) rfl ha
    · exact ih.enterNewHeight _ (auxfin_finalize _ _ ha (by simpa using hst))
  · exact aux_stuck _ ha

theorem astep_enterCommit (f : Nat) (ih : IHA me n f) (s : S) (b r : Nat) (ha : Aux me n s) :
    Aux me n (enterCommit (f+1) s b r) := by
  unfold Goloop.C01.enterCommit
  split
  · exact ha
  simp only []
  have h1 := aux_rfs s stCommit ha
  generalize s.resetForNewStep stCommit = s1 at h1 ⊢
  have h2 : Aux me n ({ s1 with commitRound := (r : Int) }) := aux_of_aproj_eq (s := s1) rfl h1
  have h3 := aux_emit _ (.write .commit (.voteList (voteListOf { s1 with commitRound := (r : Int) } r .precommit))) (by intro m; simp) (by intro h b; simp) h2
  have h4 := aux_emit _ (.sync .commit) (by intro m; simp) (by intro h b; simp) h3
  generalize (({ s1 with commitRound := (r : Int) }.emit (.write .commit (.voteList (voteListOf { s1 with commitRound := (r : Int) } r .precommit)))).emit (.sync .commit)) = s2 at h4 ⊢
  split
  · split
    · exact ih.commitAndEnterNewHeight _ (aux_of_aproj_eq (s := s2) rfl h4)
    · exact aux_of_aproj_eq (s := s2) rfl h4
  · split
    · exact ih.commitAndEnterNewHeight _ (aux_of_aproj_eq (s := s2) rfl h4)
    · exact aux_of_aproj_eq (s := s2) rfl h4

theorem astep_enterPrecommitWait (f : Nat) (ih : IHA me n f) (s : S) (ha : Aux me n s) :
    Aux me n (enterPrecommitWait (f+1) s) := by
  unfold Goloop.C01.enterPrecommitWait
  split
  · exact ha
  simp only []
  have h1 := aux_rfs s stPrecommitWait ha
  generalize s.resetForNewStep stPrecommitWait = s1 at h1 ⊢
  have h2 := aux_emit s1 (.write .round (.voteList (voteListOf s1 s1.round .precommit))) (by intro m; simp) (by intro h b; simp) h1
  generalize (s1.emit (.write .round (.voteList (voteListOf s1 s1.round .precommit)))) = s2 at h2 ⊢
  split
  · exact ih.enterCommit _ _ _ h2
  · exact ih.enterNewRound _ h2
  · exact aux_of_aproj_eq (s := s2) rfl h2

theorem astep_enterPrevoteWait (f : Nat) (ih : IHA me n f) (s : S) (ha : Aux me n s) :
    Aux me n (enterPrevoteWait (f+1) s) := by
  unfold Goloop.C01.enterPrevoteWait
  split
  · exact ha
  simp only []
  have h1 := aux_rfs s stPrevoteWait ha
  generalize s.resetForNewStep stPrevoteWait = s1 at h1 ⊢
  have h2 := aux_emit s1 (.write .round (.voteList (voteListOf s1 s1.round .prevote))) (by intro m; simp) (by intro h b; simp) h1
  generalize (s1.emit (.write .round (.voteList (voteListOf s1 s1.round .prevote)))) = s2 at h2 ⊢
  split
  · exact ih.enterPrecommit _ h2
  · exact aux_of_aproj_eq (s := s2) rfl h2

theorem astep_enterPropose (f : Nat) (ih : IHA me n f) (s : S) (ha : Aux me n s) :
    Aux me n (enterPropose (f+1) s) := by
  unfold Goloop.C01.enterPropose
  split
  · exact ha
  simp only []
  have h1 := aux_rfs s stPropose ha
  generalize s.resetForNewStep stPropose = s1 at h1 ⊢
  have h2 : Aux me n { s1 with timer := true } := aux_of_aproj_eq (s := s1) rfl h1
  split
  · split
    · exact aux_of_aproj_eq (s := S.sendProposal { s1 with timer := true } _ _) rfl (aux_sendProposal _ _ _ h2)
    · exact aux_of_aproj_eq (s := s1) rfl h1
  · split
    · exact ih.enterPrevote _ h2
    · exact h2

theorem atail_prevote (f : Nat) (ih : IHA me n f) (x : S) (hx : Aux me n x) :
    Aux me n (if x.step == stPrevote then
            if (votesFor x.hvs x.round .prevote).hasOverTwoThirds x.n then enterPrevoteWait f x else x
          else x) := by
  split
  · split
    · exact ih.enterPrevoteWait _ hx
    · exact hx
  · exact hx

theorem atail_precommit (f : Nat) (ih : IHA me n f) (x : S) (hx : Aux me n x) :
    Aux me n (if x.step == stPrecommit then
            if (votesFor x.hvs x.round .precommit).hasOverTwoThirds x.n then enterPrecommitWait f x else x
          else x) := by
  split
  · split
    · exact ih.enterPrecommitWait _ hx
    · exact hx
  · exact hx

theorem astep_enterPrevote (f : Nat) (ih : IHA me n f) (s : S) (ha : Aux me n s) :
    Aux me n (enterPrevote (f+1) s) := by
  unfold Goloop.C01.enterPrevote
  split
  · exact ha
  simp only []
  have h1 := aux_rfs s stPrevote ha
  generalize s.resetForNewStep stPrevote = s1 at h1 ⊢
  apply atail_prevote f ih
  split
  · exact ih.sendVote _ _ _ h1
  · split
    · split
      · exact ih.sendVote _ _ _ h1
      · split
        · exact ih.sendVote _ _ _ h1
        · exact aux_of_aproj_eq (s := s1) rfl h1
    · exact ih.sendVote _ _ _ h1

theorem astep_enterPrecommit (f : Nat) (ih : IHA me n f) (s : S) (ha : Aux me n s) :
    Aux me n (enterPrecommit (f+1) s) := by
  unfold Goloop.C01.enterPrecommit
  split
  · exact ha
  simp only []
  have h1 := aux_rfs s stPrecommit ha
  generalize s.resetForNewStep stPrecommit = s1 at h1 ⊢
  apply atail_precommit f ih
  split
  · exact ih.sendVote _ _ _ h1
  · exact ih.sendVote _ _ _ (aux_of_aproj_eq (s := s1) rfl h1)
  · split
    · exact ih.sendVote _ _ _ (aux_of_aproj_eq (s := s1) rfl h1)
    · split
      · apply ih.sendVote
        apply aux_emit _ _ (by intro m; simp) (by intro h b; simp)
        apply aux_emit _ _ (by intro m; simp) (by intro h b; simp)
        apply aux_emit _ _ (by intro m; simp) (by intro h b; simp)
        exact aux_of_aproj_eq (s := s1) rfl h1
      · exact ih.sendVote _ _ _ (aux_of_aproj_eq (s := s1) rfl h1)

theorem iha_all (me n : Nat) : ∀ f, IHA me n f := by
  intro f
  induction f with
  | zero => exact iha_zero me n
  | succ f ih =>
    exact ⟨astep_recvVote f ih, astep_sendVote f ih, astep_handlePrevote f ih, astep_handlePrecommit f ih,
      astep_enterPropose f ih, astep_enterPrevote f ih, astep_enterPrevoteWait f ih, astep_enterPrecommit f ih,
      astep_enterPrecommitWait f ih, astep_enterCommit f ih, astep_commitAndEnterNewHeight f ih,
      astep_enterNewHeight f ih, astep_enterNewRound f ih⟩

end Goloop.C01
