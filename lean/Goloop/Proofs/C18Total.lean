/-
  Proofs/C18Total: the byte-level `prove` model never takes one of its `panic` outcomes
  (Go index-out-of-range / nil-dereference sites) for ANY root, key and proof bytes.
-/
import Goloop.Proofs.C18Rlp
namespace Goloop.C18
open Goloop.C17

/-- `r` is not a panic and every ok result satisfies `Q` -/
def Safe {α : Type} (Q : α → Prop) (r : Res α) : Prop := r ≠ .panic ∧ ∀ a, r = .ok a → Q a

theorem safe_ok {α : Type} (Q : α → Prop) (a : α) (h : Q a) : Safe Q (.ok a) :=
  ⟨by simp, fun b hb => by cases hb; exact h⟩

theorem safe_err {α : Type} (Q : α → Prop) : Safe Q (.err : Res α) :=
  ⟨by simp, fun b hb => by cases hb⟩

theorem safe_bind {α β : Type} (Q : α → Prop) (Q' : β → Prop) (r : Res α) (f : α → Res β)
    (hr : Safe Q r) (hf : ∀ a, Q a → Safe Q' (f a)) : Safe Q' (r.bind f) := by
  cases r with
  | ok a => exact hf a (hr.2 a rfl)
  | err => exact safe_err Q'
  | panic => exact absurd rfl hr.1

theorem safe_mono {α : Type} (Q Q' : α → Prop) (r : Res α) (h : Safe Q r) (hq : ∀ a, Q a → Q' a) :
    Safe Q' r := ⟨h.1, fun a ha => hq a (h.2 a ha)⟩

theorem safe_ite {α : Type} (Q : α → Prop) (c : Prop) [Decidable c] (a b : Res α)
    (ha : Safe Q a) (hb : Safe Q b) : Safe Q (if c then a else b) := by
  split <;> assumption

theorem safe_readSize (b : Bytes) (n : Nat) : Safe (fun _ => True) (readSize b n) := by
  unfold readSize
  split
  · exact safe_err _
  · dsimp only
    split
    · exact safe_err _
    · exact safe_ok _ _ trivial

theorem safe_parseHeader (buf : Bytes) :
    Safe (fun r : Bool × Nat × Nat => 1 ≤ r.2.1 + r.2.2) (parseHeader buf) := by
  unfold parseHeader
  cases buf with
  | nil => exact safe_err _
  | cons b rest =>
    simp only
    apply safe_bind (fun r : Bool × Nat × Nat => 1 ≤ r.2.1 + r.2.2)
    · split
      · exact safe_ok _ _ (by simp)
      · split
        · split
          · exact safe_err _
          · exact safe_ok _ _ (by simp)
        · split
          · exact safe_bind _ _ _ _ (safe_readSize _ _) (fun s _ => safe_ok _ _ (by simp; omega))
          · split
            · exact safe_ok _ _ (by simp)
            · exact safe_bind _ _ _ _ (safe_readSize _ _) (fun s _ => safe_ok _ _ (by simp; omega))
    · rintro ⟨l, ts, cs⟩ hq
      simp only
      split
      · exact safe_err _
      · exact safe_ok _ _ hq

theorem safe_splitItems (f : Nat) (b : Bytes) :
    Safe (fun r : List Bytes => ∀ e ∈ r, e ≠ []) (splitItems f b) := by
  induction f generalizing b with
  | zero => exact safe_ok _ _ (by simp)
  | succ f ih =>
    unfold splitItems
    cases b with
    | nil => exact safe_ok _ _ (by simp)
    | cons x xs =>
      simp only
      apply safe_bind _ _ _ _ (safe_parseHeader (x :: xs))
      rintro ⟨l, ts, cs⟩ hq
      simp only
      apply safe_bind _ _ _ _ (ih _)
      intro r hr
      apply safe_ok
      intro e he
      simp at he
      rcases he with rfl | he
      · simp at hq
        intro h0
        have : (List.take (ts + cs) (x :: xs)).length = 0 := by rw [h0]; rfl
        simp at this
        omega
      · exact hr e he

theorem safe_parseList (b : Bytes) :
    Safe (fun r : List Bytes => ∀ e ∈ r, e ≠ []) (parseList b) := by
  unfold parseList
  apply safe_bind _ _ _ _ (safe_parseHeader b)
  rintro ⟨l, ts, cs⟩ _
  simp only
  split
  · exact safe_err _
  · exact safe_splitItems _ _

theorem safe_parseBytes (b : Bytes) : Safe (fun _ => True) (parseBytes b) := by
  unfold parseBytes
  apply safe_bind _ _ _ _ (safe_parseHeader b)
  rintro ⟨l, ts, cs⟩ _
  simp only
  split
  · exact safe_err _
  · exact safe_ok _ _ trivial

theorem safe_decodeKeys (h0 : UInt8) (t : Bytes) : Safe (fun _ => True) (decodeKeys (h0 :: t)) := by
  unfold decodeKeys
  simp only
  split <;> exact safe_ok _ _ trivial

/-- decoded nodes never have a nil `next` below an extension (so `extension.prove` cannot
    dereference nil) -/
def WFP : PNode → Prop
  | .nil => True
  | .hash _ => True
  | .leaf _ _ => True
  | .ext _ nx => nx.isNil = false ∧ WFP nx
  | .branch ch _ => ∀ i, WFP (ch i)

theorem safe_mapRes {α β : Type} (Q : β → Prop) (f : α → Res β) (l : List α)
    (h : ∀ a ∈ l, Safe Q (f a)) : Safe (fun r : List β => ∀ x ∈ r, Q x) (mapRes f l) := by
  induction l with
  | nil => exact safe_ok _ _ (by simp)
  | cons a l ih =>
    unfold mapRes
    apply safe_bind Q _ _ _ (h a (by simp))
    intro x hx
    apply safe_bind _ _ _ _ (ih (fun b hb => h b (by simp [hb])))
    intro xs hxs
    apply safe_ok
    intro y hy
    simp at hy
    rcases hy with rfl | hy
    · exact hx
    · exact hxs y hy

theorem safe_deserialize (f : Nat) (s : Bytes) :
    Safe (fun n : PNode => WFP n ∧ n.isNil = false) (deserialize f s) := by
  induction f generalizing s with
  | zero => rw [deserialize]; exact safe_err _
  | succ f ih =>
    have hlink : ∀ b : Bytes, b ≠ [] → Safe WFP (fromLink f b) := by
      intro b hb
      unfold fromLink
      cases b with
      | nil => exact absurd rfl hb
      | cons b0 t =>
        simp only
        split
        · exact safe_mono _ _ _ (ih _) (fun n hn => hn.1)
        · apply safe_bind _ _ _ _ (safe_parseBytes _)
          intro v _
          split
          · exact safe_ok _ _ trivial
          · exact safe_ok _ _ trivial
    rw [deserialize_succ]
    apply safe_bind _ _ _ _ (safe_parseList s)
    intro bl hbl
    split
    · rename_i h2
      obtain ⟨a, b, rfl⟩ : ∃ a b, bl = [a, b] := by
        match bl, h2 with
        | [a, b], _ => exact ⟨a, b, rfl⟩
      apply safe_bind _ _ _ _ (safe_parseBytes _)
      intro kh _
      cases kh with
      | nil => exact safe_err _
      | cons h0 t =>
        simp only
        split
        · apply safe_bind _ _ _ _ (hlink b (by simpa using hbl b (by simp)))
          intro nx hnx
          split
          · exact safe_err _
          · rename_i hnil
            apply safe_bind _ _ _ _ (safe_decodeKeys h0 t)
            intro ks _
            exact safe_ok _ _ ⟨⟨by simpa using hnil, hnx⟩, rfl⟩
        · apply safe_bind _ _ _ _ (safe_decodeKeys h0 t)
          intro ks _
          apply safe_bind _ _ _ _ (safe_parseBytes _)
          intro v _
          exact safe_ok _ _ ⟨trivial, rfl⟩
    · split
      · apply safe_bind _ _ _ _ (safe_mapRes WFP (fromLink f) (bl.take 16)
          (fun a ha => hlink a (hbl a (List.mem_of_mem_take ha))))
        intro cs hcs
        apply safe_bind _ _ _ _ (safe_parseBytes _)
        intro v _
        refine safe_ok _ _ ⟨fun i => ?_, rfl⟩
        show WFP (cs.getD i.val .nil)
        rw [List.getD_eq_getElem?_getD]
        cases hg : cs[i.val]? with
        | none => trivial
        | some x => exact hcs x (List.mem_of_getElem? hg)
      · exact safe_err _

theorem walk_no_panic (n : PNode) (h : WFP n) (hn : n.isNil = false) (k : List Nibble) :
    walk n k ≠ .nilPanic := by
  induction n generalizing k with
  | nil => simp [PNode.isNil] at hn
  | hash h' => simp [walk]
  | leaf ks v => simp only [walk]; split <;> simp
  | ext ks nx ih =>
    simp only [walk]
    split
    · simp
    · exact ih h.2 h.1 _
  | branch ch v ih =>
    cases k with
    | nil => simp only [walk]; split <;> simp
    | cons i r =>
      simp only [walk]
      split
      · simp
      · rename_i hnil
        exact ih i (h i) (by simpa using hnil) r

/-- **`Prove` never panics** in the model: for every hash function, proof, expected hash and key. -/
theorem proveHash_total (H : Bytes → Bytes) (π : List Bytes) (h : Bytes) (k : List Nibble) :
    proveHash H π h k ≠ .panic := by
  induction π generalizing h k with
  | nil => simp [proveHash]
  | cons b rest ih =>
    rw [proveHash]
    split
    · simp
    · have hs := safe_deserialize (b.length + 1) b
      split
      · simp
      · rename_i hp; exact absurd hp hs.1
      · rename_i n hn
        obtain ⟨hw, hnil⟩ := hs.2 n hn
        split
        · simp
        · split
          · simp
          · simp
          · rename_i hp; exact absurd hp (walk_no_panic n hw hnil k)
          · exact ih _ _

/-- a proof element that decodes to a leaf node (the only node kind whose `prove` checks
    `len(proof) == 1`) -/
def LeafItem (b : Bytes) : Prop := ∃ n, deserialize (b.length + 1) b = .ok n ∧ n.isLeaf = true

/-- trailing elements are ignored: an accepted proof none of whose elements is a hashed leaf
    stays accepted, with the same value, whatever is appended -/
theorem proveHash_append (H : Bytes → Bytes) (π extra : List Bytes) (h : Bytes) (k : List Nibble)
    (v : Bytes) (hok : proveHash H π h k = .ok v) (hnl : ∀ b ∈ π, ¬ LeafItem b) :
    proveHash H (π ++ extra) h k = .ok v := by
  induction π generalizing h k with
  | nil => simp [proveHash] at hok
  | cons b rest ih =>
    rw [List.cons_append, proveHash]
    rw [proveHash] at hok
    split
    · rename_i hh; simp [hh] at hok
    · rename_i hh
      rw [if_neg hh] at hok
      cases hd : deserialize (b.length + 1) b with
      | err => rw [hd] at hok; cases hok
      | panic => rw [hd] at hok; cases hok
      | ok n =>
        rw [hd] at hok
        have hleaf : n.isLeaf = false := by
          cases hl : n.isLeaf with
          | false => rfl
          | true => exact absurd ⟨n, hd, hl⟩ (hnl b (by simp))
        simp only [hleaf, Bool.false_and, Bool.false_eq_true, if_false] at hok ⊢
        cases hw : walk n k with
        | value v' => rw [hw] at hok; exact hok
        | notFound => rw [hw] at hok; cases hok
        | nilPanic => rw [hw] at hok; cases hok
        | jump h' k' =>
          rw [hw] at hok
          exact ih h' k' hok (fun b' hb' => hnl b' (by simp [hb']))

theorem prove_total (H : Bytes → Bytes) (root key : Bytes) (π : List Bytes) :
    prove H root key π ≠ .panic := by
  unfold prove
  split
  · simp
  · exact proveHash_total H π root _

end Goloop.C18
