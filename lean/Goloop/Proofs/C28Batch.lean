/-
  Proofs/C28Batch: the batch definition of the hexary merkle root (bottom-up, level by
  level) and its relation to the incremental accumulator.
-/
import Goloop.Proofs.C28
namespace Goloop.C28

/-! ### level sequences -/

def All32 (s : List Bytes) : Prop := ∀ x ∈ s, x.length = 32

theorem All32.nil : All32 [] := by intro x hx; simp at hx
theorem All32.append {a b} (ha : All32 a) (hb : All32 b) : All32 (a ++ b) := by
  intro x hx; rcases List.mem_append.mp hx with h | h
  · exact ha x h
  · exact hb x h
theorem All32.take {s} (h : All32 s) (n : Nat) : All32 (s.take n) :=
  fun x hx => h x (List.mem_of_mem_take hx)
theorem All32.drop {s} (h : All32 s) (n : Nat) : All32 (s.drop n) :=
  fun x hx => h x (List.mem_of_mem_drop hx)
theorem All32.single {x : Bytes} (h : x.length = 32) : All32 [x] := by
  intro y hy; simp at hy; subst hy; exact h

theorem flatten_length {s : List Bytes} (h : All32 s) : s.flatten.length = 32 * s.length := by
  induction s with
  | nil => simp
  | cons x xs ih =>
    have hx := h x (by simp)
    have := ih (fun y hy => h y (by simp [hy]))
    simp [hx, this]; omega

theorem flatten_take {s : List Bytes} (h : All32 s) (d : Nat) :
    s.flatten.take (32 * d) = (s.take d).flatten := by
  induction s generalizing d with
  | nil => simp
  | cons x xs ih =>
    have hx := h x (by simp)
    have hxs : All32 xs := fun y hy => h y (by simp [hy])
    cases d with
    | zero => simp
    | succ d =>
      simp only [List.flatten_cons, List.take_succ_cons]
      rw [List.take_append]
      have e1 : List.take (32 * (d + 1)) x = x := List.take_of_length_le (by omega)
      have e2 : 32 * (d + 1) - x.length = 32 * d := by omega
      rw [e1, e2, ih hxs]

theorem flatten_drop {s : List Bytes} (h : All32 s) (d : Nat) :
    s.flatten.drop (32 * d) = (s.drop d).flatten := by
  induction s generalizing d with
  | nil => simp
  | cons x xs ih =>
    have hx := h x (by simp)
    have hxs : All32 xs := fun y hy => h y (by simp [hy])
    cases d with
    | zero => simp
    | succ d =>
      simp only [List.flatten_cons, List.drop_succ_cons]
      rw [List.drop_append]
      have e1 : List.drop (32 * (d + 1)) x = [] := List.drop_of_length_le (by omega)
      have e2 : 32 * (d + 1) - x.length = 32 * d := by omega
      rw [e1, e2, ih hxs]; simp

theorem nodeLen_flatten {s : List Bytes} (h : All32 s) : nodeLen s.flatten = s.length := by
  simp [nodeLen, hashLen, flatten_length h]

theorem nodeGet_flatten {s : List Bytes} (h : All32 s) (i : Nat) : nodeGet s.flatten i = s[i]? := by
  unfold nodeGet
  rw [nodeLen_flatten h]
  by_cases hi : i < s.length
  · simp only [hi, if_true, hashLen]
    rw [Nat.mul_comm, flatten_drop h i]
    have : s.drop i = s[i] :: s.drop (i + 1) := by simp
    rw [this, List.flatten_cons]
    have hx : s[i].length = 32 := h _ (List.getElem_mem hi)
    rw [List.take_append_of_le_length (by omega), List.take_of_length_le (by omega)]
    simp [hi]
  · simp [hi]

/-! ### batch definition -/

/-- the `j`-th group of 16 consecutive hashes of a level -/
def chunk (s : List Bytes) (j : Nat) : List Bytes := (s.drop (16 * j)).take 16

/-- the node made of that group: its concatenated hashes -/
def node (s : List Bytes) (j : Nat) : Bytes := (chunk s j).flatten

/-- next level: the hash of every group of 16, the last group may be shorter -/
def levelUp (H : Bytes → Bytes) (s : List Bytes) : List Bytes :=
  (List.range ((s.length + 15) / 16)).map fun j => H (node s j)

/-- **batch merkle root**: a single hash is its own root; otherwise hash the groups of 16 and
    repeat on the next level. `none` for the empty sequence. -/
def batch (H : Bytes → Bytes) (s : List Bytes) : Option Bytes :=
  if s.length ≤ 1 then s.head? else batch H (levelUp H s)
termination_by s.length
decreasing_by simp [levelUp]; omega

/-- hashes of the *complete* groups only -/
def up (H : Bytes → Bytes) (s : List Bytes) : List Bytes :=
  (List.range (s.length / 16)).map fun j => H (node s j)

/-- the hashes after the last complete group -/
def rem16 (s : List Bytes) : List Bytes := s.drop (16 * (s.length / 16))

/-- the accumulator roots for the level sequence `s` -/
def rootsOf (H : Bytes → Bytes) (s : List Bytes) : List Bytes :=
  if s = [] then [] else (rem16 s).flatten :: rootsOf H (up H s)
termination_by s.length
decreasing_by
  simp [up]
  have : s.length ≠ 0 := by intro h; apply ‹¬ s = []›; exact List.length_eq_zero_iff.mp h
  omega

theorem up_length (H : Bytes → Bytes) (s : List Bytes) : (up H s).length = s.length / 16 := by simp [up]
theorem levelUp_length (H : Bytes → Bytes) (s : List Bytes) : (levelUp H s).length = (s.length + 15) / 16 := by
  simp [levelUp]
theorem rem16_length (s : List Bytes) : (rem16 s).length = s.length % 16 := by
  simp [rem16]; omega

theorem up_all32 (H : Bytes → Bytes) (hlen : ∀ x, (H x).length = 32) (s : List Bytes) : All32 (up H s) := by
  intro x hx; simp [up] at hx; obtain ⟨j, _, rfl⟩ := hx; exact hlen _
theorem levelUp_all32 (H : Bytes → Bytes) (hlen : ∀ x, (H x).length = 32) (s : List Bytes) :
    All32 (levelUp H s) := by
  intro x hx; simp [levelUp] at hx; obtain ⟨j, _, rfl⟩ := hx; exact hlen _

/-- a group that lies inside `s` is not changed by appending to `s` -/
theorem chunk_append_left (s t : List Bytes) (j : Nat) (h : 16 * j + 16 ≤ s.length) :
    chunk (s ++ t) j = chunk s j := by
  unfold chunk
  rw [List.drop_append_of_le_length (by omega), List.take_append_of_le_length (by simp; omega)]

theorem up_snoc_notfull (H : Bytes → Bytes) (s : List Bytes) (x : Bytes) (h : s.length % 16 < 15) :
    up H (s ++ [x]) = up H s := by
  unfold up
  have e : (s ++ [x]).length / 16 = s.length / 16 := by simp; omega
  rw [e]
  apply List.map_congr_left
  intro j hj
  have hj' : j < s.length / 16 := by simpa using hj
  simp only [node]
  rw [chunk_append_left s [x] j (by omega)]

theorem rem16_snoc_notfull (s : List Bytes) (x : Bytes) (h : s.length % 16 < 15) :
    rem16 (s ++ [x]) = rem16 s ++ [x] := by
  unfold rem16
  have e : (s ++ [x]).length / 16 = s.length / 16 := by simp; omega
  rw [e, List.drop_append_of_le_length (by omega)]

theorem rem16_snoc_full (s : List Bytes) (x : Bytes) (h : s.length % 16 = 15) :
    rem16 (s ++ [x]) = [] := by
  unfold rem16
  apply List.drop_of_length_le
  simp; omega

theorem up_snoc_full (H : Bytes → Bytes) (s : List Bytes) (x : Bytes) (h : s.length % 16 = 15) :
    up H (s ++ [x]) = up H s ++ [H ((rem16 s ++ [x]).flatten)] := by
  unfold up
  have e : (s ++ [x]).length / 16 = s.length / 16 + 1 := by simp; omega
  rw [e, List.range_succ, List.map_append]
  congr 1
  · apply List.map_congr_left
    intro j hj
    have hj' : j < s.length / 16 := by simpa using hj
    simp only [node]
    rw [chunk_append_left s [x] j (by omega)]
  · simp only [List.map_cons, List.map_nil, node, chunk, rem16]
    rw [List.drop_append_of_le_length (by omega)]
    rw [List.take_of_length_le (by simp; omega)]

theorem rootsOf_nil (H : Bytes → Bytes) : rootsOf H [] = [] := by rw [rootsOf]; simp

theorem rootsOf_ne (H : Bytes → Bytes) (s : List Bytes) (h : s ≠ []) :
    rootsOf H s = (rem16 s).flatten :: rootsOf H (up H s) := by rw [rootsOf]; simp [h]

theorem rootsOf_eq_nil (H : Bytes → Bytes) (s : List Bytes) : rootsOf H s = [] ↔ s = [] := by
  constructor
  · intro h; by_cases hs : s = []
    · exact hs
    · rw [rootsOf_ne H s hs] at h; cases h
  · intro h; subst h; exact rootsOf_nil H

theorem batch_small (H : Bytes → Bytes) (s : List Bytes) (h : s.length ≤ 1) : batch H s = s.head? := by
  rw [batch]; simp [h]

theorem batch_big (H : Bytes → Bytes) (s : List Bytes) (h : 2 ≤ s.length) :
    batch H s = batch H (levelUp H s) := by
  rw [batch]; have : ¬ s.length ≤ 1 := by omega
  simp [this]

theorem rem16_flatten_length {s : List Bytes} (h : All32 s) :
    (rem16 s).flatten.length = 32 * (s.length % 16) := by
  have := flatten_length (h.drop (16 * (s.length / 16)))
  unfold rem16
  rw [this]; simp; omega

/-- one `Add` on the roots of `s` gives the roots of `s ++ [x]` -/
theorem addAt_rootsOf (H : Bytes → Bytes) (hlen : ∀ x, (H x).length = 32) :
    ∀ (n : Nat) (s : List Bytes), s.length = n → All32 s → ∀ (x : Bytes) (db : DB), x.length = 32 →
      (addAt H (rootsOf H s) x db).1 = rootsOf H (s ++ [x]) ∧ (addAt H (rootsOf H s) x db).2.2 = true := by
  intro n
  induction n using Nat.strongRecOn with
  | _ n ih =>
    intro s hn hs x db hx
    by_cases hnil : s = []
    · subst hnil
      have h1 : rootsOf H ([] ++ [x]) = [x] := by
        rw [rootsOf_ne H _ (by simp)]
        simp [rem16, up, rootsOf_nil]
      rw [rootsOf_nil, h1]
      simp [addAt, nodeAdd, hashLen, hx, nodeFull, maxNodeBytes, maxChildren]
    · have hrl := rem16_flatten_length hs
      have hmod : s.length % 16 < 16 := Nat.mod_lt _ (by omega)
      rw [rootsOf_ne H s hnil, rootsOf_ne H (s ++ [x]) (by simp)]
      have hna : nodeAdd (rem16 s).flatten x = some ((rem16 s).flatten ++ x) := by
        unfold nodeAdd nodeFull maxNodeBytes maxChildren hashLen
        have h1 : ¬ x.length ≠ 32 := by omega
        have h2 : ¬ (decide ((rem16 s).flatten.length = 32 * 16) = true) := by
          rw [decide_eq_true_eq]; omega
        simp only [h1, h2, if_false]; simp
      simp only [addAt, hna]
      have hflat : (rem16 s ++ [x]).flatten = (rem16 s).flatten ++ x := by simp
      by_cases hfull : s.length % 16 = 15
      · have hf : nodeFull ((rem16 s).flatten ++ x) = true := by
          simp [nodeFull, maxNodeBytes, maxChildren, hashLen, hrl, hx, hfull]
        simp only [hf, if_true]
        rw [rem16_snoc_full s x hfull, up_snoc_full H s x hfull, hflat]
        have hpos : 0 < s.length := List.length_pos_iff.mpr hnil
        have hup : (up H s).length < n := by rw [up_length, ← hn]; omega
        obtain ⟨i1, i2⟩ := ih _ hup (up H s) rfl (up_all32 H hlen s) (H ((rem16 s).flatten ++ x))
          (db.set (H ((rem16 s).flatten ++ x)) ((rem16 s).flatten ++ x)) (hlen _)
        exact ⟨by rw [i1]; simp, i2⟩
      · have hf : ¬ nodeFull ((rem16 s).flatten ++ x) = true := by
          simp [nodeFull, maxNodeBytes, maxChildren, hashLen, hrl, hx]; omega
        simp only [hf]
        rw [rem16_snoc_notfull s x (by omega), up_snoc_notfull H s x (by omega), hflat]
        simp

/-- next level of `s ++ e` when `e` still fits into the group that is open at the end of `s` -/
theorem levelUp_append_small (H : Bytes → Bytes) (s e : List Bytes)
    (hfit : s.length % 16 + e.length ≤ 16) (hne : 0 < s.length % 16 + e.length) :
    levelUp H (s ++ e) = up H s ++ [H ((rem16 s ++ e).flatten)] := by
  unfold levelUp up
  have e1 : ((s ++ e).length + 15) / 16 = s.length / 16 + 1 := by simp; omega
  rw [e1, List.range_succ, List.map_append]
  congr 1
  · apply List.map_congr_left
    intro j hj
    have hj' : j < s.length / 16 := by simpa using hj
    simp only [node]
    rw [chunk_append_left s e j (by omega)]
  · simp only [List.map_cons, List.map_nil, node, chunk, rem16]
    rw [List.drop_append_of_le_length (by omega)]
    rw [List.take_of_length_le (by simp; omega)]

theorem levelUp_eq_up (H : Bytes → Bytes) (s : List Bytes) (h : s.length % 16 = 0) :
    levelUp H s = up H s := by
  unfold levelUp up
  have : (s.length + 15) / 16 = s.length / 16 := by omega
  rw [this]

/-- **the carry loop computes the batch root.** On the roots of the level sequence `s`, with
    incoming carry `c`, `GetMerkleHeader`/`Finalize` return the batch root of `s ++ c`. -/
theorem carryFold_rootsOf (H : Bytes → Bytes) (hlen : ∀ x, (H x).length = 32) (store : Bool) :
    ∀ (n : Nat) (s : List Bytes), s.length = n → All32 s →
      ∀ (c : Option Bytes) (db : DB), (∀ x ∈ c, x.length = 32) →
      ∃ db', carryFold H store (rootsOf H s) c db = some (batch H (s ++ c.toList), db') := by
  intro n
  induction n using Nat.strongRecOn with
  | _ n ih =>
    intro s hn hs c db hc
    by_cases hnil : s = []
    · subst hnil
      rw [rootsOf_nil]
      refine ⟨db, ?_⟩
      simp only [carryFold, List.nil_append]
      rw [batch_small H _ (by cases c <;> simp)]
      cases c <;> simp
    · have hpos : 0 < s.length := List.length_pos_iff.mpr hnil
      have hmod : s.length % 16 < 16 := Nat.mod_lt _ (by omega)
      have hrl := rem16_flatten_length hs
      have hcl : c.toList.length ≤ 1 := by cases c <;> simp
      have hc32 : All32 c.toList := by
        intro x hx; cases c with
        | none => simp at hx
        | some y => simp at hx; subst hx; exact hc _ rfl
      rw [rootsOf_ne H s hnil]
      simp only [carryFold]
      -- the node after adding the carry
      have hr' : addCarry (rem16 s).flatten c = some ((rem16 s ++ c.toList).flatten) := by
        cases c with
        | none => simp [addCarry]
        | some y =>
          have hy := hc y rfl
          simp only [Option.toList_some, addCarry]
          unfold nodeAdd nodeFull maxNodeBytes maxChildren hashLen
          have h1 : ¬ y.length ≠ 32 := by omega
          have h2 : ¬ (decide ((rem16 s).flatten.length = 32 * 16) = true) := by
            rw [decide_eq_true_eq]; omega
          simp only [h1, h2, if_false]; simp
      rw [hr']
      simp only
      have hall : All32 (rem16 s ++ c.toList) := (hs.drop _).append hc32
      have hnl : nodeLen (rem16 s ++ c.toList).flatten = s.length % 16 + c.toList.length := by
        rw [nodeLen_flatten hall]; simp [rem16_length]
      have hup : (up H s).length < n := by rw [up_length, ← hn]; omega
      by_cases hcond : (rootsOf H (up H s)).isEmpty = true ∧ nodeLen (rem16 s ++ c.toList).flatten = 1
      · -- single hash in the last root: it is the root itself
        obtain ⟨h1, h2⟩ := hcond
        have hupnil : up H s = [] := (rootsOf_eq_nil H _).mp (by simpa using h1)
        have hsl : s.length < 16 := by
          have := up_length H s; rw [hupnil] at this; simp at this; omega
        have hrem : rem16 s = s := by
          unfold rem16; have : s.length / 16 = 0 := by omega
          rw [this]; simp
        rw [hupnil, rootsOf_nil]
        simp only [h2, List.isEmpty_nil, and_self, if_true, carryFold]
        refine ⟨db, ?_⟩
        rw [hrem] at h2 hall ⊢
        rw [nodeLen_flatten hall] at h2
        rw [nodeGet_flatten hall, batch_small H _ (by omega)]
        cases hst : s ++ c.toList with
        | nil => simp [hst] at h2
        | cons a as => simp
      · simp only [hcond, if_false]
        have hbig : 2 ≤ (s ++ c.toList).length := by
          rw [List.length_append]
          rcases Nat.lt_or_ge 1 (s.length + c.toList.length) with h | h
          · omega
          · exfalso
            apply hcond
            have hs1 : s.length = 1 := by omega
            have hc0 : c.toList.length = 0 := by omega
            have hupnil : up H s = [] := by
              apply List.eq_nil_of_length_eq_zero; rw [up_length]; omega
            refine ⟨by rw [hupnil, rootsOf_nil]; rfl, ?_⟩
            rw [hnl, hs1, hc0]
        rw [batch_big H _ hbig]
        by_cases hempty : s.length % 16 + c.toList.length = 0
        · -- nothing pending at this level
          have hc0 : c.toList = [] := List.eq_nil_of_length_eq_zero (by omega)
          have hrem : rem16 s = [] := List.eq_nil_of_length_eq_zero (by rw [rem16_length]; omega)
          rw [hc0, hrem]
          simp only [List.append_nil, List.flatten_nil, nodeHash, List.isEmpty_nil, if_true]
          obtain ⟨db', h⟩ := ih _ hup (up H s) rfl (up_all32 H hlen s) none db (by simp)
          refine ⟨db', ?_⟩
          rw [h, levelUp_eq_up H s (by omega)]; simp
        · have hne : (rem16 s ++ c.toList).flatten ≠ [] := by
            intro h
            have := flatten_length hall
            rw [h] at this; simp [rem16_length] at this; omega
          have hnh : nodeHash H (rem16 s ++ c.toList).flatten = some (H (rem16 s ++ c.toList).flatten) := by
            unfold nodeHash
            cases hf : (rem16 s ++ c.toList).flatten with
            | nil => exact absurd hf hne
            | cons a as => simp
          rw [hnh]
          simp only
          obtain ⟨db', h⟩ := ih _ hup (up H s) rfl (up_all32 H hlen s)
            (some (H (rem16 s ++ c.toList).flatten))
            (if store = true then db.set (H (rem16 s ++ c.toList).flatten) (rem16 s ++ c.toList).flatten else db)
            (by intro x hx; simp at hx; subst hx; exact hlen _)
          refine ⟨db', ?_⟩
          rw [h, levelUp_append_small H s c.toList (by omega) (by omega)]
          simp

end Goloop.C28
