/-
  Proofs/C14: invariants of the world-state model and the refinement lemmas.
  Everything is per account: the Go loops touch, for each cached account, only
  that account's trie key / lastAccounts entry (see Model/C14.lean).
-/
import Goloop.Model.C14
namespace Goloop.C14.Proofs
open Goloop.C14

/-! ### small facts -/

theorem dataOf_norm (b : Hdr) (st : Option KV) : dataOf b (normStore st) = dataOf b st := by
  unfold dataOf normStore
  split <;> simp

theorem normStore_idem (st : Option KV) : normStore (normStore st) = normStore st := by
  match st with
  | none => rfl
  | some [] => rfl
  | some (_ :: _) => rfl

/-- a snapshot is normal when an empty store is represented by nil -/
def Normal (s : Snap) : Prop := s.store ≠ some []

theorem normStore_of_normal {s : Option KV} (h : s ≠ some []) : normStore s = s := by
  unfold normStore; split
  · exact absurd rfl h
  · rfl

theorem normal_norm (n : Nat) (b : Hdr) (st : Option KV) : Normal ⟨n, b, normStore st⟩ := by
  unfold Normal normStore; split <;> simp_all

/-- logical content of a mutable account state -/
def absSt (st : AState) : Option AcctData :=
  if contentEmpty st.hdr st.store then none else some (dataOf st.hdr st.store)

theorem abs_eq (w : World) (a : Nat) :
    w.abs a = match w.macc a with
      | some st => absSt st
      | none => absSnap (w.trie a) := by
  unfold World.abs absSt; rfl

theorem absSnap_normal {s : Snap} (h : Normal s) :
    absSnap (some s) = if contentEmpty s.hdr s.store then none else some (dataOf s.hdr s.store) := by
  unfold absSnap Snap.isEmpty contentEmpty
  rw [normStore_of_normal h]

theorem absSnap_mk (n : Nat) (b : Hdr) (st : Option KV) :
    absSnap (some ⟨n, b, normStore st⟩) = absSt ⟨b, st, none⟩ := by
  unfold absSnap Snap.isEmpty absSt contentEmpty
  simp only [dataOf_norm]

/-! ### the per-account invariant -/

/-- snapshots of one account that are reachable: trie entry, lastAccounts entry,
    the state's cached snapshot, entries of stored world snapshots -/
def Reach (tr : Option Snap) (st : Option AState) (la : Option Snap) (pool : Snap → Prop) (s : Snap) : Prop :=
  tr = some s ∨ la = some s ∨ (∃ x, st = some x ∧ x.last = some s) ∨ pool s

structure LocInv (tr : Option Snap) (st : Option AState) (la : Option Snap) (pool : Snap → Prop) (next : Nat) : Prop where
  normal : ∀ s, Reach tr st la pool s → Normal s
  fresh : ∀ s, Reach tr st la pool s → s.stamp < next
  /-- pointer identity: equal stamps mean the same object -/
  inj : ∀ s s', Reach tr st la pool s → Reach tr st la pool s' → s.stamp = s'.stamp → s = s'
  /-- tries never hold empty accounts -/
  nonempty : ∀ s, (tr = some s ∨ pool s) → s.isEmpty = false
  /-- a cached snapshot describes the state's current content -/
  last : ∀ x s, st = some x → x.last = some s → s.hdr = x.hdr ∧ s.store = normStore x.store
  /-- lastAccounts entry = what the trie holds for a cached account -/
  la_tr : ∀ x, st = some x →
    (∀ y, la = some y → (y.isEmpty = true ∧ tr = none) ∨ tr = some y) ∧ (la = none → tr = none)

/-- `LocInv` survives shrinking/keeping the reachable set, raising `next`. -/
theorem LocInv.mono {tr st la pool next tr' st' la' pool' next'}
    (h : LocInv tr st la pool next)
    (hr : ∀ s, Reach tr' st' la' pool' s → Reach tr st la pool s)
    (hn : next ≤ next')
    (hne : ∀ s, (tr' = some s ∨ pool' s) → s.isEmpty = false)
    (hl : ∀ x s, st' = some x → x.last = some s → s.hdr = x.hdr ∧ s.store = normStore x.store)
    (hla : ∀ x, st' = some x →
      (∀ y, la' = some y → (y.isEmpty = true ∧ tr' = none) ∨ tr' = some y) ∧ (la' = none → tr' = none)) :
    LocInv tr' st' la' pool' next' :=
  ⟨fun s r => h.normal s (hr s r), fun s r => Nat.lt_of_lt_of_le (h.fresh s (hr s r)) hn,
   fun s s' r r' e => h.inj s s' (hr s r) (hr s' r') e, hne, hl, hla⟩

/-- adding one fresh, normal snapshot `n` (stamp = old `next`) to the reachable set -/
theorem LocInv.add {tr st la pool next tr' st' la' pool'} (n : Snap)
    (h : LocInv tr st la pool next)
    (hn : n.stamp = next) (hnorm : Normal n)
    (hr : ∀ s, Reach tr' st' la' pool' s → s = n ∨ Reach tr st la pool s)
    (hne : ∀ s, (tr' = some s ∨ pool' s) → s.isEmpty = false)
    (hl : ∀ x s, st' = some x → x.last = some s → s.hdr = x.hdr ∧ s.store = normStore x.store)
    (hla : ∀ x, st' = some x →
      (∀ y, la' = some y → (y.isEmpty = true ∧ tr' = none) ∨ tr' = some y) ∧ (la' = none → tr' = none)) :
    LocInv tr' st' la' pool' (next + 1) := by
  refine ⟨?_, ?_, ?_, hne, hl, hla⟩
  · intro s r; rcases hr s r with e | r
    · exact e ▸ hnorm
    · exact h.normal s r
  · intro s r; rcases hr s r with e | r
    · subst e; omega
    · exact Nat.lt_succ_of_lt (h.fresh s r)
  · intro s s' r r' e
    rcases hr s r with e1 | r1 <;> rcases hr s' r' with e2 | r2
    · rw [e1, e2]
    · have := h.fresh s' r2; subst e1; omega
    · have := h.fresh s r1; subst e2; omega
    · exact h.inj s s' r1 r2 e


/-! ### account state operations -/

/-- GetSnapshot: the snapshot describes the state, the state's content is unchanged -/
theorem getSnapshot_spec (st : AState) (next : Nat)
    (hl : ∀ s, st.last = some s → s.hdr = st.hdr ∧ s.store = normStore st.store) :
    (st.getSnapshot next).2.hdr = st.hdr ∧ (st.getSnapshot next).2.store = normStore st.store ∧
    (st.getSnapshot next).1.hdr = st.hdr ∧ (st.getSnapshot next).1.store = st.store ∧
    (st.getSnapshot next).1.last = some (st.getSnapshot next).2 ∧
    (st.last = some (st.getSnapshot next).2 ∨ (st.last = none ∧ (st.getSnapshot next).2.stamp = next)) := by
  unfold AState.getSnapshot
  split
  · rename_i s hs
    have := hl s hs
    exact ⟨this.1, this.2, rfl, rfl, hs, Or.inl hs⟩
  · rename_i hs
    exact ⟨rfl, rfl, rfl, rfl, rfl, Or.inr ⟨hs, rfl⟩⟩

theorem absSnap_of_state (s : Snap) (st : AState) (hb : s.hdr = st.hdr) (hs : s.store = normStore st.store) :
    absSnap (some s) = absSt st := by
  obtain ⟨n, b, sto⟩ := s
  simp only at hb hs
  subst hb; subst hs
  rw [absSnap_mk]; rfl

theorem absSt_congr (a b : AState) (h1 : a.hdr = b.hdr) (h2 : a.store = b.store) : absSt a = absSt b := by
  unfold absSt; rw [h1, h2]

theorem absSnap_empty {s : Snap} (h : s.isEmpty = true) : absSnap (some s) = none := by
  unfold absSnap; simp [h]

/-- one iteration of flushAccountCacheInLock: the trie entry afterwards is the state's content -/
theorem flushOne_abs {tr st la pool next} (x : AState) (h : LocInv tr st la pool next) (hx : st = some x) :
    absSnap (flushOne next x la tr).2.2 = absSt x ∧ absSt (flushOne next x la tr).1 = absSt x := by
  have hl := fun s => h.last x s hx
  have gs := getSnapshot_spec x next hl
  have hsnap := absSnap_of_state _ x gs.1 gs.2.1
  have hst : absSt (x.getSnapshot next).1 = absSt x := absSt_congr _ _ gs.2.2.1 gs.2.2.2.1
  have hfin : absSnap (if (x.getSnapshot next).2.isEmpty = true then none else some (x.getSnapshot next).2) =
      absSnap (some (x.getSnapshot next).2) := by
    split
    · rename_i he; rw [absSnap_empty he]; rfl
    · rfl
  unfold flushOne
  simp only
  cases hla : la with
  | some ass =>
    simp only [beq_iff_eq]
    by_cases hskip : ass.stamp = (x.getSnapshot next).2.stamp
    · simp only [hskip, if_true]
      refine ⟨?_, hst⟩
      rw [← hsnap]
      rcases gs.2.2.2.2.2 with hlast | ⟨_, hfresh⟩
      · have e : ass = (x.getSnapshot next).2 :=
          h.inj _ _ (Or.inr (Or.inl hla)) (Or.inr (Or.inr (Or.inl ⟨x, hx, hlast⟩))) hskip
        rcases ((h.la_tr x hx).1 ass hla) with ⟨he, ht⟩ | ht
        · rw [ht, ← e, absSnap_empty he]; rfl
        · rw [ht, e]
      · have := h.fresh ass (Or.inr (Or.inl hla)); omega
    · simp only [hskip, if_false]
      exact ⟨by rw [hfin, hsnap], hst⟩
  | none =>
    simp only
    by_cases hskip : (x.getSnapshot next).2.isEmpty = true
    · simp only [hskip, if_true]
      refine ⟨?_, hst⟩
      rw [← hsnap, (h.la_tr x hx).2 hla, absSnap_empty hskip]; rfl
    · simp only [hskip, if_false, Bool.false_eq_true]
      exact ⟨hsnap, hst⟩

/-- accountStateImpl.Reset(v): afterwards the state's content is the snapshot's -/
theorem reset_abs (x : AState) (v : Snap) (hv : Normal v)
    (hl : ∀ s, x.last = some s → s.hdr = x.hdr ∧ s.store = normStore x.store)
    (hinj : ∀ s, x.last = some s → s.stamp = v.stamp → s = v) :
    absSt (x.reset v) = absSnap (some v) ∧
    (∀ s, (x.reset v).last = some s → s.hdr = (x.reset v).hdr ∧ s.store = normStore (x.reset v).store) ∧
    ((x.reset v).last = some v) := by
  have full : absSt ⟨v.hdr, v.store, some v⟩ = absSnap (some v) := by
    rw [absSnap_normal hv]; rfl
  unfold AState.reset
  simp only
  split
  · rename_i l hlast
    split
    · rename_i he
      have e := hinj l hlast he
      subst e
      have := hl l hlast
      refine ⟨?_, hl, hlast⟩
      rw [absSnap_of_state l x this.1 this.2]
    · refine ⟨full, ?_, rfl⟩
      intro s hs; simp only [Option.some.injEq] at hs; subst hs
      exact ⟨rfl, (normStore_of_normal hv).symm⟩
  · refine ⟨full, ?_, rfl⟩
    intro s hs; simp only [Option.some.injEq] at hs; subst hs
    exact ⟨rfl, (normStore_of_normal hv).symm⟩


/-! ### world level -/

/-- the invariant of a world together with the stored snapshot entries `pool a` of every account -/
def WInv (w : World) (pool : Nat → Snap → Prop) : Prop :=
  ∀ a, LocInv (w.trie a) (w.macc a) (w.lastAcc a) (pool a) w.next

theorem flushOne_cases (next : Nat) (x : AState) (la tr : Option Snap) :
    (flushOne next x la tr).1 = (x.getSnapshot next).1 ∧
    (((flushOne next x la tr).2.1 = la ∧ (flushOne next x la tr).2.2 = tr) ∨
     ((flushOne next x la tr).2.1 = some (x.getSnapshot next).2 ∧
      (flushOne next x la tr).2.2 =
        if (x.getSnapshot next).2.isEmpty = true then none else some (x.getSnapshot next).2)) := by
  unfold flushOne
  simp only
  cases la with
  | none =>
    simp only
    split
    · exact ⟨rfl, Or.inl ⟨rfl, rfl⟩⟩
    · exact ⟨rfl, Or.inr ⟨rfl, rfl⟩⟩
  | some ass =>
    simp only
    split
    · exact ⟨rfl, Or.inl ⟨rfl, rfl⟩⟩
    · exact ⟨rfl, Or.inr ⟨rfl, rfl⟩⟩

/-- GetSnapshot's flush: the new trie is exactly the logical content; the logical content is unchanged -/
theorem flush_abs (w : World) (pool : Nat → Snap → Prop) (h : WInv w pool) (a : Nat) :
    absSnap (w.flush.trie a) = w.abs a ∧ w.flush.abs a = w.abs a := by
  rw [abs_eq, abs_eq]
  unfold World.flush
  simp only
  cases hm : w.macc a with
  | none => simp
  | some x =>
    have := flushOne_abs x (h a) hm
    simp only [Option.map_some]
    exact ⟨this.1, this.2⟩

theorem flush_inv (w : World) (pool : Nat → Snap → Prop) (h : WInv w pool) :
    WInv w.flush (fun a s => pool a s ∨ w.flush.trie a = some s) := by
  intro a
  have ha := h a
  unfold World.flush
  simp only
  cases hm : w.macc a with
  | none =>
    simp only [Option.map_none]
    refine ha.mono ?_ (Nat.le_succ _) ?_ (by intro x s hx; cases hx) (by intro x hx; cases hx)
    · intro s r
      rcases r with r | r | ⟨x, hx, _⟩ | r | r
      · exact Or.inl r
      · exact Or.inr (Or.inl r)
      · cases hx
      · exact Or.inr (Or.inr (Or.inr r))
      · exact Or.inl r
    · intro s r
      rcases r with r | r | r
      · exact ha.nonempty s (Or.inl r)
      · exact ha.nonempty s (Or.inr r)
      · exact ha.nonempty s (Or.inl r)
  | some x =>
    simp only [Option.map_some]
    have hl := fun s => ha.last x s hm
    have gs := getSnapshot_spec x w.next hl
    have fc := flushOne_cases w.next x (w.lastAcc a) (w.trie a)
    generalize flushOne w.next x (w.lastAcc a) (w.trie a) = r at fc
    obtain ⟨st', la', tr'⟩ := r
    simp only at fc ⊢
    obtain ⟨hst, hcase⟩ := fc
    subst hst
    -- every reachable snapshot afterwards is the state's snapshot or was reachable before
    have hreach : ∀ s, Reach tr' (some (x.getSnapshot w.next).1) la' (fun s => pool a s ∨ tr' = some s) s →
        s = (x.getSnapshot w.next).2 ∨ Reach (w.trie a) (w.macc a) (w.lastAcc a) (pool a) s := by
      intro s r
      have htr : tr' = some s → s = (x.getSnapshot w.next).2 ∨ Reach (w.trie a) (w.macc a) (w.lastAcc a) (pool a) s := by
        intro e
        rcases hcase with ⟨_, h2⟩ | ⟨_, h2⟩
        · exact Or.inr (Or.inl (h2 ▸ e))
        · rw [h2] at e
          split at e
          · cases e
          · left; simpa using e.symm
      rcases r with r | r | ⟨y, hy, hlast⟩ | r | r
      · exact htr r
      · rcases hcase with ⟨h1, _⟩ | ⟨h1, _⟩
        · exact Or.inr (Or.inr (Or.inl (h1 ▸ r)))
        · left; rw [h1] at r; simpa using r.symm
      · simp only [Option.some.injEq] at hy; subst hy
        rw [gs.2.2.2.2.1] at hlast
        left; simpa using hlast.symm
      · exact Or.inr (Or.inr (Or.inr (Or.inr r)))
      · exact htr r
    have hne : ∀ s, (tr' = some s ∨ (pool a s ∨ tr' = some s)) → s.isEmpty = false := by
      intro s r
      have htr : tr' = some s → s.isEmpty = false := by
        intro e
        rcases hcase with ⟨_, h2⟩ | ⟨_, h2⟩
        · exact ha.nonempty s (Or.inl (h2 ▸ e))
        · rw [h2] at e
          split at e
          · cases e
          · rename_i hne; simp only [Option.some.injEq] at e; subst e; simpa using hne
      rcases r with r | r | r
      · exact htr r
      · exact ha.nonempty s (Or.inr r)
      · exact htr r
    have hl' : ∀ y s, some (x.getSnapshot w.next).1 = some y → y.last = some s →
        s.hdr = y.hdr ∧ s.store = normStore y.store := by
      intro y s hy hs
      simp only [Option.some.injEq] at hy; subst hy
      rw [gs.2.2.2.2.1] at hs
      simp only [Option.some.injEq] at hs; subst hs
      exact ⟨gs.1.trans gs.2.2.1.symm, by rw [gs.2.1, gs.2.2.2.1]⟩
    have hla : ∀ y, some (x.getSnapshot w.next).1 = some y →
        (∀ z, la' = some z → (z.isEmpty = true ∧ tr' = none) ∨ tr' = some z) ∧ (la' = none → tr' = none) := by
      intro y _
      rcases hcase with ⟨h1, h2⟩ | ⟨h1, h2⟩
      · rw [h1, h2]; exact ha.la_tr x hm
      · rw [h1, h2]
        constructor
        · intro z hz
          simp only [Option.some.injEq] at hz; subst hz
          by_cases he : (x.getSnapshot w.next).2.isEmpty = true
          · left; simp [he]
          · right; simp [he]
        · intro hn; cases hn
    rcases gs.2.2.2.2.2 with hlast | ⟨_, hfresh⟩
    · -- the snapshot was cached: nothing new becomes reachable
      refine ha.mono ?_ (Nat.le_succ _) hne hl' hla
      intro s r
      rcases hreach s r with e | r
      · exact Or.inr (Or.inr (Or.inl ⟨x, hm, e ▸ hlast⟩))
      · exact r
    · refine ha.add (x.getSnapshot w.next).2 hfresh ?_ hreach hne hl' hla
      have : (x.getSnapshot w.next).2 = ⟨(x.getSnapshot w.next).2.stamp, x.hdr, normStore x.store⟩ := by
        rw [← gs.1, ← gs.2.1]
      rw [this]; exact normal_norm _ _ _


theorem WInv.sub_pool {w pool pool'} (h : WInv w pool) (hp : ∀ a s, pool' a s → pool a s) : WInv w pool' := by
  intro a
  refine (h a).mono ?_ (Nat.le_refl _) ?_ (h a).last (h a).la_tr
  · intro s r
    rcases r with r | r | r | r
    · exact Or.inl r
    · exact Or.inr (Or.inl r)
    · exact Or.inr (Or.inr (Or.inl r))
    · exact Or.inr (Or.inr (Or.inr (hp a s r)))
  · intro s r
    rcases r with r | r
    · exact (h a).nonempty s (Or.inl r)
    · exact (h a).nonempty s (Or.inr (hp a s r))

theorem ofSnap_some (t : Snap) : AState.ofSnap (some t) = ⟨t.hdr, t.store, some t⟩ := rfl
theorem ofSnap_none : AState.ofSnap none = ⟨Hdr.zero, none, none⟩ := rfl

theorem upd_same {α} (f : Nat → α) (a : Nat) (v : α) : upd f a v a = v := by simp [upd]
theorem upd_other {α} (f : Nat → α) (a b : Nat) (v : α) (h : b ≠ a) : upd f a v b = f b := by simp [upd, h]

theorem ofSnap_last (tr : Option Snap) (s : Snap) (h : (AState.ofSnap tr).last = some s) : tr = some s := by
  cases tr with
  | none => rw [ofSnap_none] at h; cases h
  | some t => rw [ofSnap_some] at h; exact h

theorem ofSnap_last_spec (tr : Option Snap) (s : Snap) (hn : ∀ t, tr = some t → Normal t)
    (h : (AState.ofSnap tr).last = some s) :
    s.hdr = (AState.ofSnap tr).hdr ∧ s.store = normStore (AState.ofSnap tr).store := by
  cases tr with
  | none => rw [ofSnap_none] at h; cases h
  | some t =>
    rw [ofSnap_some] at h ⊢
    simp only [Option.some.injEq] at h; subst h
    exact ⟨rfl, (normStore_of_normal (hn _ rfl)).symm⟩

theorem absSt_ofSnap (tr : Option Snap) (hn : ∀ t, tr = some t → Normal t) :
    absSt (AState.ofSnap tr) = absSnap tr := by
  cases tr with
  | none => rfl
  | some t => rw [ofSnap_some, absSnap_normal (hn t rfl)]; rfl

/-- GetAccountState: same logical content, invariant kept, the returned state is the cached one -/
theorem getAccountState_spec (w : World) (pool) (h : WInv w pool) (a : Nat) :
    WInv (w.getAccountState a).1 pool ∧
    (w.getAccountState a).1.macc a = some (w.getAccountState a).2 ∧
    (∀ b, (w.getAccountState a).1.abs b = w.abs b) ∧
    (w.getAccountState a).1.trie = w.trie ∧ (w.getAccountState a).1.next = w.next ∧
    (∀ b, b ≠ a → (w.getAccountState a).1.macc b = w.macc b) := by
  unfold World.getAccountState
  split
  · rename_i st hm
    refine ⟨h, hm, fun _ => rfl, ?_, ?_, fun _ _ => rfl⟩ <;> trivial
  · rename_i hm
    simp only
    refine ⟨?_, upd_same _ _ _, ?_, trivial, trivial, fun b hb => upd_other _ _ _ _ hb⟩
    · intro b
      by_cases hb : b = a
      · subst hb
        simp only [upd_same]
        have hb := h b
        refine hb.mono ?_ (Nat.le_refl _) (fun s r => hb.nonempty s r) ?_ ?_
        · intro s r
          rcases r with r | r | ⟨x, hx, hl⟩ | r
          · exact Or.inl r
          · exact Or.inl r
          · simp only [Option.some.injEq] at hx; subst hx
            exact Or.inl (ofSnap_last _ _ hl)
          · exact Or.inr (Or.inr (Or.inr r))
        · intro x s hx hl
          simp only [Option.some.injEq] at hx; subst hx
          exact ofSnap_last_spec _ s (fun t ht => hb.normal t (Or.inl ht)) hl
        · intro x _
          exact ⟨fun y hy => Or.inr hy, fun hn => hn⟩
      · simp only [upd_other _ _ _ _ hb]; exact h b
    · intro b
      rw [abs_eq, abs_eq]
      by_cases hb : b = a
      · subst hb
        simp only [upd_same, hm]
        exact absSt_ofSnap _ (fun t ht => (h b).normal t (Or.inl ht))
      · simp only [upd_other _ _ _ _ hb]

/-- replacing the cached state by one whose `last` is cleared (mutation) or which is unchanged -/
theorem putState_inv (w : World) (pool) (h : WInv w pool) (a : Nat) (x x' : AState) (hm : w.macc a = some x)
    (hx : x'.last = none ∨ x' = x) : WInv (w.putState a x') pool := by
  intro b
  unfold World.putState
  simp only
  by_cases hb : b = a
  · subst hb
    simp only [upd_same]
    have hb := h b
    refine hb.mono ?_ (Nat.le_refl _) (fun s r => hb.nonempty s r) ?_ (fun y _ => hb.la_tr x hm)
    · intro s r
      rcases r with r | r | ⟨y, hy, hl⟩ | r
      · exact Or.inl r
      · exact Or.inr (Or.inl r)
      · simp only [Option.some.injEq] at hy; subst hy
        rcases hx with e | e
        · rw [e] at hl; cases hl
        · subst e; exact Or.inr (Or.inr (Or.inl ⟨_, hm, hl⟩))
      · exact Or.inr (Or.inr (Or.inr r))
    · intro y s hy hl
      simp only [Option.some.injEq] at hy; subst hy
      rcases hx with e | e
      · rw [e] at hl; cases hl
      · subst e; exact hb.last _ s hm hl
  · simp only [upd_other _ _ _ _ hb]; exact h b

theorem setBalance_last (x : AState) (v : Int) : (x.setBalance v).last = none ∨ x.setBalance v = x := by
  unfold AState.setBalance; split
  · exact Or.inl rfl
  · exact Or.inr rfl

theorem deleteValue_last (x : AState) (k : Nat) : (x.deleteValue k).1.last = none ∨ (x.deleteValue k).1 = x := by
  unfold AState.deleteValue
  split
  · exact Or.inr rfl
  · split
    · exact Or.inl rfl
    · exact Or.inr rfl

theorem setValue_last (x : AState) (k v : Nat) : (x.setValue k v).1.last = none ∨ (x.setValue k v).1 = x := by
  unfold AState.setValue; split
  · exact deleteValue_last x k
  · exact Or.inl rfl

theorem initContract_last (x : AState) : x.initContract.last = none ∨ x.initContract = x := by
  unfold AState.initContract; split
  · exact Or.inr rfl
  · exact Or.inl rfl

theorem deployContract_last (x : AState) (c : Nat) : (x.deployContract c).last = none ∨ x.deployContract c = x := by
  unfold AState.deployContract; split
  · exact Or.inr rfl
  · exact Or.inl rfl

theorem acceptContract_last (x : AState) (c : Nat) : (x.acceptContract c).1.last = none ∨ (x.acceptContract c).1 = x := by
  unfold AState.acceptContract
  split
  · split
    · exact Or.inr rfl
    · split
      · exact Or.inr rfl
      · exact Or.inl rfl
  · exact Or.inr rfl

theorem rejectContract_last (x : AState) (c : Nat) : (x.rejectContract c).1.last = none ∨ (x.rejectContract c).1 = x := by
  unfold AState.rejectContract
  split
  · split
    · exact Or.inr rfl
    · split
      · exact Or.inr rfl
      · exact Or.inl rfl
  · exact Or.inr rfl

theorem deploy_last (x : AState) (c : Nat) : (x.deploy c).last = none ∨ x.deploy c = x := by
  unfold AState.deploy
  rcases acceptContract_last (x.initContract.deployContract c) c with h | h
  · exact Or.inl h
  · rw [h]
    rcases deployContract_last x.initContract c with h2 | h2
    · exact Or.inl h2
    · rw [h2]; exact initContract_last x

/-- any mutation through the account state that either clears `last` or changes nothing keeps the invariant -/
theorem mutate_inv (w : World) (pool) (h : WInv w pool) (a : Nat) (f : AState → AState)
    (hf : ∀ x, (f x).last = none ∨ f x = x) :
    WInv ((w.getAccountState a).1.putState a (f (w.getAccountState a).2)) pool := by
  have g := getAccountState_spec w pool h a
  exact putState_inv _ pool g.1 a _ _ g.2.1 (hf _)

theorem deploy_inv (w : World) (pool) (h : WInv w pool) (a c : Nat) : WInv (w.deploy a c) pool :=
  mutate_inv w pool h a (fun x => x.deploy c) (fun x => deploy_last x c)

theorem setObjGraph_last (x : AState) (nh g : Nat) : (x.setObjGraph nh g).last = none ∨ x.setObjGraph nh g = x := by
  unfold AState.setObjGraph; split
  · exact Or.inr rfl
  · exact Or.inl rfl

theorem setObjGraph_inv (w : World) (pool) (h : WInv w pool) (a nh g : Nat) : WInv (w.setObjGraph a nh g) pool := by
  have gs := getAccountState_spec w pool h a
  unfold World.setObjGraph
  exact putState_inv _ pool gs.1 a _ _ gs.2.1 (setObjGraph_last _ nh g)

theorem setBalance_inv (w : World) (pool) (h : WInv w pool) (a : Nat) (v : Int) : WInv (w.setBalance a v) pool := by
  have g := getAccountState_spec w pool h a
  unfold World.setBalance
  exact putState_inv _ pool g.1 a _ _ g.2.1 (setBalance_last _ v)

theorem setValue_inv (w : World) (pool) (h : WInv w pool) (a k v : Nat) : WInv (w.setValue a k v).1 pool := by
  have g := getAccountState_spec w pool h a
  unfold World.setValue
  exact putState_inv _ pool g.1 a _ _ g.2.1 (setValue_last _ k v)

theorem deleteValue_inv (w : World) (pool) (h : WInv w pool) (a k : Nat) : WInv (w.deleteValue a k).1 pool := by
  have g := getAccountState_spec w pool h a
  unfold World.deleteValue
  exact putState_inv _ pool g.1 a _ _ g.2.1 (deleteValue_last _ k)

/-- Reset(ws): afterwards the logical content is exactly the snapshot's -/
theorem reset_spec (w : World) (pool) (h : WInv w pool) (ws : WSnap) (hws : ∀ a s, ws a = some s → pool a s) :
    (∀ a, (w.reset ws).abs a = absSnap (ws a)) ∧ WInv (w.reset ws) pool := by
  constructor
  · intro a
    rw [abs_eq]
    unfold World.reset
    simp only
    cases hm : w.macc a with
    | none => simp
    | some x =>
      simp only [Option.map_some]
      cases hv : ws a with
      | none => simp only; rfl
      | some v =>
        simp only
        have ha := h a
        have rv : Reach (w.trie a) (w.macc a) (w.lastAcc a) (pool a) v := Or.inr (Or.inr (Or.inr (hws a v hv)))
        exact (reset_abs x v (ha.normal v rv) (fun s => ha.last x s hm)
          (fun s hs e => ha.inj s v (Or.inr (Or.inr (Or.inl ⟨x, hm, hs⟩))) rv e)).1
  · intro a
    have ha := h a
    unfold World.reset
    simp only
    cases hm : w.macc a with
    | none =>
      simp only [Option.map_none]
      refine ha.mono ?_ (Nat.le_refl _) ?_ (by intro x s hx; cases hx) (by intro x hx; cases hx)
      · intro s r
        rcases r with r | r | ⟨x, hx, _⟩ | r
        · exact Or.inr (Or.inr (Or.inr (hws a s r)))
        · exact Or.inr (Or.inl r)
        · cases hx
        · exact Or.inr (Or.inr (Or.inr r))
      · intro s r
        rcases r with r | r
        · exact ha.nonempty s (Or.inr (hws a s r))
        · exact ha.nonempty s (Or.inr r)
    | some x =>
      simp only [Option.map_some]
      cases hv : ws a with
      | none =>
        simp only
        refine ha.mono ?_ (Nat.le_refl _) ?_ ?_ ?_
        · intro s r
          rcases r with r | r | ⟨y, hy, hl⟩ | r
          · cases r
          · cases r
          · simp only [Option.some.injEq] at hy; subst hy; cases hl
          · exact Or.inr (Or.inr (Or.inr r))
        · intro s r
          rcases r with r | r
          · cases r
          · exact ha.nonempty s (Or.inr r)
        · intro y s hy hl; simp only [Option.some.injEq] at hy; subst hy; cases hl
        · intro y _; exact ⟨fun z hz => (by cases hz), fun _ => rfl⟩
      | some v =>
        simp only
        have rv : Reach (w.trie a) (w.macc a) (w.lastAcc a) (pool a) v := Or.inr (Or.inr (Or.inr (hws a v hv)))
        have rs := reset_abs x v (ha.normal v rv) (fun s => ha.last x s hm)
          (fun s hs e => ha.inj s v (Or.inr (Or.inr (Or.inl ⟨x, hm, hs⟩))) rv e)
        refine ha.mono ?_ (Nat.le_refl _) ?_ ?_ ?_
        · intro s r
          rcases r with r | r | ⟨y, hy, hl⟩ | r
          · simp only [Option.some.injEq] at r; exact r ▸ rv
          · simp only [Option.some.injEq] at r; exact r ▸ rv
          · simp only [Option.some.injEq] at hy; subst hy
            rw [rs.2.2] at hl; simp only [Option.some.injEq] at hl; exact hl ▸ rv
          · exact Or.inr (Or.inr (Or.inr r))
        · intro s r
          rcases r with r | r
          · simp only [Option.some.injEq] at r; subst r; exact ha.nonempty _ (Or.inr (hws a _ hv))
          · exact ha.nonempty s (Or.inr r)
        · intro y s hy hl; simp only [Option.some.injEq] at hy; subst hy; exact rs.2.1 s hl
        · intro y _; exact ⟨fun z hz => Or.inr hz, fun hn => (by cases hn)⟩


theorem clearCache_spec (w : World) (pool) (h : WInv w pool) :
    (∀ a, w.clearCache.abs a = w.abs a) ∧ WInv w.clearCache pool := by
  constructor
  · intro a
    have := (flush_abs w pool h a).1
    rw [← this, abs_eq]
    rfl
  · have hf := (flush_inv w pool h).sub_pool (pool' := pool) (fun a s r => Or.inl r)
    intro a
    have ha := hf a
    unfold World.clearCache
    simp only
    refine ha.mono ?_ (Nat.le_refl _) (fun s r => ha.nonempty s r) (by intro x s hx; cases hx) (by intro x hx; cases hx)
    intro s r
    rcases r with r | r | ⟨x, hx, _⟩ | r
    · exact Or.inl r
    · cases r
    · cases hx
    · exact Or.inr (Or.inr (Or.inr r))

/-- ws.GetAccountSnapshot(a): what it returns is the logical content of `a`; nothing logical changes -/
theorem getAccountSnapshot_spec (w : World) (pool) (h : WInv w pool) (a : Nat) :
    absSnap (w.getAccountSnapshot a).2 = w.abs a ∧
    (∀ b, (w.getAccountSnapshot a).1.abs b = w.abs b) ∧
    WInv (w.getAccountSnapshot a).1 pool := by
  unfold World.getAccountSnapshot
  split
  · rename_i x hm
    simp only
    have ha := h a
    have gs := getSnapshot_spec x w.next (fun s => ha.last x s hm)
    refine ⟨?_, ?_, ?_⟩
    · rw [abs_eq, hm]; exact absSnap_of_state _ x gs.1 gs.2.1
    · intro b
      rw [abs_eq, abs_eq]
      by_cases hb : b = a
      · subst hb; simp only [upd_same, hm]; exact absSt_congr _ _ gs.2.2.1 gs.2.2.2.1
      · simp only [upd_other _ _ _ _ hb]
    · intro b
      by_cases hb : b = a
      · subst hb
        simp only [upd_same]
        have hreach : ∀ s, Reach (w.trie b) (some (x.getSnapshot w.next).1) (w.lastAcc b) (pool b) s →
            s = (x.getSnapshot w.next).2 ∨ Reach (w.trie b) (w.macc b) (w.lastAcc b) (pool b) s := by
          intro s r
          rcases r with r | r | ⟨y, hy, hl⟩ | r
          · exact Or.inr (Or.inl r)
          · exact Or.inr (Or.inr (Or.inl r))
          · simp only [Option.some.injEq] at hy; subst hy
            rw [gs.2.2.2.2.1] at hl; left; simpa using hl.symm
          · exact Or.inr (Or.inr (Or.inr (Or.inr r)))
        have hl' : ∀ y s, some (x.getSnapshot w.next).1 = some y → y.last = some s →
            s.hdr = y.hdr ∧ s.store = normStore y.store := by
          intro y s hy hs
          simp only [Option.some.injEq] at hy; subst hy
          rw [gs.2.2.2.2.1] at hs
          simp only [Option.some.injEq] at hs; subst hs
          exact ⟨gs.1.trans gs.2.2.1.symm, by rw [gs.2.1, gs.2.2.2.1]⟩
        rcases gs.2.2.2.2.2 with hlast | ⟨_, hfresh⟩
        · refine ha.mono ?_ (Nat.le_succ _) (fun s r => ha.nonempty s r) hl' (fun y _ => ha.la_tr x hm)
          intro s r
          rcases hreach s r with e | r
          · exact Or.inr (Or.inr (Or.inl ⟨x, hm, e ▸ hlast⟩))
          · exact r
        · refine ha.add (x.getSnapshot w.next).2 hfresh ?_ hreach (fun s r => ha.nonempty s r) hl' (fun y _ => ha.la_tr x hm)
          have : (x.getSnapshot w.next).2 = ⟨(x.getSnapshot w.next).2.stamp, x.hdr, normStore x.store⟩ := by
            rw [← gs.1, ← gs.2.1]
          rw [this]; exact normal_norm _ _ _
      · simp only [upd_other _ _ _ _ hb]
        have hb' := h b
        exact hb'.mono (fun s r => r) (Nat.le_succ _) (fun s r => hb'.nonempty s r) hb'.last hb'.la_tr
  · rename_i hm
    exact ⟨by rw [abs_eq, hm], fun _ => rfl, h⟩

theorem absSnap_restamp (s : Option Snap) (n : Nat) :
    absSnap (s.map (fun s => { s with stamp := n })) = absSnap s := by
  cases s with
  | none => rfl
  | some s => rfl

/-- Flush + reload from the hash: same logical content as the snapshot, empty caches -/
theorem reload_spec (w : World) (pool) (h : WInv w pool) (ws : WSnap) (hws : ∀ a s, ws a = some s → pool a s) :
    (∀ a, (World.reload w.next ws).abs a = absSnap (ws a)) ∧ WInv (World.reload w.next ws) pool := by
  constructor
  · intro a; rw [abs_eq]; exact absSnap_restamp _ _
  · intro a
    have ha := h a
    unfold World.reload
    simp only
    have hpool : ∀ s, pool a s → Reach (w.trie a) (w.macc a) (w.lastAcc a) (pool a) s :=
      fun s r => Or.inr (Or.inr (Or.inr r))
    refine ⟨?_, ?_, ?_, ?_, (by intro x s hx; cases hx), (by intro x hx; cases hx)⟩
    · intro s r
      rcases r with r | r | ⟨x, hx, _⟩ | r
      · cases hv : ws a with
        | none => rw [hv] at r; cases r
        | some v =>
          rw [hv] at r; simp only [Option.map_some, Option.some.injEq] at r; subst r
          exact ha.normal v (hpool v (hws a v hv))
      · cases r
      · cases hx
      · exact ha.normal s (hpool s r)
    · intro s r
      rcases r with r | r | ⟨x, hx, _⟩ | r
      · cases hv : ws a with
        | none => rw [hv] at r; cases r
        | some v =>
          rw [hv] at r; simp only [Option.map_some, Option.some.injEq] at r; subst r
          exact Nat.lt_succ_self _
      · cases r
      · cases hx
      · exact Nat.lt_succ_of_lt (ha.fresh s (hpool s r))
    · intro s s' r r' e
      have hcase : ∀ t, Reach (Option.map (fun s => ({ s with stamp := w.next } : Snap)) (ws a)) none none (pool a) t →
          ((Option.map (fun s => ({ s with stamp := w.next } : Snap)) (ws a)) = some t ∧ t.stamp = w.next) ∨ (pool a t ∧ t.stamp < w.next) := by
        intro t rt
        rcases rt with rt | rt | ⟨x, hx, _⟩ | rt
        · left; refine ⟨rt, ?_⟩
          cases hv : ws a with
          | none => rw [hv] at rt; cases rt
          | some v => rw [hv] at rt; simp only [Option.map_some, Option.some.injEq] at rt; subst rt; rfl
        · cases rt
        · cases hx
        · exact Or.inr ⟨rt, ha.fresh t (hpool t rt)⟩
      rcases hcase s r with ⟨h1, h2⟩ | ⟨h1, h2⟩ <;> rcases hcase s' r' with ⟨h3, h4⟩ | ⟨h3, h4⟩
      · rw [h1] at h3; simpa using h3
      · omega
      · omega
      · exact ha.inj s s' (hpool s h1) (hpool s' h3) e
    · intro s r
      rcases r with r | r
      · cases hv : ws a with
        | none => rw [hv] at r; cases r
        | some v =>
          rw [hv] at r; simp only [Option.map_some, Option.some.injEq] at r; subst r
          exact ha.nonempty v (Or.inr (hws a v hv))
      · exact ha.nonempty s (Or.inr r)

theorem init_noReach (s : Snap) : ¬ Reach (none : Option Snap) (none : Option AState) (none : Option Snap) (fun _ => False) s := by
  intro r
  rcases r with r | r | ⟨x, hx, _⟩ | r
  · cases r
  · cases r
  · cases hx
  · exact r

theorem init_inv : WInv World.init (fun _ _ => False) := by
  intro a
  show LocInv none none none (fun _ => False) 0
  refine ⟨?_, ?_, ?_, ?_, (by intro x s hx; cases hx), (by intro x hx; cases hx)⟩
  · intro s r; exact absurd r (init_noReach s)
  · intro s r; exact absurd r (init_noReach s)
  · intro s s' r; exact absurd r (init_noReach s)
  · intro s r
    rcases r with r | r
    · cases r
    · exact absurd r id


/-! ### observations of the abstract state, and mutations -/

/-- balance of an account in the abstract state (absent = 0) -/
def obsBal (d : Option AcctData) : Int := (d.map (·.bal)).getD 0
/-- storage value of an account in the abstract state (absent = none) -/
def obsGet (d : Option AcctData) (k : Nat) : Option Nat := d.bind (·.get k)
/-- contract part of an account in the abstract state (absent = not a contract) -/
def obsIsContract (d : Option AcctData) : Bool := (d.map (·.isContract)).getD false
def obsCur (d : Option AcctData) : Option Nat := d.bind (·.cur)
def obsNext (d : Option AcctData) : Option (Nat × Bool) := d.bind (·.next)
def obsGraph (d : Option AcctData) : Option Graph := d.bind (·.graph)

theorem obs_absSt (x : AState) :
    obsBal (absSt x) = x.hdr.bal ∧ (∀ k, obsGet (absSt x) k = kvGet (x.store.getD []) k) ∧
    obsIsContract (absSt x) = x.hdr.isContract ∧
    (x.hdr.isContract = true → obsCur (absSt x) = x.hdr.cur ∧ obsNext (absSt x) = x.hdr.next ∧
      obsGraph (absSt x) = x.hdr.graph) := by
  unfold absSt contentEmpty
  split
  · rename_i he
    simp only [Bool.and_eq_true, beq_iff_eq, Bool.not_eq_true'] at he
    refine ⟨by simp [obsBal, he.1.1], fun k => ?_, by simp [obsIsContract, he.1.2], fun hc => ?_⟩
    · have : x.store.getD [] = [] := by
        cases hs : x.store with
        | none => rfl
        | some l =>
          cases l with
          | nil => rfl
          | cons p ps => rw [hs] at he; simp [normStore] at he
      rw [this]; rfl
    · rw [he.1.2] at hc; cases hc
  · exact ⟨rfl, fun k => rfl, rfl, fun _ => ⟨rfl, rfl, rfl⟩⟩

theorem kvGet_kvDel (l : KV) (k k' : Nat) : kvGet (kvDel l k) k' = if k' = k then none else kvGet l k' := by
  unfold kvGet kvDel
  induction l with
  | nil => simp
  | cons p ps ih =>
    obtain ⟨pk, pv⟩ := p
    by_cases hp : pk = k
    · subst hp
      simp only [List.filter_cons, bne_self_eq_false, Bool.false_eq_true, if_false, List.lookup_cons]
      rw [ih]
      by_cases hk : k' = pk
      · simp [hk]
      · have : (k' == pk) = false := by simp [hk]
        simp [hk, this]
    · have : (pk != k) = true := by simp [hp]
      simp only [List.filter_cons, this, if_true, List.lookup_cons]
      rw [ih]
      by_cases hk : k' = k
      · subst hk
        have : (k' == pk) = false := by simp; exact fun e => hp e.symm
        simp [this]
      · simp [hk]

theorem lookup_filter_ne {β} (l : List (Nat × β)) (id : Nat) : (l.filter (fun p => p.1 != id)).lookup id = none := by
  induction l with
  | nil => rfl
  | cons p ps ih =>
    obtain ⟨pk, pv⟩ := p
    by_cases hp : pk = id
    · subst hp; simp only [List.filter_cons, bne_self_eq_false, Bool.false_eq_true, if_false]; exact ih
    · have h1 : (pk != id) = true := by simp [hp]
      have h2 : (id == pk) = false := by simp; exact fun e => hp e.symm
      simp only [List.filter_cons, h1, if_true, List.lookup_cons, h2]; exact ih

theorem ogGet_ogSet (c : OgCache) (id : Nat) (g : Option Graph) : ogGet (ogSet c id g) id = g := by
  unfold ogGet ogSet
  cases g with
  | none => exact lookup_filter_ne _ _
  | some g => simp [List.lookup_cons]

theorem kvGet_kvSet (l : KV) (k v k' : Nat) : kvGet (kvSet l k v) k' = if k' = k then some v else kvGet l k' := by
  unfold kvSet
  have := kvGet_kvDel l k k'
  unfold kvGet at this ⊢
  simp only [List.lookup_cons]
  by_cases hk : k' = k
  · simp [hk]
  · have h2 : (k' == k) = false := by simp [hk]
    simp [h2, hk, this]

/-- a mutation through the account state: only the cached state of `a` changes -/
theorem mutate_abs (w : World) (pool) (h : WInv w pool) (a : Nat) (f : AState → AState) :
    let w1 := (w.getAccountState a).1
    let st := (w.getAccountState a).2
    (w1.putState a (f st)).abs a = absSt (f st) ∧ absSt st = w.abs a ∧
    ∀ b, b ≠ a → (w1.putState a (f st)).abs b = w.abs b := by
  have g := getAccountState_spec w pool h a
  refine ⟨?_, ?_, ?_⟩
  · rw [abs_eq]; unfold World.putState; simp only [upd_same]
  · rw [← g.2.2.1 a, abs_eq, g.2.1]
  · intro b hb
    rw [← g.2.2.1 b, abs_eq, abs_eq]
    unfold World.putState
    simp only [upd_other _ _ _ _ hb]


/-! ### histories -/

def poolOf (snaps : List WSnap) : Nat → Snap → Prop := fun a s => ∃ ws, ws ∈ snaps ∧ ws a = some s

/-- the invariant of a history: world + every snapshot taken so far -/
def Inv (h : Hist) : Prop := WInv h.w (poolOf h.snaps)

theorem mem_of_getElem? {α} (l : List α) (i : Nat) (x : α) (h : l[i]? = some x) : x ∈ l :=
  List.mem_of_getElem? h

theorem step_inv (h : Hist) (op : Op) (hi : Inv h) : Inv (h.step op) := by
  unfold Inv at *
  cases op with
  | setBalance a v => exact setBalance_inv _ _ hi a v
  | setValue a k v => exact setValue_inv _ _ hi a k v
  | deleteValue a k => exact deleteValue_inv _ _ hi a k
  | deploy a c => exact deploy_inv _ _ hi a c
  | initContract a => exact mutate_inv _ _ hi a (fun x => x.initContract) initContract_last
  | deployContract a c => exact mutate_inv _ _ hi a (fun x => x.deployContract c) (fun x => deployContract_last x c)
  | acceptContract a c => exact mutate_inv _ _ hi a (fun x => (x.acceptContract c).1) (fun x => acceptContract_last x c)
  | rejectContract a c => exact mutate_inv _ _ hi a (fun x => (x.rejectContract c).1) (fun x => rejectContract_last x c)
  | setObjGraph a nh g => exact setObjGraph_inv _ _ hi a nh g
  | touch a => exact (getAccountState_spec _ _ hi a).1
  | peek a => exact (getAccountSnapshot_spec _ _ hi a).2.2
  | snapshot =>
    simp only [Hist.step, World.getSnapshot]
    refine (flush_inv _ _ hi).sub_pool ?_
    intro a s r
    obtain ⟨ws, hm, hs⟩ := r
    rcases List.mem_append.mp hm with m | m
    · exact Or.inl ⟨ws, m, hs⟩
    · simp only [List.mem_singleton] at m; subst m; exact Or.inr hs
  | reset i =>
    simp only [Hist.step]
    split
    · rename_i ws hws
      exact (reset_spec _ _ hi ws (fun a s hs => ⟨ws, mem_of_getElem? _ _ _ hws, hs⟩)).2
    · exact hi
  | clearCache => exact (clearCache_spec _ _ hi).2
  | reload i =>
    simp only [Hist.step]
    split
    · rename_i ws hws
      exact (reload_spec _ _ hi ws (fun a s hs => ⟨ws, mem_of_getElem? _ _ _ hws, hs⟩)).2
    · exact hi

theorem init_hist_inv : Inv Hist.init := by
  unfold Inv Hist.init
  refine init_inv.sub_pool ?_
  intro a s r
  obtain ⟨ws, hm, _⟩ := r
  cases hm

theorem run_inv (h : Hist) (ops : List Op) (hi : Inv h) : Inv (h.run ops) := by
  unfold Hist.run
  induction ops generalizing h with
  | nil => exact hi
  | cons op rest ih => exact ih _ (step_inv h op hi)

theorem step_snaps_prefix (h : Hist) (op : Op) : ∃ t, (h.step op).snaps = h.snaps ++ t := by
  cases op with
  | snapshot => exact ⟨[(h.w.getSnapshot).2], rfl⟩
  | reset i => simp only [Hist.step]; split <;> exact ⟨[], by simp⟩
  | reload i => simp only [Hist.step]; split <;> exact ⟨[], by simp⟩
  | _ => exact ⟨[], by simp [Hist.step]⟩

theorem run_snaps_prefix (h : Hist) (ops : List Op) : ∃ t, (h.run ops).snaps = h.snaps ++ t := by
  unfold Hist.run
  induction ops generalizing h with
  | nil => exact ⟨[], by simp⟩
  | cons op rest ih =>
    obtain ⟨t1, h1⟩ := step_snaps_prefix h op
    obtain ⟨t2, h2⟩ := ih (h.step op)
    exact ⟨t1 ++ t2, by simp only [List.foldl_cons]; rw [h2, h1, List.append_assoc]⟩

end Goloop.C14.Proofs
