/-
  Props/C19 — "Layered database writes are all-or-nothing".

  `view s k`  = what a client reads through the layer (`GetBucket(k.1)` then `Get(k.2)`),
  `base s k`  = what is in the underlying map database,
  both plain functions `Key → Option Val` (Key = bucket id × key).  `Reachable s`:
  `s` is the state after ANY history of open / set / delete / flush(true|false)
  operations (through handles that were really handed out) on a fresh layer over
  ANY database.  Helper lemmas are in Proofs/C19.lean.
-/
import Goloop.Proofs.C19
namespace Goloop.C19
open Goloop.C19.Proofs

/-- Full refinement, every history (several flushes, writes after a commit, discards
    followed by more writes …): the layer behaves as the two-function specification
    `specStep` (writes go to `view` only; commit copies `view` to `base` and from then on
    writes go to both; discard copies `base` to `view`). -/
theorem refines_spec (st : Store) (ops : List Op) (h : HistOk (newLayerDB st) ops) :
    (run (newLayerDB st) ops).flushed = (specRun (abs (newLayerDB st)) ops).flushed ∧
    (∀ k, base (run (newLayerDB st) ops) k = (specRun (abs (newLayerDB st)) ops).base k) ∧
    (∀ k, view (run (newLayerDB st) ops) k = (specRun (abs (newLayerDB st)) ops).view k) := by
  have hs := run_ok ops _ _ (sim_abs _ (inv_new st)) h
  exact ⟨hs.fl.symm, fun k => (hs.base k).symm, fun k => by rw [view_eq _ hs.inv k, hs.view k]⟩

/-- a fresh layer shows exactly the database -/
theorem view_new (st : Store) (k : BK) : view (newLayerDB st) k = sget st k := by
  rw [view_eq _ (inv_new st)]; simp [viewF, newLayerDB, ival, findItem]

example : HistOk (newLayerDB [(([1], [2]), [9])])
    [.open [1], .set (.layer [1]) [2] [3], .del (.layer [1]) [7], .flush false, .open [4], .flush true,
     .open [5], .set (.real [5]) [1] [1]] := by
  simp [HistOk, OpOk, Valid, step, getBucket, lookupBucket, newLayerDB, bkSet, bkDelete, dataLive, flush]

/-- **view_is_overlay.** In every reachable state, through every valid handle:
    reads return the view; a set / delete changes the view at exactly that key (to the
    written value / to absent) and nowhere else; while the layer is not committed the
    underlying database is untouched; obtaining a bucket changes nothing. -/
theorem view_is_overlay (s : LDB) (hr : Reachable s) (h : Handle) (hv : Valid s h) (key value : Bytes) :
    bkGet s h key = view s (h.id, key) ∧
    bkHas s h key = (view s (h.id, key)).isSome ∧
    (∀ k, view (bkSet s h key value) k = upd (view s) (h.id, key) (some value) k) ∧
    (∀ k, view (bkDelete s h key) k = upd (view s) (h.id, key) none k) ∧
    (s.flushed = false → ∀ k, base (bkSet s h key value) k = base s k ∧ base (bkDelete s h key) k = base s k) ∧
    (∀ id k, view (getBucket s id).1 k = view s k ∧ base (getBucket s id).1 k = base s k) := by
  have hi := inv_of_reachable s hr
  have hs := sim_abs s hi
  have h1 := step_set s _ hs h hv key value
  have h2 := step_del s _ hs h hv key
  refine ⟨?_, ?_, ?_, ?_, ?_, ?_⟩
  · rw [view_eq s hi]; exact get_eq_view s hi h hv key
  · rw [view_eq s hi]; exact has_eq_view s hi h hv key
  · intro k
    rw [view_eq _ h1.inv k, ← h1.view k]
    simp only [specStep]; split <;> rfl
  · intro k
    rw [view_eq _ h2.inv k, ← h2.view k]
    simp only [specStep]; split <;> rfl
  · intro hf k
    have e1 := h1.base k
    have e2 := h2.base k
    have ha : ¬ (abs s).flushed = true := by simp [abs, hf]
    simp only [specStep, if_neg ha] at e1 e2
    exact ⟨e1.symm, e2.symm⟩
  · intro id k
    have h3 := step_open s _ hs id
    exact ⟨by rw [view_eq _ h3.inv k, ← h3.view k]; rfl, (h3.base k).symm⟩

example : Reachable (run (newLayerDB []) [.open [1], .set (.layer [1]) [2] [3]]) ∧
    Valid (run (newLayerDB []) [.open [1], .set (.layer [1]) [2] [3]]) (.layer [1]) :=
  ⟨⟨[], _, by simp [HistOk, OpOk, Valid, step, getBucket, lookupBucket, newLayerDB], rfl⟩,
   by simp [Valid, run, step, getBucket, lookupBucket, newLayerDB, bkSet, dataLive]⟩

/-- **commit_makes_base_equal_view.** `Flush(true)` on a not yet committed layer succeeds
    and makes the underlying database equal, key by key, to what the layer showed
    (whatever the order of the writes, re-writes and deletes was); the view is unchanged. -/
theorem commit_makes_base_equal_view (s : LDB) (hr : Reachable s) (hf : s.flushed = false) :
    (flush s true).2 = true ∧ (flush s true).1.flushed = true ∧
    (∀ k, base (flush s true).1 k = view s k) ∧ (∀ k, view (flush s true).1 k = view s k) := by
  have hi := inv_of_reachable s hr
  have h1 := step_flush s _ (sim_abs s hi) true
  have ha : ¬ (abs s).flushed = true := by simp [abs, hf]
  refine ⟨by simp [flush, hf], by simp [flush, hf], ?_, ?_⟩
  · intro k
    have := h1.base k
    simp only [specStep, if_neg ha] at this
    exact this.symm
  · intro k
    rw [view_eq _ h1.inv k, ← h1.view k]
    simp only [specStep, if_neg ha]; rfl

/-- **discard_leaves_base.** `Flush(false)` on a not yet committed layer leaves the
    underlying database exactly as it was, forgets every pending write (the view equals
    the database again) and the layer stays usable as a layer. -/
theorem discard_leaves_base (s : LDB) (hr : Reachable s) (hf : s.flushed = false) :
    (flush s false).2 = true ∧ (flush s false).1.flushed = false ∧
    (flush s false).1.real = s.real ∧
    (∀ k, base (flush s false).1 k = base s k) ∧ (∀ k, view (flush s false).1 k = base s k) := by
  have hi := inv_of_reachable s hr
  have h1 := step_flush s _ (sim_abs s hi) false
  have ha : ¬ (abs s).flushed = true := by simp [abs, hf]
  refine ⟨by simp [flush, hf], by simp [flush, hf], by simp [flush, hf], ?_, ?_⟩
  · intro k
    have := h1.base k
    simp only [specStep, if_neg ha] at this
    exact this.symm
  · intro k
    rw [view_eq _ h1.inv k, ← h1.view k]
    simp only [specStep, if_neg ha]; rfl

/-- the database is not touched by anything but a committing flush: any history without
    a flush leaves the store itself (not only its contents) unchanged. -/
theorem no_write_before_commit (ops : List Op) (s : LDB) (hi : Inv s) (hf : s.flushed = false)
    (hh : HistOk s ops) (hn : ∀ o ∈ ops, ∀ w, o ≠ .flush w) :
    (run s ops).real = s.real ∧ (run s ops).flushed = false := by
  induction ops generalizing s with
  | nil => exact ⟨rfl, hf⟩
  | cons o r ih =>
    obtain ⟨ho, hr⟩ := hh
    have hs := step_ok s _ (sim_abs s hi) o ho
    have hstep : (step s o).real = s.real ∧ (step s o).flushed = false := by
      cases o with
      | «open» id =>
        simp only [step, getBucket]
        split
        · exact ⟨rfl, hf⟩
        · simp [hf]
      | set h k v =>
        cases h with
        | real id => exact absurd (show s.flushed = true from ho) (by simp [hf])
        | layer id =>
          have hl := live_of_valid s hi id ho
          simp [step, bkSet, hl, hf]
      | del h k =>
        cases h with
        | real id => exact absurd (show s.flushed = true from ho) (by simp [hf])
        | layer id =>
          have hl := live_of_valid s hi id ho
          simp [step, bkDelete, hl, hf]
      | flush w => exact absurd rfl (hn (.flush w) (List.mem_cons_self) w)
    have := ih (step s o) hs.inv hstep.2 hr (fun o' ho' => hn o' (List.mem_cons_of_mem _ ho'))
    simp only [run, List.foldl_cons] at this ⊢
    exact ⟨this.1.trans hstep.1, this.2⟩

/-- **after_commit_passthrough.** Once committed, the layer is transparent: the view is
    the database, every set / delete through any valid handle (old layer handles or real
    buckets) goes straight to the database, `Flush(true)` is a no-op and `Flush(false)`
    is refused without changing anything. -/
theorem after_commit_passthrough (s : LDB) (hr : Reachable s) (hf : s.flushed = true)
    (h : Handle) (hv : Valid s h) (key value : Bytes) :
    (∀ k, view s k = base s k) ∧
    (∀ k, base (bkSet s h key value) k = upd (base s) (h.id, key) (some value) k) ∧
    (∀ k, base (bkDelete s h key) k = upd (base s) (h.id, key) none k) ∧
    (bkSet s h key value).flushed = true ∧ (bkDelete s h key).flushed = true ∧
    flush s true = (s, true) ∧ flush s false = (s, false) := by
  have hi := inv_of_reachable s hr
  have hs := sim_abs s hi
  have h1 := step_set s _ hs h hv key value
  have h2 := step_del s _ hs h hv key
  have ha : (abs s).flushed = true := hf
  refine ⟨?_, ?_, ?_, ?_, ?_, by simp [flush, hf], by simp [flush, hf]⟩
  · intro k; rw [view_eq s hi k]; simp [viewF, hf, base]
  · intro k
    have := h1.base k
    simp only [specStep, if_pos ha] at this
    exact this.symm
  · intro k
    have := h2.base k
    simp only [specStep, if_pos ha] at this
    exact this.symm
  · have := h1.fl; simp only [specStep, if_pos ha] at this; rw [← this]; exact ha
  · have := h2.fl; simp only [specStep, if_pos ha] at this; rw [← this]; exact ha

example : Reachable (run (newLayerDB []) [.open [1], .set (.layer [1]) [2] [3], .flush true]) ∧
    (run (newLayerDB []) [.open [1], .set (.layer [1]) [2] [3], .flush true]).flushed = true :=
  ⟨⟨[], _, by simp [HistOk, OpOk, Valid, step, getBucket, lookupBucket, newLayerDB], rfl⟩,
   by simp [run, step, getBucket, lookupBucket, newLayerDB, bkSet, dataLive, flush]⟩

end Goloop.C19
