/-
  Props/C32 — "Peer identity is bound to a key over the session secret".

  `c : Crypto PK` (key parsing, ECDSA verify, SHA3, id-of-key) and `cfg.kdf` (session
  secret from the received ECDH parameter) are parameters: the theorems hold for every
  instantiation.  A session is `onPeer inbound` followed by ANY list of received messages
  (the remote side is the adversary).  `handed` = `nextOnPeer(p)` was called: the peer
  object left the authenticator with `p.ID()` = `id`.
-/
import Goloop.Proofs.C32
namespace Goloop.C32
open Goloop.C32.Proofs

variable {PK : Type}

/-- `VerifySignature(pub, sig, content)` succeeds with `id` iff the key parses, the signature
    has 64 or 65 bytes, its [R|S] part verifies over `sha3(content)` under that key, and `id`
    is the id derived from that key. -/
theorem verifySignature_ok_iff (c : Crypto PK) (pub sig content id : Bytes) :
    verifySignature c pub sig content = .ok id ↔
      ∃ pk rs, c.parsePub pub = some pk ∧ parseSig sig = some rs ∧
        c.verify rs (c.sha3 content) pk = true ∧ id = c.idOf pk :=
  Proofs.verifySignature_ok_iff c pub sig content id

/-- **identity only if verified**: in any session (either side, any received messages), if the
    peer is handed to the next handler, then one of the received messages was a signature
    request/response carrying a public key `pub` and a signature `sig` such that: this
    session's secret `x` is set, `pub` parses to `pk`, `sig` is well formed, it verifies over
    `sha3 x` under `pk`, the peer's id is `idOf pk` — and on the accepting side the id is not
    the node's own. -/
theorem identity_only_if_verified (c : Crypto PK) (cfg : Config) (inbound : Bool) (ms : List Msg)
    (h : (run c cfg (onPeer inbound).1 ms).handed = true) :
    ∃ m ∈ ms, ∃ pub sig,
      (m = .signatureRequest pub sig ∨ m = .signatureResponse pub sig false) ∧
      ∃ x pk rs, (run c cfg (onPeer inbound).1 ms).extra = some x ∧
        c.parsePub pub = some pk ∧ parseSig sig = some rs ∧
        c.verify rs (c.sha3 x) pk = true ∧
        (run c cfg (onPeer inbound).1 ms).id = some (c.idOf pk) ∧
        ((run c cfg (onPeer inbound).1 ms).inbound = true → c.idOf pk ≠ cfg.self) := by
  obtain ⟨hinv, hside⟩ := inv_onPeer inbound
  have hn : (onPeer inbound).1.handed = false := by cases inbound <;> rfl
  exact run_handed c cfg ms _ hinv hside hn h

/-- a toy instantiation used for the non-vacuity examples: keys are one byte, a signature
    `k :: h` verifies under key `k` for hash `h`, sha3 is the identity, secret = the parameter. -/
def toy : Crypto UInt8 :=
  { parsePub := fun b => match b with | [k] => some k | _ => none
    verify := fun rs h pk => rs == (pk :: h) ++ List.replicate (63 - h.length) 0
    sha3 := id
    idOf := fun k => [k] }
def toyCfg : Config := { self := [0], suites := [1, 3], aeads := [1, 2, 3], kdf := fun p _ => some p }
def toySig (k : UInt8) (x : Bytes) : Bytes := (k :: x) ++ List.replicate (63 - x.length) 0 ++ [0]

example : (run toy toyCfg (onPeer true).1
    [.secureRequest [1] [] [9, 9], .signatureRequest [5] (toySig 5 [9, 9])]).handed = true := by decide
example : (run toy toyCfg (onPeer false).1
    [.secureResponse 1 0 [7] false, .signatureResponse [5] (toySig 5 [7]) false]).handed = true := by
  decide

/-- one step, any state in which a signature message is processed: a key/signature pair that does
    not verify over THIS session's secret never leads to hand-over. -/
theorem unverified_not_handed (c : Crypto PK) (cfg : Config) (s : PeerSt) (m : Msg) (pub sig : Bytes)
    (hm : m = .signatureRequest pub sig ∨ ∃ e, m = .signatureResponse pub sig e)
    (hn : s.handed = false)
    (hbad : ∀ pk rs, c.parsePub pub = some pk → parseSig sig = some rs →
      c.verify rs (c.sha3 (s.extra.getD [])) pk = false) :
    (onPacket c cfg s m).1.handed = false := by
  have hvs : ∀ id, verifySignature c pub sig (s.extra.getD []) ≠ .ok id := by
    intro id h
    obtain ⟨pk, rs, h1, h2, h3, _⟩ := (Proofs.verifySignature_ok_iff c pub sig _ id).mp h
    rw [hbad pk rs h1 h2] at h3; cases h3
  by_cases hcl : s.closed = true
  · rw [frozen c cfg s m (Or.inl hcl)]; exact hn
  have hcl' : s.closed = false := by simpa using hcl
  cases hsub : m.sub with
  | none => rw [onPacket_nosub c cfg s m hcl' hn hsub]; exact hn
  | some sub =>
    cases hcw : checkWait s sub with
    | none => rw [onPacket_badwait c cfg s m sub hcl' hn hsub hcw]; exact hn
    | some s1 =>
      rw [onPacket_open c cfg s s1 m sub hcl' hn hsub hcw]
      obtain ⟨_, e2, _, _, e5, _⟩ := checkWait_some s s1 sub hcw
      have hn1 : s1.handed = false := by rw [e5]; exact hn
      rcases hm with hm | ⟨e, hm⟩
      · subst hm
        simp only [dispatch, handleSignatureRequest]
        rw [e2]
        cases hv : verifySignature c pub sig (s.extra.getD []) with
        | ok id => exact absurd hv (hvs id)
        | badKey => simp [close, hn1]
        | badSig => simp [close, hn1]
        | invalid id => simp [close, hn1]
      · subst hm
        simp only [dispatch, handleSignatureResponse]
        rw [e2]
        cases e with
        | true => simp [close, hn1]
        | false =>
          simp only [Bool.false_eq_true, if_false]
          cases hv : verifySignature c pub sig (s.extra.getD []) with
          | ok id => exact absurd hv (hvs id)
          | badKey => simp [close, hn1]
          | badSig => simp [close, hn1]
          | invalid id => simp [close, hn1]

/-- **other session rejected** (under unforgeability as hypothesis): let `sig` be a signature
    that the owner of `pk` made over the secret `x'` of ANOTHER session, and assume
    (unforgeability) that `sig` verifies under `pk` for no hash other than `sha3 x'`, and
    (collision resistance) `sha3 x ≠ sha3 x'` for this session's secret `x`.  Then presenting
    `(pub, sig)` in this session does not yield an identity. -/
theorem other_session_rejected (c : Crypto PK) (cfg : Config) (s : PeerSt) (m : Msg)
    (pub sig x x' : Bytes) (pk : PK)
    (hm : m = .signatureRequest pub sig ∨ ∃ e, m = .signatureResponse pub sig e)
    (hn : s.handed = false) (hx : s.extra = some x) (hpk : c.parsePub pub = some pk)
    (hunf : ∀ rs h, parseSig sig = some rs → c.verify rs h pk = true → h = c.sha3 x')
    (hcr : c.sha3 x ≠ c.sha3 x') :
    (onPacket c cfg s m).1.handed = false := by
  apply unverified_not_handed c cfg s m pub sig hm hn
  intro pk' rs h1 h2
  rw [hpk] at h1; injection h1 with h1; subst h1
  rw [hx]
  cases hv : c.verify rs (c.sha3 ((some x).getD [])) pk with
  | false => rfl
  | true => exact absurd (hunf rs _ h2 hv) hcr

example : toy.sha3 [7] ≠ toy.sha3 [8] ∧
    (∀ rs h, parseSig (toySig 5 [8]) = some rs → toy.verify rs h 5 = true → h.length ≤ 1 → h = toy.sha3 [8]) := by
  refine ⟨by decide, ?_⟩
  intro rs h h1 h2 h3
  have : rs = (toySig 5 [8]).take 64 := by
    unfold parseSig at h1; simp [toySig] at h1; exact h1.symm
  subst this
  match h, h3 with
  | [], _ => simp [toy, toySig] at h2
  | [a], _ => simp [toy, toySig] at h2; simp [toy, h2]

/-- the same signature replayed into another session is rejected (concrete instance). -/
example : (run toy toyCfg (onPeer true).1
    [.secureRequest [1] [] [7], .signatureRequest [5] (toySig 5 [8])]).handed = false ∧
    (run toy toyCfg (onPeer true).1
    [.secureRequest [1] [] [7], .signatureRequest [5] (toySig 5 [8])]).closed = true := by decide

/-- **malformed key rejected**: a public key that does not parse never yields an identity; on the
    accepting side the peer is closed with a nil id. -/
theorem malformed_key_rejected (c : Crypto PK) (cfg : Config) (s : PeerSt) (m : Msg) (pub sig : Bytes)
    (hm : m = .signatureRequest pub sig ∨ ∃ e, m = .signatureResponse pub sig e)
    (hn : s.handed = false) (hbad : c.parsePub pub = none) :
    (onPacket c cfg s m).1.handed = false :=
  unverified_not_handed c cfg s m pub sig hm hn (fun pk rs h1 _ => by rw [hbad] at h1; cases h1)

/-- **malformed signature rejected**: a signature that is not 64 or 65 bytes long never yields an
    identity. -/
theorem malformed_signature_rejected (c : Crypto PK) (cfg : Config) (s : PeerSt) (m : Msg)
    (pub sig : Bytes)
    (hm : m = .signatureRequest pub sig ∨ ∃ e, m = .signatureResponse pub sig e)
    (hn : s.handed = false) (hbad : sig.length ≠ 64 ∧ sig.length ≠ 65) :
    (onPacket c cfg s m).1.handed = false :=
  unverified_not_handed c cfg s m pub sig hm hn (fun pk rs _ h2 => by
    unfold parseSig at h2
    rw [if_neg (by omega)] at h2; cases h2)

example : (run toy toyCfg (onPeer true).1
    [.secureRequest [1] [] [7], .signatureRequest [5, 5] (toySig 5 [7])]).handed = false := by decide
example : (run toy toyCfg (onPeer true).1
    [.secureRequest [1] [] [7], .signatureRequest [5] ((toySig 5 [7]) ++ [1])]).handed = false := by decide

/-- a handed-over or closed peer is no longer touched by the authenticator. -/
theorem frozen_after_decision (c : Crypto PK) (cfg : Config) (s : PeerSt) (m : Msg)
    (h : s.closed = true ∨ s.handed = true) : onPacket c cfg s m = (s, []) :=
  Proofs.frozen c cfg s m h

/-- out-of-sequence messages (e.g. a signature message before the secure stage) close the peer
    without hand-over. -/
theorem out_of_sequence_closed (c : Crypto PK) (cfg : Config) (s : PeerSt) (m : Msg) (sub : Sub)
    (hcl : s.closed = false) (hn : s.handed = false) (hsub : m.sub = some sub)
    (w : Sub) (b : Bool) (hw : s.wait = some (w, b)) (hne : w ≠ sub ∨ b = true) :
    (onPacket c cfg s m).1.closed = true ∧ (onPacket c cfg s m).1.handed = false := by
  have hcw : checkWait s sub = none := by
    unfold checkWait; rw [hw]; simp only
    rcases hne with h | h
    · have : (w == sub) = false := by simpa using h
      simp [this]
    · subst h; simp
  rw [onPacket_badwait c cfg s m sub hcl hn hsub hcw]
  exact ⟨rfl, hn⟩

example : (run toy toyCfg (onPeer true).1 [.signatureRequest [5] (toySig 5 [])]).closed = true := by
  decide

/-! ### failing branches

`handleSignatureRequest` calls `p.setID(id)` *before* it looks at the error, so on the branch
"signature does not verify" (and "selfAddress") the peer object carries the id derived from
the CLAIMED, unverified public key.  The next three theorems say what that can and cannot do. -/

/-- exact outcome of an in-sequence `SignatureRequest` on the accepting side, branch by branch:
    unparsable key / signature → closed, not handed, id nil; signature does not verify →
    closed, not handed, id = id of the claimed key (the `setID` before the check); verifies but id
    is the node's own → closed, not handed; only the last branch hands the peer over. -/
theorem failing_branch_closed (c : Crypto PK) (cfg : Config) (s : PeerSt) (pub sig : Bytes)
    (hcl : s.closed = false) (hn : s.handed = false) (hw : s.wait = some (.sigReq, false)) :
    let r := (onPacket c cfg s (.signatureRequest pub sig)).1
    match verifySignature c pub sig (s.extra.getD []) with
    | .badKey => r.closed = true ∧ r.handed = false ∧ r.id = none
    | .badSig => r.closed = true ∧ r.handed = false ∧ r.id = none
    | .invalid id => r.closed = true ∧ r.handed = false ∧ r.id = some id
    | .ok id => if id = cfg.self then r.closed = true ∧ r.handed = false ∧ r.id = some id
                else r.closed = false ∧ r.handed = true ∧ r.id = some id :=
  Proofs.sigreq_outcome c cfg s pub sig hcl hn hw

example : (run toy toyCfg (onPeer true).1
    [.secureRequest [1] [] [7], .signatureRequest [5] (toySig 5 [8])]).id = some [5] ∧
    (run toy toyCfg (onPeer true).1
    [.secureRequest [1] [] [7], .signatureRequest [5] (toySig 5 [8])]).closed = true := by decide

/-- along any session (either side, any messages): whenever the peer object carries an id, it is
    either handed over (then `identity_only_if_verified` applies) or closed — never both.  So an
    id taken from an unverified key exists only on a closed peer object. -/
theorem id_only_on_verified_or_closed (c : Crypto PK) (cfg : Config) (inbound : Bool)
    (ms : List Msg) :
    ((run c cfg (onPeer inbound).1 ms).id.isSome = true →
        (run c cfg (onPeer inbound).1 ms).closed = true ∨
        (run c cfg (onPeer inbound).1 ms).handed = true) ∧
    ¬ ((run c cfg (onPeer inbound).1 ms).closed = true ∧
       (run c cfg (onPeer inbound).1 ms).handed = true) :=
  idInv_run c cfg ms _ (idInv_onPeer inbound)

/-- a peer closed on any failing branch is never handed to the next handler, whatever arrives
    afterwards (`ms'`), and keeps its state. -/
theorem closed_never_handed (c : Crypto PK) (cfg : Config) (inbound : Bool) (ms ms' : List Msg)
    (h : (run c cfg (onPeer inbound).1 ms).closed = true) :
    run c cfg (onPeer inbound).1 (ms ++ ms') = run c cfg (onPeer inbound).1 ms ∧
    (run c cfg (onPeer inbound).1 (ms ++ ms')).handed = false := by
  have e : run c cfg (onPeer inbound).1 (ms ++ ms') = run c cfg (onPeer inbound).1 ms := by
    rw [run_append]; exact run_closed_stays c cfg ms' _ h
  refine ⟨e, ?_⟩
  rw [e]
  have := (id_only_on_verified_or_closed c cfg inbound ms).2
  cases hh : (run c cfg (onPeer inbound).1 ms).handed with
  | false => rfl
  | true => exact absurd ⟨h, hh⟩ this

example : (run toy toyCfg (onPeer true).1
    ([.secureRequest [1] [] [7], .signatureRequest [5] (toySig 5 [8])] ++
     [.signatureRequest [5] (toySig 5 [7])])).handed = false := by decide

end Goloop.C32
