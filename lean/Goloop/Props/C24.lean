/-
  Props/C24 — property theorems for "Integer and hex encodings are minimal and invertible".
  Only property statements live here; helper lemmas are in Proofs/C24.lean.
-/
import Goloop.Proofs.C24
namespace Goloop.C24

/-- SizeToBytes/SafeBytesToSize64 round trip for every uint64. -/
theorem size_roundtrip (v : Nat) (h : v < 2 ^ 64) :
    safeBytesToSize64 (sizeToBytes v) = some v := Proofs.size_roundtrip v h

/-- SizeToBytes is minimal: no leading zero byte unless the value is 0 (then exactly `[0]`). -/
theorem size_minimal (v : Nat) (h : v < 2 ^ 64) :
    (v = 0 → sizeToBytes v = [0]) ∧ (v ≠ 0 → (sizeToBytes v).head? ≠ some 0 ∧ (sizeToBytes v) ≠ []) :=
  Proofs.size_minimal v h

example : (255 : Nat) < 2 ^ 64 ∧ sizeToBytes 256 = [1, 0] := by decide

end Goloop.C24
