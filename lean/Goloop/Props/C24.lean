/-
  Props/C24 — property theorems for "Integer and hex encodings are minimal and invertible".
  Only property statements live here; helper lemmas are in Proofs/C24.lean.

  "Minimal" is stated as: every byte string that decodes to `v` is at least as long as the
  encoder's output (the empty string, which every decoder also reads as 0, is the one
  documented exception: the encoders emit `[0]` for 0).  Because two's-complement decoding is
  injective on strings of equal length, this also gives uniqueness: the encoder's output is
  the only shortest non-empty string with that value (`*_canonical`).
-/
import Goloop.Proofs.C24
namespace Goloop.C24
open Goloop.C24.Proofs

/-! ## int64 -/

/-- `SafeBytesToInt64 (Int64ToBytes v) = v` for every int64. -/
theorem int64_roundtrip (v : Int) (h : -(2:Int)^63 ≤ v ∧ v < (2:Int)^63) :
    safeBytesToInt64 (int64ToBytes v) = some v := by
  obtain ⟨hm, hl⟩ := int64ToBytes_spec v h
  rw [safeBytesToInt64_eq, if_neg (by omega), hm.val]

/-- the 8-iteration loop never runs out of slots: 1 ≤ length ≤ 8. -/
theorem int64_length (v : Int) (h : -(2:Int)^63 ≤ v ∧ v < (2:Int)^63) :
    1 ≤ (int64ToBytes v).length ∧ (int64ToBytes v).length ≤ 8 := by
  obtain ⟨hm, hl⟩ := int64ToBytes_spec v h
  have := hm.ne
  exact ⟨by cases hx : int64ToBytes v with | nil => exact absurd hx this | cons _ _ => simp, hl⟩

/-- Minimality: any non-empty byte string that `SafeBytesToInt64` decodes to `v` is at least as
    long as `Int64ToBytes v`. -/
theorem int64_minimal (v : Int) (h : -(2:Int)^63 ≤ v ∧ v < (2:Int)^63) (bs : Bytes)
    (hne : bs ≠ []) (hd : safeBytesToInt64 bs = some v) :
    (int64ToBytes v).length ≤ bs.length := by
  rw [safeBytesToInt64_eq] at hd
  split at hd
  · cases hd
  · exact minSigned_shortest (int64ToBytes_spec v h).1 hne (Option.some.inj hd)

/-- Canonical form: a decodable string of the same length as the encoder's output IS the
    encoder's output. -/
theorem int64_canonical (v : Int) (h : -(2:Int)^63 ≤ v ∧ v < (2:Int)^63) (bs : Bytes)
    (hd : safeBytesToInt64 bs = some v) (hl : bs.length = (int64ToBytes v).length) :
    bs = int64ToBytes v := by
  rw [safeBytesToInt64_eq] at hd
  split at hd
  · cases hd
  · exact beInt_inj hl ((Option.some.inj hd).trans (int64ToBytes_spec v h).1.val.symm)

/-- `SafeBytesToInt64` rejects exactly the strings longer than 8 bytes … -/
theorem int64_decoder_accepts_iff (bs : Bytes) :
    (safeBytesToInt64 bs).isSome ↔ bs.length ≤ 8 := by
  rw [safeBytesToInt64_eq]; split <;> simp <;> omega

/-- … and whatever it accepts is an int64 (no overflow in the Go accumulator) whose
    two's-complement value is the result. -/
theorem int64_decoder_range (bs : Bytes) (v : Int) (hd : safeBytesToInt64 bs = some v) :
    v = beInt bs ∧ -(2:Int)^63 ≤ v ∧ v < (2:Int)^63 := by
  rw [safeBytesToInt64_eq] at hd
  split at hd
  · cases hd
  · have hv := Option.some.inj hd
    subst hv
    refine ⟨rfl, ?_⟩
    rw [← fitsS7_iff]
    cases bs with
    | nil => show fitsS 7 0; unfold fitsS; have := pow256_pos 7; omega
    | cons b r => exact fitsS_mono (by simp at *; omega) (beInt_fits b r)

example : (-(2:Int)^63 ≤ -129 ∧ (-129:Int) < (2:Int)^63) ∧ int64ToBytes (-129) = [0xff, 0x7f]
    ∧ safeBytesToInt64 [0xff, 0xff, 0x7f] = some (-129) := by decide

/-! ## uint64 -/

/-- `SafeBytesToUint64 (Uint64ToBytes v) = v` for every uint64. -/
theorem uint64_roundtrip (v : Nat) (h : v < 2 ^ 64) :
    safeBytesToUint64 (uint64ToBytes v) = some v := Proofs.uint64_roundtrip v h

/-- 9 slots suffice. -/
theorem uint64_length (v : Nat) (h : v < 2 ^ 64) :
    1 ≤ (uint64ToBytes v).length ∧ (uint64ToBytes v).length ≤ 9 := by
  obtain ⟨hm, hl⟩ := uint64ToBytes_spec v h
  have := hm.ne
  exact ⟨by cases hx : uint64ToBytes v with | nil => exact absurd hx this | cons _ _ => simp, hl⟩

/-- the output never has its sign bit set (a leading 0 is added when the top bit is set). -/
theorem uint64_no_sign_bit (v : Nat) (h : v < 2 ^ 64) :
    ∃ b r, uint64ToBytes v = b :: r ∧ b.toNat < 128 := by
  obtain ⟨hm, _⟩ := uint64ToBytes_spec v h
  cases hx : uint64ToBytes v with
  | nil => exact absurd hx hm.ne
  | cons b r =>
    rw [hx] at hm
    exact ⟨b, r, rfl, head_lt_128_of_beInt_nonneg (by rw [hm.val]; exact Int.natCast_nonneg _)⟩

/-- Minimality of `Uint64ToBytes` among everything `SafeBytesToUint64` accepts. -/
theorem uint64_minimal (v : Nat) (h : v < 2 ^ 64) (bs : Bytes)
    (hne : bs ≠ []) (hd : safeBytesToUint64 bs = some v) :
    (uint64ToBytes v).length ≤ bs.length :=
  minSigned_shortest (uint64ToBytes_spec v h).1 hne (safeBytesToUint64_some hd).1

theorem uint64_canonical (v : Nat) (h : v < 2 ^ 64) (bs : Bytes)
    (hd : safeBytesToUint64 bs = some v) (hl : bs.length = (uint64ToBytes v).length) :
    bs = uint64ToBytes v :=
  beInt_inj hl ((safeBytesToUint64_some hd).1.trans (uint64ToBytes_spec v h).1.val.symm)

/-- `SafeBytesToUint64` rejects a set sign bit. -/
theorem uint64_decoder_rejects_sign_bit (b : UInt8) (r : Bytes) (hb : b.toNat ≥ 128) :
    safeBytesToUint64 (b :: r) = none := by
  unfold safeBytesToUint64
  have : b ≠ 0 := by intro h; subst h; simp at hb
  simp [this, hb]

/-- `SafeBytesToUint64` rejects overlong input: more than 9 bytes, or 9 bytes without the
    leading zero. -/
theorem uint64_decoder_rejects_overlong (b : UInt8) (r : Bytes)
    (hl : r.length > 8 ∨ (r.length = 8 ∧ b ≠ 0)) :
    safeBytesToUint64 (b :: r) = none := by
  unfold safeBytesToUint64
  by_cases hb0 : b = 0
  · have : r.length > 8 := by rcases hl with h | ⟨_, h⟩; exact h; exact absurd hb0 h
    simp [hb0, this]
  · by_cases hb : b.toNat ≥ 128
    · simp [hb0, hb]
    · have : (b :: r).length > 8 := by simp; omega
      simp only [hb0, hb, if_false, this, if_true]

/-- everything else is accepted, and the result is always a uint64. -/
theorem uint64_decoder_accepts (b : UInt8) (r : Bytes) (hb : b.toNat < 128)
    (hl : (b :: r).length ≤ 9) (hv : beNat (b :: r) < 2 ^ 64) :
    safeBytesToUint64 (b :: r) = some (beNat (b :: r)) := safeBytesToUint64_accepts hb hl hv

theorem uint64_decoder_range (bs : Bytes) (v : Nat) (hd : safeBytesToUint64 bs = some v) :
    v < 2 ^ 64 := (safeBytesToUint64_some hd).2

example : uint64ToBytes 255 = [0, 0xff] ∧ uint64ToBytes (2^64 - 1) = [0, 0xff, 0xff, 0xff, 0xff, 0xff, 0xff, 0xff, 0xff]
    ∧ safeBytesToUint64 [0, 0, 0xff] = some 255 ∧ safeBytesToUint64 [0xff] = none := by decide

/-! ## big integers -/

/-- `BigIntSetBytes (BigIntToBytes i) = i` for EVERY integer. -/
theorem big_roundtrip (i : Int) : bigIntSetBytes (bigIntToBytes i) = i := Proofs.big_roundtrip i

/-- `BigIntSetBytes` is plain two's-complement reading (the `BitLen` trick is exact). -/
theorem big_decoder_is_twos_complement (bs : Bytes) : bigIntSetBytes bs = beInt bs :=
  bigIntSetBytes_eq_beInt bs

/-- Minimality of `BigIntToBytes` for every integer. -/
theorem big_minimal (i : Int) (bs : Bytes) (hne : bs ≠ []) (hd : bigIntSetBytes bs = i) :
    (bigIntToBytes i).length ≤ bs.length :=
  minSigned_shortest (bigIntToBytes_spec i) hne (by rw [← bigIntSetBytes_eq_beInt]; exact hd)

theorem big_canonical (i : Int) (bs : Bytes) (hd : bigIntSetBytes bs = i)
    (hl : bs.length = (bigIntToBytes i).length) : bs = bigIntToBytes i :=
  beInt_inj hl (by rw [← bigIntSetBytes_eq_beInt, hd]; exact (bigIntToBytes_spec i).val.symm)

/-- The three signed encoders agree wherever their domains overlap (one canonical form). -/
theorem int64_eq_big (v : Int) (h : -(2:Int)^63 ≤ v ∧ v < (2:Int)^63) :
    int64ToBytes v = bigIntToBytes v :=
  minSigned_unique (int64ToBytes_spec v h).1 (bigIntToBytes_spec v)

theorem uint64_eq_big (v : Nat) (h : v < 2 ^ 64) : uint64ToBytes v = bigIntToBytes (v : Int) :=
  minSigned_unique (uint64ToBytes_spec v h).1 (bigIntToBytes_spec v)

example : bigIntToBytes (-(2^64)) = [0xff, 0, 0, 0, 0, 0, 0, 0, 0] ∧ bigIntToBytes (2^63) = [0, 0x80, 0, 0, 0, 0, 0, 0, 0] := by
  decide

/-! ## size (unsigned, no sign byte) -/

/-- SizeToBytes/SafeBytesToSize64 round trip for every uint64. -/
theorem size_roundtrip (v : Nat) (h : v < 2 ^ 64) :
    safeBytesToSize64 (sizeToBytes v) = some v := Proofs.size_roundtrip v h

/-- SizeToBytes is minimal: no leading zero byte unless the value is 0 (then exactly `[0]`). -/
theorem size_minimal (v : Nat) (h : v < 2 ^ 64) :
    (v = 0 → sizeToBytes v = [0]) ∧ (v ≠ 0 → (sizeToBytes v).head? ≠ some 0 ∧ (sizeToBytes v) ≠ []) :=
  Proofs.size_minimal v h

/-- … equivalently: every non-empty string that `SafeBytesToSize64` decodes to `v` is at least as long. -/
theorem size_shortest (v : Nat) (h : v < 2 ^ 64) (bs : Bytes) (hne : bs ≠ [])
    (hd : safeBytesToSize64 bs = some v) : (sizeToBytes v).length ≤ bs.length := by
  unfold safeBytesToSize64 at hd
  split at hd
  · cases hd
  · exact Proofs.size_shortest v h bs hne (Option.some.inj hd)

example : (255 : Nat) < 2 ^ 64 ∧ sizeToBytes 256 = [1, 0] := by decide

/-! ## hex text -/

/-- `ParseBigInt (FormatBigInt i) = i` for EVERY integer (this is also `HexInt.String` /
    `HexInt.UnmarshalJSON` modulo JSON quoting). -/
theorem hex_big_roundtrip (i : Int) : parseBigInt (formatBigInt i) = some i :=
  Proofs.formatBigInt_roundtrip i

/-- `ParseUint (FormatUint v, bits) = v` for every `bits`-bit unsigned value (HexUint16/32/64). -/
theorem hex_uint_roundtrip (bits : Nat) (hb : bits ≤ 64) (v : Nat) (h : v < 2 ^ bits) :
    parseUint (formatUint v) bits = some v := Proofs.formatUint_roundtrip bits hb v h

/-- `ParseInt (FormatInt v, bits) = v` for every `bits`-bit signed value (HexInt16/32/64),
    including the most negative one, whose magnitude does not fit the signed type. -/
theorem hex_int_roundtrip (bits : Nat) (hb1 : 1 ≤ bits) (hb : bits ≤ 64) (v : Int)
    (h : -(2:Int) ^ (bits - 1) ≤ v ∧ v < (2:Int) ^ (bits - 1)) :
    parseInt (formatInt v) bits = some v := Proofs.formatInt_roundtrip bits hb1 hb v h

example : formatInt (-(2:Int)^63) = "-0x8000000000000000" ∧ formatBigInt (-255) = "-0xff" ∧ formatUint 0 = "0x0"
    ∧ parseInt "-0x8000000000000000" 64 = some (-(2:Int)^63) ∧ parseInt "0x8000000000000000" 64 = none := by
  decide

/-- the printed text is canonical: sign, `0x`, then a non-empty lower-case digit string without a
    superfluous leading zero digit pair (at most one nibble is stripped). -/
theorem hex_big_shape (i : Int) : ∃ ns : List Nat, ns ≠ [] ∧ (∀ n ∈ ns, n < 16) ∧
    hexVal ns 0 = i.natAbs ∧
    (formatBigInt i).toList = hexPrefix (decide (i < 0)) ++ ns.map Hex.digit := by
  have hneg : natBytes i.natAbs = [] → decide (i < 0) = false := by
    intro hc
    have := beNat_natBytes i.natAbs
    rw [hc] at this
    simp [beNat] at this
    simp; omega
  obtain ⟨ns, a, b, c, d⟩ := encodeHexNumber_shape (decide (i < 0)) (natBytes i.natAbs) hneg
  exact ⟨ns, a, b, by rw [c, beNat_natBytes], d⟩

/-- hex text is minimal too: `"0x0"` for zero, otherwise sign, `0x` and a digit string whose first digit
    is not `0` (the shape the JSON-RPC `t_int` validator `^0x(0|[1-9a-f][0-9a-f]*)$` demands). -/
theorem hex_big_minimal (i : Int) :
    (i = 0 ∧ formatBigInt i = "0x0") ∨
    (i ≠ 0 ∧ ∃ n ns, n ≠ 0 ∧ (∀ m ∈ n :: ns, m < 16) ∧ hexVal (n :: ns) 0 = i.natAbs ∧
      (formatBigInt i).toList = hexPrefix (decide (i < 0)) ++ (n :: ns).map Hex.digit) :=
  Proofs.formatBigInt_minimal i

end Goloop.C24
