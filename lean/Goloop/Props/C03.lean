/-
  Props/C03 — "Write-ahead log recovers exactly the durable prefix after any crash"
  (consensus/wal.go, repaired by fixes/F2_wal_repair.diff and fixes/F2b_wal_torn_header_eof.diff).

  Vocabulary (Model/C03.lean):
    `Op`        write p | sync | shift | housekeep | crashRecover k | restart | crashAt p js
                `crashAt p js`: the writer dies at crash point `p` (while appending, or INSIDE Shift
                after j of its file-system effects); then one recovery attempt per element of `js`
                dies INSIDE CloseAndRepair after that many effects; then a recovery completes.
                `Op.isCrash c` = c is crashRecover or crashAt: "any crash".
    `stepOp`    one step of the byte-exact model; for crash ops/restart the second
                component is the record list the recovery loop returned
    `runG`      runs a history and, next to it, the bookkeeping `Ghost`:
                `log` = records appended and not lost by an earlier crash,
                `durable` = the prefix of `log` that was synced (or survived a crash)
    `Op.plain`  the histories covered: all ops (housekeeping rounds with their retention included),
                payloads < 2^32-8 bytes; `Ghost.retired` counts the records retention removed
  `crc` is an arbitrary function: none of the theorems needs an assumption about the checksum
  (a crash only truncates).
-/
import Goloop.Proofs.C03
namespace Goloop.C03
open Goloop.C03.Proofs

/-- The bookkeeping is observable: a clean shutdown followed by a read returns exactly `log`. -/
theorem log_is_clean_read (crc : Bytes → UInt32) (cfg : Cfg) (ops : List Op)
    (hplain : ∀ op ∈ ops, op.plain) :
    let st := runG crc (Sys.init cfg) {} ops
    (stepOp crc st.1 .restart).2 = st.2.log := by
  intro st
  exact (restart_spec crc st.1 st.2 (runG_inv crc ops _ _ (init_inv crc cfg) hplain)).1

/-- … and right after a `sync` (or `shift`) everything appended so far is durable. -/
theorem durable_after_sync (crc : Bytes → UInt32) (cfg : Cfg) (ops : List Op) :
    (runG crc (Sys.init cfg) {} (ops ++ [.sync])).2.durable = (runG crc (Sys.init cfg) {} (ops ++ [.sync])).2.log
    ∧ (runG crc (Sys.init cfg) {} (ops ++ [.shift])).2.durable = (runG crc (Sys.init cfg) {} (ops ++ [.shift])).2.log := by
  simp [runG_append, runG, stepGhost, Ghost.durable]

/-- **recover_prefix.** After any history (earlier crashes of every kind included) and ANY crash `c` —
    while appending with an arbitrary `k`-byte prefix of the unsynced bytes kept, inside Shift after
    any number of its effects, followed by any number of recovery attempts that die inside
    CloseAndRepair after any number of its effects — the recovery that completes returns a prefix of
    the appended records that contains every durable record, and only records that were appended. -/
theorem recover_prefix (crc : Bytes → UInt32) (cfg : Cfg) (ops : List Op) (c : Op) (hc : c.isCrash)
    (hplain : ∀ op ∈ ops, op.plain) :
    let st := runG crc (Sys.init cfg) {} ops
    let r := (stepOp crc st.1 c).2
    r <+: st.2.log ∧ st.2.durable <+: r ∧ ∀ x ∈ r, Op.write x ∈ ops := by
  intro st r
  have hinv := runG_inv crc ops _ _ (init_inv crc cfg) hplain
  obtain ⟨m, hnm, _, hr, _⟩ := crashOp_spec crc st.1 st.2 c hc hinv
  have hr' : r = st.2.log.take m := hr
  refine ⟨hr' ▸ List.take_prefix _ _, hr' ▸ take_prefix_take _ _ _ hnm, ?_⟩
  intro x hx
  rw [hr'] at hx
  rcases runG_log_sub crc ops _ _ (init_inv crc cfg) hplain x (List.mem_of_mem_take hx) with h | h
  · simp at h
  · exact h

example : ∀ op ∈ [Op.write [1, 2], .sync, .shift, .housekeep, .write [], .crashRecover 3, .write [7], .restart,
    .crashAt (.inShift 2 0) [0, 1], .write [8], .crashAt (.appending 5) [3]], op.plain := by
  simp [Op.plain]

example : (Op.crashAt (.inShift 1 4) [1, 0, 2]).isCrash ∧ (Op.crashRecover 7).isCrash := by
  simp [Op.isCrash]

/-- After recovery the files hold exactly the frames of the returned records (the torn tail is gone),
    nothing is buffered and the whole tail counts as durable: the log is ready for appending. -/
theorem recover_leaves_whole_frames (crc : Bytes → UInt32) (cfg : Cfg) (ops : List Op) (c : Op) (hc : c.isCrash)
    (hplain : ∀ op ∈ ops, op.plain) :
    let st := runG crc (Sys.init cfg) {} ops
    let s := stepOp crc st.1 c
    s.1.files.flatten = frames crc s.2 ∧ s.1.buf = [] := by
  intro st s
  have hinv := runG_inv crc ops _ _ (init_inv crc cfg) hplain
  obtain ⟨m, _, _, hr, hinv'⟩ := crashOp_spec crc st.1 st.2 c hc hinv
  have hstream := hinv'.stream
  simp only at hstream
  have hbuf : s.1.buf = [] := crashOp_buf crc st.1 c hc
  refine ⟨?_, hbuf⟩
  have hr' : s.2 = st.2.log.take m := hr
  rw [hr']
  have : s.1.files.flatten = s.1.older.flatten ++ (s.1.tail ++ s.1.buf) := by
    simp [Writer.files, hbuf]
  rw [this]
  exact hstream

/-- **recover_then_append.** Records appended (and synced) after a recovery are returned, after the
    recovered ones, by the next recovery — whatever the second crash point. -/
theorem recover_then_append (crc : Bytes → UInt32) (cfg : Cfg) (ops : List Op) (c c' : Op)
    (hc : c.isCrash) (hc' : c'.isCrash)
    (ps : List Bytes) (hplain : ∀ op ∈ ops, op.plain) (hps : ∀ p ∈ ps, p.length + 8 < 2 ^ 32) :
    let st := runG crc (Sys.init cfg) {} ops
    let s1 := stepOp crc st.1 c
    let w2 := run crc s1.1 (ps.map Op.write ++ [.sync])
    (stepOp crc w2 c').2 = s1.2 ++ ps := by
  intro st s1 w2
  have hinv := runG_inv crc ops _ _ (init_inv crc cfg) hplain
  have hinv1 := step_inv crc st.1 st.2 c hinv (isCrash_plain c hc)
  have hpl : ∀ op ∈ ps.map Op.write ++ [.sync], op.plain := by
    intro op hop
    simp only [List.mem_append, List.mem_map, List.mem_singleton] at hop
    rcases hop with ⟨p, hp, rfl⟩ | rfl
    · exact hps p hp
    · simp [Op.plain]
  have hinv2 := runG_inv crc (ps.map Op.write ++ [.sync]) _ _ hinv1 hpl
  rw [runG_fst] at hinv2
  have hg : (runG crc s1.1 (stepGhost crc st.1 st.2 c) (ps.map Op.write ++ [.sync])).2
      = { log := s1.2 ++ ps, nsynced := (s1.2 ++ ps).length, retired := st.2.retired } := by
    rw [runG_append, runG_writes, stepGhost_crash crc st.1 st.2 c hc]
    simp [runG, stepGhost, s1]
  rw [hg] at hinv2
  obtain ⟨m, hnm, hm, hr, _⟩ := crashOp_spec crc _ _ c' hc' hinv2
  rw [hr]
  simp only at hnm hm
  have : m = (s1.2 ++ ps).length := by omega
  rw [this, List.take_length]

example : ∀ p ∈ [[1, 2, 3], ([] : Bytes)], p.length + 8 < 2 ^ 32 := by simp

/-- **cycles.** A record that was durable at any point of a history is returned by every later
    recovery, after any number of further append/sync/shift/housekeeping/crash/recover cycles —
    except for the `retired` oldest records that housekeeping rounds removed in between together
    with their whole segment files (retention, see `retire_scope`). -/
theorem synced_never_lost (crc : Bytes → UInt32) (cfg : Cfg) (ops1 ops2 : List Op) (c : Op) (hc : c.isCrash)
    (h1 : ∀ op ∈ ops1, op.plain) (h2 : ∀ op ∈ ops2, op.plain) :
    let st1 := runG crc (Sys.init cfg) {} ops1
    let st2 := runG crc (Sys.init cfg) {} (ops1 ++ ops2)
    st1.2.durable.drop (st2.2.retired - st1.2.retired) <+: (stepOp crc st2.1 c).2
    ∧ st1.2.durable.drop (st2.2.retired - st1.2.retired) <+: st2.2.log := by
  intro st1 st2
  have hinv1 := runG_inv crc ops1 _ _ (init_inv crc cfg) h1
  have hmono := runG_durable_mono crc ops2 _ _ hinv1 h2
  have hst2 : st2 = runG crc st1.1 st1.2 ops2 := runG_append crc ops1 ops2 _ _
  have h12 : ∀ op ∈ ops1 ++ ops2, op.plain := by
    intro op hop
    rcases List.mem_append.mp hop with h | h
    · exact h1 op h
    · exact h2 op h
  have hrec := recover_prefix crc cfg (ops1 ++ ops2) c hc h12
  rw [← hst2] at hmono
  exact ⟨hmono.trans hrec.2.1, hmono.trans (List.take_prefix _ _)⟩

/-- … and when no housekeeping round happens in between, nothing at all is lost. -/
theorem synced_never_lost_without_retention (crc : Bytes → UInt32) (cfg : Cfg) (ops1 ops2 : List Op)
    (c : Op) (hc : c.isCrash)
    (h1 : ∀ op ∈ ops1, op.plain) (h2 : ∀ op ∈ ops2, op.plain) (hnohk : ∀ op ∈ ops2, op ≠ .housekeep) :
    let st1 := runG crc (Sys.init cfg) {} ops1
    let st2 := runG crc (Sys.init cfg) {} (ops1 ++ ops2)
    st1.2.durable <+: (stepOp crc st2.1 c).2 := by
  intro st1 st2
  have h := (synced_never_lost crc cfg ops1 ops2 c hc h1 h2).1
  have hst2 : st2 = runG crc st1.1 st1.2 ops2 := runG_append crc ops1 ops2 _ _
  have hr : st2.2.retired = st1.2.retired := by
    rw [hst2]; exact runG_retired_eq crc ops2 _ _ hnohk
  have h' : st1.2.durable.drop (st2.2.retired - st1.2.retired) <+: (stepOp crc st2.1 c).2 := h
  rw [hr, Nat.sub_self, List.drop_zero] at h'
  exact h'

example : ∀ op ∈ [Op.write [5], .sync, .crashRecover 2, .crashAt (.inShift 3 0) [1]], op ≠ Op.housekeep := by simp

/-! ### housekeeping (retention) -/

/-- **retire_scope.** A housekeeping round does its shift / time-based sync (`hkBase`) and then only
    removes whole *oldest* segment files: the files afterwards are the files of `hkBase w` minus the
    first `j`; the tail file, the buffer and the durable length are untouched. -/
theorem retire_scope (w : Writer) :
    ∃ j, j ≤ (hkBase w).older.length
      ∧ w.housekeep.files = (hkBase w).files.drop j
      ∧ w.housekeep.head = (hkBase w).head + j
      ∧ w.housekeep.buf = (hkBase w).buf
      ∧ w.housekeep.synced = (hkBase w).synced := by
  obtain ⟨j, hj, ho, hh, ht, hb, hs⟩ := housekeep_spec w
  refine ⟨j, hj, ?_, hh, hb, hs⟩
  simp only [Writer.files, ho, ht]
  rw [List.drop_append_of_le_length hj]

/-- With `FileLimit ≤ TotalLimit` (true for every configuration in the repository) housekeeping
    never removes the segment the writer has open. -/
theorem housekeep_keeps_open_tail (w : Writer) (hcfg : w.cfg.fileLimit ≤ w.cfg.totalLimit)
    (hu : w.tailUnlinked = false) : w.housekeep.tailUnlinked = false :=
  housekeep_keeps_tail w hcfg hu

example : ({} : Cfg).fileLimit ≤ ({} : Cfg).totalLimit := by decide

/-- … over whole histories: the model never leaves the regime in which it describes the code
    (the flag `tailUnlinked` marks the one behaviour that is not modelled). -/
theorem history_keeps_open_tail (crc : Bytes → UInt32) (cfg : Cfg) (ops : List Op)
    (hcfg : cfg.fileLimit ≤ cfg.totalLimit) :
    (run crc (Sys.init cfg) ops).tailUnlinked = false :=
  (run_flags crc cfg hcfg ops _ (openWriter_flags cfg {})).2

/-! ### crash points inside CloseAndRepair and inside Shift -/

/-- **repair is resumable.** However many recovery attempts die inside CloseAndRepair, and after
    however many of its file-system effects each (`js`), the recovery that finally completes returns
    exactly what an undisturbed recovery would have returned. -/
theorem repair_resumable (crc : Bytes → UInt32) (cfg : Cfg) (ops : List Op) (p : CrashPoint) (js : List Nat)
    (hplain : ∀ op ∈ ops, op.plain) :
    let st := runG crc (Sys.init cfg) {} ops
    (stepOp crc st.1 (.crashAt p js)).2 = (stepOp crc st.1 (.crashAt p [])).2 := by
  intro st
  exact crashAt_resumable crc st.1 st.2 p js (runG_inv crc ops _ _ (init_inv crc cfg) hplain)

/-- What a crash inside Shift leaves, effect by effect: before the fsync (j = 0, 1) it is an ordinary
    crash of the appending writer; after the fsync (j = 2) a crash right after `sync`; after the
    creation of the next segment (j ≥ 3) a crash right after `shift`. -/
theorem crashInShift_cases (w : Writer) (j k : Nat) :
    (j < 2 → w.crashInShift j k = w.crash k)
    ∧ (j = 2 → w.crashInShift j k = w.sync.crash 0)
    ∧ (j > 2 → w.crashInShift j k = w.shift.crash 0) := by
  refine ⟨fun h => by simp [Writer.crashInShift, h], fun h => by simp [Writer.crashInShift, h], fun h => ?_⟩
  have h1 : ¬ j < 2 := by omega
  have h2 : j ≠ 2 := by omega
  simp [Writer.crashInShift, h1, h2]

/-! ### altered bytes (CRC mismatch path) -/

/-- **never a corrupted record.** The stored bytes are the frames of the records `A` followed by ANY
    bytes `B` (an altered record and whatever follows it) on which the checksum does its job
    (`CrcRejects`: the stored CRC field differs from the CRC of the bytes the reader checks). Then the
    read loop returns exactly `A`: the altered record and everything behind it is never returned. -/
theorem altered_record_never_returned (crc : Bytes → UInt32) (A : List Bytes) (B : Bytes)
    (hA : ∀ p ∈ A, p.length + 8 < 2 ^ 32) (hB : CrcRejects crc B) :
    (readAll crc (frames crc A ++ B)).1 = A :=
  (readAll_frames_append crc A B hA hB).1

/-- … in particular for a record whose payload and/or checksum field were overwritten (by `p'`, `c`)
    in a way the checksum detects, whatever follows (`T`). -/
theorem overwritten_record_never_returned (crc : Bytes → UInt32) (A : List Bytes) (c : Nat) (p' T : Bytes)
    (hA : ∀ p ∈ A, p.length + 8 < 2 ^ 32) (hp : p'.length + 8 < 2 ^ 32)
    (hdet : (crc p').toNat ≠ c % 2 ^ 32) :
    (readAll crc (frames crc A ++ (be32 c ++ be32 p'.length ++ p' ++ T))).1 = A :=
  altered_record_never_returned crc A _ hA (altered_frame_rejects crc c p' T hp hdet)

/-- the hypothesis is satisfiable and not trivial (here for a toy checksum; that CRC-32C rejects every
    single-byte change is exercised on the real code by the `poke` cases of the correspondence run) -/
example : let crc : Bytes → UInt32 := fun p => UInt32.ofNat (p.foldl (fun a b => a + b.toNat) 0)
    (crc [1, 2, 4]).toNat ≠ (crc [1, 2, 3]).toNat % 2 ^ 32 := by decide

/-- Recovery (read loop + CloseAndRepair) on such a disk returns `A` and cuts the altered record and
    everything behind it off: afterwards the files hold exactly the frames of `A`. -/
theorem recover_cuts_altered_record (crc : Bytes → UInt32) (d : Disk) (A : List Bytes) (B : Bytes)
    (hne : d.files ≠ []) (hflat : d.files.flatten = frames crc A ++ B) (hBne : B ≠ [])
    (hA : ∀ p ∈ A, p.length + 8 < 2 ^ 32) (hB : CrcRejects crc B) :
    ∃ e d', recover crc d = some (A, e, d') ∧ e ≠ .eof ∧ d'.files.flatten = frames crc A := by
  obtain ⟨h1, h2, h3⟩ := readAll_frames_append crc A B hA hB
  have hv : (frames crc A).length ≤ d.files.flatten.length := by rw [hflat]; simp
  have hcut : (repairLoop (frames crc A).length d.files).flatten = frames crc A := by
    rw [repairLoop_flatten _ _ hv, hflat]; exact List.take_left' rfl
  have hr : ∃ e, readAll crc (frames crc A ++ B) = (A, (frames crc A).length, e) ∧ e ≠ .eof :=
    ⟨(readAll crc (frames crc A ++ B)).2.2, Prod.ext h1 (Prod.ext h2 rfl), h3 hBne⟩
  obtain ⟨e, hr, hne'⟩ := hr
  unfold recover
  rw [if_neg hne, hflat]
  simp only [hr]
  cases e with
  | eof => exact absurd rfl hne'
  | unexpectedEOF => exact ⟨.unexpectedEOF, _, rfl, by simp, hcut⟩
  | corrupted => exact ⟨.corrupted, _, rfl, by simp, hcut⟩

/-! ### the defects of the unrepaired code, as concrete witnesses -/

/-- F2 (`os.Remove(fileFor(w.id, idx))`): segment 0 holds the synced record `[1,2,3]`, segment 1 a torn
    record. The original CloseAndRepair deletes segment 0; the repaired one deletes segment 1. -/
theorem orig_repair_deletes_synced_segment :
    let crc : Bytes → UInt32 := fun _ => 0
    let seg0 := frame crc [1, 2, 3]
    let seg1 := (frame crc [4, 5, 6]).take 5
    Orig.readAll crc (seg0 ++ seg1) = ([[1, 2, 3]], 11, .unexpectedEOF)
    ∧ Orig.repairLoop 11 [(0, seg0), (1, seg1)] = [(1, seg1)]
    ∧ (Orig.readAll crc seg1).1 = []
    ∧ repairLoop 11 [seg0, seg1] = [seg0] := by
  decide

/-- F2b (missing payload reported as io.EOF): the tail ends right after the 8-byte header of a torn
    record. The original reader reports a clean EOF, so nothing is repaired; a record appended and
    synced afterwards sits behind the torn header and is not returned by the next recovery.
    The repaired reader reports ErrUnexpectedEOF, which triggers the repair. -/
theorem orig_torn_header_loses_synced_append :
    let crc : Bytes → UInt32 := fun _ => 0
    let tornHeader := (frame crc (List.replicate 100 7)).take 8
    let disk := frame crc [1, 2, 3] ++ tornHeader
    Orig.readAll crc disk = ([[1, 2, 3]], 11, .eof)
    ∧ Orig.readAll crc (disk ++ frame crc [9, 9]) = ([[1, 2, 3]], 11, .unexpectedEOF)
    ∧ readAll crc disk = ([[1, 2, 3]], 11, .unexpectedEOF) := by
  decide

/-- F2c (truncate first, then `os.Remove` of the later segments in ascending order): segment 0 holds the
    synced record `[1,2,3]`, segment 1 is empty, segment 2 starts with a torn record. If the process
    dies after the first Remove, segments 0 and 2 remain: OpenWALForRead fails on the missing
    segment 1 (ENOENT, which consensus.applyWAL takes for "no WAL"), the synced record is
    unreachable. The repaired order (from the tail downwards) leaves segments 0 and 1. -/
theorem orig_repair_crash_between_removes_hides_wal :
    let crc : Bytes → UInt32 := fun _ => 0
    let seg0 := frame crc [1, 2, 3]
    let seg2 := (frame crc [4, 5, 6]).take 5
    Orig.repairPartialAsc 11 1 [(0, seg0), (1, []), (2, seg2)] = [(0, seg0), (2, seg2)]
    ∧ Orig.openable [(0, seg0), (2, seg2)] = false
    ∧ repairPartial 11 1 [seg0, [], seg2] = [seg0, []]
    ∧ (readAll crc ([seg0, []] : List Bytes).flatten).1 = [[1, 2, 3]] := by
  decide

end Goloop.C03
