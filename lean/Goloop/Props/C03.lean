/-
  Props/C03 — "Write-ahead log recovers exactly the durable prefix after any crash"
  (consensus/wal.go, repaired by fixes/F2_wal_repair.diff and fixes/F2b_wal_torn_header_eof.diff).

  Vocabulary (Model/C03.lean):
    `Op`        write p | sync | shift | housekeep | crashRecover k | restart
    `stepOp`    one step of the byte-exact model; for crashRecover/restart the second
                component is the record list the recovery loop returned
    `runG`      runs a history and, next to it, the bookkeeping `Ghost`:
                `log` = records appended and not lost by an earlier crash,
                `durable` = the prefix of `log` that was synced (or survived a crash)
    `Op.plain`  the histories covered: all ops (housekeeping rounds with their retention included),
                payloads < 2^32-8 bytes; `Ghost.retired` counts the records retention removed
  `crc` is an arbitrary function: none of the theorems needs an assumption about the checksum
  (a crash only truncates).
-/
import Goloop.Proofs.C03
namespace Goloop.C03
open Goloop.C03.Proofs

/-- The bookkeeping is observable: a clean shutdown followed by a read returns exactly `log`. -/
theorem log_is_clean_read (crc : Bytes → UInt32) (cfg : Cfg) (ops : List Op)
    (hplain : ∀ op ∈ ops, op.plain) :
    let st := runG crc (Sys.init cfg) {} ops
    (stepOp crc st.1 .restart).2 = st.2.log := by
  intro st
  exact (restart_spec crc st.1 st.2 (runG_inv crc ops _ _ (init_inv crc cfg) hplain)).1

/-- … and right after a `sync` (or `shift`) everything appended so far is durable. -/
theorem durable_after_sync (crc : Bytes → UInt32) (cfg : Cfg) (ops : List Op) :
    (runG crc (Sys.init cfg) {} (ops ++ [.sync])).2.durable = (runG crc (Sys.init cfg) {} (ops ++ [.sync])).2.log
    ∧ (runG crc (Sys.init cfg) {} (ops ++ [.shift])).2.durable = (runG crc (Sys.init cfg) {} (ops ++ [.shift])).2.log := by
  simp [runG_append, runG, stepGhost, Ghost.durable]

/-- **recover_prefix.** After any history and a crash that keeps the synced bytes plus an arbitrary
    `k`-byte prefix of the unsynced ones, recovery (read loop + CloseAndRepair) returns a prefix of
    the appended records that contains every durable record, and only records that were appended. -/
theorem recover_prefix (crc : Bytes → UInt32) (cfg : Cfg) (ops : List Op) (k : Nat)
    (hplain : ∀ op ∈ ops, op.plain) :
    let st := runG crc (Sys.init cfg) {} ops
    let r := (stepOp crc st.1 (.crashRecover k)).2
    r <+: st.2.log ∧ st.2.durable <+: r ∧ ∀ x ∈ r, Op.write x ∈ ops := by
  intro st r
  have hinv := runG_inv crc ops _ _ (init_inv crc cfg) hplain
  obtain ⟨m, hnm, _, hr, _, _⟩ := crashRecover_spec crc st.1 st.2 k hinv
  have hr' : r = st.2.log.take m := hr
  refine ⟨hr' ▸ List.take_prefix _ _, hr' ▸ take_prefix_take _ _ _ hnm, ?_⟩
  intro x hx
  rw [hr'] at hx
  rcases runG_log_sub crc ops _ _ (init_inv crc cfg) hplain x (List.mem_of_mem_take hx) with h | h
  · simp at h
  · exact h

example : ∀ op ∈ [Op.write [1, 2], .sync, .shift, .housekeep, .write [], .crashRecover 3, .write [7], .restart], op.plain := by
  simp [Op.plain]

/-- After recovery the files hold exactly the frames of the returned records (the torn tail is gone),
    nothing is buffered and the whole tail counts as durable: the log is ready for appending. -/
theorem recover_leaves_whole_frames (crc : Bytes → UInt32) (cfg : Cfg) (ops : List Op) (k : Nat)
    (hplain : ∀ op ∈ ops, op.plain) :
    let st := runG crc (Sys.init cfg) {} ops
    let s := stepOp crc st.1 (.crashRecover k)
    s.1.files.flatten = frames crc s.2 ∧ s.1.buf = [] := by
  intro st s
  have hinv := runG_inv crc ops _ _ (init_inv crc cfg) hplain
  have hinv' := step_inv crc st.1 st.2 (.crashRecover k) hinv (by simp [Op.plain])
  have hstream := hinv'.stream
  simp only [stepGhost] at hstream
  have hbuf : s.1.buf = [] := by
    show (recoverReopen crc st.1.cfg (st.1.crash k)).1.buf = []
    unfold recoverReopen
    split
    · simp [openWriter]; split <;> rfl
    · simp [openWriter]; split <;> rfl
  refine ⟨?_, hbuf⟩
  have : s.1.files.flatten = s.1.older.flatten ++ (s.1.tail ++ s.1.buf) := by
    simp [Writer.files, hbuf]
  rw [this]
  exact hstream

/-- **recover_then_append.** Records appended (and synced) after a recovery are returned, after the
    recovered ones, by the next recovery — whatever the second crash point. -/
theorem recover_then_append (crc : Bytes → UInt32) (cfg : Cfg) (ops : List Op) (k k' : Nat)
    (ps : List Bytes) (hplain : ∀ op ∈ ops, op.plain) (hps : ∀ p ∈ ps, p.length + 8 < 2 ^ 32) :
    let st := runG crc (Sys.init cfg) {} ops
    let s1 := stepOp crc st.1 (.crashRecover k)
    let w2 := run crc s1.1 (ps.map Op.write ++ [.sync])
    (stepOp crc w2 (.crashRecover k')).2 = s1.2 ++ ps := by
  intro st s1 w2
  have hinv := runG_inv crc ops _ _ (init_inv crc cfg) hplain
  have hinv1 := step_inv crc st.1 st.2 (.crashRecover k) hinv (by simp [Op.plain])
  have hpl : ∀ op ∈ ps.map Op.write ++ [.sync], op.plain := by
    intro op hop
    simp only [List.mem_append, List.mem_map, List.mem_singleton] at hop
    rcases hop with ⟨p, hp, rfl⟩ | rfl
    · exact hps p hp
    · simp [Op.plain]
  have hinv2 := runG_inv crc (ps.map Op.write ++ [.sync]) _ _ hinv1 hpl
  rw [runG_fst] at hinv2
  have hg : (runG crc s1.1 (stepGhost crc st.1 st.2 (.crashRecover k)) (ps.map Op.write ++ [.sync])).2
      = { log := s1.2 ++ ps, nsynced := (s1.2 ++ ps).length, retired := st.2.retired } := by
    rw [runG_append, runG_writes]
    simp [runG, stepGhost, s1]
  rw [hg] at hinv2
  obtain ⟨m, hnm, hm, hr, _, _⟩ := crashRecover_spec crc _ _ k' hinv2
  rw [hr]
  simp only at hnm hm
  have : m = (s1.2 ++ ps).length := by omega
  rw [this, List.take_length]

example : ∀ p ∈ [[1, 2, 3], ([] : Bytes)], p.length + 8 < 2 ^ 32 := by simp

/-- **cycles.** A record that was durable at any point of a history is returned by every later
    recovery, after any number of further append/sync/shift/housekeeping/crash/recover cycles —
    except for the `retired` oldest records that housekeeping rounds removed in between together
    with their whole segment files (retention, see `retire_scope`). -/
theorem synced_never_lost (crc : Bytes → UInt32) (cfg : Cfg) (ops1 ops2 : List Op) (k : Nat)
    (h1 : ∀ op ∈ ops1, op.plain) (h2 : ∀ op ∈ ops2, op.plain) :
    let st1 := runG crc (Sys.init cfg) {} ops1
    let st2 := runG crc (Sys.init cfg) {} (ops1 ++ ops2)
    st1.2.durable.drop (st2.2.retired - st1.2.retired) <+: (stepOp crc st2.1 (.crashRecover k)).2
    ∧ st1.2.durable.drop (st2.2.retired - st1.2.retired) <+: st2.2.log := by
  intro st1 st2
  have hinv1 := runG_inv crc ops1 _ _ (init_inv crc cfg) h1
  have hmono := runG_durable_mono crc ops2 _ _ hinv1 h2
  have hst2 : st2 = runG crc st1.1 st1.2 ops2 := runG_append crc ops1 ops2 _ _
  have h12 : ∀ op ∈ ops1 ++ ops2, op.plain := by
    intro op hop
    rcases List.mem_append.mp hop with h | h
    · exact h1 op h
    · exact h2 op h
  have hrec := recover_prefix crc cfg (ops1 ++ ops2) k h12
  rw [← hst2] at hmono
  exact ⟨hmono.trans hrec.2.1, hmono.trans (List.take_prefix _ _)⟩

/-- … and when no housekeeping round happens in between, nothing at all is lost. -/
theorem synced_never_lost_without_retention (crc : Bytes → UInt32) (cfg : Cfg) (ops1 ops2 : List Op) (k : Nat)
    (h1 : ∀ op ∈ ops1, op.plain) (h2 : ∀ op ∈ ops2, op.plain) (hnohk : ∀ op ∈ ops2, op ≠ .housekeep) :
    let st1 := runG crc (Sys.init cfg) {} ops1
    let st2 := runG crc (Sys.init cfg) {} (ops1 ++ ops2)
    st1.2.durable <+: (stepOp crc st2.1 (.crashRecover k)).2 := by
  intro st1 st2
  have h := (synced_never_lost crc cfg ops1 ops2 k h1 h2).1
  have hst2 : st2 = runG crc st1.1 st1.2 ops2 := runG_append crc ops1 ops2 _ _
  have hr : st2.2.retired = st1.2.retired := by
    rw [hst2]; exact runG_retired_eq crc ops2 _ _ hnohk
  have h' : st1.2.durable.drop (st2.2.retired - st1.2.retired) <+: (stepOp crc st2.1 (.crashRecover k)).2 := h
  rw [hr, Nat.sub_self, List.drop_zero] at h'
  exact h'

example : ∀ op ∈ [Op.write [5], .sync, .crashRecover 2], op ≠ Op.housekeep := by simp

/-! ### housekeeping (retention) -/

/-- **retire_scope.** A housekeeping round does its shift / time-based sync (`hkBase`) and then only
    removes whole *oldest* segment files: the files afterwards are the files of `hkBase w` minus the
    first `j`; the tail file, the buffer and the durable length are untouched. -/
theorem retire_scope (w : Writer) :
    ∃ j, j ≤ (hkBase w).older.length
      ∧ w.housekeep.files = (hkBase w).files.drop j
      ∧ w.housekeep.head = (hkBase w).head + j
      ∧ w.housekeep.buf = (hkBase w).buf
      ∧ w.housekeep.synced = (hkBase w).synced := by
  obtain ⟨j, hj, ho, hh, ht, hb, hs⟩ := housekeep_spec w
  refine ⟨j, hj, ?_, hh, hb, hs⟩
  simp only [Writer.files, ho, ht]
  rw [List.drop_append_of_le_length hj]

/-- With `FileLimit ≤ TotalLimit` (true for every configuration in the repository) housekeeping
    never removes the segment the writer has open. -/
theorem housekeep_keeps_open_tail (w : Writer) (hcfg : w.cfg.fileLimit ≤ w.cfg.totalLimit)
    (hu : w.tailUnlinked = false) : w.housekeep.tailUnlinked = false :=
  housekeep_keeps_tail w hcfg hu

example : ({} : Cfg).fileLimit ≤ ({} : Cfg).totalLimit := by decide

/-- … over whole histories: the model never leaves the regime in which it describes the code
    (the flag `tailUnlinked` marks the one behaviour that is not modelled). -/
theorem history_keeps_open_tail (crc : Bytes → UInt32) (cfg : Cfg) (ops : List Op)
    (hcfg : cfg.fileLimit ≤ cfg.totalLimit) :
    (run crc (Sys.init cfg) ops).tailUnlinked = false :=
  (run_flags crc cfg hcfg ops _ (openWriter_flags cfg {})).2

/-! ### the defects of the unrepaired code, as concrete witnesses -/

/-- F2 (`os.Remove(fileFor(w.id, idx))`): segment 0 holds the synced record `[1,2,3]`, segment 1 a torn
    record. The original CloseAndRepair deletes segment 0; the repaired one deletes segment 1. -/
theorem orig_repair_deletes_synced_segment :
    let crc : Bytes → UInt32 := fun _ => 0
    let seg0 := frame crc [1, 2, 3]
    let seg1 := (frame crc [4, 5, 6]).take 5
    Orig.readAll crc (seg0 ++ seg1) = ([[1, 2, 3]], 11, .unexpectedEOF)
    ∧ Orig.repairLoop 11 [(0, seg0), (1, seg1)] = [(1, seg1)]
    ∧ (Orig.readAll crc seg1).1 = []
    ∧ repairLoop 11 [seg0, seg1] = [seg0] := by
  decide

/-- F2b (missing payload reported as io.EOF): the tail ends right after the 8-byte header of a torn
    record. The original reader reports a clean EOF, so nothing is repaired; a record appended and
    synced afterwards sits behind the torn header and is not returned by the next recovery.
    The repaired reader reports ErrUnexpectedEOF, which triggers the repair. -/
theorem orig_torn_header_loses_synced_append :
    let crc : Bytes → UInt32 := fun _ => 0
    let tornHeader := (frame crc (List.replicate 100 7)).take 8
    let disk := frame crc [1, 2, 3] ++ tornHeader
    Orig.readAll crc disk = ([[1, 2, 3]], 11, .eof)
    ∧ Orig.readAll crc (disk ++ frame crc [9, 9]) = ([[1, 2, 3]], 11, .unexpectedEOF)
    ∧ readAll crc disk = ([[1, 2, 3]], 11, .unexpectedEOF) := by
  decide

end Goloop.C03
