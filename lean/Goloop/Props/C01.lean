/-
  Props/C01 — property theorems for "Consensus agreement: no two correct validators finalize
  different blocks".  Helper lemmas are in Proofs/C01Abs.lean (abstract soup),
  Proofs/C01Val/C01G1/C01G2/C01G3/C01G3Step.lean (transcribed single-validator machine) and
  Proofs/C01Sys.lean (composition).

  Layering (DESIGN §6 C01): L-abs = message soup (Model/C01Abs), L-val = one validator transcribed
  from consensus.go (Model/C01), L-sys = n machines + soup (Proofs/C01Sys).  `agreement_abs` is the
  full, unbounded safety argument over L-abs under the per-validator guarantees G0–G3; `vstep_G0..G3`
  prove those guarantees for L-val on every crash-free event sequence (four mutual inductions over the
  13 enterX/handleX functions: Proofs/C01G1, C01G2, C01G3, C01G3Step); `agreement_nocrash` composes
  them.  With crash/restart: G0/G1 (C02); the trace rules are closed under the crash cut; the WAL replay
  restores only known votes; `agreement_partial` = agreement in L-sys with crash and restart steps under
  the hypothesis RestoreLockSound (`RLS`) on every restart (Proofs/C01Restart, C01Sys).  The full
  `agreement` fails for the unchanged code: `RLS` is false on the F1 witness (end of this file).
-/
import Goloop.Proofs.C01Abs
import Goloop.Proofs.C01G1
import Goloop.Proofs.C01G2
import Goloop.Proofs.C02Restart
import Goloop.Proofs.C01Sys
namespace Goloop.C01.Props
open Goloop.C01

/-- Two +2/3 sets of validators share a correct validator when fewer than 1/3 are Byzantine
    (threshold exactly as coded: `count > n*2/3`). -/
theorem quorum_intersection (n : Nat) (byz p q : Nat → Bool) (hb : fewByz n byz)
    (hp : over23 n ((List.range n).countP p)) (hq : over23 n ((List.range n).countP q)) :
    ∃ i, i < n ∧ p i = true ∧ q i = true ∧ byz i = false :=
  Goloop.C01.quorum_intersection n byz p q hb hp hq

example : fewByz 4 (fun i => i == 3) ∧ over23 4 ((List.range 4).countP (fun i => i != 0))
    ∧ over23 4 ((List.range 4).countP (fun i => i != 1)) := by decide

/-- the Go threshold `count > n*2/3` is the strict two-thirds majority -/
theorem threshold_is_two_thirds (n k : Nat) : over23 n k ↔ 3 * k > 2 * n := over23_iff n k

/-- **Agreement over the abstract message soup** — any number of validators, rounds, messages;
    any delivery schedule (the soup abstracts delivery away); Byzantine validators (< 1/3) vote
    arbitrarily; correct validators keep G0 (round-monotone), G1 (no two different votes of one type
    in a round), G2 (non-nil precommit only after a polka), G3 (after precommit (r,B) a prevote for
    anything else in a later round only after a later polka for something else).  Then two commit
    quorums (+2/3 precommits in one round, the only thing `enterCommit` accepts) at one height name
    the same block. -/
theorem agreement_abs (n : Nat) (byz : Nat → Bool) (H : List Vote)
    (hb : fewByz n byz) (G : Guarantees n byz H)
    (r1 b1 r2 b2 : Nat) (c1 : commitQ n H r1 b1) (c2 : commitQ n H r2 b2) : b1 = b2 :=
  Goloop.C01.agreement_abs n byz H hb G r1 b1 r2 b2 c1 c2

/-- corollary used in the proof, of independent interest: once +2/3 precommitted `b` in round `r`,
    no polka for anything else (nil included) ever appears in a later round. -/
theorem no_later_polka_for_another_value (n : Nat) (byz : Nat → Bool) (H : List Vote)
    (hb : fewByz n byz) (G : Guarantees n byz H) (r b : Nat) (c : commitQ n H r b)
    (r' : Nat) (y : Option Nat) (hr : r < r') (hy : y ≠ some b) : ¬ polka n H r' y := by
  intro hp
  have : polka n (H.take H.length) r' y := by simpa using hp
  exact no_offending_polka n byz H hb G r b c H.length r' y hr hy this

/-! non-vacuity: a concrete history satisfying the guarantees and committing a block -/
def exH : List Vote :=
  [⟨0, .prevote, 0, some 7⟩, ⟨0, .precommit, 0, some 7⟩]

theorem exH_guarantees : Guarantees 1 (fun _ => false) exH := by
  refine ⟨?_, ?_, ?_, ?_⟩
  · intro s t v w hst hs ht _ _
    match s, t with
    | 0, 0 => omega
    | 0, 1 => simp [exH] at hs ht; subst hs; subst ht; simp
    | 0, t+2 => simp [exH] at ht
    | 1, 0 => omega
    | 1, 1 => omega
    | 1, t+2 => simp [exH] at ht
    | s+2, _ => simp [exH] at hs
  · intro v w hv hw _ _ ht hr
    simp [exH] at hv hw
    rcases hv with rfl | rfl <;> rcases hw with rfl | rfl <;> simp_all
  · intro t v b ht _ hty hval
    match t with
    | 0 => simp [exH] at ht; subst ht; simp at hty
    | 1 => simp [exH] at ht; subst ht; simp at hval; subst hval; decide
    | t+2 => simp [exH] at ht
  · intro s t v w b hst hs ht _ _ hty _ hty2 hr _
    match s, t with
    | 0, _ => simp [exH] at hs; subst hs; simp at hty
    | 1, 0 => omega
    | 1, 1 => omega
    | 1, t+2 => simp [exH] at ht
    | s+2, _ => simp [exH] at hs

example : fewByz 1 (fun _ => false) ∧ commitQ 1 exH 0 7 := by decide

/-! ### L-val: the transcribed validator machine, without crash -/

/-- **G0 for L-val (no crash).**  For every event sequence without crash (proposals, block parts,
    votes of anybody incl. equivocating ones, timeouts, BlockManager callbacks at any later time, in any
    order, any length) the validator signs its votes with strictly increasing (height, round, step)
    keys: it never goes back to an earlier round or step. -/
theorem vstep_G0 (n me : Nat) (evs : List Event) (hn : ∀ e ∈ evs, e.noCrash) :
    (sentOf (run (start { n := n, me := me }) evs).eff).Pairwise msgLt :=
  (run_core _ evs hn (ev_start_fresh _ rfl rfl)).inc

/-- **G1 for L-val (no crash)** — also the no-crash half of C02: two votes signed by the validator
    for the same height, round and type are the same vote (so never two different values). -/
theorem vstep_G1 (n me : Nat) (evs : List Event) (hn : ∀ e ∈ evs, e.noCrash)
    (v w : VoteRec)
    (hv : Msg.vote v ∈ sentOf (run (start { n := n, me := me }) evs).eff)
    (hw : Msg.vote w ∈ sentOf (run (start { n := n, me := me }) evs).eff)
    (hh : v.height = w.height) (hr : v.round = w.round) (ht : v.typ = w.typ) : v = w :=
  pairwise_msgLt_unique (vstep_G0 n me evs hn) hv hw (by unfold voteKey; rw [hh, hr, ht])

/-- every vote it has signed is at or before its current (height, round, step) -/
theorem vstep_votes_behind_state (n me : Nat) (evs : List Event) (hn : ∀ e ∈ evs, e.noCrash)
    (v : VoteRec) (hv : Msg.vote v ∈ sentOf (run (start { n := n, me := me }) evs).eff) :
    lexLe (voteKey v) ((run (start { n := n, me := me }) evs).height,
      (run (start { n := n, me := me }) evs).round, (run (start { n := n, me := me }) evs).step) :=
  (run_core _ evs hn (ev_start_fresh _ rfl rfl)).bnd (.vote v) hv

/-- the votes handed to the machine by `vote` events -/
def deliveredVotes (evs : List Event) : List VoteRec :=
  evs.filterMap (fun e => match e with | .vote m => some m | _ => none)

theorem mem_deliveredVotes (evs : List Event) (m : VoteRec) (h : Event.vote m ∈ evs) :
    m ∈ deliveredVotes evs := by
  unfold deliveredVotes
  rw [List.mem_filterMap]
  exact ⟨_, h, rfl⟩

/-- **G2 for L-val (no crash).**  For every crash-free event sequence: whenever the machine has signed a
    non-nil precommit (h, r, b), more than 2/3 of the validator indices `i < n` (counted exactly as the
    Go threshold, distinct validators) have a prevote (i, h, r, b) that the machine knows of — delivered
    to it by a `vote` event of this sequence, or signed by itself.  Since the statement holds for EVERY
    event sequence, it holds for the prefix ending with the event that signed the precommit: the polka
    was known at the moment of signing. -/
theorem vstep_G2 (n me : Nat) (evs : List Event) (hn : ∀ e ∈ evs, e.noCrash) (v : VoteRec) (b : Blk)
    (hv : Msg.vote v ∈ sentOf (run (start { n := n, me := me }) evs).eff)
    (ht : v.typ = .precommit) (hb : v.val = some b) :
    polkaKnown (deliveredVotes evs) n (sentOf (run (start { n := n, me := me }) evs).eff) v.height v.round b := by
  have h2 := run_h2 (L := deliveredVotes evs) (start { n := n, me := me }) evs hn
    (mem_deliveredVotes evs) (e2_start_fresh _ rfl rfl)
  have hnn : (run (start { n := n, me := me }) evs).n = n :=
    (run_inv (me := me) (n := n) { n := n, me := me } (.start :: evs) (inv_init me n)).hn
  have := h2.g2 v b hv ht hb
  rw [hnn] at this
  exact this

example : (∀ e ∈ ([.proposal 1 1 0 9 (-1), .blockPart 1 9, .async, .vote ⟨1,1,.prevote,0,some 9⟩,
    .timeout 3] : List Event), e.noCrash) := by
  intro e he; simp at he; rcases he with rfl | rfl | rfl | rfl | rfl <;> simp [Event.noCrash]

/-- **G3 for L-val (no crash): the lock rule, with exact timing.**  For every crash-free event sequence:
    let `pre ++ [w] ++ post` be the messages the machine has signed, in signing order, `w` a prevote.  If
    among the messages signed BEFORE `w` (`pre`) there is a non-nil precommit `v` = (h, r, b) of the same
    height with `r < w.round`, and `w` is not a prevote for `b` (nil included), then the machine knew,
    before signing `w`, more than 2/3 of the validator indices `i < n` (distinct validators, Go
    threshold) with a prevote (i, h, r'', y) for one round `r''` with `r < r'' ≤ w.round` and one value
    `y ≠ b` (nil included) — each delivered to it by a `vote` event of this sequence or signed by
    itself before `w`.  This is exactly hypothesis `g3` of `agreement_abs`.  (The code's unlock
    condition is `lockedRound < msg.Round` on a +2/3 prevote decision for something else; the proof
    shows lockedRound ≥ r while the precommit (r, b) is not yet covered by such a polka.) -/
theorem vstep_G3 (n me : Nat) (evs : List Event) (hn : ∀ e ∈ evs, e.noCrash)
    (pre post : List Msg) (w v : VoteRec) (b : Blk)
    (hs : sentOf (run (start { n := n, me := me }) evs).eff = pre ++ Msg.vote w :: post)
    (hwt : w.typ = .prevote) (hv : Msg.vote v ∈ pre) (hvt : v.typ = .precommit) (hvb : v.val = some b)
    (hh : v.height = w.height) (hr : v.round < w.round) (hne : w.val ≠ some b) :
    ∃ r'' y, v.round < r'' ∧ r'' ≤ w.round ∧ y ≠ some b ∧
      quorumKnown (deliveredVotes evs) n pre w.height .prevote r'' y := by
  have a := run_a3 (L := deliveredVotes evs) (base := []) (start { n := n, me := me }) evs hn
    (mem_deliveredVotes evs) (a3_start_fresh n me)
  have hnn : (run (start { n := n, me := me }) evs).n = n :=
    (run_inv (me := me) (n := n) { n := n, me := me } (.start :: evs) (inv_init me n)).hn
  have := a.h3.g3 pre w post hs hwt v b hv hvt hvb hh hr hne
  rw [hnn] at this
  exact this

/-- G2 for L-val with exact timing: the polka was known before the precommit was signed -/
theorem vstep_G2_before (n me : Nat) (evs : List Event) (hn : ∀ e ∈ evs, e.noCrash)
    (pre post : List Msg) (v : VoteRec) (b : Blk)
    (hs : sentOf (run (start { n := n, me := me }) evs).eff = pre ++ Msg.vote v :: post)
    (ht : v.typ = .precommit) (hb : v.val = some b) :
    quorumKnown (deliveredVotes evs) n pre v.height .prevote v.round (some b) := by
  have a := run_a3 (L := deliveredVotes evs) (base := []) (start { n := n, me := me }) evs hn
    (mem_deliveredVotes evs) (a3_start_fresh n me)
  have hnn : (run (start { n := n, me := me }) evs).n = n :=
    (run_inv (me := me) (n := n) { n := n, me := me } (.start :: evs) (inv_init me n)).hn
  have := a.h3.g2 pre v post b hs ht hb
  rw [hnn] at this
  exact this

/-- **Finalize needs a commit quorum (L-val, no crash).**  Every `finalize h b` effect of a crash-free
    run was emitted with more than 2/3 of the validator indices having a precommit (i, h, r, b), for ONE
    round r, known to the machine (delivered by a `vote` event or signed by itself). -/
theorem vstep_finalize_has_commit_quorum (n me : Nat) (evs : List Event) (hn : ∀ e ∈ evs, e.noCrash)
    (h : Nat) (b : Blk) (hf : (h, b) ∈ finalizedOf (run (start { n := n, me := me }) evs).eff) :
    ∃ r, quorumKnown (deliveredVotes evs) n (sentOf (run (start { n := n, me := me }) evs).eff) h
      .precommit r (some b) := by
  have a := run_a3 (L := deliveredVotes evs) (base := []) (start { n := n, me := me }) evs hn
    (mem_deliveredVotes evs) (a3_start_fresh n me)
  have hnn : (run (start { n := n, me := me }) evs).n = n :=
    (run_inv (me := me) (n := n) { n := n, me := me } (.start :: evs) (inv_init me n)).hn
  have := a.h3.fin h b hf
  rw [hnn] at this
  exact this

/-- **The Finalize rule, prefix-wise (closed under the crash cut).**  If the effect trace of a crash-free
    run is `pre ++ [finalize h b] ++ post`, then the commit quorum — more than 2/3 of the validator indices
    with a precommit (i, h, r, b) of ONE round r — was known to the machine from votes delivered to it
    and votes it had signed within `pre`, i.e. BEFORE the Finalize effect.  (The same holds, with `L` =
    the soup, for every machine of L-sys with crashes: field `T3.fin` of `TR`, which `tr_crash` keeps
    under any cut.) -/
theorem vstep_finalize_rule_prefixwise (n me : Nat) (evs : List Event) (hn : ∀ e ∈ evs, e.noCrash)
    (pre post : List Eff) (h : Nat) (b : Blk)
    (hd : (run (start { n := n, me := me }) evs).eff = pre ++ Eff.finalize h b :: post) :
    ∃ r, quorumKnown (deliveredVotes evs) n (sentOf pre) h .precommit r (some b) := by
  have a := run_a3 (L := deliveredVotes evs) (base := []) (start { n := n, me := me }) evs hn
    (mem_deliveredVotes evs) (a3_start_fresh n me)
  have hnn : (run (start { n := n, me := me }) evs).n = n :=
    (run_inv (me := me) (n := n) { n := n, me := me } (.start :: evs) (inv_init me n)).hn
  have := a.h3.tr.fin pre h b post hd
  rw [hnn] at this
  exact this

/-- the trace facts (G2, G3, Finalize rule, known WAL vote lists) survive ANY crash cut -/
theorem trace_rules_closed_under_crash (L : List VoteRec) (n : Nat) (eff : List Eff) (cut k : Nat)
    (ht : TR L n eff) : TR L n (eff.take cut ++ [.crash k]) :=
  tr_crash cut k ht

/-! non-vacuity of `vstep_G3`: validator 0 of 4 precommits 9 in round 0, moves to round 1 on +2/3 nil
    precommits, sees +2/3 prevotes for 10 in round 1 (unlock) and prevotes nil in round 1 -/
def g3Events : List Event := [
  .proposal 1 1 0 9 (-1), .blockPart 1 9, .async,
  .vote ⟨1,1,.prevote,0,some 9⟩, .vote ⟨2,1,.prevote,0,some 9⟩,
  .vote ⟨1,1,.precommit,0,none⟩, .vote ⟨2,1,.precommit,0,none⟩, .timeout 7,
  .vote ⟨1,1,.prevote,1,some 10⟩, .vote ⟨2,1,.prevote,1,some 10⟩, .vote ⟨3,1,.prevote,1,some 10⟩]

example : (∀ e ∈ g3Events, e.noCrash) ∧
    sentOf (run (start { n := 4, me := 0 }) g3Events).eff =
      [.vote ⟨0,1,.prevote,0,some 9⟩, .vote ⟨0,1,.precommit,0,some 9⟩] ++
        Msg.vote ⟨0,1,.prevote,1,none⟩ :: [.vote ⟨0,1,.precommit,1,none⟩] := by
  refine ⟨?_, by decide +kernel⟩
  intro e he
  simp only [g3Events, List.mem_cons, List.not_mem_nil, or_false] at he
  rcases he with rfl | rfl | rfl | rfl | rfl | rfl | rfl | rfl | rfl | rfl | rfl <;> simp [Event.noCrash]

/-! ### L-sys: n machines + the soup, no crash -/

/-- the soup of every reachable system state, restricted to any one height, satisfies the
    per-validator guarantees G0–G3 that `agreement_abs` needs -/
theorem reachable_soup_guarantees (n : Nat) (byz : Nat → Bool) (sys : Sys) (hr : Reach n byz sys) (h : Nat) :
    Guarantees n byz (projH h sys.soup) :=
  guarantees_of_sysInv n byz sys (reach_sysInv n byz sys hr) h

/-- **Agreement without crashes (C01 for crash-free executions), unbounded.**  `n` validators, any set
    `byz` of Byzantine ones with `3·|byz ∩ [0,n)| < n`.  Every validator index `i` with `byz i = false`
    runs the machine transcribed from consensus.go (`start {n, me := i}`).  `Reach n byz sys`: `sys` is
    reachable by any finite interleaving of (a) a Byzantine validator signing ANY vote (any height,
    round, type, value, any number of conflicting ones) and (b) a correct validator performing ANY
    crash-free event — proposal or block part with arbitrary content (not even required to be signed),
    timeout, BlockManager callback, or delivery of a vote that is in the soup (= has been signed by
    somebody before; signatures are unforgeable) — where everything it signs during the event is added
    to the soup.  Also (c): a correct validator is handed any block with a commit vote list through the
    block-sync callback (`syncBlock`), the commit votes being votes of the soup.  Loss, delay, duplication, reordering are all such interleavings.  Then any two
    Finalize effects of correct validators (the same or different ones) for the same height name the
    same block.  No bound on n, heights, rounds, or the length of the execution. -/
theorem agreement_nocrash (n : Nat) (byz : Nat → Bool) (hb : fewByz n byz) (sys : Sys)
    (hr : Reach n byz sys) (i j : Nat) (hi : byz i = false) (hj : byz j = false) (h : Nat) (b b' : Blk)
    (h1 : (h, b) ∈ finalizedOf (sys.st i).eff) (h2 : (h, b') ∈ finalizedOf (sys.st j).eff) : b = b' :=
  Goloop.C01.agreement_nocrash n byz hb sys hr i j hi hj h b b' h1 h2

/-! non-vacuity of `agreement_nocrash`: 4 validators, validator 3 Byzantine (it equivocates in round 0);
    validator 1 proposes 1201, validators 0, 1, 2 exchange prevotes and precommits through the soup;
    validators 0 and 1 finalize block 1201 at height 1 -/
def exPv (i : Nat) : VoteRec := ⟨i, 1, .prevote, 0, some 1201⟩
def exPc (i : Nat) : VoteRec := ⟨i, 1, .precommit, 0, some 1201⟩
def exScript : List Step := [
  .ev 1 .async,
  .ev 0 (.proposal 1 1 0 1201 (-1)), .ev 0 (.blockPart 1 1201), .ev 0 .async,
  .ev 2 (.proposal 1 1 0 1201 (-1)), .ev 2 (.blockPart 1 1201), .ev 2 .async,
  .byz ⟨3, 1, .prevote, 0, some 77⟩, .byz ⟨3, 1, .prevote, 0, none⟩,
  .ev 0 (.vote (exPv 1)), .ev 0 (.vote (exPv 2)),
  .ev 1 (.vote (exPv 0)), .ev 1 (.vote (exPv 2)),
  .ev 2 (.vote (exPv 0)), .ev 2 (.vote (exPv 1)),
  .ev 0 (.vote (exPc 1)), .ev 0 (.vote (exPc 2)),
  .ev 1 (.vote (exPc 0)), .ev 1 (.vote (exPc 2))]

theorem exScript_reach : Reach 4 (fun i => i == 3) ((sys0 4).run exScript) :=
  reach_run 4 (fun i => i == 3) (sys0 4) exScript Reach.init (by decide +kernel)

example : fewByz 4 (fun i => i == 3) ∧
    (1, 1201) ∈ finalizedOf (((sys0 4).run exScript).st 0).eff ∧
    (1, 1201) ∈ finalizedOf (((sys0 4).run exScript).st 1).eff := by
  decide +kernel

/-! ### block sync (ReceiveBlockResult → processBlock) as an event

    `EventS` = `Event` + `sync h r b signers` (Proofs/C01Sync): the engine is handed block `b` of height
    `h` with a commit vote list (precommits of round `r` by `signers`).  `runS` = histories that may
    contain sync steps.  `Reach` / `ReachC` have `sync` steps whose commit votes are in the soup, so
    `agreement_nocrash` and `agreement_partial` above cover executions with block sync. -/

/-- crash-free history of `EventS` started fresh: all three running invariants, with the delivered
    votes = votes of `vote` events + votes inside sync commit vote lists -/
theorem runS_invariants (n me : Nat) (evs : List EventS) (hn : ∀ e, e ∈ evs → e.noCrash) :
    A3 (deliveredS evs) [] (runS (start { n := n, me := me }) evs) :=
  runS_a3 _ evs hn (fun _ he _ hm => mem_deliveredS he hm) (a3_start_fresh n me)

theorem runS_n (n me : Nat) (evs : List EventS) : (runS (start { n := n, me := me }) evs).n = n :=
  (runS_inv _ evs (inv_start n me)).hn

/-- **Finalize needs a commit quorum, block sync included.**  Every `finalize h b` effect of a crash-free
    history that may contain sync steps — in particular a block finalized THROUGH sync — was emitted
    with more than 2/3 of the validator indices having a precommit (i, h, r, b) for ONE round r FOR THAT
    BLOCK among the votes delivered to the machine (by `vote` events or inside sync commit vote lists)
    or signed by itself.  (Seeded change C01-5 breaks exactly this: `c015_finalizes_without_quorum`.) -/
theorem vstepS_finalize_has_commit_quorum (n me : Nat) (evs : List EventS) (hn : ∀ e, e ∈ evs → e.noCrash)
    (h : Nat) (b : Blk) (hf : (h, b) ∈ finalizedOf (runS (start { n := n, me := me }) evs).eff) :
    ∃ r, quorumKnown (deliveredS evs) n (sentOf (runS (start { n := n, me := me }) evs).eff) h
      .precommit r (some b) := by
  have := (runS_invariants n me evs hn).h3.fin h b hf
  rw [runS_n] at this
  exact this

/-- the same prefix-wise: the quorum was known BEFORE the Finalize effect -/
theorem vstepS_finalize_rule_prefixwise (n me : Nat) (evs : List EventS) (hn : ∀ e, e ∈ evs → e.noCrash)
    (pre post : List Eff) (h : Nat) (b : Blk)
    (hd : (runS (start { n := n, me := me }) evs).eff = pre ++ Eff.finalize h b :: post) :
    ∃ r, quorumKnown (deliveredS evs) n (sentOf pre) h .precommit r (some b) := by
  have := (runS_invariants n me evs hn).h3.tr.fin pre h b post hd
  rw [runS_n] at this
  exact this

/-- G0 / G1 with sync steps (sync signs nothing): strictly increasing (height, round, step) keys — with
    crash and restart anywhere as well (C02's invariant is kept by sync) -/
theorem vstepS_G0 (n me : Nat) (evs : List EventS) :
    (sentOf (runS { n := n, me := me } evs).eff).Pairwise msgLt :=
  (runS_inv _ evs (inv_init me n)).inc

theorem vstepS_G1 (n me : Nat) (evs : List EventS) (v w : VoteRec)
    (hv : Msg.vote v ∈ sentOf (runS { n := n, me := me } evs).eff)
    (hw : Msg.vote w ∈ sentOf (runS { n := n, me := me } evs).eff)
    (hh : v.height = w.height) (hr : v.round = w.round) (ht : v.typ = w.typ) : v = w :=
  pairwise_msgLt_unique (vstepS_G0 n me evs) hv hw (by unfold voteKey; rw [hh, hr, ht])

/-- G2 with sync steps, exact timing -/
theorem vstepS_G2_before (n me : Nat) (evs : List EventS) (hn : ∀ e, e ∈ evs → e.noCrash)
    (pre post : List Msg) (v : VoteRec) (b : Blk)
    (hs : sentOf (runS (start { n := n, me := me }) evs).eff = pre ++ Msg.vote v :: post)
    (ht : v.typ = .precommit) (hb : v.val = some b) :
    quorumKnown (deliveredS evs) n pre v.height .prevote v.round (some b) := by
  have := (runS_invariants n me evs hn).h3.g2 pre v post b hs ht hb
  rw [runS_n] at this
  exact this

/-- G3 (lock rule) with sync steps, exact timing -/
theorem vstepS_G3 (n me : Nat) (evs : List EventS) (hn : ∀ e, e ∈ evs → e.noCrash)
    (pre post : List Msg) (w v : VoteRec) (b : Blk)
    (hs : sentOf (runS (start { n := n, me := me }) evs).eff = pre ++ Msg.vote w :: post)
    (hwt : w.typ = .prevote) (hv : Msg.vote v ∈ pre) (hvt : v.typ = .precommit) (hvb : v.val = some b)
    (hh : v.height = w.height) (hr : v.round < w.round) (hne : w.val ≠ some b) :
    ∃ r'' y, v.round < r'' ∧ r'' ≤ w.round ∧ y ≠ some b ∧
      quorumKnown (deliveredS evs) n pre w.height .prevote r'' y := by
  have := (runS_invariants n me evs hn).h3.g3 pre w post hs hwt v b hv hvt hvb hh hr hne
  rw [runS_n] at this
  exact this

/-! non-vacuity: validator 0 of 4 validated the round-0 proposal 9, nobody else did; it is then handed
    block 10 with the precommits of validators 1, 2, 3 of round 1 through block sync: it drops the
    candidate 9 (other part-set id), imports 10 and finalizes 10 -/
def syncEvents : List EventS := [
  .ev (.proposal 1 1 0 9 (-1)), .ev (.blockPart 1 9), .ev .async,
  .sync 1 1 10 [1, 2, 3], .ev .async]

example : (∀ e, e ∈ syncEvents → e.noCrash) ∧
    finalizedOf (runS (start { n := 4, me := 0 }) syncEvents).eff = [(1, 10)] := by
  refine ⟨?_, by decide +kernel⟩
  intro e he
  simp only [syncEvents, List.mem_cons, List.not_mem_nil, or_false] at he
  rcases he with rfl | rfl | rfl | rfl | rfl <;> simp [EventS.noCrash, Event.noCrash]

/-- seeded change C01-5 (blockPartSet.SetByPartSetAndBlock compares the part-set id AFTER overwriting
    it, so a validated candidate is never dropped) in model terms: the stale candidate stays in `cur`,
    and enterCommit's SetByPartSetID is a no-op because the part set was already replaced -/
def syncBlockC015 (s : S) (h r : Nat) (b : Blk) (signers : List Nat) : S :=
  if s.height < h then s
  else if s.height > h || (s.step == stCommit && s.cur.isComplete) then s
  else
    let (s, ok) := syncAddVotes s (signers.map (fun sg => ⟨sg, h, .precommit, r, some b⟩))
    if !ok then s
    else match (votesFor s.hvs r .precommit).decision s.n with
      | some (some b') =>
        if b' != b then s
        else
          let s := if s.cur.hasValidated then s else { s with cur := .full b false }
          if s.step < stCommit then
            let s := s.resetForNewStep stCommit
            let s := { s with commitRound := (r : Int) }
            let s := (s.emit (.write .commit (.voteList (voteListOf s r .precommit)))).emit (.sync .commit)
            commitAndEnterNewHeight fuel0 s
          else commitAndEnterNewHeight fuel0 s
      | _ => s

/-- **C01-5 (witness).**  Same history: validator 0 holds the validated candidate 9; the sync delivers
    block 10 with +2/3 precommits (round 1) of validators 1, 2, 3.  The C01-5 variant finalizes 9 —
    a block for which NO precommit at all is among the delivered or own votes, let alone a quorum — so
    `vstepS_finalize_has_commit_quorum` fails for it; the transcribed `syncBlock` finalizes nothing at
    that point and 10 after the import. -/
theorem c015_finalizes_without_quorum :
    let s0 := run (start { n := 4, me := 0 }) [.proposal 1 1 0 9 (-1), .blockPart 1 9, .async]
    finalizedOf (syncBlockC015 s0 1 1 10 [1, 2, 3]).eff = [(1, 9)] ∧
    (∀ v, v ∈ syncVotes 1 1 10 [1, 2, 3] ++ votesOf (sentOf (syncBlockC015 s0 1 1 10 [1, 2, 3]).eff) →
      ¬ (v.typ = .precommit ∧ v.val = some 9)) ∧
    finalizedOf (syncBlock s0 1 1 10 [1, 2, 3]).eff = [] ∧
    finalizedOf (async (syncBlock s0 1 1 10 [1, 2, 3])).eff = [(1, 10)] := by
  decide +kernel

/-! non-vacuity of the `sync` step of L-sys: after `exScript` validator 2 (which has not seen the
    precommits) is handed block 1201 with the commit votes of 0, 1, 2 and finalizes it -/
theorem exScriptSync_reach :
    Reach 4 (fun i => i == 3) ((sys0 4).run (exScript ++ [.sync 2 1 0 1201 [0, 1, 2]])) :=
  reach_run 4 (fun i => i == 3) (sys0 4) _ Reach.init (by decide +kernel)

example : (1, 1201) ∈ finalizedOf (((sys0 4).run (exScript ++ [.sync 2 1 0 1201 [0, 1, 2]])).st 2).eff := by
  decide +kernel

/-! ### crash and restart

    Full statement (`agreement`, DESIGN §6 C01) that does NOT hold for the unchanged code (F1 witness
    below): in L-sys with crash and restart of correct validators, two Finalize effects of correct
    validators for one height name the same block.
    Proved instead: `agreement_partial` — the same under the hypothesis that every restart satisfies
    `RLS` (RestoreLockSound).  Everything else a sound restart needs is derived from the code:
    the restored (round, step) dominates every signed message (C02), the restored vote sets contain
    only known votes (`restart_restores_only_known_votes`), step commit is never restored, the trace
    rules survive the cut.  Modelling restriction that remains: `SignClosed` — the two effect
    boundaries per vote between its round-WAL write and its hand-over to the network are not crash
    points (a vote that is durable but was never sent would be counted by its signer after the
    restart without being in the soup). -/

/-- **The vote-set half of a sound restart, from the code.**  `s` is a stopped machine reached by any
    history (C02's invariant `Inv`), whose trace satisfies the trace rules (`TR`) and `SignClosed`.  Then
    every vote that applyRoundWAL + applyLockWAL + applyCommitWAL put back into the height vote sets is
    a vote the machine knows (delivered to it earlier or signed-and-sent by itself), one entry per
    validator index below n: invariant `H2` holds for the replayed state. -/
theorem restart_restores_only_known_votes (me n : Nat) (L : List VoteRec) (s : S) (hi : Inv me n s)
    (htr : TR L n s.eff) (hsc : SignClosed s.eff) : H2 L (replayed s) :=
  h2_replayed s hi htr hsc

/-- **A restart is sound exactly when RestoreLockSound holds.**  Stopped machine `s` with the per-machine
    invariant `M3` (C02's invariant + trace rules), `SignClosed`, and `RLS s`: the restored lock is on the
    block of the last non-nil precommit signed for the current height, with lockedRound at least its
    round.  Then `start s` (replay + dispatch) satisfies the three invariants of the running machine
    again (hence G0–G3 and the Finalize rule hold for everything it signs afterwards, against everything
    it signed before the crash), and it only appends to what it has signed. -/
theorem restart_sound_of_RLS (me n : Nat) (L : List VoteRec) (s : S) (hm : M3 L me n s)
    (hns : s.started = false) (hsc : SignClosed s.eff) (hr : RLS s) :
    M3 L me n (start s) ∧ s.eff <+: (start s).eff :=
  m3_start s hns hsc hr hm

/-- **Lock rule after a restart (single machine).**  As above, followed by any crash-free continuation:
    the lock rule G3 holds for every prevote in the whole trace — including prevotes signed after the
    restart against precommits signed before the crash. -/
theorem lock_rule_after_restart_partial (me n : Nat) (L : List VoteRec) (s : S) (hm : M3 L me n s)
    (hns : s.started = false) (hsc : SignClosed s.eff) (hR : RLS s)
    (evs : List Event) (hn : ∀ e ∈ evs, e.noCrash) (hl : ∀ m, Event.vote m ∈ evs → m ∈ L)
    (pre post : List Msg) (w v : VoteRec) (b : Blk)
    (hs : sentOf (run (start s) evs).eff = pre ++ Msg.vote w :: post)
    (hwt : w.typ = .prevote) (hv : Msg.vote v ∈ pre) (hvt : v.typ = .precommit) (hvb : v.val = some b)
    (hh : v.height = w.height) (hr : v.round < w.round) (hne : w.val ≠ some b) :
    ∃ r'' y, v.round < r'' ∧ r'' ≤ w.round ∧ y ≠ some b ∧
      quorumKnown L n pre w.height .prevote r'' y := by
  obtain ⟨hm2, _⟩ := m3_start s hns hsc hR hm
  have a0 : A3 L [] (start s) := by
    rcases hm2.run with h | h
    · exact a3_start [] s hm.inv hns (a3_replayed [] s hm.inv hm.trf hsc hR List.nil_prefix)
    · exact h
  have a := run_a3 (L := L) (base := []) (start s) evs hn hl a0
  have hi' : Inv me n (run (start s) evs) := run_inv s (.start :: evs) hm.inv
  have := a.h3.g3 pre w post hs hwt v b hv hvt hvb hh hr hne
  rw [hi'.hn] at this
  exact this

/-- non-vacuity of the restart hypotheses: a validator that dies right after its first start -/
example : ∃ s : S, M3 [] 0 4 s ∧ s.started = false ∧ SignClosed s.eff ∧ RLS s :=
  ⟨crash (start { n := 4, me := 0 }) 1000 0,
   m3_crash _ _ _ (m3_of_a3 (inv_start 4 0) (a3_start_fresh 4 0)), rfl,
   signClosed_of_B (by decide +kernel), by decide +kernel⟩

/-- **Agreement with crash and restart, under RestoreLockSound (C01 as far as the unchanged code
    allows).**  L-sys as in `agreement_nocrash`, plus, for correct validators, `crashEvent` — the process
    dies while handling any event at ANY effect boundary `cut` of that event (before its first effect =
    between events, …, after its last effect), any number `k` of unsynced WAL records survives — and
    `restart` — `Start` on whatever the WALs hold.  Hypotheses on the
    execution, attached to every restart step (`ReachC RLS`): `RLS` (RestoreLockSound: IF the validator
    has signed a non-nil precommit for the height it restarts in, the restored lock is on the block of
    the LAST such precommit with lockedRound ≥ its round; nothing else is assumed about the restored
    state) and the modelling restriction `SignClosed`.  Then any two Finalize effects of correct
    validators for one height — before or after any number of crashes — name the same block.
    Unbounded n, heights, rounds, crashes, execution length. -/
theorem agreement_partial (n : Nat) (byz : Nat → Bool) (hb : fewByz n byz) (sys : Sys)
    (hr : ReachC RLS n byz sys) (i j : Nat) (hi : byz i = false) (hj : byz j = false) (h : Nat) (b b' : Blk)
    (h1 : (h, b) ∈ finalizedOf (sys.st i).eff) (h2 : (h, b') ∈ finalizedOf (sys.st j).eff) : b = b' :=
  Goloop.C01.agreement_partial n byz hb sys hr i j hi hj h b b' h1 h2

/-! non-vacuity of `agreement_partial`: the 4-validator history above with two crashes: validator 2 dies
    in the MIDDLE of the event that locks 1201 (after the lock WAL sync, before the precommit is
    written), validator 0 dies between events after its precommit (0 unsynced records survive); both
    restart (RLS holds: the lock WAL restores (1201, round 0)), validator 2 re-derives and signs its
    precommit from the restored lock, validators 0 and 1 finalize 1201. -/
def exScriptC : List StepC := [
  .ev 1 .async,
  .ev 0 (.proposal 1 1 0 1201 (-1)), .ev 0 (.blockPart 1 1201), .ev 0 .async,
  .ev 2 (.proposal 1 1 0 1201 (-1)), .ev 2 (.blockPart 1 1201), .ev 2 .async,
  .byz ⟨3, 1, .prevote, 0, some 77⟩, .byz ⟨3, 1, .prevote, 0, none⟩,
  .ev 0 (.vote (exPv 1)), .ev 0 (.vote (exPv 2)),
  .ev 2 (.vote (exPv 0)),
  .crashEv 2 (.vote (exPv 1)) 7 0,
  .crashEv 0 (.timeout 9) 1000 0,
  .restart 0, .restart 2,
  .ev 1 (.vote (exPv 0)), .ev 1 (.vote (exPv 2)),
  .ev 0 (.vote (exPc 1)), .ev 0 (.vote (exPc 2)), .ev 0 .async,
  .ev 1 (.vote (exPc 0)), .ev 1 (.vote (exPc 2))]

theorem exScriptC_reach : ReachC RLS 4 (fun i => i == 3) ((sys0 4).runC exScriptC) :=
  reachC_run 4 (fun i => i == 3) (sys0 4) exScriptC ReachC.init (by decide +kernel)

example : (1, 1201) ∈ finalizedOf (((sys0 4).runC exScriptC).st 0).eff ∧
    (1, 1201) ∈ finalizedOf (((sys0 4).runC exScriptC).st 1).eff ∧
    Msg.vote (exPc 2) ∈ sentOf (((sys0 4).runC exScriptC).st 2).eff := by
  decide +kernel

/-! ### F1 witness: the transcribed machine (and, replayed by the harness, the real engine) loses the
    raised lock round on restart.

    Full statement that does NOT hold for the unchanged code (DESIGN `agreement`, with restart):
      for every event sequence with crash/start anywhere the sent votes satisfy G3.
    It would hold under the hypothesis `RestoreLockSound`: after `start`, lockedRound ≥ the round of
    the validator's last non-nil precommit for the locked block.  The history below violates that
    hypothesis with ALL WALs intact (crash keeps every synced record): validator 0 of 4. -/
def f1Events : List Event := [
  .start,
  .proposal 1 1 0 9 (-1), .blockPart 1 9, .async,                      -- proposal B=9 of round 0
  .vote ⟨1,1,.prevote,0,some 9⟩, .vote ⟨2,1,.prevote,0,some 9⟩,        -- polka (0,9): lock 9@0, precommit
  .vote ⟨1,1,.precommit,0,none⟩, .vote ⟨2,1,.precommit,0,none⟩, .timeout 7,
  .timeout 3,                                                          -- round 1: prevote 9 (locked)
  .vote ⟨2,1,.prevote,1,some 10⟩, .vote ⟨3,1,.prevote,1,none⟩, .timeout 5,
  .vote ⟨1,1,.precommit,1,none⟩, .vote ⟨3,1,.precommit,1,none⟩,        -- +2/3 nil: round 2
  .timeout 3,
  .vote ⟨1,1,.prevote,2,some 9⟩, .vote ⟨3,1,.prevote,2,some 9⟩]        -- polka (2,9): "update lock round"

/-- the delayed polka (1,10): validator 3 equivocates (it is the one Byzantine validator) -/
def f1Late : List Event := [
  .vote ⟨1,1,.prevote,1,some 10⟩, .vote ⟨3,1,.prevote,1,some 10⟩,
  .vote ⟨1,1,.precommit,2,none⟩, .vote ⟨2,1,.precommit,2,none⟩, .timeout 7, .async]

/-- **F1 (witness).**  Before the crash the validator is locked on 9 *since round 2* and has sent
    precommit (round 2, 9).  After `crash` (nothing lost) + `start` the lock round is 0; the delayed
    polka of round 1 (< 2) therefore unlocks it, and in round 3 it proposes and prevotes another
    block although no polka for anything else exists in rounds (2,3]: G3 is violated. -/
theorem restart_loses_lock_round_witness :
    (run {} f1Events).lockedRound = 2 ∧
    Msg.vote ⟨0,1,.precommit,2,some 9⟩ ∈ sentOf (run {} f1Events).eff ∧
    (run {} (f1Events ++ [.crash 1000 0, .start])).lockedRound = 0 ∧
    (run {} (f1Events ++ [.crash 1000 0, .start])).locked = some (9, false) ∧
    (run {} (f1Events ++ [.crash 1000 0, .start] ++ f1Late)).locked = none ∧
    Msg.vote ⟨0,1,.prevote,3,some 1208⟩ ∈ sentOf (run {} (f1Events ++ [.crash 1000 0, .start] ++ f1Late)).eff ∧
    (run {} (f1Events ++ [.crash 1000 0, .start] ++ f1Late)).stuck = false := by
  decide +kernel

/-- without the restart the same late votes do NOT unlock (the in-memory lock round is 2): the
    validator re-proposes 9 in round 3 and prevotes 9 -/
theorem no_restart_keeps_lock :
    ((run {} (f1Events ++ f1Late ++ [.timeout 3])).locked.map (·.1)) = some 9 ∧
    (run {} (f1Events ++ f1Late ++ [.timeout 3])).lockedRound = 2 ∧
    Msg.vote ⟨0,1,.prevote,3,some 9⟩ ∈ sentOf (run {} (f1Events ++ f1Late ++ [.timeout 3])).eff := by
  decide +kernel

/-- **RestoreLockSound is false for the unchanged code (F1).**  The stopped state after the F1 history
    and a crash that loses NOTHING (all WAL records kept, no vote between WAL and network): every other
    premise of the restart step holds (`SignClosed`), `RLS` does not — the last non-nil precommit of
    height 1 is (round 2, block 9), the replay restores lockedRound 0. -/
theorem rls_fails_on_F1_witness :
    (run {} (f1Events ++ [.crash 1000 0])).started = false ∧
    signClosedB (run {} (f1Events ++ [.crash 1000 0])).eff = true ∧
    ¬ RLS (run {} (f1Events ++ [.crash 1000 0])) := by
  decide +kernel

end Goloop.C01.Props
