/-
  Props/C17: the Merkle Patricia trie is a canonical map.

  A history is any list of Set/Delete operations on byte keys starting from the
  empty trie (`run`).  `refMap` is the reference finite map (last write wins).
  Snapshot / flush / cache clearing do not exist in the structural model (they
  are the identity; the correspondence run checks this on the real code);
  reload is `reload`, proved to be the identity when no empty value is stored.
  The hash function `H` is an arbitrary parameter.
-/
import Goloop.Proofs.C17
import Goloop.Proofs.C17Iter
namespace Goloop.C17

inductive Op where
  | set (k v : Bytes)
  | del (k : Bytes)

def applyOp (t : Node) : Op → Node
  | .set k v => set t (bytesToNibs k) v
  | .del k => delete t (bytesToNibs k)

/-- the trie after a history of operations, starting from the empty trie -/
def run (ops : List Op) : Node := ops.foldl applyOp .empty

def refStep (m : Bytes → Option Bytes) : Op → Bytes → Option Bytes
  | .set k v => fun x => if x = k then some v else m x
  | .del k => fun x => if x = k then none else m x

/-- the reference map: last written value, none after a delete -/
def refMap (ops : List Op) : Bytes → Option Bytes := ops.foldl refStep (fun _ => none)

theorem rev_ind {α : Type} {motive : List α → Prop} (nil : motive [])
    (append_singleton : ∀ l a, motive l → motive (l ++ [a])) (l : List α) : motive l := by
  rw [← List.reverse_reverse l]
  induction l.reverse with
  | nil => simpa using nil
  | cons a t ih => simpa using append_singleton _ a ih

theorem run_snoc (ops : List Op) (op : Op) : run (ops ++ [op]) = applyOp (run ops) op := by
  simp [run, List.foldl_append]

theorem refMap_snoc (ops : List Op) (op : Op) : refMap (ops ++ [op]) = refStep (refMap ops) op := by
  simp [refMap, List.foldl_append]

/-- **normal form is an invariant of every history**, and Delete never reaches the
    `"Value is nil"` panic of branch.delete on a reachable trie. -/
theorem nf_run (ops : List Op) : NF (run ops) := by
  induction ops using rev_ind with
  | nil => exact Or.inl rfl
  | append_singleton ops op ih =>
    rw [run_snoc]
    cases op with
    | set k v => exact Or.inr (nfn_set _ ih _ _)
    | del k => exact (nf_delete _ ih _).1

theorem delete_never_panics (ops : List Op) (k : Bytes) :
    delPanics (run ops) (bytesToNibs k) = false :=
  (nf_delete _ (nf_run ops) _).2

/-- normal form is preserved by Set and Delete (single steps, any nibble key) -/
theorem nf_set (t : Node) (h : NF t) (k : List Nibble) (v : Bytes) : NF (set t k v) :=
  Or.inr (nfn_set t h k v)

theorem nf_delete' (t : Node) (h : NF t) (k : List Nibble) : NF (delete t k) :=
  (nf_delete t h k).1

example : NF (set (set .empty [1, 2] [7]) [1, 3] [8]) := nf_set _ (nf_set _ (Or.inl rfl) _ _) _ _

/-- single-step refinement: Set then Get -/
theorem get_set_nf (t : Node) (h : NF t) (k : List Nibble) (v : Bytes) (k' : List Nibble) :
    get (set t k v) k' = if k' = k then some v else get t k' :=
  get_set t (NF_extOK t h) k v k'

/-- single-step refinement: Delete then Get (no hypothesis needed) -/
theorem get_delete_any (t : Node) (k k' : List Nibble) :
    get (delete t k) k' = if k' = k then none else get t k' :=
  get_delete t k k'

/-- only byte keys are ever stored -/
theorem run_keys_bytes (ops : List Op) (k : List Nibble) (v : Bytes)
    (h : get (run ops) k = some v) : ∃ kb : Bytes, k = bytesToNibs kb := by
  induction ops using rev_ind generalizing k v with
  | nil => simp [run] at h
  | append_singleton ops op ih =>
    rw [run_snoc] at h
    cases op with
    | set kb w =>
      simp only [applyOp] at h
      rw [get_set_nf _ (nf_run ops)] at h
      by_cases e : k = bytesToNibs kb
      · exact ⟨kb, e⟩
      · simp [e] at h; exact ih k v h
    | del kb =>
      simp only [applyOp] at h
      rw [get_delete] at h
      by_cases e : k = bytesToNibs kb
      · exact ⟨kb, e⟩
      · simp [e] at h; exact ih k v h

/-- **refinement to a finite map**: after any history, Get returns the last written value
    (none if never written or deleted since). -/
theorem get_run (ops : List Op) (kb : Bytes) :
    get (run ops) (bytesToNibs kb) = refMap ops kb := by
  induction ops using rev_ind generalizing kb with
  | nil => simp [run, refMap]
  | append_singleton ops op ih =>
    rw [run_snoc, refMap_snoc]
    cases op with
    | set k w =>
      simp only [applyOp, refStep]
      rw [get_set_nf _ (nf_run ops)]
      by_cases e : kb = k
      · subst e; simp
      · have : bytesToNibs kb ≠ bytesToNibs k := fun h => e (bytesToNibs_injective _ _ h)
        simp [e, this, ih]
    | del k =>
      simp only [applyOp, refStep]
      rw [get_delete]
      by_cases e : kb = k
      · subst e; simp
      · have : bytesToNibs kb ≠ bytesToNibs k := fun h => e (bytesToNibs_injective _ _ h)
        simp [e, this, ih]

/-- **normal form is canonical**: two normal-form tries holding the same pairs are equal -/
theorem nf_canonical' (t1 t2 : Node) (h1 : NF t1) (h2 : NF t2)
    (he : ∀ k, get t1 k = get t2 k) : t1 = t2 :=
  nf_canonical t1 t2 h1 h2 he

example : NF (Node.leaf [1] [2]) ∧ NF (set .empty [1] [2]) ∧
    ∀ k, get (Node.leaf [1] [2]) k = get (set .empty [1] [2]) k :=
  ⟨Or.inr trivial, nf_set _ (Or.inl rfl) _ _, fun _ => rfl⟩

/-- **the trie (hence its root hash, for any hash function) depends only on the stored pairs**:
    two histories with the same reference map end in the same node structure. -/
theorem run_order_independent (ops1 ops2 : List Op) (he : ∀ kb, refMap ops1 kb = refMap ops2 kb) :
    run ops1 = run ops2 := by
  apply nf_canonical _ _ (nf_run ops1) (nf_run ops2)
  intro k
  have key : ∀ (a b : List Op), (∀ kb, refMap a kb = refMap b kb) → ∀ v, get (run a) k = some v →
      get (run b) k = some v := by
    intro a b hab v hv
    obtain ⟨kb, rfl⟩ := run_keys_bytes a k v hv
    rw [get_run] at hv ⊢
    rw [← hab]; exact hv
  cases h1 : get (run ops1) k with
  | some v => rw [key ops1 ops2 he v h1]
  | none =>
    cases h2 : get (run ops2) k with
    | none => rfl
    | some v =>
      have := key ops2 ops1 (fun kb => (he kb).symm) v h2
      rw [h1] at this; cases this

theorem root_order_independent (H : Bytes → Bytes) (ops1 ops2 : List Op)
    (he : ∀ kb, refMap ops1 kb = refMap ops2 kb) :
    rootHash H (run ops1) = rootHash H (run ops2) := by
  rw [run_order_independent ops1 ops2 he]

example : ∀ kb, refMap [.set [1] [5], .set [2] [6], .del [3]] kb = refMap [.set [2] [6], .set [1] [9], .set [1] [5]] kb := by
  intro kb
  simp only [refMap, List.foldl, refStep]
  by_cases h1 : kb = [1] <;> by_cases h2 : kb = [2] <;> by_cases h3 : kb = [3] <;> simp_all

/-- **iteration** yields exactly the stored pairs, in strictly ascending key order -/
theorem iterator_run (ops : List Op) :
    (iterator (run ops)).Pairwise (fun a b => a.1 < b.1) ∧
    ∀ kb v, (kb, v) ∈ iterator (run ops) ↔ refMap ops kb = some v := by
  obtain ⟨h1, h2⟩ := iterator_sorted_complete (run ops) (run_keys_bytes ops)
  refine ⟨h1, fun kb v => ?_⟩
  rw [h2, get_run]

/-- **prefix iteration** yields exactly the stored pairs whose key has the prefix, ascending -/
theorem filter_run (ops : List Op) (pfx : Bytes) :
    (filter (run ops) pfx).Pairwise (fun a b => a.1 < b.1) ∧
    ∀ kb v, (kb, v) ∈ filter (run ops) pfx ↔ pfx <+: kb ∧ refMap ops kb = some v := by
  obtain ⟨h1, h2⟩ := filter_sorted_complete (run ops) pfx (run_keys_bytes ops)
  refine ⟨h1, fun kb v => ?_⟩
  rw [h2, get_run]

/-! ### flush + reload -/

theorem reload_id (t : Node) (h : NoEmptyBranchVal t) : reload t = t := by
  induction t with
  | empty => rfl
  | leaf ks v => rfl
  | ext ks nx ih => simp only [reload]; rw [ih h]
  | branch ch v ih =>
    obtain ⟨hv, hc⟩ := h
    simp only [reload]
    have : (fun i => reload (ch i)) = ch := funext fun i => ih i (hc i)
    rw [this]

theorem noEmpty_of_get (t : Node) (h : ∀ k, get t k ≠ some []) : NoEmptyBranchVal t := by
  induction t with
  | empty => trivial
  | leaf ks v => trivial
  | ext ks nx ih =>
    apply ih
    intro r hr
    exact h (ks ++ r) (by simp [get_ext, hr])
  | branch ch v ih =>
    refine ⟨by simpa using h [], fun i => ih i ?_⟩
    intro r hr
    exact h (i :: r) (by simpa using hr)

theorem refMap_value_mem (ops : List Op) (kb v : Bytes) (h : refMap ops kb = some v) :
    ∃ k, Op.set k v ∈ ops := by
  induction ops using rev_ind generalizing v with
  | nil => simp [refMap] at h
  | append_singleton ops op ih =>
    rw [refMap_snoc] at h
    cases op with
    | set k w =>
      simp only [refStep] at h
      by_cases e : kb = k
      · simp [e] at h; subst h; exact ⟨k, by simp⟩
      · simp [e] at h
        obtain ⟨k', hk'⟩ := ih v h
        exact ⟨k', by simp [hk']⟩
    | del k =>
      simp only [refStep] at h
      by_cases e : kb = k
      · simp [e] at h
      · simp [e] at h
        obtain ⟨k', hk'⟩ := ih v h
        exact ⟨k', by simp [hk']⟩

/-- **flush + reload is the identity** on every trie reachable by a history that never
    stores an empty value (see `reload_loses_empty_branch_value` for why the hypothesis is needed). -/
theorem reload_run (ops : List Op) (hv : ∀ k v, Op.set k v ∈ ops → v ≠ []) :
    reload (run ops) = run ops := by
  apply reload_id
  apply noEmpty_of_get
  intro k hk
  obtain ⟨kb, rfl⟩ := run_keys_bytes ops k [] hk
  rw [get_run] at hk
  obtain ⟨k', hk'⟩ := refMap_value_mem ops kb [] hk
  exact hv k' [] hk' rfl

example : ∀ k v, Op.set k v ∈ [Op.set [0x12] [1], Op.del [0x12], Op.set [0x12, 0x34] [2]] → v ≠ [] := by
  intro k v h
  simp at h
  rcases h with ⟨_, rfl⟩ | ⟨_, rfl⟩ <;> simp

/-- witness (known finding `empty-value-at-branch-lost-on-reload`): with an empty value stored at
    a branch node, what deserialisation gives back is a different map: the key is gone. -/
theorem reload_loses_empty_branch_value :
    get (run [.set [0x12] [], .set [0x12, 0x34] [0x61]]) (bytesToNibs [0x12]) = some [] ∧
    get (reload (run [.set [0x12] [], .set [0x12, 0x34] [0x61]])) (bytesToNibs [0x12]) = none := by
  constructor <;> decide

end Goloop.C17
