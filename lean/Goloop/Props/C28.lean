/-
  Props/C28: hexary block-hash accumulator and merkle tree (icon/merkle/hexary).
  `H` is an arbitrary hash function with 32 byte output.
-/
import Goloop.Proofs.C28
import Goloop.Proofs.C28Batch
import Goloop.Proofs.C28Tree
import Goloop.Proofs.C28SetLen
namespace Goloop.C28

/-- **C28 (altered proofs or hashes are rejected, or a collision is exhibited).**
    For one merkle tree (root, level, node bucket in any state), one key and two proofs of the
    same length: if `Add` accepts hash `h1` with proof `p1` and hash `h2` with proof `p2`, then
    `h1 = h2`, or `p1` and `p2` contain two different nodes with the same `H`-hash. So once a
    genuine (hash, proof) pair is accepted for a key, every accepted pair carries the same hash
    unless it exhibits a collision — in particular a proof with an altered node or an altered
    hash is rejected. (Holds for partial proofs too: the omitted levels come from the same
    bucket.) -/
theorem tampered_rejected_or_collision (H : Bytes → Bytes) (hlen : ∀ x, (H x).length = 32)
    (t : Tree) (key : Nat) (h1 h2 : Bytes) (p1 p2 : List Bytes) (hl : p1.length = p2.length)
    (a1 : (t.add H key h1 p1).2 = .ok) (a2 : (t.add H key h2 p2).2 = .ok) :
    h1 = h2 ∨ Collision H p1 p2 := by
  unfold Tree.add Tree.addCore at a1 a2
  split at a1
  · cases a1
  split at a1
  · cases a1
  rename_i _ hg1
  split at a2
  · cases a2
  split at a2
  · cases a2
  rename_i _ hg2
  have e1 : p1.length - t.level = 0 := by simp at hg1; omega
  have e2 : p2.length - t.level = 0 := by simp at hg2; omega
  rw [e1] at a1
  rw [e2] at a2
  simp only [List.drop_zero] at a1 a2
  rw [hl] at a1
  cases r1 : addLoop H t.db key t.level (t.level - p2.length) p1 t.root with
  | error e => simp only [r1] at a1; subst a1; exact absurd r1 (addLoop_error_ne_ok H _ _ _ _ _ _)
  | ok b1 =>
    cases r2 : addLoop H t.db key t.level (t.level - p2.length) p2 t.root with
    | error e => simp only [r2] at a2; subst a2; exact absurd r2 (addLoop_error_ne_ok H _ _ _ _ _ _)
    | ok b2 =>
      simp only [r1] at a1
      simp only [r2] at a2
      split at a1
      · cases a1
      split at a2
      · cases a2
      rename_i hh1 hh2
      rcases addLoop_binding H hlen t.db key t.level _ p1 p2 t.root b1 b2 r1 r2 with hb | hc
      · left
        have x1 := Decidable.of_not_not hh1
        have x2 := Decidable.of_not_not hh2
        rw [← x1, ← x2, hb]
      · exact Or.inr hc

/-- non-vacuity: a tree of level 1 over two leaves accepts the genuine proof -/
example : ∃ (H : Bytes → Bytes) (t : Tree) (h : Bytes) (p : List Bytes),
    (∀ x, (H x).length = 32) ∧ (t.add H 1 h p).2 = .ok :=
  ⟨fun _ => List.replicate 32 0,
   { db := [], level := 1, root := List.replicate 32 0, cap := 2 },
   List.replicate 32 2, [List.replicate 32 1 ++ List.replicate 32 2],
   by intro x; simp, by decide⟩

/-! ### histories of the accumulator -/

inductive Op where
  | add (h : Bytes)
  | fin
  | setLen (l : Nat)

/-- accumulator and tree bucket after one operation (panicking / failing operations leave
    what the Go code leaves) -/
def runOp (H : Bytes → Bytes) (s : Acc × DB) : Op → Acc × DB
  | .add h => ((s.1.add H s.2 h).1, (s.1.add H s.2 h).2.1)
  | .fin => match s.1.finalize H s.2 with
    | some (_, db) => (s.1, db)
    | none => s
  | .setLen l => ((s.1.setLen H s.2 l).1, (s.1.setLen H s.2 l).2.1)

def run (H : Bytes → Bytes) (ops : List Op) : Acc × DB := ops.foldl (runOp H) ({}, [])

theorem finalize_dbok {H a db hd db'} (h : DBOk H db) (hf : Acc.finalize H a db = some (hd, db')) :
    DBOk H db' := by
  unfold Acc.finalize at hf
  cases hc : carryFold H true a.roots none db with
  | none => simp [hc] at hf
  | some r =>
    obtain ⟨c, d⟩ := r
    simp [hc] at hf
    rw [← hf.2]
    exact carryFold_dbok H true _ _ _ _ _ h hc

theorem setLen_dbok {H a db l} (h : DBOk H db) : DBOk H (Acc.setLen H a db l).2.1 := by
  unfold Acc.setLen
  split
  · exact h
  split
  · exact h
  split
  · exact h
  cases hf : Acc.finalize H a db with
  | none => exact h
  | some r =>
    obtain ⟨hd, db'⟩ := r
    have h' := finalize_dbok h hf
    simp only
    split
    · exact h'
    · split
      · exact h'
      · exact h'
      · split
        · exact h'
        · split
          · exact h'
          · exact h'

/-- **the tree bucket is content addressed** after any history of Add / Finalize / SetLen
    (any arguments, including failing ones): every node is stored under its own hash. -/
theorem treeBucket_content_addressed (H : Bytes → Bytes) (ops : List Op) : DBOk H (run H ops).2 := by
  unfold run
  have : ∀ (ops : List Op) (s : Acc × DB), DBOk H s.2 → DBOk H (ops.foldl (runOp H) s).2 := by
    intro ops
    induction ops with
    | nil => intro s h; simpa using h
    | cons op rest ih =>
      intro s h
      simp only [List.foldl_cons]
      apply ih
      cases op with
      | add x =>
        simp only [runOp, Acc.add]
        have := addAt_dbok H s.1.roots x s.2 h
        split <;> simpa using this
      | fin =>
        simp only [runOp]
        cases hf : Acc.finalize H s.1 s.2 with
        | none => exact h
        | some r => exact finalize_dbok h hf
      | setLen l => exact setLen_dbok h
  exact this ops _ (DBOk.nil H)

/-- what `Prove(key, 0)` reads from a content-addressed bucket is accepted by a verifier tree
    with the same header on any bucket, for the hash found at the proof's end -/
theorem accept_of_prove (H : Bytes → Bytes) (vdb : DB) (key : Nat)
    (hd : Header) (db' : DB) (pt vt : Tree) (p : List Bytes) (hdb : DBOk H db')
    (hpt : newTree db' hd = some pt) (hvt : newTree vdb hd = some vt)
    (hp : pt.prove key 0 = .ok p) :
    (vt.add H key ((nodeGet (lastNode pt.root p) (key % 16)).getD []) p).2 = .ok := by
  simp only [newTree] at hpt hvt
  split at hpt
  · rename_i hv
    simp only [hv, if_true] at hvt
    cases hpt; cases hvt
    unfold Tree.prove at hp
    simp only at hp
    cases hl : proveLoop db' key (levelFromLen hd.leaves) (hd.root.getD []) with
    | none => simp [hl] at hp
    | some res =>
      simp only [hl] at hp
      have hnn : ¬ ((levelFromLen hd.leaves : Int) < 0) := by omega
      simp [hnn] at hp
      subst hp
      · have hlen := proveLoop_length db' key _ _ _ hl
        have hloop := proveLoop_addLoop H db' vdb hdb key _ _ _ hl
        have hmin : minProofLen (levelFromLen hd.leaves) key ≤ levelFromLen hd.leaves := by
          unfold minProofLen; simp only; split <;> omega
        unfold Tree.add Tree.addCore
        simp only [hlen]
        have h1 : ¬ levelFromLen hd.leaves < minProofLen (levelFromLen hd.leaves) key := by omega
        simp only [h1, if_false, Nat.lt_irrefl, gt_iff_lt, and_false, Nat.sub_self, List.drop_zero, hloop]
        simp
  · cases hpt

/-- **what `Prove` returns, `Add` accepts, after any history** (Add / Finalize / SetLen with
    any arguments): whenever `Prove(key, 0)` succeeds on the accumulator's bucket, a verifier
    tree with the same header accepts that proof for the hash found at its end. (The full
    statement for plain `Add` histories is `proof_accepted`.) -/
theorem prove_output_accepted (H : Bytes → Bytes) (ops : List Op) (vdb : DB) (key : Nat)
    (hd : Header) (db' : DB) (pt vt : Tree) (p : List Bytes)
    (hf : (run H ops).1.finalize H (run H ops).2 = some (hd, db'))
    (hpt : newTree db' hd = some pt) (hvt : newTree vdb hd = some vt)
    (hp : pt.prove key 0 = .ok p) :
    (vt.add H key ((nodeGet (lastNode pt.root p) (key % 16)).getD []) p).2 = .ok :=
  accept_of_prove H vdb key hd db' pt vt p (finalize_dbok (treeBucket_content_addressed H ops) hf) hpt hvt hp

/-- accumulator and bucket after `Add`ing the hashes `xs` one by one -/
def addAll (H : Bytes → Bytes) (s : Acc × DB) (xs : List Bytes) : Acc × DB :=
  xs.foldl (fun s x => ((s.1.add H s.2 x).1, (s.1.add H s.2 x).2.1)) s

/-- **C28 (16-ary roots with carry).** After `Add`ing any `n` 32-byte hashes to the empty
    accumulator, no `Add` has panicked, `Len = n`, and the numbers of hashes held by the root
    nodes are exactly the base-16 digits of `n` (least significant first, no leading zero):
    the roots are a base-16 counter, so their shape depends on `n` alone. -/
theorem roots_are_base16_digits (H : Bytes → Bytes) (hlen : ∀ x, (H x).length = 32)
    (xs : List Bytes) (hx : ∀ x ∈ xs, x.length = 32) (db : DB) :
    (addAll H ({}, db) xs).1.len = xs.length ∧
    (addAll H ({}, db) xs).1.roots.map nodeLen = digits16 xs.length := by
  have key : ∀ (xs : List Bytes), (∀ x ∈ xs, x.length = 32) → ∀ (s : Acc × DB) (n : Nat),
      s.1.len = n → WFRoots s.1.roots → s.1.roots.map nodeLen = digits16 n →
      (addAll H s xs).1.len = n + xs.length ∧
      (addAll H s xs).1.roots.map nodeLen = digits16 (n + xs.length) := by
    intro xs
    induction xs with
    | nil => intro _ s n h1 _ h3; simpa [addAll] using ⟨h1, h3⟩
    | cons x rest ih =>
      intro hx s n h1 h2 h3
      have hxl : x.length = 32 := hx x (by simp)
      obtain ⟨a1, a2, a3⟩ := addAt_shape H hlen s.1.roots x s.2 hxl h2
      have hstep : (s.1.add H s.2 x).1 = { len := n + 1, roots := (addAt H s.1.roots x s.2).1 } := by
        simp only [Acc.add, a1, if_true, h1]
      have := ih (fun y hy => hx y (by simp [hy]))
        ((s.1.add H s.2 x).1, (s.1.add H s.2 x).2.1) (n + 1)
        (by rw [hstep]) (by rw [hstep]; exact a2) (by rw [hstep]; simp only; rw [a3, h3, inc16_digits16])
      simp only [addAll, List.foldl_cons, List.length_cons] at this ⊢
      rw [show n + (rest.length + 1) = n + 1 + rest.length by omega]
      exact this
  have := key xs hx ({}, db) 0 rfl (by intro r hr; simp at hr) (by simp [digits16])
  simpa using this

/-- the accumulator after `Add`ing `xs` is the closed-form state of the sequence `xs` -/
theorem addAll_state (H : Bytes → Bytes) (hlen : ∀ x, (H x).length = 32)
    (xs : List Bytes) (hx : All32 xs) :
    ∀ (s : List Bytes) (st : Acc × DB), All32 s → st.1 = { len := s.length, roots := rootsOf H s } →
      (addAll H st xs).1 = { len := (s ++ xs).length, roots := rootsOf H (s ++ xs) } := by
  induction xs with
  | nil => intro s st _ h; simpa [addAll] using h
  | cons x rest ih =>
    intro s st hs h
    have hxl : x.length = 32 := hx x (by simp)
    obtain ⟨a1, a2⟩ := addAt_rootsOf H hlen _ s rfl hs x st.2 hxl
    have hstep : (st.1.add H st.2 x).1 = { len := (s ++ [x]).length, roots := rootsOf H (s ++ [x]) } := by
      simp only [Acc.add, h, a2, if_true, a1]; simp
    have := ih (fun y hy => hx y (by simp [hy])) (s ++ [x])
      ((st.1.add H st.2 x).1, (st.1.add H st.2 x).2.1) (hs.append (All32.single hxl)) hstep
    simp only [addAll, List.foldl_cons] at this ⊢
    simpa [List.append_assoc] using this

/-- **C28 (the header is determined by the sequence alone).** After `Add`ing any sequence `xs`
    of 32-byte hashes to the empty accumulator (any tree bucket), both `GetMerkleHeader` and
    `Finalize` (on any bucket state) return `⟨batch xs, |xs|⟩`, where `batch` is the batch
    definition of the hexary merkle root: a single hash is its own root, otherwise hash every
    group of 16 consecutive hashes (the last group may be shorter) and repeat on the next level;
    no root for the empty sequence. Any `H` with 32 byte output; no collision assumption. -/
theorem header_is_function_of_sequence (H : Bytes → Bytes) (hlen : ∀ x, (H x).length = 32)
    (xs : List Bytes) (hx : All32 xs) (db db2 : DB) :
    let a := (addAll H ({}, db) xs).1
    a.header H = some ⟨batch H xs, xs.length⟩ ∧
    ∃ db', a.finalize H db2 = some (⟨batch H xs, xs.length⟩, db') := by
  intro a
  have ha : a = { len := xs.length, roots := rootsOf H xs } := by
    have := addAll_state H hlen xs hx [] ({}, db) All32.nil (by simp [rootsOf_nil])
    simpa using this
  obtain ⟨d1, h1⟩ := carryFold_rootsOf H hlen false _ xs rfl hx none [] (by simp)
  obtain ⟨d2, h2⟩ := carryFold_rootsOf H hlen true _ xs rfl hx none db2 (by simp)
  simp only [Option.toList_none, List.append_nil] at h1 h2
  constructor
  · simp only [Acc.header, ha, h1]; rfl
  · exact ⟨d2, by simp only [Acc.finalize, ha, h2]; rfl⟩

theorem addAll_written (H : Bytes → Bytes) (hlen : ∀ x, (H x).length = 32)
    (xs : List Bytes) (hx : All32 xs) :
    ∀ (s : List Bytes) (st : Acc × DB), All32 s → st.1 = { len := s.length, roots := rootsOf H s } →
      AllOk H st.2 → FW H (Vals st.2) s →
      AllOk H (addAll H st xs).2 ∧ FW H (Vals (addAll H st xs).2) (s ++ xs) := by
  induction xs with
  | nil => intro s st _ _ h1 h2; simpa [addAll] using ⟨h1, h2⟩
  | cons x rest ih =>
    intro s st hs h hok hfw
    have hxl : x.length = 32 := hx x (by simp)
    obtain ⟨a1, a2⟩ := addAt_rootsOf H hlen _ s rfl hs x st.2 hxl
    obtain ⟨w1, _, w3⟩ := addAt_written H hlen _ s rfl hs x st.2 hxl hok
    have hstep : (st.1.add H st.2 x).1 = { len := (s ++ [x]).length, roots := rootsOf H (s ++ [x]) } := by
      simp only [Acc.add, h, a2, if_true, a1]; simp
    have hdb : (st.1.add H st.2 x).2.1 = (addAt H (rootsOf H s) x st.2).2.1 := by
      simp only [Acc.add, h]; split <;> rfl
    have := ih (fun y hy => hx y (by simp [hy])) (s ++ [x])
      ((st.1.add H st.2 x).1, (st.1.add H st.2 x).2.1) (hs.append (All32.single hxl)) hstep
      (by rw [hdb]; exact w1) (by rw [hdb]; exact w3 hfw)
    simp only [addAll, List.foldl_cons] at this ⊢
    simpa [List.append_assoc] using this

/-- after `Add`ing `xs` to the empty accumulator over a content-addressed bucket: the state is the
    closed-form state of `xs`, the bucket is still content addressed and holds every complete
    group of every level -/
theorem addAll_facts (H : Bytes → Bytes) (hlen : ∀ x, (H x).length = 32)
    (xs : List Bytes) (hx : All32 xs) (db0 : DB) (hdb0 : AllOk H db0) :
    (addAll H ({}, db0) xs).1 = { len := xs.length, roots := rootsOf H xs } ∧
    AllOk H (addAll H ({}, db0) xs).2 ∧ FW H (Vals (addAll H ({}, db0) xs).2) xs := by
  have hstate := addAll_state H hlen xs hx [] ({}, db0) All32.nil (by simp [rootsOf_nil])
  obtain ⟨hok1, hfw1⟩ := addAll_written H hlen xs hx [] ({}, db0) All32.nil (by simp [rootsOf_nil])
    hdb0 (FW.nil H _)
  simp only [List.nil_append] at hstate hfw1
  exact ⟨hstate, hok1, hfw1⟩

/-- **C28 (every added hash has a proof that the tree accepts).** `Add` any sequence `xs` of
    32-byte hashes to the empty accumulator over a content-addressed bucket `db0` (e.g. the
    empty one). Then `Finalize` succeeds with header `⟨batch xs, |xs|⟩`, and if the resulting
    tree bucket holds no two different values with the same hash (`NoCollVals`: an explicit
    finite list — otherwise a collision of `H` is exhibited in the bucket), then for every
    `key < |xs|`: `NewMerkleTree` on that bucket succeeds, `Prove(key, 0)` returns a proof, and a
    verifier tree with the same header on *any* bucket accepts that proof for `xs[key]`. -/
theorem proof_accepted (H : Bytes → Bytes) (hlen : ∀ x, (H x).length = 32)
    (xs : List Bytes) (hx : All32 xs) (db0 : DB) (hdb0 : AllOk H db0)
    (key : Nat) (hkey : key < xs.length) :
    ∃ db', (addAll H ({}, db0) xs).1.finalize H (addAll H ({}, db0) xs).2
        = some (⟨batch H xs, xs.length⟩, db') ∧
      (NoCollVals H db' →
        ∃ pt, newTree db' ⟨batch H xs, xs.length⟩ = some pt ∧
          ∀ vdb, ∃ vt p, newTree vdb ⟨batch H xs, xs.length⟩ = some vt ∧
            pt.prove key 0 = .ok p ∧ (vt.add H key (xs.getD key []) p).2 = .ok) := by
  obtain ⟨hstate, hok1, hfw1⟩ := addAll_facts H hlen xs hx db0 hdb0
  obtain ⟨db', hfin, hok', hrest⟩ := finalize_prove H hlen xs hx _ hok1 hfw1
  refine ⟨db', by rw [hstate]; exact hfin, ?_⟩
  intro hnc
  obtain ⟨r, hr, _, hnew, hprove'⟩ := hrest hnc (by omega)
  have hprove := hprove' key hkey
  refine ⟨_, hnew db', ?_⟩
  intro vdb
  refine ⟨_, _, hnew vdb, hprove, ?_⟩
  have hacc := accept_of_prove H vdb key ⟨batch H xs, xs.length⟩ db' _ _ _ hok'.dbok (hnew db') (hnew vdb) hprove
  -- the hash found at the end of the proof is xs[key]
  have hleaf : (nodeGet (lastNode r (pathNodes H xs key (levelFromLen xs.length))) (key % 16)).getD []
      = xs.getD key [] := by
    have hlast : lastNode r (pathNodes H xs key (levelFromLen xs.length)) = node xs (key / 16) := by
      unfold lastNode
      cases hL : levelFromLen xs.length with
      | zero =>
        simp only [pathNodes, List.getLast?_nil, Option.getD_none]
        rw [hL] at hr
        simp only [T] at hr
        have : key = 0 := by rw [hr] at hkey; simpa using hkey
        subst this
        rw [hr]; simp [node, chunk]
      | succ m => rw [pathNodes_last]; rfl
    rw [hlast, node_get hx key]
    simp [List.getD_eq_getElem?_getD]
  simp only at hacc
  rw [hleaf] at hacc
  exact hacc

/-- non-vacuity of the hypotheses of `header_is_function_of_sequence` / `proof_accepted`: a hash
    with 32 byte output, two 32-byte leaves, and the finalised bucket holds no collision -/
example : ∃ (H : Bytes → Bytes) (xs : List Bytes),
    (∀ x, (H x).length = 32) ∧ All32 xs ∧ AllOk H ([] : DB) ∧ 1 < xs.length ∧
    ∃ hd db', (addAll H ({}, []) xs).1.finalize H (addAll H ({}, []) xs).2 = some (hd, db') ∧
      NoCollVals H db' :=
  ⟨fun x => (x.reverse ++ List.replicate 32 0).take 32,
   [List.replicate 32 1, List.replicate 32 2],
   by intro x; simp, by intro x hx; simp at hx; rcases hx with h | h <;> simp [h],
   AllOk.nil _, by simp,
   ⟨some (List.replicate 32 2), 2⟩,
   [(List.replicate 32 2, List.replicate 32 1 ++ List.replicate 32 2)],
   by decide, by unfold NoCollVals; decide⟩

/-- **C28 (`SetLen`, the branches without a proof).** `SetLen l` with `l > Len` is an error and
    changes nothing; `SetLen 0` gives the empty accumulator (the state of accumulating nothing,
    header `⟨nil, 0⟩`); `SetLen Len` changes nothing. None of them writes the accumulator bucket. -/
theorem setLen_edge_cases (H : Bytes → Bytes) (a : Acc) (db : DB) :
    (∀ l, a.len < l → a.setLen H db l = (a, db, false, .err)) ∧
    a.setLen H db 0 = ({ len := 0, roots := [] }, db, false, .ok) ∧
    (a.len ≠ 0 → a.setLen H db a.len = (a, db, false, .ok)) := by
  refine ⟨?_, ?_, ?_⟩
  · intro l hl; simp [Acc.setLen, hl]
  · simp [Acc.setLen]
  · intro h; simp [Acc.setLen, h]

/-- **C28 (rewind = prefix), the core lemma of `SetLen`.** Let `t` be any sequence of
    32-byte hashes and `m ≤ |t|`. Take one node per level `i` of the finalised tree of `t`, bottom
    level first, for as many levels as `m` has base-16 digits — at level `i` the node in which
    the prefix still has something pending (group `⌊m/16^i⌋/16`, which is the group on the path
    to key `m-1`; any node when digit `i` of `m` is 0) — and cut node `i` to digit `i` of `m`
    (`truncRoots`, the loop at the end of `SetLen`). The result is exactly `rootsOf (t.take m)`,
    the roots `Add` builds for the first `m` hashes (`addAll_state`). `setLen_eq_prefix` below
    connects this to `SetLen` itself. -/
theorem setLen_core_truncated_path_is_prefix_roots (H : Bytes → Bytes) (hlen : ∀ x, (H x).length = 32)
    (t : List Bytes) (ht : All32 t) (m : Nat) (hm : m ≤ t.length)
    (ns : List Bytes) (js : List Nat) (hd : ns.length = hexDigits m) (hjs : js.length = ns.length)
    (hns : ∀ i (hi : i < ns.length), ns[i] = node (T H t i) (js.getD i 0) ∧
      ((m / 16 ^ i) % 16 ≠ 0 → js.getD i 0 = m / 16 ^ i / 16)) :
    truncRoots ns m = some (rootsOf H (t.take m)) :=
  truncRoots_path H hlen ns t m js ht hm hd hjs hns

/-- **C28 (rewind = prefix).** `Add` any sequence `xs` of 32-byte hashes (fewer than `2^63`: Go
    `int64` lengths — the model's `powerOf16` loop has 16 nibbles of fuel like the `uint64` loop)
    to the empty accumulator over a content-addressed bucket `db0`, then call `SetLen l` with
    `0 < l < |xs|`. `Finalize` (the first thing `SetLen` does) succeeds with header
    `⟨batch xs, |xs|⟩`, and if the finalised tree bucket holds no two different values with the
    same hash (`NoCollVals`, as in `proof_accepted`), then `SetLen l` returns `.ok`, writes the
    accumulator data, and the new accumulator is exactly the accumulator obtained by `Add`ing only
    the first `l` hashes; in particular its header is `⟨batch (xs.take l), l⟩`. (The other
    arguments of `SetLen` are `setLen_edge_cases`.) -/
theorem setLen_eq_prefix (H : Bytes → Bytes) (hlen : ∀ x, (H x).length = 32)
    (xs : List Bytes) (hx : All32 xs) (db0 : DB) (hdb0 : AllOk H db0)
    (hbound : xs.length < 2 ^ 63) (l : Nat) (hl0 : 0 < l) (hl : l < xs.length) :
    ∃ db', (addAll H ({}, db0) xs).1.finalize H (addAll H ({}, db0) xs).2
        = some (⟨batch H xs, xs.length⟩, db') ∧
      (NoCollVals H db' →
        (addAll H ({}, db0) xs).1.setLen H (addAll H ({}, db0) xs).2 l
          = ({ len := l, roots := rootsOf H (xs.take l) }, db', true, .ok) ∧
        ({ len := l, roots := rootsOf H (xs.take l) } : Acc) = (addAll H ({}, db0) (xs.take l)).1 ∧
        ({ len := l, roots := rootsOf H (xs.take l) } : Acc).header H
          = some ⟨batch H (xs.take l), l⟩) := by
  obtain ⟨hstate, hok1, hfw1⟩ := addAll_facts H hlen xs hx db0 hdb0
  obtain ⟨db', hfin, hset⟩ := setLen_state H hlen xs hx _ hok1 hfw1 hbound l hl0 hl
  refine ⟨db', by rw [hstate]; exact hfin, ?_⟩
  intro hnc
  have hlt : (xs.take l).length = l := by simp [Nat.min_eq_left (Nat.le_of_lt hl)]
  have hxt : All32 (xs.take l) := hx.take l
  have hpre : (addAll H ({}, db0) (xs.take l)).1 = { len := l, roots := rootsOf H (xs.take l) } := by
    have := (addAll_facts H hlen (xs.take l) hxt db0 hdb0).1
    rw [hlt] at this; exact this
  refine ⟨by rw [hstate]; exact hset hnc, hpre.symm, ?_⟩
  have := (header_is_function_of_sequence H hlen (xs.take l) hxt db0 db0).1
  rw [hpre, hlt] at this
  exact this

/-- non-vacuity of `setLen_eq_prefix`, and a test of its conclusion: three 32-byte leaves, rewind
    to 2; the hypotheses hold and `SetLen 2` gives the state of accumulating the first two -/
example : ∃ (H : Bytes → Bytes) (xs : List Bytes) (l : Nat),
    (∀ x, (H x).length = 32) ∧ All32 xs ∧ AllOk H ([] : DB) ∧ xs.length < 2 ^ 63 ∧ 0 < l ∧ l < xs.length ∧
    ∃ hd db', (addAll H ({}, []) xs).1.finalize H (addAll H ({}, []) xs).2 = some (hd, db') ∧
      NoCollVals H db' ∧
      (addAll H ({}, []) xs).1.setLen H (addAll H ({}, []) xs).2 l
        = ((addAll H ({}, []) (xs.take l)).1, db', true, .ok) :=
  ⟨fun x => (x.reverse ++ List.replicate 32 0).take 32,
   [List.replicate 32 1, List.replicate 32 2, List.replicate 32 3], 2,
   by intro x; simp, by intro x hx; simp at hx; rcases hx with h | h | h <;> simp [h],
   AllOk.nil _, by decide, by decide, by decide,
   ⟨some (List.replicate 32 3), 3⟩,
   [(List.replicate 32 3, List.replicate 32 1 ++ List.replicate 32 2 ++ List.replicate 32 3)],
   by decide, by unfold NoCollVals; decide, by decide⟩

/-- `GetMerkleHeader` and `Finalize` report the same header for any accumulator state, and it
    depends only on `(Len, Roots)` — not on the tree bucket or on earlier finalisations. -/
theorem header_eq_finalize (H : Bytes → Bytes) (a : Acc) (db : DB) :
    a.header H = (a.finalize H db).map Prod.fst := by
  unfold Acc.header Acc.finalize
  have := carryFold_carry_eq H a.roots none [] db
  cases h1 : carryFold H false a.roots none [] <;> cases h2 : carryFold H true a.roots none db <;>
    simp [h1, h2] at this ⊢
  exact this

/-- **C28 (`LevelFromLen` bit expression).** `(bits.Len64(n-1)+3)/4` is the height of the
    smallest 16-ary tree with at least `n` leaves: `16^(L-1) < n ≤ 16^L`. -/
theorem levelFromLen_is_tree_height (n : Nat) (hn : 0 < n) :
    n ≤ 16 ^ levelFromLen n ∧ (1 < n → 16 ^ (levelFromLen n - 1) < n) :=
  levelFromLen_spec n hn

/-- **F11, code as found**: a proof one element longer than the tree is high, whose tail
    verifies, makes `Add` dereference a nil `*node` (panic) instead of rejecting; the repaired
    code rejects it. (level 0 tree over one leaf; any `H`.) -/
theorem old_add_overlong_panics (H : Bytes → Bytes) (leaf junk : Bytes) (hl : leaf.length = 32) :
    let t : Tree := { db := [], level := 0, root := leaf, cap := 1 }
    (t.addOld H 0 leaf [junk]).2 = .panic ∧ (t.add H 0 leaf [junk]).2 = .verr := by
  have hm : minProofLen 0 0 = 0 := by decide
  have hg : (nodeGet leaf 0).getD [] = leaf := by
    have h1 : List.take 32 leaf = leaf := List.take_of_length_le (by omega)
    simp [nodeGet, nodeLen, hl, hashLen, h1]
  simp [Tree.addOld, Tree.add, Tree.addCore, hm, addLoop, hg]

end Goloop.C28
