/-
  Props/C02 — "A correct validator never equivocates, even across crashes; everything broadcast is
  durably remembered before it is sent".

  Full statements (DESIGN §6 C02), NOT proved yet for the transcribed machine (Model/C01):
    no_equivocation     : for every event sequence with `crash cut k` / `start` anywhere,
                          `sentOf (run s0 evs).eff` contains no two votes with equal (type,h,r) and
                          different value, and no two different proposals with equal (h,r);
    durable_before_send : for every prefix p of `(run s0 evs).eff`, every message in `sentOf p` is in
                          `walDurable .round p`.
  Proved here: the restart half of the argument (`restart_dominates_own_votes_partial`): for ANY
  durable round-WAL content, applyRoundWAL restores a (round, step) at or after every own vote in it,
  and never moves backwards while replaying.  Both full statements are evaluated as oracles on the
  real engine on every generated history (crashes between events and inside events).
-/
import Goloop.Proofs.C01G1
namespace Goloop.C02.Props
open Goloop.C01

/-- **No equivocation while running** (partial for C02: crash/restart not covered, proposals not
    covered).  For every crash-free event sequence — any interleaving of proposals, block parts, votes
    of the others (equivocating ones included), timeouts and delayed BlockManager callbacks — two votes
    the validator signed for the same (height, round, type) are the same vote. -/
theorem no_equivocation_nocrash_partial (n me : Nat) (evs : List Event) (hn : ∀ e ∈ evs, e.noCrash)
    (v w : VoteRec)
    (hv : Msg.vote v ∈ sentOf (run (start { n := n, me := me }) evs).eff)
    (hw : Msg.vote w ∈ sentOf (run (start { n := n, me := me }) evs).eff)
    (hh : v.height = w.height) (hr : v.round = w.round) (ht : v.typ = w.typ) : v = w :=
  pairwise_msgLt_unique (run_core _ evs hn (ev_start_fresh _ rfl rfl)).inc hv hw
    (by unfold voteKey; rw [hh, hr, ht])

/-- **Restart dominates own votes** (partial for C02 `no_equivocation`).  `W` is whatever survived in
    the round WAL — any list of records, i.e. any crash point and any number of surviving unsynced
    records; `s` is the fresh state `Start` builds (any state with the node's identity).  Every own
    vote of the current height in `W` is dominated, in (round, step) order, by what `applyRoundWAL`
    restores; so the `Start` dispatch (stepPrevote / stepPrecommit: no re-entry of that step) cannot
    sign a second vote for that (height, round, type). -/
theorem restart_dominates_own_votes_partial (s : S) (W : List Rec) (v : VoteRec)
    (hv : Rec.msg (.vote v) ∈ W) (hh : v.height = s.height) (hm : v.signer = s.me) (hn : s.me < s.n) :
    le2 (v.round, mstepOf v.typ) ((applyRoundWAL s W).round, (applyRoundWAL s W).step) :=
  applyRoundWAL_dominates s W v hv hh hm hn

/-- replaying the round WAL never moves (round, step) backwards and keeps height / identity -/
theorem replay_monotone (s : S) (W : List Rec) :
    sameId s (applyRoundWAL s W) ∧
    le2 (s.round, s.step) ((applyRoundWAL s W).round, (applyRoundWAL s W).step) :=
  applyRoundWAL_keep s W

/-- non-vacuity: a WAL with an own prevote and an own precommit of round 2 restores (2, precommit) -/
example :
    let s : S := { n := 4, me := 0, height := 1 }
    let W : List Rec := [.msg (.vote ⟨0, 1, .prevote, 2, some 9⟩), .voteList [⟨1, 1, .prevote, 2, some 9⟩],
                         .msg (.vote ⟨0, 1, .precommit, 2, some 9⟩)]
    ((applyRoundWAL s W).round, (applyRoundWAL s W).step) = (2, stPrecommit) := by decide

end Goloop.C02.Props
