/-
  Props/C02 — "A correct validator never equivocates, even across crashes; everything broadcast is
  durably remembered before it is sent".

  The machine is Model/C01 (transcribed from consensus.go).  A history is ANY list of events:
  proposals, block parts, votes of anybody (equivocating ones included), timeouts, BlockManager
  callbacks delayed arbitrarily, `crash cut k` and `start` anywhere.  `crash cut k` kills the process
  at effect boundary `cut` of the trace (everything after it never happened: any point between / inside
  the WAL write, the WAL sync and the send of sendVote / sendProposal) and lets `k` unsynced records
  of every WAL survive (any prefix of the unsynced records: a torn last record is cut off by the
  reader — C03 `recover_prefix`).  `start` is the code's applyRoundWAL + applyLockWAL + applyCommitWAL
  + Start dispatch on whatever survived.
-/
import Goloop.Proofs.C02Restart
namespace Goloop.C02.Props
open Goloop.C01

/-- **No vote equivocation, crashes and restarts anywhere.**  Over the whole history two votes the
    validator signed for the same (height, round, type) are the same vote. -/
theorem no_equivocation_votes (n me : Nat) (evs : List Event) (v w : VoteRec)
    (hv : Msg.vote v ∈ sentOf (run { n := n, me := me } evs).eff)
    (hw : Msg.vote w ∈ sentOf (run { n := n, me := me } evs).eff)
    (hh : v.height = w.height) (hr : v.round = w.round) (ht : v.typ = w.typ) : v = w :=
  pairwise_msgLt_unique (run_inv _ evs (inv_init me n)).inc hv hw (by unfold voteKey; rw [hh, hr, ht])

/-- **No proposal equivocation, crashes and restarts anywhere.**  Two proposals the validator signed for
    the same (height, round) are the same proposal (same block, same POL round). -/
theorem no_equivocation_proposals (n me : Nat) (evs : List Event)
    (sg sg' h r b b' : Nat) (pol pol' : Int)
    (h1 : Msg.proposal sg h r b pol ∈ sentOf (run { n := n, me := me } evs).eff)
    (h2 : Msg.proposal sg' h r b' pol' ∈ sentOf (run { n := n, me := me } evs).eff) :
    b = b' ∧ pol = pol' ∧ sg = sg' := by
  have := pairwise_msgLt_unique_msg (run_inv _ evs (inv_init me n)).inc h1 h2 rfl
  cases this
  exact ⟨rfl, rfl, rfl⟩

/-- **C02, first sentence (full).**  For every history — any interleaving of proposals, block parts,
    votes, timeouts, delayed BlockManager callbacks, with `crash cut k` at ANY effect boundary and any
    number `k` of surviving unsynced WAL records, and `start` (WAL replay + Start dispatch) anywhere —
    the validator never signs two different votes of one type for one (height, round) and never two
    different proposals for one (height, round).  Moreover all its signed messages are signed in
    strictly increasing (height, round, step) order. -/
theorem no_equivocation (n me : Nat) (evs : List Event) :
    (∀ v w, Msg.vote v ∈ sentOf (run { n := n, me := me } evs).eff →
        Msg.vote w ∈ sentOf (run { n := n, me := me } evs).eff →
        v.height = w.height → v.round = w.round → v.typ = w.typ → v = w) ∧
    (∀ a b, a ∈ sentOf (run { n := n, me := me } evs).eff → b ∈ sentOf (run { n := n, me := me } evs).eff →
        msgKey a = msgKey b → a = b) ∧
    (sentOf (run { n := n, me := me } evs).eff).Pairwise msgLt :=
  ⟨fun v w hv hw hh hr ht => no_equivocation_votes n me evs v w hv hw hh hr ht,
   fun _ _ ha hb hk => pairwise_msgLt_unique_msg (run_inv _ evs (inv_init me n)).inc ha hb hk,
   (run_inv _ evs (inv_init me n)).inc⟩

/-- **Durable before send, at every effect boundary.**  For every history and every prefix `p` of the
    effect trace (= every possible crash point), each signed message handed to the network within that
    prefix is in the SYNCED part of the round WAL of that prefix. -/
theorem durable_before_send (n me : Nat) (evs : List Event) (p : Nat) (m : Msg)
    (hm : m ∈ sentOf ((run { n := n, me := me } evs).eff.take p)) :
    Rec.msg m ∈ walDurable .round ((run { n := n, me := me } evs).eff.take p) :=
  (run_inv _ evs (inv_init me n)).tr.dbs p m hm

/-- the validator signs votes only for heights up to one above its last finalized block, at every
    effect boundary, and only with its own index -/
theorem votes_height_bound (n me : Nat) (evs : List Event) (p : Nat) (v : VoteRec)
    (hv : Msg.vote v ∈ sentOf ((run { n := n, me := me } evs).eff.take p)) :
    msgHeight (.vote v) ≤ lastFinalizedHeight ((run { n := n, me := me } evs).eff.take p) + 1 :=
  (run_inv _ evs (inv_init me n)).tr.hb p _ hv

/-- **Restart dominates own votes.**  `W` is whatever survived in the round WAL — any list of records.
    Every own vote of the current height in `W` is dominated, in (round, step) order, by what
    `applyRoundWAL` restores. -/
theorem restart_dominates_own_votes (s : S) (W : List Rec) (v : VoteRec)
    (hv : Rec.msg (.vote v) ∈ W) (hh : v.height = s.height) (hm : v.signer = s.me) (hn : s.me < s.n) :
    le2 (v.round, mstepOf v.typ) ((applyRoundWAL s W).round, (applyRoundWAL s W).step) :=
  applyRoundWAL_dominates s W v hv hh hm hn

/-- replaying the round WAL never moves (round, step) backwards and keeps height / identity -/
theorem replay_monotone (s : S) (W : List Rec) :
    sameId s (applyRoundWAL s W) ∧
    le2 (s.round, s.step) ((applyRoundWAL s W).round, (applyRoundWAL s W).step) :=
  applyRoundWAL_keep s W

/-- non-vacuity: a history with a crash in the middle of an event (cut inside sendVote: the WAL write
    and sync happened, the send did not) and a restart; the restarted validator does not sign the
    prevote again -/
example :
    let evs : List Event := [.start, .proposal 1 1 0 9 (-1), .blockPart 1 9, .async, .crash 2 0, .start,
      .timeout 3, .timeout 5]
    sentOf (run { n := 4, me := 0 } evs).eff = [] ∧ (run { n := 4, me := 0 } evs).step = stPrevote := by
  decide +kernel

example :
    let s : S := { n := 4, me := 0, height := 1 }
    let W : List Rec := [.msg (.vote ⟨0, 1, .prevote, 2, some 9⟩), .voteList [⟨1, 1, .prevote, 2, some 9⟩],
                         .msg (.vote ⟨0, 1, .precommit, 2, some 9⟩)]
    ((applyRoundWAL s W).round, (applyRoundWAL s W).step) = (2, stPrecommit) := by decide

end Goloop.C02.Props
