/-
  Props/C06 — "Double-sign evidence is accepted only for genuine conflicts".

  `voteConflict` / `propConflict` / `conflict` are `dsVote.IsConflictWith`,
  `dsProposal.IsConflictWith` and the call through `module.DoubleSignData`
  (Model/C06.lean, describing the code with fix F3 applied).  "Contents differ"
  is inequality of the signed fields; the code compares SHA3 hashes of their
  encoding, the `_hash` variants make the collision-freeness assumption explicit.
-/
import Goloop.Proofs.C06
namespace Goloop.C06

/-- `matchNID`: same network, or one side unspecified. -/
theorem matchNID_exact (a b : Nat) : matchNID a b = true ↔ (a = 0 ∨ b = 0 ∨ a = b) :=
  Proofs.matchNID_iff a b

/-- Two votes are double-sign evidence exactly when: same signer, height, round, type,
    compatible networks, and different signed contents. -/
theorem vote_conflict_iff (v v2 : Vote) :
    voteConflict v v2 = true ↔
      v.signer = v2.signer ∧ v.c.h = v2.c.h ∧ v.c.r = v2.c.r ∧ v.c.t = v2.c.t ∧
      (v.c.nid = 0 ∨ v2.c.nid = 0 ∨ v.c.nid = v2.c.nid) ∧ v.c ≠ v2.c :=
  Proofs.voteConflict_iff v v2

/-- The same with the message hash the code compares, for any collision-free hash of the contents. -/
theorem vote_conflict_iff_hash {D : Type} (H : VoteC → D) (hinj : ∀ a b, H a = H b → a = b) (v v2 : Vote) :
    voteConflict v v2 = true ↔
      v.signer = v2.signer ∧ v.c.h = v2.c.h ∧ v.c.r = v2.c.r ∧ v.c.t = v2.c.t ∧
      (v.c.nid = 0 ∨ v2.c.nid = 0 ∨ v.c.nid = v2.c.nid) ∧ H v.c ≠ H v2.c := by
  rw [vote_conflict_iff]
  have : H v.c ≠ H v2.c ↔ v.c ≠ v2.c := ⟨fun h e => h (e ▸ rfl), fun h e => h (hinj _ _ e)⟩
  rw [this]

example : ∃ (H : VoteC → VoteC), ∀ a b, H a = H b → a = b := ⟨id, fun _ _ h => h⟩

/-- Proposals: same signer, height, round, compatible networks, different contents. -/
theorem proposal_conflict_iff (d d2 : Proposal) :
    propConflict d d2 = true ↔
      d.signer = d2.signer ∧ d.c.h = d2.c.h ∧ d.c.r = d2.c.r ∧
      (d.c.nid = 0 ∨ d2.c.nid = 0 ∨ d.c.nid = d2.c.nid) ∧ d.c ≠ d2.c :=
  Proofs.propConflict_iff d d2

/-- A message never conflicts with itself (identical messages are not evidence). -/
theorem conflict_irrefl (x : DS) : conflict x x = false := by
  cases x with
  | vote v =>
    cases h : voteConflict v v with
    | false => simpa [conflict] using h
    | true => exact absurd rfl ((vote_conflict_iff v v).1 h).2.2.2.2.2
  | prop p =>
    cases h : propConflict p p with
    | false => simpa [conflict] using h
    | true => exact absurd rfl ((proposal_conflict_iff p p).1 h).2.2.2.2

/-- Messages of two different (specified) networks are never evidence. -/
theorem conflict_never_across_networks (x y : DS)
    (hx : x.nid ≠ 0) (hy : y.nid ≠ 0) (hne : x.nid ≠ y.nid) : conflict x y = false := by
  cases x <;> cases y <;> simp only [conflict]
  · rename_i v v2
    cases h : voteConflict v v2 with
    | false => rfl
    | true =>
      rcases ((vote_conflict_iff v v2).1 h).2.2.2.2.1 with h | h | h
      · exact absurd h hx
      · exact absurd h hy
      · exact absurd h hne
  · rename_i p p2
    cases h : propConflict p p2 with
    | false => rfl
    | true =>
      rcases ((proposal_conflict_iff p p2).1 h).2.2.2.1 with h | h | h
      · exact absurd h hx
      · exact absurd h hy
      · exact absurd h hne

example : (DS.vote ⟨1, ⟨5, 0, 1, false, 1, 3, 3, 100, 0⟩, 0⟩).nid ≠ 0 ∧
    (DS.vote ⟨1, ⟨5, 0, 1, false, 2, 3, 3, 100, 0⟩, 0⟩).nid ≠ 0 := by decide

/-- A vote and a proposal are never evidence against each other. -/
theorem conflict_cross_kind (v : Vote) (p : Proposal) :
    conflict (DS.vote v) (DS.prop p) = false ∧ conflict (DS.prop p) (DS.vote v) = false := ⟨rfl, rfl⟩

/-- The predicate is symmetric: the order in which two messages are presented does not matter. -/
theorem conflict_symm (x y : DS) : conflict x y = conflict y x := by
  cases x <;> cases y <;> simp only [conflict]
  · rename_i v v2
    rw [Bool.eq_iff_iff, vote_conflict_iff, vote_conflict_iff]
    constructor <;> (rintro ⟨a, b, c, d, e, f⟩; exact ⟨a.symm, b.symm, c.symm, d.symm, by omega, fun h => f h.symm⟩)
  · rename_i p p2
    rw [Bool.eq_iff_iff, proposal_conflict_iff, proposal_conflict_iff]
    constructor <;> (rintro ⟨a, b, c, e, f⟩; exact ⟨a.symm, b.symm, c.symm, by omega, fun h => f h.symm⟩)

/-- F3 (code before the fix, `nid2` read from `v` instead of `v2`): two votes of the different
    networks 1 and 2 were reported as double sign. -/
theorem f3_witness : ∃ v v2 : Vote, v.c.nid ≠ 0 ∧ v2.c.nid ≠ 0 ∧ v.c.nid ≠ v2.c.nid ∧
    voteConflictF3 v v2 = true ∧ voteConflict v v2 = false :=
  ⟨⟨1, ⟨5, 0, 1, false, 1, 3, 3, 100, 0⟩, 0⟩, ⟨1, ⟨5, 0, 1, false, 2, 3, 3, 100, 0⟩, 0⟩, by decide⟩

/-- `dsmLog`: whatever sequence of messages is logged, every reported pair is a genuine conflict
    (hence, by the theorems above: same signer, height, round, type, compatible networks,
    different contents) between a message logged earlier and the message being logged. -/
theorem dsmLog_reports_only_conflicts (msgs : List DS) :
    ∀ r ∈ runLog [] msgs, conflict r.1 r.2 = true ∧ r.1 ∈ msgs ∧ r.2 ∈ msgs := by
  intro r hr
  obtain ⟨h1, h2, h3⟩ := Proofs.runLog_spec msgs [] [] (by simp) r hr
  exact ⟨h1, by simpa using h2, h3⟩

example : runLog [] [DS.vote ⟨1, ⟨5, 0, 1, false, 1, 3, 3, 100, 0⟩, 0⟩, DS.vote ⟨1, ⟨5, 0, 1, false, 1, 4, 3, 100, 0⟩, 0⟩] ≠ [] := by
  decide


/-! ### the evidence acceptance path (report transaction → PreValidate → DSR handler)

`accepted r e`: `doubleSignReportTx.Verify` and `PreValidate` pass and `DSRHandler.DoExecuteSync`
succeeds (Model/C06.lean; handler with fix F15).  Reading of the property's network clause: "same
network (or unspecified)" is the agreement of the two messages' network ids with each other
(`conflict`); the code does not compare them with the chain's own id (`ValidateNetwork` of votes
and proposals is constantly true), so evidence whose two items both carry a foreign network id
is accepted — recorded as an observation, not as a violation. -/

/-- Exactly when a report transaction is accepted. -/
theorem report_accepted_iff (r : Report) (e : Env) :
    accepted r e = true ↔
      r.hasData = true ∧ r.sender = From.none ∧ e.revOn = true ∧ e.callOk = true ∧
      ∃ i1 i2 d1 d2 c,
        r.items = [i1, i2] ∧ r.ord ≠ 2 ∧ r.tag ≠ Tag.other ∧
        decodeItem r.tag i1 = some d1 ∧ decodeItem r.tag i2 = some d2 ∧ r.ctx = some c ∧
        conflict d1 d2 = true ∧ d1.signer ∈ c ∧ d1.height ≤ e.blockHeight ∧
        histGet e.history (d1.height - 2) = some c := by
  unfold accepted
  simp only [Bool.and_eq_true, beq_iff_eq]
  rw [Proofs.preValidate_ok_iff, Proofs.handler_ok_iff]
  constructor
  · rintro ⟨⟨hv, hrev, hs, _⟩, _, hcall, d1, d2, c, hd, hc, hle, hin, hh⟩
    obtain ⟨i1, i2, hit, ho, ht, h1, h2, hctx⟩ := (Proofs.decodeReport_some_iff r d1 d2 c).1 hd
    have hdata : r.hasData = true := by
      unfold verifyTx at hv
      simp only [Bool.and_eq_true] at hv
      exact hv.1.1
    exact ⟨hdata, hs, hrev, hcall, i1, i2, d1, d2, c, hit, ho, ht, h1, h2, hctx, hc, hin, hle, hh⟩
  · rintro ⟨hdata, hs, hrev, hcall, i1, i2, d1, d2, c, hit, ho, ht, h1, h2, hctx, hc, hin, hle, hh⟩
    have hd := (Proofs.decodeReport_some_iff r d1 d2 c).2 ⟨i1, i2, hit, ho, ht, h1, h2, hctx⟩
    refine ⟨⟨?_, hrev, hs, d1, d2, c, hd, hc, hin⟩, hs, hcall, d1, d2, c, hd, hc, hle, hin, hh⟩
    unfold verifyTx
    simp [hdata, hit, hs]

/-- A report is accepted only if its two data items decode, are of one kind, and are a genuine
    conflict (then `vote_conflict_iff` / `proposal_conflict_iff` say what that means), the signer
    is a validator of the context, the evidence is not from a future height, and the context is
    the validator list recorded for height − 2. -/
theorem report_accepted_only_for_conflict (r : Report) (e : Env) (h : accepted r e = true) :
    ∃ i1 i2 d1 d2 c,
      r.items = [i1, i2] ∧ decodeItem r.tag i1 = some d1 ∧ decodeItem r.tag i2 = some d2 ∧
      ((∃ v v2, d1 = DS.vote v ∧ d2 = DS.vote v2) ∨ (∃ p p2, d1 = DS.prop p ∧ d2 = DS.prop p2)) ∧
      conflict d1 d2 = true ∧
      r.ctx = some c ∧ d1.signer ∈ c ∧ d2.signer = d1.signer ∧
      d1.height ≤ e.blockHeight ∧ histGet e.history (d1.height - 2) = some c := by
  obtain ⟨_, _, _, _, i1, i2, d1, d2, c, hit, _, _, h1, h2, hctx, hc, hin, hle, hh⟩ :=
    (report_accepted_iff r e).1 h
  refine ⟨i1, i2, d1, d2, c, hit, h1, h2, Proofs.conflict_same_kind hc, hc, hctx, hin, ?_, hle, hh⟩
  rcases Proofs.conflict_same_kind hc with ⟨v, v2, e1, e2⟩ | ⟨p, p2, e1, e2⟩
  · subst e1 e2
    exact ((vote_conflict_iff v v2).1 (by simpa [conflict] using hc)).1.symm
  · subst e1 e2
    exact ((proposal_conflict_iff p p2).1 (by simpa [conflict] using hc)).1.symm

example : accepted
    { hasData := true, tag := Tag.vote, ord := 0, ctx := some [0, 1, 2], sender := From.none,
      items := [Item.msg (DS.vote ⟨1, ⟨5, 0, 1, false, 1, 3, 3, 100, 0⟩, 0⟩), Item.msg (DS.vote ⟨1, ⟨5, 0, 1, false, 1, 4, 3, 100, 0⟩, 0⟩)] }
    { revOn := true, blockHeight := 9, history := [(2, [0, 1, 2])], callOk := true } = true := by decide

/-- The handler by itself (PreValidate is skipped for already validated transitions) succeeds
    only for a genuine conflict as well — this is what fix F15 restores. -/
theorem handler_succeeds_only_for_conflict (r : Report) (e : Env) (h : handler r e = Hnd.ok) :
    ∃ d1 d2 c, decodeReport r = some (d1, d2, c) ∧ conflict d1 d2 = true ∧ d1.signer ∈ c ∧
      d1.height ≤ e.blockHeight ∧ histGet e.history (d1.height - 2) = some c := by
  obtain ⟨_, _, d1, d2, c, hd, hc, hle, hin, hh⟩ := (Proofs.handler_ok_iff r e).1 h
  exact ⟨d1, d2, c, hd, hc, hin, hle, hh⟩

/-- Identical items are never accepted (they are not a conflict). -/
theorem report_identical_items_rejected (r : Report) (e : Env) (i : Item) (h : r.items = [i, i]) :
    accepted r e = false := by
  cases ha : accepted r e with
  | false => rfl
  | true =>
    obtain ⟨i1, i2, d1, d2, c, hit, h1, h2, _, hc, _⟩ := report_accepted_only_for_conflict r e ha
    rw [h] at hit
    simp only [List.cons.injEq, and_true] at hit
    obtain ⟨e1, e2⟩ := hit
    subst e1 e2
    rw [h1] at h2
    have : d1 = d2 := by simpa using h2
    subst this
    rw [conflict_irrefl] at hc
    cases hc


/-! ### the unsigned part of a vote is irrelevant

A `VoteMessage` also carries NTS vote bases and NTS proof parts (`Vote.u`); the signature covers
only `blockVoteBase` + `Timestamp` (`Vote.c`).  `IsConflictWith` compares the hashes of the signed
payloads, so two messages with the same signed contents are never evidence, whatever their
unsigned parts are — in particular an honest precommit re-sent with another NTS section hash. -/

/-- Votes with identical signed contents never conflict, whatever their unsigned parts. -/
theorem vote_same_signed_contents_no_conflict (v v2 : Vote) (h : v.c = v2.c) : voteConflict v v2 = false := by
  cases hc : voteConflict v v2 with
  | false => rfl
  | true => exact absurd h ((vote_conflict_iff v v2).1 hc).2.2.2.2.2

/-- The verdict does not depend on the unsigned parts at all. -/
theorem vote_conflict_ignores_unsigned (v v2 : Vote) (a b : Nat) :
    voteConflict { v with u := a } { v2 with u := b } = voteConflict v v2 := rfl

/-- Hence dsmLog never reports, and the report path never accepts, a pair with equal signed contents. -/
theorem conflict_implies_signed_contents_differ (v v2 : Vote) (h : conflict (DS.vote v) (DS.vote v2) = true) :
    v.c ≠ v2.c := ((vote_conflict_iff v v2).1 (by simpa [conflict] using h)).2.2.2.2.2

example : voteConflict ⟨1, ⟨5, 0, 1, false, 1, 3, 3, 100, 1⟩, 1⟩ ⟨1, ⟨5, 0, 1, false, 1, 3, 3, 100, 1⟩, 2⟩ = false := by decide

end Goloop.C06
