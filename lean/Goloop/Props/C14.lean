/-
  Props/C14 — "World state snapshots are isolated and the state hash is canonical".
  Model: Model/C14.lean (worldStateImpl / accountStateImpl / snapshots reduced to
  balance + storage, pointer identity of snapshot objects as stamps).
  Spec: `World.abs : Account → Option AcctData`, empty accounts absent.
  A history is any list of operations (`Op`) from the initial state; all theorems
  quantify over every history.  Helper lemmas and the invariant: Proofs/C14.lean.
-/
import Goloop.Proofs.C14
namespace Goloop.C14
open Proofs

/-- reachable = obtained from the initial state by any operation history -/
def Reachable (h : Hist) : Prop := ∃ ops, h = Hist.init.run ops

theorem reachable_inv {h : Hist} (r : Reachable h) : Inv h := by
  obtain ⟨ops, e⟩ := r; subst e; exact run_inv _ ops init_hist_inv

/-! ### every operation commutes with the abstraction -/

/-- GetSnapshot: the snapshot holds exactly the logical content; the world's logical content is unchanged -/
theorem abs_getSnapshot {h : Hist} (r : Reachable h) :
    absWSnap (h.w.getSnapshot).2 = h.w.abs ∧ (h.w.getSnapshot).1.abs = h.w.abs := by
  have hi := reachable_inv r
  constructor <;> funext a
  · exact (flush_abs _ _ hi a).1
  · exact (flush_abs _ _ hi a).2

/-- ClearCache does not change the logical content -/
theorem abs_clearCache {h : Hist} (r : Reachable h) : h.w.clearCache.abs = h.w.abs :=
  funext (clearCache_spec _ _ (reachable_inv r)).1

/-- reads (GetAccountState / GetAccountSnapshot) do not change the logical content, and
    GetAccountSnapshot returns exactly the logical content of the account -/
theorem abs_reads {h : Hist} (r : Reachable h) (a : Nat) :
    (h.w.getAccountState a).1.abs = h.w.abs ∧ (h.w.getAccountSnapshot a).1.abs = h.w.abs ∧
    absSnap (h.w.getAccountSnapshot a).2 = h.w.abs a := by
  have hi := reachable_inv r
  exact ⟨funext (getAccountState_spec _ _ hi a).2.2.1, funext (getAccountSnapshot_spec _ _ hi a).2.1,
    (getAccountSnapshot_spec _ _ hi a).1⟩

/-- SetBalance a v: balance of `a` becomes `v`, its storage and all other accounts are untouched -/
theorem abs_setBalance {h : Hist} (r : Reachable h) (a : Nat) (v : Int) :
    obsBal ((h.w.setBalance a v).abs a) = v ∧
    (∀ k, obsGet ((h.w.setBalance a v).abs a) k = obsGet (h.w.abs a) k) ∧
    ∀ b, b ≠ a → (h.w.setBalance a v).abs b = h.w.abs b := by
  have m := mutate_abs h.w _ (reachable_inv r) a (fun st => st.setBalance v)
  simp only at m
  unfold World.setBalance
  refine ⟨?_, ?_, m.2.2⟩
  · rw [m.1, (obs_absSt _).1]
    unfold AState.setBalance; split
    · rfl
    · rename_i hne; simpa using hne
  · intro k
    rw [m.1, ← m.2.1, (obs_absSt _).2.1, (obs_absSt _).2.1]
    unfold AState.setBalance; split <;> rfl

/-- SetValue a k v (v ≠ 0, i.e. a non-empty value): key `k` of `a` reads `v`; other keys, the
    balance and all other accounts are untouched; the old value is returned -/
theorem abs_setValue {h : Hist} (r : Reachable h) (a k v : Nat) (hv : v ≠ 0) :
    (∀ k', obsGet ((h.w.setValue a k v).1.abs a) k' = if k' = k then some v else obsGet (h.w.abs a) k') ∧
    obsBal ((h.w.setValue a k v).1.abs a) = obsBal (h.w.abs a) ∧
    (∀ b, b ≠ a → (h.w.setValue a k v).1.abs b = h.w.abs b) ∧
    (h.w.setValue a k v).2 = (obsGet (h.w.abs a) k).getD 0 := by
  have m := mutate_abs h.w _ (reachable_inv r) a (fun st => (st.setValue k v).1)
  simp only at m
  unfold World.setValue
  simp only
  have hs : ∀ st : AState, st.setValue k v =
      ({ st with store := some (kvSet (st.store.getD []) k v), last := none }, (kvGet (st.store.getD []) k).getD 0) := by
    intro st; unfold AState.setValue; simp [hv]
  refine ⟨?_, ?_, m.2.2, ?_⟩
  · intro k'
    rw [m.1, ← m.2.1, (obs_absSt _).2.1, (obs_absSt _).2.1, hs]
    exact kvGet_kvSet _ _ _ _
  · rw [m.1, ← m.2.1, (obs_absSt _).1, (obs_absSt _).1, hs]
  · rw [← m.2.1, (obs_absSt _).2.1, hs]

/-- DeleteValue a k (and SetValue with an empty value): key `k` of `a` reads nil afterwards;
    everything else is untouched -/
theorem abs_deleteValue {h : Hist} (r : Reachable h) (a k : Nat) :
    (∀ k', obsGet ((h.w.deleteValue a k).1.abs a) k' = if k' = k then none else obsGet (h.w.abs a) k') ∧
    obsBal ((h.w.deleteValue a k).1.abs a) = obsBal (h.w.abs a) ∧
    (∀ b, b ≠ a → (h.w.deleteValue a k).1.abs b = h.w.abs b) := by
  have m := mutate_abs h.w _ (reachable_inv r) a (fun st => (st.deleteValue k).1)
  simp only at m
  unfold World.deleteValue
  simp only
  refine ⟨?_, ?_, m.2.2⟩
  · intro k'
    rw [m.1, ← m.2.1, (obs_absSt _).2.1, (obs_absSt _).2.1]
    unfold AState.deleteValue
    split
    · rename_i hn; simp [hn, kvGet]
    · rename_i l hl
      split
      · simp only [hl, Option.getD_some]; exact kvGet_kvDel _ _ _
      · rename_i hnone
        simp only [hl, Option.getD_some]
        split
        · rename_i e; rw [e]; exact hnone
        · rfl
  · rw [m.1, ← m.2.1, (obs_absSt _).1, (obs_absSt _).1]
    unfold AState.deleteValue
    split
    · rfl
    · split <;> rfl

/-- what a mutation of the contract part leaves alone: balance, storage, other accounts -/
theorem abs_contract_frame {h : Hist} (r : Reachable h) (a : Nat) (f : AState → AState)
    (hb : ∀ x, (f x).hdr.bal = x.hdr.bal) (hs : ∀ x, (f x).store = x.store) :
    let w' := (h.w.getAccountState a).1.putState a (f (h.w.getAccountState a).2)
    obsBal (w'.abs a) = obsBal (h.w.abs a) ∧ (∀ k, obsGet (w'.abs a) k = obsGet (h.w.abs a) k) ∧
    ∀ b, b ≠ a → w'.abs b = h.w.abs b := by
  have m := mutate_abs h.w _ (reachable_inv r) a f
  simp only at m ⊢
  refine ⟨?_, ?_, m.2.2⟩
  · rw [m.1, ← m.2.1, (obs_absSt _).1, (obs_absSt _).1, hb]
  · intro k; rw [m.1, ← m.2.1, (obs_absSt _).2.1, (obs_absSt _).2.1, hs]

/-- InitContractAccount: the account is a contract afterwards; its current / next contract are
    what they were if it already was one -/
theorem abs_initContract {h : Hist} (r : Reachable h) (a : Nat) :
    obsIsContract ((h.w.initContract a).abs a) = true ∧
    (obsIsContract (h.w.abs a) = true → (h.w.initContract a).abs a = h.w.abs a) := by
  have m := mutate_abs h.w _ (reachable_inv r) a (fun st => st.initContract)
  simp only at m
  unfold World.initContract
  constructor
  · rw [m.1, (obs_absSt _).2.2.1]
    unfold AState.initContract; split
    · rename_i hc; exact hc
    · rfl
  · intro hc
    rw [← m.2.1, (obs_absSt _).2.2.1] at hc
    rw [m.1, ← m.2.1]
    unfold AState.initContract; rw [if_pos hc]

/-- DeployContract(c) on a contract account: the next contract becomes (c, pending); the
    current contract and its object graph stay -/
theorem abs_deployContract {h : Hist} (r : Reachable h) (a c : Nat) (hc : obsIsContract (h.w.abs a) = true) :
    obsNext ((h.w.deployContract a c).abs a) = some (c, false) ∧
    obsCur ((h.w.deployContract a c).abs a) = obsCur (h.w.abs a) ∧
    obsGraph ((h.w.deployContract a c).abs a) = obsGraph (h.w.abs a) ∧
    obsIsContract ((h.w.deployContract a c).abs a) = true := by
  have m := mutate_abs h.w _ (reachable_inv r) a (fun st => st.deployContract c)
  simp only at m
  unfold World.deployContract
  rw [← m.2.1, (obs_absSt _).2.2.1] at hc
  have hs : (h.w.getAccountState a).2.deployContract c =
      { (h.w.getAccountState a).2 with hdr := { (h.w.getAccountState a).2.hdr with next := some (c, false) }, last := none } := by
    unfold AState.deployContract; simp [hc]
  have o1 := (obs_absSt ((h.w.getAccountState a).2.deployContract c))
  have o0 := (obs_absSt (h.w.getAccountState a).2)
  have hc' : ((h.w.getAccountState a).2.deployContract c).hdr.isContract = true := by rw [hs]; exact hc
  rw [m.1, ← m.2.1]
  refine ⟨?_, ?_, ?_, ?_⟩
  · rw [(o1.2.2.2 hc').2.1, hs]
  · rw [(o1.2.2.2 hc').1, (o0.2.2.2 hc).1, hs]
  · rw [(o1.2.2.2 hc').2.2, (o0.2.2.2 hc).2.2, hs]; rfl
  · rw [o1.2.2.1]; exact hc'

/-- AcceptContract(c) with a pending next contract c: it becomes the current contract, the next
    contract is gone; in every other situation (no next, other tx hash, rejected) nothing changes -/
theorem abs_acceptContract {h : Hist} (r : Reachable h) (a c : Nat) :
    (obsIsContract (h.w.abs a) = true → obsNext (h.w.abs a) = some (c, false) →
      (h.w.acceptContract a c).2 = true ∧
      obsCur ((h.w.acceptContract a c).1.abs a) = some c ∧ obsNext ((h.w.acceptContract a c).1.abs a) = none) ∧
    ((h.w.acceptContract a c).2 = false → (h.w.acceptContract a c).1.abs a = h.w.abs a) := by
  have m := mutate_abs h.w _ (reachable_inv r) a (fun st => (st.acceptContract c).1)
  simp only at m
  unfold World.acceptContract
  simp only
  have o0 := (obs_absSt (h.w.getAccountState a).2)
  constructor
  · intro hc hn
    rw [← m.2.1, o0.2.2.1] at hc
    rw [← m.2.1, (o0.2.2.2 hc).2.1] at hn
    have hs : (h.w.getAccountState a).2.acceptContract c =
        ({ (h.w.getAccountState a).2 with hdr := { (h.w.getAccountState a).2.hdr with cur := some c, next := none }, last := none }, true) := by
      unfold AState.acceptContract; rw [hc, hn]; simp
    have o1 := obs_absSt ((h.w.getAccountState a).2.acceptContract c).1
    have hc' : ((h.w.getAccountState a).2.acceptContract c).1.hdr.isContract = true := by rw [hs]; exact hc
    refine ⟨by rw [hs], ?_, ?_⟩
    · rw [m.1, (o1.2.2.2 hc').1, hs]
    · rw [m.1, (o1.2.2.2 hc').2.1, hs]
  · intro hf
    rw [m.1, ← m.2.1]
    have : ((h.w.getAccountState a).2.acceptContract c).1 = (h.w.getAccountState a).2 := by
      unfold AState.acceptContract at hf ⊢
      split at hf
      · split at hf
        · simp_all
        · split at hf
          · simp_all
          · simp at hf
      · simp_all
    rw [this]

/-- RejectContract(c) with a pending next contract c: it stays as the next contract, marked
    rejected; the current contract is untouched; otherwise nothing changes -/
theorem abs_rejectContract {h : Hist} (r : Reachable h) (a c : Nat) :
    (obsIsContract (h.w.abs a) = true → obsNext (h.w.abs a) = some (c, false) →
      (h.w.rejectContract a c).2 = true ∧
      obsNext ((h.w.rejectContract a c).1.abs a) = some (c, true) ∧
      obsCur ((h.w.rejectContract a c).1.abs a) = obsCur (h.w.abs a)) ∧
    ((h.w.rejectContract a c).2 = false → (h.w.rejectContract a c).1.abs a = h.w.abs a) := by
  have m := mutate_abs h.w _ (reachable_inv r) a (fun st => (st.rejectContract c).1)
  simp only at m
  unfold World.rejectContract
  simp only
  have o0 := (obs_absSt (h.w.getAccountState a).2)
  constructor
  · intro hc hn
    rw [← m.2.1, o0.2.2.1] at hc
    rw [← m.2.1, (o0.2.2.2 hc).2.1] at hn
    have hs : (h.w.getAccountState a).2.rejectContract c =
        ({ (h.w.getAccountState a).2 with hdr := { (h.w.getAccountState a).2.hdr with next := some (c, true) }, last := none }, true) := by
      unfold AState.rejectContract; rw [hc, hn]; simp
    have o1 := obs_absSt ((h.w.getAccountState a).2.rejectContract c).1
    have hc' : ((h.w.getAccountState a).2.rejectContract c).1.hdr.isContract = true := by rw [hs]; exact hc
    refine ⟨by rw [hs], ?_, ?_⟩
    · rw [m.1, (o1.2.2.2 hc').2.1, hs]
    · rw [m.1, ← m.2.1, (o1.2.2.2 hc').1, (o0.2.2.2 hc).1, hs]
  · intro hf
    rw [m.1, ← m.2.1]
    have : ((h.w.getAccountState a).2.rejectContract c).1 = (h.w.getAccountState a).2 := by
      unfold AState.rejectContract at hf ⊢
      split at hf
      · split at hf
        · simp_all
        · split at hf
          · simp_all
          · simp at hf
      · simp_all
    rw [this]

/-- SetObjGraph on a contract account with a current contract: the object graph of that contract
    becomes `Changed(nh, g)`; current / next contract are untouched -/
theorem abs_setObjGraph {h : Hist} (r : Reachable h) (a nh g c : Nat)
    (hi : obsIsContract (h.w.abs a) = true) (hc : obsCur (h.w.abs a) = some c) :
    obsGraph ((h.w.setObjGraph a nh g).abs a) = graphChanged nh g ∧
    obsCur ((h.w.setObjGraph a nh g).abs a) = some c ∧
    obsNext ((h.w.setObjGraph a nh g).abs a) = obsNext (h.w.abs a) := by
  have m := mutate_abs h.w _ (reachable_inv r) a (fun st => st.setObjGraph nh g)
  simp only at m
  unfold World.setObjGraph
  have o0 := (obs_absSt (h.w.getAccountState a).2)
  rw [← m.2.1, o0.2.2.1] at hi
  rw [← m.2.1, (o0.2.2.2 hi).1] at hc
  have hs : (h.w.getAccountState a).2.setObjGraph nh g =
      { (h.w.getAccountState a).2 with
        hdr := { (h.w.getAccountState a).2.hdr with og := ogSet (h.w.getAccountState a).2.hdr.og c (graphChanged nh g) },
        last := none } := by
    unfold AState.setObjGraph; rw [hc]
  have o1 := obs_absSt ((h.w.getAccountState a).2.setObjGraph nh g)
  have hi' : ((h.w.getAccountState a).2.setObjGraph nh g).hdr.isContract = true := by rw [hs]; exact hi
  rw [m.1]
  refine ⟨?_, ?_, ?_⟩
  · rw [(o1.2.2.2 hi').2.2, hs]
    simp only [Hdr.graph, hc, Option.bind_some]
    exact ogGet_ogSet _ _ _
  · rw [(o1.2.2.2 hi').1, hs]; exact hc
  · rw [(o1.2.2.2 hi').2.1, ← m.2.1, (o0.2.2.2 hi).2.1, hs]

/-! ### the property -/

/-- snapshot_immutable: a snapshot taken at any point of any history is still there,
    unchanged, after any further history (in the model snapshots are immutable values;
    that the Go copy-on-write tries behave like this is what the correspondence run
    re-reads every snapshot for). -/
theorem snapshot_immutable (h : Hist) (ops : List Op) (i : Nat) (ws : WSnap)
    (hs : h.snaps[i]? = some ws) : (h.run ops).snaps[i]? = some ws := by
  obtain ⟨t, e⟩ := run_snaps_prefix h ops
  rw [e, List.getElem?_append_left]
  · exact hs
  · exact (List.getElem?_eq_some_iff.mp hs).1

/-- reset_restores: after Reset to any snapshot taken earlier in the history, the
    logical content of the world is exactly the snapshot's — whatever is in the
    mutable-account cache (accounts created after the snapshot are cleared, accounts
    deleted after it come back, pointer-equality shortcuts are sound). -/
theorem reset_restores {h : Hist} (r : Reachable h) (i : Nat) (ws : WSnap) (hs : h.snaps[i]? = some ws) :
    (h.w.reset ws).abs = absWSnap ws :=
  funext (reset_spec _ _ (reachable_inv r) ws
    (fun a s e => ⟨ws, mem_of_getElem? _ _ _ hs, e⟩)).1

/-- flush + reload from the database gives the snapshot's logical content -/
theorem reload_restores {h : Hist} (r : Reachable h) (i : Nat) (ws : WSnap) (hs : h.snaps[i]? = some ws) :
    (World.reload h.w.next ws).abs = absWSnap ws :=
  funext (reload_spec _ _ (reachable_inv r) ws
    (fun a s e => ⟨ws, mem_of_getElem? _ _ _ hs, e⟩)).1

/-- hash_canonical: for any root-hash function `H` of the abstract account map (C17),
    the state hash of GetSnapshot is a function of the logical content alone: two
    worlds reached by ANY two histories (other access order, cache clearing,
    reloads, resets, accounts emptied again vs never touched) with the same logical
    content have the same state hash. -/
theorem hash_canonical {Hash : Type} (H : (Nat → Option AcctData) → Hash) {h1 h2 : Hist}
    (r1 : Reachable h1) (r2 : Reachable h2) (e : h1.w.abs = h2.w.abs) :
    stateHash H (h1.w.getSnapshot).2 = stateHash H (h2.w.getSnapshot).2 := by
  unfold stateHash
  rw [(abs_getSnapshot r1).1, (abs_getSnapshot r2).1, e]

/-- in particular the hash does not change over ClearCache … -/
theorem hash_clearCache {Hash : Type} (H : (Nat → Option AcctData) → Hash) {h : Hist} (r : Reachable h) :
    stateHash H (h.w.clearCache.getSnapshot).2 = stateHash H (h.w.getSnapshot).2 := by
  have r' : Reachable (h.step .clearCache) := by
    obtain ⟨ops, e⟩ := r
    exact ⟨ops ++ [.clearCache], by subst e; simp [Hist.run, List.foldl_append]⟩
  exact hash_canonical H (h1 := h.step .clearCache) (h2 := h) r' r (abs_clearCache r)

/-- … nor over flush + reload from the hash, nor over Reset to the snapshot -/
theorem hash_reload_reset {Hash : Type} (H : (Nat → Option AcctData) → Hash) {h : Hist} (r : Reachable h)
    (i : Nat) (ws : WSnap) (hs : h.snaps[i]? = some ws) :
    stateHash H ((World.reload h.w.next ws).getSnapshot).2 = stateHash H ws ∧
    stateHash H ((h.w.reset ws).getSnapshot).2 = stateHash H ws := by
  have r1 : Reachable (h.step (.reload i)) := by
    obtain ⟨ops, e⟩ := r
    exact ⟨ops ++ [.reload i], by subst e; simp [Hist.run, List.foldl_append]⟩
  have r2 : Reachable (h.step (.reset i)) := by
    obtain ⟨ops, e⟩ := r
    exact ⟨ops ++ [.reset i], by subst e; simp [Hist.run, List.foldl_append]⟩
  simp only [Hist.step, hs] at r1 r2
  unfold stateHash
  constructor
  · rw [(abs_getSnapshot r1).1]; exact congrArg H (reload_restores r i ws hs)
  · rw [(abs_getSnapshot r2).1]; exact congrArg H (reset_restores r i ws hs)

/-- empty_indistinguishable: no snapshot of any history contains an empty account; an
    account is absent from the snapshot trie exactly when it is logically empty — whether
    it was never touched or touched and emptied again. -/
theorem empty_indistinguishable {h : Hist} (r : Reachable h) :
    (∀ ws ∈ h.snaps, ∀ a s, ws a = some s → s.isEmpty = false) ∧
    (∀ a, h.w.abs a = none ↔ (h.w.getSnapshot).2 a = none) := by
  have hi := reachable_inv r
  constructor
  · intro ws hm a s e
    exact (hi a).nonempty s (Or.inr ⟨ws, hm, e⟩)
  · intro a
    have hf := flush_inv _ _ hi
    have ha := (flush_abs _ _ hi a).1
    show h.w.abs a = none ↔ h.w.flush.trie a = none
    rw [← ha]
    cases ht : h.w.flush.trie a with
    | none => simp [absSnap]
    | some s =>
      have : s.isEmpty = false := (hf a).nonempty s (Or.inl ht)
      simp [absSnap, this]

/-! non-vacuity: a concrete history reaches a state with a stored snapshot; an account
    that was filled and emptied again is absent; reset/hypotheses are satisfiable -/
section Example
def exOps : List Op :=
  [.setBalance 0 5, .setValue 1 0 7, .deploy 3 9, .setObjGraph 3 1 4, .snapshot, .setObjGraph 3 2 5, .setBalance 0 0, .deleteValue 1 0, .setValue 2 1 3, .snapshot,
   .clearCache, .reset 0, .snapshot]
def exH : Hist := Hist.init.run exOps
example : Reachable exH := ⟨exOps, rfl⟩
example : exH.snaps.length = 3 := by decide
example : (exH.snaps[1]?.map fun ws => ((ws 0).isNone, (ws 1).isNone, (ws 2).isSome)) = some (true, true, true) := by decide
example : (exH.snaps[2]?.map fun ws => ((ws 0).map (·.hdr.bal), (ws 2).isNone)) = some (some 5, true) := by decide
/-- the object graph set after snapshot 0 is in snapshot 1 but not in snapshot 0 nor after Reset(0) -/
example : (exH.snaps.map fun ws => (ws 3).bind (·.hdr.graph)) = [some (1, 4), some (2, 5), some (1, 4)] := by decide
end Example

end Goloop.C14
