/-
  Props/C30 — "P2P packet framing round-trips and detects corruption" (network/packet.go).
  Only property statements live here; helper lemmas are in Proofs/C30.lean.

  Reading guide.  `Packet.WF p`: a sender-side packet before its first WriteTo (uint16/uint32 fields in
  range, 20-byte src, payload ≤ 1 MiB, `len(ext) = extendInfo.len()`, hash and caches unset).
  `writeAll ps = (ps', w)`: the packets after `WriteTo` (hash, cached header/footer filled in) and the
  bytes put on the stream.  A `Source` is ANY chunking of a byte stream (one `Read` returns at most one
  chunk, empty chunks allowed); `readAll fuel src` is `ReadPacket` repeated until the first error.
-/
import Goloop.Proofs.C30
namespace Goloop.C30
open Goloop.C30.Proofs

/-- **Chunking is irrelevant**: on every chunked reader `ReadFrom` behaves as the parser of the
    concatenated bytes (same packet / same error, rest of the stream preserved). -/
theorem chunking_irrelevant (src : Source) :
    match readFrom src, parseFlat src.flatten with
    | .error e1, .error e2 => e1 = e2
    | .ok (p1, s1), .ok (p2, r2) => p1 = p2 ∧ s1.flatten = r2
    | _, _ => False := by
  have h := readFrom_rel src
  cases h1 : readFrom src <;> cases h2 : parseFlat src.flatten <;> rw [h1, h2] at h <;> simp_all [Rel]

/-- **Round trip**: any sequence of well-formed packets written through one writer is read back, over
    ANY chunking of the stream, as exactly the sequence of the sender's packets (as they are after
    WriteTo), followed by a clean EOF. -/
theorem stream_roundtrip (ps : List Packet) (hwf : ∀ p ∈ ps, p.WF) (src : Source)
    (hsrc : src.flatten = (writeAll ps).2) (fuel : Nat) (hf : ps.length < fuel) :
    readAll fuel src = ((writeAll ps).1, .eof) := by
  obtain ⟨h1, h2⟩ := writeAll_wf ps hwf
  rw [readAll_flat, hsrc, h1, h2]
  have := parseAll_prefix ps hwf [] (fuel - ps.length)
  rw [List.append_nil, show ps.length + (fuel - ps.length) = fuel by omega] at this
  rw [this]
  obtain ⟨k, hk⟩ : ∃ k, fuel - ps.length = k + 1 := ⟨fuel - ps.length - 1, by omega⟩
  rw [hk, parseAll_err k [] .eof parseFlat_nil]
  simp

/-- what the receiver sees is what the sender set: every listed field of the packet after WriteTo equals
    the field of the packet handed to WriteTo (only hash and the header/footer caches are filled in). -/
theorem written_fields_unchanged (p : Packet) (hwf : p.WF) :
    let q := (writeTo p).1
    q.protocol = p.protocol ∧ q.subProtocol = p.subProtocol ∧ q.src = p.src ∧ q.dest = p.dest ∧
    q.ttl = p.ttl ∧ q.payload = p.payload ∧ q.lengthOfPayload = p.payload.length ∧
    q.extendInfo = p.extendInfo ∧ q.ext = p.ext ∧
    q.hashOfPacket = (fnv1a (buildHeader p ++ p.payload)).toNat := by
  intro q
  have : q = sent p := (writeTo_wf p hwf).1
  rw [this]
  exact ⟨rfl, rfl, rfl, rfl, rfl, rfl, hwf.len, rfl, rfl, rfl⟩

/-- `newPacketExtendInfo` keeps 6 bits of hint and 10 bits of length: an extension of n bytes is
    announced (and therefore transmitted) as n mod 1024 bytes — faithful exactly for n ≤ 1023. -/
theorem extendInfo_packing (hint n : Nat) (_hh : hint < 256) :
    extLen (newExtendInfo hint n) = n % 1024 ∧ extHint (newExtendInfo hint n) = hint % 64 ∧
    newExtendInfo hint n < 65536 := by
  unfold extLen extHint newExtendInfo
  omega

/-- **FNV-1a-64 detects every one-byte substitution**: two inputs of equal length that differ in exactly
    one position have different hashes (xor with the byte, then multiplication by the odd FNV prime, is a
    bijection on 64-bit words). -/
theorem fnv_detects_substitution (pre suf : Bytes) (a b : UInt8) (hab : a ≠ b) :
    fnv1a (pre ++ a :: suf) ≠ fnv1a (pre ++ b :: suf) := fnv_subst pre suf a b hab

/-- **Corruption is rejected**: in a stream of well-formed packets `pre ++ [p] ++ post`, replace ONE byte
    of packet `p` — at offset `i` inside its header but outside the 4 length bytes (`i < 26`), inside its
    payload, or inside the 8 stored hash bytes (`30 ≤ i < 38 + len`) — by a different value.  Over any
    chunking the reader delivers exactly the packets before `p` and then fails with the hash error:
    the altered packet is never accepted. -/
theorem corruption_rejected (pre post : List Packet) (p : Packet)
    (hpre : ∀ q ∈ pre, q.WF) (hp : p.WF) (i : Nat) (b : UInt8)
    (hreg : i < 26 ∨ (30 ≤ i ∧ i < 38 + p.payload.length))
    (w : Bytes) (hw : w = (writeAll (pre ++ p :: post)).2)
    (pos : Nat) (hpos : pos = (writeAll pre).2.length + i)
    (hb : w[pos]? ≠ some b)
    (src : Source) (hsrc : src.flatten = w.set pos b) (fuel : Nat) (hf : pre.length < fuel) :
    readAll fuel src = ((writeAll pre).1, .badHash) := by
  obtain ⟨h1, h2⟩ := writeAll_wf pre hpre
  have hsplit : w = (pre.map wireOf).flatten ++ (wireOf p ++ (writeAll post).2) := by
    rw [hw]; exact writeAll_split post p hp pre hpre
  rw [h2] at hpos
  rw [readAll_flat, hsrc, hsplit, hpos, List.set_append_right _ b (by omega), h1]
  rw [hsplit, hpos, List.getElem?_append_right (by omega)] at hb
  have hc := corrupt_one p hp (writeAll post).2 ((pre.map wireOf).flatten.length + i - (pre.map wireOf).flatten.length) b
    (by rw [Nat.add_sub_cancel_left]; exact hreg) hb
  obtain ⟨k, hk⟩ : ∃ k, fuel - pre.length = k + 1 := ⟨fuel - pre.length - 1, by omega⟩
  have := parseAll_prefix pre hpre ((wireOf p ++ (writeAll post).2).set
    ((pre.map wireOf).flatten.length + i - (pre.map wireOf).flatten.length) b) (k + 1)
  rw [show pre.length + (k + 1) = fuel by omega] at this
  rw [this, parseAll_err k _ _ hc]
  simp

/-! ### What the format does NOT guarantee (stated, not hidden) -/

/-- **Extension bytes are not covered by the hash**: altering any byte of the extension leaves the packet
    acceptable — the reader returns the sender's packet with the altered extension. (The property speaks
    of "header or payload"; the extension and `extendInfo` travel unprotected.) -/
theorem ext_corruption_not_detected (p : Packet) (hwf : p.WF) (rest : Bytes) (i : Nat) (b : UInt8)
    (h1 : 40 + p.payload.length ≤ i) (h2 : i < 40 + p.payload.length + p.ext.length)
    (src : Source) (hsrc : src.flatten = ((writeTo p).2.flatten ++ rest).set i b) :
    ∃ src', readFrom src = .ok ({ (writeTo p).1 with ext := p.ext.set (i - 40 - p.payload.length) b }, src') ∧
      src'.flatten = rest := by
  have hrel := readFrom_rel src
  rw [hsrc, (writeTo_wf p hwf).2, ext_corrupt_accepted p hwf rest i b h1 h2] at hrel
  rw [(writeTo_wf p hwf).1]
  cases hr : readFrom src with
  | error e => rw [hr] at hrel; simp [Rel] at hrel
  | ok v =>
    obtain ⟨q, s'⟩ := v
    rw [hr] at hrel; simp only [Rel] at hrel
    exact ⟨s', by rw [hrel.1], hrel.2⟩

/-- Full statement that does NOT hold: `corruption_rejected` with `26 ≤ i < 30` (the lengthOfPayload bytes).
    An altered length re-frames the rest of the stream; the reader then compares FNV(header' ++ other bytes)
    with 8 bytes found elsewhere in the stream, which the sender's later packets may contain.
    `length_field_corruption_partial` is the part that holds: a length above the maximum is rejected. -/
theorem length_field_corruption_partial (H rest : Bytes) (hH : H.length = 30)
    (hbig : beNat ((H.drop 26).take 4) > payloadMax) (src : Source) (hsrc : src.flatten = H ++ rest) :
    readFrom src = .error .badLen := by
  have hrel := readFrom_rel src
  have : parseFlat (H ++ rest) = .error .badLen := by
    unfold parseFlat readFromWith
    rw [splitN_append H _ headerSize hH]
    simp [bind, Except.bind, setHeader, hbig]
  rw [hsrc, this] at hrel
  cases hr : readFrom src with
  | error e => rw [hr] at hrel; simp only [Rel] at hrel; rw [hrel]
  | ok v => rw [hr] at hrel; simp [Rel] at hrel

/-- the two packets of the witness: A has an empty payload, B's 10 payload bytes are
    FNV-1a(A's header with length 40 ++ A's footer ++ B's header) followed by 00 00 -/
def witA : Packet := newPacket 1 2 (List.replicate 20 0) 255 1 [] 0 []
def witB : Packet := newPacket 3 4 (List.replicate 20 0) 255 1 [216, 167, 78, 70, 132, 74, 161, 73, 0, 0] 0 []

/-- **Witness: a length-field corruption that is accepted.**  The sender writes the two well-formed packets
    `witA`, `witB`; in transit the single byte 29 (last byte of A's lengthOfPayload) changes from 0 to 40.
    The real reader (and the model) accept ONE packet with A's protocol fields and a 40-byte payload that
    was never sent, then see a clean EOF. -/
theorem length_field_corruption_accepted_witness :
    (writeAll [witA, witB]).2[29]? = some 0 ∧
    (readAll 3 [(writeAll [witA, witB]).2.set 29 40]).2 = .eof ∧
    (readAll 3 [(writeAll [witA, witB]).2.set 29 40]).1.map (fun q => (q.protocol, q.subProtocol, q.payload.length)) = [(1, 2, 40)] ∧
    (readAll 3 [(writeAll [witA, witB]).2]).1.map (fun q => (q.protocol, q.subProtocol, q.payload.length)) = [(1, 2, 0), (3, 4, 10)] := by
  decide +kernel

/-! ### non-vacuity of the hypotheses -/

example : witA.WF ∧ witB.WF := by
  constructor <;> constructor <;> decide

/-- `corruption_rejected` is not vacuous: a well-formed packet, an in-range position, a differing byte. -/
example : witB.WF ∧ (30 ≤ 33 ∧ 33 < 38 + witB.payload.length) ∧
    (writeAll ([witA] ++ witB :: [])).2[(writeAll [witA]).2.length + 33]? ≠ some 0 := by
  refine ⟨by constructor <;> decide, by decide, by decide +kernel⟩

example : (List.replicate 30 255 : Bytes).length = 30 ∧
    beNat (((List.replicate 30 255 : Bytes).drop 26).take 4) > payloadMax := by decide

end Goloop.C30
