/-
  Props/C12 — "A transaction keeps its identity across all representations".
  Property statements only; helper lemmas are in Proofs/C12.lean.
  SHA3 is the parameter `e.H`; "different preimage ⇒ different id" is its collision
  resistance (assumption, not a theorem).
-/
import Goloop.Proofs.C12
namespace Goloop.C12
open Goloop.C12.Proofs

/-! ### 1. the id is the hash of the map serialisation, whatever path was taken -/

/-- JSON submission (`NewTransactionFromJSON`, raw = false): whether the struct-order hash agreed
    (binary form kept) or not (raw fallback), the id of the resulting transaction is
    `H("icx_sendTransaction." ++ serializeDict(json minus signature, txHash))`. -/
theorem id_preimage_is_map_serialisation (e : Env) (js : Bytes) (tx : TxV3)
    (h : parseV3JSON e js false = some tx) :
    ∃ kvs body, e.pj js = some (.dict kvs) ∧ serDictTop kvs exclV3 = some body ∧
      txID e tx = e.H (saltBytes ++ body) := by
  unfold parseV3JSON at h
  split at h
  · simp at h
  · rename_i d hd
    simp only [Bool.false_eq_true, if_false] at h
    split at h
    · simp at h
    · rename_i id hid
      have hpre : ∃ kvs body, e.pj js = some (.dict kvs) ∧ serDictTop kvs exclV3 = some body ∧
          id = e.H (saltBytes ++ body) := by
        unfold mapPreimage at hid
        split at hid
        · rename_i kvs hpj
          split at hid
          · rename_i body hbody
            simp only [Option.map_some, Option.some.injEq] at hid
            exact ⟨kvs, body, hpj, hbody, hid.symm⟩
          · simp at hid
        · simp at hid
      obtain ⟨kvs, body, h1, h2, h3⟩ := hpre
      refine ⟨kvs, body, h1, h2, ?_⟩
      split at h
      · rename_i heq
        simp only [Option.some.injEq] at h
        subst h
        simp only [txID]
        rw [← h3, heq]; rfl
      · simp only [Option.some.injEq] at h
        subst h
        simp only [txID]
        exact h3

/-- stored JSON form (`newTransaction` on bytes starting with '{', raw = true): the id is again
    the map hash of that JSON (empty when it cannot be computed). -/
theorem id_of_raw_is_map_serialisation (e : Env) (js : Bytes) (tx : TxV3)
    (h : parseV3JSON e js true = some tx) :
    txID e tx = ((mapPreimage (e.pj js)).map e.H).getD [] := by
  unfold parseV3JSON at h
  split at h
  · simp at h
  · simp only [if_true, Option.some.injEq] at h
    subst h
    simp [txID, calcHash, mapHash]

/-! ### 2. binary (stored) form round trip, any number of times -/

/-- A transaction accepted from JSON, written with `Bytes()` and read back with
    `NewTransaction`, has the same fields, the same id and the same bytes; and the transaction
    read back is a fixed point of that round trip (so any number of further rounds changes
    nothing).  Hypotheses: the compacted JSON of an object starts with '{'; the codec decodes
    what it encoded for this transaction's fields (`hcodec`, discharged by `codec_roundtrip`
    below for well-formed fields); version 3. -/
theorem binary_roundtrip (e : Env) (js0 : Bytes) (tx : TxV3)
    (h : newTransactionFromJSON e js0 false = some tx)
    (hbrace : ∀ js, e.compact js0 = some js → ∃ r, js = cLBc :: r)
    (hcodec : ∀ b, encodeTx tx.d = some b → decodeTx b = some tx.d)
    (hver : tx.d.version = 3)
    (b : Bytes) (hb : txBytes tx = some b) :
    ∃ tx', reparse e tx = some tx' ∧ tx'.d = tx.d ∧ txID e tx' = txID e tx ∧
      txBytes tx' = some b ∧ reparse e tx' = some tx' :=
  Proofs.binary_roundtrip e js0 tx h hbrace hcodec hver b hb

/-- The codec hypothesis of `binary_roundtrip`, proved: the RLP framing of the 11 fields
    (`codec.MarshalToBytes` / `UnmarshalFromBytes` on transactionV3Data) decodes what it
    encoded, for every well-formed field record (`WFTx`: version 3, 21-byte addresses with type
    0/1, signature absent or 65 bytes, every item shorter than 2^64 bytes; the round trip of the
    integer byte encodings themselves is property C24 and enters as a hypothesis inside `WFTx`). -/
theorem codec_roundtrip (d : TxData) (wf : Proofs.WFTx d) (b : Bytes) (h : encodeTx d = some b) :
    decodeTx b = some d :=
  Proofs.codec_roundtrip d wf b h

/-- `binary_roundtrip` with the codec hypothesis discharged for well-formed fields -/
theorem binary_roundtrip_wf (e : Env) (js0 : Bytes) (tx : TxV3)
    (h : newTransactionFromJSON e js0 false = some tx)
    (hbrace : ∀ js, e.compact js0 = some js → ∃ r, js = cLBc :: r)
    (wf : Proofs.WFTx tx.d)
    (b : Bytes) (hb : txBytes tx = some b) :
    ∃ tx', reparse e tx = some tx' ∧ tx'.d = tx.d ∧ txID e tx' = txID e tx ∧
      txBytes tx' = some b ∧ reparse e tx' = some tx' :=
  binary_roundtrip e js0 tx h hbrace (fun b hb => Proofs.codec_roundtrip tx.d wf b hb) wf.ver b hb

/-- non-vacuity of the framing lemmas: an item of 56..2^64-1 bytes uses the long form -/
example : rlpReadItem (rlpBytes (List.replicate 60 7) ++ [1, 2]) = some (some (List.replicate 60 7), [1, 2]) :=
  Proofs.rlpReadItem_bytes _ _ (by decide)

/-- any number (≥ 1) of round trips gives the same transaction as one round trip -/
theorem binary_roundtrip_iter (e : Env) (tx tx' : TxV3) (h1 : reparse e tx = some tx')
    (h2 : reparse e tx' = some tx') (n : Nat) :
    reparseN e (n + 1) tx = some tx' := by
  simp [reparseN, h1, Proofs.reparseN_fix e tx' h2 n]

/-! ### 3. injectivity of the ICON serialisation, and the exact list of exceptions -/

/-- `unser` (an explicit parser, Model/C12) inverts `serializeValue` on every canonical value:
    no numbers, no bools, no list starting with the empty string, dict keys listed in
    increasing order (Go maps have no order of their own). -/
theorem serialize_inverse (v : JV) (hc : canon v = true) (f : Bytes)
    (hs : serValue v = some f) : unser f = some v :=
  Proofs.unser_ser v hc f hs

/-- hence `serializeValue` is injective on canonical values.  `_partial`: the full statement
    "injective on all values" is false, exactly because of the collisions proved below. -/
theorem serialize_injective_partial (v w : JV) (hv : canon v = true) (hw : canon w = true)
    (f : Bytes) (h1 : serValue v = some f) (h2 : serValue w = some f) : v = w := by
  have a := Proofs.unser_ser v hv f h1
  have b := Proofs.unser_ser w hw f h2
  rw [a] at b
  exact Option.some.inj b

example : canon (.dict [([0x61], .list [.str [0x62, 0x2e], .null, .str []]),
    ([0x62], .dict [])]) = true := by decide
example : serValue (.dict [([0x61], .list [.str [0x62, 0x2e], .null, .str []])])
    = some [0x7b, 0x61, 0x2e, 0x5b, 0x62, 0x5c, 0x2e, 0x2e, 0x5c, 0x30, 0x2e, 0x5d, 0x7d] := by
  decide

/-- Exception 1: a JSON number and the string of its decimal value serialise identically
    (and so do two numbers with the same `int64(float64)` value, which the value tree already
    identifies). -/
theorem collision_number_string (n : Int) : serValue (.num n) = serValue (.str (intDec n)) := by
  simp only [serValue]
  rw [Proofs.serString_plain _ (Proofs.intDec_plain n)]

/-- Exception 2: empty strings at the front of a list vanish. -/
theorem collision_leading_empty_string (xs : List JV) :
    serValue (.list (.str [] :: xs)) = serValue (.list xs) := by
  simp only [serValue, serFrags, serString]
  cases serFrags xs with
  | none => rfl
  | some fs => simp [Proofs.joinListFrom_nil_empty]

/-- in particular `[""]` and `[]` collide -/
theorem collision_empty_list : serValue (.list [.str []]) = serValue (.list []) :=
  collision_leading_empty_string []

/-- Exception 3 (not a value collision): a bool anywhere makes the value unserialisable. -/
theorem bool_unserialisable (b : Bool) : serValue (.bool b) = none := rfl

/-- NOT an exception: `null` (written `\0`) collides with no string, because a backslash inside
    a string is always escaped. -/
theorem null_collides_with_no_string (s : Bytes) : serValue (.str s) ≠ serValue .null := by
  intro h
  have hs : serValue (.str s) = some [cBsl, cZero] := by rw [h]; rfl
  have := serialize_injective_partial (.str s) .null rfl rfl _ hs rfl
  cases this

/-- NOT exceptions: the empty string, the empty list and the empty dict are pairwise distinct -/
theorem empty_containers_distinct :
    serValue (.str []) ≠ serValue (.list []) ∧ serValue (.str []) ≠ serValue (.dict []) ∧
    serValue (.list []) ≠ serValue (.dict []) := by decide

/-- fields excluded from the id (`signature`, `txHash`) do not influence the preimage -/
theorem excluded_fields_ignored (k : Bytes) (v : JV) (kvs : List (Bytes × JV))
    (hk : exclV3.contains k = true) :
    serDictTop ((k, v) :: kvs) exclV3 = serDictTop kvs exclV3 := by
  have : (!exclV3.contains k) = false := by rw [hk]; rfl
  simp only [serDictTop, List.filter, this]

/-- every other field is signed: two canonical top-level maps with the same id preimage agree
    on all fields other than `signature`/`txHash` (keys and values, nested data included). -/
theorem preimage_determines_signed_fields (a b : List (Bytes × JV)) (p : Bytes)
    (ha : canon (.dict (a.filter (fun kv => !exclV3.contains kv.1))) = true)
    (hb : canon (.dict (b.filter (fun kv => !exclV3.contains kv.1))) = true)
    (h1 : serDictTop a exclV3 = some p) (h2 : serDictTop b exclV3 = some p) :
    a.filter (fun kv => !exclV3.contains kv.1) = b.filter (fun kv => !exclV3.contains kv.1) := by
  have key : ∀ l : List (Bytes × JV), serDictTop l exclV3 = some p →
      serValue (.dict (l.filter (fun kv => !exclV3.contains kv.1))) = some (cLBc :: (p ++ [cRBc])) := by
    intro l hl
    simp only [serDictTop] at hl
    simp only [serValue]
    split at hl
    · rename_i ps hps
      simp only [Option.some.injEq] at hl
      rw [hl]
    · simp at hl
  have := serialize_injective_partial _ _ ha hb _ (key a h1) (key b h2)
  injection this

end Goloop.C12
