/-
  Props/C08 — "Block encoding round-trips and binds body to header".
  Model: Model/C08.lean (V2HeaderFormat / V2BodyFormat over the RLP dialect of Base/Rlp,
  NewBlockDataFromReader with its hash checks; components outside block/ are fields of `Env`).
  "Decoding arbitrary bytes never crashes" is not a theorem about Go: the model is a total
  function, and the harness feeds the same bytes to the real decoder (testing).
-/
import Goloop.Proofs.C08
set_option linter.unusedSimpArgs false
namespace Goloop.C08
open Goloop Goloop.Rlp

def okBytes (ob : OBytes) : Prop := ∀ b, ob = some b → b.length ≤ maxSB
def okInt (v : Int) : Prop := -(2:Int)^63 ≤ v ∧ v < (2:Int)^63

/-- a header a node can hold: int64 fields, byte strings within codec.MaxSizeForBytes, and an
    encoding shorter than 2^63 bytes -/
structure Header.Ok (h : Header) : Prop where
  version : okInt h.version
  height : okInt h.height
  timestamp : okInt h.timestamp
  proposer : okBytes h.proposer
  prevID : okBytes h.prevID
  votesHash : okBytes h.votesHash
  nextValidatorsHash : okBytes h.nextValidatorsHash
  patchTxHash : okBytes h.patchTxHash
  normalTxHash : okBytes h.normalTxHash
  logsBloom : okBytes h.logsBloom
  result : okBytes h.result
  nsFilter : okBytes h.nsFilter
  size : (encodeItems h.items).length ≤ maxInt

def okBss (l : Option (List OBytes)) : Prop :=
  ∀ xs, l = some xs → (∀ ob ∈ xs, okBytes ob) ∧ (encodeItems (xs.map itemOfBytes)).length ≤ maxInt

structure Body.Ok (b : Body) : Prop where
  patchTxs : okBss b.patchTxs
  normalTxs : okBss b.normalTxs
  votes : okBytes b.votes
  btpDigest : okBytes b.btpDigest
  size : (encodeItems b.items).length ≤ maxInt

/-- decode ∘ encode = id for headers, in both forms (11 items when `NSFilter` is nil, 12 otherwise),
    with any bytes following the header left untouched. -/
theorem header_roundtrip (h : Header) (rest : Bytes) (ok : h.Ok) :
    decodeHeader (encodeHeader h ++ rest) = some (h, rest) := by
  unfold decodeHeader encodeHeader
  rw [Proofs.openList_encode _ _ ok.size]
  simp only [Header.items, List.cons_append, List.nil_append, encodeItems, List.append_assoc]
  rw [Proofs.readInt_encode _ _ ok.version]; simp only [Rd.bind]
  rw [Proofs.readInt_encode _ _ ok.height]; simp only [Rd.bind]
  rw [Proofs.readInt_encode _ _ ok.timestamp]; simp only [Rd.bind]
  rw [Proofs.readBytes_encode _ _ ok.proposer]; simp only [Rd.bind]
  rw [Proofs.readBytes_encode _ _ ok.prevID]; simp only [Rd.bind]
  rw [Proofs.readBytes_encode _ _ ok.votesHash]; simp only [Rd.bind]
  rw [Proofs.readBytes_encode _ _ ok.nextValidatorsHash]; simp only [Rd.bind]
  rw [Proofs.readBytes_encode _ _ ok.patchTxHash]; simp only [Rd.bind]
  rw [Proofs.readBytes_encode _ _ ok.normalTxHash]; simp only [Rd.bind]
  rw [Proofs.readBytes_encode _ _ ok.logsBloom]; simp only [Rd.bind]
  rw [Proofs.readBytes_encode _ _ ok.result]; simp only [Rd.bind]
  cases hf : h.nsFilter with
  | none =>
    simp only [encodeItems, Proofs.readBytes_nil, Rd.last]
    cases h; simp_all
  | some f =>
    have hk : okBytes (some f) := by rw [← hf]; exact ok.nsFilter
    have := Proofs.readBytes_encode (some f) [] hk
    simp only [itemOfBytes] at this
    simp only [encodeItems]
    rw [this]
    simp only [Rd.last]
    cases h; simp_all

/-- decode ∘ encode = id for bodies (3 items when `BTPDigest` is nil, 4 otherwise; nil and empty
    transaction lists are distinguished). -/
theorem body_roundtrip (b : Body) (rest : Bytes) (ok : b.Ok) :
    decodeBody (encodeBody b ++ rest) = some (b, rest) := by
  unfold decodeBody encodeBody
  rw [Proofs.openList_encode _ _ ok.size]
  simp only [Body.items, List.cons_append, List.nil_append, encodeItems, List.append_assoc]
  rw [Proofs.readBss_encode _ _ ok.patchTxs]; simp only [Rd.bind]
  rw [Proofs.readBss_encode _ _ ok.normalTxs]; simp only [Rd.bind]
  rw [Proofs.readBytes_encode _ _ ok.votes]; simp only [Rd.bind]
  cases hd : b.btpDigest with
  | none =>
    simp only [encodeItems, Proofs.readBytes_nil, Rd.last]
    cases b; simp_all
  | some d =>
    have hk : okBytes (some d) := by rw [← hd]; exact ok.btpDigest
    have := Proofs.readBytes_encode (some d) [] hk
    simp only [itemOfBytes] at this
    simp only [encodeItems]
    rw [this]
    simp only [Rd.last]
    cases b; simp_all

/-- non-vacuity: a 12-item header and a 4-item body satisfy the side conditions -/
example :
    Header.Ok { version := 2, height := 5, timestamp := -1, proposer := some [0, 1], prevID := none,
                votesHash := some [], nextValidatorsHash := none, patchTxHash := none,
                normalTxHash := some [0x80], logsBloom := some [], result := none,
                nsFilter := some [1] } ∧
    Body.Ok { patchTxs := none, normalTxs := some [some [1, 2], none], votes := some [0xc0],
              btpDigest := some [] } := by
  constructor
  · constructor <;> first | (unfold okInt; decide) | (intro b hb; cases hb; decide) | (intro b hb; cases hb) | decide
  · constructor
    · intro xs h; cases h
    · intro xs h; cases h
      refine ⟨?_, by decide⟩
      intro ob hob b hb
      simp at hob
      rcases hob with rfl | rfl
      · cases hb; decide
      · cases hb
    · intro b hb; cases hb; decide
    · intro b hb; cases hb; decide
    · decide

variable {Tx V D : Type}

/-- the facts established by the hash checks of `NewBlockDataFromReader` -/
structure Bound (env : Env Tx V D) (hf : Header) (bf : Body) (blk : Block Tx V D) : Prop where
  patchTxs : txsFromBss env bf.patchTxs = some blk.patchTxs
  patchHash : bytesEqual (env.txListHash blk.patchTxs) hf.patchTxHash = true
  normalTxs : txsFromBss env bf.normalTxs = some blk.normalTxs
  normalHash : bytesEqual (env.txListHash blk.normalTxs) hf.normalTxHash = true
  votes : env.votesFromBytes bf.votes = some blk.votes
  votesHash : bytesEqual (env.votesHash blk.votes) hf.votesHash = true
  digest : env.digestFromBytes bf.btpDigest = some blk.digest
  digestHash : ∃ bdh, env.digestHashFromResult hf.result = some bdh ∧
    bytesEqual bdh (env.digestHash blk.digest) = true
  nsFilter : bytesEqual hf.nsFilter (env.digestFilter blk.digest) = true
  height : blk.height = hf.height
  timestamp : blk.timestamp = hf.timestamp
  prevID : blk.prevID = hf.prevID
  result : blk.result = hf.result
  nextValidatorsHash : blk.nextValidatorsHash = hf.nextValidatorsHash

theorem checkFormats_bound (env : Env Tx V D) (hf : Header) (bf : Body) (blk : Block Tx V D)
    (h : checkFormats env hf bf = some blk) : Bound env hf bf blk := by
  unfold checkFormats at h
  split at h; · cases h
  rename_i patches hp
  split at h; · cases h
  rename_i hph
  split at h; · cases h
  rename_i normals hn
  split at h; · cases h
  rename_i hnh
  split at h; · cases h
  rename_i votes hv
  split at h; · cases h
  rename_i hvh
  split at h; · cases h
  rename_i bd hd
  split at h; · cases h
  rename_i bdh hr
  split at h; · cases h
  rename_i hdh
  split at h; · cases h
  rename_i hnf
  split at h; · cases h
  rename_i proposer hpr
  cases h
  simp only [Bool.not_eq_true', Bool.not_eq_false] at hph hnh hvh hdh hnf
  exact { patchTxs := hp, patchHash := by simpa using hph, normalTxs := hn,
          normalHash := by simpa using hnh, votes := hv, votesHash := by simpa using hvh,
          digest := hd, digestHash := ⟨bdh, hr, by simpa using hdh⟩, nsFilter := by simpa using hnf,
          height := rfl, timestamp := rfl, prevID := rfl, result := rfl, nextValidatorsHash := rfl }

/-- If decoding succeeds, the decoded transactions, votes and BTP digest are the ones in the body
    on the wire and their hashes (and the NS filter) equal the ones in the header on the wire
    (`bytes.Equal`, i.e. nil = empty). -/
theorem decode_binds_body (env : Env Tx V D) (input : Bytes) (blk : Block Tx V D)
    (h : newBlockData env input = some blk) :
    ∃ hf r1 bf r2, decodeHeader input = some (hf, r1) ∧ decodeBody r1 = some (bf, r2) ∧
      Bound env hf bf blk := by
  unfold newBlockData at h
  split at h; · cases h
  rename_i hf r1 hh
  split at h; · cases h
  rename_i bf r2 hb
  exact ⟨hf, r1, bf, r2, hh, hb, checkFormats_bound env hf bf blk h⟩

theorem bytesEqual_trans {a b c : OBytes} (h1 : bytesEqual a b = true) (h2 : bytesEqual c b = true) :
    bytesEqual a c = true := by
  unfold bytesEqual at *
  simp only [beq_iff_eq] at *
  rw [h1, h2]

/-- A body cannot be swapped under a header: two inputs that start with the same header bytes and
    both decode have the same committed transaction-list, vote and digest hashes (so, unless the
    hash functions collide, the same contents). -/
theorem body_swap_same_hashes (env : Env Tx V D) (hdr body1 body2 : Bytes) (b1 b2 : Block Tx V D)
    (hf : Header) (hdec : ∀ rest, decodeHeader (hdr ++ rest) = some (hf, rest))
    (h1 : newBlockData env (hdr ++ body1) = some b1) (h2 : newBlockData env (hdr ++ body2) = some b2) :
    bytesEqual (env.txListHash b1.patchTxs) (env.txListHash b2.patchTxs) = true ∧
    bytesEqual (env.txListHash b1.normalTxs) (env.txListHash b2.normalTxs) = true ∧
    bytesEqual (env.votesHash b1.votes) (env.votesHash b2.votes) = true ∧
    bytesEqual (env.digestHash b1.digest) (env.digestHash b2.digest) = true ∧
    bytesEqual (env.digestFilter b1.digest) (env.digestFilter b2.digest) = true := by
  obtain ⟨hf1, r1, bf1, _, hh1, _, bd1⟩ := decode_binds_body env _ b1 h1
  obtain ⟨hf2, r2, bf2, _, hh2, _, bd2⟩ := decode_binds_body env _ b2 h2
  rw [hdec] at hh1 hh2
  cases hh1; cases hh2
  refine ⟨bytesEqual_trans bd1.patchHash bd2.patchHash, bytesEqual_trans bd1.normalHash bd2.normalHash,
    bytesEqual_trans bd1.votesHash bd2.votesHash, ?_, ?_⟩
  · obtain ⟨x1, hx1, e1⟩ := bd1.digestHash
    obtain ⟨x2, hx2, e2⟩ := bd2.digestHash
    rw [hx1] at hx2; cases hx2
    unfold bytesEqual at *
    simp only [beq_iff_eq] at *
    rw [← e1, ← e2]
  · have e1 := bd1.nsFilter
    have e2 := bd2.nsFilter
    unfold bytesEqual at *
    simp only [beq_iff_eq] at *
    rw [← e1, ← e2]

/-- The id of a block is the hash of its serialized header, nothing else (in particular not the body). -/
theorem id_is_header_hash (env : Env Tx V D) (b : Block Tx V D) :
    blockID env b = env.hash (encodeHeader (headerOf env b)) := rfl

/-- Blocks with the same header format have the same id. -/
theorem id_of_header (env : Env Tx V D) (b1 b2 : Block Tx V D) (h : headerOf env b1 = headerOf env b2) :
    blockID env b1 = blockID env b2 := by
  unfold blockID; rw [h]

/-- the components' own round trips and conventions, as far as `NewBlockDataFromReader` relies on
    them (each is a property of another package) -/
structure EnvOk (env : Env Tx V D) : Prop where
  tx : ∀ t, env.txFromBytes (some (env.txBytes t)) = some t
  votes : ∀ v, env.votesFromBytes (env.votesBytes v) = some v
  digest : ∀ d, env.digestFromBytes (env.digestBytes d) = some d

/-- what the node guarantees about a block it serializes (fields produced by its own code) -/
structure Block.Ok (env : Env Tx V D) (b : Block Tx V D) : Prop where
  header : (headerOf env b).Ok
  body : (bodyOf env b).Ok
  /-- the result in the header commits to the block's BTP digest -/
  result : ∃ bdh, env.digestHashFromResult b.result = some bdh ∧ bytesEqual bdh (env.digestHash b.digest) = true
  /-- the NS filter is the digest's filter, in `Bytes()` form (nil when empty) -/
  filter : b.nsFilter = env.digestFilter b.digest ∧ filterCanon b.nsFilter = b.nsFilter
  proposer : env.proposerFromBytes b.proposer = some b.proposer
  bloom : env.bloomCanon b.logsBloom = b.logsBloom

theorem txsFromBss_bssOf (env : Env Tx V D) (ok : EnvOk env) (txs : List Tx) :
    txsFromBss env (bssOf env txs) = some txs := by
  unfold txsFromBss bssOf
  cases txs with
  | nil => simp
  | cons t ts =>
    simp only [Option.getD_some]
    induction (t :: ts) with
    | nil => simp
    | cons a as ih =>
      simp only [List.map_cons, List.mapM_cons, ok.tx a, ih]
      rfl

theorem bytesEqual_refl (a : OBytes) : bytesEqual a a = true := by simp [bytesEqual]

/-- Any block serialized by a node decodes back to the same block, hence the same id and contents. -/
theorem block_roundtrip (env : Env Tx V D) (eok : EnvOk env) (b : Block Tx V D) (ok : b.Ok env)
    (rest : Bytes) :
    newBlockData env (marshal env b ++ rest) = some b ∧
    factoryDecode env (marshal env b ++ rest) = some b := by
  have hnb : newBlockData env (marshal env b ++ rest) = some b := by
    unfold newBlockData marshal
    rw [List.append_assoc, header_roundtrip _ _ ok.header]
    simp only
    rw [body_roundtrip _ _ ok.body]
    simp only
    obtain ⟨bdh, hr, hdh⟩ := ok.result
    unfold checkFormats
    simp only [bodyOf, headerOf, txsFromBss_bssOf env eok, bytesEqual_refl, eok.votes, eok.digest, hr,
      hdh, ok.proposer, ok.bloom, ok.filter.2, Bool.not_true, Bool.false_eq_true, if_false]
    have : bytesEqual b.nsFilter (env.digestFilter b.digest) = true := by
      rw [← ok.filter.1]; exact bytesEqual_refl _
    simp only [this, Bool.not_true, Bool.false_eq_true, if_false]
  refine ⟨hnb, ?_⟩
  unfold factoryDecode
  have : decodeHeader (marshal env b ++ rest) =
      some (headerOf env b, encodeBody (bodyOf env b) ++ rest) := by
    unfold marshal
    rw [List.append_assoc, header_roundtrip _ _ ok.header]
  rw [this]
  simp only [headerOf, if_true]
  exact hnb

/-- non-vacuity of `block_roundtrip`: an environment whose components are identities/constants and
    a block with one transaction, votes and a 12-item header satisfy `EnvOk` and `Block.Ok`. -/
def exEnv : Env Bytes Bytes Bytes where
  txFromBytes := fun b => b
  txBytes := fun t => t
  txListHash := fun l => match l with | [] => none | t :: _ => some t
  votesFromBytes := fun b => some (b.getD [])
  votesBytes := fun v => some v
  votesHash := fun v => some v
  digestFromBytes := fun b => some (b.getD [])
  digestBytes := fun d => some d
  digestHash := fun d => some d
  digestFilter := fun d => match d with | [] => none | _ => some d
  digestHashFromResult := fun r => some r
  proposerFromBytes := fun p => some p
  bloomCanon := fun b => b
  hash := fun b => b

def exBlock : Block Bytes Bytes Bytes :=
  { height := 3, timestamp := 7, proposer := some [0, 9], prevID := some [1, 2, 3], logsBloom := some [],
    result := some [5, 5], patchTxs := [], normalTxs := [[0x81, 0x82]], nextValidatorsHash := none,
    votes := [0xc0], nsFilter := some [5, 5], digest := [5, 5] }

example : EnvOk exEnv ∧ exBlock.Ok exEnv := by
  refine ⟨⟨fun _ => rfl, fun _ => rfl, fun _ => rfl⟩, ?_⟩
  refine { header := ?_, body := ?_, result := ⟨some [5, 5], rfl, by decide⟩, filter := ⟨rfl, rfl⟩,
           proposer := rfl, bloom := rfl }
  · constructor <;> first | (unfold okInt; decide) | (intro b hb; cases hb; decide) | (intro b hb; cases hb) | decide
  · constructor
    · intro xs h; simp [bodyOf, bssOf, exBlock] at h
    · intro xs h
      simp [bodyOf, bssOf, exBlock, exEnv] at h
      subst h
      refine ⟨?_, by decide⟩
      intro ob hob b hb
      simp at hob
      subst hob
      cases hb; decide
    · intro b hb; cases hb; decide
    · intro b hb; cases hb; decide
    · decide

theorem block_roundtrip_id (env : Env Tx V D) (eok : EnvOk env) (b : Block Tx V D) (ok : b.Ok env) :
    ∃ b', factoryDecode env (marshal env b) = some b' ∧ blockID env b' = blockID env b := by
  have := (block_roundtrip env eok b ok []).2
  rw [List.append_nil] at this
  exact ⟨b, this, rfl⟩

end Goloop.C08
