/-
  Props/C11 — "Replay protection: a transaction is included at most once per chain".
  Property statements only; the proofs are in Proofs/C11.lean.

  Configurations (Model/C11.lean, `Cfg`): `Cfg.tree` is the code in the working tree
  (F5b, F5c repaired; F5 is a known finding), `Cfg.repaired` has F5 repaired too,
  `Cfg.pinned` is the pinned commit.
-/
import Goloop.Proofs.C11
namespace Goloop.C11
open Goloop.C11.Proofs

/-- CheckTxTimestamp accepts exactly the timestamps in (bts − th, bts + th]. -/
theorem window_iff (bts th ts : Int) :
    windowCheck bts th ts = .ok ↔ (bts - th < ts ∧ ts ≤ bts + th) := Proofs.window_iff bts th ts

/-- Histories: any sequence of NewTracker / New / Add (forced or not) / Commit (of any tracker,
    in any order) / flush-worker steps.  `gOf` is the group of a transaction id (patch and normal
    transactions have different ids); a block with timestamp 0 holds no transaction. -/
inductive Reach (c : Cfg) (gOf : Id → Bool) : State → Prop
  | init : Reach c gOf State.init
  | root (s : State) (g : Bool) (ts th : Int) : Reach c gOf s → Reach c gOf (s.newRoot g ts th)
  | child (s s' : State) (p : Nat) (ts th : Int) :
      Reach c gOf s → s.newChild p ts th = some s' → Reach c gOf s'
  | add (s : State) (i : Nat) (txs : List (Id × Int)) (force : Bool) :
      Reach c gOf s →
      (∀ t, s.trackers[i]? = some t → (∀ x ∈ txs, gOf x.1 = t.normal) ∧ (t.ts = 0 → txs = [])) →
      Reach c gOf (s.add c i txs force).1
  | commit (s : State) (i : Nat) : Reach c gOf s → Reach c gOf (s.commit i)
  | flush (s : State) : Reach c gOf s → Reach c gOf s.flushStep
  /-- node restart at any point: a new manager over the same database, all trackers gone.
      The ghost log restarts, so the theorems below speak about the lists finalized since the
      last restart; see `f5d_restart_lowered_threshold_replay_in_tree` for what can happen to
      lists finalized before it. -/
  | restart (s : State) : Reach c gOf s → Reach c gOf s.restart

theorem Reach.inv {c : Cfg} {gOf : Id → Bool} {s : State} (h : Reach c gOf s) : SInv gOf s := by
  induction h with
  | init => exact SInv_init gOf
  | root s g ts th _ ih => exact SInv_newRoot ih g ts th
  | child s s' p ts th _ hc ih => exact SInv_newChild ih hc
  | add s i txs force _ hty ih => exact SInv_add c ih i txs force hty
  | commit s i _ ih => exact SInv_commitF (i + 1) s i ih
  | flush s _ ih => exact ⟨⟨ih.wf.lt, ih.wf.grp⟩, ih.ti, MInv_flushStep ih.mi⟩
  | restart s _ _ => exact SInv_restart gOf s

/-- `Holds c s i k ts`: a block on the chain ending in tracker `i` holds id `k`, and `ts` is a
    timestamp that block could have accepted.  The chain is: the unfinalized trackers reached
    from `i` by parent pointers (any thresholds, any timestamps), and every finalized list of the
    group, whether still cached, queued for flushing, or evicted to the database. -/
inductive Holds (c : Cfg) (s : State) (i : Nat) (k : Id) (ts : Int) : Prop
  | unfinalized (j : Nat) (tj : Tracker) : Anc s i j → s.trackers[j]? = some tj →
      tj.committed = false → k ∈ tj.ids → ownBound c tj ts → Holds c s i k ts
  | finalized (t : Tracker) (L : TxList) : s.trackers[i]? = some t → L ∈ s.mgr.log →
      L.normal = t.normal → k ∈ L.ids → ts ≤ L.ts + L.th → Holds c s i k ts

/-- tracker.Has is complete along the chain, in every reachable state. -/
theorem has_complete (c : Cfg) (hb : c.f5b = true) (hc : c.f5c = true) (gOf : Id → Bool)
    (s : State) (hr : Reach c gOf s) (i : Nat) (k : Id) (ts : Int) (h : Holds c s i k ts) :
    trackerHas c s i k ts = true := by
  have inv := hr.inv
  cases h with
  | unfinalized j tj hanc hj hnc hk hbd =>
    exact chain_has c hb s inv.wf k ts j tj hj hnc hk hbd (i + 1) i (Nat.le_refl _) hanc
  | finalized t L hi hL hg hk hts =>
    have hm := has_of_inv c hc inv.mi hL hk hts
    exact chain_has_log c hb s inv.wf k ts L.normal hm (i + 1) i t (Nat.le_refl _) hi hg.symm

/-- manager.Has (= TXIDManager.HasRecent) finds every finalized id. -/
theorem finalized_found (c : Cfg) (hc : c.f5c = true) (gOf : Id → Bool) (s : State)
    (hr : Reach c gOf s) (L : TxList) (hL : L ∈ s.mgr.log) (k : Id) (hk : k ∈ L.ids) (ts : Int)
    (hts : ts ≤ L.ts + L.th) : s.mgr.has c L.normal k ts = true :=
  has_of_inv c hc hr.inv.mi hL hk hts

/-- what lies below a tracker: the chain of its parent, or (no parent) the finalized lists -/
def Below (c : Cfg) (s : State) (t : Tracker) (k : Id) (ts : Int) : Prop :=
  match t.parent with
  | some p => Holds c s p k ts
  | none => ∃ L ∈ s.mgr.log, L.normal = t.normal ∧ k ∈ L.ids ∧ ts ≤ L.ts + L.th

/-- General form: an unforced Add that succeeds holds no id twice and no id of a block below it. -/
theorem no_replay_cfg (c : Cfg) (hb : c.f5b = true) (hc : c.f5c = true) (gOf : Id → Bool)
    (s : State) (hr : Reach c gOf s) (i : Nat) (t : Tracker) (hi : s.trackers[i]? = some t)
    (txs : List (Id × Int)) (n : Nat) (hadd : (s.add c i txs false).2 = .ok n) :
    (txs.map (·.1)).Nodup ∧ ∀ x ∈ txs, ¬ Below c s t x.1 x.2 := by
  unfold State.add at hadd
  simp only [hi] at hadd
  split at hadd
  · cases hadd
  · split at hadd
    · cases hadd
    · simp only at hadd
      have hok : (addLoop c s t false txs []).2 = true := by
        cases h2 : (addLoop c s t false txs []).2
        · simp [h2] at hadd
        · rfl
      obtain ⟨hph, _, hnd, _⟩ := addLoop_ok c s t txs [] hok
      refine ⟨hnd, ?_⟩
      intro x hx hbelow
      have hfalse := hph x hx
      unfold Below at hbelow
      unfold parentHas at hfalse
      cases hp : t.parent with
      | some p =>
        simp only [hp] at hbelow hfalse
        have := has_complete c hb hc gOf s hr p x.1 x.2 hbelow
        rw [this] at hfalse; cases hfalse
      | none =>
        simp only [hp] at hbelow hfalse
        obtain ⟨L, hL, hg, hk, hts⟩ := hbelow
        have := has_of_inv c hc hr.inv.mi hL hk hts
        rw [hg] at this
        rw [this] at hfalse; cases hfalse

/-- Full-strength statement, for the code with F5 repaired as well (`Cfg.repaired`): along any
    chain with any mix of unfinalized / finalized ancestors, any commit and flush timing and any
    per-block (ts, th), an accepted block holds no id twice and no id that a block below it holds,
    for every transaction timestamp up to and including that block's upper window bound. -/
theorem no_replay (gOf : Id → Bool) (s : State) (hr : Reach Cfg.repaired gOf s) (i : Nat)
    (t : Tracker) (hi : s.trackers[i]? = some t) (txs : List (Id × Int)) (n : Nat)
    (hadd : (s.add Cfg.repaired i txs false).2 = .ok n) :
    (txs.map (·.1)).Nodup ∧ ∀ x ∈ txs, ¬ Below Cfg.repaired s t x.1 x.2 :=
  no_replay_cfg Cfg.repaired rfl rfl gOf s hr i t hi txs n hadd

/-- The code in the tree (`Cfg.tree`, F5 present).  Same statement, except that for an
    *unfinalized* ancestor the timestamp must be strictly below its upper window bound
    (`ownBound Cfg.tree t ts` is `ts < t.ts + t.th`); finalized ancestors are covered up to and
    including the bound.
    Full statement (not provable for the tree, see `f5_boundary_replay_in_tree`): as `no_replay`. -/
theorem no_replay_tree_partial (gOf : Id → Bool) (s : State) (hr : Reach Cfg.tree gOf s) (i : Nat)
    (t : Tracker) (hi : s.trackers[i]? = some t) (txs : List (Id × Int)) (n : Nat)
    (hadd : (s.add Cfg.tree i txs false).2 = .ok n) :
    (txs.map (·.1)).Nodup ∧ ∀ x ∈ txs, ¬ Below Cfg.tree s t x.1 x.2 :=
  no_replay_cfg Cfg.tree rfl rfl gOf s hr i t hi txs n hadd

theorem ownBound_repaired (t : Tracker) (ts : Int) : ownBound Cfg.repaired t ts ↔ ts ≤ t.ts + t.th := by
  simp [ownBound, Cfg.repaired]

theorem ownBound_tree (t : Tracker) (ts : Int) : ownBound Cfg.tree t ts ↔ ts < t.ts + t.th := by
  simp [ownBound, Cfg.tree]

/-! ### Concrete histories: non-vacuity and witnesses -/

namespace Witness

/-- root (100,10); child 1 (101,10) holds id 1 with timestamp 111 = 101+10; child 2 (105,10) -/
def f5 (c : Cfg) : State :=
  let s0 := State.init.newRoot true 100 10
  let s1 := (s0.newChild 0 101 10).getD s0
  let s2 := (s1.add c 1 [(1, 111)] false).1
  (s2.newChild 1 105 10).getD s2

/-- parent (100,50) holds 1@130; child (110,10); grandchild (125,10) -/
def f5b (c : Cfg) : State :=
  let s0 := State.init.newRoot true 99 50
  let s1 := (s0.newChild 0 100 50).getD s0
  let s2 := (s1.add c 1 [(1, 130)] false).1
  let s3 := (s2.newChild 1 110 10).getD s2
  let s4 := (s3.add c 2 [(2, 110)] false).1
  (s4.newChild 2 125 10).getD s4

/-- (100,10) holds 1@110, finalized and flushed; (130,10) finalized and flushed evicts it;
    then a block (131,30) whose window (101,161] contains 110 -/
def f5c (c : Cfg) : State :=
  let s0 := State.init.newRoot true 99 10
  let s1 := (s0.newChild 0 100 10).getD s0
  let s2 := (s1.add c 1 [(1, 110)] false).1
  let s3 := (s2.commit 1).flushStep.flushStep
  let s4 := (s3.newChild 1 130 10).getD s3
  let s5 := (s4.add c 2 [(2, 130)] false).1
  let s6 := (s5.commit 2).flushStep
  (s6.newChild 2 131 30).getD s6

/-- service-style root (0,50); (100,50) holds 1@150, finalized and flushed; RESTART; root (0,10);
    (110,10) and (131,10) finalized (the second evicts the first: maxTSInDB = 120); then (140,10),
    whose window (130,150] contains 150 -/
def f5d (c : Cfg) : State :=
  let s0 := State.init.newRoot true 0 50
  let s1 := (s0.newChild 0 100 50).getD s0
  let s2 := (s1.add c 1 [(1, 150)] false).1
  let s3 := ((s2.commit 1).flushStep.flushStep).restart
  let s4 := s3.newRoot true 0 10
  let s5 := (s4.newChild 0 110 10).getD s4
  let s6 := (s5.add c 1 [(2, 110)] false).1
  let s7 := (s6.commit 1).flushStep.flushStep
  let s8 := (s7.newChild 1 131 10).getD s7
  let s9 := (s8.add c 2 [(3, 131)] false).1
  let s10 := (s9.commit 2).flushStep
  (s10.newChild 2 140 10).getD s10

end Witness

/-- F5 in the tree: id 1 (timestamp 111, inside both windows) is held by the unfinalized parent
    (101,10) at its upper bound and accepted again by the child (105,10). -/
theorem f5_boundary_replay_in_tree :
    (Witness.f5 Cfg.tree).trackers[1]?.map (·.ids) = some [1] ∧
    windowCheck 101 10 111 = .ok ∧ windowCheck 105 10 111 = .ok ∧
    ((Witness.f5 Cfg.tree).add Cfg.tree 2 [(1, 111)] false).2 = .ok 1 := by decide

/-- with F5 repaired the same history rejects the duplicate -/
theorem f5_boundary_rejected_when_repaired :
    ((Witness.f5 Cfg.repaired).add Cfg.repaired 2 [(1, 111)] false).2 = .dup 0 := by decide

/-- F5b at the pinned commit: threshold lowered from 50 to 10; id 1@130 of the grandparent is
    accepted again by the grandchild (125,10).  The tree rejects it. -/
theorem f5b_lowered_threshold_replay_pinned :
    windowCheck 100 50 130 = .ok ∧ windowCheck 125 10 130 = .ok ∧
    ((Witness.f5b Cfg.pinned).add Cfg.pinned 3 [(1, 130)] false).2 = .ok 1 ∧
    ((Witness.f5b Cfg.tree).add Cfg.tree 3 [(1, 130)] false).2 = .dup 0 := by decide

/-- F5c at the pinned commit: after eviction maxTSInDB = 110 and a lookup with ts = 110 is
    answered "absent" without looking into the database.  The tree finds it. -/
theorem f5c_evicted_boundary_replay_pinned :
    windowCheck 100 10 110 = .ok ∧ windowCheck 131 30 110 = .ok ∧
    (Witness.f5c Cfg.pinned).mgr.cacheN.maxTS = 110 ∧
    ((Witness.f5c Cfg.pinned).add Cfg.pinned 3 [(1, 110)] false).2 = .ok 1 ∧
    ((Witness.f5c Cfg.tree).add Cfg.tree 3 [(1, 110)] false).2 = .dup 0 := by decide

/-- F5d (tree, and also with F5 repaired): a transaction finalized BEFORE A RESTART is known to
    the new manager only through the database, but maxTSInDB is rebuilt from the lists evicted
    since the restart; if their windows end earlier (threshold lowered: 50 → 10), the lookup is
    answered "absent" without reading the database and 1@150 is accepted a second time. -/
theorem f5d_restart_lowered_threshold_replay_in_tree :
    windowCheck 100 50 150 = .ok ∧ windowCheck 140 10 150 = .ok ∧
    (1 ∈ (Witness.f5d Cfg.tree).mgr.db) ∧ (Witness.f5d Cfg.tree).mgr.cacheN.maxTS = 120 ∧
    ((Witness.f5d Cfg.tree).add Cfg.tree 3 [(1, 150)] false).2 = .ok 1 ∧
    ((Witness.f5d Cfg.repaired).add Cfg.repaired 3 [(1, 150)] false).2 = .ok 1 := by decide

/-- non-vacuity: the witness histories are `Reach`able, the chain predicate is inhabited, and
    an unforced Add can succeed on a non-empty chain -/
theorem some_getD {α : Type} (o : Option α) (d : α) (h : o.isSome = true) : o = some (o.getD d) := by
  cases o <;> simp_all

theorem nonvacuous_reach (c : Cfg) : Reach c (fun _ => true) (Witness.f5 c) := by
  unfold Witness.f5
  have h0 : Reach c (fun _ => true) (State.init.newRoot true 100 10) := Reach.root _ _ _ _ Reach.init
  have e1 : (State.init.newRoot true 100 10).newChild 0 101 10 =
      some (((State.init.newRoot true 100 10).newChild 0 101 10).getD (State.init.newRoot true 100 10)) := by
    simp [State.newChild, State.newRoot, State.init]
  have h1 := Reach.child _ _ 0 101 10 h0 e1
  have h2 := Reach.add _ 1 [(1, 111)] false h1 (by
    intro t ht
    simp [State.newChild, State.newRoot, State.init] at ht
    subst ht
    simp)
  refine Reach.child _ _ 1 105 10 h2 (some_getD _ _ ?_)
  cases c with
  | mk a b d => cases a <;> cases b <;> cases d <;> decide

example : Holds Cfg.repaired (Witness.f5 Cfg.repaired) 1 1 111 :=
  Holds.unfinalized 1 ⟨true, 101, 10, [1], false, some 0⟩ (Anc.refl 1) (by decide) rfl (by decide)
    (by simp [ownBound, Cfg.repaired])

example : ((Witness.f5 Cfg.tree).add Cfg.tree 2 [(2, 110), (3, 112)] false).2 = .ok 2 := by decide

end Goloop.C11
