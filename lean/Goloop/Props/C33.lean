/-
  Props/C33 — "Flooded messages are delivered once and only from authorized origins".

  `onPacket pool e` is the decision of `PeerToPeer.onPacket` for a packet of a
  non-control protocol (`Ev` = everything the function reads), `put`/`clear`/`newPool`
  the `PacketPool` with `nb` buckets of `bl` entries (20 × 500 in p2p.go).
  A message is identified by `hashOfPacket` (FNV-64 of header and payload, see C30).
-/
import Goloop.Proofs.C33
namespace Goloop.C33
open Goloop.C33.Proofs

/-- complete decision table: a packet is handed to the registered callback iff the peer
    registered the protocol, its connection type is determined, the source is not this node,
    one-hop packets (ttl ≠ 0 or dest = peer) come from their source, an originator's
    broadcast comes from a peer holding the root (validator) role, a callback exists, and —
    for flooded packets — the hash is new to the pool. -/
theorem deliver_iff (pool : Pool) (e : Ev) :
    (onPacket pool e).2 = .deliver ↔
      e.peerHasProto = true ∧ e.connNone = false ∧ e.self ≠ e.src ∧
      (e.isOneHop = true → e.peerId = e.src) ∧
      (e.isBroadcast = true → e.peerId = e.src → e.hasRoot = true) ∧
      e.hasCb = true ∧
      (e.isOneHop = false → (put pool e.hash).2 = true) := by
  unfold onPacket Ev.isSourcePeer
  cases h1 : e.peerHasProto <;> cases h2 : e.connNone <;> cases h6 : e.hasCb <;>
    cases h4 : e.isOneHop <;> cases h5 : e.isBroadcast <;> cases h7 : e.hasRoot <;>
    cases h8 : (put pool e.hash).2 <;>
    by_cases h3 : e.self = e.src <;> by_cases h9 : e.peerId = e.src <;> simp [h3, h9, h8]

/-- one-hop packets (ttl ≠ 0 or dest = 0xFF) are accepted only from their originating peer. -/
theorem onehop_only_from_source (pool : Pool) (e : Ev)
    (hd : (onPacket pool e).2 = .deliver) (h1 : e.ttl ≠ 0 ∨ e.dest = destPeer) :
    e.peerId = e.src := by
  have := ((deliver_iff pool e).mp hd).2.2.2.1
  apply this
  unfold Ev.isOneHop
  rcases h1 with h | h
  · simp [h]
  · simp [h]

example : (onPacket (newPool 20 500)
    { peerHasProto := true, connNone := false, self := [0], peerId := [1], peerRole := 0,
      src := [1], dest := destPeer, ttl := 1, hasCb := true, hash := 7 }).2 = .deliver := by decide
example : (onPacket (newPool 20 500)
    { peerHasProto := true, connNone := false, self := [0], peerId := [1], peerRole := 2,
      src := [2], dest := destPeer, ttl := 1, hasCb := true, hash := 7 }).2 = .dropOneHopSrc := by decide

/-- a broadcast (dest = any, ttl = 0) received from its originator is accepted only when that
    peer holds the root (validator) role. -/
theorem broadcast_origin_needs_root_role (pool : Pool) (e : Ev)
    (hd : (onPacket pool e).2 = .deliver) (hdest : e.dest = destAny) (httl : e.ttl = 0)
    (hsrc : e.peerId = e.src) : e.peerRole &&& roleRoot = roleRoot := by
  have := ((deliver_iff pool e).mp hd).2.2.2.2.1
  have hr := this (by unfold Ev.isBroadcast; simp [hdest, httl]) hsrc
  unfold Ev.hasRoot at hr
  simpa using hr

example : (onPacket (newPool 20 500)
    { peerHasProto := true, connNone := false, self := [0], peerId := [1], peerRole := 2,
      src := [1], dest := destAny, ttl := 0, hasCb := true, hash := 7 }).2 = .deliver := by decide
example : (onPacket (newPool 20 500)
    { peerHasProto := true, connNone := false, self := [0], peerId := [1], peerRole := 1,
      src := [1], dest := destAny, ttl := 0, hasCb := true, hash := 7 }).2 = .dropNotAuthorized := by decide

/-- packets claiming this node as source are never delivered. -/
theorem self_source_never_delivered (pool : Pool) (e : Ev)
    (hd : (onPacket pool e).2 = .deliver) : e.self ≠ e.src :=
  ((deliver_iff pool e).mp hd).2.2.1

/-- **PacketPool retention**: in any state reachable from `NewPacketPool(nb, bl)` (`nb, bl ≥ 1`)
    by `Put`/`Clear`, once `Put(h)` has been accepted, and however `Put`s continue (`xs`, no
    `Clear`), a later `Put(h)` is accepted only after at least `(nb − 1)·bl` other accepted
    `Put`s: within any window of `(nb−1)·bl` accepted packets a hash is accepted at most once. -/
theorem pool_put_once (nb bl : Nat) (h1 : 1 ≤ nb) (h2 : 1 ≤ bl) (p : Pool) (r : Reach nb bl p)
    (h : UInt64) (hacc : (put p h).2 = true) (xs : List UInt64) (n : Nat)
    (hre : reaccept (put p h).1 h xs = some n) : (nb - 1) * bl ≤ n := by
  obtain ⟨wf, e1, e2⟩ := reach_wf nb bl h1 h2 p r
  have hc := (put_flag_iff p h).mp hacc
  have hs := safe_new p wf h hc
  rw [e1, e2] at hs
  exact reaccept_ge h xs (put p h).1 _ n (wf_put p wf h) hs hre

/-- non-vacuity and tightness: with 3 buckets of 2, a hash put as the second entry of a bucket
    is accepted again after exactly (3−1)·2 = 4 other accepted puts, not earlier. -/
example : let p := (put (newPool 3 2) 100).1
    (put p 7).2 = true ∧ reaccept (put p 7).1 7 [1, 2, 7, 3, 7, 4, 7] = some 4 := by decide

/-- the bound is tight (the code forgets a hash after exactly `(nb−1)·bl` accepted puts when the
    hash was the entry that filled its bucket). -/
theorem pool_bound_tight_witness :
    reaccept (put (put (newPool 3 2) 100).1 7).1 7 [1, 2, 3, 4, 7] = some 4 := by decide

/-- **delivered once**: for a node whose pool is in any reachable state, after a flooded packet
    with hash `h` has been delivered, and whatever packets arrive from whatever peers (`es`),
    a flooded packet with the same hash is delivered again only after at least `(nb−1)·bl`
    other flooded packets have been delivered in between. -/
theorem flood_delivered_once (nb bl : Nat) (h1 : 1 ≤ nb) (h2 : 1 ≤ bl) (p : Pool)
    (r : Reach nb bl p) (e : Ev) (hoh : e.isOneHop = false)
    (hd : (onPacket p e).2 = .deliver) (es : List Ev) (n : Nat)
    (hre : redeliver (onPacket p e).1 e.hash es = some n) : (nb - 1) * bl ≤ n := by
  obtain ⟨wf, e1, e2⟩ := reach_wf nb bl h1 h2 p r
  rcases onPacket_cases p e with ⟨_, hx⟩ | ⟨_, hp, hq⟩
  · rw [hx hd] at hoh; cases hoh
  · have hacc := hq.mp hd
    have hc := (put_flag_iff p e.hash).mp hacc
    have hs := safe_new p wf e.hash hc
    rw [e1, e2] at hs
    rw [hp] at hre
    exact redeliver_ge e.hash es (put p e.hash).1 _ n (wf_put p wf e.hash) hs hre

/-- the pool of a node stays in a reachable state along any packet history. -/
theorem onPacket_reach (nb bl : Nat) (p : Pool) (r : Reach nb bl p) (e : Ev) :
    Reach nb bl (onPacket p e).1 := by
  rcases onPacket_cases p e with ⟨hx, _⟩ | ⟨_, hp, _⟩
  · rw [hx]; exact r
  · rw [hp]; exact Reach.put p e.hash r

/-- one-hop packets bypass the pool: they are delivered every time they arrive. -/
theorem onehop_not_deduplicated (pool : Pool) (e : Ev) (h : e.isOneHop = true) :
    (onPacket pool e).1 = pool := by
  rcases onPacket_cases pool e with ⟨hx, _⟩ | ⟨hn, _, _⟩
  · exact hx
  · rw [h] at hn; cases hn

/-- a relayed broadcast arriving through two different peers: delivered once. -/
def exRelay (peer : Bytes) : Ev :=
  { peerHasProto := true, connNone := false, self := [0], peerId := peer,
    peerRole := 0, src := [9], dest := destAny, ttl := 0, hasCb := true, hash := 7 }

example : (onPacket (newPool 20 500) (exRelay [1])).2 = .deliver ∧
    (onPacket (onPacket (newPool 20 500) (exRelay [1])).1 (exRelay [2])).2 = .dropDuplicate := by
  decide

/-! ### the whole of onPacket (control branch included) and relaying -/

/-- control-protocol packets (protocol id 0) never reach an application callback and never touch
    the pool, whatever their sub protocol, source, ttl or destination. -/
theorem control_never_delivered (pool : Pool) (e : Ev) (h : e.protoId = 0) :
    (onPacketFull pool e).2 ≠ .deliver ∧ (onPacketFull pool e).1 = pool := by
  unfold onPacketFull
  cases e.peerHasProto <;> cases hv : (e.protoVer == 0) <;> cases ctlOf e.sub <;> simp [h, hv]

/-- for every other protocol the full function is the application branch, so the complete
    decision table `deliver_iff` applies to it. -/
theorem full_deliver_iff (pool : Pool) (e : Ev) :
    (onPacketFull pool e).2 = .deliver ↔ e.protoId ≠ 0 ∧ (onPacket pool e).2 = .deliver := by
  unfold onPacketFull
  by_cases h0 : e.protoId = 0
  · have := (control_never_delivered pool e h0).1
    unfold onPacketFull at this
    simp [h0] at this ⊢
    cases hp : e.peerHasProto
    · simp
    · simp [hp] at this ⊢; exact this
  · cases hp : e.peerHasProto
    · simp [h0, onPacket, hp]
    · simp [h0]

example : (onPacketFull (newPool 20 500)
    { peerHasProto := true, connNone := false, self := [0], peerId := [1], peerRole := 2,
      src := [1], dest := destAny, ttl := 0, hasCb := true, hash := 7,
      protoId := 0, protoVer := 0, sub := 0x0700 }).2 = .control .queryReq := by decide

/-- **delivered once, full onPacket**: same statement as `flood_delivered_once` for the complete
    function: whatever mixture of control and application packets arrives from whatever peers,
    a flooded packet with the same hash is handed to the application again only after at least
    `(nb−1)·bl` other flooded packets were delivered. -/
theorem flood_delivered_once_full (nb bl : Nat) (h1 : 1 ≤ nb) (h2 : 1 ≤ bl) (p : Pool)
    (r : Reach nb bl p) (e : Ev) (hoh : e.isOneHop = false)
    (hd : (onPacketFull p e).2 = .deliver) (es : List Ev) (n : Nat)
    (hre : redeliverG onPacketFull (onPacketFull p e).1 e.hash es = some n) : (nb - 1) * bl ≤ n := by
  obtain ⟨wf, e1, e2⟩ := reach_wf nb bl h1 h2 p r
  rcases onPacketFull_cases p e with ⟨_, hx⟩ | ⟨_, hp, hq⟩
  · rw [hx hd] at hoh; cases hoh
  · have hacc := hq.mp hd
    have hc := (put_flag_iff p e.hash).mp hacc
    have hs := safe_new p wf e.hash hc
    rw [e1, e2] at hs
    rw [hp] at hre
    exact redeliverG_ge onPacketFull onPacketFull_cases e.hash es (put p e.hash).1 _ n
      (wf_put p wf e.hash) hs hre

theorem onPacketFull_reach (nb bl : Nat) (p : Pool) (r : Reach nb bl p) (e : Ev) :
    Reach nb bl (onPacketFull p e).1 := by
  rcases onPacketFull_cases p e with ⟨hx, _⟩ | ⟨_, hp, _⟩
  · rw [hx]; exact r
  · rw [hp]; exact Reach.put p e.hash r

/-- relaying is a consequence of a flooded delivery and nothing else: the node relays only a
    packet it has just delivered, with ttl 0 and not addressed to a single peer (hence not
    one-hop), and the receive step is the only place the pool and the callback are touched —
    the relay itself neither delivers nor changes the pool. -/
theorem relay_only_after_flood_delivery (n : Node) (frm : Nat) (e : Ev) (isRelay : Bool) :
    (nodeStep n frm e isRelay).1.pool = (onPacketFull n.pool e).1 ∧
    (nodeStep n frm e isRelay).2.1 = (onPacketFull n.pool e).2 ∧
    ((nodeStep n frm e isRelay).2.2 ≠ [] →
      (onPacketFull n.pool e).2 = .deliver ∧ isRelay = true ∧ e.isOneHop = false) := by
  refine ⟨rfl, rfl, ?_⟩
  intro hne
  unfold nodeStep at hne
  simp only at hne
  by_cases hc : (onPacketFull n.pool e).2 = .deliver ∧ relayWanted isRelay e = true
  · refine ⟨hc.1, ?_, ?_⟩
    · have := hc.2; unfold relayWanted at this; simp at this; exact this.1.1
    · have := hc.2; unfold relayWanted at this; simp at this
      unfold Ev.isOneHop; simp [this.1.2, this.2]
  · rw [if_neg hc] at hne; exact absurd rfl hne

/-- whom a relayed packet goes to: only connected peers that registered the protocol, never the
    packet's source, never the peer it was received from, never a peer whose history already
    contains the hash. -/
theorem relay_targets_exclude (selfRole : UInt8) (peers : List PeerInfo) (e : Ev) (sender : Bytes)
    (x : Bytes) (hx : x ∈ relaySend selfRole peers e sender) :
    ∃ p ∈ peers, p.id = x ∧ p.hasProto = true ∧ p.closed = false ∧
      p.id ≠ e.src ∧ p.id ≠ sender ∧ e.hash ∉ p.known := by
  unfold relaySend at hx
  split at hx
  · simp at hx
  · simp only [List.mem_map, List.mem_filter] at hx
    obtain ⟨p, ⟨⟨hp, hc⟩, hd⟩, rfl⟩ := hx
    refine ⟨p, hp, rfl, ?_⟩
    unfold dupToSend at hd
    simp at hc hd
    exact ⟨hc.1.1, hc.1.2, hd.1.1, hd.1.2, hd.2⟩

/-- in particular the packet never goes back to the peer that sent it: `nodeStep` records the
    hash in that peer's history before relaying, and passes it as `sender`. -/
theorem relay_not_back_to_sender (n : Node) (frm : Nat) (e : Ev) (isRelay : Bool) :
    e.peerId ∉ (nodeStep n frm e isRelay).2.2 ∧ e.src ∉ (nodeStep n frm e isRelay).2.2 := by
  unfold nodeStep
  simp only
  split
  · constructor
    · intro hx
      obtain ⟨p, _, h1, _, _, _, h5, _⟩ := relay_targets_exclude _ _ e e.peerId _ hx
      exact h5 h1
    · intro hx
      obtain ⟨p, _, h1, _, _, h4, _, _⟩ := relay_targets_exclude _ _ e e.peerId _ hx
      exact h4 h1
  · simp

def exPeers : List PeerInfo :=
  [ { id := [1], connType := ctChildren, hasProto := true, known := [] },
    { id := [2], connType := ctChildren, hasProto := true, known := [] },
    { id := [3], connType := ctOther, hasProto := true, known := [7] },
    { id := [4], connType := ctParent, hasProto := true, known := [] } ]

/-- non-vacuity: a broadcast from source 9 received through child 1 is relayed to child 2 only
    (not back to 1, not to 3 which already has it, not upwards to the parent 4). -/
example : (nodeStep { pool := newPool 20 500, selfRole := 0, peers := exPeers } 0 (exRelay [1]) true).2
    = (.deliver, [[2]]) := by decide

end Goloop.C33
