/-
  Props/C33 — "Flooded messages are delivered once and only from authorized origins".

  `onPacket pool e` is the decision of `PeerToPeer.onPacket` for a packet of a
  non-control protocol (`Ev` = everything the function reads), `put`/`clear`/`newPool`
  the `PacketPool` with `nb` buckets of `bl` entries (20 × 500 in p2p.go).
  A message is identified by `hashOfPacket` (FNV-64 of header and payload, see C30).
-/
import Goloop.Proofs.C33
namespace Goloop.C33
open Goloop.C33.Proofs

/-- complete decision table: a packet is handed to the registered callback iff the peer
    registered the protocol, its connection type is determined, the source is not this node,
    one-hop packets (ttl ≠ 0 or dest = peer) come from their source, an originator's
    broadcast comes from a peer holding the root (validator) role, a callback exists, and —
    for flooded packets — the hash is new to the pool. -/
theorem deliver_iff (pool : Pool) (e : Ev) :
    (onPacket pool e).2 = .deliver ↔
      e.peerHasProto = true ∧ e.connNone = false ∧ e.self ≠ e.src ∧
      (e.isOneHop = true → e.peerId = e.src) ∧
      (e.isBroadcast = true → e.peerId = e.src → e.hasRoot = true) ∧
      e.hasCb = true ∧
      (e.isOneHop = false → (put pool e.hash).2 = true) := by
  unfold onPacket Ev.isSourcePeer
  cases h1 : e.peerHasProto <;> cases h2 : e.connNone <;> cases h6 : e.hasCb <;>
    cases h4 : e.isOneHop <;> cases h5 : e.isBroadcast <;> cases h7 : e.hasRoot <;>
    cases h8 : (put pool e.hash).2 <;>
    by_cases h3 : e.self = e.src <;> by_cases h9 : e.peerId = e.src <;> simp [h3, h9, h8]

/-- one-hop packets (ttl ≠ 0 or dest = 0xFF) are accepted only from their originating peer. -/
theorem onehop_only_from_source (pool : Pool) (e : Ev)
    (hd : (onPacket pool e).2 = .deliver) (h1 : e.ttl ≠ 0 ∨ e.dest = destPeer) :
    e.peerId = e.src := by
  have := ((deliver_iff pool e).mp hd).2.2.2.1
  apply this
  unfold Ev.isOneHop
  rcases h1 with h | h
  · simp [h]
  · simp [h]

example : (onPacket (newPool 20 500)
    { peerHasProto := true, connNone := false, self := [0], peerId := [1], peerRole := 0,
      src := [1], dest := destPeer, ttl := 1, hasCb := true, hash := 7 }).2 = .deliver := by decide
example : (onPacket (newPool 20 500)
    { peerHasProto := true, connNone := false, self := [0], peerId := [1], peerRole := 2,
      src := [2], dest := destPeer, ttl := 1, hasCb := true, hash := 7 }).2 = .dropOneHopSrc := by decide

/-- a broadcast (dest = any, ttl = 0) received from its originator is accepted only when that
    peer holds the root (validator) role. -/
theorem broadcast_origin_needs_root_role (pool : Pool) (e : Ev)
    (hd : (onPacket pool e).2 = .deliver) (hdest : e.dest = destAny) (httl : e.ttl = 0)
    (hsrc : e.peerId = e.src) : e.peerRole &&& roleRoot = roleRoot := by
  have := ((deliver_iff pool e).mp hd).2.2.2.2.1
  have hr := this (by unfold Ev.isBroadcast; simp [hdest, httl]) hsrc
  unfold Ev.hasRoot at hr
  simpa using hr

example : (onPacket (newPool 20 500)
    { peerHasProto := true, connNone := false, self := [0], peerId := [1], peerRole := 2,
      src := [1], dest := destAny, ttl := 0, hasCb := true, hash := 7 }).2 = .deliver := by decide
example : (onPacket (newPool 20 500)
    { peerHasProto := true, connNone := false, self := [0], peerId := [1], peerRole := 1,
      src := [1], dest := destAny, ttl := 0, hasCb := true, hash := 7 }).2 = .dropNotAuthorized := by decide

/-- packets claiming this node as source are never delivered. -/
theorem self_source_never_delivered (pool : Pool) (e : Ev)
    (hd : (onPacket pool e).2 = .deliver) : e.self ≠ e.src :=
  ((deliver_iff pool e).mp hd).2.2.1

/-- **PacketPool retention**: in any state reachable from `NewPacketPool(nb, bl)` (`nb, bl ≥ 1`)
    by `Put`/`Clear`, once `Put(h)` has been accepted, and however `Put`s continue (`xs`, no
    `Clear`), a later `Put(h)` is accepted only after at least `(nb − 1)·bl` other accepted
    `Put`s: within any window of `(nb−1)·bl` accepted packets a hash is accepted at most once. -/
theorem pool_put_once (nb bl : Nat) (h1 : 1 ≤ nb) (h2 : 1 ≤ bl) (p : Pool) (r : Reach nb bl p)
    (h : UInt64) (hacc : (put p h).2 = true) (xs : List UInt64) (n : Nat)
    (hre : reaccept (put p h).1 h xs = some n) : (nb - 1) * bl ≤ n := by
  obtain ⟨wf, e1, e2⟩ := reach_wf nb bl h1 h2 p r
  have hc := (put_flag_iff p h).mp hacc
  have hs := safe_new p wf h hc
  rw [e1, e2] at hs
  exact reaccept_ge h xs (put p h).1 _ n (wf_put p wf h) hs hre

/-- non-vacuity and tightness: with 3 buckets of 2, a hash put as the second entry of a bucket
    is accepted again after exactly (3−1)·2 = 4 other accepted puts, not earlier. -/
example : let p := (put (newPool 3 2) 100).1
    (put p 7).2 = true ∧ reaccept (put p 7).1 7 [1, 2, 7, 3, 7, 4, 7] = some 4 := by decide

/-- the bound is tight (the code forgets a hash after exactly `(nb−1)·bl` accepted puts when the
    hash was the entry that filled its bucket). -/
theorem pool_bound_tight_witness :
    reaccept (put (put (newPool 3 2) 100).1 7).1 7 [1, 2, 3, 4, 7] = some 4 := by decide

/-- **delivered once**: for a node whose pool is in any reachable state, after a flooded packet
    with hash `h` has been delivered, and whatever packets arrive from whatever peers (`es`),
    a flooded packet with the same hash is delivered again only after at least `(nb−1)·bl`
    other flooded packets have been delivered in between. -/
theorem flood_delivered_once (nb bl : Nat) (h1 : 1 ≤ nb) (h2 : 1 ≤ bl) (p : Pool)
    (r : Reach nb bl p) (e : Ev) (hoh : e.isOneHop = false)
    (hd : (onPacket p e).2 = .deliver) (es : List Ev) (n : Nat)
    (hre : redeliver (onPacket p e).1 e.hash es = some n) : (nb - 1) * bl ≤ n := by
  obtain ⟨wf, e1, e2⟩ := reach_wf nb bl h1 h2 p r
  rcases onPacket_cases p e with ⟨_, hx⟩ | ⟨_, hp, hq⟩
  · rw [hx hd] at hoh; cases hoh
  · have hacc := hq.mp hd
    have hc := (put_flag_iff p e.hash).mp hacc
    have hs := safe_new p wf e.hash hc
    rw [e1, e2] at hs
    rw [hp] at hre
    exact redeliver_ge e.hash es (put p e.hash).1 _ n (wf_put p wf e.hash) hs hre

/-- the pool of a node stays in a reachable state along any packet history. -/
theorem onPacket_reach (nb bl : Nat) (p : Pool) (r : Reach nb bl p) (e : Ev) :
    Reach nb bl (onPacket p e).1 := by
  rcases onPacket_cases p e with ⟨hx, _⟩ | ⟨_, hp, _⟩
  · rw [hx]; exact r
  · rw [hp]; exact Reach.put p e.hash r

/-- one-hop packets bypass the pool: they are delivered every time they arrive. -/
theorem onehop_not_deduplicated (pool : Pool) (e : Ev) (h : e.isOneHop = true) :
    (onPacket pool e).1 = pool := by
  rcases onPacket_cases pool e with ⟨hx, _⟩ | ⟨hn, _, _⟩
  · exact hx
  · rw [h] at hn; cases hn

/-- a relayed broadcast arriving through two different peers: delivered once. -/
def exRelay (peer : Bytes) : Ev :=
  { peerHasProto := true, connNone := false, self := [0], peerId := peer,
    peerRole := 0, src := [9], dest := destAny, ttl := 0, hasCb := true, hash := 7 }

example : (onPacket (newPool 20 500) (exRelay [1])).2 = .deliver ∧
    (onPacket (onPacket (newPool 20 500) (exRelay [1])).1 (exRelay [2])).2 = .dropDuplicate := by
  decide

end Goloop.C33
