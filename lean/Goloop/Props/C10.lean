/-
  Props/C10 — "Block execution never silently drops a transaction".

  `Tx` describes what a transaction's handler does in every execution attempt;
  `txSeq t i` / `txPar t i` are the outcome of transaction `i` under the
  sequential / concurrent retry loop (`ok k` = attempt `k` produced the
  receipt, `error e`).  `execSeq`, `execPar c sched` are the executors; a
  schedule `sched : List Nat` resolves every choice "which blocked goroutine
  (dispatcher or one of the workers) runs next", so `∀ sched` is "for every
  goroutine schedule / worker completion order" of the modelled system.
  All theorems about the concurrent executor are for `fixed = true`, i.e. the
  code with fixes/F4_pe_error_latch.diff; `original_drops_failed_tx` is the
  witness that the original code violates the property.
-/
import Goloop.Proofs.C10
namespace Goloop.C10
open Goloop.C10.Proofs

/-- `executionContext.Report` keeps the first error. -/
theorem latch_keeps_first_error (e0 e : Err) :
    report true (some e0) e = some e0 ∧ report true none e = some e := by
  simp [report]

/-- Sequential mode: either every transaction has exactly its own receipt, in block order, or the
    execution fails with the error of the first failing transaction (all earlier ones succeeded). -/
theorem seq_total (txs : List Tx) :
    (∃ out, execSeq txs = .ok out ∧ out.length = txs.length ∧
      ∀ i (h : i < txs.length), ∃ k, out[i]? = some (some k) ∧ txSeq txs[i] i = .ok k) ∨
    (∃ e, execSeq txs = .error e ∧ ∃ i, ∃ h : i < txs.length, txSeq txs[i] i = .error e ∧
      ∀ j (h' : j < i), ∃ k, txSeq (txs[j]'(by omega)) j = .ok k) := by
  unfold execSeq
  cases hr : seqLoop txs 0 (List.replicate txs.length none) with
  | ok out =>
    left
    obtain ⟨h1, _, h3⟩ := seqLoop_ok txs 0 _ out (by simp) hr
    refine ⟨out, rfl, by simpa using h1, ?_⟩
    intro i h
    simpa using h3 i h
  | error e =>
    right
    obtain ⟨j, hj, h1, h2⟩ := seqLoop_error txs 0 _ e hr
    refine ⟨e, rfl, j, hj, by simpa using h1, ?_⟩
    intro j' h'
    simpa using h2 j' h'
  | stuck => exact absurd hr (seqLoop_not_stuck _ _ _)

theorem cfg_tx (txs : List Tx) (level : Nat) (fixed : Bool) (i : Nat) (h : i < txs.length) :
    (Cfg.mk txs level fixed).tx i = txs[i] := by
  simp [Cfg.tx, List.getD_eq_getElem?_getD, h]

/-- Concurrent mode (fixed code), any level ≥ 1, EVERY schedule: the executor returns (no deadlock,
    within `bound` scheduling steps), and it returns either nil with exactly the receipt of every
    transaction's successful attempt at its own index, or the genuine error of some transaction. -/
theorem par_total (txs : List Tx) (level : Nat) (hl : level ≥ 1) (sched : List Nat) :
    (∃ out, execPar ⟨txs, level, true⟩ sched = .ok out ∧ out.length = txs.length ∧
      ∀ i (h : i < txs.length), ∃ k, out[i]? = some (some k) ∧ txPar txs[i] i = .ok k) ∨
    (∃ e, execPar ⟨txs, level, true⟩ sched = .error e ∧
      ∃ i, ∃ h : i < txs.length, txPar txs[i] i = .error e) := by
  have hi := inv_init (c := ⟨txs, level, true⟩) rfl
  have hr := runFuel_spec (c := ⟨txs, level, true⟩) rfl hl (bound ⟨txs, level, true⟩) _ sched hi.1 hi.2
  obtain ⟨⟨hcore, hpos⟩, r, hd⟩ := hr
  unfold execPar runPar PS.result
  rw [hd] at hpos ⊢
  cases r with
  | none =>
    left
    obtain ⟨hall, hlat⟩ := hpos
    refine ⟨_, rfl, by simp [Cfg.n], ?_⟩
    intro i h
    rcases hcore.done i h (hall i h) with ⟨k, hb, hk⟩ | ⟨hne, _⟩
    · refine ⟨k, ?_, by rw [← cfg_tx txs level true i h]; exact hk⟩
      simp [Cfg.n, h, hb]
    · exact absurd hlat hne
  | some e =>
    right
    obtain ⟨j, hj, he⟩ := hpos
    exact ⟨e, rfl, j, hj, by rw [← cfg_tx txs level true j hj]; exact he⟩

example : (2 : Nat) ≥ 1 ∧ execPar ⟨[⟨false, []⟩, ⟨false, [.efail, .fatal]⟩], 2, true⟩ [1, 0] = .error (1, 1) := by
  decide

/-- A transaction whose handler can be prepared has the same outcome in both modes. -/
theorem tx_outcome_mode_independent (t : Tx) (i : Nat) (hp : t.prep = false) : txPar t i = txSeq t i :=
  txPar_eq_txSeq t i hp

/-- `executeTxs` in either mode, every schedule: exactly one receipt per transaction, each from the
    successful attempt of the transaction at that index (identical in both modes), or an error that
    some transaction really produced. In particular (`failed_tx_fails_block`) never `ok` while a
    transaction failed. -/
theorem exec_total (txs : List Tx) (level : Nat) (sched : List Nat) :
    (∃ out, execTxs txs level true sched = .ok out ∧ out.length = txs.length ∧
      ∀ i (h : i < txs.length), ∃ k, out[i]? = some (some k) ∧ txSeq txs[i] i = .ok k) ∨
    (∃ e, execTxs txs level true sched = .error e ∧
      ∃ i, ∃ h : i < txs.length, txSeq txs[i] i = .error e ∨ txPar txs[i] i = .error e) := by
  unfold execTxs
  by_cases hl : level > 1
  · simp only [hl, if_true]
    rcases par_total txs level (by omega) sched with ⟨out, h1, h2, h3⟩ | ⟨e, h1, i, hi, h2⟩
    · left
      refine ⟨out, h1, h2, ?_⟩
      intro i h
      obtain ⟨k, hk1, hk2⟩ := h3 i h
      exact ⟨k, hk1, by rw [← txPar_eq_txSeq _ _ (txPar_ok_prep hk2)]; exact hk2⟩
    · right
      exact ⟨e, h1, i, hi, Or.inr h2⟩
  · simp only [hl, if_false]
    rcases seq_total txs with ⟨out, h1, h2, h3⟩ | ⟨e, h1, i, hi, h2, _⟩
    · left; exact ⟨out, h1, h2, h3⟩
    · right; exact ⟨e, h1, i, hi, Or.inl h2⟩

/-- A transaction that fails (non-retryable error, retries exhausted, GetHandler error) is never
    skipped while the block is reported executed – in both modes, for every schedule. -/
theorem failed_tx_fails_block (txs : List Tx) (level : Nat) (sched : List Nat) (i : Nat)
    (h : i < txs.length) (e : Err) (hfail : txSeq txs[i] i = .error e) :
    ∀ out, execTxs txs level true sched ≠ .ok out := by
  intro out hout
  rcases exec_total txs level sched with ⟨out', h1, _, h3⟩ | ⟨e', h1, _⟩
  · obtain ⟨k, _, hk⟩ := h3 i h
    rw [hfail] at hk
    cases hk
  · rw [hout] at h1
    cases h1

example : txSeq (⟨false, [.efail, .crerun, .efail]⟩ : Tx) 0 = .error (0, 2) := by decide

/-- The outcome class of a concurrent execution does not depend on the schedule: it is `ok`
    exactly when no transaction fails. -/
theorem par_ok_iff (txs : List Tx) (level : Nat) (hl : level ≥ 1) (sched : List Nat) :
    (∃ out, execPar ⟨txs, level, true⟩ sched = .ok out) ↔
      ∀ i (h : i < txs.length), ∃ k, txPar txs[i] i = .ok k := by
  constructor
  · rintro ⟨out, hout⟩
    rcases par_total txs level hl sched with ⟨out', _, _, h3⟩ | ⟨e, h1, _⟩
    · intro i h
      obtain ⟨k, _, hk⟩ := h3 i h
      exact ⟨k, hk⟩
    · rw [hout] at h1; cases h1
  · intro hall
    rcases par_total txs level hl sched with ⟨out', h1, _, _⟩ | ⟨e, _, i, hi, h2⟩
    · exact ⟨out', h1⟩
    · obtain ⟨k, hk⟩ := hall i hi
      rw [hk] at h2; cases h2

/-- WITNESS (original code, before fixes/F4_pe_error_latch.diff): with ConcurrencyLevel 2 the block
    [ok, non-retryable failure, ok] is reported as executed (`nil` error) with receipt 1 missing. -/
theorem original_drops_failed_tx :
    execPar ⟨[⟨false, []⟩, ⟨false, [.fatal]⟩, ⟨false, []⟩], 2, false⟩ [] = .ok [some 0, none, some 0] := by
  decide

end Goloop.C10
