/-
  Props/C34 — staking operations conserve ICX and keep stake accounting consistent
  (current revision).  `run w ops` executes any sequence of blocks; every block carries one
  arbitrary transaction (stake / delegation / bond / transfer / claim / none, which may fail and
  is then rolled back) and an arbitrary issued amount; afterwards the timers of the block fire.
-/
import Goloop.Proofs.C34
namespace Goloop.C34
open Proofs

theorem inv_run (w : World) (ops : List (Tx × Int)) (h : Inv w) : Inv (run w ops) := by
  induction ops generalizing w with
  | nil => exact h
  | cons op rest ih => exact ih _ (inv_block w op.1 op.2 h)

theorem allOk_run (w : World) (ops : List (Tx × Int)) (h : AllOk w) : AllOk (run w ops) := by
  induction ops generalizing w with
  | nil => exact h
  | cons op rest ih => exact ih _ (allOk_block w op.1 op.2 h)

/-- total supply = ICX outside the modelled accounts + Σ (balance + stake + unstaking), after any history. -/
theorem supply_eq (w : World) (ops : List (Tx × Int)) (h : Inv w) :
    (run w ops).totalSupply = (run w ops).rest + sumF Account.holdings (run w ops).accts :=
  (inv_run w ops h).supply

/-- delegated + bonded + unbonding ≤ stake for every account, after any history
    (`AllOk`: it holds initially and no unbonding entry is negative). -/
theorem using_le_stake (w : World) (ops : List (Tx × Int)) (h : AllOk w) :
    ∀ a ∈ (run w ops).accts, a.delegating + a.bonded + a.unbonding ≤ a.stake := by
  intro a ha
  exact (allOk_run w ops h a ha).1

/-- FULL STATEMENT: totalStake, totalDelegation and totalBond (to active P-Reps) equal the per-account sums.
    PARTIAL: proved for totalStake; the delegation/bond totals are only checked by the oracle and the
    correspondence run. -/
theorem totals_are_sums_partial (w : World) (ops : List (Tx × Int)) (h : Inv w) :
    (run w ops).totalStake = sumF Account.stake (run w ops).accts :=
  (inv_run w ops h).stake

/-- FULL STATEMENT: every unstaked amount returns to its owner exactly once, at its expiry height.
    PARTIAL: proved: when the timers of height `h` fire, exactly the slots expiring at `h` leave the list
    and exactly their sum is added to the balance, nothing else changes (together with `supply_eq`
    nothing is created or lost); not proved: that no slot with an expiry in the past can exist
    (checked by the oracle key c34-unstake-overdue on the real state after every block). -/
theorem unstake_returns_once_partial (h : Int) (a : Account) :
    (fire h a).balance = a.balance + sumInt ((a.unstakes.filter (fun u => u.2 == h)).map (·.1)) ∧
    (fire h a).unstakes = a.unstakes.filter (fun u => u.2 != h) ∧
    (fire h a).stake = a.stake ∧ (fire h a).holdings = a.holdings :=
  ⟨rfl, rfl, rfl, fire_holdings h a⟩

/-! ### non-vacuity -/

def exWorld : World :=
  { height := 100, rest := 50, totalSupply := 1050, totalStake := 300, lock := 5, slotMax := 2, unbondPeriod := 3, nPreps := 2,
    accts := [ { balance := 600, stake := 300, unstakes := [(100, 103)], delegs := [(0, 200)], bonds := [(1, 50)],
                 unbonds := [(1, 50, 102)] } ] }

example : Inv exWorld := ⟨by decide, by decide⟩

example : AllOk exWorld := by
  intro a ha
  simp [exWorld] at ha
  subst ha
  refine ⟨by decide, ?_⟩
  intro u hu
  simp at hu
  subst hu
  decide

/-- a history in which stake moves to unstaking, is partly cancelled, and returns at expiry -/
example : ((run exWorld [(Tx.stake 0 300, 0), (Tx.stake 0 310, 7), (Tx.none, 0), (Tx.none, 0)]).accts.map
    (fun a => (a.balance, a.stake, a.unstakes))) = [(690, 310, [])] := by decide

end Goloop.C34
