/-
  Props/C34 — staking operations conserve ICX and keep stake accounting consistent
  (current revision).  `run w ops` executes any sequence of blocks; every block carries any list
  of transactions (stake / delegation / bond / transfer / claim / P-Rep registration /
  unregistration / none; a failing one is rolled back) and an arbitrary issued amount; afterwards
  the unbond and unstake timers of the block's height fire.
-/
import Goloop.Proofs.C34
namespace Goloop.C34
open Proofs

theorem inv_run (w : World) (ops : List (List Tx × Int)) (h : Inv w) : Inv (run w ops) := by
  induction ops generalizing w with
  | nil => exact h
  | cons op rest ih => exact ih _ (inv_block w op.1 op.2 h)

theorem allOk_run (w : World) (ops : List (List Tx × Int)) (h : AllOk w) : AllOk (run w ops) := by
  induction ops generalizing w with
  | nil => exact h
  | cons op rest ih => exact ih _ (allOk_block w op.1 op.2 h)

theorem noOverdue_run (w : World) (ops : List (List Tx × Int)) (h : NoOverdue w) (hg : GoodTimers w ops) :
    NoOverdue (run w ops) := by
  induction ops generalizing w with
  | nil => exact h
  | cons op rest ih => exact ih _ (noOverdue_block w op.1 op.2 h hg.1) hg.2

theorem totals_run (w : World) (ops : List (List Tx × Int)) (hq : ∀ op ∈ ops, ∀ tx ∈ op.1, TxWF tx)
    (h : Totals w) : Totals (run w ops) := by
  induction ops generalizing w with
  | nil => exact h
  | cons op rest ih =>
    exact ih _ (fun o ho => hq o (by simp [ho])) (totals_block w op.1 op.2 (hq op (by simp)) h)

/-- total supply = ICX outside the modelled accounts + Σ (balance + stake + unstaking), after any history. -/
theorem supply_eq (w : World) (ops : List (List Tx × Int)) (h : Inv w) :
    (run w ops).totalSupply = (run w ops).rest + sumF Account.holdings (run w ops).accts :=
  (inv_run w ops h).supply

/-- delegated + bonded + unbonding ≤ stake for every account, after any history
    (`AllOk`: it holds initially and no unbonding entry is negative). -/
theorem using_le_stake (w : World) (ops : List (List Tx × Int)) (h : AllOk w) :
    ∀ a ∈ (run w ops).accts, a.delegating + a.bonded + a.unbonding ≤ a.stake := by
  intro a ha
  exact (allOk_run w ops h a ha).1

/-- The network totals equal the per-account sums after any history: total stake = Σ stakes, total
    delegation = Σ over accounts of their delegations to *currently active* P-Reps, total bond
    likewise — across registrations and unregistrations of P-Reps.  `Totals w`: this (and the
    per-P-Rep caches `delegated`/`bonded` being the per-account sums, active ⊆ registered, bonds only
    to registered P-Reps, stored lists well formed) holds initially; `TxWF`: submitted vote lists have
    distinct targets and non-negative amounts (enforced by the chain SCORE's `NewDelegations`/`NewBonds`). -/
theorem totals_are_sums (w : World) (ops : List (List Tx × Int)) (hi : Inv w) (ht : Totals w)
    (hq : ∀ op ∈ ops, ∀ tx ∈ op.1, TxWF tx) :
    (run w ops).totalStake = sumF Account.stake (run w ops).accts ∧
    (run w ops).totalDeleg = sumF (fun a => activeSum (run w ops).active a.delegs) (run w ops).accts ∧
    (run w ops).totalBond = sumF (fun a => activeSum (run w ops).active a.bonds) (run w ops).accts ∧
    (∀ k, (run w ops).pDelegated k = sumF (fun a => votesTo k a.delegs) (run w ops).accts) ∧
    (∀ k, (run w ops).pBonded k = sumF (fun a => votesTo k a.bonds) (run w ops).accts) :=
  ⟨(inv_run w ops hi).stake, (totals_run w ops hq ht).tD, (totals_run w ops hq ht).tB,
   (totals_run w ops hq ht).dP, (totals_run w ops hq ht).bP⟩

/-- FULL STATEMENT (what the property asks): from a state without overdue slots, over ANY history,
    unstaked ICX returns to its owner exactly once, when its lock period ends:
    1. no slot is ever overdue — after every block every remaining slot expires strictly later;
    2. as long as the owner `j` does not call setStake, the slots still present are exactly the original
       ones whose expiry lies in the future (a slot leaves exactly at the block of its expiry height);
    3. when the unstaking timer of height `h` fires for an account, exactly the slots expiring at `h`
       leave the list and exactly their sum is added to the owner's balance; stake and total holdings
       of the account are unchanged (with `supply_eq`: nothing is created, lost or paid twice).
    PARTIAL: 1 and 2 are proved only for histories satisfying `GoodTimers` (before the timer phase of
    every block, every slot's expiry height has the account in its unstaking timer).  That is NOT an
    invariant of the code: `unstake_timer_lost_witness` below is a history of the real transitions
    that breaks it (two slots of one account sharing an expiry height, then one of them removed or
    moved: `Unstakes.decreaseUnstake/increaseUnstake` delete the account from the timer of that height).
    3 is unconditional. -/
theorem unstake_returns_once_partial (w : World) (hno : NoOverdue w) :
    (∀ ops, GoodTimers w ops → ∀ j, ∀ u ∈ (getAcct (run w ops) j).unstakes, (run w ops).height < u.2) ∧
    (∀ ops j, GoodTimers w ops → (∀ op ∈ ops, ∀ tx ∈ op.1, stakesFrom j tx = false) →
      (run w ops).height = w.height + ops.length ∧
      (getAcct (run w ops) j).unstakes =
        (getAcct w j).unstakes.filter (fun u => decide ((run w ops).height < u.2))) ∧
    (∀ (h : Int) (a : Account), a.utimers.contains h = true →
      (fire h a).balance = a.balance + sumInt ((a.unstakes.filter (fun u => u.2 == h)).map (·.1)) ∧
      (fire h a).unstakes = a.unstakes.filter (fun u => u.2 != h)) ∧
    (∀ (h : Int) (a : Account), (fire h a).stake = a.stake ∧ (fire h a).holdings = a.holdings) :=
  ⟨fun ops hg j => (noOverdue_run w ops hno hg).2 j,
   fun ops j hg hq => ⟨run_height ops w, slots_lifetime j ops w (hno.2 j) hq hg⟩,
   fun h a hc => by unfold fire; simp only [hc, if_true]; exact ⟨trivial, trivial⟩,
   fun h a => ⟨fire_stake h a, fire_holdings h a⟩⟩

/-- the history of the witness: one account stakes 1000, then in ONE block sets its stake to 700 and to
    450 (two slots expiring at the same height), then re-stakes 250 (the last slot is cancelled and the
    account leaves the timer of that height), then the expiry height passes -/
def witnessWorld : World :=
  { height := 100, totalSupply := 5000, lock := 10, slotMax := 3, accts := [ { balance := 5000 } ] }

def witnessOps : List (List Tx × Int) :=
  [([Tx.stake 0 1000], 0), ([Tx.stake 0 700, Tx.stake 0 450], 0), ([Tx.stake 0 700], 0)] ++
  List.replicate 12 ([], 0)

/-- WITNESS (negation of the full statement on the transcribed transitions): after the expiry height
    (112) has passed, the slot (300, 112) is still in the unstake list and was not paid — on the real
    code this is corpus/C34/f_unstake_timer_lost_shared_expiry.ops, oracle key
    c34-unstake-timer-lost-shared-expiry. -/
theorem unstake_timer_lost_witness :
    NoOverdue witnessWorld ∧ (run witnessWorld witnessOps).height = 115 ∧
    (getAcct (run witnessWorld witnessOps) 0).unstakes = [(300, 112)] ∧
    (getAcct (run witnessWorld witnessOps) 0).balance = 4000 ∧
    ¬ GoodTimers witnessWorld witnessOps := by
  refine ⟨⟨by decide, ?_⟩, by decide, by decide, by decide, ?_⟩
  · intro j u hu
    cases j with
    | zero => simp [witnessWorld, getAcct] at hu
    | succ n => simp [witnessWorld, getAcct] at hu
  · intro hg
    have h3 := hg.2.2.2.1
    revert h3
    simp only [TimersOkW]
    decide

/-! ### non-vacuity -/

def exWorld : World :=
  { height := 100, rest := 50, totalSupply := 1050, totalStake := 300, totalDeleg := 200, totalBond := 50,
    lock := 5, slotMax := 2, unbondPeriod := 3,
    registered := fun k => decide (k < 2), active := fun k => decide (k < 2),
    pDelegated := fun k => if k = 0 then 200 else 0, pBonded := fun k => if k = 1 then 50 else 0,
    accts := [ { balance := 600, stake := 300, unstakes := [(100, 103)], delegs := [(0, 200)], bonds := [(1, 50)],
                 unbonds := [(1, 50, 102)], utimers := [103] } ] }

example : Inv exWorld := ⟨by decide, by decide⟩

example : AllOk exWorld := by
  intro a ha
  simp [exWorld] at ha
  subst ha
  refine ⟨by decide, ?_⟩
  intro u hu
  simp at hu
  subst hu
  decide

example : NoOverdue exWorld := by
  refine ⟨by decide, ?_⟩
  intro j u hu
  cases j with
  | zero => simp [exWorld, getAcct] at hu; subst hu; decide
  | succ n => simp [exWorld, getAcct] at hu

example : Totals exWorld := by
  constructor
  · intro k
    by_cases h : k = 0
    · subst h; decide
    · have : ((0:Nat) == k) = false := beq_eq_false_iff_ne.mpr (fun e => h e.symm)
      simp [exWorld, sumF, sumInt, votesTo, h, this]
  · intro k
    by_cases h : k = 1
    · subst h; decide
    · have : ((1:Nat) == k) = false := beq_eq_false_iff_ne.mpr (fun e => h e.symm)
      simp [exWorld, sumF, sumInt, votesTo, h, this]
  · decide
  · decide
  · intro a ha
    simp [exWorld] at ha
    subst ha
    exact ⟨⟨by decide, by decide⟩, ⟨by decide, by decide⟩⟩
  · intro k hk
    exact hk
  · intro a ha b hb
    simp [exWorld] at ha
    subst ha
    simp at hb
    subst hb
    decide

example : TxWF (Tx.deleg 0 [(0, 100), (1, 20)]) := ⟨by decide, by decide⟩

/-- a history in which stake moves to unstaking, is partly cancelled, and returns at expiry; a P-Rep
    unregisters and a new one registers -/
example : GoodTimers witnessWorld [([Tx.stake 0 1000], 0), ([Tx.stake 0 700], 0), ([Tx.stake 0 800], 0), ([], 0)] := by
  simp only [GoodTimers, TimersOkW]
  decide

example : ((run exWorld [([Tx.stake 0 300], 0), ([Tx.stake 0 310, Tx.deleg 0 [(0, 100), (5, 20)]], 7), ([Tx.unregister 0], 0),
      ([Tx.register 5], 0)]).accts.map (fun a => (a.balance, a.stake, a.unstakes))) = [(690, 310, [])] ∧
    (run exWorld [([Tx.stake 0 300], 0), ([Tx.stake 0 310, Tx.deleg 0 [(0, 100), (5, 20)]], 7), ([Tx.unregister 0], 0),
      ([Tx.register 5], 0)]).totalDeleg = 20 := by decide

end Goloop.C34
