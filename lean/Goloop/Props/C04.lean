/-
  Props/C04 — "Vote tallies report a 2/3 majority exactly when one exists".

  `VS`, `add`, `getDecision`, `hasOverTwoThirds` are `voteSet`, `voteSet.add`,
  `getOverTwoThirdsRoundDecisionDigest` (= `getOverTwoThirdsPartSetID` with the digest) and
  `hasOverTwoThirds` of consensus/voteset.go (Model/C04.lean).  `Reachable n s`: `s` is the state
  after *any* sequence of `add`s (any slots, any votes: duplicates, re-votes, nil votes, other
  rounds/types, out-of-range slots) and decision queries on `newVoteSet(n)`, for any `n`.
  `countSlots s.slots d` is the independent recount: the number of validator slots that
  currently hold a vote with round decision digest `d`.

  About the nil decision: the Go code guards the sticky rule with `rdd != nil`.  `rdd` is the
  SHA3 digest of the round decision and is never a nil slice — also for a *nil vote* — so the
  guard is always true when a decision exists and the model has no such case distinction.
  `sticky` therefore holds for every digest, including the digest of nil votes; the
  correspondence run confirms this on the real code with nil-vote decisions.
-/
import Goloop.Proofs.C04
namespace Goloop.C04
open Proofs

/-- Go's `count > len(msgs)*2/3` (integer division) is exactly "more than two thirds". -/
theorem threshold_exact (k n : Nat) : k > n * 2 / 3 ↔ 3 * k > 2 * n := threshold_iff k n

/-- The bookkeeping equals a recount of the slots in every reachable state: distinct digests,
    each counter positive and equal to the number of slots holding its digest, every held digest
    has a counter, `count` = filled slots, the mask marks the filled slots, the cached `maxIndex`
    is unset or the index the argmax loop would compute. -/
theorem counters_recount {n : Nat} {s : VS} (h : Reachable n s) :
    s.slots.length = n ∧
    (s.counters.map (·.d)).Nodup ∧
    (∀ c ∈ s.counters, 0 < c.cnt ∧ c.cnt = countSlots s.slots c.d) ∧
    (∀ d, 0 < countSlots s.slots d → ∃ c ∈ s.counters, c.d = d) ∧
    s.count = filled s.slots ∧
    s.mask = s.slots.map (·.isSome) ∧
    (s.maxIndex = none ∨ s.maxIndex = (argmaxLoop s.counters 0 none 0).1) := by
  obtain ⟨hi, hl⟩ := reachable_inv h
  exact ⟨hl, hi.good.nodup, hi.good.sound, hi.good.complete, hi.count, hi.mask, hi.cache⟩

example : Reachable 4 (run (C04.new 4) [Op.add 0 ⟨5, 0, 1, 7, 100⟩, Op.get, Op.add 0 ⟨5, 0, 1, 8, 100⟩]) := ⟨_, rfl⟩

/-- The +2/3 decision is reported exactly when more than two thirds of the validator slots hold
    a vote for that decision (and the query never hits an index panic). -/
theorem decision_iff {n : Nat} {s : VS} (h : Reachable n s) (d : Nat) :
    decision s = Dec.decided d ↔ 3 * countSlots s.slots d > 2 * n := by
  obtain ⟨hi, hl⟩ := reachable_inv h
  rw [← hl]
  exact (decision_spec hi).2 d

theorem decision_no_panic {n : Nat} {s : VS} (h : Reachable n s) : decision s ≠ Dec.panic :=
  (decision_spec (reachable_inv h).1).1

/-- No decision is reported iff no digest has more than two thirds. -/
theorem no_decision_iff {n : Nat} {s : VS} (h : Reachable n s) :
    decision s = Dec.no ↔ ∀ d, ¬ 3 * countSlots s.slots d > 2 * n := by
  constructor
  · intro hno d hd
    rw [← decision_iff h d, hno] at hd
    cases hd
  · intro hall
    cases hdec : decision s with
    | no => rfl
    | panic => exact absurd hdec (decision_no_panic h)
    | decided d => exact absurd ((decision_iff h d).1 hdec) (hall d)

/-- At most one decision can have +2/3 support: a counting fact about any slot array. -/
theorem decision_unique (slots : List (Option Vote)) (d d' : Nat)
    (h1 : 3 * countSlots slots d > 2 * slots.length)
    (h2 : 3 * countSlots slots d' > 2 * slots.length) : d = d' := by
  apply Classical.byContradiction
  intro hne
  have := countSlots_two slots d d' hne
  omega

/-- Sticky: once a decision `d` (for a block *or* for nil) has +2/3, every later sequence of adds
    and queries still reports `d`, and the number of slots supporting `d` never decreases. -/
theorem sticky {n : Nat} {s : VS} (h : Reachable n s) (d : Nat)
    (hd : decision s = Dec.decided d) (ops : List Op) :
    decision (run s ops) = Dec.decided d ∧
    countSlots s.slots d ≤ countSlots (run s ops).slots d := by
  obtain ⟨hi, hl⟩ := reachable_inv h
  have hmaj : 3 * countSlots s.slots d > 2 * s.slots.length := by
    rw [hl]; exact (decision_iff h d).1 hd
  obtain ⟨h1, h2⟩ := run_mono hi d hmaj ops
  have hr : Reachable n (run s ops) := by
    obtain ⟨ops0, e⟩ := h
    exact ⟨ops0 ++ ops, by rw [run_append, ← e]⟩
  refine ⟨(decision_iff hr d).2 ?_, h2⟩
  rw [hl] at hmaj
  omega

example : decision (run (C04.new 4) [Op.add 0 ⟨5, 0, 1, 7, 100⟩, Op.add 1 ⟨5, 0, 1, 7, 100⟩,
    Op.add 2 ⟨5, 0, 1, 7, 100⟩]) = Dec.decided 7 := by decide

/-- A vote that is refused (`add` returns false) changes no slot; an accepted vote is stored. -/
theorem add_result {n : Nat} {s s' : VS} (h : Reachable n s) (i : Nat) (v : Vote) (b : Bool)
    (ha : add s i v = some (s', b)) :
    (b = false → s'.slots = s.slots) ∧ (b = true → s'.slots = s.slots.set i (some v)) := by
  have hge := getDecision_eq s (reachable_inv h).1.cache
  unfold add at ha
  cases hs : s.slots[i]? with
  | none => simp [hs] at ha
  | some old =>
    rw [hs] at ha
    cases old with
    | none =>
      simp only [Option.some.injEq, Prod.mk.injEq] at ha
      rw [← ha.1, ← ha.2]; simp [place]
    | some o =>
      simp only at ha
      by_cases he : equalExceptSigs o v = true
      · simp only [he, if_true, Option.some.injEq, Prod.mk.injEq] at ha
        rw [← ha.1, ← ha.2]; simp
      · simp only [he, Bool.false_eq_true, if_false] at ha
        cases hd : (getDecision s).2 with
        | panic => simp [hd] at ha
        | no =>
          simp only [hd, Option.some.injEq, Prod.mk.injEq] at ha
          rw [← ha.1, ← ha.2, hge]; simp [place]
        | decided rdd =>
          simp only [hd] at ha
          by_cases hr : rdd = o.d
          · simp only [hr, if_true, Option.some.injEq, Prod.mk.injEq] at ha
            rw [← ha.1, ← ha.2, hge]; simp
          · simp only [hr, if_false, Option.some.injEq, Prod.mk.injEq] at ha
            rw [← ha.1, ← ha.2, hge]; simp [place]

/-- `add` on an existing slot never panics. -/
theorem add_total {n : Nat} {s : VS} (h : Reachable n s) (i : Nat) (v : Vote) (hi : i < n) :
    ∃ r, add s i v = some r := by
  obtain ⟨hinv, hl⟩ := reachable_inv h
  exact add_some hinv i v (by omega)

/-- `hasOverTwoThirds` is exactly "more than two thirds of the slots are filled". -/
theorem hasOverTwoThirds_iff {n : Nat} {s : VS} (h : Reachable n s) :
    hasOverTwoThirds s = true ↔ 3 * filled s.slots > 2 * n := by
  obtain ⟨hi, hl⟩ := reachable_inv h
  unfold hasOverTwoThirds
  rw [hi.count, hl]
  simp only [decide_eq_true_eq]
  omega

end Goloop.C04
