/-
  Props/C25 — "Header compression is lossless and format-stable".
  Model: Goloop/Model/C25.lean (legacy LZW writer/reader of /repo/common/lzw, MSB, litWidth 8,
  no leading clear code, clear code when the table fills, width growth; bit packing).
  Helper lemmas and the simulation invariant: Goloop/Proofs/C25.lean.
-/
import Goloop.Proofs.C25
namespace Goloop.C25

/-- reads codes of the given widths one after the other (`readMSB` with a width schedule). -/
def readAll : List Nat → List Bool → Option (List Nat)
  | [], _ => some []
  | w :: ws, bits =>
    match readCode w bits with
    | none => none
    | some (c, rest) => (readAll ws rest).map (c :: ·)

theorem readAll_bitsOf (cs : List (Nat × Nat)) (h : ∀ cw ∈ cs, cw.1 < 2 ^ cw.2) (pad : List Bool) :
    readAll (cs.map (·.2)) (bitsOf cs ++ pad) = some (cs.map (·.1)) := by
  induction cs with
  | nil => rfl
  | cons cw cs ih =>
    have h1 := h cw (by simp)
    have h2 : ∀ c ∈ cs, c.1 < 2 ^ c.2 := fun c hc => h c (by simp [hc])
    simp only [List.map_cons, readAll, Proofs.bitsOf_cons, List.append_assoc,
      Proofs.readCode_bits _ _ _ h1, ih h2]
    rfl

/-- Bit packing round trip for variable widths: any sequence of codes, each written MSB-first at
    its own width (whatever the widths are), flushed to bytes with zero padding, is read back
    code by code with the same width schedule. -/
theorem bitpack_roundtrip (cs : List (Nat × Nat)) (h : ∀ cw ∈ cs, cw.1 < 2 ^ cw.2) :
    readAll (cs.map (·.2)) (bitsOfBytes (bytesOfBits (bitsOf cs))) = some (cs.map (·.1)) := by
  obtain ⟨k, hk⟩ := Proofs.bitsOfBytes_bytesOfBits (bitsOf cs)
  rw [hk]
  exact readAll_bitsOf cs h _

example : (∀ cw ∈ [(97, 9), (258, 9), (256, 12), (257, 9)], cw.1 < 2 ^ cw.2) := by decide

/-- Format stability: the first code emitted for any non-empty input is the literal code of the
    first input byte at width 9, never the clear code 256 (the legacy format has no leading
    clear code; a writer that sent one would change every stored header hash). -/
theorem first_code_is_literal (x : UInt8) (xs : Bytes) :
    ∃ rest, encCodes (x :: xs) = (x.toNat, 9) :: rest ∧ x.toNat ≠ 256 := by
  obtain ⟨rest, h⟩ := Proofs.encLoop_init_head x xs
  exact ⟨rest, h, by have := x.toNat_lt; omega⟩

/-- The same at byte level: the first bit of the compressed form is 0 (a leading clear code
    `1_0000_0000` would make it 1), hence the first output byte is below 0x80. -/
theorem first_byte_lt_128 (x : UInt8) (xs : Bytes) :
    ∃ b t, compress (x :: xs) = b :: t ∧ b.toNat < 128 := by
  obtain ⟨rest, h⟩ := Proofs.encLoop_init_head x xs
  have hx := x.toNat_lt
  have hbits : ∃ t, bitsOf (encCodes (x :: xs)) = false :: t := by
    refine ⟨bitsMSB 8 (x.toNat % 2 ^ 8) ++ bitsOf rest, ?_⟩
    simp only [encCodes, h, Proofs.bitsOf_cons]
    have : x.toNat / 256 % 2 = 0 := by omega
    simp [bitsMSB, this]
  obtain ⟨t, ht⟩ := hbits
  refine ⟨_, _, by rw [Proofs.compress_eq_bits, ht, Proofs.bytesOfBits_cons], ?_⟩
  have hl : (pad8 (List.take 8 (false :: t))).length = 8 := by
    simp only [pad8, List.length_append, List.length_take, List.length_replicate]; omega
  have hlt := Proofs.natOfBits_lt (pad8 (List.take 7 t))
  have hl7 : (pad8 (List.take 7 t)).length ≤ 8 := by
    simp only [pad8, List.length_append, List.length_take, List.length_replicate]; omega
  have hform : pad8 (List.take 8 (false :: t)) =
      false :: (List.take 7 t ++ List.replicate (7 - (List.take 7 t).length) false) := by
    simp [pad8]
  rw [hform]
  have hl2 : (List.take 7 t ++ List.replicate (7 - (List.take 7 t).length) false).length = 7 := by
    simp only [List.length_append, List.length_take, List.length_replicate]; omega
  have hlt2 := Proofs.natOfBits_lt (List.take 7 t ++ List.replicate (7 - (List.take 7 t).length) false)
  rw [hl2] at hlt2
  simp only [byteOfBits, natOfBits, UInt8.toNat_ofNat']
  have : (false : Bool).toNat = 0 := rfl
  rw [this]
  omega

/-- The transcribed 32 bit accumulator writer (`writeMSB`, drain loop, final partial byte in
    `Close`) produces exactly the zero padded MSB-first bit string of the code sequence, for all
    code sequences whose codes fit their widths (widths up to 24 bits). -/
theorem accumulator_writer_is_bitstring (cs : List (Nat × Nat))
    (h : ∀ cw ∈ cs, cw.1 < 2 ^ cw.2 ∧ cw.2 ≤ 24) : packAcc cs = bytesOfBits (bitsOf cs) :=
  Proofs.packAcc_eq cs h

example : ∀ cw ∈ [(97, 9), (258, 9), (256, 12), (257, 9)], cw.1 < 2 ^ cw.2 ∧ cw.2 ≤ 24 := by decide

/-- every code the writer emits fits the width it is emitted at (widths 9..12). -/
theorem emitted_codes_fit (s : Bytes) : ∀ cw ∈ encCodes s, cw.1 < 2 ^ cw.2 ∧ cw.2 ≤ 24 :=
  Proofs.encCodes_fit s

/-- `Compress(empty) = empty` and a non-empty input never compresses to the empty string
    (so the empty-input special case of `Decompress` cannot be confused with real data). -/
theorem compress_empty_iff (s : Bytes) : compress s = [] ↔ s = [] := by
  constructor
  · intro h
    cases s with
    | nil => rfl
    | cons x xs =>
      obtain ⟨b, t, hbt, _⟩ := first_byte_lt_128 x xs
      rw [hbt] at h; cases h
  · rintro rfl
    simp [Proofs.compress_eq_bits, encCodes, Proofs.bitsOf_nil, Proofs.bytesOfBits_nil]

/-- Lossless for EVERY byte string, of any length: also across any number of dictionary resets
    (clear code when code 4094 has been assigned), code-width changes, the KwKwK case, and the
    case where the table fills inside `Close` (clear code directly before eof).  Proved by a
    simulation invariant between writer and reader (`Proofs.Inv`): same `hi`/width/overflow, and
    the reader's dictionary is the writer's minus its newest entry. -/
theorem lzw_roundtrip (s : Bytes) : decompress (compress s) = s := Proofs.roundtrip s

end Goloop.C25
