/-
  Props/C15 — "Transaction fees and transfers conserve ICX".
  Statements only; proofs of the helper lemmas are in Proofs/C15.lean.
  Model: Model/C15.lean (Execute / DoExecute / checkBalance / PreValidate /
  TransferHandler / call frames / block fee gathering, transcribed).
  All theorems hold for every configuration (step price, costs, limits, both
  legacy revision flags), every world, every transaction / program / block and
  every interpreter fuel.
-/
import Goloop.Proofs.C15
namespace Goloop.C15
open Proofs

/-- The sum of all balances drops, per transaction, by exactly the fee the receipt
    reports (stepUsed · stepPrice) — whatever the transaction did, whether it
    succeeded, failed, or ran nested calls that failed half-way. -/
theorem tx_fee_exact {n} (cfg : Cfg n) (fuel : Nat) (wInit w : World n) (tx : Tx n) :
    total (execTx cfg fuel wInit w tx).2 =
      total w - ((execTx cfg fuel wInit w tx).1.stepUsed : Int) * (execTx cfg fuel wInit w tx).1.stepPrice :=
  (execTx_spec cfg fuel wInit w tx).1

/-- Sender side, failed transaction: charged exactly the reported fee, nobody else changes. -/
theorem tx_charge_exact_failed {n} (cfg : Cfg n) (fuel : Nat) (wInit w : World n) (tx : Tx n)
    (hf : (execTx cfg fuel wInit w tx).1.status ≠ 0) :
    (execTx cfg fuel wInit w tx).2.bal tx.frm =
      w.bal tx.frm - ((execTx cfg fuel wInit w tx).1.stepUsed : Int) * (execTx cfg fuel wInit w tx).1.stepPrice ∧
    ∀ a, a ≠ tx.frm → (execTx cfg fuel wInit w tx).2.bal a = w.bal a := by
  have h := ((settle_spec cfg w tx.frm _ (good_doExecute cfg fuel wInit w tx)).2.2.1 hf).1
  unfold execTx
  rw [h]
  constructor
  · simp [World.setBal, updF]
  · intro a ha; simp [World.setBal, updF, ha]

/-- Sender and recipient side, successful plain transfer (or message) to a
    non-contract address: the sender pays exactly fee + value, the recipient gets
    exactly value, nobody else changes.  (`transfer_credit`) -/
theorem tx_charge_exact {n} (cfg : Cfg n) (fuel : Nat) (wInit w : World n) (tx : Tx n)
    (hk : ∀ p, tx.kind ≠ .call p) (hc : cfg.isContract tx.to = false) (hne : tx.frm ≠ tx.to)
    (hs : (execTx cfg fuel wInit w tx).1.status = 0) :
    (execTx cfg fuel wInit w tx).2.bal tx.frm =
      w.bal tx.frm - ((execTx cfg fuel wInit w tx).1.stepUsed : Int) * (execTx cfg fuel wInit w tx).1.stepPrice - tx.value ∧
    (execTx cfg fuel wInit w tx).2.bal tx.to = w.bal tx.to + tx.value ∧
    (∀ a, a ≠ tx.frm → a ≠ tx.to → (execTx cfg fuel wInit w tx).2.bal a = w.bal a) ∧
    0 ≤ tx.value := by
  have sp := (settle_spec cfg w tx.frm _ (good_doExecute cfg fuel wInit w tx)).2.2.2.1 hs
  have ht := doExecute_transfer_ok cfg fuel wInit w tx hk hc sp.1
  unfold execTx at *
  rw [sp.2.1, ht.1]
  have hne' : tx.to ≠ tx.frm := fun e => hne e.symm
  refine ⟨?_, ?_, ?_, ht.2.1⟩
  · simp [World.setBal, updF, hne]; omega
  · simp [World.setBal, updF, hne']
  · intro a h1 h2; simp [World.setBal, updF, h1, h2]

/-- Steps charged: at least the minimum charge, at most the (invoke-clipped) step
    limit — or the minimum itself when the limit is below it; the only exception
    is the legacy fee rule, which zeroes the steps of a sender that cannot pay. -/
theorem step_used_bounds {n} (cfg : Cfg n) (fuel : Nat) (wInit w : World n) (tx : Tx n) :
    (cfg.legacyFee = true ∧ (execTx cfg fuel wInit w tx).1.stepUsed = 0) ∨
    (cfg.dflt ≤ (execTx cfg fuel wInit w tx).1.stepUsed ∧
      (execTx cfg fuel wInit w tx).1.stepUsed ≤ max cfg.dflt (min tx.limit cfg.invoke)) := by
  have sp := (settle_spec cfg w tx.frm _ (good_doExecute cfg fuel wInit w tx)).2.2.2.2.1
  have hu := doExecute_used_le cfg fuel wInit w tx
  unfold execTx
  rcases sp with h | h
  · exact Or.inl h
  · right
    rw [h]
    unfold clipLimit at hu
    split <;> split at hu <;> omega

/-- With the limit PreValidate enforces (`stepLimit ≥ default + input`), the steps
    charged never exceed the transaction's own step limit. -/
theorem step_used_le_tx_limit {n} (cfg : Cfg n) (fuel : Nat) (wInit w : World n) (tx : Tx n)
    (hv : cfg.dflt + cfg.input * tx.inputBytes ≤ tx.limit) :
    (execTx cfg fuel wInit w tx).1.stepUsed ≤ tx.limit := by
  rcases step_used_bounds cfg fuel wInit w tx with h | h
  · omega
  · have := h.2; omega

/-- validation really enforces that limit (and non-negative values) for every transaction of an accepted block -/
theorem validated_limits {n} (cfg : Cfg n) (txs : List (Tx n)) :
    ∀ vb, validateTxs cfg vb txs = true →
      ∀ tx ∈ txs, cfg.dflt + cfg.input * tx.inputBytes ≤ tx.limit ∧ 0 ≤ tx.value := by
  induction txs with
  | nil => intro vb _ tx h; simp at h
  | cons t rest ih =>
    intro vb hv tx hm
    unfold validateTxs at hv
    split at hv
    · simp at hv
    · rename_i hval
      split at hv
      · simp at hv
      · rename_i vb' hp
        rcases List.mem_cons.mp hm with e | m
        · subst e
          unfold preValidate at hp
          split at hp
          · simp at hp
          · constructor <;> omega
        · exact ih vb' hv tx m

/-- The receipt's step price is the configured one, or 0 when the payer could not pay. -/
theorem receipt_price {n} (cfg : Cfg n) (fuel : Nat) (wInit w : World n) (tx : Tx n) :
    (execTx cfg fuel wInit w tx).1.stepPrice = cfg.price ∨ (execTx cfg fuel wInit w tx).1.stepPrice = 0 :=
  (settle_spec cfg w tx.frm _ (good_doExecute cfg fuel wInit w tx)).2.2.2.2.2

/-- Any accepted block of any transactions: the sum of all balances, treasury
    included, is unchanged; the treasury is credited exactly the fees of the receipts. -/
theorem block_conserves {n} (cfg : Cfg n) (fuel : Nat) (w : World n) (txs : List (Tx n))
    (rs : List Receipt) (w' : World n) (h : execBlock cfg fuel w txs = some (rs, w')) :
    total w' = total w ∧
    w'.bal cfg.treasury = (execTxs cfg fuel w w txs).2.bal cfg.treasury + gatheredFee rs :=
  let s := execBlock_spec cfg fuel w txs rs w' h
  ⟨s.1, s.2.2⟩

/-- No balance ever becomes negative (invariant of transactions and of blocks). -/
theorem no_negative {n} (cfg : Cfg n) (fuel : Nat) (w : World n) (txs : List (Tx n))
    (rs : List Receipt) (w' : World n) (h : execBlock cfg fuel w txs = some (rs, w'))
    (hn : ∀ a, 0 ≤ w.bal a) : ∀ a, 0 ≤ w'.bal a :=
  (execBlock_spec cfg fuel w txs rs w' h).2.1 hn

theorem no_negative_tx {n} (cfg : Cfg n) (fuel : Nat) (wInit w : World n) (tx : Tx n)
    (hn : ∀ a, 0 ≤ w.bal a) : ∀ a, 0 ≤ (execTx cfg fuel wInit w tx).2.bal a :=
  (execTx_spec cfg fuel wInit w tx).2 hn

/-! non-vacuity: a concrete block is accepted, contains a successful transfer and a
    failing nested program, and exercises the hypotheses above -/
section Example
def exCfg : Cfg 4 :=
  { price := 2, dflt := 10, input := 1, call := 3, invoke := 1000, legacyFee := false, legacyBal := false,
    isContract := fun a => a.val = 2, hasContract := fun _ => false, treasury := 3 }
def exW : World 4 := ⟨fun a => if a.val = 0 then 1000 else 0, fun _ _ => 0, fun _ => none⟩
def exTx1 : Tx 4 := ⟨0, 1, 100, 20, 0, .transfer⟩
def exTx2 : Tx 4 := ⟨0, 1, 0, 100, 5, .call [.setv 0 7, .emit 1, .xfer 2 1 true, .emit 2]⟩

example : (execBlock exCfg 3 exW [exTx1, exTx2]).isSome = true := by decide
example : (execTx exCfg 3 exW exW exTx1).1.status = 0 ∧ (execTx exCfg 3 exW exW exTx1).1.stepUsed = 10 := by decide
example : (execTx exCfg 3 exW exW exTx2).1.status ≠ 0 := by decide
example : ∀ p, exTx1.kind ≠ .call p := by intro p h; cases h
example : validateTxs exCfg exW.bal [exTx1, exTx2] = true := by decide
end Example

end Goloop.C15
