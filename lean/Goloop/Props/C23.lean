/-
  Props/C23 — property theorems for "The RLP codec round-trips every supported value and
  rejects malformed input".  Model: Goloop/Model/C23.lean (typed layer, streaming reader),
  byte level: Goloop/Base/Rlp.lean.  Helper lemmas: Goloop/Proofs/C23.lean.

  `WfTy ty`   : integer widths ≤ 64, map keys string/int/uint, no pointer to a type that has
                its own nil encoding ([]byte, slice, map, pointer).
  `HasTy ty v`: v is a Go value of type ty (ints within the width, [n]byte of length n, struct
                with one value per field, map entries strictly sorted by key = canonical form of
                a Go map).
-/
import Goloop.Proofs.C23
namespace Goloop.C23
open Goloop Goloop.Rlp

/-! ## round trip -/

/-- Decoding the encoding of any well-typed value yields exactly that value and leaves any
    trailing bytes untouched (`UnmarshalFromBytes(MarshalToBytes(v) ++ rest) = (v, rest)`). -/
theorem decode_encode (ty : Ty) (v : Val) (rest : Bytes) (hw : WfTy ty) (ht : HasTy ty v)
    (hl : (marshal v).length ≤ maxInt) :
    unmarshal ty (marshal v ++ rest) = some (v, rest) := by
  unfold unmarshal marshal at *
  have ha : Adm { lim := 0, hard := 0, maxSB := (enc v ++ rest).length } (enc v).length rest :=
    ⟨by simp, by simp, by simp⟩
  rw [dec_enc ty v _ rest hw ht hl ha]

/-- The same inside any enclosing list reader that still has the bytes of the encoding
    (elements of lists, struct fields, map keys/values are decoded through such readers). -/
theorem decode_encode_nested (ty : Ty) (v : Val) (r : Rd) (rest : Bytes) (hw : WfTy ty) (ht : HasTy ty v)
    (hl : (enc v).length ≤ maxInt) (ha : Adm r (enc v).length rest) :
    dec ty r (enc v ++ rest) = .ok v rest := dec_enc ty v r rest hw ht hl ha

/-- non-vacuity: a nested struct type (ints, strings, slice, pointer, big int, byte array, map) and a
    value of it satisfy the hypotheses. -/
example :
    let ty : Ty := .struct [.uint 8, .int 16, .slice .str, .ptr (.int 64), .ptr .big, .barr 2,
      .map .str .bytes, .bytes, .arr 2 .bool]
    let v : Val := .list [.uint 200, .int (-300), .list [.str [0x61], .str []], .ptr (.int (-1)), .nil,
      .bytes [1, 2], .map [(.str [0x61], .bytes []), (.str [0x61, 0], .nil)], .nil, .list [.bool true, .bool false]]
    WfTy ty ∧ HasTy ty v := by
  simp [WfTy, WfTys, HasTy, HasTys, nullable, isKeyTy, keyLt, bytesLt]

/-- Corollary: encoding is injective on well-typed values (two values with the same bytes are equal). -/
theorem encode_injective (ty : Ty) (v w : Val) (hw : WfTy ty) (hv : HasTy ty v) (hw' : HasTy ty w)
    (hl : (marshal v).length ≤ maxInt) (h : marshal v = marshal w) : v = w := by
  have h1 := decode_encode ty v [] hw hv hl
  have h2 := decode_encode ty w [] hw hw' (h ▸ hl)
  rw [h, h2] at h1
  simpa using h1.symm

/-! ## nil and empty are kept distinct -/

/-- nil (`f8 00`), the empty byte string / string (`80`) and the empty list / struct / map (`c0`)
    have three different encodings. -/
theorem nil_vs_empty_encodings :
    enc .nil = [0xf8, 0] ∧ enc (.bytes []) = [0x80] ∧ enc (.str []) = [0x80] ∧
      enc (.list []) = [0xc0] ∧ enc (.map []) = [0xc0] := by
  refine ⟨rfl, ?_, ?_, ?_, ?_⟩ <;> simp [enc, encs, encKVs, sortKVs, encodeBytes, encodeList, encodeLen]

/-- and the decoder gives them back as different values: nil vs empty `[]byte`, nil vs empty slice,
    nil vs empty map, nil pointer vs pointer to a value. -/
theorem nil_vs_empty_decoded (e : Ty) (he : WfTy e) :
    unmarshal .bytes (marshal .nil) = some (.nil, []) ∧
    unmarshal .bytes (marshal (.bytes [])) = some (.bytes [], []) ∧
    unmarshal (.slice e) (marshal .nil) = some (.nil, []) ∧
    unmarshal (.slice e) (marshal (.list [])) = some (.list [], []) ∧
    unmarshal (.map .str e) (marshal .nil) = some (.nil, []) ∧
    unmarshal (.map .str e) (marshal (.map [])) = some (.map [], []) ∧
    unmarshal (.ptr .str) (marshal .nil) = some (.nil, []) ∧
    unmarshal (.ptr .str) (marshal (.ptr (.str []))) = some (.ptr (.str []), []) := by
  have small : ∀ v : Val, (v = .nil ∨ v = .bytes [] ∨ v = .list [] ∨ v = .map [] ∨ v = .ptr (.str [])) →
      (marshal v).length ≤ maxInt := by
    intro v hv
    rcases hv with h | h | h | h | h <;> subst h <;>
      simp [marshal, enc, encs, encKVs, sortKVs, encodeNil, encodeBytes, encodeList, encodeLen, maxInt]
  refine ⟨?_, ?_, ?_, ?_, ?_, ?_, ?_, ?_⟩
  · simpa using decode_encode .bytes .nil [] (by simp [WfTy]) (by simp [HasTy]) (small _ (by simp))
  · simpa using decode_encode .bytes (.bytes []) [] (by simp [WfTy]) (by simp [HasTy]) (small _ (by simp))
  · simpa using decode_encode (.slice e) .nil [] (by simpa [WfTy] using he) (by simp [HasTy]) (small _ (by simp))
  · simpa using decode_encode (.slice e) (.list []) [] (by simpa [WfTy] using he) (by simp [HasTy]) (small _ (by simp))
  · simpa using decode_encode (.map .str e) .nil [] (by simpa [WfTy, isKeyTy] using he) (by simp [HasTy]) (small _ (by simp))
  · simpa using decode_encode (.map .str e) (.map []) [] (by simpa [WfTy, isKeyTy] using he) (by simp [HasTy]) (small _ (by simp))
  · simpa using decode_encode (.ptr .str) .nil [] (by simp [WfTy, nullable]) (by simp [HasTy]) (small _ (by simp))
  · simpa using decode_encode (.ptr .str) (.ptr (.str [])) [] (by simp [WfTy, nullable]) (by simp [HasTy]) (small _ (by simp))

/-- "where the format allows": a pointer to a type with its own nil encoding is the one place where
    the distinction is lost — a nil `*[]byte` comes back as a pointer to a nil slice.  (This is why
    `WfTy` excludes such pointers; the hypothesis of `decode_encode` is necessary.) -/
theorem ptr_to_nullable_loses_nil :
    unmarshal (.ptr .bytes) (marshal .nil) = some (.ptr .nil, []) := by
  have := readBytes_encodeNil (r := { lim := 0, hard := 0, maxSB := encodeNil.length }) (n := 0) (rest := [])
    ⟨by simp, by simp, by simp⟩
  simp only [List.append_nil] at this
  simp only [unmarshal, marshal, enc, dec, this]

/-! ## determinism -/

/-- The encoding of a map does not depend on the order in which its entries are enumerated: any
    two enumerations of the same entries (distinct keys of one key kind) give the same bytes. -/
theorem encode_deterministic (c : KeyClass) (kvs kvs' : List (Val × Val)) (hp : kvs.Perm kvs')
    (hnd : kvs.Pairwise (fun a b => a.1 ≠ b.1)) (hc : ∀ p ∈ kvs, classOf p.1 = some c) :
    marshal (.map kvs) = marshal (.map kvs') := enc_map_perm c kvs kvs' hp hnd hc

example : [(Val.str [2], Val.uint 1), (Val.str [1], Val.uint 2)].Perm [(Val.str [1], Val.uint 2), (Val.str [2], Val.uint 1)] ∧
    [(Val.str [2], Val.uint 1), (Val.str [1], Val.uint 2)].Pairwise (fun a b => a.1 ≠ b.1) ∧
    (∀ p ∈ [(Val.str [2], Val.uint 1), (Val.str [1], Val.uint 2)], classOf p.1 = some KeyClass.s) := by
  refine ⟨List.Perm.swap _ _ _, by simp, by simp [classOf]⟩

/-- ... and it is the concatenation of `key value` in strictly increasing key order. -/
theorem encode_map_sorted (kvs : List (Val × Val))
    (h : kvs.Pairwise (fun a b => keyLt a.1 b.1 = true)) :
    marshal (.map kvs) = encodeList (encPairs kvs) := enc_map_sorted kvs h

/-! ## rejection of malformed input -/

private theorem top_readBytes (x rest : Bytes) (M : Nat) (hl : (encodeBytes x).length ≤ maxInt)
    (hM : (encodeBytes x).length ≤ M) :
    readBytes { lim := 0, hard := 0, maxSB := M } (encodeBytes x ++ rest) = .ok x rest :=
  readBytes_enc_bytes x hl ⟨by simp, by simp, hM⟩

/-- An unsigned integer that does not fit the target width is rejected. -/
theorem decode_rejects_uint_overflow (w n : Nat) (rest : Bytes) (hn : 2 ^ w ≤ n) (h64 : n < 2 ^ 64) :
    unmarshal (.uint w) (marshal (.uint n) ++ rest) = none := by
  have hlen := C24.uint64_length n h64
  have hl : (encodeBytes (C24.uint64ToBytes n)).length ≤ maxInt := by
    have := encodeBytes_short (C24.uint64ToBytes n) (by omega)
    have : (10 : Nat) ≤ maxInt := by decide
    omega
  have hnot : ¬ n < 2 ^ w := by omega
  simp only [unmarshal, marshal, enc, dec]
  rw [top_readBytes _ _ _ hl (by simp)]
  simp only [C24.uint64_roundtrip n h64, hnot, if_false]

/-- A signed integer that does not fit the target width is rejected. -/
theorem decode_rejects_int_overflow (w : Nat) (i : Int) (rest : Bytes)
    (hi : i < -(2 : Int) ^ (w - 1) ∨ (2 : Int) ^ (w - 1) ≤ i)
    (h64 : -(2 : Int) ^ 63 ≤ i ∧ i < (2 : Int) ^ 63) :
    unmarshal (.int w) (marshal (.int i) ++ rest) = none := by
  have hlen := C24.int64_length i h64
  have hl : (encodeBytes (C24.int64ToBytes i)).length ≤ maxInt := by
    have := encodeBytes_short (C24.int64ToBytes i) (by omega)
    have : (10 : Nat) ≤ maxInt := by decide
    omega
  have hnot : inIntRange w i = false := by
    simp only [inIntRange, Bool.and_eq_false_iff, decide_eq_false_iff_not]
    rcases hi with h | h
    · left; omega
    · right; omega
  simp only [unmarshal, marshal, enc, dec]
  rw [top_readBytes _ _ _ hl (by simp)]
  simp only [C24.int64_roundtrip i h64, hnot]
  simp

example : (2 : Nat) ^ 8 ≤ 256 ∧ 256 < 2 ^ 64 ∧ ((2 : Int) ^ (8 - 1) ≤ 128) := by decide

/-- Whatever bytes are decoded into an integer/bool target, an accepted value is within the width. -/
theorem decoded_scalar_in_range (b rest : Bytes) (v : Val) (w : Nat) :
    (unmarshal (.uint w) b = some (v, rest) → ∃ n, v = .uint n ∧ n < 2 ^ w) ∧
    (unmarshal (.int w) b = some (v, rest) → ∃ i, v = .int i ∧ -(2 : Int) ^ (w - 1) ≤ i ∧ i < (2 : Int) ^ (w - 1)) ∧
    (unmarshal .bool b = some (v, rest) → ∃ x, v = .bool x) := by
  refine ⟨?_, ?_, ?_⟩
  · intro h
    simp only [unmarshal, dec] at h
    split at h <;> try (simp at h; done)
    rename_i hd
    split at hd <;> try (simp at hd; done)
    split at hd <;> try (simp at hd; done)
    rename_i n _
    split at hd <;> try (simp at hd; done)
    rename_i hn
    simp only [Res.ok.injEq] at hd
    simp only [Option.some.injEq, Prod.mk.injEq] at h
    exact ⟨n, by rw [← h.1, ← hd.1], hn⟩
  · intro h
    simp only [unmarshal, dec] at h
    split at h <;> try (simp at h; done)
    rename_i hd
    split at hd <;> try (simp at hd; done)
    split at hd <;> try (simp at hd; done)
    rename_i i _
    split at hd <;> try (simp at hd; done)
    rename_i hn
    simp only [Res.ok.injEq] at hd
    simp only [Option.some.injEq, Prod.mk.injEq] at h
    simp only [inIntRange, Bool.and_eq_true, decide_eq_true_eq] at hn
    exact ⟨i, by rw [← h.1, ← hd.1], hn.1, hn.2⟩
  · intro h
    simp only [unmarshal, dec] at h
    split at h <;> try (simp at h; done)
    rename_i hd
    split at hd <;> try (simp at hd; done)
    split at hd <;> try (simp at hd; done)
    split at hd
    · simp only [Res.ok.injEq] at hd
      simp only [Option.some.injEq, Prod.mk.injEq] at h
      exact ⟨false, by rw [← h.1, ← hd.1]⟩
    · split at hd <;> try (simp at hd; done)
      simp only [Res.ok.injEq] at hd
      simp only [Option.some.injEq, Prod.mk.injEq] at h
      exact ⟨true, by rw [← h.1, ← hd.1]⟩

/-- A string item whose declared size is larger than the remaining input is rejected, for every
    target type that is read as a byte string (canonical header, any size up to MaxInt). -/
theorem decode_rejects_string_size_beyond_input (n : Nat) (q : Bytes) (hn : n ≤ maxInt) (hq : q.length < n) (w k : Nat) :
    unmarshal .str (encodeLen 0x80 n ++ q) = none ∧
    unmarshal .bytes (encodeLen 0x80 n ++ q) = none ∧
    unmarshal (.uint w) (encodeLen 0x80 n ++ q) = none ∧
    unmarshal (.int w) (encodeLen 0x80 n ++ q) = none ∧
    unmarshal .bool (encodeLen 0x80 n ++ q) = none ∧
    unmarshal (.barr k) (encodeLen 0x80 n ++ q) = none ∧
    unmarshal (.ptr .big) (encodeLen 0x80 n ++ q) = none := by
  have ha : Adm { lim := 0, hard := 0, maxSB := (encodeLen 0x80 n ++ q).length } 0 q := ⟨by simp, by simp, by simp⟩
  have hav : Rd.avail { lim := 0, hard := 0, maxSB := (encodeLen 0x80 n ++ q).length } q < n := by
    simp [Rd.avail]; exact hq
  have := readBytes_short_input n hn ha hav
  refine ⟨?_, ?_, ?_, ?_, ?_, ?_, ?_⟩ <;> simp only [unmarshal, dec, this]

/-- A list item (slice, array, struct, map target) whose declared size is larger than the
    remaining input is rejected — whatever its content is. -/
theorem decode_rejects_list_size_beyond_input (n : Nat) (q : Bytes) (hn : n ≤ maxInt) (hq : q.length < n)
    (e k : Ty) (fs : List Ty) (m : Nat) :
    unmarshal (.slice e) (encodeLen 0xC0 n ++ q) = none ∧
    unmarshal (.arr m e) (encodeLen 0xC0 n ++ q) = none ∧
    unmarshal (.struct fs) (encodeLen 0xC0 n ++ q) = none ∧
    unmarshal (.map k e) (encodeLen 0xC0 n ++ q) = none := by
  have ha : Adm { lim := 0, hard := 0, maxSB := (encodeLen 0xC0 n ++ q).length } 0 q := ⟨by simp, by simp, by simp⟩
  refine ⟨?_, ?_, ?_, ?_⟩
  · simp only [unmarshal, dec_list_beyond_input n hn ha hq _ (Or.inl ⟨e, rfl⟩)]
  · simp only [unmarshal, dec_list_beyond_input n hn ha hq _ (Or.inr (Or.inl ⟨m, e, rfl⟩))]
  · simp only [unmarshal, dec_list_beyond_input n hn ha hq _ (Or.inr (Or.inr (Or.inl ⟨fs, rfl⟩)))]
  · simp only [unmarshal, dec_list_beyond_input n hn ha hq _ (Or.inr (Or.inr (Or.inr ⟨k, e, rfl⟩)))]

example : (56 : Nat) ≤ maxInt ∧ ([1, 2, 3] : Bytes).length < 56 := by decide

/-! ## totality -/

/-- The decoder is a total function: every byte string is mapped to a value with the remaining
    bytes or to an error; there is no third outcome (the Go counterpart: no panic). -/
theorem decode_total (ty : Ty) (b : Bytes) :
    unmarshal ty b = none ∨ ∃ v rest, unmarshal ty b = some (v, rest) := by
  cases h : unmarshal ty b with
  | none => left; rfl
  | some p => right; exact ⟨p.1, p.2, rfl⟩


/-! ## limits -/

/-- Whatever the input, an accepted decode consumed a non-empty prefix of it and returns exactly
    the remaining bytes: the decoder never reads beyond (or invents) input. -/
theorem decode_consumes_prefix (ty : Ty) (b rest : Bytes) (v : Val) (h : unmarshal ty b = some (v, rest)) :
    ∃ pre, pre ≠ [] ∧ b = pre ++ rest := by
  unfold unmarshal at h
  split at h
  · rename_i v' rest' hd
    simp only [Option.some.injEq, Prod.mk.injEq] at h
    obtain ⟨hlt, ⟨pre, hpre⟩, _⟩ := (dec_good ty _ b).1 v' rest' hd
    refine ⟨pre, ?_, by rw [← h.2]; exact hpre⟩
    intro hp; subst hp; simp at hpre; subst hpre; omega
  · simp at h

/-- Readers are limited to the enclosing list's size: decoding through any chain of list readers
    (arbitrary input, any type) never consumes bytes beyond the end of the innermost list (`lim`) nor
    beyond any outer list or the buffer (`hard`), also when the result is the nil class. -/
theorem decode_within_enclosing_lists (ty : Ty) (r : Rd) (inp inp' : Bytes) (v : Val)
    (h : dec ty r inp = .ok v inp' ∨ dec ty r inp = .nil inp') :
    inp'.length < inp.length ∧ (∃ pre, inp = pre ++ inp') ∧ r.lim.toNat ≤ inp'.length ∧ r.hard ≤ inp'.length := by
  rcases h with h | h
  · obtain ⟨h1, h2, h3⟩ := (dec_good ty r inp).1 v inp' h
    exact ⟨h1, h2, by omega, by omega⟩
  · obtain ⟨h1, h2, h3⟩ := (dec_good ty r inp).2 inp' h
    exact ⟨h1, h2, by omega, by omega⟩

/-- The iteration bounds used by the model for the slice and map loops (`len(input)+1`) never cut
    a decode short: any larger bound gives the same result. -/
theorem loop_bounds_never_bind (e k : Ty) (c : Rd) (inp : Bytes) (fuel : Nat) (hf : inp.length < fuel) :
    decElems (fun i => dec e c i) (zero e) (inp.length + 1) inp = decElems (fun i => dec e c i) (zero e) fuel inp ∧
    decEntries (fun i => dec k c i) (fun i => dec e c i) (zero e) (inp.length + 1) inp =
      decEntries (fun i => dec k c i) (fun i => dec e c i) (zero e) fuel inp :=
  ⟨decElems_fuel (dec_good e c) (zero e) _ _ inp (by omega) hf,
   decEntries_fuel (dec_good k c) (dec_good e c) (zero e) _ _ inp (by omega) hf⟩

end Goloop.C23
