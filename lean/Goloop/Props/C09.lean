/-
  Props/C09 — "Parallel transaction execution is equivalent to sequential execution".

  Proved here: the part of the mechanism that is sequential code – the lock-request bookkeeping
  (`applyLockRequests`/`getLocker`/`setLocker` run by the dispatcher over the block's request
  lists) – gives every declared account of every transaction exactly the dependency the schedule
  constraint needs: the LAST earlier transaction that may write the account (per-account write
  request or a world write lock), or none.  Consequently the transactions that may write one
  account are chained by dependencies in block order (`writers_are_chained`).

  NOT proved (only tested against the real code and the sequential reference by the
  correspondence run and the oracle): that every interleaving of the event system built on this
  table (`Sim` in Model/C09) is equivalent to the sequential execution.  The statement is kept
  below as a comment next to `serializable_partial`.
-/
import Goloop.Proofs.C09
namespace Goloop.C09
open Goloop.C09.Proofs

/-- `lastWriter base pre a` really is the greatest index (counted from `base`) of a transaction in
    `pre` whose request list lets it modify `a`. -/
theorem lastWriter_spec (a : Nat) : ∀ (pre : List Tx) (base : Nat),
    (∀ k, lastWriter base pre a = some k →
      ∃ h : k - base < pre.length, base ≤ k ∧ mayWrite (pre[k - base]).reqs a = true ∧
        ∀ j (hj : j < pre.length), k - base < j → mayWrite (pre[j]).reqs a = false) ∧
    (lastWriter base pre a = none → ∀ j (hj : j < pre.length), mayWrite (pre[j]).reqs a = false) := by
  intro pre
  induction pre with
  | nil => intro base; simp [lastWriter]
  | cons t rest ih =>
    intro base
    obtain ⟨ih1, ih2⟩ := ih (base + 1)
    simp only [lastWriter]
    cases hl : lastWriter (base + 1) rest a with
    | some k' =>
      refine ⟨?_, by simp⟩
      intro k hk
      simp only [Option.some.injEq] at hk
      subst hk
      obtain ⟨h, hb, hm, hafter⟩ := ih1 k' hl
      have e : k' - base = (k' - (base + 1)) + 1 := by omega
      refine ⟨by simp only [List.length_cons]; omega, by omega, ?_, ?_⟩
      · simp only [e, List.getElem_cons_succ]; exact hm
      · intro j hj hlt
        cases j with
        | zero => omega
        | succ j =>
          simp only [List.getElem_cons_succ]
          exact hafter j (by simpa using hj) (by omega)
    | none =>
      simp only
      by_cases hm : mayWrite t.reqs a = true
      · simp only [hm, if_true]
        refine ⟨?_, by simp⟩
        intro k hk
        simp only [Option.some.injEq] at hk
        subst hk
        refine ⟨by simp, Nat.le_refl _, by simpa using hm, ?_⟩
        intro j hj hlt
        cases j with
        | zero => omega
        | succ j =>
          simp only [List.getElem_cons_succ]
          exact ih2 hl j (by simpa using hj)
      · have hm' : mayWrite t.reqs a = false := by simpa using hm
        simp only [hm', Bool.false_eq_true, if_false]
        refine ⟨by simp, ?_⟩
        intro _ j hj
        cases j with
        | zero => simpa using hm'
        | succ j =>
          simp only [List.getElem_cons_succ]
          exact ih2 hl j (by simpa using hj)

/-- For EVERY block (sequence of lock-request lists), every transaction `i` and every account entry
    the bookkeeping creates for it: the recorded dependency is the last earlier transaction that may
    write that account (write request on it, or world write lock), `none` if there is none. -/
theorem depend_is_last_writer (txs : List Tx) (i : Nat) (hi : i < txs.length) (lk : Locks)
    (hlk : (build txs)[i]? = some lk) (l : Las) (hl : l ∈ lk.las) :
    l.depend = lastWriter 0 (txs.take i) l.acct := by
  unfold build at hlk
  rw [buildFrom_getElem txs Ctx.empty 0 i hi] at hlk
  injection hlk with hlk
  subst hlk
  rw [las_depend _ _ _ l hl, getLocker_ctxAfter]
  cases lastWriter 0 (List.take i txs) l.acct <;> simp [Ctx.getLocker, Ctx.empty]

example : (build [⟨[⟨some 1, .write⟩], []⟩, ⟨[⟨none, .write⟩], []⟩, ⟨[⟨some 1, .read⟩, ⟨some 2, .write⟩], []⟩])[2]?.map
    (fun lk => lk.las) = some [⟨1, .read, some 1⟩, ⟨2, .write, some 1⟩] := by decide

/-- A transaction holds the world write lock (no per-account entries; every state access waits for
    ALL predecessors in `Realize`) exactly when its request list contains a world write request. -/
theorem world_lock_iff (c : Ctx) (i : Nat) (reqs : List Req) :
    ((applyLockRequests c i reqs).1.world = 2 ↔ hasWorldW reqs = true) ∧
    ((applyLockRequests c i reqs).1.world = 2 → (applyLockRequests c i reqs).1.las = []) := by
  unfold applyLockRequests
  by_cases hw : worldLockOf reqs = 2
  · simp [hw, (worldLockOf_eq_two reqs).mp hw]
  · have : hasWorldW reqs = false := by
      cases h : hasWorldW reqs
      · rfl
      · exact absurd ((worldLockOf_eq_two reqs).mpr h) hw
    simp [hw, this]

/-- The transactions that may write one account are chained in block order: if `j < i` may write
    `a` and `i` has an entry for `a`, then `i` waits for some `k` with `j ≤ k < i` that may write `a`
    (and `k`, if it is not `j`, in turn waits for a writer between `j` and itself, and so on). -/
theorem writers_are_chained (txs : List Tx) (i : Nat) (hi : i < txs.length) (lk : Locks)
    (hlk : (build txs)[i]? = some lk) (l : Las) (hl : l ∈ lk.las)
    (j : Nat) (hj : j < i) (hw : mayWrite (txs[j]'(by omega)).reqs l.acct = true) :
    ∃ k, ∃ hk : k < i, l.depend = some k ∧ j ≤ k ∧ mayWrite (txs[k]'(by omega)).reqs l.acct = true := by
  have hd := depend_is_last_writer txs i hi lk hlk l hl
  have hspec := lastWriter_spec l.acct (txs.take i) 0
  have hlen : (txs.take i).length = i := by simp; omega
  cases hlw : lastWriter 0 (txs.take i) l.acct with
  | none =>
    have := hspec.2 hlw j (by omega)
    simp only [List.getElem_take] at this
    rw [this] at hw
    cases hw
  | some k =>
    obtain ⟨hk, _, hm, hafter⟩ := hspec.1 k hlw
    simp only [Nat.sub_zero] at hk hm hafter
    refine ⟨k, by omega, by rw [hd, hlw], ?_, ?_⟩
    · by_cases hjk : j ≤ k
      · exact hjk
      · have := hafter j (by omega) (by omega)
        simp only [List.getElem_take] at this
        rw [this] at hw
        cases hw
    · simpa [List.getElem_take] using hm

/-
  serializable (full statement, NOT proved): for every schedule of `Sim` events (one program step
  or one Commit of one transaction, each fired only when `enabledTx` holds) that commits every
  transaction of a block whose transactions request no world READ lock and whose world write
  lockers access the state before committing: every value observed by transaction `i` equals the
  value observed by `i` in `runSeq`, and the final store equals the one of `runSeq`.
  What is proved of it is only the statement below: the schedule constraint the event system
  relies on (dependencies = last earlier writer) is what the bookkeeping computes.
-/
theorem serializable_partial (txs : List Tx) (i : Nat) (hi : i < txs.length) (lk : Locks)
    (hlk : (build txs)[i]? = some lk) (l : Las) (hl : l ∈ lk.las) :
    l.depend = lastWriter 0 (txs.take i) l.acct :=
  depend_is_last_writer txs i hi lk hlk l hl

end Goloop.C09
