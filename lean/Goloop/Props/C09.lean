/-
  Props/C09 — "Parallel transaction execution is equivalent to sequential execution".

  Proved here: the part of the mechanism that is sequential code – the lock-request bookkeeping
  (`applyLockRequests`/`getLocker`/`setLocker` run by the dispatcher over the block's request
  lists) – gives every declared account of every transaction exactly the dependency the schedule
  constraint needs: the LAST earlier transaction that may write the account (per-account write
  request or a world write lock), or none.  Consequently the transactions that may write one
  account are chained by dependencies in block order (`writers_are_chained`).

  On top of that: `serializable` (every schedule of the event system `Sim` = sequential execution)
  and `deadlock_free`, with witness theorems for the excluded block shapes.
-/
import Goloop.Proofs.C09Ser
import Goloop.Proofs.C09Retry
namespace Goloop.C09
open Goloop.C09.Proofs

/-- `lastWriter base pre a` really is the greatest index (counted from `base`) of a transaction in
    `pre` whose request list lets it modify `a`. -/
theorem lastWriter_spec (a : Nat) : ∀ (pre : List Tx) (base : Nat),
    (∀ k, lastWriter base pre a = some k →
      ∃ h : k - base < pre.length, base ≤ k ∧ mayWrite (pre[k - base]).reqs a = true ∧
        ∀ j (hj : j < pre.length), k - base < j → mayWrite (pre[j]).reqs a = false) ∧
    (lastWriter base pre a = none → ∀ j (hj : j < pre.length), mayWrite (pre[j]).reqs a = false) := Proofs.lastWriter_spec' a

/-- For EVERY block (sequence of lock-request lists), every transaction `i` and every account entry
    the bookkeeping creates for it: the recorded dependency is the last earlier transaction that may
    write that account (write request on it, or world write lock), `none` if there is none. -/
theorem depend_is_last_writer (txs : List Tx) (i : Nat) (hi : i < txs.length) (lk : Locks)
    (hlk : (build txs)[i]? = some lk) (l : Las) (hl : l ∈ lk.las) :
    l.depend = lastWriter 0 (txs.take i) l.acct := by
  unfold build at hlk
  rw [buildFrom_getElem txs Ctx.empty 0 i hi] at hlk
  injection hlk with hlk
  subst hlk
  rw [las_depend _ _ _ l hl, getLocker_ctxAfter]
  cases lastWriter 0 (List.take i txs) l.acct <;> simp [Ctx.getLocker, Ctx.empty]

example : (build [⟨[⟨some 1, .write⟩], []⟩, ⟨[⟨none, .write⟩], []⟩, ⟨[⟨some 1, .read⟩, ⟨some 2, .write⟩], []⟩])[2]?.map
    (fun lk => lk.las) = some [⟨1, .read, some 1⟩, ⟨2, .write, some 1⟩] := by decide

/-- A transaction holds the world write lock (no per-account entries; every state access waits for
    ALL predecessors in `Realize`) exactly when its request list contains a world write request. -/
theorem world_lock_iff (c : Ctx) (i : Nat) (reqs : List Req) :
    ((applyLockRequests c i reqs).1.world = 2 ↔ hasWorldW reqs = true) ∧
    ((applyLockRequests c i reqs).1.world = 2 → (applyLockRequests c i reqs).1.las = []) := by
  unfold applyLockRequests
  by_cases hw : worldLockOf reqs = 2
  · simp [hw, (worldLockOf_eq_two reqs).mp hw]
  · have : hasWorldW reqs = false := by
      cases h : hasWorldW reqs
      · rfl
      · exact absurd ((worldLockOf_eq_two reqs).mpr h) hw
    simp [hw, this]

/-- The transactions that may write one account are chained in block order: if `j < i` may write
    `a` and `i` has an entry for `a`, then `i` waits for some `k` with `j ≤ k < i` that may write `a`
    (and `k`, if it is not `j`, in turn waits for a writer between `j` and itself, and so on). -/
theorem writers_are_chained (txs : List Tx) (i : Nat) (hi : i < txs.length) (lk : Locks)
    (hlk : (build txs)[i]? = some lk) (l : Las) (hl : l ∈ lk.las)
    (j : Nat) (hj : j < i) (hw : mayWrite (txs[j]'(by omega)).reqs l.acct = true) :
    ∃ k, ∃ hk : k < i, l.depend = some k ∧ j ≤ k ∧ mayWrite (txs[k]'(by omega)).reqs l.acct = true := by
  have hd := depend_is_last_writer txs i hi lk hlk l hl
  have hspec := lastWriter_spec l.acct (txs.take i) 0
  have hlen : (txs.take i).length = i := by simp; omega
  cases hlw : lastWriter 0 (txs.take i) l.acct with
  | none =>
    have := hspec.2 hlw j (by omega)
    simp only [List.getElem_take] at this
    rw [this] at hw
    cases hw
  | some k =>
    obtain ⟨hk, _, hm, hafter⟩ := hspec.1 k hlw
    simp only [Nat.sub_zero] at hk hm hafter
    refine ⟨k, by omega, by rw [hd, hlw], ?_, ?_⟩
    · by_cases hjk : j ≤ k
      · exact hjk
      · have := hafter j (by omega) (by omega)
        simp only [List.getElem_take] at this
        rw [this] at hw
        cases hw
    · simpa [List.getElem_take] using hm

/-! ### serializability of the event system `Sim`

`Supported txs` (Proofs/C09Seq) states which blocks are covered:
* `noWorldRead`  – no request for a READ lock on the whole world (no handler makes one);
* `worldTouches` – a transaction holding the world WRITE lock has a non-empty program, i.e. it
  accesses the state before it commits (the worker always calls `ctx.UpdateSystemInfo()`);
* `valid`        – a write step goes to an account the transaction may write, or to an undeclared
  account (where the code returns nil and nothing happens); a write through a read-only account
  state panics in the code.
The two witness theorems below show that the first two hypotheses cannot be dropped.

A schedule is a list of transaction indices; `runSched` fires them one by one and yields `none` as
soon as one of them is not enabled, so `runSched … = some s` says "`s` is reached by a sequence of
enabled events" – any interleaving of program steps and Commits the blocking discipline admits. -/

theorem ext_getD (l1 l2 : List Nat) (hl : l1.length = l2.length) (h : ∀ a, l1.getD a 0 = l2.getD a 0) :
    l1 = l2 := by
  apply List.ext_getElem hl
  intro a h1 h2
  have := h a
  simpa [List.getD_eq_getElem?_getD, h1, h2] using this

/-- what the invariant of `Sim` says in terms of the sequential reference `runSeq` -/
theorem inv_conclusions (txs : List Tx) (nacc : Nat) (s : Sim) (h : Inv txs (initBal nacc) s) :
    (∀ i, i < txs.length → (s.sts.getD i {}).loc.obs <+: (runSeq nacc txs).2.getD i []) ∧
    ((∀ i, i < txs.length → s.isCommitted i = true) →
      s.real = (runSeq nacc txs).1 ∧ s.sts.map (fun st => st.loc.obs) = (runSeq nacc txs).2) := by
  rw [runSeq_eq]
  constructor
  · intro i hi
    have hloc := h.loc i hi
    have hpc := h.pcLe i hi
    simp only [stOf] at hloc hpc
    rw [hloc]
    simp only [List.getD_eq_getElem?_getD, List.getElem?_map, List.getElem?_range hi, Option.map_some,
      Option.getD_some]
    exact partialRun_obs_prefix _ _ _ _ _ _ hpc
  · intro hall
    constructor
    · apply ext_getD
      · rw [h.lenR, seqState_length]
      · intro a
        exact h.fin a (fun j hj _ => hall j hj)
    · apply List.ext_getElem
      · simp [h.lenS]
      · intro i h1 h2
        have hi : i < txs.length := by simpa using h2
        have hst : stOf s i = s.sts[i]'(by simpa using h1) := by
          simp [stOf, List.getD_eq_getElem?_getD, (by simpa using h1 : i < s.sts.length)]
        simp only [List.getElem_map, List.getElem_range]
        rw [← hst, h.loc i hi, h.commPc i hi (hall i hi)]

/-- SERIALIZABLE. For every supported block, every account universe and EVERY schedule of enabled
    events:
    (a) at every moment, what each transaction has observed so far (every value a read returned,
        `none` for an undeclared account) is a prefix of what it observes in the sequential
        execution of the block – i.e. a read returns the value left by all earlier transactions in
        block order (and by the transaction's own earlier writes);
    (b) once every transaction is committed, the world state equals the sequential final state
        and every transaction's list of observations equals the sequential one. -/
theorem serializable (txs : List Tx) (hs : Supported txs) (nacc : Nat) (sched : List Nat) (s : Sim)
    (hrun : runSched txs (build txs) sched (simInit nacc txs) = some s) :
    (∀ i, i < txs.length → (s.sts.getD i {}).loc.obs <+: (runSeq nacc txs).2.getD i []) ∧
    ((∀ i, i < txs.length → s.isCommitted i = true) →
      s.real = (runSeq nacc txs).1 ∧ s.sts.map (fun st => st.loc.obs) = (runSeq nacc txs).2) := by
  exact inv_conclusions txs nacc s (inv_runSched hs sched _ s (inv_init hs nacc) hrun)

/-- The executable `simulate` that the correspondence run compares with the real code (token or
    priority schedules) is an instance: whatever it returns satisfies `serializable`. -/
theorem simulate_serializable (txs : List Tx) (hs : Supported txs) (nacc fuel : Nat) (sc : Sched)
    (hok : SchedOK txs.length sc) (s : Sim)
    (hsim : simulate txs (build txs) fuel (simInit nacc txs) sc = some s)
    (hall : ∀ i, i < txs.length → s.isCommitted i = true) :
    s.real = (runSeq nacc txs).1 ∧ s.sts.map (fun st => st.loc.obs) = (runSeq nacc txs).2 := by
  obtain ⟨sched, hrun⟩ := simulate_is_schedule txs (build txs) fuel _ sc s hok hsim
  exact (serializable txs hs nacc sched s hrun).2 hall

/-- the hypotheses are satisfiable by a block with conflicts, a world write lock and an unused lock -/
example : Supported [⟨[⟨some 1, .write⟩, ⟨some 0, .read⟩], [.r 0, .r 1, .w 1]⟩,
                     ⟨[⟨some 1, .write⟩], []⟩,
                     ⟨[⟨none, .write⟩], [.r 0, .w 1, .w 2]⟩,
                     ⟨[⟨some 1, .read⟩, ⟨some 2, .write⟩], [.r 1, .w 2, .r 3]⟩] :=
  ⟨by decide, by decide, by decide⟩

/-- DEADLOCK FREEDOM: in every state of `Sim` (reachable or not) in which some transaction of the
    block is not committed, some event is enabled – the least uncommitted transaction can always
    make its next program step or commit. -/
theorem deadlock_free (txs : List Tx) (s : Sim)
    (hunc : ∃ i, i < txs.length ∧ s.isCommitted i = false) :
    ∃ i, i < txs.length ∧ enabledTx txs (build txs) s i = true :=
  exists_enabled hunc

/-- WITNESS that `noWorldRead` is needed: with a world READ lock the event system (and the real
    code: `blk g 3 3 w1:w1 R:r1,r2 w1:w1 p 2 1 0`) lets the world reader observe the write of a
    LATER transaction: transaction 1 reads 317 from account 1, sequentially it reads 115. -/
theorem world_read_lock_not_serializable :
    let txs : List Tx := [⟨[⟨some 1, .write⟩], [.w 1]⟩, ⟨[⟨none, .read⟩], [.r 1, .r 2]⟩, ⟨[⟨some 1, .write⟩], [.w 1]⟩]
    (runSched txs (build txs) [0, 0, 2, 2, 1, 1, 1] (simInit 3 txs)).map (fun s => s.sts.map (fun st => st.loc.obs))
      = some [[], [some 317, some 3000], []] ∧
    (runSeq 3 txs).2 = [[], [some 115, some 3000], []] := by
  decide

/-- WITNESS that `worldTouches` is needed: a world write locker that commits without touching the
    state (`blk g 3 3 w1:r1,w1 W:- w1:r1,w1 p 2 1 0`) lets transaction 2 run before transaction 0:
    transaction 2 reads the initial 2000 from account 1, sequentially it reads 34234. -/
theorem idle_world_writer_not_serializable :
    let txs : List Tx := [⟨[⟨some 1, .write⟩], [.r 1, .w 1]⟩, ⟨[⟨none, .write⟩], []⟩, ⟨[⟨some 1, .write⟩], [.r 1, .w 1]⟩]
    (runSched txs (build txs) [1, 2, 2, 2, 0, 0, 0] (simInit 3 txs)).map (fun s => s.sts.map (fun st => st.loc.obs))
      = some [[some 34436], [], [some 2000]] ∧
    (runSeq 3 txs).2 = [[some 2000], [], [some 34234]] := by
  decide

/-! ### executor retry (GetSnapshot at start, run, Reset, run again) – Model/C09Retry

`RSim` adds to `Sim` the events `snap i` (GetSnapshot with its real semantics per lock kind:
account locks – never blocks, records the resolved write-locked entries; world write lock – enabled
only when every predecessor is committed, then a copy of the real state) and `reset i` (Reset to
that snapshot; world write lock – the real state becomes the copy; account locks – every
write-locked entry goes back to its snapshot value or to `las.base`; the program starts again).
`retry[i]` says which transactions follow the pattern; a retrying transaction must take its snapshot
before its first step and may commit only after the Reset and the second run. -/

/-- The retry invariant (`RInv`: the invariant of `Sim` + the facts about the snapshot data) holds
    in every state reached by ANY schedule of enabled events (snapshots, steps, Commits, Resets in
    any admissible interleaving). -/
theorem retry_invariant_reachable (txs : List Tx) (hs : Supported txs) (retry : List Bool) (nacc : Nat)
    (evs : List Ev) (r : RSim)
    (hrun : runEv true txs retry (build txs) evs (rInit nacc txs) = some r) :
    RInv txs retry (initBal nacc) r :=
  rinv_run hs evs _ r (rinv_init hs retry nacc) hrun

/-- SERIALIZABLE WITH RETRY. For every supported block, every choice of retrying transactions,
    every account universe and EVERY schedule of enabled events of the retry system:
    (a) at every moment the observations of the current run of each transaction are a prefix of its
        sequential observations;
    (b) once every transaction is committed, the world state equals the sequential final state and
        every transaction's observations equal the sequential ones – a retrying transaction counts
        as its final run (`runSeq` knows nothing about retries). -/
theorem serializable_with_retry (txs : List Tx) (hs : Supported txs) (retry : List Bool) (nacc : Nat)
    (evs : List Ev) (r : RSim)
    (hrun : runEv true txs retry (build txs) evs (rInit nacc txs) = some r) :
    (∀ i, i < txs.length → (r.sim.sts.getD i {}).loc.obs <+: (runSeq nacc txs).2.getD i []) ∧
    ((∀ i, i < txs.length → r.sim.isCommitted i = true) →
      r.sim.real = (runSeq nacc txs).1 ∧ r.sim.sts.map (fun st => st.loc.obs) = (runSeq nacc txs).2) :=
  inv_conclusions txs nacc r.sim (retry_invariant_reachable txs hs retry nacc evs r hrun).inv

/-- non-vacuity: a supported block with a retrying world write locker and a retrying account locker,
    and a complete schedule of enabled events for it -/
example :
    let txs : List Tx := [⟨[⟨some 0, .write⟩, ⟨some 1, .read⟩], [.r 1, .r 0, .w 0]⟩, ⟨[⟨none, .write⟩], [.r 0, .w 0, .w 1]⟩]
    Supported txs ∧
    (runEv true txs [true, true] (build txs)
      [.snap 0, .act 0, .act 0, .act 0, .reset 0, .act 0, .act 0, .act 0, .act 0,
       .snap 1, .act 1, .act 1, .act 1, .reset 1, .act 1, .act 1, .act 1, .act 1] (rInit 2 txs)).map
        (fun r => (r.sim.real, r.sim.sts.map (fun st => st.committed))) = some ((runSeq 2 txs).1, [true, true]) :=
  ⟨⟨by decide, by decide, by decide⟩, by decide⟩

/-- WITNESS for the guard the proof relies on (seeded change C09-5): if the snapshot of the real
    state is taken BEFORE waiting for the predecessors (`guarded = false`), the block
    [tx0: write-lock account 0, read it, write it] [tx1: world write lock, retrying] has a schedule
    of enabled events – tx1 snapshots first, tx0 runs and commits, tx1 runs, resets, runs again –
    after which tx0's write is lost: tx1 reads 1000 instead of 17221 and the final state is
    [17322, 311809] instead of the sequential [293079, 275420].  With the guard the same schedule is
    not admissible (the snapshot event is not enabled), and the admissible one gives the sequential result. -/
theorem retry_snapshot_before_wait_not_serializable :
    let txs : List Tx := [⟨[⟨some 0, .write⟩], [.r 0, .w 0]⟩, ⟨[⟨none, .write⟩], [.r 0, .w 0, .w 1]⟩]
    let early : List Ev := [.snap 1, .act 0, .act 0, .act 0, .act 1, .act 1, .act 1, .reset 1, .act 1, .act 1, .act 1, .act 1]
    let late : List Ev := [.act 0, .act 0, .act 0, .snap 1, .act 1, .act 1, .act 1, .reset 1, .act 1, .act 1, .act 1, .act 1]
    (runEv false txs [false, true] (build txs) early (rInit 2 txs)).map (fun r => (r.sim.real, r.sim.sts.map (fun st => st.loc.obs)))
      = some ([17322, 311809], [[some 1000], [some 1000]]) ∧
    (runEv true txs [false, true] (build txs) early (rInit 2 txs)).map (fun r => r.sim.real) = none ∧
    (runEv true txs [false, true] (build txs) late (rInit 2 txs)).map (fun r => (r.sim.real, r.sim.sts.map (fun st => st.loc.obs)))
      = some (runSeq 2 txs) ∧
    runSeq 2 txs = ([293079, 275420], [[some 1000], [some 17221]]) := by
  decide

end Goloop.C09
