/-
  Props/C35 — "Rewards never exceed the term's reward budget" (IISS-4 calculator).
  Statements only; proofs are in Proofs/C35.lean.  `sumInt` is the sum of a list of integers.
-/
import Goloop.Proofs.C35
namespace Goloop.C35
open Proofs

/-- Σ ⌊aᵢ·R/A⌋ ≤ R whenever Σ aᵢ ≤ A (any list, any signs of the aᵢ), R ≥ 0, A > 0. -/
theorem floor_shares_le_total (as : List Int) (R A : Int) (hR : 0 ≤ R) (hA : 0 < A)
    (hs : sumInt as ≤ A) : sumInt (as.map (fun a => a * R / A)) ≤ R :=
  Proofs.floor_shares_le_total as R A hR hA hs

example : (0:Int) ≤ 10 ∧ (0:Int) < 7 ∧ sumInt [3, 3, 1] ≤ 7 ∧ sumInt ([3, 3, 1].map (fun a => a * 10 / 7)) = 9 := by decide

/-- Each term of `Voter.CalculateReward` is the voter's proportional share of the P-Rep's voter
    reward, rounded down: r ≤ av·VR/AV < r+1 (stated without fractions). -/
theorem voter_share_is_proportional (av VR AV : Int) (hAV : 0 < AV) :
    (av * VR / AV) * AV ≤ av * VR ∧ av * VR < (av * VR / AV + 1) * AV := by
  constructor
  · exact Int.ediv_mul_le _ (by omega)
  · exact Int.lt_ediv_add_one_mul_self _ hAV

example : (0:Int) < 7 ∧ ((5:Int) * 10 / 7) = 7 := by decide

/-- `PRepInfo.CalculateReward`: commissions plus voter rewards of all P-Reps stay within the
    P-Rep fund of the term, wages within the wage fund.  `PRepWF` = no P-Rep has a negative
    accumulated power, commission rates are in [0,100%], `totalAccumulatedPower` is what
    `UpdateTotalAccumulatedPower` computes, at most `electedPRepCount` entries are ranked below it. -/
theorem prep_rewards_le_fund (pi : PRepInfo) (wf : PRepWF pi) (fundPRep fundWage minBond : Int)
    (hP : 0 ≤ fundPRep) (hW : 0 ≤ fundWage) :
    let pi' := pi.calculateReward fundPRep fundWage minBond
    sumInt (pi'.preps.map (fun p => p.commission + p.voterReward)) ≤ fundToPeriodIScore fundPRep pi.termPeriod ∧
    sumInt (pi'.preps.map PRep.wage) ≤ fundToPeriodIScore fundWage pi.termPeriod := by
  have hper : (0:Int) ≤ pi.termPeriod := by unfold PRepInfo.termPeriod; omega
  have hT := fund_nonneg fundPRep _ hP hper
  have hWn := fund_nonneg fundWage _ hW hper
  by_cases he : pi.elected = 0
  · simp only [PRepInfo.calculateReward, he, if_true]
    have h0 : ∀ (f : PRep → Int), (∀ p ∈ pi.preps, f p = 0) → sumInt (pi.preps.map f) = 0 := by
      intro f hf
      rw [sumInt_map_congr _ f (fun _ => 0) hf]; exact sumInt_map_zero _
    rw [h0 _ (fun p hp => by have := wf.clean p hp; omega), h0 _ (fun p hp => (wf.clean p hp).2.2)]
    exact ⟨hT, hWn⟩
  · simp only [PRepInfo.calculateReward, he, if_false]
    have hmw : 0 ≤ fundToPeriodIScore fundWage pi.termPeriod / (pi.elected : Int) :=
      Int.ediv_nonneg hWn (by omega)
    have hf := fun p hp => payStep_fields pi wf (fundToPeriodIScore fundPRep pi.termPeriod) minBond _ hT hmw p hp
    constructor
    · rw [List.map_map]
      refine Int.le_trans (Int.le_of_eq ?_) (prepRewards_le pi wf _ hT)
      apply sumInt_map_congr
      intro p hp
      exact (hf p hp).1
    · rw [List.map_map]
      refine Int.le_trans ?_ (wages_le pi wf _ hWn he)
      apply sumInt_map_le
      intro p hp
      exact (hf p hp).2.2.2.2.1

/-- For one P-Rep: whatever list of accumulated votes the voters hold for it, if they add up to at
    most the P-Rep's `accumulatedVoted`, the floor shares add up to at most its voter reward. -/
theorem voter_rewards_le_prep_voter_reward (avs : List Int) (VR AV : Int) (hVR : 0 ≤ VR) (hAV : 0 < AV)
    (hsum : sumInt avs ≤ AV) : sumInt (avs.map (fun av => av * VR / AV)) ≤ VR :=
  Proofs.floor_shares_le_total avs VR AV hVR hAV hsum

/-- Summed over all voters and all P-Reps (maps keyed by address, any number of entries):
    the voters' rewards are bounded by the sum of the P-Reps' voter rewards. -/
theorem voters_total_le_voter_rewards (elected : Nat) (ps : List PRep) (E : Votes)
    (hnd : (ps.map (·.owner)).Nodup)
    (hpos : ∀ p ∈ ps, p.isRewardable elected = true → 0 < p.accVoted ∧ 0 ≤ p.voterReward)
    (hsum : ∀ p ∈ ps, p.isRewardable elected = true → sumInt ((votesFor E p.owner).map (·.2)) ≤ p.accVoted) :
    sumInt (E.map (shareIn ps elected)) ≤
      sumInt (ps.map (fun p => if p.isRewardable elected then p.voterReward else 0)) :=
  voter_side elected ps E hnd hpos hsum

/-- Accumulation identities for one P-Rep over its vote events `(isBond, amount, offset)`,
    `runVotes` = repeated `PRep.ApplyVote` with period `offsetLimit − offset`:
    `accumulatedVoted` grows by Σ amount·(L − offset), and `accumulatedPower` stays non-negative
    as long as offsets do not decrease, stay in the term and the power is never negative
    (start: `InitAccumulated`, i.e. `power·(L+1) = power·(L − (−1))`). -/
theorem accumulation_identities (L br : Int) (evs : List (Bool × Int × Int)) (p : PRep)
    (hL : -1 ≤ L) (hp : 0 ≤ p.power) (hinit : p.accPower = p.power * (L + 1))
    (hv : ValidFrom L br (-1) p evs) :
    0 ≤ (runVotes L br p evs).accPower ∧
    (runVotes L br p evs).accVoted = p.accVoted + sumInt (evs.map (fun e => e.2.1 * (L - e.2.2))) := by
  apply runVotes_acc L br evs p (-1) hL hp _ hv
  rw [hinit, show L - (-1) = L + 1 by omega]; exact Int.le_refl _

/-- Accumulation identity, voter side (`Voter.ApplyVoting` + `Voter.ApplyEvent` as driven by
    `processVoterReward`), for every input, voter `v` and P-Rep `k`: the accumulated votes `v` holds for
    `k` are (base delegation + base bond to `k`)·(L+1) + Σ over v's vote events of (votes to k)·(L − offset)
    — the same terms `PRep.ApplyVote` adds to `accumulatedVoted` (`accumulation_identities`). -/
theorem voter_accumulation_identity (i : Input) (v k : Nat) :
    votesTo k (voterAV i v) =
      (votesTo k (lookupVotes i.delegating v) + votesTo k (lookupVotes i.bonding v)) * ((i.offsetLimit : Int) + 1) +
      evSum k (i.offsetLimit : Int) (eventsOf i.events v) :=
  voterAV_votesTo i v k

/-- FULL STATEMENT (what the property asks): for every input (voting history of a term) for which
    `Calculate` succeeds, the total I-Score credited is at most the term's budget.
    PARTIAL: proved under `TermWF i`, five facts about the state *after* `processEvents`
    (non-negative accumulated power of the elected, valid commission rates, owners distinct,
    at most `electedPRepCount` ranked entries, non-negative funds, and — the consistency of the
    reward database — for every rewardable P-Rep the voters' accumulated votes add up to at most
    its `accumulatedVoted > 0`).  These are not derived from the raw input here; the per-P-Rep
    part is `accumulation_identities`, the rest is checked at run time by the oracle. -/
theorem total_credited_le_budget_partial (i : Input) (r : Result) (hcalc : calculate i = some r)
    (wf : TermWF i) : r.totalCredited ≤ i.budget :=
  total_le_budget i r hcalc wf


/-! ### non-vacuity: a concrete term satisfying all hypotheses, with non-zero rewards -/

def exInput : Input :=
  { elected := 2, offsetLimit := 9, br := 500, iglobal := 3000000000, iprepRate := 7700, iwageRate := 1300,
    minBond := 10,
    voteds := [ { owner := 0, status := 0, delegated := 100, bonded := 20, rate := 1000, pubkey := true },
                { owner := 1, status := 0, delegated := 50, bonded := 0, rate := 0, pubkey := true } ],
    delegating := [(2, [(0, 100), (1, 50)])],
    bonding := [(0, [(0, 20)])],
    events := [Event.vote false 3 2 [(0, -40), (1, 40)]] }

example : (calculate exInput).isSome = true := by decide
example : ((calculate exInput).map Result.totalCredited) = some 19328702 ∧ exInput.budget = 20833333 := by decide

example : PRepWF (prepInfoAfterEvents exInput) :=
  ⟨by decide, by decide, by decide, by decide, by decide⟩

example : TermWF exInput :=
  ⟨⟨by decide, by decide, by decide, by decide, by decide⟩, by decide, by decide, by decide, by decide⟩

example : ValidFrom 9 500 (-1)
    { owner := 0, status := 0, delegated := 100, bonded := 20, rate := 0, pubkey := true, power := 120, accPower := 1200 }
    [(false, -40, 3), (true, 5, 3), (false, 7, 9)] := by
  simp only [ValidFrom]; decide

end Goloop.C35
