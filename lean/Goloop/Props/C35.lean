/-
  Props/C35 — "Rewards never exceed the term's reward budget" (IISS-4 calculator).
  Statements only; proofs are in Proofs/C35.lean.  `sumInt` is the sum of a list of integers.
-/
import Goloop.Proofs.C35
import Goloop.Proofs.C35Input
import Goloop.Proofs.C35Voters
namespace Goloop.C35
open Proofs

/-- Σ ⌊aᵢ·R/A⌋ ≤ R whenever Σ aᵢ ≤ A (any list, any signs of the aᵢ), R ≥ 0, A > 0. -/
theorem floor_shares_le_total (as : List Int) (R A : Int) (hR : 0 ≤ R) (hA : 0 < A)
    (hs : sumInt as ≤ A) : sumInt (as.map (fun a => a * R / A)) ≤ R :=
  Proofs.floor_shares_le_total as R A hR hA hs

example : (0:Int) ≤ 10 ∧ (0:Int) < 7 ∧ sumInt [3, 3, 1] ≤ 7 ∧ sumInt ([3, 3, 1].map (fun a => a * 10 / 7)) = 9 := by decide

/-- Each term of `Voter.CalculateReward` is the voter's proportional share of the P-Rep's voter
    reward, rounded down: r ≤ av·VR/AV < r+1 (stated without fractions). -/
theorem voter_share_is_proportional (av VR AV : Int) (hAV : 0 < AV) :
    (av * VR / AV) * AV ≤ av * VR ∧ av * VR < (av * VR / AV + 1) * AV := by
  constructor
  · exact Int.ediv_mul_le _ (by omega)
  · exact Int.lt_ediv_add_one_mul_self _ hAV

example : (0:Int) < 7 ∧ ((5:Int) * 10 / 7) = 7 := by decide

/-- `PRepInfo.CalculateReward`: commissions plus voter rewards of all P-Reps stay within the
    P-Rep fund of the term, wages within the wage fund.  `PRepWF` = no P-Rep has a negative
    accumulated power, commission rates are in [0,100%], `totalAccumulatedPower` is what
    `UpdateTotalAccumulatedPower` computes, at most `electedPRepCount` entries are ranked below it. -/
theorem prep_rewards_le_fund (pi : PRepInfo) (wf : PRepWF pi) (fundPRep fundWage minBond : Int)
    (hP : 0 ≤ fundPRep) (hW : 0 ≤ fundWage) :
    let pi' := pi.calculateReward fundPRep fundWage minBond
    sumInt (pi'.preps.map (fun p => p.commission + p.voterReward)) ≤ fundToPeriodIScore fundPRep pi.termPeriod ∧
    sumInt (pi'.preps.map PRep.wage) ≤ fundToPeriodIScore fundWage pi.termPeriod := by
  have hper : (0:Int) ≤ pi.termPeriod := by unfold PRepInfo.termPeriod; omega
  have hT := fund_nonneg fundPRep _ hP hper
  have hWn := fund_nonneg fundWage _ hW hper
  by_cases he : pi.elected = 0
  · simp only [PRepInfo.calculateReward, he, if_true]
    have h0 : ∀ (f : PRep → Int), (∀ p ∈ pi.preps, f p = 0) → sumInt (pi.preps.map f) = 0 := by
      intro f hf
      rw [sumInt_map_congr _ f (fun _ => 0) hf]; exact sumInt_map_zero _
    rw [h0 _ (fun p hp => by have := wf.clean p hp; omega), h0 _ (fun p hp => (wf.clean p hp).2.2)]
    exact ⟨hT, hWn⟩
  · simp only [PRepInfo.calculateReward, he, if_false]
    have hmw : 0 ≤ fundToPeriodIScore fundWage pi.termPeriod / (pi.elected : Int) :=
      Int.ediv_nonneg hWn (by omega)
    have hf := fun p hp => payStep_fields pi wf (fundToPeriodIScore fundPRep pi.termPeriod) minBond _ hT hmw p hp
    constructor
    · rw [List.map_map]
      refine Int.le_trans (Int.le_of_eq ?_) (prepRewards_le pi wf _ hT)
      apply sumInt_map_congr
      intro p hp
      exact (hf p hp).1
    · rw [List.map_map]
      refine Int.le_trans ?_ (wages_le pi wf _ hWn he)
      apply sumInt_map_le
      intro p hp
      exact (hf p hp).2.2.2.2.1

/-- For one P-Rep: whatever list of accumulated votes the voters hold for it, if they add up to at
    most the P-Rep's `accumulatedVoted`, the floor shares add up to at most its voter reward. -/
theorem voter_rewards_le_prep_voter_reward (avs : List Int) (VR AV : Int) (hVR : 0 ≤ VR) (hAV : 0 < AV)
    (hsum : sumInt avs ≤ AV) : sumInt (avs.map (fun av => av * VR / AV)) ≤ VR :=
  Proofs.floor_shares_le_total avs VR AV hVR hAV hsum

/-- Summed over all voters and all P-Reps (maps keyed by address, any number of entries):
    the voters' rewards are bounded by the sum of the P-Reps' voter rewards. -/
theorem voters_total_le_voter_rewards (elected : Nat) (ps : List PRep) (E : Votes)
    (hnd : (ps.map (·.owner)).Nodup)
    (hpos : ∀ p ∈ ps, p.isRewardable elected = true → 0 < p.accVoted ∧ 0 ≤ p.voterReward)
    (hsum : ∀ p ∈ ps, p.isRewardable elected = true → sumInt ((votesFor E p.owner).map (·.2)) ≤ p.accVoted) :
    sumInt (E.map (shareIn ps elected)) ≤
      sumInt (ps.map (fun p => if p.isRewardable elected then p.voterReward else 0)) :=
  voter_side elected ps E hnd hpos hsum

/-- Accumulation identities for one P-Rep over its vote events `(isBond, amount, offset)`,
    `runVotes` = repeated `PRep.ApplyVote` with period `offsetLimit − offset`:
    `accumulatedVoted` grows by Σ amount·(L − offset), and `accumulatedPower` stays non-negative
    as long as offsets do not decrease, stay in the term and the power is never negative
    (start: `InitAccumulated`, i.e. `power·(L+1) = power·(L − (−1))`). -/
theorem accumulation_identities (L br : Int) (evs : List (Bool × Int × Int)) (p : PRep)
    (hL : -1 ≤ L) (hp : 0 ≤ p.power) (hinit : p.accPower = p.power * (L + 1))
    (hv : ValidFrom L br (-1) p evs) :
    0 ≤ (runVotes L br p evs).accPower ∧
    (runVotes L br p evs).accVoted = p.accVoted + sumInt (evs.map (fun e => e.2.1 * (L - e.2.2))) := by
  apply runVotes_acc L br evs p (-1) hL hp _ hv
  rw [hinit, show L - (-1) = L + 1 by omega]; exact Int.le_refl _

/-- Accumulation identity, voter side (`Voter.ApplyVoting` + `Voter.ApplyEvent` as driven by
    `processVoterReward`), for every input, voter `v` and P-Rep `k`: the accumulated votes `v` holds for
    `k` are (base delegation + base bond to `k`)·(L+1) + Σ over v's vote events of (votes to k)·(L − offset)
    — the same terms `PRep.ApplyVote` adds to `accumulatedVoted` (`accumulation_identities`). -/
theorem voter_accumulation_identity (i : Input) (v k : Nat) :
    votesTo k (voterAV i v) =
      (votesTo k (lookupVotes i.delegating v) + votesTo k (lookupVotes i.bonding v)) * ((i.offsetLimit : Int) + 1) +
      evSum k (i.offsetLimit : Int) (eventsOf i.events v) :=
  voterAV_votesTo i v k

/-- The bound under hypotheses on the state *after* `processEvents` (`TermWF`: non-negative
    accumulated power of the elected, valid commission rates, distinct owners, at most
    `electedPRepCount` ranked entries, non-negative funds, and for every rewardable P-Rep the voters'
    accumulated votes add up to at most its `accumulatedVoted > 0`).  `TermWF` is *derived* from the
    raw input by `state_wf_of_input_wf`; the end-to-end statement is `total_credited_le_budget`. -/
theorem total_credited_le_budget_of_state_wf (i : Input) (r : Result) (hcalc : calculate i = some r)
    (wf : TermWF i) : r.totalCredited ≤ i.budget :=
  total_le_budget i r hcalc wf

/-- **(i) P-Rep side bookkeeping through the map `preps[owner]`** (`setPRep`/`getPRep`), for every
    input and every address `k`, no hypotheses: after `processEvents` the entry of `k` (`entryOf`: the
    entry stored for `k`, or the zero entry `ApplyVote` would create) is — up to its status, which
    only `SetStatus` touches — the entry `loadPRepInfo` had for `k` with `PRep.ApplyVote` applied once
    per vote to `k` in the event list, in order, with period `offsetLimit − offset`
    (`voteEvents k` = those votes as `(isBond, amount, offset)`).  In particular
    `accumulatedVoted(k) = accumulatedVoted₀(k) + Σ amount·(L − offset)`. -/
theorem prep_side_bookkeeping (i : Input) (k : Nat) :
    (∃ s, entryOf (prepInfoAfterEvents i) k =
      setSt s (runVotes (i.offsetLimit : Int) i.br (entryOf (loadPRepInfo i) k) (voteEvents k i.events))) ∧
    (entryOf (prepInfoAfterEvents i) k).accVoted = (entryOf (loadPRepInfo i) k).accVoted +
      sumInt ((voteEvents k i.events).map (fun e => e.2.1 * ((i.offsetLimit : Int) - e.2.2))) := by
  obtain ⟨s, hs⟩ := entryOf_events k i.events (loadPRepInfo i)
  have hc := cfg_load i
  simp only [cfg, Prod.mk.injEq] at hc
  rw [hc.2.1, hc.2.2] at hs
  have he : entryOf (prepInfoAfterEvents i) k = entryOf (i.events.foldl applyEvent (loadPRepInfo i)) k := rfl
  rw [he]
  refine ⟨⟨s, hs⟩, ?_⟩
  rw [hs]
  exact runVotes_accVoted _ _ _ _

/-- **(ii) summation over the voter set**: if the Delegating and the Bonding records have one entry
    per voter, then for every address `k` the accumulated votes of all voters `processVoterReward`
    visits (`allVotes`) add up to `baseVotes k · (L+1)` (the voters' base delegation + bond to `k`)
    plus Σ amount·(L − offset) over *all* votes to `k` in the event list — every event is counted for
    exactly one voter, its sender — i.e. exactly what (i) adds to `accumulatedVoted(k)`. -/
theorem voters_total_eq_events (i : Input) (k : Nat) (hd : (i.delegating.map (·.1)).Nodup)
    (hb : (i.bonding.map (·.1)).Nodup) :
    votesTo k (allVotes i) = baseVotes i k * ((i.offsetLimit : Int) + 1) +
      sumInt ((voteEvents k i.events).map (fun e => e.2.1 * ((i.offsetLimit : Int) - e.2.2))) :=
  votesTo_allVotes i k hd hb

/-- (i)+(ii): for every address `k` the gap between the P-Rep's `accumulatedVoted` and what all
    voters together accumulated for `k` is the same after the events as in the loaded state — every
    vote event adds the same amount·(L − offset) on both sides.  So Σ_voters = `accumulatedVoted(k)`
    exactly when the loaded state is exactly consistent, and Σ_voters ≤ `accumulatedVoted(k)` whenever
    `baseVotes k·(L+1) ≤ accumulatedVoted₀(k)`. -/
theorem voted_minus_voters_conserved (i : Input) (k : Nat) (hd : (i.delegating.map (·.1)).Nodup)
    (hb : (i.bonding.map (·.1)).Nodup) :
    (entryOf (prepInfoAfterEvents i) k).accVoted - votesTo k (allVotes i) =
      (entryOf (loadPRepInfo i) k).accVoted - baseVotes i k * ((i.offsetLimit : Int) + 1) := by
  rw [(prep_side_bookkeeping i k).2, voters_total_eq_events i k hd hb]
  omega

/-- **(iii) the state after `processEvents` is well-formed whenever the raw input is**: all of
    `TermWF` — clean reward fields, non-negative accumulated power of the elected, commission rates
    in range, distinct owners, at most `electedPRepCount` entries ranked below it, non-negative funds,
    `accumulatedVoted > 0` and Σ_voters accumulated votes ≤ `accumulatedVoted` for every rewardable
    P-Rep — follows from the decidable predicate `InputWF` on the reward database and the event list
    (see its definition in Proofs/C35Input.lean). -/
theorem state_wf_of_input_wf (i : Input) (wf : InputWF i) : TermWF i := termWF_of_inputWF i wf

/-- **Rewards never exceed the term's budget.**  For every input (base reward database + event
    list of one term) that satisfies `InputWF` and for which `iiss4Reward.Calculate` succeeds, the
    total I-Score credited to P-Reps and voters is at most
    `fundToPeriodIScore(Iprep) + fundToPeriodIScore(Iwage)`.
    `InputWF i` is a decidable condition on the RAW input only:
    `0 ≤ br`, `0 ≤ iglobal`, `0 ≤ iprep`, `0 ≤ iwage`; one Voted record per owner, commission rate in
    [0, 10000]; one Delegating / one Bonding record per voter; vote-event offsets non-decreasing and
    ≤ `offsetLimit`; for every possible P-Rep address the running totals `bonded` and
    `delegated+bonded` (Voted record + the votes of the event list, in order) never go negative;
    Σ_voters (base delegation + bond to `k`) ≤ `delegated+bonded` of `k`'s Voted record (0 if none).
    (The last two are conditions on the aggregated vote data; `input_wf_of_database_wf` derives them
    from per-voter conditions and the success of `UpdateVoting`, giving
    `total_credited_le_budget_consistent_db`.) -/
theorem total_credited_le_budget (i : Input) (r : Result) (hcalc : calculate i = some r)
    (wf : InputWF i) : r.totalCredited ≤ i.budget :=
  total_le_budget i r hcalc (termWF_of_inputWF i wf)

/-- `Delegating.ApplyVotes` / `Bonding.ApplyVotes` on well-formed records (one entry per target, no
    negative amount; deltas name each target once): when it succeeds the result is well-formed and for
    every target the new amount is the old amount plus the delta. -/
theorem apply_votes_adds_deltas (cur ds res : Votes) (hc : VotesOk cur) (hds : (ds.map (·.1)).Nodup)
    (h : applyVotes cur ds = some res) :
    VotesOk res ∧ ∀ k, votesTo k res = votesTo k cur + votesTo k ds :=
  applyVotes_spec cur ds res hc hds h

example : VotesOk [(0, 100), (1, 50)] ∧ ([((0:Nat), (-40:Int)), (1, 40)].map (·.1)).Nodup ∧
    applyVotes [(0, 100), (1, 50)] [(0, -40), (1, 40)] = some [(0, 60), (1, 90)] :=
  ⟨⟨by decide, by decide⟩, by decide, by decide⟩

/-- The aggregated conditions of `InputWF` (running Voted totals never negative; Voted ≥ what the
    voters hold) follow from `DatabaseWF` — per-voter conditions on the raw reward database: every
    Delegating / Bonding record has one entry per target and no negative amount, every vote event
    names each target once, and per address Σ_voters delegation ≤ `delegated`, Σ_voters bond ≤ `bonded`
    of the Voted record — together with the success of `VoteEvents.UpdateVoting` for every event
    sender (which `Calculate` checks itself: it returns an error otherwise). -/
theorem input_wf_of_database_wf (i : Input) (wf : DatabaseWF i)
    (hs : (eventSenders i.events).all (updateVotingOk i) = true) : InputWF i :=
  inputWF_of_databaseWF i wf hs

/-- **Rewards never exceed the term's budget, for every well-formed reward database.**  If the base
    reward database and the event list of the term satisfy `DatabaseWF` (decidable, raw input only,
    per-record conditions — see `input_wf_of_database_wf`) and `iiss4Reward.Calculate` succeeds, the
    total I-Score credited is at most the term's budget. -/
theorem total_credited_le_budget_consistent_db (i : Input) (r : Result) (hcalc : calculate i = some r)
    (wf : DatabaseWF i) : r.totalCredited ≤ i.budget :=
  total_le_budget i r hcalc
    (termWF_of_inputWF i (inputWF_of_databaseWF i wf (calculate_senders_ok i r hcalc)))


/-! ### non-vacuity: a concrete term satisfying all hypotheses, with non-zero rewards -/

def exInput : Input :=
  { elected := 2, offsetLimit := 9, br := 500, iglobal := 3000000000, iprepRate := 7700, iwageRate := 1300,
    minBond := 10,
    voteds := [ { owner := 0, status := 0, delegated := 100, bonded := 20, rate := 1000, pubkey := true },
                { owner := 1, status := 0, delegated := 50, bonded := 0, rate := 0, pubkey := true } ],
    delegating := [(2, [(0, 100), (1, 50)])],
    bonding := [(0, [(0, 20)])],
    events := [Event.vote false 3 2 [(0, -40), (1, 40)]] }

example : (calculate exInput).isSome = true := by decide
example : ((calculate exInput).map Result.totalCredited) = some 19328702 ∧ exInput.budget = 20833333 := by decide

example : PRepWF (prepInfoAfterEvents exInput) :=
  ⟨by decide, by decide, by decide, by decide, by decide⟩

example : TermWF exInput :=
  ⟨⟨by decide, by decide, by decide, by decide, by decide⟩, by decide, by decide, by decide, by decide⟩

/-- non-vacuity of `InputWF`: the raw input above (two P-Reps, a delegator, a bonder, one
    re-delegation event; non-zero rewards) satisfies it -/
example : InputWF exInput := by decide

/-- non-vacuity of `DatabaseWF` -/
example : DatabaseWF exInput := by decide

example : (exInput.delegating.map (·.1)).Nodup ∧ (exInput.bonding.map (·.1)).Nodup := by decide

example : ValidFrom 9 500 (-1)
    { owner := 0, status := 0, delegated := 100, bonded := 20, rate := 0, pubkey := true, power := 120, accPower := 1200 }
    [(false, -40, 3), (true, 5, 3), (false, 7, 9)] := by
  simp only [ValidFrom]; decide

end Goloop.C35
