/-
  Props/C13 — "Only the sender's key can authorize a transaction".
  Proved: the byte layouts round trip for all byte strings; `Verify` accepts exactly when key
  recovery succeeds and the recovered key's address is `from`; the algebra that makes
  sign-then-recover return the signer's key and makes "verifies for Q" equivalent to
  "Q is the recovered key", in any module over a field (ZMod q for prime q in particular).
  NOT proved (assumptions): that decred's secp256k1 code implements such a group with the
  scalar field ZMod n (modelled by the executable reference `Secp`, compared by the
  correspondence run); unforgeability of ECDSA; collision resistance of SHA3.
-/
import Goloop.Proofs.C13
import Goloop.Model.C12
namespace Goloop.C13
open Goloop.C13.Proofs

/-! ### 1. byte layouts -/

/-- [R|S|V] → internal → [R|S|V] is the identity on every 65-byte string; the internal form is
    [V+27|R|S]; [V|R|S] is the rotation; [R|S] drops V. -/
theorem sig_layout_roundtrip (b : Bytes) (h : b.length = 65) :
    (parseSignature b).bind serializeRSV = some b ∧
    (parseSignature b).bind serializeVRS = some (b.getD 64 0 :: b.take 64) ∧
    (parseSignature b).bind serializeRS = some (b.take 64) ∧
    (parseSignature b).map hasV = some true := by
  rw [parse65 b h]
  have hl : (b.take 64).length = 64 := by simp [h]
  refine ⟨?_, ?_, ?_, ?_⟩
  · have := take_append_last b h
    simp only [List.getD] at this
    simp [serializeRSV, hasV, hl, flag_there_back, this]
  · simp [serializeVRS, hasV, hl, flag_there_back]
  · simp [serializeRS, hl]
  · simp [hasV, hl]

/-- [V|R|S] → internal → [V|R|S] is the identity on every 65-byte string, and the [R|S|V] view
    of it is the rotation. -/
theorem sig_layout_roundtrip_vrs (b : Bytes) (h : b.length = 65) :
    (parseSignatureVRS b).bind serializeVRS = some b ∧
    (parseSignatureVRS b).bind serializeRSV = some (b.drop 1 ++ [b.getD 0 0]) := by
  match b, h with
  | v :: rs, h =>
    have hl : rs.length = 64 := by simpa using h
    simp [parseSignatureVRS, h, serializeVRS, serializeRSV, hasV, hl, flag_there_back]

/-- 64 bytes are kept as they are, have no V, and have no [R|S|V] / [V|R|S] form. -/
theorem sig_layout_64 (b : Bytes) (h : b.length = 64) :
    parseSignature b = some b ∧ hasV b = false ∧ serializeRS b = some b ∧
    serializeRSV b = none ∧ serializeVRS b = none := by
  simp [parse64 b h, hasV, serializeRS, serializeRSV, serializeVRS, h]

/-- every other length is rejected by both parsers -/
theorem sig_layout_rejects (b : Bytes) (h64 : b.length ≠ 64) (h65 : b.length ≠ 65) :
    parseSignature b = none ∧ parseSignatureVRS b = none :=
  ⟨parse_other b h64 h65, by simp [parseSignatureVRS, h65]⟩

/-- internal form → [R|S|V] → internal form is the identity for signatures with V -/
theorem sig_internal_roundtrip (s : Bytes) (h : hasV s = true) :
    (serializeRSV s).bind parseSignature = some s := by
  have hl : s.length = 65 := by simpa [hasV] using h
  match s, hl with
  | v :: rs, hl =>
    have hr : rs.length = 64 := by simpa using hl
    have hg : (rs ++ [recoverFlagToCompatible v]).getD 64 0 = recoverFlagToCompatible v := by
      simp [List.getD, List.getElem?_append_right, hr]
    simp [serializeRSV, hasV, hl, parseSignature, hr, hg, flag_back_there]

example : ([1, 2, 3] : Bytes).length ≠ 64 ∧ (List.replicate 65 (7 : UInt8)).length = 65 := by
  decide

/-! ### 2. the decision of `Verify` -/

/-- `verifySignature` passes iff there is a signature, it has V, the id has a usable length,
    key recovery succeeds and the address of the recovered key equals `from`. -/
theorem verify_iff (rc : Bytes → Bytes → Option Bytes) (H : Bytes → Bytes)
    (sig : Option Bytes) (id from_ : Bytes) :
    verifySignature rc H sig id from_ = true ↔
      ∃ s pk, sig = some s ∧ hasV s = true ∧ 0 < id.length ∧ id.length ≤ 32 ∧
        rc s id = some pk ∧ addrEqual (addressOf H pk) from_ = true := by
  constructor
  · intro h
    unfold verifySignature at h
    split at h
    · simp at h
    · rename_i s
      split at h
      · simp at h
      · rename_i pk hpk
        unfold recoverPublicKey at hpk
        split at hpk
        · simp at hpk
        · rename_i hv
          split at hpk
          · simp at hpk
          · rename_i hl
            exact ⟨s, pk, rfl, by simpa using hv, by omega, by omega, hpk, h⟩
  · rintro ⟨s, pk, rfl, hv, h0, h32, hrc, ha⟩
    have hl : ¬ (id.length = 0 ∨ id.length > 32) := by omega
    simp only [verifySignature, recoverPublicKey, hv, hrc, Bool.not_true, Bool.false_eq_true,
      if_false, hl]
    exact ha

/-- a signature without V (64 bytes), or no signature, never verifies -/
theorem no_v_never_verifies (rc : Bytes → Bytes → Option Bytes) (H : Bytes → Bytes)
    (s id from_ : Bytes) (h : hasV s = false) :
    verifySignature rc H (some s) id from_ = false ∧
    verifySignature rc H none id from_ = false := by
  simp [verifySignature, recoverPublicKey, h]

/-- a contract address as sender never verifies (the recovered address is an account) -/
theorem contract_sender_never_verifies (rc : Bytes → Bytes → Option Bytes) (H : Bytes → Bytes)
    (sig : Option Bytes) (id : Bytes) (fid : Bytes) :
    verifySignature rc H sig id (1 :: fid) = false := by
  unfold verifySignature
  split
  · rfl
  · split
    · rfl
    · simp [addrEqual, addressOf]

/-- full `Verify`: the sign checks and data checks are necessary too -/
theorem txVerify_iff (rc : Bytes → Bytes → Option Bytes) (H : Bytes → Bytes)
    (value : Option Int) (stepLimit : Int) (dataOk : Bool) (sig : Option Bytes)
    (id from_ : Bytes) :
    txVerify rc H value stepLimit dataOk sig id from_ = true ↔
      (∀ v, value = some v → 0 ≤ v) ∧ 0 ≤ stepLimit ∧ dataOk = true ∧
      verifySignature rc H sig id from_ = true := by
  have hv : valueNeg value = false ↔ ∀ v, value = some v → 0 ≤ v := by
    cases value with
    | none => simp [valueNeg]
    | some v => simp [valueNeg]
  unfold txVerify
  cases hn : valueNeg value with
  | true =>
    have : ¬ ∀ v, value = some v → 0 ≤ v := fun h => by rw [hv.mpr h] at hn; cases hn
    simp [this]
  | false =>
    have h1 := hv.mp hn
    by_cases h2 : stepLimit < 0
    · have : ¬ 0 ≤ stepLimit := by omega
      simp [h2, this]
    · have : 0 ≤ stepLimit := by omega
      cases dataOk
      · simp [h2]
      · simp only [h2, this, Bool.not_true, Bool.false_eq_true, if_false, true_and]
        exact ⟨fun h => ⟨h1, h⟩, fun h => h.2⟩

/-- corollary (the "only if" of the property): whatever the dataType-specific checks say, an
    accepted transaction has a signature with V that recovers, on the transaction id, to a key
    whose address is `from`.  `dataOk` can only reject. -/
theorem txVerify_ok_implies_signature (rc : Bytes → Bytes → Option Bytes) (H : Bytes → Bytes)
    (value : Option Int) (stepLimit : Int) (dataOk : Bool) (sig : Option Bytes)
    (id from_ : Bytes)
    (h : txVerify rc H value stepLimit dataOk sig id from_ = true) :
    dataOk = true ∧
    ∃ s pk, sig = some s ∧ hasV s = true ∧ 0 < id.length ∧ id.length ≤ 32 ∧
      rc s id = some pk ∧ addrEqual (addressOf H pk) from_ = true := by
  have h' := (txVerify_iff rc H value stepLimit dataOk sig id from_).mp h
  exact ⟨h'.2.2.1, (verify_iff rc H sig id from_).mp h'.2.2.2⟩

/-- a failing data check rejects regardless of the signature -/
theorem txVerify_dataOk_false (rc : Bytes → Bytes → Option Bytes) (H : Bytes → Bytes)
    (value : Option Int) (stepLimit : Int) (sig : Option Bytes) (id from_ : Bytes) :
    txVerify rc H value stepLimit false sig id from_ = false := by
  unfold txVerify
  split
  · rfl
  · split <;> rfl

/-- A transaction whose id cannot be computed never verifies: `TxHash()` yields the EMPTY id
    when `calcHash` fails (model: `C12.txID` = `[]`), and `RecoverPublicKey` refuses an empty
    hash.  (With a non-empty placeholder id, e.g. 32 zero bytes, the signature
    (P.x, P.x, parity P.y) built from the sender's PUBLIC key would recover P.) -/
theorem unhashable_never_verifies (rc : Bytes → Bytes → Option Bytes) (H : Bytes → Bytes)
    (e : C12.Env) (tx : C12.TxV3) (hc : tx.txHash = none) (hf : C12.calcHash e tx = none)
    (value : Option Int) (stepLimit : Int) (dataOk : Bool) (sig : Option Bytes) (from_ : Bytes) :
    C12.txID e tx = [] ∧
    txVerify rc H value stepLimit dataOk sig (C12.txID e tx) from_ = false := by
  have hid : C12.txID e tx = [] := by simp [C12.txID, hc, hf]
  refine ⟨hid, ?_⟩
  cases h : txVerify rc H value stepLimit dataOk sig (C12.txID e tx) from_ with
  | false => rfl
  | true =>
    obtain ⟨_, s, pk, _, _, hpos, _⟩ :=
      txVerify_ok_implies_signature rc H value stepLimit dataOk sig _ from_ h
    rw [hid] at hpos
    simp at hpos

/-! ### 3. sign, recover, verify: the algebra -/

/-- In a module over `ZMod q` (q prime) with generator `G`: for every private key `d`, message
    hash `z`, nonce `k ≠ 0`, with `R = k • G`, any `r ≠ 0` (in ECDSA: x(R) mod q) and
    `s = k⁻¹ (z + r d)`, the recovery formula returns the public key `d • G`. -/
theorem ecdsa_recover_sign (q : ℕ) [Fact q.Prime] {M : Type*} [AddCommGroup M] [Module (ZMod q) M]
    (G : M) (d z k r : ZMod q) (hk : k ≠ 0) (hr : r ≠ 0) :
    let R := k • G
    let s := k⁻¹ * (z + r * d)
    r⁻¹ • (s • R - z • G) = d • G :=
  recover_of_sign G d z k r hk hr

/-- For `r ≠ 0`, `s ≠ 0`: a key `Q` passes the ECDSA verification equation for `(z, r, s)` with
    nonce point `R` exactly when it is the key the recovery formula returns.  Hence a signature
    verifies for one key only (per candidate `R`), and `Verify` = "recovered address is `from`". -/
theorem ecdsa_verify_iff_recovered (q : ℕ) [Fact q.Prime] {M : Type*} [AddCommGroup M]
    [Module (ZMod q) M] (G R Q : M) (z r s : ZMod q) (hr : r ≠ 0) (hs : s ≠ 0) :
    (z * s⁻¹) • G + (r * s⁻¹) • Q = R ↔ Q = r⁻¹ • (s • R - z • G) :=
  verify_iff_recovered G R Q z r s hr hs

/-- non-vacuity: ZMod 7 acting on itself, G = 1, d = 3, z = 2, k = 5, r = 4 -/
example : (5 : ZMod 7) ≠ 0 ∧ (4 : ZMod 7) ≠ 0 := by decide

end Goloop.C13
