/-
  Props/C05 — "Commit certificates are accepted only with >2/3 distinct valid signatures".

  `verifyBlock signerOf bootstrap n items` is `blockCommitVoteList.VerifyBlock`
  (Model/C05.lean, describing the code with fix F9 applied: an item whose
  signature recovers no public key is rejected instead of dereferencing a nil
  address).  `signerOf item = some i` stands for: the signature of the item is
  a signature, by the key of validator `i` of the designated validator list,
  over the precommit for exactly (block height, list round, block id, list
  part-set id + app data, item timestamp).  That reading is the ECDSA
  unforgeability assumption (registry `assumptions`); the theorems hold for
  every function `signerOf`.
-/
import Goloop.Proofs.C05
import Goloop.Props.C04
namespace Goloop.C05

/-- `enoughVote` is exactly "no validators, or strictly more than two thirds". -/
theorem enoughVote_exact (voted voters : Nat) :
    enoughVote voted voters = true ↔ (voters = 0 ∨ 3 * voted > 2 * voters) :=
  Proofs.enoughVote_iff voted voters

/-- Non-empty validator set, height > 0: the certificate is accepted exactly when every item is
    signed by a validator of the set, no validator appears twice, and more than 2/3 signed. -/
theorem verifyBlock_accepts_iff {Item : Type} (signerOf : Item → Option Nat) (n : Nat) (hn : 0 < n)
    (items : List Item) :
    (∃ voted, verifyBlock signerOf false n items = Res.ok voted) ↔
      ((∀ it ∈ items, ∃ i, signerOf it = some i ∧ i < n) ∧
       (items.map signerOf).Nodup ∧
       3 * items.length > 2 * n) := by
  have key := Proofs.loop_ok_iff signerOf items (List.replicate n false)
  simp only [Proofs.replicate_false_get] at key
  unfold verifyBlock
  simp only [Bool.false_eq_true, if_false]
  constructor
  · rintro ⟨voted, h⟩
    cases hl : loop signerOf items (List.replicate n false) with
    | none => simp [hl] at h
    | some r =>
      cases r with
      | none => simp [hl] at h
      | some out =>
        rw [hl] at h
        simp only at h
        have ⟨h1, h2⟩ := key.1 ⟨out, hl⟩
        refine ⟨h1, h2, ?_⟩
        by_cases he : enoughVote items.length n = true
        · rcases (enoughVote_exact _ _).1 he with h0 | h0
          · omega
          · exact h0
        · simp [he] at h
  · rintro ⟨h1, h2, h3⟩
    obtain ⟨out, hl⟩ := key.2 ⟨h1, h2⟩
    have he : enoughVote items.length n = true := (enoughVote_exact _ _).2 (Or.inr h3)
    exact ⟨out, by simp [hl, he]⟩

example : (0 : Nat) < 4 ∧ verifyBlock (fun (k : Nat) => if k < 4 then some k else none) false 4 [2, 0, 3] =
    Res.ok [true, false, true, true] := by decide

/-- Any other outcome for a well-behaved `IndexOf` is a rejection (never a Go panic). -/
theorem verifyBlock_rejects_otherwise {Item : Type} (signerOf : Item → Option Nat) (n : Nat)
    (hidx : ∀ it i, signerOf it = some i → i < n) (items : List Item) :
    (∃ voted, verifyBlock signerOf false n items = Res.ok voted) ∨
      verifyBlock signerOf false n items = Res.reject := by
  unfold verifyBlock
  simp only [Bool.false_eq_true, if_false]
  have hp := Proofs.loop_no_panic signerOf items (List.replicate n false)
    (by intro it _ i hi; simpa using hidx it i hi)
  cases hl : loop signerOf items (List.replicate n false) with
  | none => exact absurd hl hp
  | some r =>
    cases r with
    | none => exact Or.inr rfl
    | some out =>
      by_cases he : enoughVote items.length n = true
      · exact Or.inl ⟨out, by simp [he]⟩
      · exact Or.inr (by simp [he])

example : ∀ (it : Nat) (i : Nat), (fun (k : Nat) => if k < 4 then some k else none) it = some i → i < 4 := by
  intro it i h
  by_cases hk : it < 4 <;> simp [hk] at h
  omega

/-- The returned `voted` bitmap: one bit per validator, set exactly for the signers, as many bits as
    items; so an accepted certificate carries signatures of more than 2/3 *distinct* validators. -/
theorem verifyBlock_voted {Item : Type} (signerOf : Item → Option Nat) (n : Nat)
    (items : List Item) (voted : List Bool)
    (h : verifyBlock signerOf false n items = Res.ok voted) :
    voted.length = n ∧
    (∀ i, voted[i]? = some true ↔ ∃ it ∈ items, signerOf it = some i) ∧
    voted.count true = items.length ∧
    (n = 0 ∨ 3 * voted.count true > 2 * n) := by
  unfold verifyBlock at h
  simp only [Bool.false_eq_true, if_false] at h
  cases hl : loop signerOf items (List.replicate n false) with
  | none => simp [hl] at h
  | some r =>
    cases r with
    | none => simp [hl] at h
    | some out =>
      rw [hl] at h
      simp only at h
      by_cases he : enoughVote items.length n = true
      · simp only [he, if_true] at h
        have hv : out = voted := by injection h
        subst hv
        obtain ⟨h1, h2, h3⟩ := Proofs.loop_out signerOf items _ _ hl
        have hc : (List.replicate n false).count true = 0 := by
          rw [List.count_eq_zero]; intro hm; simpa using List.eq_of_mem_replicate hm
        refine ⟨by simpa using h1, ?_, by omega, ?_⟩
        · intro i
          rw [h3 i]
          constructor
          · rintro (h' | h')
            · by_cases hi : i < n <;> simp [hi] at h'
            · exact h'
          · exact Or.inr
        · rcases (enoughVote_exact _ _).1 he with h0 | h0
          · exact Or.inl h0
          · exact Or.inr (by omega)
      · simp [he] at h

/-- Empty validator set (height > 0): accepted exactly when the list has no items. -/
theorem verifyBlock_empty_set {Item : Type} (signerOf : Item → Option Nat) (items : List Item) :
    (∃ voted, verifyBlock signerOf false 0 items = Res.ok voted) ↔ items = [] := by
  have key := Proofs.loop_ok_iff signerOf items ([] : List Bool)
  unfold verifyBlock
  simp only [Bool.false_eq_true, if_false, List.replicate_zero]
  constructor
  · rintro ⟨voted, h⟩
    cases hl : loop signerOf items ([] : List Bool) with
    | none => simp [hl] at h
    | some r =>
      cases r with
      | none => simp [hl] at h
      | some out =>
        have ⟨h1, _⟩ := key.1 ⟨out, hl⟩
        cases items with
        | nil => rfl
        | cons it rest =>
          obtain ⟨i, _, h2⟩ := h1 it List.mem_cons_self
          simp at h2
  · intro h
    subst h
    exact ⟨[], by simp [loop, enoughVote]⟩

/-- Bootstrap (block height 0 or no validator list): only the empty list is accepted, with a nil
    bitmap; the signatures are not looked at. -/
theorem verifyBlock_bootstrap {Item : Type} (signerOf : Item → Option Nat) (n : Nat) (items : List Item) :
    (verifyBlock signerOf true n items = Res.okNil ↔ items = []) ∧
    (items ≠ [] → verifyBlock signerOf true n items = Res.reject) ∧
    (∀ voted, verifyBlock signerOf true n items ≠ Res.ok voted) := by
  unfold verifyBlock
  cases items with
  | nil => simp
  | cons it rest => simp


/-! ### fast-synced blocks: `consensus.processBlock`

`processBlock` does not call `VerifyBlock`; it converts the commit vote list to votes
(`toVoteList`: every item must recover to a validator, else reject), adds each vote to the
height vote set at the signer's validator index, and accepts the block only if the precommit
vote set of the list's round then reports a +2/3 decision whose part-set id equals the id of the
received block.  The vote set is the one of property C04 (it may already contain precommits
received from the network); `psOf d` is the part-set id determined by the decision digest `d`.
This part of the model is tied to the code only through its pieces (`toVoteList` and the vote set
are run by the C05 / C04 harnesses); `processBlock` itself is not executed. -/

theorem addAll_eq_run (s : C04.VS) (adds : List (Nat × C04.Vote)) :
    C04.addAll s adds = C04.run s (adds.map (fun a => C04.Op.add a.1 a.2)) := by
  induction adds generalizing s with
  | nil => rfl
  | cons a rest ih =>
    obtain ⟨i, v⟩ := a
    simp only [C04.addAll, List.map_cons, C04.run, C04.stepOp]
    cases h : C04.add s i v with
    | none => exact ih s
    | some r => obtain ⟨s', b⟩ := r; exact ih s'

/-- A fast-synced block is accepted only if, after adding the list's votes, more than two thirds
    of the validator slots hold a precommit for one decision whose part-set id is the block's. -/
theorem processBlock_accepts_only_quorum {n : Nat} {s : C04.VS} (h : C04.Reachable n s)
    (adds : List (Nat × C04.Vote)) (psOf : Nat → Nat) (blockPs : Nat)
    (hacc : processBlockAccepts s adds psOf blockPs = true) :
    ∃ d, psOf d = blockPs ∧ 3 * C04.countSlots (C04.addAll s adds).slots d > 2 * n := by
  unfold processBlockAccepts at hacc
  have hr : C04.Reachable n (C04.addAll s adds) := by
    obtain ⟨ops0, e⟩ := h
    exact ⟨ops0 ++ adds.map (fun a => C04.Op.add a.1 a.2), by
      rw [C04.Proofs.run_append, ← e, addAll_eq_run]⟩
  cases hd : C04.decision (C04.addAll s adds) with
  | no => simp [hd] at hacc
  | panic => simp [hd] at hacc
  | decided d =>
    simp only [hd, beq_iff_eq] at hacc
    exact ⟨d, hacc, (C04.decision_iff hr d).1 hd⟩

/-- The same for the whole modelled `processBlock` (including the `toVoteList` stage): acceptance
    implies every item is a validator's and a +2/3 quorum of *slots* (= distinct validators) holds
    the decision with the block's part-set id. Repeated items of one validator occupy one slot. -/
theorem processBlock_accept_quorum {Item : Type} (signerOf : Item → Option Nat) (voteOf : Item → C04.Vote)
    {n : Nat} {s : C04.VS} (h : C04.Reachable n s) (items : List Item) (psOf : Nat → Nat) (blockPs : Nat)
    (hacc : processBlock signerOf voteOf s items psOf blockPs = PB.accept) :
    (∀ it ∈ items, ∃ i, signerOf it = some i) ∧
    ∃ d, psOf d = blockPs ∧
      3 * C04.countSlots (C04.addAll s
        (items.filterMap (fun it => (signerOf it).map (fun i => (i, voteOf it))))).slots d > 2 * n := by
  unfold processBlock at hacc
  by_cases hany : items.any (fun it => (signerOf it).isNone) = true
  · simp [hany] at hacc
  · simp only [hany, Bool.false_eq_true, if_false] at hacc
    constructor
    · intro it hit
      cases hs : signerOf it with
      | some i => exact ⟨i, rfl⟩
      | none =>
        exfalso; apply hany
        exact List.any_eq_true.2 ⟨it, hit, by simp [hs]⟩
    · apply processBlock_accepts_only_quorum h
      unfold processBlockAccepts
      cases hd : C04.decision (C04.addAll s
          (items.filterMap (fun it => (signerOf it).map (fun i => (i, voteOf it))))) with
      | no => simp [hd] at hacc
      | panic => simp [hd] at hacc
      | decided d =>
        simp only [hd] at hacc ⊢
        by_cases hp : (psOf d == blockPs) = true
        · exact hp
        · simp [hp] at hacc

example : processBlock (fun (k : Nat × Int) => if k.1 < 4 then some k.1 else none)
    (fun k => ⟨5, 0, 1, 1, k.2⟩) (C04.new 4) [(1, 100), (1, 101), (1, 102)] id 1 = PB.rejectNoQuorum := by decide

example : processBlockAccepts (C04.new 4)
    [(0, ⟨5, 0, 1, 7, 100⟩), (1, ⟨5, 0, 1, 7, 101⟩), (3, ⟨5, 0, 1, 7, 99⟩)] (fun d => d + 1) 8 = true := by decide


/-! ### import path: which validator set, which target

`verifyNewBlock` → `verifyProofForLastBlock(prev, b.Votes())` (and `manager.newConsensusInfo`,
`_propose`) verify the certificate carried by block h+1 against `prev.GetVoters()` =
`NextValidators` of the block at height h−1 — *not* the next validators of `prev` itself nor of
the importing block — and against the target (h, list round, id of `prev`). -/

/-- The certificate for the block at height h > 0 is accepted on import exactly when every item is
    a signature, over (h, id of that block, the list's round), by a member of
    `NextValidators(block h−1)`, no member signs twice, and more than 2/3 of that set signed. -/
theorem import_certificate_designated_set (nextVals : Nat → List Nat) (blockIdAt : Nat → Nat)
    (h round : Nat) (hh : 0 < h) (hne : 0 < (nextVals (h - 1)).length) (items : List Sig) :
    (∃ voted, verifyProofForLast nextVals blockIdAt h round items = Res.ok voted) ↔
      ((∀ s ∈ items, s.key ∈ nextVals (h - 1) ∧ s.height = h ∧ s.blockId = blockIdAt h ∧ s.round = round) ∧
       (items.map (·.key)).Nodup ∧
       3 * items.length > 2 * (nextVals (h - 1)).length) := by
  unfold verifyProofForLast
  have hb : (h == 0) = false := by simp; omega
  rw [hb, verifyBlock_accepts_iff _ _ hne]
  have hall : (∀ it ∈ items, ∃ i, signerIn (nextVals (h - 1)) h (blockIdAt h) round it = some i ∧
        i < (nextVals (h - 1)).length) ↔
      (∀ s ∈ items, s.key ∈ nextVals (h - 1) ∧ s.height = h ∧ s.blockId = blockIdAt h ∧ s.round = round) := by
    constructor
    · intro H s hs; exact (Proofs.signerIn_some_iff _ _ _ _ s).1 (H s hs)
    · intro H s hs; exact (Proofs.signerIn_some_iff _ _ _ _ s).2 (H s hs)
  constructor
  · rintro ⟨h1, h2, h3⟩
    have h1' := hall.1 h1
    refine ⟨h1', ?_, h3⟩
    exact (Proofs.nodup_map_congr _ _ items
      (fun x hx y hy => Proofs.signerIn_inj _ _ _ _ x y (h1' x hx) (h1' y hy))).1 h2
  · rintro ⟨h1, h2, h3⟩
    refine ⟨hall.2 h1, ?_, h3⟩
    exact (Proofs.nodup_map_congr _ _ items
      (fun x hx y hy => Proofs.signerIn_inj _ _ _ _ x y (h1 x hx) (h1 y hy))).2 h2

example : verifyProofForLast (fun k => [[4], [4], [0, 1, 2, 3], [2, 3, 5]].getD k []) id 3 0
    [⟨0, 3, 3, 0⟩, ⟨1, 3, 3, 0⟩, ⟨2, 3, 3, 0⟩] = Res.ok [true, true, true, false] := by decide

/-- In particular a certificate signed (correctly targeted) by a validator that is not in
    `NextValidators(block h−1)` — e.g. by the next validators of the block itself — is rejected. -/
theorem import_rejects_other_validator_set (nextVals : Nat → List Nat) (blockIdAt : Nat → Nat)
    (h round : Nat) (hh : 0 < h) (hne : 0 < (nextVals (h - 1)).length) (items : List Sig)
    (s : Sig) (hs : s ∈ items) (hout : s.key ∉ nextVals (h - 1)) :
    ∀ voted, verifyProofForLast nextVals blockIdAt h round items ≠ Res.ok voted := by
  intro voted hv
  have := (import_certificate_designated_set nextVals blockIdAt h round hh hne items).1 ⟨voted, hv⟩
  exact hout (this.1 s hs).1

example : verifyProofForLast (fun k => [[4], [4], [0, 1, 2, 3], [2, 3, 5]].getD k []) id 3 0
    [⟨2, 3, 3, 0⟩, ⟨3, 3, 3, 0⟩, ⟨5, 3, 3, 0⟩] = Res.reject := by decide


/-! ### validator snapshots are values

Verification against a snapshot depends on the list of validators it was created with and on
nothing else — in the model by construction (snapshots are `List Nat` values; deriving a state and
changing it produces new values).  The harness checks the real `ValidatorSnapshot` objects against
that: membership recomputed from the addresses captured when the snapshot was created. -/

/-- Against a non-empty validator list value: accepted iff all signers are members, none twice,
    more than two thirds. -/
theorem verifyAgainst_iff (vals keys : List Nat) (hne : 0 < vals.length) :
    (∃ voted, verifyAgainst vals keys = Res.ok voted) ↔
      ((∀ k ∈ keys, k ∈ vals) ∧ keys.Nodup ∧ 3 * keys.length > 2 * vals.length) := by
  have h := import_certificate_designated_set (fun _ => vals) (fun _ => 0) 1 0 (by omega) hne
    (keys.map (fun k => ({ key := k, height := 1, blockId := 0, round := 0 } : Sig)))
  have e : verifyAgainst vals keys = verifyProofForLast (fun _ => vals) (fun _ => 0) 1 0
      (keys.map (fun k => ({ key := k, height := 1, blockId := 0, round := 0 } : Sig))) := by
    unfold verifyAgainst verifyProofForLast verifyBlock
    simp only [Bool.false_eq_true, if_false, List.length_map]
    have hl : ∀ (ks : List Nat) (vset : List Bool),
        loop (signerIn vals 0 0 0) (ks.map (fun k => ({ key := k, height := 0, blockId := 0, round := 0 } : Sig))) vset =
        loop (signerIn vals 1 0 0) (ks.map (fun k => ({ key := k, height := 1, blockId := 0, round := 0 } : Sig))) vset := by
      intro ks
      induction ks with
      | nil => intro vset; rfl
      | cons k ks ih =>
        intro vset
        simp only [List.map_cons, loop, signerIn, and_self, if_true]
        cases hk : vals.findIdx? (· == k) with
        | none => rfl
        | some i =>
          simp only
          cases vset[i]? with
          | none => rfl
          | some b => cases b <;> simp [ih]
    have hb : ((1 : Nat) == 0) = false := rfl
    simp only [hb, Bool.false_eq_true, if_false, Nat.sub_self]
    rw [hl]
  rw [e, h]
  simp only [List.mem_map, forall_exists_index, and_imp, forall_apply_eq_imp_iff₂, List.map_map,
    List.length_map, and_true, Nat.sub_self]
  constructor
  · rintro ⟨h1, h2, h3⟩
    exact ⟨h1, by simpa [Function.comp_def] using h2, h3⟩
  · rintro ⟨h1, h2, h3⟩
    exact ⟨h1, by simpa [Function.comp_def] using h2, h3⟩

example : verifyAgainst [0, 1, 2, 3] [0, 1, 4] = Res.reject ∧ verifyAgainst [0, 1, 2, 3] [3, 1, 0] = Res.ok [true, true, false, true] := by
  decide

end Goloop.C05
