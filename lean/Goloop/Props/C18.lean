/-
  Props/C18: trie proofs are sound and complete.

  `H` is an arbitrary hash function with 32-byte output (`hH`); a *collision*
  is an explicit pair `a ≠ b` with `H a = H b`.  Tries are in normal form
  (every reachable trie is: `C17.nf_run`) with keys and values shorter than
  2^32 (`Small`, so that RLP length prefixes fit).  `prove` is the byte-level
  transcription of NewImmutable(root).Prove(key, proof) including the RLP
  decoder; `getProofRoot` is GetProof.
-/
import Goloop.Proofs.C18
import Goloop.Proofs.C18Total
import Goloop.Props.C17
namespace Goloop.C18
open Goloop.C17

/-- the tries the theorems speak about: normal form + size bounds -/
def Good (n : Node) : Prop := NFn n ∧ Small n

theorem good_hered : Hered Good where
  notEmpty := fun h => h.1
  ext := fun ks nx h => ⟨h.1.2.2, h.2.2⟩
  branch := fun ch v i h he => by
    refine ⟨?_, h.2.2 i⟩
    rcases h.1.1 i with e | e
    · rw [e] at he; simp [Node.isEmpty] at he
    · exact e

theorem good_decOK (H : Bytes → Bytes) (hH : ∀ s, (H s).length = 32) : DecOK H Good :=
  fun n hn => deserialize_serialize_len H hH n hn.1 hn.2

theorem rootHash_good (H : Bytes → Bytes) (t : Node) (ht : Good t) :
    rootHash H t = some (H (serialize H t)) := by
  cases t with
  | empty => exact absurd ht.1 (by simp [NFn])
  | _ => rfl

theorem hash_ne_nil (H : Bytes → Bytes) (hH : ∀ s, (H s).length = 32) (s : Bytes) : H s ≠ [] := by
  intro h
  have := hH s
  rw [h] at this
  simp at this

/-- **completeness**: for every stored key (with a non-empty value) the proof produced by
    GetProof verifies against the root hash and yields the stored value. -/
theorem proof_complete (H : Bytes → Bytes) (hH : ∀ s, (H s).length = 32)
    (t : Node) (ht : Good t) (kb v : Bytes) (hg : get t (bytesToNibs kb) = some v) (hv : v ≠ []) :
    ∃ root p, rootHash H t = some root ∧ getProofRoot H t (bytesToNibs kb) = some p ∧
      prove H root kb p = .ok v := by
  obtain ⟨q, hq1, hq2⟩ := getProof_complete H Good good_hered (good_decOK H hH) t ht _ v hg hv
  refine ⟨H (serialize H t), serialize H t :: q, rootHash_good H t ht, ?_, ?_⟩
  · rw [getProofRoot, hq1]
    simp [hdr, hasHash]
  · rw [prove, if_neg (hash_ne_nil H hH _), proveHash_cons H Good (good_decOK H hH) t ht]
    split at hq2
    · rename_i v' hw
      obtain ⟨rfl, rfl⟩ := hq2
      simp [hw]
    · rename_i h k' hw
      have hl : (toP H t).isLeaf = false := by
        cases t with
        | leaf ks x => simp [toP, walk] at hw; split at hw <;> cases hw
        | _ => rfl
      simp [hl, hw, hq2]
    · exact hq2.elim

/-- **soundness**: if `Prove` yields a value under the root hash of `t`, the trie stores exactly
    that value under the key — or the proof contains an explicit hash collision. Holds for *any*
    proof (altered, for another key, for another trie). -/
theorem proof_sound (H : Bytes → Bytes) (hH : ∀ s, (H s).length = 32)
    (t : Node) (ht : Good t) (root kb : Bytes) (p : List Bytes) (v : Bytes)
    (hr : rootHash H t = some root) (h : prove H root kb p = .ok v) :
    get t (bytesToNibs kb) = some v ∨ Collision H := by
  rw [rootHash_good H t ht] at hr
  cases hr
  rw [prove, if_neg (hash_ne_nil H hH _)] at h
  exact proveHash_sound H Good good_hered (good_decOK H hH) p t ht _ v h

/-- **absent keys never yield a value** (unless a collision is exhibited) -/
theorem proof_absent_none (H : Bytes → Bytes) (hH : ∀ s, (H s).length = 32)
    (t : Node) (ht : Good t) (root kb : Bytes) (p : List Bytes) (v : Bytes)
    (hr : rootHash H t = some root) (habs : get t (bytesToNibs kb) = none) :
    prove H root kb p = .ok v → Collision H := by
  intro h
  rcases proof_sound H hH t ht root kb p v hr h with h1 | h2
  · rw [habs] at h1; cases h1
  · exact h2

/-- a proof belonging to another root is rejected: a value accepted under `root₂` with a proof
    is stored in the trie of `root₂` — the trie the proof was produced from is irrelevant. In
    particular with `t₂` not holding the key nothing is accepted. (Same statement as
    `proof_sound`; listed separately because the property names this case.) -/
theorem proof_other_root (H : Bytes → Bytes) (hH : ∀ s, (H s).length = 32)
    (t₁ t₂ : Node) (ht₂ : Good t₂) (root₂ kb : Bytes) (p : List Bytes) (v : Bytes)
    (_hp : getProofRoot H t₁ (bytesToNibs kb) = some p)
    (hr : rootHash H t₂ = some root₂) (h : prove H root₂ kb p = .ok v) :
    get t₂ (bytesToNibs kb) = some v ∨ Collision H :=
  proof_sound H hH t₂ ht₂ root₂ kb p v hr h

/-- **altered proofs are rejected**: whenever `Prove` accepts a proof `π` under the root of `t`,
    the honest proof `GetProof t k` is a prefix of `π` — element for element — or an explicit
    hash collision is exhibited.  So every proof in which one of the consumed elements was changed,
    dropped, reordered or replaced is rejected (up to collisions); the only alterations that can be
    accepted are additional elements *after* the honest proof (see
    `trailing_elements_accepted_witness`; a terminal hashed leaf rejects even those:
    `len(proof) != 1`). -/
theorem altered_proof_rejected (H : Bytes → Bytes) (hH : ∀ s, (H s).length = 32)
    (t : Node) (ht : Good t) (root kb : Bytes) (π : List Bytes) (v : Bytes)
    (hr : rootHash H t = some root) (h : prove H root kb π = .ok v) :
    Collision H ∨ ∃ q, getProofRoot H t (bytesToNibs kb) = some q ∧ q <+: π := by
  rw [rootHash_good H t ht] at hr
  cases hr
  rw [prove, if_neg (hash_ne_nil H hH _)] at h
  cases π with
  | nil => simp [proveHash] at h
  | cons b rest =>
    by_cases hb : b = serialize H t
    · subst hb
      rw [proveHash_cons H Good (good_decOK H hH) t ht] at h
      split at h
      · cases h
      · have hacc : Acc H (toP H t) (bytesToNibs kb) rest v := by
          unfold Acc
          split at h
          · rename_i v' hw; rw [hw]; cases h; rfl
          · cases h
          · cases h
          · rename_i h' k' hw; rw [hw]; exact h
        rcases prefix_spec H Good good_hered (good_decOK H hH) t ht _ v rest hacc with hc | ⟨q, hq, hpre⟩
        · exact Or.inl hc
        · refine Or.inr ⟨serialize H t :: q, ?_, by simpa [List.cons_prefix_cons] using hpre⟩
          rw [getProofRoot, hq]
          simp [hdr, hasHash]
    · rw [proveHash] at h
      by_cases hh : H b = H (serialize H t)
      · exact Or.inl ⟨b, _, hb, hh⟩
      · simp [hh] at h

/-- contrapositive form: a proof that deviates from the honest one within its length is never
    accepted (unless it exhibits a collision) -/
theorem changed_element_rejected (H : Bytes → Bytes) (hH : ∀ s, (H s).length = 32)
    (t : Node) (ht : Good t) (root kb : Bytes) (q π : List Bytes) (v : Bytes)
    (hr : rootHash H t = some root) (hq : getProofRoot H t (bytesToNibs kb) = some q)
    (hdev : ¬ q <+: π) : prove H root kb π = .ok v → Collision H := by
  intro h
  rcases altered_proof_rejected H hH t ht root kb π v hr h with hc | ⟨q', hq', hpre⟩
  · exact hc
  · rw [hq] at hq'; cases hq'; exact absurd hpre hdev

/-- **never crashes** (model level): `prove` has explicit `panic` outcomes at every place where
    the Go code indexes a slice or calls through an interface that could be nil (deserialize:
    `keyheader[0]`, `b[0]` in nodeFromLink, decodeKeys `bytes[0]`; extension.prove: `n.next`).
    After fix F8 none of them is reachable, for ANY root, key and proof bytes. -/
theorem prove_never_panics (H : Bytes → Bytes) (root key : Bytes) (π : List Bytes) :
    prove H root key π ≠ .panic := prove_total H root key π

/-- **trailing elements are ignored** (the exact class of altered proofs that is accepted):
    an accepted proof containing no hashed-leaf element stays accepted with the same value
    whatever is appended to it. -/
theorem trailing_elements_ignored (H : Bytes → Bytes) (root key : Bytes) (π extra : List Bytes)
    (v : Bytes) (hok : prove H root key π = .ok v) (hnl : ∀ b ∈ π, ¬ LeafItem b) :
    prove H root key (π ++ extra) = .ok v := by
  unfold prove at hok ⊢
  split
  · rename_i hr; simp [hr] at hok
  · rename_i hr
    rw [if_neg hr] at hok
    exact proveHash_append H π extra root _ v hok hnl

/-- an empty root (empty trie) proves nothing -/
theorem prove_empty_root (H : Bytes → Bytes) (kb : Bytes) (p : List Bytes) :
    prove H [] kb p = .reject := by
  simp [prove]

/-- an empty proof proves nothing -/
theorem prove_empty_proof (H : Bytes → Bytes) (root kb : Bytes) : prove H root kb [] = .reject := by
  simp [prove, proveHash]

/-- the first altered element is always detected: a proof whose first element is not the
    serialised root node is rejected (or is a collision). -/
theorem prove_first_element (H : Bytes → Bytes) (t : Node) (kb : Bytes)
    (b : Bytes) (rest : List Bytes) (hb : b ≠ serialize H t) :
    prove H (H (serialize H t)) kb (b :: rest) = .reject ∨ Collision H := by
  by_cases hh : H b = H (serialize H t)
  · exact Or.inr ⟨b, _, hb, hh⟩
  · left
    simp [prove, proveHash, hh]

/-- witness: which altered proofs are *accepted*.  Extra elements after a proof that ends in a
    branch value or in an embedded (hash-less) node are ignored by the code: here the honest
    proof of key 0x12 is the single root element and an appended element does not matter.
    (Only a hashed terminal *leaf* checks `len(proof) == 1`.)  By `proof_sound` the value
    accepted is still the stored one. -/
theorem trailing_elements_accepted_witness :
    let H : Bytes → Bytes := fun _ => List.replicate 32 0
    let t := run [.set [0x12] [0x61], .set [0x12, 0x34] [0x62]]
    getProofRoot H t (bytesToNibs [0x12]) = some [serialize H t] ∧
    prove H (H (serialize H t)) [0x12] [serialize H t, [0xc0]] = .ok [0x61] := by
  decide

/-- witness for the hypothesis `v ≠ []` of `proof_complete` (same root cause as the C17 known
    finding): an empty value stored at a branch node cannot be proved — the honest proof is
    answered with NotFound because the decoder reads the empty value back as "no value". -/
theorem empty_branch_value_not_provable_witness :
    let H : Bytes → Bytes := fun _ => List.replicate 32 0
    let t := run [.set [0x12] [], .set [0x12, 0x34] [0x62]]
    get t (bytesToNibs [0x12]) = some [] ∧
    getProofRoot H t (bytesToNibs [0x12]) = some [serialize H t] ∧
    prove H (H (serialize H t)) [0x12] [serialize H t] = .notfound := by
  decide

/-! ### every reachable trie is `Good` (given size bounds on what was stored) -/

theorem small_of_get (t : Node) (hn : NFn t)
    (h : ∀ k v, get t k = some v → k.length < 2 ^ 32 ∧ v.length < 2 ^ 32) : Small t := by
  induction t with
  | empty => trivial
  | leaf ks v => exact h ks v (by simp [get_leaf])
  | ext ks nx ih =>
    obtain ⟨k', v', hk'⟩ := nfn_has_key nx hn.2.2
    have h1 := h (ks ++ k') v' (by simp [get_ext, hk'])
    refine ⟨by simp at h1; omega, ih hn.2.2 ?_⟩
    intro r w hr
    have := h (ks ++ r) w (by simp [get_ext, hr])
    simp at this
    exact ⟨by omega, this.2⟩
  | branch ch v ih =>
    refine ⟨fun x hx => (h [] x (by simp [hx])).2, fun i => ?_⟩
    rcases hn.1 i with e | e
    · rw [e]; trivial
    · apply ih i e
      intro r w hr
      have := h (i :: r) w (by simpa using hr)
      simp at this
      exact ⟨by omega, this.2⟩

theorem bytesToNibs_length (kb : Bytes) : (bytesToNibs kb).length = 2 * kb.length := by
  induction kb with
  | nil => rfl
  | cons b r ih => simp [bytesToNibs, ih]; omega

theorem refMap_set_mem (ops : List Op) (kb v : Bytes) (h : refMap ops kb = some v) :
    Op.set kb v ∈ ops := by
  induction ops using rev_ind generalizing v with
  | nil => simp [refMap] at h
  | append_singleton ops op ih =>
    rw [refMap_snoc] at h
    cases op with
    | set k w =>
      simp only [refStep] at h
      by_cases e : kb = k
      · simp [e] at h; subst h; subst e; simp
      · simp [e] at h; simp [ih v h]
    | del k =>
      simp only [refStep] at h
      by_cases e : kb = k
      · simp [e] at h
      · simp [e] at h; simp [ih v h]

/-- every non-empty trie reachable by a history whose keys are shorter than 2^31 bytes and
    values shorter than 2^32 bytes satisfies the hypotheses of the theorems above. -/
theorem good_run (ops : List Op)
    (hb : ∀ k v, Op.set k v ∈ ops → k.length < 2 ^ 31 ∧ v.length < 2 ^ 32)
    (hne : run ops ≠ .empty) : Good (run ops) := by
  have hn : NFn (run ops) := by
    rcases nf_run ops with e | e
    · exact absurd e hne
    · exact e
  refine ⟨hn, small_of_get _ hn ?_⟩
  intro k v hk
  obtain ⟨kb, rfl⟩ := run_keys_bytes ops k v hk
  rw [get_run] at hk
  have := hb kb v (refMap_set_mem ops kb v hk)
  rw [bytesToNibs_length]
  exact ⟨by omega, this.2⟩

/-- completeness and soundness for any trie built by any history (random maps included) -/
theorem proof_complete_run (H : Bytes → Bytes) (hH : ∀ s, (H s).length = 32) (ops : List Op)
    (hb : ∀ k v, Op.set k v ∈ ops → k.length < 2 ^ 31 ∧ v.length < 2 ^ 32)
    (kb v : Bytes) (hg : refMap ops kb = some v) (hv : v ≠ []) :
    ∃ root p, rootHash H (run ops) = some root ∧
      getProofRoot H (run ops) (bytesToNibs kb) = some p ∧ prove H root kb p = .ok v := by
  have hget : get (run ops) (bytesToNibs kb) = some v := by rw [get_run]; exact hg
  have hne : run ops ≠ .empty := by
    intro e; rw [e] at hget; simp at hget
  exact proof_complete H hH _ (good_run ops hb hne) kb v hget hv

theorem proof_sound_run (H : Bytes → Bytes) (hH : ∀ s, (H s).length = 32) (ops : List Op)
    (hb : ∀ k v, Op.set k v ∈ ops → k.length < 2 ^ 31 ∧ v.length < 2 ^ 32)
    (root kb : Bytes) (p : List Bytes) (v : Bytes)
    (hr : rootHash H (run ops) = some root) (h : prove H root kb p = .ok v) :
    refMap ops kb = some v ∨ Collision H := by
  have hne : run ops ≠ .empty := by
    intro e; rw [e] at hr; simp [rootHash] at hr
  rw [← get_run]
  exact proof_sound H hH _ (good_run ops hb hne) root kb p v hr h

/-- non-vacuity: a concrete history satisfies the hypotheses -/
example : ∀ k v, Op.set k v ∈ [Op.set [0x12, 0x34] [0x61], Op.set [0x12, 0x56] [0x62]] →
    k.length < 2 ^ 31 ∧ v.length < 2 ^ 32 := by
  intro k v h
  simp at h
  rcases h with ⟨rfl, rfl⟩ | ⟨rfl, rfl⟩ <;> simp

example : refMap [Op.set [0x12, 0x34] [0x61], Op.set [0x12, 0x56] [0x62]] [0x12, 0x34] = some [0x61] := by
  decide

end Goloop.C18
