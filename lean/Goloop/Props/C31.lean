/-
  Props/C31 — "The encrypted peer channel is a faithful byte stream" (network/secure.go, REPAIRED code, fix F7).
  Only property statements live here; helper lemmas are in Proofs/C31.lean.

  Reading guide.  `writeMany A st writes` = the bytes put on the connection by successive
  `SecureAead.Write(b)` calls (frames of ≤ 1024 bytes, `len16 0 0 Seal(nonce, frame)`, nonce counter).
  `readMany A st wire bufs` = successive `SecureAead.Read(buf)` calls with buffers of the given sizes,
  stopping at the first error; `.outs` are the byte strings they returned.  The AEAD `A` is a parameter.
-/
import Goloop.Proofs.C31
namespace Goloop.C31
open Goloop.C31.Proofs

/-- **Faithful stream.**  For a lawful AEAD (`Open(Seal p) = p`, `|Seal p| = |p| + Overhead`), any key and
    start nonce, ANY sequence of write sizes and ANY sequence of read-buffer sizes: what the reads return,
    concatenated, is a prefix of what was written, concatenated; no error occurs before everything has been
    delivered (then EOF); and with non-empty buffers and at least as many reads as bytes, everything
    written is delivered — nothing is dropped, duplicated or reordered. -/
theorem stream_faithful (A : Aead) (hA : Aead.Lawful A) (key n0 : Bytes) (writes : List Bytes) (bufs : List Nat) :
    let wire := (writeMany A ⟨key, n0, []⟩ writes).2
    let r := readMany A ⟨key, n0, []⟩ wire bufs
    (∃ pend, r.outs.flatten ++ pend = writes.flatten ∧ (r.err = none ∨ (r.err = some .eof ∧ pend = []))) ∧
    ((∀ b ∈ bufs, 0 < b) → writes.flatten.length ≤ bufs.length → r.outs.flatten = writes.flatten) := by
  intro wire r
  have hw : wire = encFrames A key n0 (framesOf writes) := (writeMany_spec A writes ⟨key, n0, []⟩).1
  obtain ⟨pend, e1, e2, e3⟩ := readMany_honest A hA key bufs (framesOf writes) n0 [] (framesOf_good writes)
  rw [← hw, List.nil_append, framesOf_flatten] at e1 e3
  rw [← hw] at e2
  refine ⟨⟨pend, e1, e2⟩, fun hb hlen => ?_⟩
  rcases e2 with he | ⟨_, hp⟩
  · have h3 := e3 hb he
    have hl := congrArg List.length e1
    rw [List.length_append] at hl
    have : pend.length = 0 := by
      have : min bufs.length writes.flatten.length = writes.flatten.length := Nat.min_eq_right hlen
      omega
    rw [List.length_eq_zero_iff.mp this, List.append_nil] at e1
    exact e1
  · rw [hp, List.append_nil] at e1; exact e1

/-- **Direction keys.**  `a`, `b` = the two ends' ECDH public points, `dA`, `dB` their `defaultLower`
    arguments (`p.In()`, opposite at the two ends).  If the points differ or the defaults are opposite, the
    ends compute opposite `isLower` flags, so with the common secret list `s0 :: s1 :: _` each end's write
    key is the other end's read key, and the two directions use different keys whenever `s0 ≠ s1`. -/
theorem direction_keys_match_and_differ (a b : Nat × Nat) (dA dB : Bool) (hdist : a ≠ b ∨ dA ≠ dB)
    (s0 s1 : Bytes) (more : List Bytes) :
    isLowerAfter a b dA ≠ isLowerAfter b a dB ∧
    ∃ inA outA inB outB,
      selectSecrets (s0 :: s1 :: more) (isLowerAfter a b dA) = some (inA, outA) ∧
      selectSecrets (s0 :: s1 :: more) (isLowerAfter b a dB) = some (inB, outB) ∧
      outA = inB ∧ outB = inA ∧ (s0 ≠ s1 → inA ≠ outA ∧ inB ≠ outB) := by
  have hne : isLowerAfter a b dA ≠ isLowerAfter b a dB := by
    obtain ⟨a1, a2⟩ := a; obtain ⟨b1, b2⟩ := b
    unfold isLowerAfter
    simp only []
    rcases Nat.lt_trichotomy a1 b1 with h | h | h
    · have h1 : b1 > a1 := h
      have h2 : ¬ a1 > b1 := by omega
      have h3 : ¬ a1 = b1 := by omega
      simp [h1, h2, h3]
    · subst h
      rcases Nat.lt_trichotomy a2 b2 with g | g | g
      · have g1 : b2 > a2 := g
        have g2 : ¬ a2 > b2 := by omega
        have g3 : ¬ a2 = b2 := by omega
        simp [g1, g2, g3]
      · subst g
        rcases hdist with hd | hd
        · exact absurd rfl hd
        · simpa using hd
      · have g1 : a2 > b2 := g
        have g2 : ¬ b2 > a2 := by omega
        have g3 : ¬ b2 = a2 := by omega
        simp [g1, g2, g3]
    · have h1 : a1 > b1 := h
      have h2 : ¬ b1 > a1 := by omega
      have h3 : ¬ b1 = a1 := by omega
      simp [h1, h2, h3]
  refine ⟨hne, ?_⟩
  cases hA : isLowerAfter a b dA <;> cases hB : isLowerAfter b a dB <;> rw [hA, hB] at hne
  · exact absurd rfl hne
  · exact ⟨s1, s0, s0, s1, rfl, rfl, rfl, rfl, fun h => ⟨fun e => h e.symm, h⟩⟩
  · exact ⟨s0, s1, s1, s0, rfl, rfl, rfl, rfl, fun h => ⟨h, fun e => h e.symm⟩⟩
  · exact absurd rfl hne

/-- with a single secret (`numOfSecret = 1`) both directions share it -/
theorem single_secret_shared (s0 : Bytes) (l : Bool) : selectSecrets [s0] l = some (s0, s0) := rfl

/-- **Tampered / reordered / replayed / injected ciphertext is never delivered.**  Assume ciphertext
    integrity for the sender's frames (`Auth`: under the j-th nonce only the j-th sealed frame opens, to its
    own plaintext).  Then for ARBITRARY bytes arriving on the connection and any read-buffer sizes, what the
    reader delivers is a prefix of what the sender wrote. -/
theorem tamper_or_reorder_rejected (A : Aead) (key n0 : Bytes) (writes : List Bytes)
    (hauth : Auth A key n0 (framesOf writes)) (wire' : Bytes) (bufs : List Nat) :
    (readMany A ⟨key, n0, []⟩ wire' bufs).outs.flatten <+: writes.flatten := by
  have := readMany_prefix A key n0 (framesOf writes) hauth bufs 0 [] wire' (Nat.zero_le _)
  simpa [advance, framesOf_flatten] using this

/-- **Only the genuine next frame is accepted.**  Under the same hypothesis, when the reader (having
    accepted j frames, nothing buffered) accepts anything at all, the connection carried at that point
    exactly frame j of the sender: its two length bytes, two pad bytes, its sealed bytes.  Hence a frame
    with an altered length or sealed byte, a frame from another position (reorder), a repeated frame
    (replay) or a missing frame makes `Read` fail. -/
theorem only_genuine_frame_accepted (A : Aead)
    (hlen : ∀ k n p, (A.sealF k n p).length = p.length + A.overhead)
    (key n0 : Bytes) (writes : List Bytes) (hauth : Auth A key n0 (framesOf writes))
    (j : Nat) (hj : j ≤ (framesOf writes).length) (wire : Bytes) (buf : Nat) (r : Bytes × St × Bytes)
    (h : read A ⟨key, advance j n0, []⟩ wire buf = .ok r) :
    ∃ (hj : j < (framesOf writes).length) (pad rest : Bytes), pad.length = 2 ∧
      wire = be16 (framesOf writes)[j].length ++
        (pad ++ (A.sealF key (advance j n0) (framesOf writes)[j] ++ rest)) :=
  read_accepts_only_genuine A hlen key n0 (framesOf writes) hauth
    (fun f hf => (framesOf_good writes f hf).2) j hj wire buf r h

/-- NOT guaranteed (stated): header bytes 2 and 3 of a frame are ignored by `Read`, so altering them in
    transit goes unnoticed — the delivered plaintext is unaffected. -/
theorem header_pad_not_checked (A : Aead) (key n : Bytes) (hdr pad pad' body : Bytes) (h1 : hdr.length = 2)
    (h2 : pad.length = 2) (h2' : pad'.length = 2) (buf : Nat) :
    read A ⟨key, n, []⟩ (hdr ++ (pad ++ body)) buf = read A ⟨key, n, []⟩ (hdr ++ (pad' ++ body)) buf := by
  rcases read_pad_ignored A ⟨key, n, []⟩ hdr pad pad' body h1 h2 h2' buf with h | h
  · exact h
  · exact absurd rfl h

/-! ### the defect repaired by fixes/F7_secure_read.diff -/

/-- the identity "AEAD" (lawful; used for non-vacuity and for the witness) -/
def idAead : Aead := { sealF := fun _ _ p => p, openF := fun _ _ c => some c, overhead := 0, nonceSize := 1 }

/-- **Witness (code before the repair).**  Write the 3 bytes 1 2 3, read with a 2-byte buffer: the old
    `Read` reports n = 3 > len(buf), hands over 1 2 and keeps nothing — the next `Read` finds an empty
    connection: byte 3 is lost.  The repaired `Read` returns 1 2 and then 3. -/
theorem short_buffer_drops_bytes_before_fix :
    let w := (write idAead ⟨[], [0], []⟩ [1, 2, 3]).2.flatten
    (readOrig idAead ⟨[], [0], []⟩ w 2 = .ok (3, [1, 2], ⟨[], [1], []⟩, [])) ∧
    (readOrig idAead ⟨[], [1], []⟩ [] 2 = .error .eof) ∧
    (readMany idAead ⟨[], [0], []⟩ w [2, 2]).outs = [[1, 2], [3]] := by
  intro w
  exact ⟨by rfl, by rfl, by decide +kernel⟩

/-! ### non-vacuity of the hypotheses -/

example : Aead.Lawful idAead := ⟨fun _ _ _ => rfl, fun _ _ _ => rfl⟩

/-- an AEAD satisfying `Auth` for a concrete non-empty transmission: it opens exactly the sealed frame
    under the first nonce and nothing under the next one. -/
def lookupAead : Aead :=
  { sealF := fun _ n p => p ++ n,
    openF := fun _ n c => if n = [0] ∧ c = [7, 0] then some [7] else none,
    overhead := 1, nonceSize := 1 }

example : Auth lookupAead [] [0] (framesOf [[7]]) ∧ framesOf [[7]] = [[7]] := by
  refine ⟨?_, by decide⟩
  intro j hj c p h
  have hf : framesOf [[7]] = [[7]] := by decide
  rw [hf] at hj ⊢
  have : j = 0 ∨ j = 1 := by simp at hj; omega
  rcases this with rfl | rfl
  · simp only [lookupAead, advance] at h ⊢
    split at h
    · rename_i hc
      cases h
      exact ⟨by decide, by simp [hc.2], rfl⟩
    · cases h
  · have : advance 1 ([0] : Bytes) = [1] := by decide
    simp [lookupAead, this] at h

example : ((1, 2) : Nat × Nat) ≠ (1, 3) ∨ true ≠ true := Or.inl (by decide)

end Goloop.C31
