/-
  Props/C20 — "State sync rebuilds exactly the trusted state and stores nothing else".

  All theorems are about `Model/C20.lean` (merkleBuilder.OnData/RequestData and the trie's
  resolve), for an arbitrary hash function `H` and node decoder `refs` (`Cfg`), any trusted
  root and **any** delivery history `vs : List Bytes` — requested, unrequested, forged,
  duplicated, in any order.  Nothing is assumed about `H` except where a hypothesis says so.
-/
import Goloop.Proofs.C20
namespace Goloop.C20

/-- Data whose hash is not an outstanding request is rejected and changes nothing at all. -/
theorem unrequested_data_is_ignored (cfg : Cfg) (s : St) (v : Bytes) (h : cfg.H v ∉ s.reqs) :
    onData cfg s v = (s, .noRequester) := by
  rcases onData_cases cfg s v with ⟨_, he⟩ | ⟨hm, _, _⟩ | ⟨i, cs, hi, _, _⟩
  · exact he
  · exact absurd hm h
  · exact absurd (List.mem_of_getElem? hi) h

/-- One delivery stores at most the delivered payload, under its own hash, and only if that
    hash was outstanding. -/
theorem store_only_requested_step (cfg : Cfg) (s : St) (v : Bytes) :
    (onData cfg s v).1.store = s.store ∨
    ((onData cfg s v).1.store = (cfg.H v, v) :: s.store ∧ cfg.H v ∈ s.reqs) := by
  rcases onData_cases cfg s v with ⟨_, he⟩ | ⟨hm, _, he⟩ | ⟨i, cs, hi, _, he⟩
  · rw [he]; exact Or.inl rfl
  · rw [he]; exact Or.inr ⟨rfl, hm⟩
  · rw [he]; exact Or.inr ⟨rfl, List.mem_of_getElem? hi⟩

/-- After any history starting from the trusted root with an empty store, every stored entry is
    keyed by the hash of its value (so nothing can be planted under a foreign key). -/
theorem store_only_hashed (cfg : Cfg) (root : Bytes) (vs : List Bytes) :
    ∀ k v, (k, v) ∈ (runAll cfg (start {} (some root)) vs).store → k = cfg.H v :=
  (inv_runAll cfg root vs _ (inv_start cfg root)).hashed

/-- "No outstanding requests ⇒ the local store holds the complete state": whatever was delivered,
    once `UnresolvedCount() = 0` every node reachable from the trusted root through stored
    payloads is itself stored (the stored graph is closed). No assumption on `H`. -/
theorem no_requests_implies_closed (cfg : Cfg) (root : Bytes) (vs : List Bytes)
    (hz : (runAll cfg (start {} (some root)) vs).reqs = []) :
    ∀ k, Reach cfg (runAll cfg (start {} (some root)) vs).store root k →
      Has (runAll cfg (start {} (some root)) vs).store k :=
  closed_of_no_requests cfg root _ (inv_runAll cfg root vs _ (inv_start cfg root)) hz

/-- With a trusted source `src` (closed, hashed, one value per key) and no hash collision between
    a delivered payload and a source payload: the store never holds anything that is not in the
    source (forged / unrequested data is never stored). -/
theorem store_subset_of_source (cfg : Cfg) (src : List (Bytes × Bytes)) (root : Bytes)
    (hs : Src cfg src root) (vs : List Bytes) (hnc : NoCollision cfg src vs) :
    ∀ e, e ∈ (runAll cfg (start {} (some root)) vs).store → e ∈ src :=
  (inv2_runAll cfg src root hs vs _ hnc (inv_start cfg root) (inv2_start cfg src root hs)).sub

/-- Same hypotheses: there are no outstanding requests **exactly when** every node of the trusted
    state (reachable from the root in the source) is stored. -/
theorem unresolved_zero_iff_complete (cfg : Cfg) (src : List (Bytes × Bytes)) (root : Bytes)
    (hs : Src cfg src root) (vs : List Bytes) (hnc : NoCollision cfg src vs) :
    (runAll cfg (start {} (some root)) vs).reqs = [] ↔
      ∀ k, Reach cfg src root k → Has (runAll cfg (start {} (some root)) vs).store k := by
  have h1 := inv_runAll cfg root vs _ (inv_start cfg root)
  have h2 := inv2_runAll cfg src root hs vs _ hnc (inv_start cfg root) (inv2_start cfg src root hs)
  generalize runAll cfg (start {} (some root)) vs = s at h1 h2
  constructor
  · intro hz k r
    induction r with
    | root => rcases h1.rootOk with h | h; exact h; rw [hz] at h; cases h
    | step _ hm hr hc ih =>
      obtain ⟨w, hw⟩ := ih
      have := hs.functional _ _ _ hm (h2.sub _ hw)
      subst this
      rcases h1.closed _ _ _ hw hr _ hc with h | h
      · exact h
      · rw [hz] at h; cases h
  · intro hc
    cases hr : s.reqs with
    | nil => rfl
    | cons k ks =>
      exfalso
      have hk : k ∈ s.reqs := by rw [hr]; exact List.mem_cons_self
      exact h2.disjoint k hk (hc k ((h2.reqReach k hk).mono h2.sub))

/-- Same hypotheses: when the sync ends (no outstanding requests) the rebuilt store contains, for
    every node of the trusted state, exactly the source's payload — the rebuilt state *is* the
    trusted state. -/
theorem rebuilt_equals_source (cfg : Cfg) (src : List (Bytes × Bytes)) (root : Bytes)
    (hs : Src cfg src root) (vs : List Bytes) (hnc : NoCollision cfg src vs)
    (hz : (runAll cfg (start {} (some root)) vs).reqs = []) :
    ∀ k, Reach cfg src root k → ∃ v, (k, v) ∈ src ∧ (k, v) ∈ (runAll cfg (start {} (some root)) vs).store := by
  intro k r
  obtain ⟨v, hv⟩ := (unresolved_zero_iff_complete cfg src root hs vs hnc).mp hz k r
  exact ⟨v, store_subset_of_source cfg src root hs vs hnc _ hv, hv⟩

/-- With a source and no collisions a delivered payload is never stored-but-undecodable:
    `OnData` answers only `ok` or `noRequester`. -/
theorem never_decode_error (cfg : Cfg) (src : List (Bytes × Bytes)) (root : Bytes)
    (hs : Src cfg src root) (vs : List Bytes) (v : Bytes) (hnc : NoCollision cfg src (vs ++ [v])) :
    (onData cfg (runAll cfg (start {} (some root)) vs) v).2 ≠ .decodeError := by
  have hnc1 : NoCollision cfg src vs := fun w hw => hnc w (List.mem_append.mpr (Or.inl hw))
  have h1 := inv_runAll cfg root vs _ (inv_start cfg root)
  have h2 := inv2_runAll cfg src root hs vs _ hnc1 (inv_start cfg root) (inv2_start cfg src root hs)
  exact (inv2_onData cfg src root hs _ v (hnc v (List.mem_append.mpr (Or.inr (by simp)))) h1 h2).2

/-! ### non-vacuity: a two-node source with an identity-like toy hash -/

private def toyCfg : Cfg :=
  { H := fun v => v.take 1,                       -- "hash" = first byte
    refs := fun v => some ((v.drop 1).map fun b => [b]) }   -- remaining bytes name the children

private def toySrc : List (Bytes × Bytes) := [([1], [1, 2]), ([2], [2])]

example : Src toyCfg toySrc [1] := by
  refine ⟨?_, ?_, ?_, ⟨[1, 2], by simp [toySrc]⟩⟩
  · intro k v h; simp [toySrc] at h; rcases h with ⟨rfl, rfl⟩ | ⟨rfl, rfl⟩ <;> rfl
  · intro k v v' h h'; simp [toySrc] at h h'
    rcases h with ⟨rfl, rfl⟩ | ⟨rfl, rfl⟩ <;> rcases h' with ⟨h1, rfl⟩ | ⟨h1, rfl⟩ <;> simp_all
  · intro k v h; simp [toySrc] at h
    rcases h with ⟨rfl, rfl⟩ | ⟨rfl, rfl⟩
    · exact ⟨[[2]], rfl, by intro c hc; simp at hc; subst hc; exact ⟨[2], by simp [toySrc]⟩⟩
    · exact ⟨[], rfl, by simp⟩

example : (runAll toyCfg (start {} (some [1])) [[9, 9], [2], [1, 2], [2]]).reqs = [] ∧
    (runAll toyCfg (start {} (some [1])) [[9, 9], [2], [1, 2], [2]]).store = [([2], [2]), ([1], [1, 2])] := by
  decide

end Goloop.C20
