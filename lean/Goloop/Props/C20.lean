/-
  Props/C20 — "State sync rebuilds exactly the trusted state and stores nothing else".

  All theorems are about `Model/C20.lean` (merkleBuilder.OnData/RequestData, the trie's resolve
  and the values' Resolve), with explicit buckets: the store holds (bucket, key, value) entries, a
  request is a key with the buckets of its requesters.  They hold for an arbitrary hash function
  `H` and requester decoder `refs` (`Cfg`), any trusted root and **any** delivery history
  `vs : List (Bkt × Bytes)` — requested, unrequested, forged, duplicated, for either bucket, in any
  order.  Nothing is assumed about `H`/`refs` except where a hypothesis says so.

  `Has store (b, k)`     bucket `b` of the store holds a value under key `k`
  `Pending reqs (b, k)`  a requester of bucket `b` is registered on the outstanding request for `k`
  `Reach cfg store root` what can be reached from the trie root (0, root) through stored payloads
  `NoCrossSelfRef cfg`   no payload refers to its *own* hash in a bucket other than its own
                         (such a payload would have to contain its own hash)
-/
import Goloop.Proofs.C20
namespace Goloop.C20

/-- Data whose hash is not the key of an outstanding request is rejected and changes nothing at
    all, whatever bucket it is delivered for. -/
theorem unrequested_data_is_ignored (cfg : Cfg) (s : St) (bid : Bkt) (v : Bytes)
    (h : cfg.H v ∉ keys s.reqs) : onData cfg s bid v = (s, .noRequester) := by
  rcases onData_cases cfg s bid v with ⟨_, he⟩ | ⟨r, hm, hk, _⟩
  · exact he
  · exact absurd (List.mem_map.mpr ⟨r, hm, hk⟩) h

/-- One delivery stores nothing but copies of the delivered payload, each under the payload's own
    hash and only in a bucket whose requester was registered for that hash. -/
theorem store_only_requested_step (cfg : Cfg) (s : St) (bid : Bkt) (v : Bytes) :
    ∃ bs : List Bkt, (onData cfg s bid v).1.store = bs.map (fun b => (b, cfg.H v, v)) ++ s.store ∧
      ∀ b ∈ bs, Pending s.reqs (b, cfg.H v) := by
  rcases onData_cases cfg s bid v with ⟨_, he⟩ | ⟨r, hm, hk, _, ⟨_, he⟩ | ⟨_, he⟩⟩
  · exact ⟨[], by rw [he]; rfl, by simp⟩
  all_goals
    obtain ⟨bs, hst, hb⟩ := serve_store cfg (cfg.H v) v r.bkts s.store
      (s.reqs, some (s.reqs.findIdx (·.key == cfg.H v)))
    exact ⟨bs, by rw [he]; exact hst, fun b hbm => ⟨r, hm, hk, hb b hbm⟩⟩

/-- After any history starting from the trusted root with an empty store, every stored entry of
    every bucket is keyed by the hash of its value (nothing can be planted under a foreign key). -/
theorem store_only_hashed (cfg : Cfg) (hself : NoCrossSelfRef cfg) (root : Bytes)
    (vs : List (Bkt × Bytes)) :
    ∀ b k v, (b, k, v) ∈ (runAll cfg (start cfg {} (some root)) vs).store → k = cfg.H v :=
  (inv_runAll cfg hself root vs _ (inv_start cfg root)).hashed

/-- "No outstanding requests ⇒ the local store holds the complete state": whatever was delivered,
    once `UnresolvedCount() = 0` every (bucket, key) reachable from the trusted root through
    stored payloads is itself stored in that bucket (the stored graph is closed, per bucket).
    No assumption on `H` besides `NoCrossSelfRef`. -/
theorem no_requests_implies_closed (cfg : Cfg) (hself : NoCrossSelfRef cfg) (root : Bytes)
    (vs : List (Bkt × Bytes)) (hz : (runAll cfg (start cfg {} (some root)) vs).reqs = []) :
    ∀ p, Reach cfg (runAll cfg (start cfg {} (some root)) vs).store root p →
      Has (runAll cfg (start cfg {} (some root)) vs).store p :=
  closed_of_no_requests cfg root _ (inv_runAll cfg hself root vs _ (inv_start cfg root)) hz

/-- With a trusted per-bucket source `src` (closed, hashed, one value per (bucket, key)) and no
    hash collision between a delivered payload and a source payload: the store never holds an
    entry that is not in the source — not a forged payload, and not a genuine payload in a bucket
    where the source does not have it. -/
theorem store_subset_of_source (cfg : Cfg) (hself : NoCrossSelfRef cfg) (src : List Entry)
    (root : Bytes) (hs : Src cfg src root) (vs : List (Bkt × Bytes)) (hnc : NoCollision cfg src vs) :
    ∀ e, e ∈ (runAll cfg (start cfg {} (some root)) vs).store → e ∈ src :=
  (inv2_runAll cfg hself src root hs vs _ hnc (inv_start cfg root) (inv2_start cfg src root hs)).sub

/-- Same hypotheses: there are no outstanding requests **exactly when** every (bucket, key) of the
    trusted state (reachable from the root in the source) is stored in that bucket. -/
theorem unresolved_zero_iff_complete (cfg : Cfg) (hself : NoCrossSelfRef cfg) (src : List Entry)
    (root : Bytes) (hs : Src cfg src root) (vs : List (Bkt × Bytes)) (hnc : NoCollision cfg src vs) :
    (runAll cfg (start cfg {} (some root)) vs).reqs = [] ↔
      ∀ p, Reach cfg src root p → Has (runAll cfg (start cfg {} (some root)) vs).store p := by
  have h1 := inv_runAll cfg hself root vs _ (inv_start cfg root)
  have h2 := inv2_runAll cfg hself src root hs vs _ hnc (inv_start cfg root) (inv2_start cfg src root hs)
  generalize runAll cfg (start cfg {} (some root)) vs = s at h1 h2
  constructor
  · intro hz p r
    have np : ∀ q, ¬ Pending s.reqs q := by
      rintro q ⟨x, hx, _⟩; rw [hz] at hx; cases hx
    induction r with
    | root => rcases h1.rootOk with h | h; exact h; exact absurd h (np _)
    | step _ hm hr hc ih =>
      obtain ⟨w, hw⟩ := ih
      have := hs.functional _ _ _ _ hm (h2.sub _ hw)
      subst this
      rcases h1.closed _ _ _ _ hw hr _ hc with h | h
      · exact h
      · exact absurd h (np _)
  · intro hc
    cases hr : s.reqs with
    | nil => rfl
    | cons x xs =>
      exfalso
      have hx : x ∈ s.reqs := by rw [hr]; exact List.mem_cons_self
      obtain ⟨b, hb⟩ := List.exists_mem_of_ne_nil _ (h1.nonempty x hx)
      have hp : Pending s.reqs (b, x.key) := ⟨x, hx, rfl, hb⟩
      exact h2.disjoint _ hp (hc _ ((h2.reqReach _ hp).mono h2.sub))

/-- Same hypotheses: when the sync ends (no outstanding requests) the rebuilt store contains, for
    every (bucket, key) of the trusted state, exactly the source's payload in that bucket — the
    rebuilt state *is* the trusted state. -/
theorem rebuilt_equals_source (cfg : Cfg) (hself : NoCrossSelfRef cfg) (src : List Entry)
    (root : Bytes) (hs : Src cfg src root) (vs : List (Bkt × Bytes)) (hnc : NoCollision cfg src vs)
    (hz : (runAll cfg (start cfg {} (some root)) vs).reqs = []) :
    ∀ b k, Reach cfg src root (b, k) →
      ∃ v, (b, k, v) ∈ src ∧ (b, k, v) ∈ (runAll cfg (start cfg {} (some root)) vs).store := by
  intro b k r
  obtain ⟨v, hv⟩ := (unresolved_zero_iff_complete cfg hself src root hs vs hnc).mp hz _ r
  exact ⟨v, store_subset_of_source cfg hself src root hs vs hnc _ hv, hv⟩

/-- With a source and no collisions a delivered payload is never stored-but-undecodable:
    `OnData` answers only `ok` or `noRequester`. -/
theorem never_decode_error (cfg : Cfg) (hself : NoCrossSelfRef cfg) (src : List Entry) (root : Bytes)
    (hs : Src cfg src root) (vs : List (Bkt × Bytes)) (bid : Bkt) (v : Bytes)
    (hnc : NoCollision cfg src (vs ++ [(bid, v)])) :
    (onData cfg (runAll cfg (start cfg {} (some root)) vs) bid v).2 ≠ .decodeError := by
  have hnc1 : NoCollision cfg src vs := fun w hw => hnc w (List.mem_append.mpr (Or.inl hw))
  have h1 := inv_runAll cfg hself root vs _ (inv_start cfg root)
  have h2 := inv2_runAll cfg hself src root hs vs _ hnc1 (inv_start cfg root) (inv2_start cfg src root hs)
  exact (inv2_onData cfg src root hs _ bid v
    (hnc (bid, v) (List.mem_append.mpr (Or.inr (by simp)))) h1 h2).2

/-! ### non-vacuity: a toy source in which one key is needed in both buckets

  "hash" = first byte; a bucket-0 payload `k :: rest` names its children by the bytes of `rest`:
  a byte `c < 100` is the bucket-0 child `[c]`, a byte `c ≥ 100` the bucket-1 blob `[c - 100]`
  (unless that is the payload's own hash); bucket-1 payloads refer to nothing.  Root `[1,2,3]` has the children (0,[2]), (0,[3]); node
  `[3,102]` refers to blob (1,[2]) whose bytes `[2]` are also the node (0,[2]). -/

private def toyRef (v : Bytes) (c : UInt8) : Option Ref :=
  if c < 100 then some (0, [c])
  else if [c - 100] = v.take 1 then none      -- a payload cannot name its own hash
  else some (1, [c - 100])

private def toyCfg : Cfg :=
  { H := fun v => v.take 1,
    refs := fun b v => if b = 0 then some ((v.drop 1).filterMap (toyRef v)) else some [] }

private def toySrc : List Entry := [(0, [1], [1, 2, 3]), (0, [2], [2]), (0, [3], [3, 102]), (1, [2], [2])]

example : NoCrossSelfRef toyCfg := by
  intro b v ps h c hc hk
  by_cases hb : b = 0
  · subst hb
    simp only [toyCfg, if_true, Option.some.injEq] at h
    subst h
    obtain ⟨x, _, hx⟩ := List.mem_filterMap.mp hc
    unfold toyRef at hx
    split at hx
    · cases hx; rfl
    · split at hx
      · cases hx
      · cases hx; rename_i hne; exact absurd hk hne
  · simp only [toyCfg, hb, if_false, Option.some.injEq] at h
    subst h; cases hc

example : Src toyCfg toySrc [1] := by
  refine ⟨?_, ?_, ?_, ⟨[1, 2, 3], by simp [toySrc]⟩⟩
  · intro b k v h; simp [toySrc] at h
    rcases h with ⟨_, rfl, rfl⟩ | ⟨_, rfl, rfl⟩ | ⟨_, rfl, rfl⟩ | ⟨_, rfl, rfl⟩ <;> rfl
  · intro b k v v' h h'; simp [toySrc] at h h'
    rcases h with ⟨rfl, rfl, rfl⟩ | ⟨rfl, rfl, rfl⟩ | ⟨rfl, rfl, rfl⟩ | ⟨rfl, rfl, rfl⟩ <;>
      simp at h' <;> exact h'.symm
  · intro b k v h; simp [toySrc] at h
    rcases h with ⟨rfl, rfl, rfl⟩ | ⟨rfl, rfl, rfl⟩ | ⟨rfl, rfl, rfl⟩ | ⟨rfl, rfl, rfl⟩
    · exact ⟨[(0, [2]), (0, [3])], by decide, by
        intro c hc; simp at hc
        rcases hc with rfl | rfl
        · exact ⟨[2], by simp [toySrc]⟩
        · exact ⟨[3, 102], by simp [toySrc]⟩⟩
    · exact ⟨[], by decide, by simp⟩
    · exact ⟨[(1, [2])], by decide, by
        intro c hc; simp at hc; subst hc; exact ⟨[2], by simp [toySrc]⟩⟩
    · exact ⟨[], by decide, by simp⟩

/-- a history with forged data, a duplicate, and key `[2]` requested under both buckets
    (node first, then blob) and served by one delivery into both -/
example :
    let s := runAll toyCfg (start toyCfg {} (some [1])) [(0, [9, 9]), (0, [1, 2, 3]), (1, [3, 102]), (1, [2]), (0, [2])]
    s.reqs = [] ∧ s.resolved = 3 ∧
      s.store = [(1, [2], [2]), (0, [2], [2]), (0, [3], [3, 102]), (0, [1], [1, 2, 3])] := by
  decide

/-- the same key requested under both buckets shows up as one request with two buckets -/
example :
    (runAll toyCfg (start toyCfg {} (some [1])) [(0, [1, 2, 3]), (0, [3, 102])]).reqs = [⟨[2], [0, 1]⟩] := by
  decide

/-- delivered before the blob reference is known, the key is requested and stored a second time -/
example :
    let s := runAll toyCfg (start toyCfg {} (some [1])) [(0, [1, 2, 3]), (0, [2]), (0, [3, 102])]
    s.reqs = [⟨[2], [1]⟩] ∧ s.store = [(0, [3], [3, 102]), (0, [2], [2]), (0, [1], [1, 2, 3])] := by
  decide

/-- why `NoCrossSelfRef` is a hypothesis: with a decoder that lets payload `[1,101]` name its own
    hash `[1]` as a blob, the blob's requester is appended to the very request being served and is
    dropped with it (`range req.requesters` does not see it): no request is left, yet (1,[1]) is
    referenced and not stored. -/
example :
    let cfg : Cfg := { H := fun v => v.take 1,
                       refs := fun b v => if b = 0 then some ((v.drop 1).map fun c => (1, [c - 100])) else some [] }
    let s := runAll cfg (start cfg {} (some [1])) [(0, [1, 101])]
    s.reqs = [] ∧ s.store = [(0, [1], [1, 101])] := by
  decide

end Goloop.C20
