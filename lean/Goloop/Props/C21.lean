/-
  Props/C21 — "Contract storage containers do not collide".

  Parts are byte strings (`ToBytes` already applied) unless a theorem is about `ToBytes`
  itself.  `Small p` / `AllSmall ps`: every part fits a Go slice (length ≤ 2^63-1).
  The hash is a parameter `H`; where it matters the statement is "or H collides"
  (`HInjOn H P` = no collision among the pre-hash keys in `P`).
  Helper lemmas are in Proofs/C21.lean.
-/
import Goloop.Proofs.C21
namespace Goloop.C21
open Goloop.C21.Proofs

/-! ### composite keys -/

/-- **appendKeys_injective** (same prefix): the part list is determined by the key. -/
theorem appendKeys_injective (key : Bytes) (ps qs : List Bytes) (hp : AllSmall ps) (hq : AllSmall qs)
    (h : appendKeysB key ps = appendKeysB key qs) : ps = qs :=
  appendKeysB_injective key ps qs hp hq h

/-- on the typed level: equal keys ⇒ the parts have pairwise equal `ToBytes` -/
theorem appendKeys_injective_parts (key : Bytes) (ps qs : List Part)
    (hp : AllSmall (ps.map toBytes)) (hq : AllSmall (qs.map toBytes))
    (h : appendKeys key ps = appendKeys key qs) : ps.map toBytes = qs.map toBytes :=
  appendKeysB_injective key _ _ hp hq h

example : AllSmall [[1, 2], [], [0x80]] := by
  intro p hp; simp at hp; rcases hp with rfl | rfl | rfl <;> simp [Small, maxInt]

/-- **splitKeys_appendKeys**: composite keys decode back to their parts. -/
theorem splitKeys_appendKeys (ps : List Bytes) (hs : AllSmall ps) :
    splitKeys (appendKeysB [] ps) = some ps := by
  simpa [appendKeysB] using splitKeys_encodeParts ps hs

/-- one coded part is self-delimiting (prefix-free): this is what makes nesting safe -/
theorem part_prefix_free (p q r1 r2 : Bytes) (hp : Small p) (hq : Small q)
    (h : rlpEncodeBytes p ++ r1 = rlpEncodeBytes q ++ r2) : p = q ∧ r1 = r2 :=
  enc_prefix_free p q r1 r2 hp hq h

/-- `Append` after `Append` is `Append` of the concatenation (all four builders) -/
theorem append_append (kb : KB) (a b : List Bytes) : (kb.append a).append b = kb.append (a ++ b) :=
  kb_append_append kb a b

/-! ### container paths (scoredb layout, any nesting depth, any `NewHashKey` prefix) -/

/-- **distinct_paths_distinct_prekeys**: two container paths have the same pre-hash key iff
    their part lists are the same list of byte strings. -/
theorem distinct_paths_distinct_prekeys (pre : Bytes) (p q : Path)
    (hp : AllSmall p.parts) (hq : AllSmall q.parts) :
    p.preKey pre = q.preKey pre ↔ p.parts = q.parts := prekey_eq_iff pre p q hp hq

/-- hence: same storage key ⇒ same part list, or an explicit hash collision -/
theorem distinct_paths_distinct_keys (H : Bytes → Bytes) (pre : Bytes) (p q : Path)
    (hp : AllSmall p.parts) (hq : AllSmall q.parts) (h : p.key H pre = q.key H pre) :
    p.parts = q.parts ∨ (p.preKey pre ≠ q.preKey pre ∧ H (p.preKey pre) = H (q.preKey pre)) := by
  by_cases he : p.preKey pre = q.preKey pre
  · exact Or.inl ((prekey_eq_iff pre p q hp hq).mp he)
  · exact Or.inr ⟨he, h⟩

/-- the part lists of different container kinds never coincide; within a kind they coincide only
    for equal keys (and equal index / name) — the complete case list -/
theorem parts_eq_cases (p q : Path) (h : p.parts = q.parts) :
    match p, q with
    | .var a, .var b => a = b
    | .dictEntry n a, .dictEntry m b => n = m ∧ a = b
    | .arrSize a, .arrSize b => a = b
    | .arrElem a i, .arrElem b j => a ++ [int64ToBytes (i : Int)] = b ++ [int64ToBytes (j : Int)]
    | .arrElem a i, .arrSize b => b = a ++ [int64ToBytes (i : Int)]
    | .arrSize b, .arrElem a i => b = a ++ [int64ToBytes (i : Int)]
    | _, _ => False := by
  cases p <;> cases q <;> simp [Path.parts] at h ⊢ <;> first | exact h | exact h.symm | skip
  all_goals first | exact h | (obtain ⟨h1, h2⟩ := h; exact ⟨h1, h2⟩)

/-- the one by-design alias: element `i` of array `ks` is the size slot of array `ks ++ [i]`
    (witness; not excluded by the code) -/
theorem array_elem_aliases_longer_array_size (ks : List Bytes) (i : Nat) :
    (Path.arrElem ks i).parts = (Path.arrSize (ks ++ [int64ToBytes (i : Int)])).parts := rfl

/-- scoredb's builders produce exactly these pre-keys -/
theorem scoredb_builders (ks : List Bytes) (name : Bytes) (i : Nat) :
    (toKey .hash [[0]]).map (fun kb => kb.append ks) = some (.hash ((Path.arrSize ks).preKey [])) ∧
    (toKey .hash [[0]]).map (fun kb => (kb.append ks).append [int64ToBytes (i : Int)]) =
      some (.hash ((Path.arrElem ks i).preKey [])) ∧
    (toKey .hash [[1], name]).map (fun kb => kb.append ks) = some (.hash ((Path.dictEntry name ks).preKey [])) ∧
    (toKey .hash [[2]]).map (fun kb => kb.append ks) = some (.hash ((Path.var ks).preKey [])) := by
  simp [toKey, KB.append, Path.preKey, Path.parts, appendKeysB_append]

/-! ### hash builders: distinct pre-keys give distinct keys or an explicit collision -/

theorem hash_builder_distinct (H : Bytes → Bytes) (a b : Bytes) (h : (KB.hash a).build H = (KB.hash b).build H) :
    a = b ∨ (a ≠ b ∧ H a = H b) := by
  by_cases he : a = b
  · exact Or.inl he
  · exact Or.inr ⟨he, h⟩

theorem prefixed_hash_builder_distinct (H : Bytes → Bytes) (rp a b : Bytes) (hlen : ∀ x, Small (H x))
    (h : (KB.phash rp a).build H = (KB.phash rp b).build H) : a = b ∨ (a ≠ b ∧ H a = H b) := by
  have h1 := appendKeysB_single_inj rp _ _ (hlen a) (hlen b) h
  by_cases he : a = b
  · exact Or.inl he
  · exact Or.inr ⟨he, h1⟩

example : ∀ x : Bytes, Small ((fun _ => ([] : Bytes)) x) := by intro x; simp [Small, maxInt]

/-! ### exceptions, as explicit collisions -/

/-- `ToBytes` identifies values of different Go types: int 1 / bool true / byte 1 / "\x01" -/
theorem toBytes_collisions :
    toBytes (.int 1) = toBytes (.bool true) ∧ toBytes (.bool true) = toBytes (.byte 1) ∧
    toBytes (.byte 1) = toBytes (.str [1]) ∧ toBytes (.str [1]) = toBytes (.value [1]) ∧
    toBytes (.int 0) = toBytes (.bool false) ∧ toBytes (.bool false) = toBytes (.byte 0) ∧
    toBytes (.int 0x61) = toBytes (.str [0x61]) ∧ toBytes (.int 0x61) = toBytes (.byte 0x61) ∧
    toBytes (.big 1) = toBytes (.int 1) ∧ toBytes (.big 0) = toBytes (.int 0) ∧
    toBytes (.int (-1)) = toBytes (.byte 0xff) ∧
    toBytes (.addr false [0,0,0,0,0,0,0,0,0,0,0,0,0,0,0,0,0,0,0,0]) =
      toBytes (.str [0,0,0,0,0,0,0,0,0,0,0,0,0,0,0,0,0,0,0,0,0]) := by
  decide

/-- within one Go type `ToBytes` is injective (so the collisions above are all cross-type);
    `int`: non-negative values only (array indices, sizes); `*big.Int` is not covered here —
    see `toBytes_injective_within_type` for the full statement. -/
theorem toBytes_injective_within_type_partial :
    (∀ a b : Bool, toBytes (.bool a) = toBytes (.bool b) → a = b) ∧
    (∀ a b : UInt8, toBytes (.byte a) = toBytes (.byte b) → a = b) ∧
    (∀ a b : Bytes, toBytes (.str a) = toBytes (.str b) → a = b) ∧
    (∀ a b : Bytes, toBytes (.value a) = toBytes (.value b) → a = b) ∧
    (∀ (c c' : Bool) (a b : Bytes), toBytes (.addr c a) = toBytes (.addr c' b) → c = c' ∧ a = b) ∧
    (∀ i j : Nat, i < 2 ^ 63 → j < 2 ^ 63 → toBytes (.int i) = toBytes (.int j) → i = j) := by
  refine ⟨?_, ?_, ?_, ?_, ?_, ?_⟩
  · intro a b h; cases a <;> cases b <;> simp [toBytes] at h ⊢
  · intro a b h; simpa [toBytes] using h
  · intro a b h; simpa [toBytes] using h
  · intro a b h; simpa [toBytes] using h
  · intro c c' a b h
    simp only [toBytes, List.cons.injEq] at h
    refine ⟨?_, h.2⟩
    cases c <;> cases c' <;> simp at h ⊢
  · intro i j hi hj h; exact int64ToBytes_inj_nonneg i j hi hj h
-- the full statement (additionally negative `int` values and `*big.Int`) is
-- `toBytes_injective_within_type` below; this weaker form is kept under its old name.

/-- **toBytes_injective_within_type**: within every Go type that `ToBytes` accepts it is
    injective — bool, byte, string/[]byte, Value, Address, `int`/`int16`/`int32`/`int64` on the
    whole int64 range (negative values included) and `*big.Int`/`*HexInt` for every integer.
    The integer cases are the round-trip theorems of C24 (`SafeBytesToInt64 ∘ Int64ToBytes`,
    `BigIntSetBytes ∘ BigIntToBytes`) on the same encoders. -/
theorem toBytes_injective_within_type :
    (∀ a b : Bool, toBytes (.bool a) = toBytes (.bool b) → a = b) ∧
    (∀ a b : UInt8, toBytes (.byte a) = toBytes (.byte b) → a = b) ∧
    (∀ a b : Bytes, toBytes (.str a) = toBytes (.str b) → a = b) ∧
    (∀ a b : Bytes, toBytes (.value a) = toBytes (.value b) → a = b) ∧
    (∀ (c c' : Bool) (a b : Bytes), toBytes (.addr c a) = toBytes (.addr c' b) → c = c' ∧ a = b) ∧
    (∀ i j : Int, -(2:Int)^63 ≤ i ∧ i < (2:Int)^63 → -(2:Int)^63 ≤ j ∧ j < (2:Int)^63 →
      toBytes (.int i) = toBytes (.int j) → i = j) ∧
    (∀ i j : Int, toBytes (.big i) = toBytes (.big j) → i = j) := by
  obtain ⟨h1, h2, h3, h4, h5, _⟩ := toBytes_injective_within_type_partial
  exact ⟨h1, h2, h3, h4, h5, fun i j hi hj h => int64ToBytes_inj i j hi hj h,
    fun i j h => bigIntToBytes_inj i j h⟩

/-- non-vacuity: negative int64 values (incl. the most negative one) satisfy the range
    hypothesis and have distinct, non-trivial codings; so do big integers beyond int64 -/
example : (-(2:Int)^63 ≤ -(2:Int)^63 ∧ -(2:Int)^63 < (2:Int)^63) ∧ (-(2:Int)^63 ≤ -129 ∧ (-129:Int) < (2:Int)^63) ∧
    toBytes (.int (-(2:Int)^63)) = [0x80, 0, 0, 0, 0, 0, 0, 0] ∧ toBytes (.int (-129)) = [0xff, 0x7f] ∧
    toBytes (.int (-128)) = [0x80] ∧ toBytes (.int 128) = [0, 0x80] ∧
    toBytes (.big (-(2:Int)^64)) = [0xff, 0, 0, 0, 0, 0, 0, 0, 0] ∧
    toBytes (.big ((2:Int)^63)) = [0, 0x80, 0, 0, 0, 0, 0, 0, 0] := by decide

/-- an `int` and a `*big.Int` of the same int64 value have the same `ToBytes` (the cross-type
    collision `big n / int n` of `toBytes_collisions`, for every n) -/
theorem toBytes_int_eq_big (v : Int) (h : -(2:Int)^63 ≤ v ∧ v < (2:Int)^63) :
    toBytes (.int v) = toBytes (.big v) := int64ToBytes_eq_bigIntToBytes v h

example : (-(2:Int)^63 ≤ -300 ∧ (-300:Int) < (2:Int)^63) ∧ toBytes (.int (-300)) = [0xfe, 0xd4] ∧
    toBytes (.big (-300)) = [0xfe, 0xd4] := by decide

/-- the raw builder does not delimit parts: distinct part lists, same key (witness) -/
theorem raw_builder_collides :
    ([[1], [2, 3]] : List Bytes) ≠ [[1, 2], [3]] ∧
    (toKey .raw [[1], [2, 3]]).map (KB.build id) = (toKey .raw [[1, 2], [3]]).map (KB.build id) := by
  decide

/-- different `NewHashKey` prefixes are not separated: prefix "a" + no part = no prefix + part "a" -/
theorem cross_prefix_collides :
    (newHashKey [0x61] []) = (newHashKey [] [[0x61]]) := by decide

/-! ### ArrayDB behaves like an array -/

/-- **arraydb_refines_list**: for every history of Put / Pop / Set on an array whose keys do
    not collide, starting from a store that holds the list `l`: the results (ok / error /
    popped value; never a panic) are those of the same operations on a plain list, the store
    holds the resulting list, and no key outside the array changes. -/
theorem arraydb_refines_list (H : Bytes → Bytes) (kb : KB) (ops : List ArrOp) (s : Store) (l : List Bytes)
    (hk : ArrKeysOk H kb) (hr : ArrRep H kb s l) (hb : l.length + ops.length < 2 ^ 63) :
    (arrRun H kb s ops).2 = (listRun l ops).2 ∧
    ArrRep H kb (arrRun H kb s ops).1 (listRun l ops).1 ∧
    ∀ k, ArrForeign H kb k → sget (arrRun H kb s ops).1 k = sget s k :=
  arr_run H kb ops s l hk hr hb

/-- an empty store holds the empty array -/
theorem arrRep_empty (H : Bytes → Bytes) (kb : KB) : ArrRep H kb [] [] := by
  constructor
  · simp [arrSize, sget, safeBytesToInt64]
  · intro i hi; simp at hi

/-- `ArrRep` gives `Size()` and `Get(i)` -/
theorem arraydb_observe (H : Bytes → Bytes) (kb : KB) (s : Store) (l : List Bytes) (hr : ArrRep H kb s l) :
    arrSize H s kb = some (l.length : Int) ∧ ∀ i : Nat, i < l.length → arrGet H s kb (i : Int) = l[i]? := hr

/-- the key hypothesis holds for the RLP and raw builders outright, and for the hash
    builders unless `H` collides on the array's own pre-keys -/
theorem arrKeysOk_builders (H : Bytes → Bytes) :
    (∀ b, ArrKeysOk H (.rlp b)) ∧ (∀ b, ArrKeysOk H (.raw b)) ∧
    (∀ pre, HInjOn H (ArrPre pre) → ArrKeysOk H (.hash pre)) ∧
    (∀ rp hp, HInjOn H (ArrPre hp) → (∀ x, Small (H x)) → ArrKeysOk H (.phash rp hp)) :=
  ⟨arrKeysOk_rlp H, arrKeysOk_raw H, arrKeysOk_hash H, fun rp hp h1 h2 => arrKeysOk_phash H rp hp h1 h2⟩

example : HInjOn id (ArrPre [1, 2]) := fun _ _ _ _ h => h

/-! ### DictDB behaves like a map -/

/-- **dictdb_refines_map**: for every history of Set / Delete with well-formed key tuples
    (as many keys as the depth) on a dictionary whose entry keys do not collide, `Get` of any
    well-formed tuple equals the lookup in the plain map updated by the same history. -/
theorem dictdb_refines_map (H : Bytes → Bytes) (d : Dict) (P : List Bytes → Prop) (ops : List DictOp)
    (s : Store) (hk : DictKeysOk H d P) (hok : ∀ o ∈ ops, DictOpOk d P o)
    (ks : List Bytes) (h2 : P ks) (hl : (ks.length : Int) = d.depth) :
    dictGet H (ops.foldl (dictStep H d) s) d ks = (ops.foldl mapStep (fun k => dictGet H s d k)) ks :=
  dict_run H d P ops s hk hok ks h2 hl

/-- a wrong number of keys is refused and changes nothing -/
theorem dict_wrong_depth (H : Bytes → Bytes) (d : Dict) (s : Store) (ks : List Bytes) (v : Bytes)
    (h : (ks.length : Int) ≠ d.depth) :
    dictGet H s d ks = none ∧ dictSet H s d ks v = (s, false) ∧ dictDel H s d ks = (s, false) := by
  have h' : (ks.length : Int) + 1 ≠ d.depth + 1 := by omega
  simp [dictGet, dictSet, dictDel, h, h']

/-- `GetDB(k1..).Get(k2..)` is `Get(k1.., k2..)` -/
theorem dict_getdb (H : Bytes → Bytes) (s : Store) (d d2 : Dict) (ks1 ks2 : List Bytes)
    (h : dictGetDB d ks1 = some d2) :
    dictGet H s d2 ks2 = dictGet H s d (ks1 ++ ks2) := by
  unfold dictGetDB at h
  split at h
  · simp at h
  · simp only [Option.some.injEq] at h
    subst h
    simp only [dictGet, kb_append_append, List.length_append, Int.natCast_add]
    by_cases hl : (ks2.length : Int) = d.depth - ks1.length
    · have h3 : (ks1.length : Int) + ks2.length = d.depth := by omega
      rw [if_neg (fun hn => hn hl), if_neg (fun hn => hn h3)]
    · have h3 : (ks1.length : Int) + ks2.length ≠ d.depth := by omega
      rw [if_pos hl, if_pos h3]

/-- the entry-key hypothesis: outright for the RLP builder, for the hash builder unless `H`
    collides on the dictionary's own pre-keys -/
theorem dictKeysOk_builders (H : Bytes → Bytes) (depth : Int) :
    (∀ b, DictKeysOk H ⟨.rlp b, depth⟩ AllSmall) ∧
    (∀ pre, HInjOn H (fun x => ∃ ks, AllSmall ks ∧ x = appendKeysB pre ks) →
      DictKeysOk H ⟨.hash pre, depth⟩ AllSmall) :=
  ⟨fun b => dictKeysOk_rlp H b depth, fun pre h => dictKeysOk_hash H pre depth h⟩

end Goloop.C21
