/-
  Props/C29 — "BTP proofs require more than two thirds of distinct validator
  signatures, each at its own index".  `rec` is signature recovery for the decision
  hash under verification (a parameter: any function), `vals` the validator
  addresses of the proof context (`[]` = validator without key), `sigs` the
  signature vector of the proof (`none` = empty slot).
-/
import Goloop.Proofs.C29
namespace Goloop.C29
open Goloop.C29.Proofs

variable {σ : Type}

/-- `Verify` accepts iff every present signature at index `i` recovers to validator `i`
    and the number of present signatures `k` satisfies `3·k > 2·n`. -/
theorem btp_verify_iff (rec : σ → Option Bytes) (vals : List Bytes) (sigs : List (Option σ)) :
    verify rec vals sigs = none ↔
      (∀ (i : Nat) (s : σ), sigs[i]? = some (some s) → ∃ a, rec s = some a ∧ vals[i]? = some a) ∧
      3 * present sigs > 2 * vals.length :=
  verify_iff rec vals sigs

/-- the Go threshold test `valid <= 2*len(Validators)/3` (integer division) is exactly
    the negation of `3·valid > 2·n`. -/
theorem threshold_exact (valid n : Nat) : (valid ≤ 2 * n / 3) ↔ ¬ (3 * valid > 2 * n) := by omega

/-- a signature whose signer is not the validator registered at the slot it sits in
    (wrong index, foreign key, signature over another decision — anything that makes
    recovery yield another address) rejects the whole proof. -/
theorem wrong_signer_rejected (rec : σ → Option Bytes) (vals : List Bytes) (sigs : List (Option σ))
    (i : Nat) (s : σ) (a : Bytes) (hs : sigs[i]? = some (some s)) (hr : rec s = some a)
    (hne : vals[i]? ≠ some a) : verify rec vals sigs ≠ none := by
  intro h
  obtain ⟨b, hb, hv⟩ := ((btp_verify_iff rec vals sigs).mp h).1 i s hs
  rw [hr] at hb; cases hb; exact hne hv

example : verify (fun (s : Nat) => some [s.toUInt8]) [[1], [2], [3]] [some 1, some 3, some 2] ≠ none := by
  decide

/-- an unrecoverable (forged / malformed) signature rejects the whole proof. -/
theorem unrecoverable_rejected (rec : σ → Option Bytes) (vals : List Bytes) (sigs : List (Option σ))
    (i : Nat) (s : σ) (hs : sigs[i]? = some (some s)) (hr : rec s = none) :
    verify rec vals sigs ≠ none := by
  intro h
  obtain ⟨b, hb, _⟩ := ((btp_verify_iff rec vals sigs).mp h).1 i s hs
  rw [hr] at hb; cases hb

example : verify (fun (s : Nat) => if s = 0 then none else some [s.toUInt8]) [[1], [2], [3]]
    [some 1, some 2, some 0] ≠ none := by decide

/-- a signature in a slot beyond the validator list rejects the whole proof. -/
theorem out_of_range_rejected (rec : σ → Option Bytes) (vals : List Bytes) (sigs : List (Option σ))
    (i : Nat) (s : σ) (hs : sigs[i]? = some (some s)) (hi : vals.length ≤ i) :
    verify rec vals sigs ≠ none := by
  intro h
  obtain ⟨b, _, hv⟩ := ((btp_verify_iff rec vals sigs).mp h).1 i s hs
  have := (List.getElem?_eq_some_iff.mp hv).1
  omega

example : verify (fun (s : Nat) => some [s.toUInt8]) [[1]] [some 1, some 2] ≠ none := by decide

/-- a validator without key (nil address) can never contribute: any signature in its slot
    rejects the proof, provided recovery never yields the empty address. -/
theorem keyless_slot_rejected (rec : σ → Option Bytes) (vals : List Bytes) (sigs : List (Option σ))
    (hrec : ∀ s, rec s ≠ some [])
    (i : Nat) (s : σ) (hs : sigs[i]? = some (some s)) (hv : vals[i]? = some []) :
    verify rec vals sigs ≠ none := by
  intro h
  obtain ⟨b, hb, hv'⟩ := ((btp_verify_iff rec vals sigs).mp h).1 i s hs
  rw [hv] at hv'; cases hv'; exact hrec s hb

example : verify (fun (s : Nat) => some [s.toUInt8]) [[1], []] [some 1, some 2] ≠ none := by decide

/-- not more than two thirds ⇒ rejected, whatever the signatures are. -/
theorem insufficient_rejected (rec : σ → Option Bytes) (vals : List Bytes) (sigs : List (Option σ))
    (h : 3 * present sigs ≤ 2 * vals.length) : verify rec vals sigs ≠ none := by
  intro hv
  have := ((btp_verify_iff rec vals sigs).mp hv).2
  omega

example : verify (fun (s : Nat) => some [s.toUInt8]) [[1], [2], [3]] [some 1, some 2, none] ≠ none := by
  decide
example : verify (fun (s : Nat) => some [s.toUInt8]) [[1], [2], [3]] [some 1, some 2, some 3] = none := by
  decide
example : verify (fun (s : Nat) => some [s.toUInt8]) [[1], [2], [3], [4]] [some 1, none, some 3, some 4] = none := by
  decide

/-- **distinctness**: in an accepted proof the signers are exactly the validators at the
    occupied slots, every one of them is the recovered signer of the signature in its slot,
    and there are more than 2n/3 of them; when the validator list has no repeated address the
    signers are pairwise distinct (`Nodup`). -/
theorem accepted_signers (rec : σ → Option Bytes) (vals : List Bytes) (sigs : List (Option σ))
    (h : verify rec vals sigs = none) :
    (signers vals sigs).length = present sigs ∧
    3 * (signers vals sigs).length > 2 * vals.length ∧
    (vals.Nodup → (signers vals sigs).Nodup) := by
  obtain ⟨hg, ht⟩ := (btp_verify_iff rec vals sigs).mp h
  have hlen : (signers vals sigs).length = present sigs :=
    Proofs.signers_length vals sigs (fun i s hs => by
      obtain ⟨a, _, hv⟩ := hg i s hs
      exact (List.getElem?_eq_some_iff.mp hv).1)
  refine ⟨hlen, by omega, ?_⟩
  intro hnd
  exact Proofs.signers_nodup vals sigs hnd

example : verify (fun (s : Nat) => some [s.toUInt8]) [[1], [2], [3]] [some 1, some 2, some 3] = none ∧
    ([[1], [2], [3]] : List Bytes).Nodup := by decide

end Goloop.C29
