/-
  Props/C29 — "BTP proofs require more than two thirds of distinct validator
  signatures, each at its own index".  `rec` is signature recovery for the decision
  hash under verification (a parameter: any function), `vals` the validator
  addresses of the proof context (`[]` = validator without key), `sigs` the
  signature vector of the proof (`none` = empty slot).
-/
import Goloop.Proofs.C29
namespace Goloop.C29
open Goloop.C29.Proofs

variable {σ : Type}

/-- `Verify` accepts iff every present signature at index `i` recovers to validator `i`
    and the number of present signatures `k` satisfies `3·k > 2·n`. -/
theorem btp_verify_iff (rec : σ → Option Bytes) (vals : List Bytes) (sigs : List (Option σ)) :
    verify rec vals sigs = none ↔
      (∀ (i : Nat) (s : σ), sigs[i]? = some (some s) → ∃ a, rec s = some a ∧ vals[i]? = some a) ∧
      3 * present sigs > 2 * vals.length :=
  verify_iff rec vals sigs

/-- the Go threshold test `valid <= 2*len(Validators)/3` (integer division) is exactly
    the negation of `3·valid > 2·n`. -/
theorem threshold_exact (valid n : Nat) : (valid ≤ 2 * n / 3) ↔ ¬ (3 * valid > 2 * n) := by omega

/-- a signature whose signer is not the validator registered at the slot it sits in
    (wrong index, foreign key, signature over another decision — anything that makes
    recovery yield another address) rejects the whole proof. -/
theorem wrong_signer_rejected (rec : σ → Option Bytes) (vals : List Bytes) (sigs : List (Option σ))
    (i : Nat) (s : σ) (a : Bytes) (hs : sigs[i]? = some (some s)) (hr : rec s = some a)
    (hne : vals[i]? ≠ some a) : verify rec vals sigs ≠ none := by
  intro h
  obtain ⟨b, hb, hv⟩ := ((btp_verify_iff rec vals sigs).mp h).1 i s hs
  rw [hr] at hb; cases hb; exact hne hv

example : verify (fun (s : Nat) => some [s.toUInt8]) [[1], [2], [3]] [some 1, some 3, some 2] ≠ none := by
  decide

/-- an unrecoverable (forged / malformed) signature rejects the whole proof. -/
theorem unrecoverable_rejected (rec : σ → Option Bytes) (vals : List Bytes) (sigs : List (Option σ))
    (i : Nat) (s : σ) (hs : sigs[i]? = some (some s)) (hr : rec s = none) :
    verify rec vals sigs ≠ none := by
  intro h
  obtain ⟨b, hb, _⟩ := ((btp_verify_iff rec vals sigs).mp h).1 i s hs
  rw [hr] at hb; cases hb

example : verify (fun (s : Nat) => if s = 0 then none else some [s.toUInt8]) [[1], [2], [3]]
    [some 1, some 2, some 0] ≠ none := by decide

/-- a signature in a slot beyond the validator list rejects the whole proof. -/
theorem out_of_range_rejected (rec : σ → Option Bytes) (vals : List Bytes) (sigs : List (Option σ))
    (i : Nat) (s : σ) (hs : sigs[i]? = some (some s)) (hi : vals.length ≤ i) :
    verify rec vals sigs ≠ none := by
  intro h
  obtain ⟨b, _, hv⟩ := ((btp_verify_iff rec vals sigs).mp h).1 i s hs
  have := (List.getElem?_eq_some_iff.mp hv).1
  omega

example : verify (fun (s : Nat) => some [s.toUInt8]) [[1]] [some 1, some 2] ≠ none := by decide

/-- a validator without key (nil address) can never contribute: any signature in its slot
    rejects the proof, provided recovery never yields the empty address. -/
theorem keyless_slot_rejected (rec : σ → Option Bytes) (vals : List Bytes) (sigs : List (Option σ))
    (hrec : ∀ s, rec s ≠ some [])
    (i : Nat) (s : σ) (hs : sigs[i]? = some (some s)) (hv : vals[i]? = some []) :
    verify rec vals sigs ≠ none := by
  intro h
  obtain ⟨b, hb, hv'⟩ := ((btp_verify_iff rec vals sigs).mp h).1 i s hs
  rw [hv] at hv'; cases hv'; exact hrec s hb

example : verify (fun (s : Nat) => some [s.toUInt8]) [[1], []] [some 1, some 2] ≠ none := by decide

/-- not more than two thirds ⇒ rejected, whatever the signatures are. -/
theorem insufficient_rejected (rec : σ → Option Bytes) (vals : List Bytes) (sigs : List (Option σ))
    (h : 3 * present sigs ≤ 2 * vals.length) : verify rec vals sigs ≠ none := by
  intro hv
  have := ((btp_verify_iff rec vals sigs).mp hv).2
  omega

example : verify (fun (s : Nat) => some [s.toUInt8]) [[1], [2], [3]] [some 1, some 2, none] ≠ none := by
  decide
example : verify (fun (s : Nat) => some [s.toUInt8]) [[1], [2], [3]] [some 1, some 2, some 3] = none := by
  decide
example : verify (fun (s : Nat) => some [s.toUInt8]) [[1], [2], [3], [4]] [some 1, none, some 3, some 4] = none := by
  decide

/-- **distinctness**: in an accepted proof the signers are exactly the validators at the
    occupied slots, every one of them is the recovered signer of the signature in its slot,
    and there are more than 2n/3 of them; when the validator list has no repeated address the
    signers are pairwise distinct (`Nodup`). -/
theorem accepted_signers (rec : σ → Option Bytes) (vals : List Bytes) (sigs : List (Option σ))
    (h : verify rec vals sigs = none) :
    (signers vals sigs).length = present sigs ∧
    3 * (signers vals sigs).length > 2 * vals.length ∧
    (vals.Nodup → (signers vals sigs).Nodup) := by
  obtain ⟨hg, ht⟩ := (btp_verify_iff rec vals sigs).mp h
  have hlen : (signers vals sigs).length = present sigs :=
    Proofs.signers_length vals sigs (fun i s hs => by
      obtain ⟨a, _, hv⟩ := hg i s hs
      exact (List.getElem?_eq_some_iff.mp hv).1)
  refine ⟨hlen, by omega, ?_⟩
  intro hnd
  exact Proofs.signers_nodup vals sigs hnd

example : verify (fun (s : Nat) => some [s.toUInt8]) [[1], [2], [3]] [some 1, some 2, some 3] = none ∧
    ([[1], [2], [3]] : List Bytes).Nodup := by decide

/-! ### proofContextMap.Verify (btp/proofcontextmap.go)

`pcm ntid` is the map lookup (`none` = no context registered for that network type),
`digests` the `(NetworkTypeID, NetworkTypeSectionHash)` list of the BTP digest, `proofs`
the `NTSDProofList`, `decode` = `NewProofFromBytes`, `rec uid dbytes` = signer recovery for
the module-`uid` hash of the decision bytes `dbytes`. -/

/-- the map accepts iff there is exactly one proof per digest entry whose network type has a
    registered context, and the `k`-th proof is accepted by `Verify` of the context registered
    for the network type of the `k`-th such entry, over the decision built from THAT entry's
    network type id and section hash (and the given source uid, height, round). -/
theorem map_verify_iff (pcm : Int → Option Ctx) (decode : Bytes → Option (List (Option σ)))
    (rec : Nat → Bytes → σ → Option Bytes) (src : Option Bytes) (height round : Int)
    (digests : List (Int × Option Bytes)) (proofs : List Bytes) :
    verifyMap pcm decode rec src height round digests proofs = none ↔
      (registered pcm digests).length = proofs.length ∧
      ∀ (k : Nat) (ntid : Int) (h : Option Bytes), (registered pcm digests)[k]? = some (ntid, h) →
        ∃ ctx sigs, pcm ntid = some ctx ∧ decode (proofs.getD k []) = some sigs ∧
          verify (rec ctx.uid (Decision.bytes
            { src := src, ntid := ntid, height := height, round := round, ntsHash := h }))
            ctx.vals sigs = none :=
  verifyMap_iff pcm decode rec src height round digests proofs

/-- **own context only**: in an accepted vote, the proof for the `k`-th registered network type
    carries, at each occupied slot `i`, a signature that recovers — under the decision of THAT
    network type — to validator `i` of the context registered for THAT network type, from more
    than two thirds of that context's validators.  No other context's validator list is consulted. -/
theorem map_proof_checked_against_own_context (pcm : Int → Option Ctx)
    (decode : Bytes → Option (List (Option σ))) (rec : Nat → Bytes → σ → Option Bytes)
    (src : Option Bytes) (height round : Int) (digests : List (Int × Option Bytes))
    (proofs : List Bytes)
    (hacc : verifyMap pcm decode rec src height round digests proofs = none)
    (k : Nat) (ntid : Int) (h : Option Bytes) (hk : (registered pcm digests)[k]? = some (ntid, h)) :
    ∃ ctx sigs, pcm ntid = some ctx ∧ decode (proofs.getD k []) = some sigs ∧
      (∀ (i : Nat) (s : σ), sigs[i]? = some (some s) →
        ∃ a, rec ctx.uid (Decision.bytes
          { src := src, ntid := ntid, height := height, round := round, ntsHash := h }) s = some a ∧
          ctx.vals[i]? = some a) ∧
      3 * present sigs > 2 * ctx.vals.length := by
  obtain ⟨ctx, sigs, h1, h2, h3⟩ := ((map_verify_iff pcm decode rec src height round digests proofs).mp hacc).2 k ntid h hk
  exact ⟨ctx, sigs, h1, h2, (btp_verify_iff _ _ _).mp h3⟩

/-- a vote carrying a different number of proofs than registered network types in the digest —
    in particular an extra proof for a network type without registered context — is rejected. -/
theorem map_wrong_proof_count_rejected (pcm : Int → Option Ctx)
    (decode : Bytes → Option (List (Option σ))) (rec : Nat → Bytes → σ → Option Bytes)
    (src : Option Bytes) (height round : Int) (digests : List (Int × Option Bytes))
    (proofs : List Bytes) (h : (registered pcm digests).length ≠ proofs.length) :
    verifyMap pcm decode rec src height round digests proofs = some .invalidLen := by
  unfold verifyMap; rw [if_pos h]

/-- a registered network type whose proof is missing quorum, undecodable, or signed for another
    network type's decision (recovery under this type's decision does not give this context's
    validators) rejects the whole vote. -/
theorem map_bad_proof_rejected (pcm : Int → Option Ctx)
    (decode : Bytes → Option (List (Option σ))) (rec : Nat → Bytes → σ → Option Bytes)
    (src : Option Bytes) (height round : Int) (digests : List (Int × Option Bytes))
    (proofs : List Bytes) (k : Nat) (ntid : Int) (h : Option Bytes) (ctx : Ctx)
    (hk : (registered pcm digests)[k]? = some (ntid, h)) (hc : pcm ntid = some ctx)
    (hbad : ∀ sigs, decode (proofs.getD k []) = some sigs →
      verify (rec ctx.uid (Decision.bytes
        { src := src, ntid := ntid, height := height, round := round, ntsHash := h })) ctx.vals sigs ≠ none) :
    verifyMap pcm decode rec src height round digests proofs ≠ none := by
  intro hacc
  obtain ⟨ctx', sigs, h1, h2, h3⟩ := ((map_verify_iff pcm decode rec src height round digests proofs).mp hacc).2 k ntid h hk
  rw [hc] at h1; cases h1
  exact hbad sigs h2 h3

/-- non-vacuity: two network types with different validator sets; proofs in the right order are
    accepted, swapped proofs are rejected. -/
def exPcm : Int → Option Ctx := fun n =>
  if n = 1 then some ⟨0, [[1], [2], [3]]⟩ else if n = 2 then some ⟨1, [[7], [8], [9]]⟩ else none
def exDecode : Bytes → Option (List (Option Nat)) := fun b => some (b.map (fun x => some x.toNat))
def exRec : Nat → Bytes → Nat → Option Bytes := fun _ _ s => some [s.toUInt8]

example : verifyMap exPcm exDecode exRec none 10 0 [(1, none), (5, none), (2, none)] [[1, 2, 3], [7, 8, 9]] = none ∧
    verifyMap exPcm exDecode exRec none 10 0 [(1, none), (5, none), (2, none)] [[7, 8, 9], [1, 2, 3]] ≠ none ∧
    verifyMap exPcm exDecode exRec none 10 0 [(1, none), (5, none), (2, none)] [[1, 2, 3], [1, 2, 3], [7, 8, 9]]
      = some .invalidLen := by decide

/-- decision bytes of a sample decision (matches `NewDecision(...).Bytes()` of the Go code; the
    correspondence run compares the encoder on generated decisions). -/
def exDecision : Decision :=
  { src := some [0x30, 0x78, 0x31], ntid := 2, height := 300, round := 1, ntsHash := none }
example : exDecision.bytes = [0xcb, 0x83, 0x30, 0x78, 0x31, 0x02, 0x82, 0x01, 0x2c, 0x01, 0xf8, 0x00] := by decide

end Goloop.C29
