/-
  Props/C22 — "Transaction and receipt lists preserve order and index".

  The list is a trie keyed by `intToKey idx` (the RLP coding of the index).  The trie
  iterates in ascending order of the key's nibble string (`klt`), so what the code relies
  on is that `intToKey` is strictly monotone from (ℕ, <) into that order — for every index,
  across every key-length boundary (128, 256, 32768, 65536, 2^23, …, up to 2^64).
  Helper lemmas are in Proofs/C22.lean.
-/
import Goloop.Proofs.C22
namespace Goloop.C22
open Goloop.C22.Proofs

/-- `intToKey` is strictly monotone into the trie's iteration order, for all 64-bit indices. -/
theorem intToKey_strict_mono (i j : Nat) (hij : i < j) (hj : j < 2 ^ 64) :
    klt (intToKey i) (intToKey j) = true := intToKey_mono i j hij hj

example : (127 : Nat) < 128 ∧ (128 : Nat) < 2 ^ 64 ∧ intToKey 127 = [0x7f] ∧ intToKey 128 = [0x82, 0x00, 0x80] ∧
    intToKey 32768 = [0x83, 0x00, 0x80, 0x00] := by decide

/-- the iteration order is a strict order (so "ascending" determines the sequence) -/
theorem klt_strict (a b : Bytes) : klt a a = false ∧ (klt a b = true → klt b a = false) :=
  ⟨klt_irrefl a, klt_asymm a b⟩

theorem intToKey_injective (i j : Nat) (hi : i < 2 ^ 64) (hj : j < 2 ^ 64)
    (h : intToKey i = intToKey j) : i = j := Proofs.intToKey_injective i j hi hj h

/-- no key is a proper prefix of another key (no list item sits on an inner trie node) -/
theorem intToKey_prefix_free (i j : Nat) (hi : i < 2 ^ 64) (hj : j < 2 ^ 64)
    (h : intToKey i <+: intToKey j) : i = j := Proofs.intToKey_prefix_free i j hi hj h

/-- decoding an iterator key gives back the index -/
theorem keyToInt_intToKey (v : Nat) (h : v < 2 ^ 64) : keyToInt (intToKey v) = some v :=
  Proofs.keyToInt_intToKey v h

/-- **list_iter_is_identity.** For every list of items (any contents, any length a Go slice
    can have): iterating the list built from the slice yields the items in their original
    order, each with its original index. -/
theorem list_iter_is_identity {α : Type} (l : List α) (h : l.length ≤ 2 ^ 64) :
    iterate (fromSlice l) = l.zipIdx.map (fun p => (p.1, some p.2)) := by
  rw [fromSlice_eq l h]
  exact iterate_entries l 0 (by omega)

/-- the receipt iterator (no index reported): items in original order -/
theorem list_iter_items {α : Type} (l : List α) (h : l.length ≤ 2 ^ 64) :
    iterateItems (fromSlice l) = l := by
  rw [fromSlice_eq l h]; exact iterateItems_entries l 0

/-- **get_i.** `Get(i)` returns item `i` of the slice, and nothing for an index past the end. -/
theorem get_i {α : Type} (l : List α) (h : l.length ≤ 2 ^ 64) (i : Nat) (hi : i < 2 ^ 64) :
    get (fromSlice l) i = l[i]? := by
  unfold get
  rw [fromSlice_eq l h, tget_entries l 0 i (by omega) hi]
  simp

example : iterate (fromSlice ["a", "b", "c"]) = [("a", some 0), ("b", some 1), ("c", some 2)] ∧
    get (fromSlice ["a", "b", "c"]) 1 = some "b" ∧ get (fromSlice ["a", "b", "c"]) 3 = none := by decide

end Goloop.C22
