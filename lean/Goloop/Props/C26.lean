/-
  Props/C26 — "Event log blooms have no false negatives".
  Model: Goloop/Model/C26.lean.  The hash is an arbitrary function `hash : Bytes → Bytes`
  in every theorem (no assumption on it is needed: absence of false negatives does not depend
  on the hash at all, not even on the digest length).
-/
import Goloop.Proofs.C26
namespace Goloop.C26
open Proofs

/-- what a client asks: the bloom holding just this item (`AddAddressOfLog` / `AddIndexedOfLog`
    on a fresh bloom), tested with `Contain`. -/
def query (hash : Bytes → Bytes) (item : Bytes) : Bloom := addItem hash 0 item

/-- merging a list of blooms into an accumulator, in list order (`Merge` calls). -/
def mergeAll (bs : List Bloom) : Bloom := bs.foldl merge 0

/-- `Contain` is exactly the subset test on bit positions (for blooms of any width). -/
theorem contain_is_subset (a b : Bloom) :
    contain a b = true ↔ ∀ i, b.testBit i = true → a.testBit i = true := contain_iff a b

/-- Merge is OR: associative, commutative, idempotent, with the empty bloom as unit. -/
theorem merge_aci (a b c : Bloom) :
    merge (merge a b) c = merge a (merge b c) ∧ merge a b = merge b a ∧ merge a a = a ∧
    merge a 0 = a ∧ merge 0 a = a := by
  refine ⟨Nat.or_assoc a b c, Nat.or_comm a b, Nat.or_self a, Nat.or_zero a, Nat.zero_or a⟩

/-- `AddLog` on any bloom = merging that bloom with the blooms of the log's items (address
    first, then every non-nil indexed value with its position). -/
theorem addLog_is_merge (hash : Bytes → Bytes) (b : Bloom) (addr : Bytes) (log : List (Option Bytes)) :
    addLog hash b addr log = merge b (mergeAll ((itemsOf addr log).map (query hash))) :=
  addLog_eq hash b addr log

/-- every item of a log is reported by the bloom the log was added to, whatever was in it. -/
theorem addLog_contains_items (hash : Bytes → Bytes) (b : Bloom) (addr : Bytes)
    (log : List (Option Bytes)) (item : Bytes) (h : item ∈ itemsOf addr log) :
    contain (addLog hash b addr log) (query hash item) = true := by
  rw [contain_iff, addLog_eq]
  exact sub_or_right _ _ _ (sub_orAll _ _ (List.mem_map_of_mem h))

/-- … and what was in the bloom before stays reported. -/
theorem addLog_monotone (hash : Bytes → Bytes) (b q : Bloom) (addr : Bytes)
    (log : List (Option Bytes)) (h : contain b q = true) :
    contain (addLog hash b addr log) q = true := by
  rw [contain_iff] at h ⊢
  rw [addLog_eq]
  exact sub_or_left _ _ _ h

/-- the items are the address (when the log has at least one entry) and each non-nil indexed
    value at its position. -/
theorem itemsOf_spec (addr : Bytes) (log : List (Option Bytes)) :
    (log ≠ [] → addrItem addr ∈ itemsOf addr log) ∧
    (∀ i v, log[i]? = some (some v) → indexedItem i v ∈ itemsOf addr log) := by
  constructor
  · intro h
    cases log with
    | nil => exact absurd rfl h
    | cons a t => simp [itemsOf]
  · intro i v h
    have key : ∀ (l : List (Option Bytes)) (k j : Nat), l[j]? = some (some v) →
        indexedItem (k + j) v ∈ indexedItems k l := by
      intro l
      induction l with
      | nil => intro k j hj; simp at hj
      | cons a t ih =>
        intro k j hj
        cases j with
        | zero =>
          simp only [List.getElem?_cons_zero, Option.some.injEq] at hj
          subst hj; simp [indexedItems]
        | succ j =>
          simp only [List.getElem?_cons_succ] at hj
          have := ih (k + 1) j hj
          have e : k + 1 + j = k + (j + 1) := by omega
          rw [e] at this
          cases a with
          | none => simpa [indexedItems] using this
          | some w => simp only [indexedItems, List.mem_cons]; exact Or.inr this
    cases log with
    | nil => simp at h
    | cons a t =>
      have := key (a :: t) 0 i h
      simp only [Nat.zero_add] at this
      simp only [itemsOf, List.isEmpty_cons, Bool.false_eq_true, if_false, List.mem_cons]
      exact Or.inr this

/-- Main theorem. Take any logs, the bloom of each (`AddLog` on a fresh bloom), and merge ANY
    list `bs` of blooms in which those blooms occur — in any order, any number of times, with
    any other blooms in between.  Then for every one of the logs the merged bloom reports the
    emitting address and every indexed value at its position. -/
theorem merged_contains_each (hash : Bytes → Bytes) (logs : List (Bytes × List (Option Bytes)))
    (bs : List Bloom) (hbs : ∀ l ∈ logs, addLog hash 0 l.1 l.2 ∈ bs) :
    ∀ l ∈ logs, ∀ item ∈ itemsOf l.1 l.2, contain (mergeAll bs) (query hash item) = true := by
  intro l hl item hitem
  rw [contain_iff]
  have h1 : Sub (query hash item) (addLog hash 0 l.1 l.2) := by
    rw [← contain_iff]; exact addLog_contains_items hash 0 l.1 l.2 item hitem
  exact sub_trans h1 (sub_orAll bs _ (hbs l hl))

example : ∀ l ∈ [(([1, 2] : Bytes), [some ([7] : Bytes), none])],
    addLog (fun x => x) 0 l.1 l.2 ∈ [addLog (fun x => x) 0 [1, 2] [some [7], none]] := by simp

/-- the result of merging does not depend on the order (any permutation). -/
theorem mergeAll_perm (a b : List Bloom) (h : a.Perm b) : mergeAll a = mergeAll b := by
  apply Nat.eq_of_testBit_eq
  intro i
  show (orAll a).testBit i = (orAll b).testBit i
  rw [testBit_orAll, testBit_orAll]
  induction h with
  | nil => rfl
  | cons x _ ih => simp [ih]
  | swap x y l => simp only [List.any_cons]; cases x.testBit i <;> cases y.testBit i <;> rfl
  | trans _ _ ih1 ih2 => rw [ih1, ih2]

/-- nor on the tree shape: merging per-receipt blooms and then those into a block bloom is the
    same as merging everything at once. -/
theorem mergeAll_flatten (groups : List (List Bloom)) :
    mergeAll (groups.map mergeAll) = mergeAll groups.flatten := by
  show orAll (groups.map orAll) = orAll groups.flatten
  induction groups with
  | nil => rfl
  | cons g gs ih => simp [orAll_cons, orAll_append, ih]

/-- merging never loses anything: whatever either operand reports, the merge reports. -/
theorem merge_monotone (a b q : Bloom) (h : contain a q = true ∨ contain b q = true) :
    contain (merge a b) q = true := by
  rw [contain_iff]
  rcases h with h | h
  · exact sub_or_left _ _ _ ((contain_iff _ _).mp h)
  · exact sub_or_right _ _ _ ((contain_iff _ _).mp h)

/-- `Bytes`/`SetBytes` normalisation and compression preserve the bloom exactly, hence every
    `Contain` answer, for blooms of any width (uses C25.lzw_roundtrip). -/
theorem compress_preserves (b : Bloom) : fromCompressed (compressedBytes b) = b := by
  simp only [fromCompressed, compressedBytes, C25.Proofs.roundtrip, beNat_natBytes]

theorem compress_preserves_contain (b q : Bloom) :
    contain (fromCompressed (compressedBytes b)) q = contain b q := by
  rw [compress_preserves]

/-- the empty bloom has the empty compressed form. -/
theorem compressed_zero : compressedBytes 0 = [] := by
  simp [compressedBytes, natBytes, C25.Proofs.compress_eq_bits, C25.encCodes, C25.Proofs.bitsOf_nil,
    C25.Proofs.bytesOfBits_nil]

end Goloop.C26
