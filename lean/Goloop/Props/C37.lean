/-
  Props/C37 — "Proposed transactions are valid for the block being proposed".
-/
import Goloop.Proofs.C37
namespace Goloop.C37
open Goloop.C37.Proofs

/-- Every candidate list re-validates as a block from the same state: for any pool content
    (any order, timestamps, balances, duplicates of ids already included), any limits and any
    world state, the transactions returned by `Candidate`
    * pass `validateTxs` from the state Candidate started in (each inside the window
      (bts − th, bts + th], each passing PreValidate with the cumulative balance effect of the
      ones before it),
    * are accepted by the tx-id logger (`idsFresh`: no id twice, none included before) provided
      the pool holds no id twice (transactionList.Add refuses duplicates — `poolOf_nodup`),
    * and are a sublist of the pool.
    `has` is the "already included" test, the same for proposer and validator when the proposal
    builds on the finalized block (C11: manager.Has). -/
theorem candidates_revalidate (e : Env) (has : Nat → Int → Bool) (maxBytes maxCount : Int)
    (pool : List Tx) (b : Bal) :
    let sel := (candidate e has maxBytes maxCount pool b).1
    (validateTxs e sel b).isSome = true ∧
    (∀ tx ∈ sel, inWindow e tx = true ∧ has tx.id tx.ts = false) ∧
    sel.Sublist pool ∧
    ((pool.map (·.id)).Nodup → idsFresh has sel [] = true) := by
  intro sel
  have key : (validateTxs e sel b).isSome = true ∧
      (∀ tx ∈ sel, inWindow e tx = true ∧ has tx.id tx.ts = false) ∧ sel.Sublist pool := by
    show (validateTxs e (candidate e has maxBytes maxCount pool b).1 b).isSome = true ∧
      (∀ tx ∈ (candidate e has maxBytes maxCount pool b).1, inWindow e tx = true ∧ has tx.id tx.ts = false) ∧
      (candidate e has maxBytes maxCount pool b).1.Sublist pool
    unfold candidate
    by_cases h0 : pool.length = 0
    · simp [h0, validateTxs]
    · simp only [h0, if_false]
      obtain ⟨s, h1, h2, h3, h4⟩ := candLoop_spec e has
        (if maxBytes ≤ 0 then defaultMaxBytes else maxBytes.toNat)
        (if maxCount ≤ 0 then defaultMaxCount else maxCount.toNat) pool b [] 0
      rw [h1]; simp only [List.nil_append]
      exact ⟨h2, h3, h4⟩
  refine ⟨key.1, key.2.1, key.2.2, ?_⟩
  intro hnd
  have hnd' : (sel.map (·.id)).Nodup := (key.2.2.map _).nodup hnd
  exact idsFresh_of has sel [] (fun tx h => (key.2.1 tx h).2) hnd' (by simp)

/-- the pool never holds an id twice, whatever is offered to it in whatever order -/
theorem poolOf_nodup (txs : List Tx) : ((poolOf txs []).map (·.id)).Nodup :=
  Proofs.poolOf_nodup txs [] (by simp)

/-- hence: for every sequence of transactions offered to the pool, the candidates pass the
    tx-id logger as well -/
theorem candidates_fresh (e : Env) (has : Nat → Int → Bool) (maxBytes maxCount : Int)
    (offered : List Tx) (b : Bal) :
    idsFresh has (candidate e has maxBytes maxCount (poolOf offered []) b).1 [] = true :=
  (candidates_revalidate e has maxBytes maxCount (poolOf offered []) b).2.2.2 (poolOf_nodup offered)

/-- the window test of `inWindow` is the window of C11 -/
theorem inWindow_iff (e : Env) (tx : Tx) :
    inWindow e tx = true ↔ (e.bts - e.th < tx.ts ∧ tx.ts ≤ e.bts + e.th) := by
  unfold inWindow Goloop.C11.windowCheck Goloop.C11.checkTxTimestamp
  by_cases h1 : tx.ts ≤ e.bts - e.th
  · simp [h1]; try omega
  · by_cases h2 : tx.ts > e.bts + e.th
    · simp [h1, h2]; try omega
    · simp [h1, h2]; try omega

/-- PreValidate succeeds exactly when the step limit covers the minimum and the sender's
    balance covers fee + value; it then debits / credits exactly that -/
theorem preValidate_some_iff (e : Env) (b : Bal) (tx : Tx) :
    (preValidate e b tx).isSome = true ↔
      (e.minStep ≤ tx.stepLimit ∧ tx.stepLimit * e.price + tx.value ≤ balOf b tx.from_) := by
  unfold preValidate
  by_cases h1 : tx.stepLimit < e.minStep
  · simp [h1]; try omega
  · by_cases h2 : balOf b tx.from_ < tx.stepLimit * e.price + tx.value
    · simp [h1, h2]; try omega
    · simp [h1, h2]; try omega

/-- non-vacuity / exhaustion example: three transfers of 60 from an account holding 150 at
    price 0: the pool yields the first two, the third fails the cumulative check -/
example :
    let e : Env := ⟨1000, 10, 0, 0⟩
    let pool : List Tx := [⟨1, 1000, 0, 1, 60, 0, 100⟩, ⟨2, 1010, 0, 1, 60, 0, 100⟩, ⟨3, 995, 0, 1, 60, 0, 100⟩]
    ((candidate e (fun _ _ => false) 0 0 pool [(0, 150)]).1.map (·.id) = [1, 2]) ∧
    (validateTxs e pool [(0, 150)]).isSome = false := by decide

end Goloop.C37
