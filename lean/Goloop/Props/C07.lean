/-
  Props/C07 — "Imported blocks extend their parent with consistent height, link and time".
  Property theorems only; helper lemmas are in Proofs/C07.lean.

  Model: Model/C07.lean (`importBlock` = the synchronous guards of `manager._import` /
  `verifyNewBlock` / `blockV2.VerifyTimestamp`, `median` = `blockCommitVoteList.Timestamp`).
  The commit certificate check is the parameter `certOk` (property C05).
-/
import Goloop.Proofs.C07
namespace Goloop.C07

/-! ## the median of the commit vote timestamps -/

/-- `Timestamp()` does not depend on the order of the votes (for every list, overflowing or not). -/
theorem median_perm {l l' : List Int} (h : l.Perm l') : median l = median l' := Proofs.median_perm h

/-- Exact formula, independent of the sorting algorithm: for every non-empty list of timestamps
    in (-2^62, 2^62) and *every* ascending arrangement `s` of it, the result is the middle element
    of `s` for odd length and the mean, truncated toward zero, of the two middle ones for even length. -/
theorem median_spec (ts : List Int) (hne : ts ≠ [])
    (hb : ∀ t ∈ ts, -(2 ^ 62 : Int) ≤ t ∧ t < 2 ^ 62)
    (s : List Int) (hperm : s.Perm ts) (hsorted : s.Pairwise (fun a b => a ≤ b)) :
    median ts =
      if ts.length % 2 = 1 then s.getD (ts.length / 2) 0
      else (s.getD (ts.length / 2 - 1) 0 + s.getD (ts.length / 2) 0).tdiv 2 := by
  rw [Proofs.sortTs_unique hperm hsorted]
  exact Proofs.median_formula ts hne hb

example : ([5, 1, 9] : List Int) ≠ [] ∧ (∀ t ∈ ([5, 1, 9] : List Int), -(2 ^ 62 : Int) ≤ t ∧ t < 2 ^ 62) ∧
    ([1, 5, 9] : List Int).Perm [5, 1, 9] ∧ ([1, 5, 9] : List Int).Pairwise (fun a b => a ≤ b) := by decide

/-- tests of the formula on literals: odd count, even count with a negative sum (truncation
    toward zero, not floor), even count with an odd positive sum -/
example : median [5, 1, 9] = 5 ∧ median [-3, 0] = -1 ∧ median [4, 7] = 5 := by
  refine ⟨?_, ?_, ?_⟩
  · rw [median_perm (l' := [1, 5, 9]) (by decide), Proofs.median_of_sorted (by decide)]; decide
  · rw [Proofs.median_of_sorted (by decide)]; decide
  · rw [Proofs.median_of_sorted (by decide)]; decide

/-- The median lies between any bounds of the timestamps, in particular within [min, max]. -/
theorem median_between (ts : List Int) (hne : ts ≠ [])
    (hb : ∀ t ∈ ts, -(2 ^ 62 : Int) ≤ t ∧ t < 2 ^ 62)
    (lo hi : Int) (h : ∀ t ∈ ts, lo ≤ t ∧ t ≤ hi) : lo ≤ median ts ∧ median ts ≤ hi :=
  Proofs.median_between ts hne hb lo hi h

/-- For an odd number of votes the median is one of the vote timestamps (no range condition needed). -/
theorem median_mem_of_odd (ts : List Int) (hodd : ts.length % 2 = 1) : median ts ∈ ts := by
  have hlen : ts.length ≠ 0 := by omega
  unfold median
  simp only [hlen, if_false, hodd, if_true]
  exact Proofs.sorted_getD_mem ts (by omega)

/-- Without the range condition the int64 sum wraps and the result can leave [min,max]:
    documented behaviour of the transcribed code outside the property's domain. -/
theorem median_overflow_witness :
    median [2 ^ 62, 2 ^ 62] = -(2 ^ 62 : Int) := by
  rw [Proofs.median_of_sorted (by decide)]; decide

/-- The empty vote list (blocks at height 1) has timestamp 0. -/
theorem median_nil : median [] = 0 := rfl

/-! ## the import guards -/

variable {ι : Type} [DecidableEq ι]

/-- int64 heights of the blocks in `nmap` (so that `prev.Height()+1` does not wrap) -/
def HeightsOk (nmap : List (Blk ι)) : Prop :=
  ∀ p ∈ nmap, -(2 ^ 63 : Int) ≤ p.height ∧ p.height < 2 ^ 63 - 1

/-- A block is accepted by import **iff** its `PrevID` names a block `p` of `nmap`, its version is
    the one `p`'s state requires, its height is `p`'s plus one, the certificate check passes, and
    (height ≤ 1, or its timestamp equals the median of its commit vote timestamps and is strictly
    greater than `p`'s). -/
theorem import_accept_iff (certOk : Blk ι → Cand ι → Bool) (nmap : List (Blk ι)) (b : Cand ι)
    (hh : HeightsOk nmap) :
    importBlock certOk nmap b = .accept ↔
      ∃ p, lookup nmap b.prevID = some p ∧ p ∈ nmap ∧
        b.version = p.nextVersion ∧ b.height = p.height + 1 ∧ b.prevID = p.id ∧ certOk p b = true ∧
        (b.height ≤ 1 ∨ (b.ts = median b.votes ∧ p.ts < b.ts)) := by
  unfold importBlock
  cases hl : lookup nmap b.prevID with
  | none => simp
  | some p =>
    have hm := (Proofs.lookup_some hl).1
    simp only [Option.some.injEq, exists_eq_left']
    rw [Proofs.verifyNewBlock_accept_iff certOk b p (hh p hm)]
    constructor
    · intro h; exact ⟨hm, h⟩
    · intro h; exact h.2

example : HeightsOk [({ id := 7, height := 3, ts := 10, nextVersion := 2 } : Blk Nat)] ∧
    importBlock (fun _ _ => true) [({ id := 7, height := 3, ts := 10, nextVersion := 2 } : Blk Nat)]
      { version := 2, height := 4, prevID := 7, ts := 12, votes := [11, 12, 14] } = .accept := by
  constructor
  · intro p hp; simp at hp; subst hp; decide
  · have hm : median [11, 12, 14] = 12 := by rw [Proofs.median_of_sorted (by decide)]; decide
    simp [importBlock, lookup, verifyNewBlock, verifyTimestamp, hm, wrap64]

/-- Only-if direction in the words of the property: an accepted block has its parent's height plus
    one, names its parent's id, has the version the parent's state requires, carries a valid
    certificate and, above height 1, has the median timestamp which exceeds the parent's. -/
theorem accepted_extends_parent (certOk : Blk ι → Cand ι → Bool) (nmap : List (Blk ι)) (b : Cand ι)
    (hh : HeightsOk nmap) (hacc : importBlock certOk nmap b = .accept) :
    ∃ p ∈ nmap, b.prevID = p.id ∧ b.height = p.height + 1 ∧ b.version = p.nextVersion ∧
      certOk p b = true ∧ (1 < b.height → b.ts = median b.votes ∧ p.ts < b.ts) := by
  obtain ⟨p, _, hm, hv, hhe, hid, hc, ht⟩ := (import_accept_iff certOk nmap b hh).mp hacc
  refine ⟨p, hm, hid, hhe, hv, hc, ?_⟩
  intro h1
  rcases ht with h | h
  · omega
  · exact h

/-- Deviation (single or multiple): if `b` is accepted and `b'` carries the same votes but differs
    from `b` in its version, its height, its previous id, or (above height 1) its timestamp, then
    `b'` is rejected. `hbind` is what the certificate check provides (C05): a vote list certifies
    one block id only. -/
theorem deviation_rejected (certOk : Blk ι → Cand ι → Bool) (nmap : List (Blk ι)) (b b' : Cand ι)
    (hh : HeightsOk nmap) (hacc : importBlock certOk nmap b = .accept)
    (hvotes : b'.votes = b.votes)
    (hbind : ∀ p p' : Blk ι, certOk p b = true → certOk p' b' = true → p'.id = p.id)
    (hdev : b'.version ≠ b.version ∨ b'.height ≠ b.height ∨ b'.prevID ≠ b.prevID ∨
      (b'.ts ≠ b.ts ∧ 1 < b'.height)) :
    importBlock certOk nmap b' ≠ .accept := by
  intro hacc'
  obtain ⟨p, hl, _, hv, hhe, hid, hc, ht⟩ := (import_accept_iff certOk nmap b hh).mp hacc
  obtain ⟨p', hl', _, hv', hhe', hid', hc', ht'⟩ := (import_accept_iff certOk nmap b' hh).mp hacc'
  have hpid : p'.id = p.id := hbind p p' hc hc'
  have hprev : b'.prevID = b.prevID := by rw [hid', hid, hpid]
  have hpp : p' = p := by
    rw [hprev, hl] at hl'
    exact (Option.some.inj hl').symm
  subst hpp
  rcases hdev with h | h | h | ⟨h, h1⟩
  · exact h (by rw [hv', hv])
  · exact h (by rw [hhe', hhe])
  · exact h hprev
  · have hb1 : 1 < b.height := by omega
    rcases ht with ht | ht
    · omega
    · rcases ht' with ht' | ht'
      · omega
      · exact h (by rw [ht'.1, ht.1, hvotes])

/-- "Any single-field deviation in a candidate block causes import to fail": the four header fields
    the property names, one at a time, everything else unchanged. -/
theorem single_field_deviation_rejected (certOk : Blk ι → Cand ι → Bool) (nmap : List (Blk ι))
    (b : Cand ι) (hh : HeightsOk nmap) (hacc : importBlock certOk nmap b = .accept)
    (hbind : ∀ (b' : Cand ι) (p p' : Blk ι), b'.votes = b.votes →
      certOk p b = true → certOk p' b' = true → p'.id = p.id) :
    (∀ v, v ≠ b.version → importBlock certOk nmap { b with version := v } ≠ .accept) ∧
    (∀ h, h ≠ b.height → importBlock certOk nmap { b with height := h } ≠ .accept) ∧
    (∀ q, q ≠ b.prevID → importBlock certOk nmap { b with prevID := q } ≠ .accept) ∧
    (∀ t, t ≠ b.ts → 1 < b.height → importBlock certOk nmap { b with ts := t } ≠ .accept) := by
  refine ⟨?_, ?_, ?_, ?_⟩
  · intro v hv
    exact deviation_rejected certOk nmap b _ hh hacc rfl (hbind _ · · rfl) (Or.inl hv)
  · intro h hne
    exact deviation_rejected certOk nmap b _ hh hacc rfl (hbind _ · · rfl) (Or.inr (Or.inl hne))
  · intro q hq
    exact deviation_rejected certOk nmap b _ hh hacc rfl (hbind _ · · rfl) (Or.inr (Or.inr (Or.inl hq)))
  · intro t ht h1
    exact deviation_rejected certOk nmap b _ hh hacc rfl (hbind _ · · rfl)
      (Or.inr (Or.inr (Or.inr ⟨ht, h1⟩)))

/-- non-vacuity of `single_field_deviation_rejected`'s hypotheses: a certificate check that binds
    the votes to one id, an accepted block above height 1. -/
example :
    let certOk : Blk Nat → Cand Nat → Bool := fun p c => decide (p.id = 7) && decide (c.votes = [11, 12, 14])
    let nmap : List (Blk Nat) := [{ id := 7, height := 3, ts := 10, nextVersion := 2 }]
    let b : Cand Nat := { version := 2, height := 4, prevID := 7, ts := 12, votes := [11, 12, 14] }
    importBlock certOk nmap b = .accept ∧
      (∀ (b' : Cand Nat) (p p' : Blk Nat), b'.votes = b.votes →
        certOk p b = true → certOk p' b' = true → p'.id = p.id) := by
  refine ⟨?_, ?_⟩
  · have hm : median [11, 12, 14] = 12 := by rw [Proofs.median_of_sorted (by decide)]; decide
    simp [importBlock, lookup, verifyNewBlock, verifyTimestamp, hm, wrap64]
  intro b' p p' _ h1 h2
  simp only [Bool.and_eq_true, decide_eq_true_eq] at h1 h2
  rw [h1.1, h2.1]

/-- A change of the commit votes that moves their median away from the block's timestamp is
    rejected above height 1. -/
theorem votes_deviation_rejected (certOk : Blk ι → Cand ι → Bool) (nmap : List (Blk ι))
    (b : Cand ι) (hh : HeightsOk nmap) (vs : List Int) (h1 : 1 < b.height)
    (hmed : median vs ≠ b.ts) :
    importBlock certOk nmap { b with votes := vs } ≠ .accept := by
  intro hacc
  obtain ⟨p, _, _, _, _, _, _, ht⟩ := (import_accept_iff certOk nmap _ hh).mp hacc
  rcases ht with ht | ht
  · exact absurd ht (by simp only; omega)
  · exact hmed ht.1.symm

/-- Scope of the timestamp rule, exactly as coded (`b.Height() > 1`): a child of the genesis block
    (height 1) is accepted with *any* timestamp as long as the other checks pass. -/
theorem height_le_one_timestamp_free (certOk : Blk ι → Cand ι → Bool) (nmap : List (Blk ι))
    (b : Cand ι) (hh : HeightsOk nmap) (hacc : importBlock certOk nmap b = .accept)
    (hle : b.height ≤ 1) (t : Int)
    (hcert : ∀ p, certOk p { b with ts := t } = certOk p b) :
    importBlock certOk nmap { b with ts := t } = .accept := by
  obtain ⟨p, hl, hm, hv, hhe, hid, hc, _⟩ := (import_accept_iff certOk nmap b hh).mp hacc
  apply (import_accept_iff certOk nmap _ hh).mpr
  exact ⟨p, hl, hm, hv, hhe, hid, by rw [hcert p]; exact hc, Or.inl hle⟩

end Goloop.C07
